(* Line protocol driver for the extracted model: one s-expression per input line,
   one result string per output line.  Atoms: decimal integers, xHEX byte strings
   ("x" alone is the empty string), bare identifiers.  See harness/engine.py. *)
open Big_int_Z

type sx = A of string | L of sx list

let parse (s : string) : sx =
  let n = String.length s in
  let pos = ref 0 in
  let rec skip () = if !pos < n && (s.[!pos] = ' ' || s.[!pos] = '\t') then (incr pos; skip ()) in
  let rec item () =
    skip ();
    if !pos >= n then failwith "eof"
    else if s.[!pos] = '(' then begin
      incr pos;
      let acc = ref [] in
      let rec loop () =
        skip ();
        if !pos >= n then failwith "unclosed"
        else if s.[!pos] = ')' then incr pos
        else (acc := item () :: !acc; loop ()) in
      loop (); L (List.rev !acc)
    end else begin
      let st = !pos in
      while !pos < n && s.[!pos] <> ' ' && s.[!pos] <> '(' && s.[!pos] <> ')' do incr pos done;
      A (String.sub s st (!pos - st))
    end in
  item ()

let z_of = function A s -> big_int_of_string s | _ -> failwith "expected integer"
let nat_of = z_of
let bool_of = function A "1" -> true | A "0" -> false | _ -> failwith "expected bool"
let hexval c = match c with
  | '0'..'9' -> Char.code c - 48 | 'a'..'f' -> Char.code c - 87 | 'A'..'F' -> Char.code c - 55
  | _ -> failwith "hex"
let bytes_of = function
  | A s when String.length s >= 1 && s.[0] = 'x' ->
      let m = (String.length s - 1) / 2 in
      let rec go i acc = if i < 0 then acc
        else go (i - 1) (big_int_of_int (hexval s.[1 + 2*i] * 16 + hexval s.[2 + 2*i]) :: acc) in
      go (m - 1) []
  | _ -> failwith "expected xHEX"
let str_of = function A s -> List.init (String.length s) (String.get s) | _ -> failwith "expected atom"
let list_of f = function L l -> List.map f l | _ -> failwith "expected list"

let hex_of (l : big_int list) : string =
  let b = Buffer.create (2 * List.length l + 1) in
  List.iter (fun z ->
    if lt_big_int z zero_big_int || ge_big_int z (big_int_of_int 256) then Buffer.add_string b "<BADBYTE>"
    else Buffer.add_string b (Printf.sprintf "%02x" (int_of_big_int z))) l;
  Buffer.contents b
let zs = string_of_big_int
let opt f = function None -> "ERR" | Some x -> f x
let bs b = if b then "1" else "0"
let cstr l = let b = Buffer.create 16 in List.iter (Buffer.add_char b) l; Buffer.contents b
let cstr_bytes (l : big_int list) = let b = Buffer.create 64 in List.iter (fun z -> Buffer.add_char b (Char.chr (int_of_big_int z))) l; Buffer.contents b
let sep c f l = String.concat c (List.map f l)

let explode s = List.init (String.length s) (String.get s)
let tok_of = function
  | L [A "op"; A s] -> Model.TOp (explode s)
  | L [A "int"; n] -> Model.TInt (z_of n)
  | L [A "data"; b] -> Model.TData (bytes_of b)
  | _ -> failwith "tok"
let stok_of = function
  | L [A "op"; A s] -> Model.SOp (explode s)
  | L [A "int"; n] -> Model.SInt (z_of n)
  | L [A "data"; b] -> Model.SData (bytes_of b)
  | _ -> failwith "stok"
let item_of_name nm = match Model.spec_assoc nm Model.consensus_opcodes with
  | Some b -> "#" ^ zs b | None -> "?" ^ cstr nm
let show_tok = function
  | Model.TOp nm -> item_of_name nm
  | Model.TInt n -> "int" ^ zs n
  | Model.TData d -> "x" ^ hex_of d
let show_toks l = sep "," show_tok l
let show_item = function Model.IOp b -> "#" ^ zs b | Model.IPush [] -> "#0" | Model.IPush d -> "x" ^ hex_of d
let nat_len l = big_int_of_int (List.length l)

(* ---- transactions ---- *)
let txin_of = function
  | L [txid; vout; toks; seq] ->
      { Model.ti_txid = bytes_of txid; ti_vout = z_of vout; ti_script = list_of tok_of toks; ti_seq = bytes_of seq }
  | _ -> failwith "txin"
let txout_of = function
  | L [am; toks] -> { Model.to_amount = z_of am; to_script = list_of tok_of toks }
  | _ -> failwith "txout"
let tx_of = function
  | L [A "tx"; ver; sw; ins; outs; lt; wits] ->
      { Model.tx_version = bytes_of ver; tx_inputs = list_of txin_of ins; tx_outputs = list_of txout_of outs;
        tx_locktime = bytes_of lt; tx_segwit = bool_of sw; tx_witnesses = list_of (list_of bytes_of) wits }
  | _ -> failwith "tx"
let is_null l = List.length l = 32 && List.for_all (fun z -> eq_big_int z zero_big_int) l
(* the specification's view of the same object: scripts as bytes, numbers as numbers *)
let stx_of (t : Model.tx) : Model.s_tx option =
  let exception Bad in
  try
    let sin (i : Model.txin) =
      let sb = if is_null i.Model.ti_txid then
          (match i.Model.ti_script with Model.TData d :: _ -> d | _ -> raise Bad)
        else (match Model.spec_assemble (List.map (function Model.TOp n -> Model.SOp n | Model.TInt n -> Model.SInt n
                                                            | Model.TData d -> Model.SData d) i.Model.ti_script) with
              | Some b -> b | None -> raise Bad) in
      { Model.s_txid = i.Model.ti_txid; s_vout = i.Model.ti_vout; s_script = sb; s_seq = Model.le_val i.Model.ti_seq } in
    let sout (o : Model.txout) =
      match Model.spec_assemble (List.map (function Model.TOp n -> Model.SOp n | Model.TInt n -> Model.SInt n
                                                  | Model.TData d -> Model.SData d) o.Model.to_script) with
      | Some b -> { Model.s_amount = o.Model.to_amount; s_spk = b } | None -> raise Bad in
    Some { Model.s_version = Model.le_val t.Model.tx_version; s_ins = List.map sin t.Model.tx_inputs;
           s_outs = List.map sout t.Model.tx_outputs; s_locktime = Model.le_val t.Model.tx_locktime;
           s_witness = if t.Model.tx_segwit then Some t.Model.tx_witnesses else None }
  with Bad -> None
let show_script_in (i : Model.txin) =
  if is_null i.Model.ti_txid then
    (match i.Model.ti_script with [Model.TData d] -> "cb" ^ hex_of d | l -> "cb?" ^ show_toks l)
  else show_toks i.Model.ti_script
let dump_tx (t : Model.tx) =
  "v=" ^ hex_of t.Model.tx_version ^ ";sw=" ^ bs t.Model.tx_segwit
  ^ ";in=" ^ sep "/" (fun (i : Model.txin) -> hex_of i.Model.ti_txid ^ ":" ^ zs i.Model.ti_vout ^ ":" ^ show_script_in i ^ ":" ^ hex_of i.Model.ti_seq) t.Model.tx_inputs
  ^ ";out=" ^ sep "/" (fun (o : Model.txout) -> zs o.Model.to_amount ^ ":" ^ show_toks o.Model.to_script) t.Model.tx_outputs
  ^ ";lt=" ^ hex_of t.Model.tx_locktime
  ^ ";wit=" ^ sep "/" (fun st -> sep "." (fun d -> "x" ^ hex_of d) st) t.Model.tx_witnesses
let tx_facts (t : Model.tx) =
  opt hex_of (Model.tx_serialize t) ^ "|" ^ opt hex_of (Model.tx_to_bytes t false)
  ^ "|" ^ (match Model.tx_to_bytes t false with None -> "ERR" | Some _ -> "@t")
  ^ "|" ^ (match Model.tx_serialize t with None -> "ERR" | Some _ -> "@w")
  ^ "|" ^ opt zs (Model.get_size t) ^ "|" ^ opt zs (Model.get_vsize t)
let stx_facts (st : Model.s_tx) =
  let full = Model.spec_serialize st and stripped = Model.spec_serialize_stripped st in
  hex_of full ^ "|" ^ hex_of stripped ^ "|@t|@w|" ^ string_of_int (List.length full) ^ "|" ^ zs (Model.spec_vsize st)

(* ---- the curve used by every extracted model function: Model/EC.v at the regenerated parameters ---- *)
let cp = Model.schnorr_p and cn = Model.schnorr_n
let ec_add = Model.point_add cp
let ec_lift = Model.lift_x cp
let ec_g = Model.secp_G
let show_pt = function None -> "INF" | Some (x, y) -> zs x ^ "," ^ zs y
let pt_of = function A "INF" -> None | L [x; y] -> Some (z_of x, z_of y) | _ -> failwith "point"
let rec tree_of = function
  | L [A "leaf"; ts] -> Model.TLeaf (list_of tok_of ts)
  | L [A "list"] -> Model.TList0
  | L [A "list"; a] -> Model.TList1 (tree_of a)
  | L [A "list"; a; b] -> Model.TList2 (tree_of a, tree_of b)
  | L (A "list" :: _) -> Model.TListMany
  | _ -> failwith "tree"
let sarg_of = function
  | A "none" -> Model.SNone
  | L [A "root"; b] -> Model.SRoot (bytes_of b)
  | t -> Model.STree (tree_of t)
let pair_of = function L [x; y] -> (z_of x, z_of y) | _ -> failwith "pair"

let sqrts a = Model.sqrt_mod_list cp a
let aty_of = function A "p2pkh" -> Model.P2PKH | A "p2sh" -> Model.P2SH | _ -> failwith "addr type"
let sty_of = function A "p2wpkh" -> Model.P2WPKH | A "p2wsh" -> Model.P2WSH | A "p2tr" -> Model.P2TR | _ -> failwith "seg type"
let optarg f = function A "-" -> None | x -> Some (f x)

let dispatch (name : string) (args : sx list) : string =
  match name, args with
  (* ---- C14 ---- *)
  | "msg_verify", [net; addr; sg; msg] ->
      let inv a = Model.modpow a (sub_big_int cn (big_int_of_int 2)) cn in
      let addr_of c q = (match Model.pub_to_hash160 Model.sha256 c q with
        | None -> [] | Some h -> (match Model.address_to_string Model.sha256 Model.P2PKH (str_of net) h with Some s -> s | None -> [])) in
      (match Model.verify_message Model.sha256 cp cn ec_add ec_g inv sqrts addr_of (bytes_of addr) (bytes_of sg) (bytes_of msg) with
       | Some true -> "1" | _ -> "0")
  | "msg_recover", [msg; sg] ->
      let inv a = Model.modpow a (sub_big_int cn (big_int_of_int 2)) cn in
      (match Model.recover_pubkey Model.sha256 cp cn ec_add ec_g inv sqrts (bytes_of msg) (bytes_of sg) with
       | Some (Some q) -> opt hex_of (Model.pub_to_bytes false q) | _ -> "ERR")
  (* ---- C13: the store model: build an object graph with fresh locations, copy it, check separation ---- *)
  | "heap_copy", [nin; nout; nwit] ->
      let n x = int_of_big_int (z_of x) in
      let ctr = ref 0 in
      let fresh () = let c = !ctr in incr ctr; big_int_of_int c in
      let mk_script () = { Model.sc_obj = fresh (); sc_list = fresh (); sc_content = [] } in
      let ins = List.init (n nin) (fun _ -> let s = mk_script () in { Model.in_obj = fresh (); in_script = s; in_fields = [] }) in
      let outs = List.init (n nout) (fun _ -> let s = mk_script () in { Model.out_obj = fresh (); out_script = s; out_amount = zero_big_int }) in
      let wits = List.init (n nwit) (fun _ -> { Model.wit_obj = fresh (); wit_stack = fresh (); wit_items = [] }) in
      let t = { Model.tx_obj = fresh (); tx_ins_list = fresh (); tx_outs_list = fresh (); tx_wits_list = fresh ();
                tx_ins = ins; tx_outs = outs; tx_wits = wits; tx_fields = [] } in
      let (t', _) = Model.copy_tx t (big_int_of_int !ctr) in
      let l1 = Model.locs_tx t and l2 = Model.locs_tx t' in
      let disjoint = List.for_all (fun a -> not (List.exists (fun b -> eq_big_int a b) l2)) l1 in
      let (a, c1) = Model.new_txin_default [] (big_int_of_int 0) in
      let (b, _) = Model.new_txin_default [] c1 in
      let fresh_sep = List.for_all (fun x -> not (List.exists (fun y -> eq_big_int x y) (Model.locs_in b))) (Model.locs_in a) in
      "sep=" ^ bs (disjoint && fresh_sep) ^ ",orig_unchanged=" ^ bs (Model.val_tx t' = Model.val_tx t)
  (* ---- C19: the wrapper model run over symbolic keys (the path from the root) ---- *)
  | "hd", [net; init; paths] ->
      let ckd (k : big_int list) (i : big_int) = k @ [i] in
      let show st = match Model.hd_get_private_key (str_of net) st with
        | None -> "ERR" | Some k -> String.concat "/" (List.map zs k) in
      let mainnet = Model.is_mainnet (str_of net) in
      let s0 = (match init with
        | L [A "mn"] -> Model.hd_init ckd mainnet None None (Some [])
        | L [A "xp"; p0] -> Model.hd_init ckd mainnet (Some []) (Some (list_of z_of p0)) None
        | _ -> failwith "hd init") in
      let rec go st ps acc = match ps with
        | [] -> List.rev acc
        | p :: r -> let st' = Model.hd_from_path ckd st (list_of z_of p) in go st' r (show st' :: acc) in
      String.concat "|" (show s0 :: go s0 (match paths with L l -> l | _ -> failwith "paths") [])
  (* ---- C09 ---- *)
  | "priv_init", [net; wif; e; b] ->
      (match Model.priv_init Model.sha256 cn (str_of net) (optarg bytes_of wif) (optarg z_of e) (optarg bytes_of b) with
       | Model.PrivOk d -> "OK:" ^ zs d | Model.PrivErr -> "ERR" | Model.PrivRandom -> "RANDOM")
  | "to_wif", [net; c; d] -> opt hex_of (Model.priv_to_wif Model.sha256 (str_of net) (bool_of c) (z_of d))
  | "wif_roundtrip", [net; c; d] ->
      (match Model.priv_to_wif Model.sha256 (str_of net) (bool_of c) (z_of d) with
       | None -> "ERR"
       | Some w ->
           hex_of w ^ "|" ^ (match Model.priv_init Model.sha256 cn (str_of net) (Some w) None None with
                             | Model.PrivOk d -> "OK:" ^ zs d | Model.PrivErr -> "ERR" | Model.PrivRandom -> "RANDOM") ^ "|1")
  | "pub_roundtrip", [d] ->
      (match Model.get_public_key ec_add ec_g (z_of d) with
       | None -> "ERR"
       | Some pq ->
           let show pq = zs (fst pq) ^ "," ^ zs (snd pq) ^ "|" ^ opt hex_of (Model.pub_to_bytes true pq) ^ "|" ^ opt hex_of (Model.pub_to_bytes false pq)
                         ^ "|" ^ opt hex_of (Model.pub_to_x_only pq) ^ "|" ^ bs (Model.is_y_even pq) in
           let back enc = match enc with None -> "ERR" | Some b -> (match Model.pub_from_bytes cp sqrts b with None -> "ERR" | Some q -> show q) in
           String.concat "||" [show pq; back (Model.pub_to_bytes true pq); back (Model.pub_to_bytes false pq); back (Model.pub_to_x_only pq)])
  | "pub_of", [d] -> show_pt (Model.get_public_key ec_add ec_g (z_of d))
  | "pub_parse", [b] ->
      (match Model.pub_from_bytes cp sqrts (bytes_of b) with
       | None -> "ERR"
       | Some pq ->
           zs (fst pq) ^ "," ^ zs (snd pq) ^ "|" ^ opt hex_of (Model.pub_to_bytes true pq) ^ "|" ^ opt hex_of (Model.pub_to_bytes false pq)
           ^ "|" ^ opt hex_of (Model.pub_to_x_only pq) ^ "|" ^ bs (Model.is_y_even pq))
  | "pub_hash160", [c; pq] -> opt hex_of (Model.pub_to_hash160 Model.sha256 (bool_of c) (pair_of pq))
  (* ---- C10 ---- *)
  | "addr_from_string", [ty; net; s] ->
      bs (Model.is_address_valid Model.sha256 (aty_of ty) (str_of net) (bytes_of s)) ^ "|"
      ^ opt hex_of (Model.address_from_string Model.sha256 (aty_of ty) (str_of net) (bytes_of s))
  | "addr_enc_dec", [ty; net; h] ->
      (match Model.address_to_string Model.sha256 (aty_of ty) (str_of net) (bytes_of h) with
       | None -> "ERR"
       | Some s -> hex_of s ^ "|" ^ opt hex_of (Model.address_from_string Model.sha256 (aty_of ty) (str_of net) s))
  | "pk_addr", [net; c; pq] ->
      (match Model.pub_to_hash160 Model.sha256 (bool_of c) (pair_of pq) with
       | None -> "ERR"
       | Some h -> opt hex_of (Model.address_to_string Model.sha256 Model.P2PKH (str_of net) h) ^ "," ^ hex_of h)
  | "addr_to_string", [ty; net; h] -> opt hex_of (Model.address_to_string Model.sha256 (aty_of ty) (str_of net) (bytes_of h))
  (* ---- C12 ---- *)
  | "spk", [A "p2pkh"; h] -> opt hex_of (Model.to_bytes (Model.spk_p2pkh (bytes_of h)))
  | "spk", [A "p2sh"; h] -> opt hex_of (Model.to_bytes (Model.spk_p2sh (bytes_of h)))
  | "spk", [ty; h] -> opt hex_of (Model.to_bytes (Model.spk_segwit (sty_of ty) (bytes_of h)))
  | "script_helpers", [ts] ->
      let ts = list_of tok_of ts in
      opt (fun l -> opt hex_of (Model.to_bytes l)) (Model.to_p2sh_script_pub_key (Model.hash160 Model.sha256) ts)
      ^ "," ^ opt (fun l -> opt hex_of (Model.to_bytes l)) (Model.to_p2wsh_script_pub_key Model.sha256 ts)
  | "script_all", [net; ts] ->
      let ts = list_of tok_of ts in
      let h = Model.script_to_hash160 Model.sha256 ts and w = Model.script_to_sha256 Model.sha256 ts in
      String.concat "|" [opt hex_of h; opt hex_of w;
        opt (fun l -> opt hex_of (Model.to_bytes l)) (Model.to_p2sh_script_pub_key (Model.hash160 Model.sha256) ts);
        opt (fun l -> opt hex_of (Model.to_bytes l)) (Model.to_p2wsh_script_pub_key Model.sha256 ts);
        opt (fun h -> opt hex_of (Model.to_bytes (Model.spk_p2sh h))) h;
        opt (fun w -> opt hex_of (Model.to_bytes (Model.spk_segwit Model.P2WSH w))) w;
        opt (fun h -> opt hex_of (Model.address_to_string Model.sha256 Model.P2SH (str_of net) h)) h]
  | "script_hashes", [ts] ->
      let ts = list_of tok_of ts in
      opt hex_of (Model.script_to_hash160 Model.sha256 ts) ^ "|" ^ opt hex_of (Model.script_to_sha256 Model.sha256 ts)
      ^ "|" ^ opt (fun l -> opt hex_of (Model.to_bytes l)) (Model.to_p2sh_script_pub_key (Model.hash160 Model.sha256) ts)
      ^ "|" ^ opt (fun l -> opt hex_of (Model.to_bytes l)) (Model.to_p2wsh_script_pub_key Model.sha256 ts)
  (* ---- C11 ---- *)
  | "seg_to_string", [ty; net; prog] -> opt hex_of (Model.segwit_to_string (sty_of ty) (str_of net) (bytes_of prog))
  | "seg_to_string_txt", [ty; net; prog] -> opt cstr_bytes (Model.segwit_to_string (sty_of ty) (str_of net) (bytes_of prog))
  | "seg_enc_dec", [ty; net; prog] ->
      (match Model.segwit_to_string (sty_of ty) (str_of net) (bytes_of prog) with
       | None -> "ERR"
       | Some s ->
           let back = opt hex_of (Model.segwit_from_string (sty_of ty) (str_of net) s) in
           cstr_bytes s ^ "|" ^ back ^ "|" ^ back ^ "|" ^ cstr_bytes s ^ "|" ^ bs (Model.is_address_bech32 s))
  | "seg_from_string", [ty; net; s] -> opt hex_of (Model.segwit_from_string (sty_of ty) (str_of net) (bytes_of s))
  | "is_bech32", [s] -> bs (Model.is_address_bech32 (bytes_of s))
  (* ---- C06 ---- *)
  | "sign_input_stub", [sigs; ht] ->
      let l = list_of bytes_of sigs in
      let signer k = let i = int_of_big_int k in if i < List.length l then List.nth l i else List.nth l (List.length l - 1) in
      opt hex_of (Model.sign_input (big_int_of_int 64) signer (z_of ht))
  | "normalise", [sg; ht] -> opt hex_of (Model.normalise (bytes_of sg) (z_of ht))
  | "strict_der_norm", [r; s; ht] -> hex_of (Model.strict_der (z_of r) (Model.normal_s (z_of s))) ^ hex_of [z_of ht]
  | "bip66_valid", [sg] -> bs (Model.is_valid_signature_encoding (bytes_of sg))
  (* ---- C20 ---- *)
  | "ripemd160", [b] -> hex_of (Model.ripemd160 (bytes_of b))
  | "ripemd160_spec", [b] -> hex_of (Model.ripemd160_spec (bytes_of b))
  | "tagged_hash", [d; tag] -> hex_of (Model.tagged_hash Model.sha256 (bytes_of d) (str_of tag))
  | "schnorr_sign", [m; k; a] -> opt hex_of (Model.schnorr_sign Model.sha256 cp cn ec_add ec_lift ec_g (bytes_of m) (bytes_of k) (bytes_of a))
  | "schnorr_verify", [m; pk; sg] ->
      opt bs (Model.schnorr_verify Model.sha256 cp cn ec_add ec_lift ec_g (bytes_of m) (bytes_of pk) (bytes_of sg))
  | "point_add", [a; b] -> show_pt (ec_add (pt_of a) (pt_of b))
  | "point_mul", [a; k] -> show_pt (Model.point_mul cp (pt_of a) (z_of k))
  | "lift_x", [x] -> show_pt (ec_lift (z_of x))
  (* ---- C07 / C08 ---- *)
  | "full_pubkey", [k] -> opt (fun (x, y) -> zs x ^ "," ^ zs y) (Model.full_pubkey_gen cn ec_add ec_g (bytes_of k))
  | "to_taproot", [pub; sc] ->
      opt (fun (xb, odd) -> hex_of xb ^ "," ^ bs odd) (Model.to_taproot Model.sha256 ec_add ec_g Model.params_field (pair_of pub) (sarg_of sc))
  | "control_block", [pub; t; idx; odd] -> opt hex_of (Model.control_block Model.sha256 (pair_of pub) (tree_of t) (z_of idx) (bool_of odd))
  | "taproot_cb", [pub; t; idx] ->
      let pub = pair_of pub and t = tree_of t in
      (match Model.to_taproot Model.sha256 ec_add ec_g Model.params_field pub (Model.STree t) with
       | None -> "ERR"
       | Some (xb, odd) ->
           hex_of xb ^ "," ^ bs odd ^ "|" ^ opt hex_of (Model.control_block Model.sha256 pub t (z_of idx) odd))
  | "merkle_root", [t] -> opt hex_of (Model.merkle_root Model.sha256 (tree_of t))
  | "sign_taproot", [k; dg; ht; sc; tw] ->
      opt hex_of (Model.sign_taproot Model.sha256 cp cn ec_add ec_lift ec_g Model.params_order
                    (bytes_of k) (bytes_of dg) (z_of ht) (sarg_of sc) (bool_of tw))
  | "verify_script_path", [cb; sc; wp] ->
      bs (Model.verify_script_path Model.sha256 cn ec_add ec_lift ec_g (Model.str_bytes (explode "TapLeaf"))
            (Model.str_bytes (explode "TapBranch")) (Model.str_bytes (explode "TapTweak")) (bytes_of cb) (bytes_of sc) (bytes_of wp))
  (* ---- C03 / C04 / C05 ---- *)
  | "legacy_pre", [t; i; sc; ht] ->
      opt (fun b -> "P:" ^ hex_of b) (Model.legacy_preimage (tx_of t) (nat_of i) (list_of tok_of sc) (z_of ht))
  | "spec_legacy_pre", [t; i; sc; ht] ->
      (match stx_of (tx_of t), Model.spec_assemble (list_of stok_of sc) with
       | Some st, Some scb -> opt (fun b -> "P:" ^ hex_of b) (Model.spec_legacy_preimage st (nat_of i) scb (z_of ht))
       | _, _ -> "ERR")
  | "segwit_pre", [t; i; sc; am; ht] ->
      opt (fun b -> "P:" ^ hex_of b) (Model.segwit_preimage Model.sha256 (tx_of t) (nat_of i) (list_of tok_of sc) (z_of am) (z_of ht))
  | "spec_segwit_pre", [t; i; sc; am; ht] ->
      (match stx_of (tx_of t), Model.spec_assemble (list_of stok_of sc) with
       | Some st, Some scb -> opt (fun b -> "P:" ^ hex_of b) (Model.bip143_preimage Model.sha256 st (nat_of i) scb (z_of am) (z_of ht))
       | _, _ -> "ERR")
  | "taproot_digest", [t; i; spks; amts; ext; sc; ht] ->
      opt hex_of (Model.taproot_digest Model.sha256 (tx_of t) (nat_of i) (list_of (list_of tok_of) spks) (list_of z_of amts)
                    (z_of ext) (list_of tok_of sc) (z_of ht))
  | "spec_taproot_digest", [t; i; spks; amts; ext; sc; ht] ->
      let exception Bad in
      (try
        let st = (match stx_of (tx_of t) with Some st -> st | None -> raise Bad) in
        let asm l = (match Model.spec_assemble (list_of stok_of l) with Some b -> b | None -> raise Bad) in
        let spkb = list_of asm spks and am = list_of z_of amts in
        if List.length spkb <> List.length am then raise Bad;
        let spent = List.combine am spkb in
        let leaf = if eq_big_int (z_of ext) unit_big_int then Some (asm sc) else None in
        let tagb n = if eq_big_int n zero_big_int then Model.str_bytes (explode "TapLeaf") else Model.str_bytes (explode "TapSighash") in
        opt hex_of (Model.taproot_sighash Model.sha256 tagb st spent (nat_of i) (z_of ht) leaf)
      with Bad -> "ERR")
  (* ---- C15 ---- *)
  | "header", [raw] ->
      (match Model.header_from_raw (bytes_of raw) with
       | None -> "ERR"
       | Some h ->
           zs h.Model.h_version ^ "," ^ hex_of h.Model.h_prev ^ "," ^ hex_of h.Model.h_merkle ^ "," ^ zs h.Model.h_time
           ^ "," ^ zs h.Model.h_bits ^ "," ^ zs h.Model.h_nonce
           ^ "|" ^ opt hex_of (Model.serialize_header h)
           ^ "|" ^ opt hex_of (Model.get_block_hash Model.sha256 h)
           ^ "|" ^ opt zs (Model.get_target h))
  | "txlen", [raw] -> opt zs (Model.get_transaction_length (bytes_of raw))
  | "block", [raw] ->
      (match Model.block_from_raw (bytes_of raw) with
       | None -> "ERR"
       | Some b ->
           hex_of b.Model.b_magic ^ "," ^ zs b.Model.b_size ^ "," ^ zs b.Model.b_count ^ "," ^ string_of_int (List.length b.Model.b_txs)
           ^ "|" ^ sep ";" (fun t -> opt hex_of (Model.tx_serialize t)) b.Model.b_txs)
  (* ---- C01 / C16 ---- *)
  | "sha256", [b] -> hex_of (Model.sha256 (bytes_of b))
  | "tx_facts", [t] -> tx_facts (tx_of t)
  | "tx_ids", [t] -> let t = tx_of t in   (* ids through the Gallina SHA-256 (small transactions only) *)
      opt hex_of (Model.get_txid Model.sha256 t) ^ "|" ^ opt hex_of (Model.get_wtxid Model.sha256 t)
  | "stx_facts", [t] -> (match stx_of (tx_of t) with None -> "ERR" | Some st -> stx_facts st)
  | "tx_sizes", [t] -> let t = tx_of t in
      opt zs (Model.get_size t) ^ "," ^ opt zs (Model.get_vsize t) ^ ","
      ^ opt (fun b -> string_of_int (List.length b)) (Model.tx_serialize t) ^ ","
      ^ opt (fun b -> string_of_int (List.length b)) (Model.tx_to_bytes t false)
  | "stx_sizes", [t] ->
      (match stx_of (tx_of t) with None -> "ERR" | Some st ->
        let full = List.length (Model.spec_serialize st) and stripped = List.length (Model.spec_serialize_stripped st) in
        string_of_int full ^ "," ^ zs (Model.spec_vsize st) ^ "," ^ string_of_int full ^ "," ^ string_of_int stripped)
  | "tx_parse", [raw] ->
      (match Model.tx_from_raw (bytes_of raw) with
       | None -> "ERR"
       | Some t -> dump_tx t ^ "|" ^ tx_facts t)
  | "tx_roundtrip", [t] ->
      (match Model.tx_serialize (tx_of t) with
       | None -> "ERR"
       | Some raw -> (match Model.tx_from_raw raw with None -> "ERR" | Some t2 -> dump_tx t2 ^ "|" ^ tx_facts t2))
  (* ---- C18 ---- *)
  | "seq", [ty; v; blk] ->
      (match Model.mk_sequence (z_of ty) (z_of v) (bool_of blk) with
       | None -> "ERR"
       | Some s ->
           (match Model.for_input_sequence s with
            | Model.SeqBytes b -> hex_of b | Model.SeqNone -> "NONE" | Model.SeqErr -> "ERR")
           ^ "|" ^ opt zs (Model.for_script s))
  | "seq_facts", [ty; v; blk; want_rbf] ->
      (match Model.mk_sequence (z_of ty) (z_of v) (bool_of blk) with
       | None -> "ERR"
       | Some s ->
           (match Model.for_input_sequence s with
            | Model.SeqBytes b ->
                let x = Model.le_val b in
                "len4=" ^ bs (List.length b = 4) ^ ",nonfinal=" ^ bs (Model.enforces_locktime x)
                ^ (if bool_of want_rbf then ",rbf=" ^ bs (Model.signals_rbf x) else "")
            | Model.SeqNone -> "NONE" | Model.SeqErr -> "ERR")
           ^ "|" ^ opt zs (Model.for_script s))
  | "seq_spec", [v; blk] ->
      (* BIP68 encoding written directly: value in the low 16 bits, bit 22 for 512-second units *)
      let x = add_big_int (z_of v) (if bool_of blk then zero_big_int else big_int_of_int 4194304) in
      let ok = Model.bip112_ok x (big_int_of_int 2) x in
      hex_of (Model.le_bytes (big_int_of_int 4) x) ^ "|" ^ zs x ^ (if ok then "" else "|BIP112-FAILS")
  | "csv_script_spec", [v; blk] ->
      let x = add_big_int (z_of v) (if bool_of blk then zero_big_int else big_int_of_int 4194304) in
      opt hex_of (Model.spec_assemble [Model.SInt x; Model.SOp (explode "OP_CHECKSEQUENCEVERIFY")])
  | "locktime", [v] -> opt hex_of (Model.locktime_for_transaction (z_of v))
  | "le32", [v] -> hex_of (Model.le_bytes (big_int_of_int 4) (z_of v))
  (* ---- C02 ---- *)
  | "to_bytes", [ts] -> opt hex_of (Model.to_bytes (list_of tok_of ts))
  | "spec_assemble", [ts] -> opt hex_of (Model.spec_assemble (list_of stok_of ts))
  | "from_raw", [b; hs] -> show_toks (Model.from_raw (bytes_of b) (bool_of hs))
  | "asm_dis", [ts; hs] ->
      (match Model.to_bytes (list_of tok_of ts) with
       | None -> "ERR"
       | Some raw ->
           let back = Model.from_raw raw (bool_of hs) in
           hex_of raw ^ "|" ^ show_toks back ^ "|" ^ opt hex_of (Model.to_bytes back))
  | "spec_asm_dis", [ts] ->
      (match Model.spec_assemble (list_of stok_of ts) with
       | None -> "ERR"
       | Some raw ->
           hex_of raw ^ "|" ^ opt (sep "," show_item) (Model.spec_disassemble (nat_len raw) raw) ^ "|" ^ hex_of raw)
  | "scriptnum", [n] -> hex_of (Model.spec_scriptnum (z_of n)) ^ "|" ^ opt zs (Model.scriptnum_decode_minimal (Model.spec_scriptnum (z_of n)))
  | "scriptnum_decode", [b] -> opt zs (Model.scriptnum_decode_minimal (bytes_of b))
  (* ---- C17 ---- *)
  | "encode_varint", [n] -> opt hex_of (Model.encode_varint (z_of n))
  | "spec_compact", [n] -> hex_of (Model.spec_compact (z_of n))
  | "parse_compact_size", [b] -> opt (fun (v, k) -> zs v ^ "," ^ zs k) (Model.parse_compact_size (bytes_of b))
  | "vi_to_int", [b] -> opt (fun (v, k) -> zs v ^ "," ^ zs k) (Model.vi_to_int (bytes_of b))
  | "spec_decode_any", [b] -> opt (fun (v, k) -> zs v ^ "," ^ zs k) (Model.spec_decode_any (bytes_of b))
  | "prepend_compact_size", [b] -> opt hex_of (Model.prepend_compact_size (bytes_of b))
  | "prepend_hdr", [len; fill] ->
      let data = List.init (int_of_big_int (z_of len)) (fun _ -> z_of fill) in
      (match Model.prepend_compact_size data with
       | None -> "ERR"
       | Some out ->
           let k = List.length out - List.length data in
           let rec split i l acc = if i = 0 then (List.rev acc, l) else
             (match l with [] -> (List.rev acc, []) | x :: t -> split (i-1) t (x :: acc)) in
           let (h, t) = split k out [] in
           hex_of h ^ ":" ^ (if t = data then "same" else "DIFF"))
  | "to_satoshis_int", [n] -> zs (Model.to_satoshis_int (z_of n))
  | "to_satoshis_dec", [c; e] -> zs (Model.to_satoshis_dec (z_of c) (nat_of e))
  | _ -> "DRIVER_ERROR unknown function " ^ name

let () =
  try
    while true do
      let line = input_line stdin in
      let r =
        try (match parse line with
             | L (A name :: args) -> dispatch name args
             | _ -> "DRIVER_ERROR bad request")
        with
        | Stack_overflow -> "DRIVER_ERROR stack overflow"
        | e -> "DRIVER_ERROR " ^ Printexc.to_string e in
      print_string r; print_newline ()
    done
  with End_of_file -> ()
