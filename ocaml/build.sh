#!/bin/sh
# Extracts the model and builds the driver. Run from anywhere.
set -e
cd "$(dirname "$0")"
timeout 600 coqc -Q ../coq BU ../coq/Extract/Extract.v >/dev/null
timeout 600 ocamlfind ocamlopt -O2 -w -a -package zarith -linkpkg zx.ml model.mli model.ml driver.ml -o driver 2>&1 || \
timeout 600 ocamlfind ocamlopt -w -a -package zarith -linkpkg zx.ml model.mli model.ml driver.ml -o driver
