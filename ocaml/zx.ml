(* Targets of the three extraction directives of coq/Extract/Extract.v: two's-complement bitwise
   operations of zarith, which have the same semantics as Coq's Z.land / Z.lor / Z.lxor on all of Z. *)
let logand = Z.logand
let logor = Z.logor
let logxor = Z.logxor
