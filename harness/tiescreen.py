"""Soundness screen of the source tie (a self-test, not a registered check).

Every AST mutant (harness/mutscreen.py's operators) of the ten translated functions is pushed through the
translator and its tie proof.  Expected: the tie proof breaks (or the translator refuses) for every mutant
that changes the function's behaviour.  A mutant whose tie STILL proves although the function now behaves
differently on some probe input would mean the translator or PySem.v is unsound: those are printed as
UNSOUND.  Holds the build lock while it runs and restores coq/Gen/Src.v at the end.

usage: tiescreen.py [--out file.json]
"""
import ast, fcntl, importlib, json, os, random, shutil, subprocess, sys, tempfile, time

HERE = os.path.dirname(os.path.abspath(__file__))
ROOT = os.path.dirname(HERE)
COQ = os.path.join(ROOT, "coq")
sys.path.insert(0, HERE)
import mutscreen as M
import gen_src as G

DEPENDENTS = {"encode_varint": ["encode_varint", "prepend_compact_size", "add_magic_prefix"], "op_push_data": ["op_push_data", "push_integer"],
              "schnorr_tagged_hash": ["tagged_hash"], "get_target_bits": ["block_header"], "txout_to_bytes": ["tx_parts", "tx_whole"], "txin_to_bytes": ["tx_parts", "tx_whole"], "witness_to_bytes": ["tx_whole"], "tx_to_bytes": ["tx_whole", "tx_ids"], "get_txid": ["tx_ids"], "segwit_digest": ["segwit_digest"], "legacy_digest": ["legacy_digest"], "taproot_digest": ["taproot_digest"], "get_hash": ["tx_ids"], "get_size": ["tx_ids"], "serialize_header": ["block_header"], "get_block_hash": ["block_header"], "tagged_hash": ["tagged_hash", "tapbranch_tagged_hash", "tapleaf_tagged_hash"]}
ONLY = [a for a in sys.argv[1:] if not a.startswith("--") and not a.endswith(".json") and not a.isdigit()]
MAXPER = int(sys.argv[sys.argv.index("--max") + 1]) if "--max" in sys.argv else 0   # sample at most this many mutants per function


def probes(qual, file=""):
    r = random.Random(5)
    if qual == "TxWitnessInput.to_bytes":
        return [([],), ([""],), (["aa"],), (["aa" * 72, "bb" * 33],), (["cc" * 252, "", "dd" * 253],), (["ee"] * 300,), (["ff" * 70000],)]
    if qual == "Transaction.get_transaction_taproot_digest":
        out = []
        for nin, nout in ((1, 1), (2, 3), (3, 1)):
            for idx in range(nin):
                for ht in (0, 1, 2, 3, 0x81, 0x82, 0x83):
                    for ext in (0, 1):
                        out.append((nin, nout, idx, ht, ext))
        out.append((2, 2, 5, 1, 0)); out.append((1, 1, 0, 256, 0)); out.append((1, 1, 0, 1, 200))
        return out
    if qual == "Transaction.get_transaction_digest":
        out = []
        for nin, nout in ((1, 1), (2, 3), (3, 1), (2, 0)):
            for idx in range(nin):
                for ht in (1, 2, 3, 0x81, 0x82, 0x83):
                    out.append((nin, nout, idx, ht))
        out.append((2, 2, 5, 1)); out.append((1, 1, 0, 2 ** 31))
        return out
    if qual == "Transaction.get_transaction_segwit_digest":
        out = []
        for nin, nout in ((1, 1), (2, 3), (3, 1), (2, 0)):
            for idx in range(nin):
                for ht in (1, 2, 3, 0x81, 0x82, 0x83):
                    out.append((nin, nout, idx, ht, 5000 + idx))
        out.append((2, 2, 5, 1, 7)); out.append((1, 1, 0, 1, 2 ** 63)); out.append((1, 1, 0, 2 ** 31, 7))
        return out
    if qual in ("Transaction.get_txid", "Transaction._get_hash", "Transaction.get_size"):
        return [(1, 1, [["aa" * 72, "bb" * 33]], True), (2, 1, [[], ["cc"]], True), (1, 0, [[""]], False), (3, 2, [["aa"], [], ["bb", "cc"]], True), (2, 2, [], False)]
    if qual == "Transaction.to_bytes":
        out = []
        for nin, nout, wits in ((1, 1, [["aa" * 72, "bb" * 33]]), (2, 1, [[], ["cc"]]), (1, 0, [[""]]), (3, 2, [["aa"], [], ["bb", "cc"]]), (253, 1, []), (1, 253, [[]])):
            for hs in (True, False):
                out.append((nin, nout, wits, hs))
        return out
    if qual == "TxOutput.to_bytes":
        scripts = [[], ["OP_1"], ["OP_DUP", "OP_HASH160", "aa" * 20, "OP_EQUALVERIFY", "OP_CHECKSIG"], ["bb" * 252], ["bb" * 253], ["cc" * 70000], [5, 17, 300]]
        return [(a, sc) for a in (0, 1, 546, 2 ** 32, 2 ** 63 - 1, 2 ** 63, -1, -2 ** 63, -2 ** 63 - 1) for sc in scripts[:3]] + [(7, sc) for sc in scripts]
    if qual == "TxInput.to_bytes":
        out = []
        for txid in ("00" * 32, "11" * 32, "00" * 31 + "01", "ab" * 32):
            for vout in (0, 1, 2 ** 32 - 1, 2 ** 32, -1):
                for sc in ([], ["aabb"], ["OP_1", "cc" * 80], ["dd" * 300], ["OP_DUP"]):
                    out.append((txid, vout, sc, b"\xff\xff\xff\xff" if vout % 2 == 0 else b"\x01\x00\x00\x00"))
        return out
    if qual.startswith("BlockHeader."):
        hs = []
        for bits in (0x1d00ffff, 0x03000001, 0x02000001, 0x00ffffff, 0x207fffff, 0x21000001, 0xff7fffff, 0x04800000, 0):
            hs.append((1, bytes(range(32)), bytes(range(32, 64)), 1231006505, bits, 2083236893))
        hs += [(2 ** 32 - 1, b"\xff" * 32, bytes(32), 0, 0x1d00ffff, 2 ** 32 - 1), (2 ** 32, bytes(32), bytes(32), 5, 0x1d00ffff, 7), (-1, bytes(32), bytes(32), 5, 0x1d00ffff, 7),
               (1, bytes(32), bytes(32), 2 ** 32, 0x1d00ffff, 7), (1, bytes(32), bytes(32), 5, 2 ** 32, 7), (1, bytes(32), bytes(32), 5, 0x1d00ffff, 2 ** 32)]
        return hs
    if qual == "add_magic_prefix":
        return [(m,) for m in ["", "a", "x" * 252, "y" * 253, "z" * 70000, "\u00e9\u00e9", "\u00e9" * 127, "\u00e9" * 126 + "a", "ab\ncd"]]
    if qual == "tagged_hash":
        pairs = [(b"", "TapLeaf"), (b"\x00" * 32, "TapBranch"), (bytes(range(64)), "BIP0340/challenge"), (b"abc", "x"), (bytes(100), "TapTweak")]
        return [(t, d) for d, t in pairs] if file.endswith("schnorr.py") else pairs
    if qual == "tapbranch_tagged_hash":
        a, b = bytes(range(32)), bytes(range(1, 33))
        return [(a, b), (b, a), (a, a), (bytes(32), b"\xff" * 32), (b"\xff" * 32, bytes(32)), (b"\x01" + bytes(31), b"\x00" + b"\xff" * 31)]
    if qual == "tapleaf_tagged_hash":
        return [(["OP_1"],), (["aa" * 75],), (["aa" * 76, "OP_CHECKSIG"],), (["bb" * 300],), ([],), (["cc" * 70000],)]
    ints = [-1, 0, 1, 2, 16, 17, 75, 76, 127, 128, 129, 252, 253, 254, 255, 256, 257, 32767, 32768, 65535, 65536, 65537, 2 ** 22, 2 ** 22 + 5,
            2 ** 31 - 1, 2 ** 31, 2 ** 32 - 1, 2 ** 32, 2 ** 32 + 1, 2 ** 63, 2 ** 64 - 1, 2 ** 64, 2 ** 64 + 1, 2 ** 70] + \
           [r.getrandbits(k) for k in (7, 8, 9, 15, 16, 17, 23, 24, 31, 32, 33, 40, 63, 64) for _ in range(6)]
    if qual in ("encode_varint", "Script._push_integer"):
        return [(i,) for i in ints]
    if qual == "prepend_compact_size":
        return [(bytes(n % 251 for n in range(k)),) for k in (0, 1, 75, 252, 253, 254, 300, 65535, 65536, 70000)]
    if qual in ("parse_compact_size", "vi_to_int"):
        out = [(b"",)]
        for first in (0, 1, 252, 253, 254, 255):
            for ln in range(0, 11):
                out.append((bytes([first]) + bytes((7 * j + 1) % 256 for j in range(ln)),))
        return out
    if qual == "Script._op_push_data":
        return [(bytes(n % 251 for n in range(k)).hex(),) for k in (0, 1, 2, 74, 75, 76, 77, 254, 255, 256, 257, 65534, 65535, 65536, 70000)]
    if qual.startswith("Sequence") or qual.startswith("Locktime"):
        vals = [-1, 0, 1, 2, 255, 256, 65534, 65535, 65536, 2 ** 22, 2 ** 22 + 5, 2 ** 31, 2 ** 32 - 1, 2 ** 32, 2 ** 40]
        if qual.startswith("Locktime"):
            return [(v,) for v in vals]
        return [(ty, v, blk) for ty in (257, 513, 769, 5) for v in vals for blk in (True, False)]
    return []


def behaviour(repo, qual, file=""):
    """outputs of the function on the probe inputs, in a subprocess importing from `repo`"""
    code = r'''
import sys, json
sys.path.insert(0, %r); sys.path.insert(0, %r)
import tiescreen as T
from bitcoinutils import utils, script, transactions
qual = %r
file = %r
from bitcoinutils import schnorr
out = []
for args in T.probes(qual, file):
    try:
        if qual == "tagged_hash" and file.endswith("schnorr.py"):
            r = schnorr.tagged_hash(*args)
        elif qual == "TxWitnessInput.to_bytes":
            r = transactions.TxWitnessInput(args[0]).to_bytes()
        elif qual == "Transaction.get_transaction_taproot_digest":
            nin, nout, idx, ht, ext = args
            ins = [transactions.TxInput("{:064x}".format(i + 1), i * 7, script.Script([]), bytes([i, 0, 0, 255 - i])) for i in range(nin)]
            outs = [transactions.TxOutput(1000 + i, script.Script(["OP_1", "bb" * (20 + i)])) for i in range(nout)]
            tx = transactions.Transaction(ins, outs, has_segwit=True)
            spks = [script.Script(["OP_1", "dd" * 32]) if i - 2 * (i // 2) else script.Script(["OP_0", "ee" * 20]) for i in range(nin)]
            r = tx.get_transaction_taproot_digest(idx, spks, [5000 + i for i in range(nin)], ext, script.Script(["ff" * 32, "OP_CHECKSIG"]), 0xc0, ht)
        elif qual == "Transaction.get_transaction_digest":
            nin, nout, idx, ht = args
            ins = [transactions.TxInput("{:064x}".format(i + 1), i * 7, script.Script(["aa" * (i + 1)]), bytes([i, 0, 0, 255 - i])) for i in range(nin)]
            outs = [transactions.TxOutput(1000 + i, script.Script(["OP_1", "bb" * (20 + i)])) for i in range(nout)]
            tx = transactions.Transaction(ins, outs, has_segwit=False)
            before = tx.to_bytes(False)
            r = tx.get_transaction_digest(idx, script.Script(["OP_DUP", "cc" * 20, "OP_CHECKSIG"]), ht)
            r = (r, tx.to_bytes(False) == before)
        elif qual == "Transaction.get_transaction_segwit_digest":
            nin, nout, idx, ht, amt = args
            ins = [transactions.TxInput("{:064x}".format(i + 1), i * 7, script.Script([]), bytes([i, 0, 0, 255 - i])) for i in range(nin)]
            outs = [transactions.TxOutput(1000 + i, script.Script(["OP_1", "bb" * (20 + i)])) for i in range(nout)]
            tx = transactions.Transaction(ins, outs, has_segwit=True)
            r = tx.get_transaction_segwit_digest(idx, script.Script(["OP_DUP", "cc" * 20, "OP_CHECKSIG"]), amt, ht)
        elif qual in ("Transaction.to_bytes", "Transaction.get_txid", "Transaction._get_hash", "Transaction.get_size"):
            nin, nout, wits, hs = args
            ins = [transactions.TxInput("{:064x}".format(i + 1), i, script.Script(["aa" * (i - 3 * (i // 3))] if (i - 3 * (i // 3)) else [])) for i in range(nin)]
            outs = [transactions.TxOutput(1000 + i, script.Script(["OP_1", "bb" * 20])) for i in range(nout)]
            tx = transactions.Transaction(ins, outs, has_segwit=True, witnesses=[transactions.TxWitnessInput(w) for w in wits])
            if qual == "Transaction.to_bytes":
                r = tx.to_bytes(hs)
            else:
                tx.has_segwit = hs
                r = getattr(tx, qual.split(".")[1])()
        elif qual == "TxOutput.to_bytes":
            r = transactions.TxOutput(args[0], script.Script(args[1])).to_bytes()
        elif qual == "TxInput.to_bytes":
            r = transactions.TxInput(args[0], args[1], script.Script(args[2]), args[3]).to_bytes()
        elif qual.startswith("BlockHeader."):
            from bitcoinutils import block
            h = block.BlockHeader(args[0], args[1], args[2], args[3], args[4], args[5])
            r = getattr(h, qual.split(".")[1])()
        elif qual == "tapleaf_tagged_hash":
            r = utils.tapleaf_tagged_hash(script.Script(args[0]))
        elif qual in ("encode_varint", "prepend_compact_size", "parse_compact_size", "vi_to_int", "add_magic_prefix", "tagged_hash",
                    "tapbranch_tagged_hash"):
            r = getattr(utils, qual)(*args)
        elif qual.startswith("Script."):
            r = getattr(script.Script([]), qual.split(".")[1])(*args)
        elif qual == "Sequence.__init__":
            s = transactions.Sequence(*args); r = (s.seq_type, s.value, s.is_type_block)
        elif qual.startswith("Sequence."):
            s = transactions.Sequence.__new__(transactions.Sequence); s.seq_type, s.value, s.is_type_block = args
            r = getattr(s, qual.split(".")[1])()
        elif qual == "Locktime.for_transaction":
            r = transactions.Locktime(*args).for_transaction()
        out.append(repr(r))
    except BaseException as e:
        out.append("RAISE")
print(json.dumps(out))
''' % (HERE, repo, qual, file)
    try:
        p = subprocess.run([sys.executable, "-c", code], capture_output=True, text=True, timeout=120)
        return json.loads(p.stdout) if p.returncode == 0 else ["CRASH"]
    except Exception:
        return ["CRASH"]


def coqc(f):
    p = subprocess.run("timeout 300 coqc -Q . BU %s" % f, shell=True, cwd=COQ, capture_output=True, text=True)
    return p.returncode == 0


def main():
    out_path = sys.argv[sys.argv.index("--out") + 1] if "--out" in sys.argv else None
    repo = os.environ.get("VERIF_REPO", "/repo")
    consts = G.tables()
    res = []
    scratch = tempfile.mkdtemp(prefix="tiescreen-")
    with open(os.path.join(ROOT, ".build.lock"), "w") as lk:
        fcntl.flock(lk, fcntl.LOCK_EX)
        try:
            for t in G.TARGETS:
                name = t["coq"][len("src_"):]
                if ONLY and name not in ONLY:
                    continue
                src = open(os.path.join(repo, t["file"])).read()
                fn = M.func_nodes(ast.parse(src), {t["qual"]})[t["qual"]]
                base_beh = behaviour(repo, t["qual"], t["file"])
                sites = M.mutation_sites(fn)
                if MAXPER and len(sites) > MAXPER:
                    sites = random.Random(3).sample(sites, MAXPER)
                for (idx, desc, how) in sites:
                    m = {"file": t["file"], "func": t["qual"], "idx": idx, "desc": desc, "how": how}
                    d = os.path.join(scratch, "m"); shutil.rmtree(d, ignore_errors=True); os.makedirs(d)
                    try:
                        M.build_mutant(m, repo, d)
                    except Exception as e:
                        res.append(dict(m, tie="invalid")); continue
                    beh = behaviour(d, t["qual"], t["file"])
                    changed = beh != base_beh
                    p = subprocess.run([sys.executable, os.path.join(HERE, "gen_src.py"), d], capture_output=True, text=True)
                    if ("UNTRANSLATED " + t["coq"]) in p.stdout:
                        tie = "untranslatable"
                    elif not coqc("Gen/Src.v"):
                        tie = "src-does-not-typecheck"
                    else:
                        ok = all(coqc("Proofs/Tie_%s.v" % dep) for dep in DEPENDENTS.get(name, [name]))
                        tie = "PROVED" if ok else "broken"
                    verdict = "UNSOUND" if (tie == "PROVED" and changed) else ("equivalent" if not changed else "caught")
                    res.append(dict(m, tie=tie, behaviour_changed=changed, verdict=verdict))
                    print("%-9s %-24s %-28s tie=%s changed=%s" % (verdict, name, desc, tie, changed), flush=True)
        finally:
            subprocess.run([sys.executable, os.path.join(HERE, "gen_src.py"), repo], capture_output=True)
            subprocess.run("timeout 900 make -j8", shell=True, cwd=COQ, capture_output=True)
            shutil.rmtree(scratch, ignore_errors=True)
    import collections
    print(collections.Counter((r.get("verdict"), r["tie"]) for r in res))
    if out_path:
        json.dump(res, open(out_path, "w"), indent=1, default=repr)


if __name__ == "__main__":
    main()
