"""C13 - digests and signing are pure and order-independent; copies share no state."""
import itertools
from engine import sx, Raw
from common import *
from sighash_common import *
from taproot_common import *

PID = "C13"
THEOREMS = ["C13_digest_ignores_attachments", "C13_order_independent", "C13_run_skeleton", "C13_copy_separated", "C13_mutation_isolated",
            "C13_fresh_objects_separated"]
TECHNIQUE = "Coq proof (digests ignore attachments; commuting sign/attach operations over all permutations; location-annotated store model: copies allocate every mutable cell afresh) + histories on real objects (all permutations for <= 4 inputs) with an id()-based aliasing check"
RULE = ("transactions of 1..8 inputs mixing legacy P2PKH, segwit-v0 P2WPKH and taproot key-path inputs with all hash types, some inputs sharing one "
        "key object across different script trees; every permutation of the sign/attach operations for up to 4 inputs (random orders for up to 8); "
        "purity (serialisation before/after every digest and signature, repeated calls agree); copy / construct / mutate-through-public-attributes "
        "histories with the id() partition of all mutable parts compared with the store model, incl. copies taken while has_segwit is false. "
        "Non-trivial = distinct history that completes.")
LEVEL_TEXT = ("Coq theorems: every digest is a function of the transaction skeleton only (scriptSigs and witnesses already attached are ignored), so "
              "for any list of sign-and-store operations with distinct targets every permutation yields the same final transaction (all lengths, "
              "all interleavings); in the store model Transaction.copy and the element copy helpers allocate every mutable cell afresh, so no write "
              "through the copy reaches the original, and default-constructed inputs share no Script. Tied to the code by running real histories in "
              "all permutations and by comparing the id()-aliasing of real object graphs with the store model.")
LEVEL_NOTE = ("Trusted: Coq kernel; the store model's object graph (which cells exist) is my reading of the classes and is compared with id() on the real "
              "objects; determinism of the external ECDSA signer (RFC6979) is observed, not proved. The library's own idiom of appending witnesses is "
              "order-dependent by construction; the harness writes witness slot i of a pre-sized list.")
N = 0xFFFFFFFFFFFFFFFFFFFFFFFFFFFFFFFEBAAEDCE6AF48A03BBFD25E8CD0364141
KINDS = ["legacy", "v0", "tr", "nested"]     # nested = P2SH-P2WPKH: a scriptSig AND a witness on one input


def _mk_case(rng, nin):
    t = rand_tx(rng, nin=nin, nout=rng.choice([1, 2, 3]), segwit=True, scripts=False)
    t["wits"] = [[] for _ in range(nin)]
    nkeys = rng.choice([1, 2, nin])
    keys = [rng.randrange(1, N) for _ in range(nkeys)]
    ins = []
    for i in range(nin):
        kind = rng.choice(KINDS)
        ht = rng.choice(TAPROOT_TYPES if kind == "tr" else LEGACY_TYPES)
        if (ht & 3) == 3 and i >= len(t["outs"]): ht = 1
        ht2 = rng.choice(TAPROOT_TYPES if kind == "tr" else LEGACY_TYPES)
        if (ht2 & 3) == 3 and i >= len(t["outs"]): ht2 = 1
        ins.append({"kind": kind, "key": rng.randrange(nkeys), "ht": ht, "ht2": ht2, "amt": rand_amount(rng),
                    "tree": rng.choice([None, rand_tree(rng, depth=1), rand_tree(rng, depth=2)]) if kind == "tr" else None})
    spks = [[["op", "OP_1"], ["data", rand_hex(rng, 32)]] for _ in range(nin)]
    return {"tx": t, "keys": keys, "ins": ins, "spks": spks, "amts": [x["amt"] for x in ins]}


def cases(tier, rng):
    for j in range(40 if tier == "quick" else 300):
        nin = rng.choice([1, 2, 2, 3, 3, 4]) if j % 5 else rng.choice([5, 6, 8])
        c = _mk_case(rng, nin)
        ops = [("s", i) for i in range(nin)] + [("a", i) for i in range(nin)]
        orders = []
        if nin <= 2:
            perms = [p for p in itertools.permutations(ops) if all(p.index(("s", i)) < p.index(("a", i)) for i in range(nin))]
            orders = perms
        else:
            while len(orders) < (6 if tier == "quick" else 24):
                p = ops[:]; rng.shuffle(p)
                if all(p.index(("s", i)) < p.index(("a", i)) for i in range(nin)):
                    orders.append(tuple(p))
            if nin <= 4:   # every permutation of the signing order, attach right after signing
                for perm in itertools.permutations(range(nin)):
                    orders.append(tuple(x for i in perm for x in (("s", i), ("a", i))))
        yield dict(c, k="order", orders=[[list(x) for x in o] for o in orders])
    for j in range(150 if tier == "quick" else 3000):
        t = rand_tx(rng, nin=rng.choice([1, 2, 3]), nout=rng.choice([1, 2, 3]), segwit=rng.random() < 0.6)
        steps = []
        for _ in range(rng.choice([1, 2, 3, 4])):
            steps.append(rng.choice(["copy_tx", "copy_in", "copy_out", "copy_wit", "copy_script", "mutate_copy", "mutate_copy", "fresh_in",
                                     "flip_segwit", "digest"]))
        yield {"k": "alias", "tx": t, "steps": steps, "seed": rng.getrandbits(32)}


def _p2pkh(pubhex):
    import hashlib
    from Crypto.Hash import RIPEMD160
    h = RIPEMD160.new(hashlib.sha256(bytes.fromhex(pubhex)).digest()).hexdigest()
    return ["OP_DUP", "OP_HASH160", h, "OP_EQUALVERIFY", "OP_CHECKSIG"]


def _run_order(d, order):
    from bitcoinutils.keys import PrivateKey
    from bitcoinutils.script import Script
    from bitcoinutils.transactions import TxWitnessInput
    tx = tx_build(d["tx"])
    keys = [PrivateKey(secret_exponent=k) for k in d["keys"]]       # one object per key, shared by the inputs that use it
    spks = [Script([tok_py(x) for x in s]) for s in d["spks"]]
    sigs, digs = {}, {}
    for op, i in order:
        inp = d["ins"][i]; sk = keys[inp["key"]]; pub = sk.get_public_key().to_hex()
        if op == "s":
            before = tx.to_hex()
            if inp["kind"] == "legacy":
                digs[i] = tx.get_transaction_digest(i, Script(_p2pkh(pub)), inp["ht"]).hex()
                sigs[i] = sk.sign_input(tx, i, Script(_p2pkh(pub)), inp["ht"])
                again = sk.sign_input(tx, i, Script(_p2pkh(pub)), inp["ht"])
            elif inp["kind"] in ("v0", "nested"):
                digs[i] = tx.get_transaction_segwit_digest(i, Script(_p2pkh(pub)), inp["amt"], inp["ht"]).hex()
                sigs[i] = sk.sign_segwit_input(tx, i, Script(_p2pkh(pub)), inp["amt"], inp["ht"])
                again = sk.sign_segwit_input(tx, i, Script(_p2pkh(pub)), inp["amt"], inp["ht"])
            else:
                digs[i] = tx.get_transaction_taproot_digest(i, spks, d["amts"], 0, sighash=inp["ht"]).hex()
                sigs[i] = sk.sign_taproot_input(tx, i, spks, d["amts"], sighash=inp["ht"], tapleaf_scripts=sarg_py(inp["tree"]))
                again = sk.sign_taproot_input(tx, i, spks, d["amts"], sighash=inp["ht"], tapleaf_scripts=sarg_py(inp["tree"]))
            if tx.to_hex() != before: return "IMPURE"
            if again != sigs[i]: return "NONDET"
        else:
            if inp["kind"] == "legacy":
                tx.inputs[i].script_sig = Script([sigs[i], pub])
            elif inp["kind"] == "v0":
                tx.witnesses[i] = TxWitnessInput([sigs[i], pub])
            elif inp["kind"] == "nested":
                tx.inputs[i].script_sig = Script([Script(["OP_0", _p2pkh(pub)[2]]).to_hex()])
                tx.witnesses[i] = TxWitnessInput([sigs[i], pub])
            else:
                tx.witnesses[i] = TxWitnessInput([sigs[i]])
    # after everything is signed and attached: each input's digest once more, under a second hash type
    late = []
    for i, inp in enumerate(d["ins"]):
        pub = keys[inp["key"]].get_public_key().to_hex(); ht2 = inp.get("ht2", inp["ht"])
        if inp["kind"] == "legacy":
            late.append(tx.get_transaction_digest(i, Script(_p2pkh(pub)), ht2).hex())
        elif inp["kind"] in ("v0", "nested"):
            late.append(tx.get_transaction_segwit_digest(i, Script(_p2pkh(pub)), inp["amt"], ht2).hex())
        else:
            late.append(tx.get_transaction_taproot_digest(i, spks, d["amts"], 0, sighash=ht2).hex())
    return ",".join([digs[i] for i in sorted(digs)] + late) + ";" + tx.to_hex() + ";" + ",".join(sigs[i] for i in sorted(sigs))


def _verify_sigs(d, final):
    """every signature of the canonical run verifies against the reference digest (libsecp256k1)"""
    import coincurve, refsighash, refbip341
    from props.c03 import _lax_der
    digs, txhex, sigs = final.split(";")
    sigs = sigs.split(",")
    v = view_of(d["tx"])
    spent = [(a, asm_ref(s)) for a, s in zip(d["amts"], d["spks"])]
    ok = True
    for i, inp in enumerate(d["ins"]):
        key = d["keys"][inp["key"]]
        pub = coincurve.PrivateKey(key.to_bytes(32, "big")).public_key
        sig = bytes.fromhex(sigs[i])
        if inp["kind"] == "tr":
            root = b"" if inp["tree"] is None else refbip341.root_and_paths(tree_ref(inp["tree"]))[0]
            wp = refbip341.output(key, root)[0]
            dig = refsighash.bip341(v, i, spent, inp["ht"], None)
            ok &= coincurve.PublicKeyXOnly(wp).verify(sig[:64], dig)
        else:
            from sighash_common import CONSENSUS
            code = asm_ref([["op", "OP_DUP"], ["op", "OP_HASH160"], ["data", _p2pkh(pub.format(True).hex())[2]], ["op", "OP_EQUALVERIFY"], ["op", "OP_CHECKSIG"]])
            dig = refsighash.legacy(v, i, code, inp["ht"]) if inp["kind"] == "legacy" else refsighash.bip143(v, i, code, inp["amt"], inp["ht"])
            ok &= pub.verify(_lax_der(sig[:-1]), dig, hasher=None)
    return ok


def _mutable_ids(tx):
    """ids of every mutable cell reachable from a Transaction through public attributes"""
    ids = [id(tx), id(tx.inputs), id(tx.outputs), id(tx.witnesses)]
    for i in tx.inputs: ids += [id(i), id(i.script_sig), id(i.script_sig.script)]
    for o in tx.outputs: ids += [id(o), id(o.script_pubkey), id(o.script_pubkey.script)]
    for w in tx.witnesses: ids += [id(w), id(w.stack)]
    return ids


def _run_alias(d):
    import random
    from bitcoinutils.transactions import Transaction, TxInput, TxOutput, TxWitnessInput
    from bitcoinutils.script import Script
    rng = random.Random(d["seed"])
    tx = tx_build(d["tx"])
    snap = lambda: tx.to_hex() + "|" + tx.to_bytes(True).hex() + "|" + tx.to_bytes(False).hex() + "|%r|%d|%d|%d" % (
        tx.has_segwit, len(tx.inputs), len(tx.outputs), len(tx.witnesses))
    snapshot = snap()
    live = [tx]; copies = []
    sep = True; unchanged = True
    for st in d["steps"]:
        if st == "copy_tx":
            c = Transaction.copy(tx); copies.append(c)
            sep &= not (set(_mutable_ids(c)) & set(_mutable_ids(tx))) and len(set(_mutable_ids(c))) == len(_mutable_ids(c))
            sep &= c.to_bytes(True) == tx.to_bytes(True)
        elif st == "copy_in" and tx.inputs:
            a = rng.choice(tx.inputs); b = TxInput.copy(a)
            sep &= len({id(a), id(a.script_sig), id(a.script_sig.script), id(b), id(b.script_sig), id(b.script_sig.script)}) == 6 and a.to_bytes() == b.to_bytes()
            b.script_sig.script.append("OP_1"); b.sequence = b"\0\0\0\0"
        elif st == "copy_out" and tx.outputs:
            a = rng.choice(tx.outputs); b = TxOutput.copy(a)
            sep &= len({id(a), id(a.script_pubkey), id(a.script_pubkey.script), id(b), id(b.script_pubkey), id(b.script_pubkey.script)}) == 6
            b.script_pubkey.script.append("OP_1"); b.amount += 1
        elif st == "copy_wit" and tx.witnesses:
            a = rng.choice(tx.witnesses); b = TxWitnessInput.copy(a)
            sep &= len({id(a), id(a.stack), id(b), id(b.stack)}) == 4
            b.stack.append("aa")
        elif st == "copy_script" and tx.outputs:
            a = rng.choice(tx.outputs).script_pubkey; b = Script.copy(a)
            sep &= len({id(a), id(a.script), id(b), id(b.script)}) == 4
            b.script.append("OP_2")
        elif st == "mutate_copy":
            c = Transaction.copy(tx)
            for i in c.inputs: i.script_sig.script.append("OP_3"); i.sequence = b"\x01\0\0\0"; i.txout_index = 7
            for o in c.outputs: o.script_pubkey.script.insert(0, "OP_4"); o.amount = 1
            for w in c.witnesses: w.stack.append("bb")
            c.witnesses.append(TxWitnessInput(["cc"])); c.inputs.append(TxInput("33" * 32, 0)); c.outputs.append(TxOutput(5, Script(["OP_5"])))
            c.locktime = b"\x09\0\0\0"; c.version = b"\x07\0\0\0"; c.has_segwit = not c.has_segwit
        elif st == "fresh_in":
            a, b = TxInput("11" * 32, 0), TxInput("22" * 32, 1)
            sep &= len({id(a.script_sig), id(b.script_sig), id(a.script_sig.script), id(b.script_sig.script)}) == 4
            a.script_sig.script.append("OP_6")
            sep &= b.script_sig.script == [] and TxInput("44" * 32, 0).script_sig.script == []
        elif st == "flip_segwit":
            # a copy taken while the flag is off must not share witnesses once the flag is switched on
            keep = tx.has_segwit
            tx.has_segwit = False
            c = Transaction.copy(tx)
            tx.has_segwit = keep
            sep &= not (set(_mutable_ids(c)) & set(_mutable_ids(tx)))
            for w in c.witnesses: w.stack.append("dd")
            c.witnesses.append(TxWitnessInput(["ee"]))
        elif st == "digest" and tx.inputs:
            i = rng.randrange(len(tx.inputs))
            guarded(lambda: tx.get_transaction_digest(i, Script(["OP_1"]), rng.choice(LEGACY_TYPES)))
            guarded(lambda: tx.get_transaction_segwit_digest(i, Script(["OP_1"]), 5, rng.choice(LEGACY_TYPES)))
            guarded(lambda: tx.get_transaction_taproot_digest(i, [Script(["OP_1"])] * len(tx.inputs), [5] * len(tx.inputs), 0, sighash=0))
        unchanged &= snap() == snapshot
    return "sep=%d,orig_unchanged=%d" % (sep, unchanged)


def impl(d):
    if d["k"] == "order":
        outs = [_run_order(d, [tuple(x) for x in o]) for o in d["orders"]]
        same = all(o == outs[0] for o in outs)
        digs = outs[0].split(";")[0] if ";" in outs[0] else outs[0]
        valid = _verify_sigs(d, outs[0]) if ";" in outs[0] else False
        return "same=%d,valid=%d|%s" % (same, valid, digs)
    return _run_alias(d)


def model(d):
    if d["k"] == "order":
        qs = []
        for i, inp in enumerate(d["ins"]):
            import coincurve
            pub = coincurve.PrivateKey(d["keys"][inp["key"]].to_bytes(32, "big")).public_key.format(True).hex()
            code = [["op", "OP_DUP"], ["op", "OP_HASH160"], ["data", _p2pkh(pub)[2]], ["op", "OP_EQUALVERIFY"], ["op", "OP_CHECKSIG"]]
            if inp["kind"] == "legacy":
                qs.append(sx("legacy_pre", tx_sx(d["tx"]), i, toks_sx(code), inp["ht"]))
            elif inp["kind"] in ("v0", "nested"):
                qs.append(sx("segwit_pre", tx_sx(d["tx"]), i, toks_sx(code), inp["amt"], inp["ht"]))
            else:
                qs.append(sx("taproot_digest", tx_sx(d["tx"]), i, Raw("(" + " ".join(toks_sx(s).s for s in d["spks"]) + ")"),
                             Raw("(" + " ".join(str(a) for a in d["amts"]) + ")"), 0, toks_sx([]), inp["ht"]))
        for i, inp in enumerate(d["ins"]):
            import coincurve
            pub = coincurve.PrivateKey(d["keys"][inp["key"]].to_bytes(32, "big")).public_key.format(True).hex()
            code = [["op", "OP_DUP"], ["op", "OP_HASH160"], ["data", _p2pkh(pub)[2]], ["op", "OP_EQUALVERIFY"], ["op", "OP_CHECKSIG"]]
            ht2 = inp.get("ht2", inp["ht"])
            if inp["kind"] == "legacy":
                qs.append(sx("legacy_pre", tx_sx(d["tx"]), i, toks_sx(code), ht2))
            elif inp["kind"] in ("v0", "nested"):
                qs.append(sx("segwit_pre", tx_sx(d["tx"]), i, toks_sx(code), inp["amt"], ht2))
            else:
                qs.append(sx("taproot_digest", tx_sx(d["tx"]), i, Raw("(" + " ".join(toks_sx(s).s for s in d["spks"]) + ")"),
                             Raw("(" + " ".join(str(a) for a in d["amts"]) + ")"), 0, toks_sx([]), ht2))
        return qs
    return sx("heap_copy", len(d["tx"]["ins"]), len(d["tx"]["outs"]), len(d["tx"]["wits"]))


def post(d, out):
    import hashlib
    if d["k"] == "order":
        digs = [hashlib.sha256(hashlib.sha256(bytes.fromhex(x[2:])).digest()).hexdigest() if x.startswith("P:") else x for x in out.split("|")]
        return "same=1,valid=1|" + ",".join(digs)
    return out
