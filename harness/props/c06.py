"""C06 - ECDSA input signatures are valid, strictly DER, low-S, low-R and deterministic."""
from engine import sx, Raw
from common import *
from sighash_common import *

PID = "C06"
THEOREMS = ["C06_normalise", "C06_low_s", "C06_bip66", "C06_low_r", "C06_order", "C06_low_s_valid"]
TECHNIQUE = "Coq proof (DER normaliser = strict DER of (r, min(s, n-s)); BIP66 checker accepts; grinding loop invariant) + stubbed-signer correspondence over (r, s) classes and real signing checked by libsecp256k1"
RULE = ("normaliser driven through a stub signer returning chosen DER bytes for every (r, s) class of the quantifier (s just below/above n/2, "
        "s with the high bit set, n-s with 1..3 leading zero bytes or a top-bit-set first byte, short r, high-R first attempts), every hash "
        "type byte used; plus real signing of legacy and segwit-v0 inputs with random keys: BIP66 validity, low S, low R, hash-type byte, "
        "libsecp256k1 verification against an independently computed digest, determinism, and model replay of the recorded signer outputs. "
        "Non-trivial = distinct stub sequence / signing request that yields a signature.")
LEVEL_TEXT = ("Coq theorems for all (r, s): on the strict DER of (r, s) with low r the model of _sign_input's re-assembly returns the strict DER "
              "of (r, min(s, n-s)) plus the hash type, s is low, Core's IsValidSignatureEncoding accepts it, and the grinding loop only returns "
              "signatures with a short R. Tied to the code by driving the real _sign_input with a stub signer over all (r, s) classes and by "
              "real signing checked with libsecp256k1 and an independent BIP66 port.")
LEVEL_NOTE = ("Partial by nature: RFC6979 nonce generation, DER encoding and the curve arithmetic are python-ecdsa's (external); the theorem is about "
              "what the repository does with their output. Termination of the low-R grinding loop is probabilistic and not claimed. Validity of "
              "(r, n-s) follows from ECDSA symmetry and is checked with libsecp256k1 on every generated signature.")
N = 0xFFFFFFFFFFFFFFFFFFFFFFFFFFFFFFFEBAAEDCE6AF48A03BBFD25E8CD0364141


def _derint(x):
    b = x.to_bytes((x.bit_length() + 7) // 8 or 1, "big")
    return (b"\0" if b[0] & 0x80 else b"") + b


def der(r, s):
    rb, sb = _derint(r), _derint(s)
    return bytes([0x30, len(rb) + len(sb) + 4, 2, len(rb)]) + rb + bytes([2, len(sb)]) + sb


def _s_classes(rng):
    half = N // 2
    out = [1, 2, half - 1, half, half + 1, half + 2, N - 1, N - 2, 2 ** 255 - 1, 2 ** 255, 2 ** 255 + 1, 2 ** 255 - 19]
    for z in (1, 2, 3):            # n - s with z leading zero bytes
        v = rng.getrandbits(256 - 8 * z) | (1 << (255 - 8 * z))
        out += [N - v, N - (v >> 1), N - (0x80 << (8 * (31 - z))), N - ((0x80 << (8 * (31 - z))) - 1)]
    out += [N - 0x80, N - 0x7f, N - 0xff, N - 0x100, N - 0x8000, N - 0x7fff]
    out += [rng.randrange(1, N) for _ in range(40)]
    out += [rng.randrange(half, 2 ** 255) for _ in range(5)]
    return [s for s in out if 1 <= s < N]


def _r_classes(rng):
    out = [1, 0x7f, 0x80, 0xff, 2 ** 247 - 1, 2 ** 247, 2 ** 248 - 1, 2 ** 248, 2 ** 255 - 1]
    out += [rng.getrandbits(k) | 1 for k in (255, 255, 254, 248, 247, 240, 200)]
    return out


def cases(tier, rng):
    rs, ss = _r_classes(rng), _s_classes(rng)
    for r in rs:
        for s in (ss if tier == "thorough" else rng.sample(ss, 25)):
            yield {"k": "stub", "sigs": [der(r, s).hex()], "ht": rng.choice([1, 2, 3, 0x81, 0x82, 0x83]), "r": r, "s": s}
    for s in ss:
        yield {"k": "stub", "sigs": [der(rng.getrandbits(255) | 1, s).hex()], "ht": 1, "r": None, "s": s}
    # grinding: one to three high-R attempts first
    for _ in range(60 if tier == "quick" else 1500):
        hi = [der(rng.getrandbits(255) | (1 << 255), rng.randrange(1, N)).hex() for _ in range(rng.choice([1, 2, 3]))]
        r, s = rng.getrandbits(255) | 1, rng.randrange(1, N)
        yield {"k": "stub", "sigs": hi + [der(r, s).hex()], "ht": rng.choice([1, 0x83]), "r": r, "s": s}
    for nhi in (7, 8, 9, 12, 20):
        hi = [der(rng.getrandbits(255) | (1 << 255), rng.randrange(1, N)).hex() for _ in range(nhi)]
        r, s = rng.getrandbits(255) | 1, rng.randrange(1, N)
        yield {"k": "stub", "sigs": hi + [der(r, s).hex()], "ht": 1, "r": r, "s": s}
    # real signing
    n = 250 if tier == "quick" else 6000
    for j in range(n):
        t = rand_tx(rng, nin=rng.choice([1, 2, 3]), nout=rng.choice([1, 2, 3]), segwit=(j % 2 == 0), scripts=False)
        i = rng.randrange(len(t["ins"]))
        ht = rng.choice([1, 2, 3, 0x81, 0x82, 0x83])
        if (ht & 0x1f) == 3 and i >= len(t["outs"]):
            ht = 1
        key = rng.choice([1, 2, N - 1, N - 2, rng.randrange(1, N), rng.randrange(1, N), rng.getrandbits(128) + 1])
        yield {"k": "real", "tx": t, "i": i, "ht": ht, "key": key, "seg": j % 2 == 0, "amt": rand_amount(rng), "sc": rand_script(rng, 4)}


class _Stub:
    def __init__(self, seq):
        self.seq = [bytes.fromhex(x) for x in seq]
    def sign_digest_deterministic(self, digest, extra_entropy=b"", sigencode=None, hashfunc=None):
        i = int.from_bytes(extra_entropy, "big") if extra_entropy else 0
        return self.seq[min(i, len(self.seq) - 1)]


def bip66_ok(sig):
    """port of Bitcoin Core's IsValidSignatureEncoding (harness-owned)"""
    if len(sig) < 9 or len(sig) > 73: return False
    if sig[0] != 0x30 or sig[1] != len(sig) - 3: return False
    lr = sig[3]
    if 5 + lr >= len(sig): return False
    ls = sig[5 + lr]
    if lr + ls + 7 != len(sig): return False
    if sig[2] != 2 or lr == 0 or sig[4] & 0x80: return False
    if lr > 1 and sig[4] == 0 and not (sig[5] & 0x80): return False
    if sig[lr + 4] != 2 or ls == 0 or sig[lr + 6] & 0x80: return False
    if ls > 1 and sig[lr + 6] == 0 and not (sig[lr + 7] & 0x80): return False
    return True


def _facts(sig, dig, pk, ht):
    import coincurve
    lr = sig[3]; r = int.from_bytes(sig[4:4 + lr], "big"); ls = sig[5 + lr]; s = int.from_bytes(sig[6 + lr:6 + lr + ls], "big")
    try:
        ok = coincurve.PublicKey(pk).verify(sig[:-1], dig, hasher=None)
    except Exception:
        ok = False
    return "bip66=%d,lows=%d,lowr=%d,ht=%02x,verifies=%d" % (bip66_ok(sig), s <= N // 2, r < 2 ** 255, sig[-1], ok)


def impl(d):
    from bitcoinutils.keys import PrivateKey
    from bitcoinutils.script import Script
    import refsighash
    k = d["k"]
    if k == "stub":
        pk = PrivateKey(secret_exponent=1)
        pk.key = _Stub(d["sigs"])
        return pk._sign_input(b"\x11" * 32, d["ht"])
    if k == "real":
        pk = PrivateKey(secret_exponent=d["key"])
        rec = []
        orig = pk.key.sign_digest_deterministic
        def spy(*a, **kw):
            out = orig(*a, **kw); rec.append(out.hex()); return out
        pk.key.sign_digest_deterministic = spy
        tx = tx_build(d["tx"]); sc = Script([tok_py(x) for x in d["sc"]])
        if d["seg"]:
            sig1 = pk.sign_segwit_input(tx, d["i"], sc, d["amt"], d["ht"])
            dig = refsighash.bip143(view_of(d["tx"]), d["i"], asm_ref(d["sc"]), d["amt"], d["ht"])
        else:
            sig1 = pk.sign_input(tx, d["i"], sc, d["ht"])
            dig = refsighash.legacy(view_of(d["tx"]), d["i"], asm_ref(d["sc"]), d["ht"])
        d["_rec"] = rec
        pk2 = PrivateKey(secret_exponent=d["key"])
        sig2 = (pk2.sign_segwit_input(tx_build(d["tx"]), d["i"], sc, d["amt"], d["ht"]) if d["seg"]
                else pk2.sign_input(tx_build(d["tx"]), d["i"], sc, d["ht"]))
        pub = bytes.fromhex(pk.get_public_key().to_hex())
        return _facts(bytes.fromhex(sig1), dig, pub, d["ht"]) + ",det=%d" % (sig1 == sig2) + "|" + sig1 + "|" + ",".join(rec)


def model_after(d, io):
    """the recorded outputs of the external signer, replayed through the extracted model of _sign_input"""
    if d["k"] != "real" or io == "ERR":
        return None
    facts, sig, rec = io.split("|")
    return sx("sign_input_stub", Raw("(" + " ".join("x" + s for s in rec.split(",")) + ")"), d["ht"])


def model(d):
    if d["k"] == "stub":
        return sx("sign_input_stub", Raw("(" + " ".join("x" + s for s in d["sigs"]) + ")"), d["ht"])
    return None


def spec(d):
    if d["k"] == "stub" and d.get("r") is not None and d["r"] < 2 ** 255:
        return sx("strict_der_norm", d["r"], d["s"], d["ht"])
    return None


def oracle(d):
    if d["k"] == "stub" and d.get("r") is not None and d["r"] < 2 ** 255:
        s = d["s"] if d["s"] <= N // 2 else N - d["s"]
        out = der(d["r"], s) + bytes([d["ht"]])
        assert bip66_ok(out)
        return out.hex()
    return None


def post_impl(d, io):
    if d["k"] == "real" and io != "ERR":
        facts, sig, rec = io.split("|")
        return facts + "|" + sig
    return io


def post(d, out):
    if d["k"] == "real":
        # expected facts (the property itself) + the model's signature for the recorded signer outputs
        return "bip66=1,lows=1,lowr=1,ht=%02x,verifies=1,det=1|" % d["ht"] + out
    return out


def check_real(d, io):
    """second stage for real signatures: the recorded signer outputs replayed through the extracted model"""
    return None
