"""C04 - segwit v0 signature hash equals BIP143."""
from engine import sx
from common import *
from sighash_common import *

PID = "C04"
TIES = ['encode_varint', 'segwit_digest']   # source-tie files coq/Properties/Tie_<f>.v that belong to this property
THEOREMS = ["C04_digest"]
TECHNIQUE = "Coq proof (preimage refinement to BIP143, CompactSize lengths, all counts and sizes) + extracted model/spec and Python-oracle correspondence, real P2WPKH/P2WSH signatures under libsecp256k1"
RULE = ("transactions of 1..8 inputs and 0..8 outputs, every input index, six hash types, script codes and output scripts of 0..70000 bytes "
        "incl. 252/253/255/256, amounts 0..2^63-1, differing sequences per input, SINGLE without matching output, observe-mutate-observe "
        "histories on one object, and the real P2WPKH / P2WSH-multisig signatures of the fixtures whose prevout is in-block. "
        "Non-trivial = distinct (tx, index, script code, amount, type) for which a digest is returned.")
LEVEL_TEXT = ("Coq theorem, unbounded in inputs/outputs and in script sizes, for the six defined hash types: the model of "
              "get_transaction_segwit_digest hashes exactly BIP143's preimage (hashPrevouts/hashSequence/hashOutputs selection, zero "
              "hashes, CompactSize-prefixed script code and output scripts). Tied to the code by differential runs (extracted model, "
              "extracted spec, Python oracle, histories) and ~290 real signatures verified with libsecp256k1.")
LEVEL_NOTE = ("Trusted: Coq kernel, Spec/SighashSpec.v (my reading of BIP143), extraction, model tied by correspondence, libsecp256k1. "
              "SHA-256 abstract in the theorem (any hash function).")


def _big_out_tx(rng, n):
    t = rand_tx(rng, nin=rng.choice([1, 2]), nout=rng.choice([1, 2, 3]), segwit=True, scripts=False)
    t["outs"][rng.randrange(len(t["outs"]))]["script"] = script_of_len(rng, n)
    return t


def cases(tier, rng):
    n = 500 if tier == "quick" else 12000
    for j in range(n):
        t = rand_tx(rng, nin=rng.randrange(1, 9), nout=rng.randrange(0, 9), segwit=True)
        nin = len(t["ins"])
        sc = script_of_len(rng, rng.choice(BOUNDARY_LENS)) if j % 8 == 0 else rand_script(rng, 6)
        idxs = range(nin) if j % 4 == 0 else [rng.randrange(nin)]
        for i in idxs:
            for ht in (LEGACY_TYPES if j % 3 == 0 else [rng.choice(LEGACY_TYPES)]):
                yield {"k": "dig", "tx": t, "i": i, "sc": sc, "amt": rand_amount(rng), "ht": ht}
    for ln in BOUNDARY_LENS:
        t = _big_out_tx(rng, ln)
        for ht in LEGACY_TYPES:
            yield {"k": "dig", "tx": t, "i": 0, "sc": script_of_len(rng, rng.choice([25, 252, 253, 256])), "amt": rand_amount(rng), "ht": ht}
    for _ in range(20):
        t = rand_tx(rng, nin=2, nout=2, segwit=True)
        yield {"k": "dig", "tx": t, "i": 2 + rng.randrange(3), "sc": [], "amt": 5, "ht": 1, "reject": True}
    for j in range(250 if tier == "quick" else 5000):
        t = rand_tx(rng, nin=rng.choice([1, 2, 3]), nout=rng.choice([1, 2, 3]), segwit=True)
        muts, cur = [], t
        for _ in range(rng.choice([1, 2, 3])):
            m = rand_mut(rng, cur)
            muts.append(m); cur = apply_mut(cur, m)
        i = rng.randrange(len(t["ins"]))
        yield {"k": "hist", "tx": t, "muts": muts, "i": i, "sc": rand_script(rng, 4), "amt": rand_amount(rng), "ht": rng.choice(LEGACY_TYPES)}
    import realsigs
    v0, _, _ = realsigs.collect()
    for c in v0:
        yield dict(c, k="real")


def _p2pkh_tokens(pk):
    import realsigs
    return [["op", "OP_DUP"], ["op", "OP_HASH160"], ["data", realsigs.h160(pk).hex()], ["op", "OP_EQUALVERIFY"], ["op", "OP_CHECKSIG"]]


def _verify(pk, sig, dig):
    import coincurve
    from props.c03 import _lax_der
    try:
        return coincurve.PublicKey(pk).verify(_lax_der(sig[:-1]), dig, hasher=None)
    except Exception:
        return False


def impl(d):
    from bitcoinutils.script import Script
    from bitcoinutils.transactions import Transaction
    k = d["k"]
    if k == "dig":
        tx = tx_build(d["tx"])
        before = tx.to_hex()
        r = tx.get_transaction_segwit_digest(d["i"], Script([tok_py(x) for x in d["sc"]]), d["amt"], d["ht"]).hex()
        assert tx.to_hex() == before
        return r
    if k == "hist":
        tx = tx_build(d["tx"])
        sc = Script([tok_py(x) for x in d["sc"]])
        out = [guarded(lambda: tx.get_transaction_segwit_digest(d["i"], sc, d["amt"], d["ht"]).hex())]
        for m in d["muts"]:
            apply_mut_lib(tx, m)
            out.append(guarded(lambda: tx.get_transaction_segwit_digest(d["i"], sc, d["amt"], d["ht"]).hex()))
        return "|".join(out)
    if k == "real":
        tx = Transaction.from_raw(d["raw"])
        if d["kind"] == "p2wpkh":
            pk, sig = bytes.fromhex(d["pk"]), bytes.fromhex(d["sig"])
            dig = tx.get_transaction_segwit_digest(d["i"], Script([tok_py(x) for x in _p2pkh_tokens(pk)]), d["amt"], sig[-1])
            return dig.hex() + "|ok=%d" % _verify(pk, sig, dig)
        ws = Script.from_raw(d["ws"])
        if ws.to_bytes().hex() != d["ws"]:
            return "SKIP"
        out, pks, ok = [], [bytes.fromhex(p) for p in d["pks"]], True
        for s in d["sigs"]:
            sig = bytes.fromhex(s)
            dig = tx.get_transaction_segwit_digest(d["i"], ws, d["amt"], sig[-1])
            out.append(dig.hex())
            while pks and not _verify(pks[0], sig, dig):
                pks.pop(0)
            ok = ok and bool(pks)
            pks = pks[1:]
        return ",".join(out) + "|ok=%d" % ok


def _q(fn, d):
    if d["k"] == "dig":
        return sx(fn, tx_sx(d["tx"]), d["i"], toks_sx(d["sc"]), d["amt"], d["ht"])
    out, cur = [], d["tx"]
    for m in [None] + d["muts"]:
        if m: cur = apply_mut(cur, m)
        out.append(sx(fn, tx_sx(cur), d["i"], toks_sx(d["sc"]), d["amt"], d["ht"]))
    return out


def model(d):
    return _q("segwit_pre", d) if d["k"] in ("dig", "hist") else None


def spec(d):
    if d.get("reject"): return None
    return _q("spec_segwit_pre", d) if d["k"] in ("dig", "hist") else None


def post(d, out):
    import hashlib
    return "|".join(hashlib.sha256(hashlib.sha256(bytes.fromhex(x[2:])).digest()).hexdigest() if x.startswith("P:") else x
                    for x in out.split("|"))


def oracle(d):
    import refsighash, realdata
    k = d["k"]
    if k == "dig":
        if d.get("reject"): return "ERR"
        return refsighash.bip143(view_of(d["tx"]), d["i"], asm_ref(d["sc"]), d["amt"], d["ht"]).hex()
    if k == "hist":
        out, cur = [], d["tx"]
        for m in [None] + d["muts"]:
            if m: cur = apply_mut(cur, m)
            out.append(refsighash.bip143(view_of(cur), d["i"], asm_ref(d["sc"]), d["amt"], d["ht"]).hex())
        return "|".join(out)
    if k == "real":
        raw = bytes.fromhex(d["raw"]); _, v = realdata.tx_end(raw, 0)
        if d["kind"] == "p2wpkh":
            pk, sig = bytes.fromhex(d["pk"]), bytes.fromhex(d["sig"])
            return refsighash.bip143(v, d["i"], asm_ref(_p2pkh_tokens(pk)), d["amt"], sig[-1]).hex() + "|ok=1"
        ws = bytes.fromhex(d["ws"])
        return ",".join(refsighash.bip143(v, d["i"], ws, d["amt"], bytes.fromhex(s)[-1]).hex() for s in d["sigs"]) + "|ok=1"


# source tie (DESIGN 13.8)
from common import with_ties
LEVEL_TEXT, LEVEL_NOTE, TECHNIQUE = with_ties(TIES, LEVEL_TEXT, LEVEL_NOTE, TECHNIQUE)
