"""C14 - signed messages: sign, verify and key recovery agree and interoperate."""
import base64
from engine import sx, Raw
from common import *
from props.c10 import _addr

PID = "C14"
TIES = ['add_magic_prefix', 'encode_varint']   # source-tie files coq/Properties/Tie_<f>.v that belong to this property
THEOREMS = ["C14_digest", "C14_recovery", "C14_sign_total", "C14_sign_verify", "C14_sound", "C14_recover_pubkey"]
TECHNIQUE = "Coq proof (digest layout; ECDSA recovery identity and header search over the abstract curve; verification soundness by construction) + extracted-model correspondence and libsecp256k1 recovery as the acceptance oracle"
RULE = ("keys random and edge (1, n-1), messages of 0..70000 characters incl. non-ASCII (2-, 3- and 4-byte UTF-8) and the 252/253 byte boundary with "
        "character count != byte count, compressed and uncompressed, mainnet and testnet, all recovery-header classes that occur; rejection: bit "
        "flips in r, s and header, every header value 0..255 on genuine signatures, random 65-byte signatures, swapped message / address, flipped "
        "compression class. Non-trivial = distinct (key, message, flag) signed or distinct triple verified.")
LEVEL_TEXT = ("Coq theorems: the signed digest is double-SHA256(magic || CompactSize(UTF-8 byte length) || message); over the abstract curve a valid "
              "ECDSA signature is recovered to the signer's key at the recovery id encoding the nonce point's parity and overflow, the header "
              "search of sign_message always finds a header and its result verifies against the signer's address; verification succeeds only "
              "through that recovery procedure with a matching address; the recovery constructor agrees with it on headers 27..34. Acceptance "
              "is compared with a libsecp256k1-based recovery on valid and mutated triples.")
LEVEL_NOTE = ("Partial by nature: RFC6979, verify_digest and point arithmetic are python-ecdsa's and sqrt_mod is sympy's (represented by "
              "specifications; premises curve_laws, modular inverse, sqrt_mod spec). Header 35 passes the code's range test; that it never "
              "verifies is covered by the rejection stream, not by a theorem. The recovery constructor refuses the empty message (pinned test).")
N = 0xFFFFFFFFFFFFFFFFFFFFFFFFFFFFFFFEBAAEDCE6AF48A03BBFD25E8CD0364141


def _msgs(rng):
    base = ["", "a", "hello", "é", "€uro", "cafe\u0301", "A\u030a \u212b \u2126 \u212a", "\ufb01 \u2460 \uf900", "e\u0301" * 100, "𝔘nicode 😀", "x" * 252, "x" * 253, "x" * 251 + "é", "é" * 126, "é" * 127, "€" * 84, "€" * 85,
            "x" * 65535, "x" * 65536, "y" * 70000, "é" * 35000]
    for _ in range(12):
        n = rng.choice([1, 5, 30, 100, 250, 300])
        base.append("".join(rng.choice("abc XYZ09éß€漢😀\n\t") for _ in range(n)))
    return base


def cases(tier, rng):
    msgs = _msgs(rng)
    nk = 40 if tier == "quick" else 1500
    for j in range(nk):
        key = [1, 2, N - 1][j] if j < 3 else rng.randrange(1, N)
        msg = msgs[j % len(msgs)] if j < len(msgs) * 2 else rng.choice(msgs[:15])
        yield {"k": "sv", "net": rng.choice(["mainnet", "testnet"]), "key": key, "msg": msg, "comp": rng.random() < 0.5}
    # acceptance for all four recovery ids, both header classes (forged-but-valid triples, see _forged_valid)
    for j in range(32 if tier == "quick" else 800):
        yield {"k": "forged", "net": rng.choice(["mainnet", "testnet"]), "msg": rng.choice(msgs[:10] + ["f%d" % j]), "comp": bool(j & 4),
               "recid": j % 4, "seedv": rng.getrandbits(64)}
    # rejection stream (valid ones mixed in)
    for j in range(250 if tier == "quick" else 8000):
        key = rng.randrange(1, N); msg = rng.choice(msgs[:14] + ["m%d" % j])
        mut = rng.choice(["none", "flip_r", "flip_s", "hdr", "hdr35", "hdr26", "hdr_any", "hdr_plus2", "hdr_plus2", "small_r", "random", "other_msg",
                          "other_addr", "flip_class", "s_neg", "size", "s_zero", "s_eq_n", "addr_p2sh", "addr_other_net", "addr_bad_check", "addr_bad_check"])
        c = {"k": "rej", "net": rng.choice(["mainnet", "testnet"]), "key": key, "msg": msg, "comp": rng.random() < 0.5, "mut": mut,
             "bit": rng.randrange(256), "h": rng.randrange(256), "rnd": rand_hex(rng, 65)}
        yield c
        if mut not in ("other_addr", "addr_p2sh", "addr_other_net", "addr_bad_check", "other_msg"):
            yield dict(c, k="rejrec")


P_FIELD = 0xFFFFFFFFFFFFFFFFFFFFFFFFFFFFFFFFFFFFFFFFFFFFFFFFFFFFFFFEFFFFFC2F


def _forged_valid(d):
    """A triple that libsecp256k1 ACCEPTS and that needs no private key: pick R (abscissa r, or r + n for the two
    "second key" recovery ids), any s, and take the address of Q = r^-1 (s R - e G).  The only way to exercise
    acceptance for recovery ids 2 and 3, which genuine signatures reach with probability 2^-128."""
    import coincurve, hashlib, random
    from Crypto.Hash import RIPEMD160
    rr = random.Random(d["seedv"])
    recid = d["recid"]
    while True:
        r = rr.randrange(1, P_FIELD - N) if recid >= 2 else rr.randrange(1, N)
        x = r + N if recid >= 2 else r
        try:
            R = coincurve.PublicKey(bytes([2 + (recid & 1)]) + x.to_bytes(32, "big"))
            break
        except Exception:
            continue
    sv = rr.randrange(1, N)
    e = int.from_bytes(_digest(d["msg"]), "big")
    sR = R.multiply(sv.to_bytes(32, "big"))
    parts = [sR] if e % N == 0 else [sR, coincurve.PrivateKey(((-e) % N).to_bytes(32, "big")).public_key]
    Q = coincurve.PublicKey.combine_keys(parts).multiply(pow(r, -1, N).to_bytes(32, "big"))
    comp = d["comp"]
    addr = _addr("p2pkh", d["net"], RIPEMD160.new(hashlib.sha256(Q.format(comp)).digest()).digest())
    sig = bytes([27 + recid + (4 if comp else 0)]) + r.to_bytes(32, "big") + sv.to_bytes(32, "big")
    return addr, sig, d["msg"], Q.format(False).hex()


def _digest(msg):
    import hashlib
    from refsighash import cs
    b = msg.encode("utf-8")
    return hashlib.sha256(hashlib.sha256(b"\x18Bitcoin Signed Message:\n" + cs(len(b)) + b).digest()).digest()


def _ref_sign(d):
    """a genuine compact signature made with libsecp256k1 (independent of the library)"""
    import coincurve
    sk = coincurve.PrivateKey(d["key"].to_bytes(32, "big"))
    rs = sk.sign_recoverable(_digest(d["msg"]), hasher=None)
    return bytes([27 + rs[64] + (4 if d["comp"] else 0)]) + rs[:64]


def _ref_addr(d, comp=None):
    import coincurve, hashlib
    from Crypto.Hash import RIPEMD160
    comp = d["comp"] if comp is None else comp
    pub = coincurve.PrivateKey(d["key"].to_bytes(32, "big")).public_key.format(comp)
    return _addr("p2pkh", d["net"], RIPEMD160.new(hashlib.sha256(pub).digest()).digest())


def _forged_s0(d, s_bytes):
    """a triple nobody needs a key for: s = 0 (or n) and the address of the point that a recovery WITHOUT range checks
    would compute, Q = r^-1 (s R - e G) = -(e / r) G.  libsecp256k1 refuses s = 0 and s >= n."""
    import coincurve, hashlib
    from Crypto.Hash import RIPEMD160
    R = coincurve.PrivateKey(d["key"].to_bytes(32, "big")).public_key.format(False)
    r = int.from_bytes(R[1:33], "big") % N
    e = int.from_bytes(_digest(d["msg"]), "big")
    k = (-e * pow(r, -1, N)) % N or 1
    Q = coincurve.PrivateKey(k.to_bytes(32, "big")).public_key.format(d["comp"])
    addr = _addr("p2pkh", d["net"], RIPEMD160.new(hashlib.sha256(Q).digest()).digest())
    hdr = 27 + (R[64] & 1) + (4 if d["comp"] else 0)
    return addr, bytes([hdr]) + r.to_bytes(32, "big") + s_bytes, d["msg"]


def _triple(d):
    if d["mut"] == "s_zero": return _forged_s0(d, bytes(32))
    if d["mut"] == "s_eq_n": return _forged_s0(d, N.to_bytes(32, "big"))
    sig = bytearray(_ref_sign(d)); msg = d["msg"]; addr = _ref_addr(d)
    m = d["mut"]
    if m == "flip_r": sig[1 + d["bit"] // 8 % 32] ^= 1 << (d["bit"] % 8)
    elif m == "flip_s": sig[33 + d["bit"] // 8 % 32] ^= 1 << (d["bit"] % 8)
    elif m == "hdr": sig[0] ^= 1 << (d["bit"] % 8)
    elif m == "hdr35": sig[0] = 35
    elif m == "hdr26": sig[0] = 26
    elif m == "hdr_any": sig[0] = d["h"]
    elif m == "hdr_plus2": sig[0] = sig[0] + 2 if (sig[0] - 27) % 4 < 2 else sig[0] - 2        # the "second key" recovery ids
    elif m == "small_r": sig[1:33] = (int.from_bytes(sig[1:33], "big") % (2 ** 120)).to_bytes(32, "big"); sig[0] = 27 + (d["h"] % 8)
    elif m == "random": sig = bytearray.fromhex(d["rnd"])
    elif m == "other_msg": msg = msg + "!"
    elif m == "other_addr": addr = _ref_addr(dict(d, key=(d["key"] % (N - 1)) + 1))
    elif m in ("addr_p2sh", "addr_other_net", "addr_bad_check"):
        # the signer's own 20-byte hash under another version byte, or with a damaged checksum: not the signer's address
        import coincurve, hashlib
        from Crypto.Hash import RIPEMD160
        pub = coincurve.PrivateKey(d["key"].to_bytes(32, "big")).public_key.format(d["comp"])
        h = RIPEMD160.new(hashlib.sha256(pub).digest()).digest()
        if m == "addr_p2sh": addr = _addr("p2sh", d["net"], h)
        elif m == "addr_other_net": addr = _addr("p2pkh", "testnet" if d["net"] == "mainnet" else "mainnet", h)
        else:
            i = len(addr) - 1 - (d["bit"] % 5); B58 = "123456789ABCDEFGHJKLMNPQRSTUVWXYZabcdefghijkmnopqrstuvwxyz"
            addr = addr[:i] + B58[(B58.index(addr[i]) + 1 + d["h"] % 56) % 58] + addr[i + 1:]
    elif m == "flip_class": sig[0] = sig[0] + 4 if sig[0] < 31 else sig[0] - 4
    elif m == "size": sig = [sig[:64], sig + sig[-1:], sig[:1], bytearray(), sig[1:], sig + bytearray(32)][d["bit"] % 6]   # not 65 bytes
    elif m == "s_neg": sig[33:] = (N - int.from_bytes(sig[33:], "big")).to_bytes(32, "big")
    return addr, bytes(sig), msg


def impl(d):
    from bitcoinutils.setup import setup
    from bitcoinutils.keys import PrivateKey, PublicKey
    setup(d["net"])
    if d["k"] == "sv":
        sk = PrivateKey(secret_exponent=d["key"])
        # compressed=True is the documented default: rely on it for half of the compressed cases
        sig = sk.sign_message(d["msg"]) if (d["comp"] and d["key"] % 2 == 0) else sk.sign_message(d["msg"], compressed=d["comp"])
        raw = base64.b64decode(sig)
        addr = sk.get_public_key().get_address(compressed=d["comp"]).to_string()
        v = guarded(lambda: "%d" % PublicKey.verify_message(addr, sig, d["msg"]))
        rec = guarded(lambda: PublicKey(message=d["msg"], signature=raw).to_hex(False)) if d["msg"] else "EMPTY"
        rec2 = guarded(lambda: PublicKey.from_message_signature(d["msg"], raw).to_hex(False)) if d["msg"] else "EMPTY"
        det = sk.sign_message(d["msg"], compressed=d["comp"]) == sig
        return raw.hex() + "|" + addr + "|verify=" + v + "|rec=" + rec + "|rec2=%d" % (rec2 == rec) + "|det=%d" % det
    if d["k"] == "forged":
        addr, sig, msg, q = _forged_valid(d)
        v = guarded(lambda: "%d" % PublicKey.verify_message(addr, base64.b64encode(sig).decode(), msg))
        rec = guarded(lambda: PublicKey(message=msg, signature=sig).to_hex(False)) if msg else "EMPTY"
        return "verify=" + v + "|rec=" + rec
    addr, sig, msg = _triple(d)
    if d["k"] == "rejrec":
        # the recovery constructor on the same (message, signature): a key, or a refusal
        return guarded(lambda: PublicKey(message=msg, signature=sig).to_hex(False)) if msg else "EMPTY"
    try:
        return "1" if PublicKey.verify_message(addr, base64.b64encode(sig).decode(), msg) else "0"
    except Exception:
        return "0"


def post_impl(d, io):
    if d["k"] == "sv" and io != "ERR":
        raw, addr, rest = io.split("|", 2)
        # interoperability: libsecp256k1 recovers the signer's key from the library's signature over the standard digest
        import coincurve
        rawb = bytes.fromhex(raw)
        try:
            pub = coincurve.PublicKey.from_signature_and_message(rawb[1:] + bytes([(rawb[0] - 27) & 3]), _digest(d["msg"]), hasher=None)
            ok = pub.format(False) == coincurve.PrivateKey(d["key"].to_bytes(32, "big")).public_key.format(False)
        except Exception:
            ok = False
        hdr_ok = (rawb[0] >= 31) == d["comp"] and 27 <= rawb[0] <= 34
        return "interop=%d,hdr_class=%d,addr_ok=%d|%s" % (ok, hdr_ok, addr == _ref_addr(d), rest)
    return io


def model_after(d, io):
    if d["k"] != "sv" or io == "ERR":
        return None
    raw, addr, rest = io.split("|", 2)
    m = d["msg"].encode("utf-8")
    return [sx("msg_verify", d["net"], addr.encode(), bytes.fromhex(raw), Raw("x" + m.hex())),
            sx("msg_recover", Raw("x" + m.hex()), bytes.fromhex(raw))]


def model(d):
    if d["k"] == "forged":
        addr, sig, msg, q = _forged_valid(d)
        m = Raw("x" + msg.encode("utf-8").hex())
        return [sx("msg_verify", d["net"], addr.encode(), sig, m), sx("msg_recover", m, sig)]
    if d["k"] == "rej":
        addr, sig, msg = _triple(d)
        return sx("msg_verify", d["net"], addr.encode(), sig, Raw("x" + msg.encode("utf-8").hex()))
    if d["k"] == "rejrec":
        addr, sig, msg = _triple(d)
        return sx("msg_recover", Raw("x" + msg.encode("utf-8").hex()), sig)
    return None


def post(d, out):
    if d["k"] == "forged":
        v, rec = out.split("|")
        return "verify=%s|rec=%s" % (v, "EMPTY" if d["msg"] == "" else rec)
    if d["k"] == "rejrec":
        return "EMPTY" if d["msg"] == "" else out
    if d["k"] == "sv":
        v, rec = out.split("|")
        rec = "EMPTY" if d["msg"] == "" else rec
        return "interop=1,hdr_class=1,addr_ok=1|verify=%s|rec=%s|rec2=1|det=1" % (v, rec)
    return out


def oracle(d):
    import coincurve
    if d["k"] == "sv":
        pub = coincurve.PrivateKey(d["key"].to_bytes(32, "big")).public_key.format(False).hex()
        return "interop=1,hdr_class=1,addr_ok=1|verify=1|rec=%s|rec2=1|det=1" % (pub if d["msg"] else "EMPTY")
    if d["k"] == "forged":
        addr, sig, msg, q = _forged_valid(d)
        return "verify=1|rec=%s" % (q if msg else "EMPTY")
    # acceptance = a libsecp256k1-based recovery accepts the triple
    if d["k"] == "rejrec":
        return None          # what the recovery constructor does with an invalid signature is the model's business only
    addr, sig, msg = _triple(d)
    if len(sig) != 65: return "0"
    h = sig[0]
    if not (27 <= h <= 34): return "0"
    try:
        pub = coincurve.PublicKey.from_signature_and_message(sig[1:] + bytes([(h - 27) & 3]), _digest(msg), hasher=None)
    except Exception:
        return "0"
    import hashlib
    from Crypto.Hash import RIPEMD160
    a = _addr("p2pkh", d["net"], RIPEMD160.new(hashlib.sha256(pub.format(h >= 31)).digest()).digest())
    return "1" if a == addr else "0"


# source tie (DESIGN 13.8)
from common import with_ties
LEVEL_TEXT, LEVEL_NOTE, TECHNIQUE = with_ties(TIES, LEVEL_TEXT, LEVEL_NOTE, TECHNIQUE)
