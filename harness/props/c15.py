"""C15 - block and header parsing is faithful to the raw block."""
from engine import sx
from common import *
import realdata

PID = "C15"
TIES = ['parse_compact_size', 'block_header', 'tx_ids']   # source-tie files coq/Properties/Tie_<f>.v that belong to this property
THEOREMS = ["C15_header_roundtrip", "C15_header_fields", "C15_block_hash", "C15_target", "C15_scanner", "C15_block"]
TECHNIQUE = "Coq proof (header round-trip, compact-target arithmetic, scanner = serialiser length, block parse by induction over transactions) + extracted-model correspondence; real blocks certified by merkle root, witness commitment and proof-of-work"
RULE = ("random 80-byte headers, compact targets with every exponent 3..32 (and the out-of-domain exponents 0..2, 33..35), synthetic framed "
        "blocks of 1..300 transactions from the C01 generator with CompactSize-boundary counts and short tails (last output script / witness "
        "item of 0..3 bytes, empty last witness stack), truncated blocks, and the three real blocks. Non-trivial = distinct header/block the "
        "library parses.")
LEVEL_TEXT = ("Coq theorems: every 80-byte header round-trips with little-endian fields and display-order hashes; block hash is the reversed "
              "double hash of the serialisation; compact bits e*2^24+m expand to m*256^(e-3); the independent length scanner returns the "
              "serialiser's length for every well-formed transaction whatever follows; a framed block parses into all its transactions, each "
              "equal to parsing its own slice (unbounded in number and size). Tied to the code by differential runs; the three real blocks "
              "are certified against merkle root, witness commitment and proof-of-work computed by the harness.")
LEVEL_NOTE = ("Trusted: Coq kernel, extraction, model tied by correspondence; merkle root / BIP141 commitment / proof-of-work are computed by "
              "the harness with hashlib (tests, not theorems; the library does not compute them). Compact targets with the sign bit set are "
              "outside the stated domain (exponent 3..32, mantissa < 2^23 for consensus meaning).")


def _frame(rng, txs_raw, hdr=None, magic=b"\xf9\xbe\xb4\xd9"):
    import refsighash
    hdr = hdr or bytes(rng.getrandbits(8) for _ in range(80))
    body = hdr + refsighash.cs(len(txs_raw)) + b"".join(txs_raw)
    return magic + len(body).to_bytes(4, "little") + body


def _ser(t):
    """harness-side serialiser (reference) of a descriptor"""
    import refsighash
    from sighash_common import asm_ref
    cs = refsighash.cs
    def sin(i):
        sc = bytes.fromhex(i["script"][0][1]) if i["txid"] == NULL_TXID else asm_ref(i["script"])
        return bytes.fromhex(i["txid"])[::-1] + i["vout"].to_bytes(4, "little") + cs(len(sc)) + sc + bytes.fromhex(i["seq"])
    def sout(o):
        sc = asm_ref(o["script"]); return o["amt"].to_bytes(8, "little") + cs(len(sc)) + sc
    b = bytes.fromhex(t["ver"]) + (b"\x00\x01" if t["sw"] else b"") + cs(len(t["ins"])) + b"".join(sin(i) for i in t["ins"])
    b += cs(len(t["outs"])) + b"".join(sout(o) for o in t["outs"])
    if t["sw"]:
        for st in t["wits"]:
            b += cs(len(st)) + b"".join(cs(len(x) // 2) + bytes.fromhex(x) for x in st)
    return b + bytes.fromhex(t["lt"])


def cases(tier, rng):
    for _ in range(1500 if tier == "quick" else 40000):
        yield {"k": "hdr", "raw": rand_hex(rng, 80)}
    for e in range(0, 36):
        for m in (0, 1, 0x7fffff, 0x00ffff, 0x123456, 0x800000, 0xffffff, rng.getrandbits(23)):
            raw = bytearray(bytes(rng.getrandbits(8) for _ in range(80)))
            raw[72:76] = ((e << 24) | m).to_bytes(4, "little")
            yield {"k": "hdr", "raw": bytes(raw).hex(), "dom": 3 <= e <= 32 and m < 0x800000}
    # headers with a zero in one numeric field (version, time, bits, nonce), all of them, and all-ones fields
    for fld in ((0, 4), (68, 72), (72, 76), (76, 80)):
        for fill in (0x00, 0xff):
            raw = bytearray(bytes(rng.getrandbits(8) for _ in range(80)))
            raw[fld[0]:fld[1]] = bytes([fill]) * 4
            yield {"k": "hdr", "raw": bytes(raw).hex(), "dom": fld != (72, 76)}
    yield {"k": "hdr", "raw": "00" * 80, "dom": False}
    z = bytearray(80); z[72:76] = (0x1d00ffff).to_bytes(4, "little")
    yield {"k": "hdr", "raw": bytes(z).hex()}
    for ln in (0, 1, 79, 81, 160):
        yield {"k": "hdr", "raw": rand_hex(rng, ln), "reject": True}
    # scanner on single transactions followed by arbitrary bytes
    for _ in range(600 if tier == "quick" else 15000):
        t = rand_tx(rng, big=rng.random() < 0.05)
        yield {"k": "len", "raw": (_ser(t) + bytes(rng.getrandbits(8) for _ in range(rng.choice([0, 0, 1, 7, 40])))).hex(), "n": len(_ser(t))}
    # synthetic blocks
    nblocks = 40 if tier == "quick" else 600
    for j in range(nblocks):
        cnt = rng.choice([1, 2, 3, 5, 10, 40]) if j % 8 else rng.choice([252, 253, 300])
        txs = []
        for q in range(cnt):
            t = rand_tx(rng, coinbase=(q == 0), nin=1 if q == 0 or cnt > 100 else None, nout=1 if cnt > 100 else None,
                        scripts=cnt <= 100, min_out=1)
            txs.append(t)
        # short tails: the last transaction ends in very few bytes after its last CompactSize
        last = txs[-1]
        r = rng.random()
        if r < 0.3:
            last["outs"][-1]["script"] = rng.choice([[], [["op", "OP_1"]], [["op", "OP_RETURN"], ["data", "aa"]]])
        elif r < 0.6 and last["sw"]:
            last["wits"][-1] = rng.choice([[], [""], ["51"], ["aabb"]])
        if j % 6 == 5 and cnt <= 40:
            from sighash_common import script_of_len
            big_t = txs[rng.randrange(len(txs))]
            big_t["outs"][0]["script"] = script_of_len(rng, rng.choice([9999, 10000, 10001, 20000]))
        raws = [_ser(t) for t in txs]
        yield {"k": "blk", "raw": _frame(rng, raws).hex(), "n": cnt}
    # truncated / damaged blocks: out of domain, model mirrors the silent prefix behaviour
    for j in range(30 if tier == "quick" else 400):
        txs = [_ser(rand_tx(rng, coinbase=(q == 0), min_out=1)) for q in range(rng.choice([2, 3, 5]))]
        raw = _frame(rng, txs)
        raw = raw[:rng.randrange(90, len(raw))]
        yield {"k": "blk", "raw": raw.hex(), "dom": False}
    for idx in range(3):
        yield {"k": "realblk", "idx": idx}


def _hdr_out(h):
    return "%d,%s,%s,%d,%d,%d" % (h.version, h.previous_block_hash.hex(), h.merkle_root.hex(), h.timestamp, h.target_bits, h.nonce)


def impl(d):
    from bitcoinutils.block import Block, BlockHeader
    from bitcoinutils.utils import get_transaction_length
    k = d["k"]
    if k == "hdr":
        raw = bytes.fromhex(d["raw"])
        h = BlockHeader.from_raw(raw)
        h2 = BlockHeader.from_raw(d["raw"])
        assert _hdr_out(h) == _hdr_out(h2)
        try:
            tgt = h.get_target_bits()
            tgt = str(int(tgt, 16)) if (len(tgt) == 64 or int(tgt, 16) >= 2 ** 256) else "BADLEN"
        except ValueError:
            tgt = "ERR"
        return _hdr_out(h) + "|" + h.serialize_header().hex() + "|" + h.get_block_hash() + "|" + tgt
    if k == "len":
        return str(get_transaction_length(bytes.fromhex(d["raw"])))
    if k == "blk":
        import io, contextlib
        with contextlib.redirect_stdout(io.StringIO()):
            b = Block.from_raw(bytes.fromhex(d["raw"]))
        return "%s,%d,%d,%d|" % (b.magic.hex(), b.block_size, b.transaction_count, len(b.transactions)) + ";".join(t.to_hex() for t in b.transactions)
    if k == "realblk":
        import io, contextlib
        blk = realdata.blocks()[d["idx"]]
        with contextlib.redirect_stdout(io.StringIO()):
            b = Block.from_raw(blk["raw"].hex())
        txids = [bytes.fromhex(t.get_txid())[::-1] for t in b.transactions]
        wtxids = [bytes(32)] + [bytes.fromhex(t.get_wtxid())[::-1] for t in b.transactions[1:]]
        root = realdata.merkle_root(txids).hex()
        wroot = realdata.merkle_root(wtxids)
        cb = b.transactions[0]
        commit = "none"
        for o in cb.outputs:
            sb = o.script_pubkey.to_bytes()
            if sb[:6] == bytes.fromhex("6a24aa21a9ed"):
                commit = sb[6:38].hex()
        nonce = bytes.fromhex(cb.witnesses[0].stack[0]) if cb.has_segwit and cb.witnesses and cb.witnesses[0].stack else b""
        mine = realdata.dsha(wroot + nonce).hex() if commit != "none" else "none"
        pow_ok = int(b.header.get_block_hash(), 16) <= int(b.header.get_target_bits(), 16)
        same = all(t.to_hex() == r.hex() for t, (r, _) in zip(b.transactions, blk["txs"]))
        return "n=%d,root_ok=%d,commit_ok=%d,pow_ok=%d,slices_ok=%d" % (
            len(b.transactions), bytes.fromhex(root) == b.header.merkle_root[::-1], commit == mine, pow_ok, same)


def model(d):
    k = d["k"]
    if k == "hdr":
        return sx("header", bytes.fromhex(d["raw"]))
    if k == "len":
        return sx("txlen", bytes.fromhex(d["raw"]))
    if k == "blk":
        return sx("block", bytes.fromhex(d["raw"]))
    return None


def post(d, out):
    return out


def oracle(d):
    import hashlib
    k = d["k"]
    if k == "hdr" and not d.get("reject") and d.get("dom", True):
        raw = bytes.fromhex(d["raw"])
        f = lambda a: int.from_bytes(raw[a:a + 4], "little")
        bits = f(72); e, m = bits >> 24, bits & 0xffffff
        tgt = str(m * 256 ** (e - 3)) if e >= 3 else "ERR"
        return "%d,%s,%s,%d,%d,%d|%s|%s|%s" % (f(0), raw[4:36][::-1].hex(), raw[36:68][::-1].hex(), f(68), bits, f(76), raw.hex(),
                                              hashlib.sha256(hashlib.sha256(raw).digest()).digest()[::-1].hex(), tgt)
    if k == "len":
        return str(d["n"])
    if k == "realblk":
        n = len(realdata.blocks()[d["idx"]]["txs"])
        return "n=%d,root_ok=1,commit_ok=1,pow_ok=1,slices_ok=1" % n
    return None


# source tie (DESIGN 13.8)
from common import with_ties
LEVEL_TEXT, LEVEL_NOTE, TECHNIQUE = with_ties(TIES, LEVEL_TEXT, LEVEL_NOTE, TECHNIQUE)
