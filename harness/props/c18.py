"""C18 - timelock helpers encode BIP68/BIP112/BIP65 consistently in inputs and scripts."""
from engine import sx
from common import *

PID = "C18"
TIES = ['sequence_init', 'for_input_sequence', 'for_script', 'locktime_for_transaction', 'push_integer']   # source-tie files coq/Properties/Tie_<f>.v that belong to this property
THEOREMS = ["C18_relative", "C18_rejects", "C18_nonfinal", "C18_locktime", "C18_locktime_rejects"]
TECHNIQUE = "Coq proof (kernel-computed exhaustive check of all 2 x 65535 relative values lifted to a forall; lia for ranges) + extracted model/spec correspondence"
RULE = ("every relative value 1..65535 for both unit types (exhaustive), rejected neighbours 0/65536/negatives/2^22/2^31, absolute and RBF "
        "kinds, locktimes at 0/499999999/500000000/2^32-1 and random, out-of-range locktimes, CSV scripts built from the helper. "
        "Non-trivial = distinct input the library accepts.")
LEVEL_TEXT = ("Coq theorems: for every v in 1..65535 and both unit types the helper's input sequence, script integer, BIP68 read-back and "
              "BIP112 satisfaction hold (finite domain, computed in the kernel and lifted by forallb); rejection outside the range, "
              "non-finality of the generated constants and the locktime encoding by lia. Exhaustive differential run ties model to code.")
LEVEL_NOTE = ("Trusted: Coq kernel (vm_compute for the finite sweep), generated constants, Spec/BIP68.v as my reading of BIP68/112/125, "
              "hand-written model of Sequence/Locktime tied by the exhaustive correspondence.")


def cases(tier, rng):
    for v in range(1, 65536):
        for blk in (True, False):
            yield {"k": "rel", "v": v, "blk": blk}
    for v in (0, -1, -65535, 65536, 65537, 2 ** 22, 2 ** 22 + 5, 2 ** 31, 2 ** 32, 2 ** 32 + 1):
        for blk in (True, False):
            yield {"k": "rel", "v": v, "blk": blk, "reject": True}
    for kind in ("abs", "rbf"):
        for v in (0, 1, 10, 500000000, 65536):
            yield {"k": kind, "v": v, "blk": rng.random() < 0.5}
    lts = [0, 1, 499999999, 500000000, 500000001, 2 ** 31 - 1, 2 ** 31, 2 ** 32 - 2, 2 ** 32 - 1]
    lts += [rng.getrandbits(32) for _ in range(3000 if tier == "quick" else 100000)]
    for v in lts:
        yield {"k": "lt", "v": v}
    for v in (-1, 2 ** 32, 2 ** 32 + 7, 2 ** 40):
        yield {"k": "lt", "v": v, "reject": True}
    # numbers pushed into scripts, 0 .. 2^40 and a little beyond: boundaries of every byte width and of the sign bit
    nums = list(range(0, 20)) + [x + dlt for b in (7, 8, 15, 16, 23, 24, 31, 32, 39, 40, 47) for x in (2 ** b,) for dlt in (-2, -1, 0, 1)]
    nums += [500000000, 499999999, 2 ** 32 - 1, 2 ** 40, 2 ** 40 - 1] + [rng.getrandbits(rng.choice([17, 25, 31, 32, 33, 40])) for _ in range(200 if tier == "quick" else 5000)]
    for n in nums:
        yield {"k": "num", "n": n}
    vs = list(range(1, 65536, 1 if tier == "thorough" else 13)) + [127, 128, 129, 255, 256, 32767, 32768, 33023, 65535]
    for v in vs:
        for blk in (True, False):
            yield {"k": "csv", "v": v, "blk": blk}


def impl(d):
    from bitcoinutils.transactions import Sequence, Locktime
    from bitcoinutils.script import Script
    from bitcoinutils import constants as C
    k = d["k"]
    if k in ("rel", "abs", "rbf"):
        ty = {"rel": C.TYPE_RELATIVE_TIMELOCK, "abs": C.TYPE_ABSOLUTE_TIMELOCK, "rbf": C.TYPE_REPLACE_BY_FEE}[k]
        # the documented default of the third argument is block units: use it on every other block-unit case
        s = Sequence(ty, d["v"]) if (d["blk"] is True and d["v"] % 2 == 0) else Sequence(ty, d["v"], d["blk"])
        # the two views of one helper object must not depend on which was asked first, nor on being asked twice
        first_script = (d["v"] % 3 == 1)
        if first_script:
            try: s.for_script()
            except ValueError: pass
        a = s.for_input_sequence()
        a_raw = a
        if k != "rel" and isinstance(a, (bytes, str)):
            # the property constrains these constants only through what they mean
            ab = bytes.fromhex(a) if isinstance(a, str) else a
            x = int.from_bytes(ab, "little")
            a = "len4=%d,nonfinal=%d" % (len(ab) == 4, x != 0xFFFFFFFF) + (",rbf=%d" % (x < 0xFFFFFFFE) if k == "rbf" else "")
        else:
            a = "NONE" if a is None else (a.hex() if isinstance(a, bytes) else str(a))
        try:
            b = str(s.for_script())
        except ValueError:
            b = "ERR"
        a2 = s.for_input_sequence()
        stable = (a2 == a_raw)
        return a + "|" + b + ("" if stable else "|UNSTABLE")
    if k == "lt":
        return Locktime(d["v"]).for_transaction().hex()
    if k == "num":
        return Script([d["n"], "OP_CHECKLOCKTIMEVERIFY"]).to_bytes().hex()
    if k == "csv":
        s = Sequence(C.TYPE_RELATIVE_TIMELOCK, d["v"], d["blk"])
        return Script([s.for_script(), "OP_CHECKSEQUENCEVERIFY"]).to_bytes().hex()


def _ty(k):
    # the model takes the type constants from the regenerated tables; the harness passes the library's
    from bitcoinutils import constants as C
    return {"rel": C.TYPE_RELATIVE_TIMELOCK, "abs": C.TYPE_ABSOLUTE_TIMELOCK, "rbf": C.TYPE_REPLACE_BY_FEE}[k]


def model(d):
    k = d["k"]
    if k == "rel":
        return sx("seq", _ty(k), d["v"], d["blk"])
    if k in ("abs", "rbf"):
        return sx("seq_facts", _ty(k), d["v"], d["blk"], k == "rbf")
    if k == "lt":
        return sx("locktime", d["v"])
    if k == "num":
        return sx("to_bytes", toks_sx([["int", d["n"]], ["op", "OP_CHECKLOCKTIMEVERIFY"]]))
    return None


def spec(d):
    k = d["k"]
    if k == "rel" and 1 <= d["v"] <= 65535:
        return sx("seq_spec", d["v"], d["blk"])
    if k == "lt" and 0 <= d["v"] < 2 ** 32:
        return sx("le32", d["v"])
    if k == "csv":
        return sx("csv_script_spec", d["v"], d["blk"])
    return None


def oracle(d):
    k = d["k"]
    if k == "abs":
        return "len4=1,nonfinal=1|%d" % d["v"]
    if k == "rbf":
        return "len4=1,nonfinal=1,rbf=1|ERR"
    if k == "lt" and 0 <= d["v"] < 2 ** 32:
        return d["v"].to_bytes(4, "little").hex()
    if k == "num":
        n = d["n"]                                  # CScriptNum: minimal little-endian magnitude, 0x00 appended when the top bit is set
        if n == 0: return "00b1"
        if n <= 16: return "%02xb1" % (0x50 + n)
        b = n.to_bytes((n.bit_length() + 7) // 8, "little")
        if b[-1] & 0x80: b += b"\x00"
        return "%02x" % len(b) + b.hex() + "b1"
    return None


# source tie (DESIGN 13.8)
from common import with_ties
LEVEL_TEXT, LEVEL_NOTE, TECHNIQUE = with_ties(TIES, LEVEL_TEXT, LEVEL_NOTE, TECHNIQUE)
