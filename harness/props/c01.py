"""C01 - transaction wire format: encode, parse and re-encode are exact; ids are right."""
from engine import sx
from common import *
import realdata

PID = "C01"
TIES = ['encode_varint', 'prepend_compact_size', 'parse_compact_size', 'op_push_data', 'tx_parts', 'tx_whole', 'tx_ids']   # source-tie files coq/Properties/Tie_<f>.v that belong to this property
THEOREMS = ["C01_encode", "C01_roundtrip", "C01_reserialize", "C01_ids"]
TECHNIQUE = "Coq proof (codec refinement to the consensus layout + parse/encode round-trip by induction) + extracted model/spec correspondence incl. 4347 real transactions"
RULE = ("generated transactions: 1..40 inputs/outputs plus counts 252/253/300, any version/locktime/sequence/vout, amounts 0/1/2^63-1, "
        "scripts from the C02 generator, witness stacks 0..300 items of 0..70000 bytes with empty stacks next to non-empty ones, coinbase, "
        "mixed witness/non-witness; multi-step histories (observe, mutate through public attributes, observe again); every transaction "
        "of the three real block fixtures. Non-trivial = distinct transaction the library serialises/parses without raising.")
LEVEL_TEXT = ("Coq theorems, unbounded in counts and sizes: Transaction.to_bytes of the model equals the consensus serialiser (legacy/BIP144), "
              "from_raw inverts it (witness stacks index-aligned, empty stacks included) and re-serialises to the same bytes, txid/wtxid are "
              "the reversed double hash of the stripped/full encoding for any hash function. Model tied to the code by a differential run on "
              "generated transactions, mutation histories and all 4347 fixture transactions (extracted model + spec, hashlib-validated SHA-256).")
LEVEL_NOTE = ("Trusted: Coq kernel, Spec/Consensus.v as my reading of the wire format/BIP144, extraction, hand-written model tied by correspondence. "
              "SHA-256 abstract in theorems. wf_tx: >= 1 input, amounts < 2^63, null-txid inputs carry one raw element (library's coinbase convention). "
              "Real transactions (arbitrary script bytes) are covered by the correspondence, not by the unbounded theorem.")
ASSUMPTIONS = ["SHA-256 is abstract in the theorems; the extracted instance is validated against hashlib on each run"]


def _wf(t):
    return len(t["ins"]) >= 1 and (not t["sw"] or len(t["wits"]) == len(t["ins"]))


def cases(tier, rng):
    yield {"k": "sha", "b": ""}
    for n in (1, 55, 56, 63, 64, 65, 119, 120, 1000):
        yield {"k": "sha", "b": rand_hex(rng, n)}
    n = 2000 if tier == "quick" else 40000
    for i in range(n):
        r = rng.random()
        if r < 0.04:
            t = rand_tx(rng, nin=rng.choice([252, 253, 300]), nout=1, scripts=False)
        elif r < 0.08:
            t = rand_tx(rng, nin=1, nout=rng.choice([252, 253, 300]), scripts=False)
        elif r < 0.2:
            t = rand_tx(rng, nin=rng.randrange(1, 41), nout=rng.randrange(1, 41))
        elif r < 0.3:
            t = rand_tx(rng, coinbase=True, nin=1)
        elif r < 0.45:
            t = rand_tx(rng, segwit=True, big=True, nin=rng.choice([1, 2, 3]))
        else:
            t = rand_tx(rng, big=(i % 25 == 0))
        yield {"k": "tx", "tx": t}
        yield {"k": "rt", "tx": t}
    for i in range(60):
        yield {"k": "ids", "tx": rand_tx(rng, nin=rng.choice([1, 2]), nout=rng.choice([1, 2]), scripts=False)}
    # histories on one object
    for i in range(250 if tier == "quick" else 5000):
        t = rand_tx(rng, nin=rng.choice([1, 2, 3]), nout=rng.choice([1, 2, 3]))
        muts, cur = [], t
        for _ in range(rng.choice([1, 2, 3])):
            m = rand_mut(rng, cur); muts.append(m); cur = apply_mut(cur, m)
        yield {"k": "hist", "tx": t, "muts": muts}
    # zero-input / misaligned-witness objects: outside the property's domain, logged only
    for i in range(40):
        t = rand_tx(rng, nin=rng.choice([1, 2]), segwit=True)
        t["wits"] = t["wits"][:-1] if rng.random() < 0.5 else t["wits"] + [["aa"]]
        yield {"k": "tx", "tx": t, "dom": False}
    # the real transactions
    for b in realdata.blocks():
        txs = b["txs"]
        pick = txs
        for raw, view in pick:
            yield {"k": "real", "raw": raw.hex()}
            yield {"k": "realfacts", "raw": raw.hex()}
    # truncated / corrupted raw transactions: out of domain, logged only
    blk = realdata.blocks()[1]["txs"]
    for i in range(150 if tier == "quick" else 2000):
        raw = bytearray(blk[rng.randrange(len(blk))][0])
        if rng.random() < 0.5:
            raw = raw[:rng.randrange(1, len(raw))]
        else:
            raw[rng.randrange(len(raw))] ^= 1 << rng.randrange(8)
        yield {"k": "parse", "raw": bytes(raw).hex(), "dom": False}


def impl(d):
    import hashlib
    from bitcoinutils.transactions import Transaction
    k = d["k"]
    if k == "sha":
        return hashlib.sha256(bytes.fromhex(d["b"])).hexdigest()
    if k == "tx":
        tx = tx_build(d["tx"])
        assert tx.serialize() == tx.to_hex()
        return lib_tx_facts(tx)
    if k == "rt":
        tx = tx_build(d["tx"])
        back = Transaction.from_raw(tx.to_hex())
        # parse -> serialise -> parse again is a fixed point, and the parts parse alike through their own entry points
        again = Transaction.from_raw(back.to_hex())
        if dump_lib_tx(again) != dump_lib_tx(back) or again.to_hex() != back.to_hex():
            return "SECOND_ROUNDTRIP_DIFFERS"
        from bitcoinutils.transactions import TxInput, TxOutput
        for txin in back.inputs[:3]:
            one, _ = TxInput.from_raw(txin.to_bytes().hex(), has_segwit=back.has_segwit)
            if one.to_bytes() != txin.to_bytes(): return "TXINPUT_FROM_RAW_DIFFERS"
        for txout in back.outputs[:3]:
            one, _ = TxOutput.from_raw(txout.to_bytes().hex(), has_segwit=back.has_segwit)
            if one.to_bytes() != txout.to_bytes(): return "TXOUTPUT_FROM_RAW_DIFFERS"
        return dump_lib_tx(back) + "|" + lib_tx_facts(back)
    if k == "ids":
        tx = tx_build(d["tx"])
        return tx.get_txid() + "|" + tx.get_wtxid()
    if k == "hist":
        tx = tx_build(d["tx"])
        out = [guarded(lambda: lib_tx_facts(tx))]
        for m in d["muts"]:
            apply_mut_lib(tx, m)
            out.append(guarded(lambda: lib_tx_facts(tx)))
        return "|".join(out)
    if k in ("real", "parse"):
        tx = Transaction.from_raw(d["raw"])
        return dump_lib_tx(tx) + "|" + lib_tx_facts(tx)
    if k == "realfacts":
        return lib_tx_facts(Transaction.from_raw(d["raw"]))


def model(d):
    k = d["k"]
    if k == "sha":
        return sx("sha256", bytes.fromhex(d["b"]))
    if k == "tx":
        return sx("tx_facts", tx_sx(d["tx"]))
    if k == "rt":
        return sx("tx_roundtrip", tx_sx(d["tx"]))
    if k == "ids":
        return sx("tx_ids", tx_sx(d["tx"]))
    if k == "hist":
        out, cur = [sx("tx_facts", tx_sx(d["tx"]))], d["tx"]
        for m in d["muts"]:
            cur = apply_mut(cur, m)
            out.append(sx("tx_facts", tx_sx(cur)))
        return out
    if k in ("real", "parse"):
        return sx("tx_parse", bytes.fromhex(d["raw"]))
    return None


def spec(d):
    if not d.get("dom", True):
        return None
    k = d["k"]
    if k == "tx":
        return sx("stx_facts", tx_sx(d["tx"]))
    if k == "hist":
        out, cur = [sx("stx_facts", tx_sx(d["tx"]))], d["tx"]
        for m in d["muts"]:
            cur = apply_mut(cur, m)
            out.append(sx("stx_facts", tx_sx(cur)))
        return out
    return None


def post(d, out):
    return fill_ids(out)


def oracle(d):
    k = d["k"]
    if k == "realfacts":
        # the property itself on real data: re-serialisation reproduces the bytes, ids are the double hashes
        raw = bytes.fromhex(d["raw"])
        _, v = realdata.tx_end(raw, 0)
        st = v["stripped"]
        return "|".join([raw.hex(), st.hex(), realdata.dsha(st)[::-1].hex(), realdata.dsha(raw)[::-1].hex(), str(len(raw)),
                         str(-(-(3 * len(st) + len(raw)) // 4))])
    return None


# source tie (DESIGN 13.8)
from common import with_ties
LEVEL_TEXT, LEVEL_NOTE, TECHNIQUE = with_ties(TIES, LEVEL_TEXT, LEVEL_NOTE, TECHNIQUE)
