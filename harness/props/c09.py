"""C09 - private/public key encodings (WIF, SEC, x-only) round-trip and match the curve."""
from engine import sx, Raw
from common import *

PID = "C09"
THEOREMS = ['C09_b58_roundtrip', 'C09_b58_injective', 'C09_wif_roundtrip', 'C09_wif_checks', 'C09_explicit_secret', 'C09_sec_roundtrip', 'C09_off_curve_rejected']
TECHNIQUE = "Coq proof (Base58 round-trip by base-conversion induction, WIF export/import inverse, SEC/x-only parse of emitted encodings under the sqrt_mod specification) + extracted-model correspondence and libsecp256k1 as oracle for d*G"
RULE = ("secrets 0, 1, n-1, n, n+1 and random in [1, n-1], as exponent / 32 bytes / WIF; x coordinates with 1..3 leading zero bytes and x-only "
        "keys whose first byte is 02/03/04; both y parities; networks mainnet, testnet, regtest, signet; WIF corruption: every single-character "
        "substitution class (sampled over positions and symbols), other network's version, truncated/extended payloads, bad checksum; "
        "off-curve x, x >= p, wrong prefix byte. Non-trivial = distinct input the library accepts.")
LEVEL_TEXT = ("Coq theorems: Base58 decode inverts encode on every byte string (leading zeros included); WIF import inverts export for every secret "
              "in [1, n-1], both compression flags and the four networks, and succeeds only with a matching checksum and version byte; an explicit "
              "secret is held exactly or rejected; parsing the emitted compressed / uncompressed / x-only encoding of a curve point returns that "
              "point (even-y lift for x-only) and off-curve x is rejected, under the specification of sqrt_mod. Tied to the code by differential runs; "
              "d*G is compared with libsecp256k1.")
LEVEL_NOTE = ("Trusted: Coq kernel; sqrt_mod specification and SHA-256 (32-byte output) as premises; python-ecdsa key objects and sympy.sqrt_mod "
              "are represented by their specifications (partial: the external libraries are compared, not proved); testnet/regtest/signet share "
              "the WIF version 0xef, so 'other network' rejection is between mainnet and the rest.")
N = 0xFFFFFFFFFFFFFFFFFFFFFFFFFFFFFFFEBAAEDCE6AF48A03BBFD25E8CD0364141
P = 0xFFFFFFFFFFFFFFFFFFFFFFFFFFFFFFFFFFFFFFFFFFFFFFFFFFFFFFFEFFFFFC2F
NETS = ["mainnet", "testnet", "regtest", "signet"]
B58 = "123456789ABCDEFGHJKLMNPQRSTUVWXYZabcdefghijkmnopqrstuvwxyz"


def _b58(b):
    n = int.from_bytes(b, "big"); s = ""
    while n: n, r = divmod(n, 58); s = B58[r] + s
    return "1" * (len(b) - len(b.lstrip(b"\0"))) + s


def _wif(d, net, comp):
    import hashlib
    data = (b"\x80" if net == "mainnet" else b"\xef") + d.to_bytes(32, "big") + (b"\x01" if comp else b"")
    return _b58(data + hashlib.sha256(hashlib.sha256(data).digest()).digest()[:4])


def cases(tier, rng):
    import hashlib
    edge = [0, 1, 2, N - 1, N, N + 1, 2 ** 256 - 1]
    nrand = 60 if tier == "quick" else 2000
    for net in NETS:
        for d in edge + [rng.randrange(1, N) for _ in range(nrand)]:
            yield {"k": "exp", "net": net, "d": d, "dom": True}
            if d < 2 ** 256:
                yield {"k": "bytes", "net": net, "b": "%064x" % d}
            if 1 <= d < N:
                for comp in (True, False):
                    yield {"k": "wif", "net": net, "d": d, "comp": comp}
        yield {"k": "bytes", "net": net, "b": "11" * 31}
        yield {"k": "bytes", "net": net, "b": "11" * 33}
        yield {"k": "bytes", "net": net, "b": ""}
        yield {"k": "wifin", "net": net, "wif": ""}
    # WIF corruption
    for _ in range(150 if tier == "quick" else 5000):
        net = rng.choice(NETS); d = rng.randrange(1, N); comp = rng.random() < 0.5
        w = _wif(d, net, comp)
        r = rng.random()
        if r < 0.55:
            i = rng.randrange(len(w)); c = rng.choice([x for x in B58 if x != w[i]]); w2 = w[:i] + c + w[i + 1:]
        elif r < 0.65:
            w2 = _wif(d, "testnet" if net == "mainnet" else "mainnet", comp)
        elif r < 0.75:
            w2 = w[:-1]
        elif r < 0.85:
            w2 = w + rng.choice(B58)
        elif r < 0.92:
            i = rng.randrange(len(w)); w2 = w[:i] + rng.choice("0OIl+/ ") + w[i + 1:]
        else:
            data = (b"\x80" if net == "mainnet" else b"\xef") + d.to_bytes(32, "big") + rng.choice([b"", b"\x01", b"\x01\x01", b"\x02"])
            w2 = _b58(data + hashlib.sha256(hashlib.sha256(data).digest()).digest()[:4])
        yield {"k": "wifin", "net": net, "wif": w2}
    # public keys: emitted encodings parse back; leading zeros in x; first byte of x-only in {02,03,04}
    want = {"z": 6, "x02": 3, "x03": 3, "x04": 2}
    d = 1
    found = []
    while any(v > 0 for v in want.values()) and d < 60000:
        import coincurve
        f = coincurve.PrivateKey(d.to_bytes(32, "big")).public_key.format(False)
        x0 = f[1]
        key = "z" if x0 == 0 else ("x02" if x0 == 2 else "x03" if x0 == 3 else "x04" if x0 == 4 else None)
        if key and want[key] > 0:
            want[key] -= 1; found.append(d)
        d += 1
    for d in found + [1, 2, 3, N - 1] + [rng.randrange(1, N) for _ in range(150 if tier == "quick" else 4000)]:
        yield {"k": "pub", "d": d}
    # malformed public keys
    for _ in range(120 if tier == "quick" else 3000):
        x = rng.choice([rng.getrandbits(256), rng.randrange(P, 2 ** 256), P + rng.randrange(1, 50), rng.randrange(0, 50)])
        x = min(x, 2 ** 256 - 1)
        yield {"k": "pubraw", "hex": rng.choice(["02", "03", "", "05", "04"]) + "%064x" % x, "dom": False if False else True}
    # 65-byte encodings that are not points: right x with a wrong y, x off the curve, coordinates >= p, the other prefix bytes
    import coincurve
    for _ in range(60 if tier == "quick" else 1500):
        f = coincurve.PrivateKey(rng.randrange(1, N).to_bytes(32, "big")).public_key.format(False)
        x, y = int.from_bytes(f[1:33], "big"), int.from_bytes(f[33:], "big")
        q = rng.randrange(8)
        if q == 0: y = (y + 1) % P
        elif q == 1: y = y ^ (1 << rng.randrange(256))
        elif q == 2: x = (x + rng.randrange(1, 9)) % P
        elif q == 3: x = x ^ (1 << rng.randrange(256))
        elif q == 4: y = P - y                       # the other point with this x: valid
        elif q == 5: x, y = y, x
        elif q == 6: y = y + P if y + P < 2 ** 256 else y
        pre = rng.choice(["04", "04", "04", "06", "07", "00"])
        yield {"k": "pubraw", "hex": pre + "%064x%064x" % (x % 2 ** 256, y % 2 ** 256)}
    for hx in ["02" + "11" * 30, "04" + "11" * 64, "04" + "%064x" % 1 + "%064x" % 1, "02" + "11" * 33]:
        yield {"k": "pubraw", "hex": hx, "dom": False}


def _pub_out(pk):
    x = pk.to_hex(False)[2:66]; y = pk.to_hex(False)[66:]
    return "%d,%d|%s|%s|%s|%d" % (int(x, 16), int(y, 16), pk.to_hex(True), pk.to_hex(False), pk.to_x_only_hex(), pk.is_y_even())


def impl(d):
    from bitcoinutils.setup import setup
    from bitcoinutils.keys import PrivateKey, PublicKey
    k = d["k"]
    if "net" in d: setup(d["net"])
    if k == "exp":
        p = PrivateKey(secret_exponent=d["d"])
        return "OK:%d" % int.from_bytes(p.to_bytes(), "big")
    if k == "bytes":
        p = PrivateKey(b=bytes.fromhex(d["b"])); p2 = PrivateKey.from_bytes(bytes.fromhex(d["b"])) if d["b"] else p
        assert p.to_bytes() == p2.to_bytes()
        return "OK:%d" % int.from_bytes(p.to_bytes(), "big")
    if k == "wif":
        p = PrivateKey(secret_exponent=d["d"])
        # compressed is the documented default: rely on it for half of the compressed cases
        w = p.to_wif() if (d["comp"] and d["d"] % 2 == 0) else p.to_wif(compressed=d["comp"])
        back = PrivateKey(wif=w); back2 = PrivateKey.from_wif(w)
        return w.encode().hex() + "|OK:%d" % int.from_bytes(back.to_bytes(), "big") + "|%d" % (back2.to_bytes() == back.to_bytes())
    if k == "wifin":
        p = PrivateKey(wif=d["wif"])
        return "OK:%d" % int.from_bytes(p.to_bytes(), "big")
    if k == "pub":
        priv = PrivateKey(secret_exponent=d["d"])
        pk = priv.get_public_key()
        outs = [_pub_out(pk)]
        for enc in (pk.to_hex() if d["d"] % 2 == 0 else pk.to_hex(True), pk.to_hex(False), pk.to_x_only_hex()):
            outs.append(guarded(lambda: _pub_out(PublicKey(enc))))
            if guarded(lambda: _pub_out(PublicKey.from_hex(enc))) != outs[-1]: outs.append("FROM_HEX_DIFFERS")
        return "||".join(outs)
    if k == "pubraw":
        a = guarded(lambda: _pub_out(PublicKey(d["hex"]))); b = guarded(lambda: _pub_out(PublicKey.from_hex(d["hex"])))
        if a != b: return "FROM_HEX_DIFFERS"
        return _pub_out(PublicKey(d["hex"]))


def model(d):
    k = d["k"]
    if k == "exp":
        return sx("priv_init", d["net"], "-", d["d"], "-")
    if k == "bytes":
        return sx("priv_init", d["net"], "-", "-", bytes.fromhex(d["b"]))
    if k == "wif":
        return sx("wif_roundtrip", d["net"], d["comp"], d["d"])
    if k == "wifin":
        return sx("priv_init", d["net"], d["wif"].encode(), "-", "-")
    if k == "pub":
        return sx("pub_roundtrip", d["d"])
    if k == "pubraw":
        return sx("pub_parse", bytes.fromhex(d["hex"]))


def oracle(d):
    import coincurve
    k = d["k"]
    if k == "exp":
        return "OK:%d" % d["d"] if 1 <= d["d"] < N else "ERR"
    if k == "bytes":
        b = bytes.fromhex(d["b"]); v = int.from_bytes(b, "big")
        return "OK:%d" % v if len(b) == 32 and 1 <= v < N else "ERR"
    if k == "wif":
        return _wif(d["d"], d["net"], d["comp"]).encode().hex() + "|OK:%d|1" % d["d"]
    if k == "pub":
        f = coincurve.PrivateKey(d["d"].to_bytes(32, "big")).public_key.format(False)
        x, y = int.from_bytes(f[1:33], "big"), int.from_bytes(f[33:], "big")
        def out(x, y):
            return "%d,%d|%s%064x|04%064x%064x|%064x|%d" % (x, y, "02" if y % 2 == 0 else "03", x, x, y, x, y % 2 == 0)
        ye = y if y % 2 == 0 else P - y
        return "||".join([out(x, y), out(x, y), out(x, y), out(x, ye)])
    return None
