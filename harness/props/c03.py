"""C03 - legacy signature hash equals the original Bitcoin SignatureHash."""
from engine import sx
from common import *
from sighash_common import *

PID = "C03"
TIES = ['tx_parts', 'tx_whole', 'legacy_digest']   # source-tie files coq/Properties/Tie_<f>.v that belong to this property
THEOREMS = ["C03_digest", "C03_single_refuses", "C03_ignores_scriptsigs"]
TECHNIQUE = "Coq proof (refinement of the copy-blank-mutate-serialise model to Core's per-field SignatureHash serialiser) + extracted model/spec and Python-oracle correspondence, real P2PKH signatures under libsecp256k1"
RULE = ("transactions of 1..8 inputs and 0..8 outputs with arbitrary outpoints/sequences/versions/locktimes and existing scriptSigs, every "
        "input index, six hash types, script codes of 0..70000 bytes at the CompactSize boundaries, SINGLE without matching output, "
        "observe-mutate-observe histories, and the real P2PKH spends of the block fixtures. Non-trivial = distinct (tx, index, script, type) "
        "for which a digest is returned.")
LEVEL_TEXT = ("Coq theorem, unbounded in inputs/outputs/script sizes: the model of get_transaction_digest (copy, blank scriptSigs, install script "
              "code, NONE/SINGLE/ANYONECANPAY rewriting, to_bytes, 4-byte type) equals Bitcoin Core's SignatureHash preimage under double "
              "SHA-256, refuses SINGLE without a matching output, and ignores existing scriptSigs. Tied to the code by differential runs "
              "(extracted model, extracted spec, independent Python oracle) and by verifying real P2PKH signatures with libsecp256k1.")
LEVEL_NOTE = ("Trusted: Coq kernel, Spec/SighashSpec.v (my reading of Core's SignatureHash), extraction, hand-written model tied by correspondence, "
              "coincurve/libsecp256k1 for the real signatures. SHA-256 abstract. OP_CODESEPARATOR-free script codes; no null-txid inputs.")


def cases(tier, rng):
    n = 500 if tier == "quick" else 12000
    for j in range(n):
        t = rand_tx(rng, nin=rng.randrange(1, 9), nout=rng.randrange(0, 9), segwit=False)
        nin = len(t["ins"])
        if j % 10 == 0:
            sc = script_of_len(rng, rng.choice(BOUNDARY_LENS))
        else:
            sc = rand_script(rng, 6)
        idxs = range(nin) if j % 4 == 0 else [rng.randrange(nin)]
        for i in idxs:
            for ht in (LEGACY_TYPES if j % 3 == 0 else [rng.choice(LEGACY_TYPES)]):
                yield {"k": "dig", "tx": t, "i": i, "sc": sc, "ht": ht}
    # version other than 2, single-input/zero-output corner, index == number of outputs
    for nout in range(0, 4):
        for nin in range(1, 5):
            t = rand_tx(rng, nin=nin, nout=nout, segwit=False); t["ver"] = rng.choice(["01000000", "03000000"])
            for i in range(nin):
                for ht in (3, 0x83):
                    yield {"k": "dig", "tx": t, "i": i, "sc": rand_script(rng, 3), "ht": ht}
    # out-of-range index: rejected
    for _ in range(20):
        t = rand_tx(rng, nin=2, nout=2, segwit=False)
        yield {"k": "dig", "tx": t, "i": 2 + rng.randrange(3), "sc": [], "ht": 1, "reject": True}
    # histories on one object: digest, mutate, digest again
    for j in range(200 if tier == "quick" else 4000):
        t = rand_tx(rng, nin=rng.choice([1, 2, 3]), nout=rng.choice([1, 2, 3]), segwit=False)
        muts, cur = [], t
        for _ in range(rng.choice([1, 2])):
            m = rand_mut(rng, cur)
            if m["m"] in ("witness", "segwit"): continue
            muts.append(m); cur = apply_mut(cur, m)
        i = rng.randrange(len(t["ins"]))
        yield {"k": "hist", "tx": t, "muts": muts, "i": i, "sc": rand_script(rng, 4), "ht": rng.choice(LEGACY_TYPES)}
    yield from real_cases(tier, rng)


def real_cases(tier, rng):
    import realdata
    cnt = 0
    for b in realdata.blocks():
        for raw, v in b["txs"]:
            for i, x in enumerate(v["ins"]):
                sc = x[2]
                # scriptSig = <DER sig + type> <pubkey>
                if len(sc) < 100 or sc[0] < 0x47 or sc[0] > 0x49 or sc[1] != 0x30: continue
                sl = sc[0]; rest = sc[1 + sl:]
                if len(rest) not in (34, 66) or rest[0] != len(rest) - 1: continue
                sig, pk = sc[1:1 + sl], rest[1:]
                cnt += 1
                if tier == "quick" and cnt % 3: continue
                yield {"k": "real", "raw": raw.hex(), "i": i, "sig": sig.hex(), "pk": pk.hex()}


def _p2pkh_script(pk):
    import hashlib
    from Crypto.Hash import RIPEMD160
    h = RIPEMD160.new(hashlib.sha256(pk).digest()).digest()
    return [["op", "OP_DUP"], ["op", "OP_HASH160"], ["data", h.hex()], ["op", "OP_EQUALVERIFY"], ["op", "OP_CHECKSIG"]]


def impl(d):
    from bitcoinutils.script import Script
    from bitcoinutils.transactions import Transaction
    k = d["k"]
    if k == "dig":
        tx = tx_build(d["tx"])
        before = tx.to_hex()
        r = tx.get_transaction_digest(d["i"], Script([tok_py(x) for x in d["sc"]]), d["ht"]).hex()
        assert tx.to_hex() == before
        return r
    if k == "hist":
        tx = tx_build(d["tx"])
        sc = Script([tok_py(x) for x in d["sc"]])
        out = [guarded(lambda: tx.get_transaction_digest(d["i"], sc, d["ht"]).hex())]
        for m in d["muts"]:
            apply_mut_lib(tx, m)
            out.append(guarded(lambda: tx.get_transaction_digest(d["i"], sc, d["ht"]).hex()))
        return "|".join(out)
    if k == "real":
        import coincurve
        tx = Transaction.from_raw(d["raw"])
        pk, sig = bytes.fromhex(d["pk"]), bytes.fromhex(d["sig"])
        ht = sig[-1]
        dig = tx.get_transaction_digest(d["i"], Script([tok_py(x) for x in _p2pkh_script(pk)]), ht)
        ok = coincurve.PublicKey(pk).verify(_lax_der(sig[:-1]), dig, hasher=None)
        return dig.hex() + "|verifies=%d" % ok


def _lax_der(sig):
    """re-encode r, s strictly (old signatures may carry negative/padded integers that libsecp256k1 rejects)"""
    assert sig[0] == 0x30
    lr = sig[3]; r = int.from_bytes(sig[4:4 + lr], "big"); ls = sig[5 + lr]; s = int.from_bytes(sig[6 + lr:6 + lr + ls], "big")
    n = 0xFFFFFFFFFFFFFFFFFFFFFFFFFFFFFFFEBAAEDCE6AF48A03BBFD25E8CD0364141
    if s > n // 2: s = n - s
    def enc(x):
        b = x.to_bytes((x.bit_length() + 7) // 8 or 1, "big")
        return b"\x02" + bytes([len(b) + (b[0] >> 7)]) + (b"\0" if b[0] & 0x80 else b"") + b
    body = enc(r) + enc(s)
    return b"\x30" + bytes([len(body)]) + body


def model(d):
    k = d["k"]
    if k == "dig":
        return sx("legacy_pre", tx_sx(d["tx"]), d["i"], toks_sx(d["sc"]), d["ht"])
    if k == "hist":
        out, cur = [], d["tx"]
        for m in [None] + d["muts"]:
            if m: cur = apply_mut(cur, m)
            out.append(sx("legacy_pre", tx_sx(cur), d["i"], toks_sx(d["sc"]), d["ht"]))
        return out
    return None


def spec(d):
    k = d["k"]
    if d.get("reject"): return None
    if k == "dig":
        return sx("spec_legacy_pre", tx_sx(d["tx"]), d["i"], toks_sx(d["sc"]), d["ht"])
    if k == "hist":
        out, cur = [], d["tx"]
        for m in [None] + d["muts"]:
            if m: cur = apply_mut(cur, m)
            out.append(sx("spec_legacy_pre", tx_sx(cur), d["i"], toks_sx(d["sc"]), d["ht"]))
        return out
    return None


def post(d, out):
    import hashlib
    return "|".join(hashlib.sha256(hashlib.sha256(bytes.fromhex(x[2:])).digest()).hexdigest() if x.startswith("P:") else x
                    for x in out.split("|"))


def oracle(d):
    import refsighash, realdata
    k = d["k"]
    if k == "dig":
        if d.get("reject"): return "ERR"
        r = refsighash.legacy(view_of(d["tx"]), d["i"], asm_ref(d["sc"]), d["ht"])
        return "ERR" if r is None else r.hex()
    if k == "hist":
        out, cur = [], d["tx"]
        for m in [None] + d["muts"]:
            if m: cur = apply_mut(cur, m)
            r = refsighash.legacy(view_of(cur), d["i"], asm_ref(d["sc"]), d["ht"])
            out.append("ERR" if r is None else r.hex())
        return "|".join(out)
    if k == "real":
        raw = bytes.fromhex(d["raw"]); _, v = realdata.tx_end(raw, 0)
        pk, sig = bytes.fromhex(d["pk"]), bytes.fromhex(d["sig"])
        r = refsighash.legacy(v, d["i"], asm_ref(_p2pkh_script(pk)), sig[-1])
        return r.hex() + "|verifies=1"


# source tie (DESIGN 13.8)
from common import with_ties
LEVEL_TEXT, LEVEL_NOTE, TECHNIQUE = with_ties(TIES, LEVEL_TEXT, LEVEL_NOTE, TECHNIQUE)
