"""C08 - taproot addresses and control blocks commit to key and script tree per BIP341."""
from engine import sx, Raw
from common import *
from taproot_common import *

PID = "C08"
TIES = ['tagged_hash', 'tapbranch_tagged_hash', 'tapleaf_tagged_hash', 'prepend_compact_size']   # source-tie files coq/Properties/Tie_<f>.v that belong to this property
THEOREMS = ["C08_root", "C08_path_recomputes", "C08_control_verifies"]
TECHNIQUE = "Coq proof (merkle root = BIP341 tree root; generated path recomputes the root for every tree and leaf position, by induction on the tree) + extracted-model correspondence and an independent libsecp256k1-based BIP341 reference"
RULE = ("every full binary tree shape with 1..7 leaves and every leaf index (exhaustive), single-element list wrappers, random shapes to depth 8, "
        "leaf scripts of 1..70000 bytes incl. duplicated leaves, internal keys of both parities with output keys of both parities forced to "
        "occur, output keys with a leading zero byte searched for, key-only addresses and raw 32-byte roots. Non-trivial = distinct (key, tree, "
        "index) for which address and control block are produced.")
LEVEL_TEXT = ("Coq theorems over all proper trees and all leaf positions (any SHA-256 with 32-byte output): the model's merkle root is BIP341's tree "
              "root (leaf version 0xc0, CompactSize script, sorted branches) and folding the generated control-block path from the leaf hash "
              "recomputes that root. The curve part (output key = lift_x(P) + tG, parity flag) is covered by the abstract-curve theorems shared "
              "with C07. Tied to the code by exhaustive-shape differential runs against the extracted model and an independent libsecp256k1 reference.")
LEVEL_NOTE = ("Trusted: Coq kernel, Spec/BIP341.v as my reading of BIP341, curve_laws premises for the curve part, extraction, model tied by "
              "correspondence, coincurve/libsecp256k1. The caller must pass is_odd to ControlBlock; the check passes the address's own flag.")
N = 0xFFFFFFFFFFFFFFFFFFFFFFFFFFFFFFFEBAAEDCE6AF48A03BBFD25E8CD0364141


def cases(tier, rng):
    import refbip341
    # keys of both parities (internal) — and search a few whose output key is odd / even / has a leading zero byte
    keys = [1, 2, 3, 5, 7, N - 1, rng.randrange(1, N), rng.randrange(1, N), rng.randrange(1, N), rng.randrange(1, N)]
    for n in range(1, 8):
        for sh in shapes(n):
            t = fill(sh, lambda: rand_leaf_script(rng))
            if n > 1 and rng.random() < 0.3:
                t = {"list": [t]}
            key = rng.choice(keys)
            for idx in range(n):
                yield {"k": "cb", "key": key, "tree": t, "idx": idx}
    # duplicated leaves
    for n in (2, 3, 4, 5):
        s = rand_leaf_script(rng)
        for sh in rng.sample(shapes(n), min(3, len(shapes(n)))):
            t = fill(sh, lambda: s)
            for idx in range(n):
                yield {"k": "cb", "key": rng.choice(keys), "tree": t, "idx": idx}
    for _ in range(120 if tier == "quick" else 4000):
        t = rand_tree(rng, depth=rng.choice([2, 3, 5, 8]), big=rng.random() < 0.1, pool=[])
        n = n_leaves(t)
        if n > 64: continue
        yield {"k": "cb", "key": rng.randrange(1, N), "tree": t, "idx": rng.randrange(n)}
    from sighash_common import script_of_len
    for ln in (65535, 65536, 70000):
        t = {"list": [{"leaf": script_of_len(rng, ln)}, {"leaf": rand_leaf_script(rng)}]}
        for idx in (0, 1):
            yield {"k": "cb", "key": rng.randrange(1, N), "tree": t, "idx": idx}
    # addresses: none / tree / raw root; leading-zero output keys (about 1 in 256)
    for j in range(600 if tier == "quick" else 20000):
        key = rng.randrange(1, N) if j > 20 else keys[j % len(keys)]
        r = rng.random()
        sc = None if r < 0.3 else ({"root": rand_hex(rng, 32)} if r < 0.5 else rand_tree(rng, depth=2))
        yield {"k": "addr", "key": key, "sc": sc}
    # ... and a few found by search, so that every run has them
    found = tries = 0
    while found < (4 if tier == "quick" else 24) and tries < 20000:
        tries += 1
        key = rng.randrange(1, N); sc = None if tries % 2 else rand_tree(rng, depth=2)
        try:
            root = b"" if sc is None else refbip341.root_and_paths(tree_ref(sc))[0]
        except Exception:
            continue
        if refbip341.output(key, root)[0][0] != 0: continue
        found += 1
        yield {"k": "addr", "key": key, "sc": sc}
    # index out of range and malformed trees: out of the property's domain, model mirrors
    t3 = {"list": [{"leaf": [["op", "OP_1"]]}, {"leaf": [["op", "OP_2"]]}, {"leaf": [["op", "OP_3"]]}]}
    yield {"k": "addr", "key": 5, "sc": t3, "dom": False}
    yield {"k": "cb", "key": 5, "tree": fill(shapes(2)[0], lambda: [["op", "OP_1"]]), "idx": 5, "dom": False}


def impl(d):
    from bitcoinutils.keys import PrivateKey
    from bitcoinutils.utils import ControlBlock
    k = d["k"]
    pub = PrivateKey(secret_exponent=d["key"]).get_public_key()
    if k == "addr":
        a = pub.get_taproot_address(sarg_py(d["sc"]))
        wp2, odd2 = pub.to_taproot_hex(sarg_py(d["sc"]))
        assert wp2 == a.to_witness_program() and odd2 == a.is_odd()
        return a.to_witness_program() + ",%d" % a.is_odd()
    if k == "cb":
        tree = tree_py(d["tree"])
        a = pub.get_taproot_address(tree)
        cb = ControlBlock(pub, tree, d["idx"], is_odd=a.is_odd())
        assert cb.to_hex() == cb.to_bytes().hex()
        return a.to_witness_program() + ",%d|" % a.is_odd() + cb.to_bytes().hex()


def _pub(key):
    import refbip341
    return list(refbip341.pub_xy(key))


def model(d):
    k = d["k"]
    if k == "addr":
        return sx("to_taproot", _pub(d["key"]), Raw(sarg_sx(d["sc"])))
    if k == "cb":
        return sx("taproot_cb", _pub(d["key"]), Raw(tree_sx(d["tree"])), d["idx"])


def oracle(d):
    import refbip341
    k = d["k"]
    if not d.get("dom", True): return None
    if k == "addr":
        sc = d["sc"]
        if sc is None: root = b""
        elif "root" in sc: root = bytes.fromhex(sc["root"])
        else:
            rt = tree_ref(sc)
            if rt is None: return None
            root = refbip341.root_and_paths(rt)[0]
        wp, odd, _ = refbip341.output(d["key"], root)
        return wp.hex() + ",%d" % odd
    if k == "cb":
        rt = tree_ref(d["tree"])
        root, leaves = refbip341.root_and_paths(rt)
        wp, odd, _ = refbip341.output(d["key"], root)
        cb = refbip341.control_block(d["key"], rt, d["idx"])
        assert refbip341.verify_script_path(cb, leaves[d["idx"]][0], wp)
        return wp.hex() + ",%d|" % odd + cb.hex()


# source tie (DESIGN 13.8)
from common import with_ties
LEVEL_TEXT, LEVEL_NOTE, TECHNIQUE = with_ties(TIES, LEVEL_TEXT, LEVEL_NOTE, TECHNIQUE)
