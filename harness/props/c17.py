"""C17 - CompactSize and satoshi amount conversions."""
from decimal import Decimal
from engine import sx

PID = "C17"
TIES = ['encode_varint', 'prepend_compact_size', 'parse_compact_size', 'vi_to_int']   # source-tie files coq/Properties/Tie_<f>.v that belong to this property
THEOREMS = ["C17_canonical", "C17_shortest", "C17_too_large", "C17_parse", "C17_vi", "C17_prefix_free",
            "C17_prepend", "C17_sat_decimal", "C17_sat_float", "C17_sat_float_near"]
TECHNIQUE = "Coq proof (lia over the piecewise boundaries; Flocq for the float path) + extracted-model correspondence"
RULE = ("n exhaustively 0..70000, +-3 around 252/253/2^16/2^32/2^64, negatives, random 64-bit; decoders on encoder output "
        "with random suffixes, truncated and non-canonical inputs; amounts as int / Decimal (<= 8 decimals) / float over "
        "0..21e6 BTC plus classic float traps. Non-trivial = distinct input on which the library does not raise.")
ASSUMPTIONS = ["CPython float is IEEE-754 binary64 round-to-nearest-even and round() is exact half-even (C17_sat_float)",
               "decimal default context (28 digits) is exact for amounts <= 21e6 BTC with <= 8 decimals"]


def cases(tier, rng):
    top = 70000
    for n in range(0, top + 1):
        yield {"k": "enc", "n": n}
    bnd = [252, 253, 2 ** 16, 2 ** 32, 2 ** 64]
    for b in bnd:
        for dlt in range(-3, 4):
            yield {"k": "enc", "n": b + dlt}
    for n in (-1, -2, -253, 2 ** 64 + 5, 2 ** 70):
        yield {"k": "enc", "n": n}
    nr = 3000 if tier == "quick" else 100000
    for _ in range(nr):
        yield {"k": "enc", "n": rng.getrandbits(rng.choice([8, 16, 17, 32, 33, 63, 64]))}
    # decoders on canonical encodings with a suffix
    vals = list(range(0, 600)) + [b + d for b in bnd[:4] for d in range(-3, 4)] + [2 ** 64 - 1]
    vals += [rng.getrandbits(rng.choice([8, 16, 32, 64])) for _ in range(1500 if tier == "quick" else 40000)]
    for v in vals:
        suf = bytes(rng.getrandbits(8) for _ in range(rng.choice([0, 0, 1, 3, 9])))
        yield {"k": "dec", "n": v, "suf": suf.hex()}
    # arbitrary / truncated / non-canonical byte strings (out of the property's domain except where noted)
    for _ in range(1500 if tier == "quick" else 30000):
        ln = rng.choice([0, 1, 1, 2, 3, 4, 5, 8, 9, 10])
        b = bytes([rng.choice([0, 1, 252, 253, 254, 255, rng.getrandbits(8)])] + [rng.getrandbits(8) for _ in range(max(0, ln - 1))])[:ln]
        yield {"k": "raw", "b": b.hex(), "dom": False}
    # prepend
    for ln in list(range(0, 300)) + [65535, 65536, 70000] + [rng.randrange(0, 70000) for _ in range(20 if tier == "quick" else 300)]:
        yield {"k": "pre", "len": ln, "fill": rng.getrandbits(8)}
    # amounts
    for v in [0, 1, 21000000, 20999999, 12345678]:
        yield {"k": "sat_int", "n": v}
    na = 4000 if tier == "quick" else 150000
    for _ in range(na):
        k = rng.randrange(0, 21 * 10 ** 14 + 1) if rng.random() < 0.8 else rng.choice(
            [29000000, 30000000, 110000000, 2099999997690000, 21 * 10 ** 14, 1, 99999999, 100000001])
        e = rng.choice([8, 8, 8, 7, 5, 2, 0])
        k -= k % (10 ** (8 - e))
        yield {"k": "sat_dec", "c": k // 10 ** (8 - e), "e": e}
        yield {"k": "sat_float", "sat": k}
    for s in ["0.29", "0.3", "1.1", "20999999.9769", "0.1", "0.2", "0.7", "8.2", "4.35", "0.57", "1.15", "2.675", "0.00000001"]:
        yield {"k": "sat_float_lit", "lit": s}
    yield {"k": "sat_float_sum", "a": "0.1", "b": "0.2", "sat": 30000000}


def impl(d):
    from bitcoinutils import utils
    k = d["k"]
    if k == "enc":
        return utils.encode_varint(d["n"]).hex()
    if k == "dec":
        enc = utils.encode_varint(d["n"]) + bytes.fromhex(d["suf"])
        a = utils.parse_compact_size(enc)
        b = utils.vi_to_int(enc)
        return "%d,%d|%d,%d" % (a[0], a[1], b[0], b[1])
    if k == "raw":
        b = bytes.fromhex(d["b"])
        try:
            a = utils.parse_compact_size(b)
            ra = "%d,%d" % (a[0], a[1])
        except Exception:
            ra = "ERR"
        try:
            v = utils.vi_to_int(b)
            rv = "%d,%d" % (v[0], v[1])
        except Exception:
            rv = "ERR"
        return ra + "|" + rv
    if k == "pre":
        data = bytes([d["fill"]]) * d["len"]
        out = utils.prepend_compact_size(data)
        a = utils.parse_compact_size(out)
        return out[:a[1]].hex() + ":" + ("same" if out[a[1]:] == data and a[0] == len(data) else "DIFF")
    if k == "sat_int":
        return str(utils.to_satoshis(d["n"]))
    if k == "sat_dec":
        return str(utils.to_satoshis(Decimal(d["c"]).scaleb(-d["e"])))
    if k == "sat_float":
        return str(utils.to_satoshis(d["sat"] / 100000000))
    if k == "sat_float_lit":
        return str(utils.to_satoshis(float(d["lit"])))
    if k == "sat_float_sum":
        return str(utils.to_satoshis(float(d["a"]) + float(d["b"])))
    raise KeyError(k)


def model(d):
    k = d["k"]
    if k == "enc":
        return sx("encode_varint", d["n"])
    if k == "dec":
        b = _enc(d["n"]) + bytes.fromhex(d["suf"])
        return [sx("parse_compact_size", b), sx("vi_to_int", b)]
    if k == "raw":
        b = bytes.fromhex(d["b"])
        return [sx("parse_compact_size", b), sx("vi_to_int", b)]
    if k == "pre":
        return sx("prepend_hdr", d["len"], d["fill"])
    if k == "sat_int":
        return sx("to_satoshis_int", d["n"])
    if k == "sat_dec":
        return sx("to_satoshis_dec", d["c"], d["e"])
    return None


def _enc(n):
    # harness-side canonical encoder used only to build decoder inputs
    if n < 253: return bytes([n])
    if n < 2 ** 16: return b"\xfd" + n.to_bytes(2, "little")
    if n < 2 ** 32: return b"\xfe" + n.to_bytes(4, "little")
    return b"\xff" + n.to_bytes(8, "little")


def spec(d):
    k = d["k"]
    if k == "enc" and 0 <= d["n"] < 2 ** 64:
        return sx("spec_compact", d["n"])
    return None


def oracle(d):
    k = d["k"]
    if k == "enc":
        return "ERR" if not (0 <= d["n"] < 2 ** 64) else None
    if k == "dec":
        ln = len(_enc(d["n"]))
        return "%d,%d|%d,%d" % (d["n"], ln, d["n"], ln)
    if k == "pre":
        return _enc(d["len"]).hex() + ":same"
    if k == "sat_dec":
        return str(d["c"] * 10 ** (8 - d["e"]))
    if k == "sat_float":
        return str(d["sat"])
    if k == "sat_float_lit":
        return str(int(Decimal(d["lit"]) * 10 ** 8))
    if k == "sat_float_sum":
        return str(d["sat"])
    if k == "sat_int":
        return str(d["n"] * 10 ** 8)
    return None

LEVEL_TEXT = ("Machine-checked Coq theorems (unbounded in n and in the suffix) that the model's CompactSize encoder is the canonical "
              "shortest form, that both decoders invert it, prefix-freeness, and exactness of the amount conversion for int/Decimal; "
              "the model is tied to the code by an exhaustive (0..70000) and boundary-dense differential run on every check.")
LEVEL_NOTE = ("Trusted: Coq kernel; hand-written model of utils.encode_varint/parse_compact_size/vi_to_int/prepend_compact_size/"
              "to_satoshis tied to the code by the correspondence; float path proved separately under the IEEE-754 binary64 assumption.")


# source tie (DESIGN 13.8)
from common import with_ties
LEVEL_TEXT, LEVEL_NOTE, TECHNIQUE = with_ties(TIES, LEVEL_TEXT, LEVEL_NOTE, TECHNIQUE)
