"""C02 - script assembly emits canonical bytes and disassembly inverts it."""
from engine import sx
from common import *

PID = "C02"
TIES = ['op_push_data', 'push_integer', 'vi_to_int']   # source-tie files coq/Properties/Tie_<f>.v that belong to this property
THEOREMS = ["C02_tables_ok", "C02_assemble", "C02_scriptnum", "C02_disassemble", "C02_reassemble"]
TECHNIQUE = "Coq proof (induction over token lists, reflective table lemmas on regenerated tables) + extracted model/spec correspondence"
RULE = ("every named opcode alone and in pairs; integers 0..70000, powers of two +-1 up to 2^63 and top-byte-0x80 values; every data "
        "length 0..600 plus 75/76/255/256/65535/65536 and random up to 70000; random sequences of 0..60 tokens; both has_segwit "
        "values; separate malformed raw-byte stream. Non-trivial = distinct token list the library assembles without raising.")
LEVEL_TEXT = ("Coq theorems, unbounded in the token list and in push/integer sizes: the model's assembler equals the consensus "
              "encoder (CScript operator<<, push_int64, CScriptNum), disassembly of assembled bytes returns the canonical tokens and "
              "re-assembles to the same bytes; table facts are re-proved by computation on tables regenerated from /repo each run. "
              "Model tied to Script.to_bytes/from_raw by a boundary-dense differential run against extracted model and spec.")
LEVEL_NOTE = ("Trusted: Coq kernel, table generator, Spec/Opcodes.v + Spec/ScriptSpec.v as my reading of Bitcoin Core's script.h, "
              "hand-written model of script.py tied by the correspondence. Data length < 2^32-1; lone OP_PUSHDATAn names excluded "
              "from disassembly theorems.")


def cases(tier, rng):
    # every name alone (incl. PUSHDATA names for assembly), and all ordered pairs of disassemblable names
    for n in LIB_NAMES:
        yield {"k": "asm", "ts": [["op", n]]}
    for n in DIS_NAMES:
        yield {"k": "dis", "ts": [["op", n]], "hs": False}
        yield {"k": "dis", "ts": [["op", n]], "hs": True}
    pairs = [(a, b) for a in DIS_NAMES for b in DIS_NAMES]
    if tier == "quick":
        pairs = rng.sample(pairs, 1500)
    for a, b in pairs:
        yield {"k": "dis", "ts": [["op", a], ["op", b]], "hs": rng.random() < 0.5}
    # names the library does not have: out of domain, logged only
    for n in sorted(set(CONSENSUS) - set(LIB_NAMES)):
        yield {"k": "asm", "ts": [["op", n]], "dom": False}
    # integers
    top = 70000 if tier == "thorough" else 20000
    ints = list(range(0, top + 1))
    for e in range(1, 64):
        ints += [2 ** e - 1, 2 ** e, 2 ** e + 1]
    for nb in range(1, 9):
        ints += [0x80 << (8 * (nb - 1)), (0x80 << (8 * (nb - 1))) + 1, (0x7f << (8 * (nb - 1))) | ((1 << (8 * (nb - 1))) - 1),
                 (0xff << (8 * (nb - 1)))]
    ints += [rng.getrandbits(rng.choice([17, 24, 31, 32, 40, 48, 63])) for _ in range(2000)]
    ints += [-1, -5, -128]
    for n in ints:
        yield {"k": "dis", "ts": [["int", n]], "hs": False, "dom": n >= 0}
    # data lengths
    lens = list(range(0, 601)) + [65534, 65535, 65536, 65537, 70000] + [rng.randrange(600, 70000) for _ in range(6 if tier == "quick" else 60)]
    for ln in lens:
        yield {"k": "dis", "ts": [["data", rand_data(rng, ln)]], "hs": ln % 2 == 0}
    # random sequences
    for i in range(4000 if tier == "quick" else 60000):
        ts = rand_script(rng, 60 if i % 4 == 0 else 12, big=(i % 50 == 0))
        yield {"k": "dis", "ts": ts, "hs": rng.random() < 0.5}
    # sequences with PUSHDATA names, assembly only
    for i in range(300):
        yield {"k": "asm", "ts": rand_script(rng, 10, names=LIB_NAMES)}
    # malformed / arbitrary raw bytes: model mirrors the code, differences are information only
    for i in range(1500 if tier == "quick" else 20000):
        n = rng.choice([1, 2, 3, 5, 9, 20, 80])
        raw = bytes(rng.choice([0x4c, 0x4d, 0x4e, 0xfd, 0xfe, 0xff, 0x50, 0xba, rng.getrandbits(8)]) if rng.random() < 0.4
                    else rng.getrandbits(8) for _ in range(n))
        yield {"k": "raw", "b": raw.hex(), "hs": rng.random() < 0.5, "dom": False}


def impl(d):
    from bitcoinutils.script import Script
    k = d["k"]
    if k == "asm":
        return Script([tok_py(t) for t in d["ts"]]).to_bytes().hex()
    if k == "dis":
        s = Script([tok_py(t) for t in d["ts"]])
        raw = s.to_bytes()
        assert s.to_hex() == raw.hex()
        back = Script.from_raw(raw.hex(), has_segwit=d["hs"])
        back2 = Script.from_raw(raw.hex()) if not d["hs"] else back
        return raw.hex() + "|" + show_lib_tokens(back.get_script()) + "|" + back2.to_bytes().hex()
    if k == "raw":
        back = Script.from_raw(d["b"], has_segwit=d["hs"])
        return show_lib_tokens(back.get_script())
    raise KeyError(k)


def model(d):
    k = d["k"]
    if k == "asm":
        return sx("to_bytes", toks_sx(d["ts"]))
    if k == "dis":
        return sx("asm_dis", toks_sx(d["ts"]), d["hs"])
    if k == "raw":
        return sx("from_raw", bytes.fromhex(d["b"]), d["hs"])


def spec(d):
    if not d.get("dom", True):
        return None
    k = d["k"]
    if k == "asm":
        return sx("spec_assemble", toks_sx(d["ts"]))
    if k == "dis":
        return sx("spec_asm_dis", toks_sx(d["ts"]))
    return None


# source tie (DESIGN 13.8)
from common import with_ties
LEVEL_TEXT, LEVEL_NOTE, TECHNIQUE = with_ties(TIES, LEVEL_TEXT, LEVEL_NOTE, TECHNIQUE)
