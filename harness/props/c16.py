"""C16 - reported size and virtual size follow BIP141 weight accounting."""
from engine import sx
from common import *

PID = "C16"
TIES = ['encode_varint', 'prepend_compact_size', 'tx_parts', 'tx_whole', 'tx_ids']   # source-tie files coq/Properties/Tie_<f>.v that belong to this property
THEOREMS = ["C16_size_vsize", "C16_legacy", "C16_ceil"]
TECHNIQUE = "Coq proof (length arithmetic over the proved serialisation) + extracted model/spec correspondence on witness-count and item-size boundaries"
RULE = ("transactions of the C01 generator with witness stacks of 0/1/127/128/252/253/300 items, items of 0..70000 bytes incl. "
        "126/127/252/253/255/256/32767/32768/65535/65536, legacy transactions, segwit-flagged transactions without stacks, and "
        "observe-mutate-observe histories. Non-trivial = distinct transaction whose sizes the library reports without raising.")
LEVEL_TEXT = ("Coq theorems, unbounded in stacks and items: get_size is the length of the consensus serialisation and get_vsize equals "
              "ceil((3*stripped + full)/4) (BIP141) for legacy and segwit transactions, derived from the proved serialiser refinement "
              "(C01_encode). Model tied to get_size/get_vsize by a boundary-dense differential run against extracted model and spec.")
LEVEL_NOTE = ("Trusted: Coq kernel, Spec/Consensus.v (BIP141 weight), extraction, model tied by correspondence. The float division and "
              "math.ceil of get_vsize are modelled in Z (exact: division by 4 is exact in binary64 below 2^53).")

ITEM_SIZES = [0, 1, 75, 76, 126, 127, 128, 252, 253, 254, 255, 256, 520, 32767, 32768, 65535, 65536, 70000]
STACK_COUNTS = [0, 1, 2, 127, 128, 252, 253, 300]


def cases(tier, rng):
    for cnt in STACK_COUNTS:
        for isz in ([0, 1, 33, 72] if cnt > 10 else ITEM_SIZES):
            t = rand_tx(rng, nin=1, nout=1, segwit=True, scripts=False)
            t["wits"] = [[rand_data(rng, isz)] * cnt]
            yield {"k": "tx", "tx": t}
    for isz in ITEM_SIZES:
        t = rand_tx(rng, nin=2, nout=2, segwit=True, scripts=False)
        t["wits"] = [[rand_data(rng, 72), rand_data(rng, isz)], []]
        yield {"k": "tx", "tx": t}
    # input / output counts around the CompactSize boundary in segwit (and legacy) transactions
    for nin, nout in ((252, 1), (253, 1), (1, 252), (1, 253), (300, 2), (2, 300), (253, 253)):
        for sw in (True, True, False):
            t = rand_tx(rng, nin=nin, nout=nout, segwit=sw, scripts=False)
            if sw:
                t["wits"] = [rng.choice([[], [rand_data(rng, 72), rand_data(rng, 33)], [rand_data(rng, 64)]]) for _ in range(nin)]
            yield {"k": "tx", "tx": t}
    # unsigned segwit transaction: flag set, no stacks yet; and more/fewer stacks than inputs
    for nin in (1, 2, 3):
        t = rand_tx(rng, nin=nin, segwit=True); t["wits"] = []
        yield {"k": "tx", "tx": t}
        t = rand_tx(rng, nin=nin, segwit=True); t["wits"] = t["wits"] + [["aa" * 33]]
        yield {"k": "tx", "tx": t}
    n = 1200 if tier == "quick" else 30000
    for i in range(n):
        r = rng.random()
        if r < 0.5:
            t = rand_tx(rng, segwit=True, big=True, nin=rng.choice([1, 2, 3]))
        elif r < 0.7:
            t = rand_tx(rng, segwit=False)
        else:
            t = rand_tx(rng, big=(i % 20 == 0))
        yield {"k": "tx", "tx": t}
    for i in range(300 if tier == "quick" else 6000):
        t = rand_tx(rng, nin=rng.choice([1, 2, 3]), nout=rng.choice([1, 2, 3]), segwit=rng.random() < 0.8)
        muts, cur = [], t
        for _ in range(rng.choice([1, 2, 3])):
            m = rand_mut(rng, cur); muts.append(m); cur = apply_mut(cur, m)
        yield {"k": "hist", "tx": t, "muts": muts}


def _sizes(tx):
    return "%d,%d,%d,%d" % (tx.get_size(), tx.get_vsize(), len(tx.to_bytes(tx.has_segwit)), len(tx.to_bytes(False)))


def impl(d):
    k = d["k"]
    tx = tx_build(d["tx"])
    if k == "tx":
        return _sizes(tx)
    out = [guarded(lambda: _sizes(tx))]
    for m in d["muts"]:
        apply_mut_lib(tx, m)
        out.append(guarded(lambda: _sizes(tx)))
    return "|".join(out)


def _q(fn, d):
    if d["k"] == "tx":
        return sx(fn, tx_sx(d["tx"]))
    out, cur = [sx(fn, tx_sx(d["tx"]))], d["tx"]
    for m in d["muts"]:
        cur = apply_mut(cur, m)
        out.append(sx(fn, tx_sx(cur)))
    return out


def model(d):
    return _q("tx_sizes", d)


def spec(d):
    return _q("stx_sizes", d)


# source tie (DESIGN 13.8)
from common import with_ties
LEVEL_TEXT, LEVEL_NOTE, TECHNIQUE = with_ties(TIES, LEVEL_TEXT, LEVEL_NOTE, TECHNIQUE)
