"""C11 - segwit addresses (bech32/bech32m) round-trip and are validated, per network."""
from engine import sx, Raw
from common import *
from props.c09 import NETS
from props.c10 import _addr
import refbech32

PID = "C11"
THEOREMS = ['C11_convertbits_roundtrip', 'C11_polymod_linear', 'C11_checksum_verifies', 'C11_detects_4_substitutions', 'C11_decoder_detects_4_substitutions', 'C11_distance_tight', 'C11_decode_encode', 'C11_segwit_roundtrip', 'C11_objects', 'C11_objects_total']
TECHNIQUE = "Coq proof (bit-regrouping round-trip, XOR-linearity of the checksum step, created checksum verifies, 1..4 substituted symbols in a data part of up to 89 symbols are always detected, decode(encode) for every program and HRP) + extracted-model correspondence with an independent BIP173/BIP350 reference and rejection streams"
RULE = ("20- and 32-byte programs, versions 0 and 1, four networks, each of P2WPKH/P2WSH/P2TR re-created from its own string and program; the same "
        "program encoded under every network in sequence in one process; rejection: 1..4 substituted characters sampled over positions and symbols "
        "(incl. each of the six checksum positions), case flips, other-network prefix, bech32<->bech32m checksum swap, truncation/extension, wrong "
        "witness version for the object; the bech32 predicate on valid segwit addresses and on Base58 addresses. Non-trivial = distinct string or "
        "program the library accepts.")
LEVEL_TEXT = ("Coq theorems for every program and HRP: 8->5->8 regrouping round-trips, the checksum step is XOR-linear and a created checksum "
              "verifies as its own variant, decoding an encoded string returns HRP, data and variant, segwit encode/decode round-trip for v0 "
              "(20/32 bytes, bech32) and v1..16 (bech32m), and the three address objects re-create an identical program from their own string. "
              "Rejection of up to four substituted characters is a theorem too: for every prefix and every data part of up to 89 symbols, 1..4 "
              "substituted symbols never verify as the same variant (reduction by linearity and shift invariance to one closed kernel "
              "computation; the bound is shown tight at 90). Tied to the code by differential runs against an independent BIP173/BIP350 reference.")
LEVEL_NOTE = ("Trusted: Coq kernel (one vm_compute of about 15 s in Proofs/Bech32Distance.v); extraction; model tied by correspondence; "
              "independent reference refbech32.py. The detection theorem is about the same checksum variant; a substitution that changes the "
              "witness version can reach a valid string of the other variant (BIP350), which the decoders then accept as what it is.")
HRP = {"mainnet": "bc", "testnet": "tb", "regtest": "bcrt", "signet": "tb"}
TY = {"p2wpkh": (0, 20), "p2wsh": (0, 32), "p2tr": (1, 32)}


def cases(tier, rng):
    for net in NETS:
        for ty in TY:
            for _ in range(20 if tier == "quick" else 1500):
                yield {"k": "enc", "net": net, "ty": ty, "prog": rand_hex(rng, TY[ty][1])}
            yield {"k": "enc", "net": net, "ty": ty, "prog": "00" * TY[ty][1]}
            yield {"k": "enc", "net": net, "ty": ty, "prog": "ff" * TY[ty][1]}
    for _ in range(40 if tier == "quick" else 1000):
        ty = rng.choice(list(TY))
        yield {"k": "hist", "ty": ty, "prog": rand_hex(rng, TY[ty][1]), "nets": rng.sample(NETS, 4)}
    # one string decoded under several networks in one process (a decision must not be remembered across networks)
    for _ in range(60 if tier == "quick" else 2000):
        ty = rng.choice(list(TY)); ver, ln = TY[ty]; net = rng.choice(NETS)
        s_ = refbech32.encode(HRP[net], ver, bytes(rng.getrandbits(8) for _ in range(ln)))
        order = [rng.choice(NETS) for _ in range(rng.randrange(2, 5))]
        if net not in order: order.insert(rng.randrange(len(order) + 1), net)
        yield {"k": "dhist", "ty": ty, "s": s_, "nets": order}
    n = 1500 if tier == "quick" else 60000
    for j in range(n):
        net = rng.choice(NETS); ty = rng.choice(list(TY)); ver, ln = TY[ty]
        prog = bytes(rng.getrandbits(8) for _ in range(ln))
        a = refbech32.encode(HRP[net], ver, prog)
        sep = a.rfind("1")
        r = rng.random()
        if r < 0.5:
            k = rng.choice([1, 1, 2, 3, 4]); s = list(a)
            pos = rng.sample(range(sep + 1, len(a)), k)
            if rng.random() < 0.3: pos[0] = len(a) - 1 - rng.randrange(6)
            for i in pos:
                s[i] = rng.choice([c for c in refbech32.CH if c != s[i]]) if rng.random() < 0.93 else rng.choice("bio1BIO _-\x7f\u00e9")
            s = "".join(s)
        elif r < 0.58:
            i = rng.randrange(len(a)); s = a[:i] + a[i].upper() + a[i + 1:]
        elif r < 0.62:
            s = a.upper()
        elif r < 0.7:
            s = refbech32.encode(rng.choice([h for h in ("bc", "tb", "bcrt", "ltc") if h != HRP[net]]), ver, prog)
        elif r < 0.74:
            # same data, checksum that verifies for the OTHER variant (bech32 <-> bech32m swap)
            s = refbech32.raw_encode(HRP[net], [ver] + refbech32.to5(prog), refbech32.M if ver == 0 else 1)
        elif r < 0.78:
            # well-formed checksum (of the right or of a random variant) over ill-formed content
            const = rng.choice([1, refbech32.M, 1 if ver == 0 else refbech32.M, 1 if ver == 0 else refbech32.M])
            q = rng.randrange(9); d5 = refbech32.to5(prog); v = ver
            if q == 0: v = rng.randrange(17, 32)                                   # witness version above 16
            elif q == 1: d5 = refbech32.to5(bytes(rng.getrandbits(8) for _ in range(rng.choice([1, 2, 19, 21, 31, 33, 40, 41, 45]))))
            elif q == 2: d5 = d5[:-1] + [d5[-1] | rng.choice([1, 2, 3])]          # non-zero padding bits
            elif q == 3: d5 = d5 + [0]                                             # a whole extra padding group
            elif q == 4: d5 = d5[:-1]                                              # a group short
            elif q == 5: d5 = []                                                   # version only
            elif q == 6: v = rng.randrange(2, 17)                                  # other version, right variant for it
            elif q == 7: d5 = refbech32.to5(bytes(rng.getrandbits(8) for _ in range(rng.choice([46, 50, 60]))))  # > 90 chars
            s = refbech32.raw_encode(HRP[net], [v] + d5, const) if q != 8 else refbech32.raw_encode(HRP[net], [], const)
        elif r < 0.86:
            s = rng.choice([a[:-1], a + "q", a[:sep] + a[sep + 1:], a[:sep + 1] + a[sep + 2:], a + a[-1]])
        elif r < 0.93:
            ty2 = rng.choice([t for t in TY if TY[t][0] != ver]); s = a; ty = ty2
        else:
            s = a
        yield {"k": "dec", "net": net, "ty": ty, "s": s}
    # deterministic boundary stream: a well-formed checksum (of either variant) over every combination of witness
    # version and program length around the limits 16 / 2 / 20 / 32 / 40
    for net in (("mainnet", "testnet") if tier == "quick" else NETS):
        for v in (0, 1, 2, 15, 16, 17, 31):
            for ln in (1, 2, 19, 20, 21, 31, 32, 33, 39, 40, 41):
                for const in (1, refbech32.M):
                    prog = bytes(rng.getrandbits(8) for _ in range(ln))
                    s_ = refbech32.raw_encode(HRP[net], [v] + refbech32.to5(prog), const)
                    for ty in (list(TY) if v in (0, 1) else [rng.choice(list(TY))]):
                        yield {"k": "dec", "net": net, "ty": ty, "s": s_}
    # the bech32 predicate on well-formed checksums around the string-level limits: total length 89/90/91, a data
    # part that is only the checksum, one-character and boundary-character prefixes, upper case, mixed case
    for const in (1, refbech32.M):
        for hrp, n5 in (("bc", 80), ("bc", 81), ("bc", 82), ("a", 0), ("a", 1), ("a", 82), ("a", 83), ("!", 3), ("~", 3), ("!~x", 3),
                        ("bcrt", 78), ("bcrt", 79), ("bcrt", 80), ("tb", 0), ("1", 3), ("a1b", 3), ("11", 0)):
            d5 = [rng.randrange(32) for _ in range(n5)]
            s_ = refbech32.raw_encode(hrp, d5, const)
            yield {"k": "pred", "s": s_, "exp": None}
            yield {"k": "pred", "s": s_.upper(), "exp": None}
            yield {"k": "pred", "s": s_[:1].upper() + s_[1:], "exp": None}
            yield {"k": "pred", "s": s_[:-1], "exp": None}
        for bad in (" ", "\x7f", "\x1f", "\u00e9"):
            s_ = refbech32.raw_encode("b" + bad + "c", [1, 2, 3], const)
            yield {"k": "pred", "s": s_, "exp": None}
    for _ in range(60 if tier == "quick" else 2000):
        net = rng.choice(NETS)
        yield {"k": "pred", "s": _addr(rng.choice(["p2pkh", "p2sh"]), net, bytes(rng.getrandbits(8) for _ in range(20))), "exp": 0}
        ty = rng.choice(list(TY)); ver, ln = TY[ty]
        yield {"k": "pred", "s": refbech32.encode(HRP[net], ver, bytes(rng.getrandbits(8) for _ in range(ln))), "exp": 1}
    for s in ["", "1", "bc1", "bc1qqqqqq", "a1qqqqqq", "BC1QW508D6QEJXTDG4Y5R3ZARVARY0C5XW7KV8F3T4"]:
        yield {"k": "pred", "s": s, "exp": None}


def _cls(ty):
    from bitcoinutils.keys import P2wpkhAddress, P2wshAddress, P2trAddress
    return {"p2wpkh": P2wpkhAddress, "p2wsh": P2wshAddress, "p2tr": P2trAddress}[ty]


def impl(d):
    from bitcoinutils.setup import setup
    from bitcoinutils.utils import is_address_bech32
    k = d["k"]
    if k == "enc":
        setup(d["net"]); cls = _cls(d["ty"])
        a = cls(witness_program=d["prog"]); s = a.to_string()
        b1 = guarded(lambda: cls(address=s).to_witness_program())
        b2 = guarded(lambda: cls.from_address(s).to_witness_program())
        b3 = guarded(lambda: cls.from_witness_program(a.to_witness_program()).to_string())
        return s + "|" + b1 + "|" + b2 + "|" + str(b3) + "|%d" % is_address_bech32(s)
    if k == "hist":
        out = []
        for net in d["nets"]:
            setup(net)
            out.append(_cls(d["ty"])(witness_program=d["prog"]).to_string())
        return "|".join(out)
    if k == "dhist":
        out = []
        for net in d["nets"]:
            setup(net)
            out.append(guarded(lambda: _cls(d["ty"])(address=d["s"]).to_witness_program()))
        return "|".join(out)
    if k == "dec":
        setup(d["net"])
        a = _cls(d["ty"])(address=d["s"])   # acceptance is the constructor returning
        try:
            return a.to_witness_program()
        except Exception as e:
            return "ACCEPTED_BUT_NO_PROGRAM:" + type(e).__name__
    if k == "pred":
        return "%d" % is_address_bech32(d["s"])


def model(d):
    k = d["k"]
    if k == "enc":
        return sx("seg_enc_dec", d["ty"], d["net"], bytes.fromhex(d["prog"]))
    if k == "hist":
        return [sx("seg_to_string_txt", d["ty"], net, bytes.fromhex(d["prog"])) for net in d["nets"]]
    if k == "dec":
        return sx("seg_from_string", d["ty"], d["net"], Raw("x" + d["s"].encode().hex()))
    if k == "dhist":
        return [sx("seg_from_string", d["ty"], net, Raw("x" + d["s"].encode().hex())) for net in d["nets"]]
    if k == "pred":
        return sx("is_bech32", Raw("x" + d["s"].encode().hex()))


def oracle(d):
    k = d["k"]
    if k == "enc":
        s = refbech32.encode(HRP[d["net"]], TY[d["ty"]][0], bytes.fromhex(d["prog"]))
        return s + "|" + d["prog"] + "|" + d["prog"] + "|" + s + "|1"
    if k == "hist":
        return "|".join(refbech32.encode(HRP[n], TY[d["ty"]][0], bytes.fromhex(d["prog"])) for n in d["nets"])
    if k == "dhist":
        out = []
        for net in d["nets"]:
            r = refbech32.decode(HRP[net], d["s"])
            out.append("ERR" if (r is None or r[0] != TY[d["ty"]][0]) else r[1].hex())
        return "|".join(out)
    if k == "dec":
        r = refbech32.decode(HRP[d["net"]], d["s"])
        if r is None or r[0] != TY[d["ty"]][0]: return "ERR"
        return r[1].hex()
    if k == "pred" and d["exp"] is not None:
        return str(d["exp"])
    return None
