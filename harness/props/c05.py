"""C05 - taproot signature hash equals BIP341 (key path) and BIP342 (script path)."""
from engine import sx
from common import *
from sighash_common import *

PID = "C05"
TIES = ['encode_varint', 'prepend_compact_size', 'tagged_hash', 'taproot_digest']   # source-tie files coq/Properties/Tie_<f>.v that belong to this property
THEOREMS = ["C05_digest"]
TECHNIQUE = "Coq proof (signature-message refinement to BIP341/BIP342 for all counts and sizes) + extracted model/spec and Python-oracle correspondence, 949 real taproot signatures under libsecp256k1 BIP340 verification"
RULE = ("transactions of 1..8 inputs and 1..8 outputs, every input index valid for the hash type, seven hash types, key path and script "
        "path, spent scriptPubKeys / output scripts / leaf scripts of 0..70000 bytes incl. 252/253/255/256/65535, amounts 0..2^63-1, "
        "observe-mutate-observe histories, and the 167 key-path + 782 script-path real signatures of the v1 fixture. "
        "Non-trivial = distinct argument tuple for which a digest is returned.")
LEVEL_TEXT = ("Coq theorem, unbounded in inputs/outputs and script sizes, for the seven taproot hash types and both spend paths: the model of "
              "get_transaction_taproot_digest equals the BIP341 tagged hash of SigMsg (with the BIP342 extension for script path), with "
              "CompactSize script lengths. Tied to the code by differential runs (extracted model and spec, Python oracle, histories) and "
              "by verifying 949 real Schnorr signatures with libsecp256k1.")
LEVEL_NOTE = ("Trusted: Coq kernel, Spec/SighashSpec.v (my reading of BIP341/342), extraction, model tied by correspondence, libsecp256k1. "
              "SHA-256 abstract. Annex not supported by the library (annex_present = 0), stated in the spec.")


def _mk(rng, t, big=None):
    nin = len(t["ins"])
    spks = [rand_script(rng, 4) for _ in range(nin)]
    if big is not None:
        spks[rng.randrange(nin)] = script_of_len(rng, big)
    amts = [rand_amount(rng) for _ in range(nin)]
    return spks, amts


def cases(tier, rng):
    n = 500 if tier == "quick" else 12000
    for j in range(n):
        t = rand_tx(rng, nin=rng.randrange(1, 9), nout=rng.randrange(1, 9), segwit=True)
        nin, nout = len(t["ins"]), len(t["outs"])
        spks, amts = _mk(rng, t, big=rng.choice(BOUNDARY_LENS) if j % 8 == 0 else None)
        ext = rng.choice([0, 1])
        leaf = (script_of_len(rng, rng.choice(BOUNDARY_LENS[1:])) if j % 9 == 0 else rand_script(rng, 5) or [["op", "OP_1"]]) if ext else []
        idxs = range(nin) if j % 4 == 0 else [rng.randrange(nin)]
        hts = TAPROOT_TYPES if j % 3 == 0 else [rng.choice(TAPROOT_TYPES)]
        heavy = sum(len(x[1]) for s in spks + [leaf] for x in s if x[0] == "data") > 20000
        if heavy:   # megabyte-scale hashing in the extracted model is slow: one index, two types
            idxs, hts = [rng.randrange(nin)], rng.sample(TAPROOT_TYPES, 2)
        for i in idxs:
            for ht in hts:
                d = {"k": "dig", "tx": t, "i": i, "spks": spks, "amts": amts, "ext": ext, "leaf": leaf, "ht": ht}
                if (ht & 3) == 3 and i >= nout:
                    d["reject"] = True
                yield d
    for ln in BOUNDARY_LENS:
        t = rand_tx(rng, nin=2, nout=2, segwit=True, scripts=False)
        t["outs"][rng.randrange(2)]["script"] = script_of_len(rng, ln)
        spks, amts = _mk(rng, t)
        for ht in (TAPROOT_TYPES if ln < 20000 else [0, 0x83]):
            yield {"k": "dig", "tx": t, "i": rng.randrange(2), "spks": spks, "amts": amts, "ext": 0, "leaf": [], "ht": ht}
    for j in range(250 if tier == "quick" else 5000):
        t = rand_tx(rng, nin=rng.choice([1, 2, 3]), nout=rng.choice([1, 2, 3]), segwit=True)
        spks, amts = _mk(rng, t)
        muts, cur = [], t
        for _ in range(rng.choice([1, 2, 3])):
            m = rand_mut(rng, cur)
            if m["m"] == "del_out" and len(cur["outs"]) <= 1: continue
            muts.append(m); cur = apply_mut(cur, m)
        ht = rng.choice([0, 1, 2, 0x81, 0x82])
        yield {"k": "hist", "tx": t, "muts": muts, "i": rng.randrange(len(t["ins"])), "spks": spks, "amts": amts, "ext": rng.choice([0, 1]),
               "leaf": rand_script(rng, 3) or [["op", "OP_1"]], "ht": ht}
    import realsigs
    _, trk, trs = realsigs.collect()
    for c in trk + trs:
        yield dict(c, k="real")


def _dig(tx, d):
    from bitcoinutils.script import Script
    spks = [Script([tok_py(x) for x in s]) for s in d["spks"]]
    if d["ext"] == 0 and d["i"] % 2 == 0:
        # key path is the documented default (ext_flag=0, and sighash=TAPROOT_SIGHASH_ALL when that is the type): rely on it
        if d["ht"] == 0 and len(d["amts"]) % 2 == 0:
            return tx.get_transaction_taproot_digest(d["i"], spks, d["amts"]).hex()
        return tx.get_transaction_taproot_digest(d["i"], spks, d["amts"], sighash=d["ht"]).hex()
    return tx.get_transaction_taproot_digest(d["i"], spks, d["amts"], d["ext"], script=Script([tok_py(x) for x in d["leaf"]]), sighash=d["ht"]).hex()


def impl(d):
    from bitcoinutils.script import Script
    from bitcoinutils.transactions import Transaction
    k = d["k"]
    if k == "dig":
        tx = tx_build(d["tx"])
        before = tx.to_hex()
        r = _dig(tx, d)
        assert tx.to_hex() == before
        return r
    if k == "hist":
        tx = tx_build(d["tx"])
        out = [guarded(lambda: _dig(tx, d))]
        for m in d["muts"]:
            apply_mut_lib(tx, m)
            out.append(guarded(lambda: _dig(tx, d)))
        return "|".join(out)
    if k == "real":
        import coincurve
        tx = Transaction.from_raw(d["raw"])
        spks = [Script.from_raw(s) for s in d["spks"]]
        if any(s.to_bytes().hex() != h for s, h in zip(spks, d["spks"])):
            return "SKIP"
        sig = bytes.fromhex(d["sig"]); ht = sig[64] if len(sig) == 65 else 0
        if d["kind"] == "trkey":
            dig = tx.get_transaction_taproot_digest(d["i"], spks, d["amts"], 0, sighash=ht)
        else:
            leaf = Script.from_raw(d["leaf"])
            if leaf.to_bytes().hex() != d["leaf"]:
                return "SKIP"
            dig = tx.get_transaction_taproot_digest(d["i"], spks, d["amts"], 1, script=leaf, sighash=ht)
        ok = coincurve.PublicKeyXOnly(bytes.fromhex(d["pk"])).verify(sig[:64], dig)
        return dig.hex() + "|ok=%d" % ok


def _args(t, d):
    return (tx_sx(t), d["i"], Raw("(" + " ".join(toks_sx(s).s for s in d["spks"]) + ")"), Raw("(" + " ".join(str(a) for a in d["amts"]) + ")"),
            d["ext"], toks_sx(d["leaf"]), d["ht"])


def _q(fn, d):
    if d["k"] == "dig":
        return sx(fn, *_args(d["tx"], d))
    out, cur = [], d["tx"]
    for m in [None] + d["muts"]:
        if m: cur = apply_mut(cur, m)
        out.append(sx(fn, *_args(cur, d)))
    return out


def model(d):
    return _q("taproot_digest", d) if d["k"] in ("dig", "hist") else None


def spec(d):
    if d.get("reject"): return None
    return _q("spec_taproot_digest", d) if d["k"] in ("dig", "hist") else None


def oracle(d):
    import refsighash, realdata
    k = d["k"]
    def one(t):
        spent = [(a, asm_ref(s)) for a, s in zip(d["amts"], d["spks"])]
        r = refsighash.bip341(view_of(t), d["i"], spent, d["ht"], asm_ref(d["leaf"]) if d["ext"] else None)
        return "ERR" if r is None else r.hex()
    if k == "dig":
        return one(d["tx"])
    if k == "hist":
        out, cur = [], d["tx"]
        for m in [None] + d["muts"]:
            if m: cur = apply_mut(cur, m)
            out.append(one(cur))
        return "|".join(out)
    if k == "real":
        raw = bytes.fromhex(d["raw"]); _, v = realdata.tx_end(raw, 0)
        sig = bytes.fromhex(d["sig"]); ht = sig[64] if len(sig) == 65 else 0
        spent = [(a, bytes.fromhex(s)) for a, s in zip(d["amts"], d["spks"])]
        r = refsighash.bip341(v, d["i"], spent, ht, bytes.fromhex(d["leaf"]) if d["kind"] == "trscript" else None)
        return r.hex() + "|ok=1"


# source tie (DESIGN 13.8)
from common import with_ties
LEVEL_TEXT, LEVEL_NOTE, TECHNIQUE = with_ties(TIES, LEVEL_TEXT, LEVEL_NOTE, TECHNIQUE)
