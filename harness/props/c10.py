"""C10 - Base58Check addresses (P2PKH, P2SH) round-trip and are validated, per network."""
from engine import sx, Raw
from common import *
from props.c09 import _b58, B58, NETS

PID = "C10"
THEOREMS = ['C10_accept_iff', 'C10_roundtrip', 'C10_length', 'C10_pubkey_address', 'C10_zero_hash_example']
TECHNIQUE = "Coq proof (acceptance predicate = Base58Check definition on every string; decode inverts encode; length window) + extracted-model correspondence with an independent encoder and rejection streams"
RULE = ("20-byte hashes with 0..20 leading zero bytes, four networks, both address types; addresses from public keys (compressed and uncompressed, "
        "both orders on one object); rejection: every single-character substitution (sampled over positions and symbols), other type's / other "
        "network's version byte, valid-checksum payloads of 19 and 21 bytes, characters outside the alphabet, strings of 25..36 characters. "
        "Non-trivial = distinct input the library accepts.")
LEVEL_TEXT = ("Coq theorems: an address object accepts a string iff it is Base58Check(version || 20-byte hash) for that type and network (within "
              "the library's 26..35 character window) - on every string, not on sampled corruptions; decoding returns the hash that produced "
              "it; every 25-byte payload encodes to at most 35 characters and at least 26 unless version byte and hash are all zero. Tied to the "
              "code by differential runs against the extracted model and an independent encoder.")
LEVEL_NOTE = ("Trusted: Coq kernel; SHA-256 abstract with 32-byte output; base58check package represented by Model/Base58.v (tied by correspondence); "
              "the 26-character lower bound for the all-zero mainnet P2PKH hash depends on the concrete checksum and is an executed example.")
VER = {("p2pkh", "mainnet"): 0x00, ("p2sh", "mainnet"): 0x05}


def _ver(ty, net):
    return VER.get((ty, net), 0x6f if ty == "p2pkh" else 0xc4)


def _addr(ty, net, h, ver=None):
    import hashlib
    data = bytes([_ver(ty, net) if ver is None else ver]) + h
    return _b58(data + hashlib.sha256(hashlib.sha256(data).digest()).digest()[:4])


def cases(tier, rng):
    for net in NETS:
        for ty in ("p2pkh", "p2sh"):
            hs = [bytes(z) + bytes(rng.getrandbits(8) | 1 for _ in range(20 - z)) for z in range(0, 21)]
            hs += [bytes(rng.getrandbits(8) for _ in range(20)) for _ in range(40 if tier == "quick" else 2000)]
            for h in hs:
                yield {"k": "enc", "ty": ty, "net": net, "h": h.hex()}
    for _ in range(700 if tier == "quick" else 20000):
        net = rng.choice(NETS); ty = rng.choice(["p2pkh", "p2sh"])
        h = bytes(rng.getrandbits(8) for _ in range(20))
        if rng.random() < 0.2: h = bytes(rng.randrange(1, 8)) + h[:20][rng.randrange(1, 8):] ; h = (h + bytes(20))[:20]
        a = _addr(ty, net, h)
        r = rng.random()
        if r < 0.45:
            i = rng.randrange(len(a)); c = rng.choice([x for x in B58 if x != a[i]]); s = a[:i] + c + a[i + 1:]
        elif r < 0.55:
            s = _addr("p2sh" if ty == "p2pkh" else "p2pkh", net, h)
        elif r < 0.65:
            s = _addr(ty, "testnet" if net == "mainnet" else "mainnet", h)
        elif r < 0.75:
            s = _addr(ty, net, h[:19])
        elif r < 0.85:
            s = _addr(ty, net, h + bytes([rng.getrandbits(8)]))
        elif r < 0.88:
            i = rng.randrange(len(a)); s = a[:i] + rng.choice("0OIl _-") + a[i + 1:]
        elif r < 0.9:
            # a valid address wrapped in characters that are not Base58 (white space, NUL, quotes)
            pad = rng.choice(["\n", " ", "\t", "\r\n", "\x00", "'", '"', "\u00a0"])
            s = rng.choice([a + pad, pad + a, pad + a + pad])
        elif r < 0.95:
            s = rng.choice([a[:25], a[:-1], a + "1", a + "11", "1" + a, "1" * rng.randrange(25, 37)])
        else:
            s = a
        yield {"k": "dec", "ty": ty, "net": net, "s": s}
    # one string decoded under several networks in one process (a decision must not be remembered across networks)
    for _ in range(40 if tier == "quick" else 1500):
        ty = rng.choice(["p2pkh", "p2sh"]); net = rng.choice(NETS)
        a = _addr(ty, net, bytes(rng.getrandbits(8) for _ in range(20)))
        order = [rng.choice(NETS) for _ in range(rng.randrange(2, 5))]
        if net not in order: order.insert(rng.randrange(len(order) + 1), net)
        yield {"k": "dhist", "ty": ty, "net": net, "s": a, "nets": order}
    # addresses from public keys, both encodings requested on one object in both orders
    N = 0xFFFFFFFFFFFFFFFFFFFFFFFFFFFFFFFEBAAEDCE6AF48A03BBFD25E8CD0364141
    for _ in range(60 if tier == "quick" else 2000):
        yield {"k": "pk", "net": rng.choice(NETS), "d": rng.randrange(1, N), "order": rng.choice([[True, False], [False, True], [True, True, False]])}


def impl(d):
    from bitcoinutils.setup import setup
    from bitcoinutils.keys import P2pkhAddress, P2shAddress, PrivateKey
    k = d["k"]; setup(d["net"])
    if k == "enc":
        cls = P2pkhAddress if d["ty"] == "p2pkh" else P2shAddress
        a = cls(hash160=d["h"])
        s = a.to_string()
        back = guarded(lambda: cls(address=s).to_hash160())
        # the classmethod entry points must be the constructor
        if guarded(lambda: cls.from_hash160(d["h"]).to_string()) != s or guarded(lambda: cls.from_address(s).to_hash160()) != back:
            return "CLASSMETHOD_DIFFERS"
        return s.encode().hex() + "|" + back
    if k == "dec":
        cls = P2pkhAddress if d["ty"] == "p2pkh" else P2shAddress
        if guarded(lambda: cls.from_address(d["s"]).to_hash160()) != guarded(lambda: cls(address=d["s"]).to_hash160()):
            return "CLASSMETHOD_DIFFERS"
        a = cls(address=d["s"])          # acceptance is the constructor returning; what it then holds is observed apart
        try:
            h = a.to_hash160()
        except Exception as e:
            h = "ACCEPTED_BUT_NO_HASH:" + type(e).__name__
        return "1|" + h
    if k == "dhist":
        cls = P2pkhAddress if d["ty"] == "p2pkh" else P2shAddress
        out = []
        for net in d["nets"]:
            setup(net)
            out.append(guarded(lambda: "1|" + cls(address=d["s"]).to_hash160()))
        return "|".join(out)
    if k == "pk":
        pk = PrivateKey(secret_exponent=d["d"]).get_public_key()
        out = []
        for j, c in enumerate(d["order"]):
            # compressed is the documented default of both helpers: rely on it where the case asks for compressed
            if c and (d["d"] + j) % 2 == 0:
                out.append(pk.get_address().to_string().encode().hex() + "," + pk.to_hash160())
            else:
                out.append(pk.get_address(compressed=c).to_string().encode().hex() + "," + pk.to_hash160(c))
        return "|".join(out)


def model(d):
    k = d["k"]
    if k == "enc":
        return sx("addr_enc_dec", d["ty"], d["net"], bytes.fromhex(d["h"]))
    if k == "dec":
        return sx("addr_from_string", d["ty"], d["net"], d["s"].encode())
    if k == "dhist":
        return [sx("addr_from_string", d["ty"], net, d["s"].encode()) for net in d["nets"]]
    if k == "pk":
        import refbip341
        pq = list(refbip341.pub_xy(d["d"]))
        return [sx("pk_addr", d["net"], c, pq) for c in d["order"]]


def post(d, out):
    if d["k"] == "dec" and out.startswith("0|"):
        return "ERR"
    if d["k"] == "dhist":
        t = out.split("|")
        return "|".join("ERR" if t[i] == "0" else "1|" + t[i + 1] for i in range(0, len(t), 2))
    return out


def oracle(d):
    import hashlib, coincurve
    from Crypto.Hash import RIPEMD160
    k = d["k"]
    if k == "enc":
        return _addr(d["ty"], d["net"], bytes.fromhex(d["h"])).encode().hex() + "|" + d["h"]
    if k == "pk":
        out = []
        for c in d["order"]:
            enc = coincurve.PrivateKey(d["d"].to_bytes(32, "big")).public_key.format(c)
            h = RIPEMD160.new(hashlib.sha256(enc).digest()).digest()
            out.append(_addr("p2pkh", d["net"], h).encode().hex() + "," + h.hex())
        return "|".join(out)
    return None
