"""C12 - locking scripts and script-hash addresses commit to the intended key/script."""
from engine import sx, Raw
from common import *
from props.c09 import NETS
from props.c10 import _addr

PID = "C12"
TIES = ['locking_scripts']   # source-tie files coq/Properties/Tie_<f>.v that belong to this property
THEOREMS = ['C12_templates', 'C12_helpers_agree']
TECHNIQUE = "Coq proof (byte-exact standard templates via the proved assembler; helper output = locking script of the address made from the same script) + extracted-model correspondence with hashlib / pycryptodome as oracle, incl. multi-step histories on one object"
RULE = ("random and all-zero 20/32-byte hashes and keys for the five address types on four networks; redeem/witness scripts from the C02 generator "
        "of 1..70000 bytes; P2SH / P2WSH addresses and the two Script helpers on the same script; histories: helper called, script list edited in "
        "place, helper called again; several addresses' locking scripts obtained before any is serialised. Non-trivial = distinct input for "
        "which a locking script is produced.")
LEVEL_TEXT = ("Coq theorems: the five to_script_pub_key templates assemble to exactly 76 a9 14 h 88 ac / a9 14 h 87 / 00 14|20 prog / 51 20 key for "
              "every 20/32-byte payload, and the script-to-P2SH / script-to-P2WSH helpers equal the locking script of the address created from the "
              "same script, the hash being taken over the script's exact byte encoding (RIPEMD-160 bundled and proved in C20, SHA-256 abstract). "
              "Tied to the code by differential runs with independent hash oracles and object-history cases.")
LEVEL_NOTE = "Trusted: Coq kernel; SHA-256 abstract; extraction; model tied by correspondence."


def cases(tier, rng):
    for net in NETS:
        for _ in range(25 if tier == "quick" else 600):
            h20 = rng.choice([bytes(20), bytes(rng.getrandbits(8) for _ in range(20))])
            h32 = rng.choice([bytes(32), bytes(rng.getrandbits(8) for _ in range(32))])
            yield {"k": "tmpl", "net": net, "h20": h20.hex(), "h32": h32.hex()}
    for i in range(250 if tier == "quick" else 6000):
        sc = rand_script(rng, 12, big=(i % 15 == 0)) or [["op", "OP_1"]]
        yield {"k": "script", "net": rng.choice(NETS), "sc": sc}
    for i in range(120 if tier == "quick" else 3000):
        sc = rand_script(rng, 6) or [["op", "OP_1"]]
        yield {"k": "hist", "net": rng.choice(NETS), "sc": sc, "ins": rand_script(rng, 3) or [["int", 200]]}
    for i in range(60 if tier == "quick" else 1500):
        yield {"k": "batch", "net": rng.choice(NETS), "ty": rng.choice(["p2sh", "p2pkh", "p2wpkh", "p2wsh", "p2tr"]),
               "hs": [rand_hex(rng, 32) for _ in range(3)]}


def _mk(ty, h):
    from bitcoinutils.keys import P2pkhAddress, P2shAddress, P2wpkhAddress, P2wshAddress, P2trAddress
    if ty == "p2pkh": return P2pkhAddress(hash160=h[:40])
    if ty == "p2sh": return P2shAddress(hash160=h[:40])
    if ty == "p2wpkh": return P2wpkhAddress(witness_program=h[:40])
    if ty == "p2wsh": return P2wshAddress(witness_program=h)
    return P2trAddress(witness_program=h)


def impl(d):
    from bitcoinutils.setup import setup
    from bitcoinutils.script import Script
    from bitcoinutils.keys import P2shAddress, P2wshAddress
    setup(d["net"]); k = d["k"]
    if k == "tmpl":
        return "|".join(_mk(ty, d["h20"] if ty in ("p2pkh", "p2sh", "p2wpkh") else d["h32"]).to_script_pub_key().to_bytes().hex()
                        for ty in ("p2pkh", "p2sh", "p2wpkh", "p2wsh", "p2tr"))
    if k == "script":
        s = Script([tok_py(t) for t in d["sc"]])
        a, w = P2shAddress(script=s), P2wshAddress(script=s)
        # the classmethod entry points must be the constructor
        a2, w2 = P2shAddress.from_script(s), P2wshAddress.from_script(s)
        if (a2.to_hash160(), a2.to_string(), w2.to_witness_program(), w2.to_string()) != (a.to_hash160(), a.to_string(), w.to_witness_program(), w.to_string()):
            return "FROM_SCRIPT_DIFFERS"
        return "|".join([a.to_hash160(), w.to_witness_program(), s.to_p2sh_script_pub_key().to_bytes().hex(), s.to_p2wsh_script_pub_key().to_bytes().hex(),
                         a.to_script_pub_key().to_bytes().hex(), w.to_script_pub_key().to_bytes().hex(), a.to_string().encode().hex()])
    if k == "hist":
        s = Script([tok_py(t) for t in d["sc"]])
        one = s.to_p2sh_script_pub_key().to_bytes().hex() + "," + s.to_p2wsh_script_pub_key().to_bytes().hex()
        s.get_script()[0:0] = [tok_py(t) for t in d["ins"]]         # edited in place
        two = s.to_p2sh_script_pub_key().to_bytes().hex() + "," + s.to_p2wsh_script_pub_key().to_bytes().hex()
        three = P2shAddress(script=s).to_script_pub_key().to_bytes().hex() + "," + P2wshAddress(script=s).to_script_pub_key().to_bytes().hex()
        return one + "|" + two + "|" + three
    if k == "batch":
        spks = [_mk(d["ty"], h).to_script_pub_key() for h in d["hs"]]     # all obtained first
        return "|".join(s.to_bytes().hex() for s in spks)                # serialised afterwards


def _tm(ty, h):
    return sx("spk", ty, bytes.fromhex(h[:40] if ty in ("p2pkh", "p2sh", "p2wpkh") else h))


def model(d):
    k = d["k"]
    if k == "tmpl":
        return [_tm(ty, d["h20"] if ty in ("p2pkh", "p2sh", "p2wpkh") else d["h32"]) for ty in ("p2pkh", "p2sh", "p2wpkh", "p2wsh", "p2tr")]
    if k == "script":
        return sx("script_all", d["net"], toks_sx(d["sc"]))
    if k == "hist":
        return [sx("script_helpers", toks_sx(d["sc"])), sx("script_helpers", toks_sx(d["ins"] + d["sc"])), sx("script_helpers", toks_sx(d["ins"] + d["sc"]))]
    if k == "batch":
        return [_tm(d["ty"], h) for h in d["hs"]]


def oracle(d):
    import hashlib
    from Crypto.Hash import RIPEMD160
    from sighash_common import asm_ref
    k = d["k"]
    def h160(b): return RIPEMD160.new(hashlib.sha256(b).digest()).digest()
    if k == "tmpl":
        h20, h32 = d["h20"], d["h32"]
        return "|".join(["76a914" + h20 + "88ac", "a914" + h20 + "87", "0014" + h20, "0020" + h32, "5120" + h32])
    if k == "script":
        b = asm_ref(d["sc"]); h = h160(b).hex(); w = hashlib.sha256(b).hexdigest()
        return "|".join([h, w, "a914" + h + "87", "0020" + w, "a914" + h + "87", "0020" + w, _addr("p2sh", d["net"], bytes.fromhex(h)).encode().hex()])
    if k == "hist":
        b1, b2 = asm_ref(d["sc"]), asm_ref(d["ins"] + d["sc"])
        f = lambda b: "a914" + h160(b).hex() + "87,0020" + hashlib.sha256(b).hexdigest()
        return f(b1) + "|" + f(b2) + "|" + f(b2)
    return None


# source tie (DESIGN 13.8)
from common import with_ties
LEVEL_TEXT, LEVEL_NOTE, TECHNIQUE = with_ties(TIES, LEVEL_TEXT, LEVEL_NOTE, TECHNIQUE)
