"""C07 - taproot Schnorr signatures verify for the committed output key or leaf key."""
from engine import sx, Raw
from common import *
from sighash_common import *
from taproot_common import *

PID = "C07"
TIES = ['tagged_hash']   # source-tie files coq/Properties/Tie_<f>.v that belong to this property
THEOREMS = ["C07_tweak_agrees", "C07_tweak_model", "C07_keypath_verifies", "C07_scriptpath_verifies"]
TECHNIQUE = "Coq proof (private/public tweak identity for both parities, BIP340 sign-then-verify and signature framing over the abstract curve) + extracted-model correspondence (byte-identical signatures) and libsecp256k1 verification under the committed output key"
RULE = ("secrets across [1, n-1] incl. 1 and n-1 with all four (internal-key parity, output-key parity) combinations forced to occur, script trees of "
        "C08, raw 32-byte roots and no tree, seven hash types, transactions of C05, key path and script path; one key object signing for several "
        "different trees in sequence (incl. a list mutated in place between calls). Non-trivial = distinct signing request that yields a signature.")
LEVEL_TEXT = ("Coq theorems over the abstract prime-order curve, for all secrets d in [1, n-1] and all tweaks: the tweaked private key's public point "
              "is the tweaked public key (both parities of d*G), so a key-path signature verifies (BIP340) under exactly the witness program the "
              "address commits to; script-path signatures verify under the signer's x-only key; 64/65-byte framing; signing cannot fail except "
              "for a zero nonce. Tied to the code by byte-identical signatures from the extracted model and libsecp256k1 verification.")
LEVEL_NOTE = ("Trusted: Coq kernel; curve_laws premises (group law, order of G, lift_x) instantiated on a toy curve and validated against "
              "libsecp256k1 by the correspondence; SHA-256 abstract with 32-byte output; extraction. The digest is the independent reference's "
              "(BIP341), so a digest defect of C05 would surface here as well. Excluded, as in the code: tweaked secret = 0 (probability 2^-256).")
N = 0xFFFFFFFFFFFFFFFFFFFFFFFFFFFFFFFEBAAEDCE6AF48A03BBFD25E8CD0364141


def _ctx(rng):
    t = rand_tx(rng, nin=rng.choice([1, 2, 3]), nout=rng.choice([1, 2, 3]), segwit=True, scripts=False)
    nin = len(t["ins"])
    spks = [[["op", "OP_1"], ["data", rand_hex(rng, 32)]] for _ in range(nin)]
    amts = [rand_amount(rng) for _ in range(nin)]
    i = rng.randrange(nin)
    return t, spks, amts, i


def _root_of(sc):
    import refbip341
    if sc is None: return b""
    if "root" in sc: return bytes.fromhex(sc["root"])
    rt = tree_ref(sc)
    return None if rt is None else refbip341.root_and_paths(rt)[0]


def cases(tier, rng):
    import refbip341
    want = {(a, b): (12 if tier == "quick" else 300) for a in (0, 1) for b in (0, 1)}
    tries = 0
    while any(v > 0 for v in want.values()) and tries < 20000:
        tries += 1
        key = rng.choice([1, 2, 3, N - 1, N - 2]) if tries < 12 else rng.randrange(1, N)
        r = rng.random()
        sc = None if r < 0.3 else ({"root": rand_hex(rng, 32)} if r < 0.45 else rand_tree(rng, depth=rng.choice([1, 2, 3])))
        root = _root_of(sc)
        if root is None: continue
        _, y = refbip341.pub_xy(key)
        _, odd, _ = refbip341.output(key, root)
        c = (y % 2, int(odd))
        if want[c] <= 0: continue
        want[c] -= 1
        t, spks, amts, i = _ctx(rng)
        ht = rng.choice(TAPROOT_TYPES)
        if (ht & 3) == 3 and i >= len(t["outs"]): ht = 0
        yield {"k": "key", "key": key, "sc": sc, "tx": t, "spks": spks, "amts": amts, "i": i, "ht": ht, "par": list(c)}
    # output keys whose x coordinate starts with a zero byte (1 in 256): found by search, with and without a script tree
    found = tries = 0
    while found < (4 if tier == "quick" else 24) and tries < 20000:
        tries += 1
        key = rng.randrange(1, N)
        sc = None if tries % 2 else rand_tree(rng, depth=rng.choice([1, 2]))
        root = _root_of(sc)
        if root is None: continue
        wp = refbip341.output(key, root)[0]
        if wp[0] != 0: continue
        found += 1
        t, spks, amts, i = _ctx(rng)
        yield {"k": "key", "key": key, "sc": sc, "tx": t, "spks": spks, "amts": amts, "i": i, "ht": rng.choice([0, 1])}
    for ht in TAPROOT_TYPES:
        for _ in range(4 if tier == "quick" else 100):
            t, spks, amts, i = _ctx(rng)
            if (ht & 3) == 3 and i >= len(t["outs"]): continue
            yield {"k": "key", "key": rng.randrange(1, N), "sc": rng.choice([None, rand_tree(rng, depth=2)]), "tx": t, "spks": spks, "amts": amts, "i": i, "ht": ht}
            yield {"k": "script", "key": rng.randrange(1, N), "leaf": rand_leaf_script(rng), "tx": t, "spks": spks, "amts": amts, "i": i, "ht": ht}
    # one key object, several trees in sequence; the second tree may be the first list mutated in place
    for _ in range(25 if tier == "quick" else 600):
        t, spks, amts, i = _ctx(rng)
        a, b = rand_leaf_script(rng), rand_leaf_script(rng)
        seq = rng.choice([
            [{"list": [{"leaf": a}]}, {"list": [{"leaf": a}, {"leaf": b}]}],
            [None, {"list": [{"leaf": a}]}],
            [{"list": [{"leaf": a}]}, None],
            [rand_tree(rng, depth=2), rand_tree(rng, depth=2), None],
        ])
        yield {"k": "hist", "key": rng.randrange(1, N), "seq": seq, "inplace": rng.random() < 0.5, "tx": t, "spks": spks, "amts": amts, "i": i,
               "ht": rng.choice([0, 1, 0x81])}


def _digest(d, leaf=None):
    import refsighash
    spent = [(a, asm_ref(s)) for a, s in zip(d["amts"], d["spks"])]
    return refsighash.bip341(view_of(d["tx"]), d["i"], spent, d["ht"], leaf)


def impl(d):
    from bitcoinutils.keys import PrivateKey
    from bitcoinutils.script import Script
    k = d["k"]
    tx = tx_build(d["tx"]); spks = [Script([tok_py(x) for x in s]) for s in d["spks"]]
    if k == "key":
        priv = PrivateKey(secret_exponent=d["key"])
        if d["key"] % 2 == 0:
            # the documented parameter order, positionally: (tx, txin_index, utxo_scripts, amounts, script_path, tapleaf_script, tapleaf_scripts, sighash)
            sig = priv.sign_taproot_input(tx, d["i"], spks, d["amts"], False, Script([]), sarg_py(d["sc"]), d["ht"])
        else:
            sig = priv.sign_taproot_input(tx, d["i"], spks, d["amts"], False, tapleaf_scripts=sarg_py(d["sc"]), sighash=d["ht"])
        sig2 = PrivateKey(secret_exponent=d["key"]).sign_taproot_input(tx_build(d["tx"]), d["i"], spks, d["amts"], False,
                                                                     tapleaf_scripts=sarg_py(d["sc"]), sighash=d["ht"])
        addr = priv.get_public_key().get_taproot_address(sarg_py(d["sc"]))
        return sig + "|" + addr.to_witness_program() + "|%d" % (sig == sig2)
    if k == "script":
        priv = PrivateKey(secret_exponent=d["key"])
        leaf = Script([tok_py(x) for x in d["leaf"]])
        if d["key"] % 2 == 0:
            sig = priv.sign_taproot_input(tx, d["i"], spks, d["amts"], True, leaf, None, d["ht"], False)
        else:
            sig = priv.sign_taproot_input(tx, d["i"], spks, d["amts"], True, tapleaf_script=leaf, sighash=d["ht"], tweak=False)
        sig2 = PrivateKey(secret_exponent=d["key"]).sign_taproot_input(tx_build(d["tx"]), d["i"], spks, d["amts"], True, tapleaf_script=leaf,
                                                                     sighash=d["ht"], tweak=False)
        return sig + "|" + priv.get_public_key().to_x_only_hex() + "|%d" % (sig == sig2)
    if k == "hist":
        priv = PrivateKey(secret_exponent=d["key"])
        out, cur = [], None
        for n, sc in enumerate(d["seq"]):
            if d["inplace"] and n == 1 and isinstance(cur, list) and len(cur) == 1 and sc is not None and "list" in sc and len(sc["list"]) == 2 \
                    and d["seq"][0] == {"list": [sc["list"][0]]}:
                cur.append(tree_py(sc["list"][1]))          # the caller's list mutated in place
            else:
                cur = sarg_py(sc)
            sig = guarded(lambda: priv.sign_taproot_input(tx, d["i"], spks, d["amts"], False, tapleaf_scripts=cur, sighash=d["ht"]))
            wp = priv.get_public_key().get_taproot_address(cur).to_witness_program()
            out.append(sig + "," + wp)
        return "|".join(out)


def _keyb(d):
    return d["key"].to_bytes(32, "big")


def model(d):
    k = d["k"]
    if k == "key":
        return sx("sign_taproot", _keyb(d), _digest(d), d["ht"], Raw(sarg_sx(d["sc"])), True)
    if k == "script":
        return sx("sign_taproot", _keyb(d), _digest(d, asm_ref(d["leaf"])), d["ht"], Raw("none"), False)
    if k == "hist":
        return [sx("sign_taproot", _keyb(d), _digest(d), d["ht"], Raw(sarg_sx(sc)), True) for sc in d["seq"]]


def _verify(pk32, sig, dig):
    import coincurve
    try:
        return coincurve.PublicKeyXOnly(pk32).verify(sig[:64], dig)
    except Exception:
        return False


def _facts(d, sig, pk32, dig):
    want_len = 64 if d["ht"] == 0 else 65
    return "len_ok=%d,last_ok=%d,verifies=%d" % (len(sig) == want_len, d["ht"] == 0 or sig[-1] == d["ht"], _verify(pk32, sig, dig))


def post_impl(d, io):
    import refbip341
    if io == "ERR": return io
    k = d["k"]
    if k in ("key", "script"):
        sig, pk, det = io.split("|")
        dig = _digest(d, asm_ref(d["leaf"]) if k == "script" else None)
        # the committed key comes from the reference, not from the implementation
        if k == "key":
            exp = refbip341.output(d["key"], _root_of(d["sc"]))[0]
        else:
            exp = refbip341.pub_xy(d["key"])[0].to_bytes(32, "big")
        return sig + "|" + _facts(d, bytes.fromhex(sig), exp, dig) + ",addr_ok=%d,det=%s" % (pk == exp.hex(), det)
    out = []
    for part, sc in zip(io.split("|"), d["seq"]):
        if part.startswith("ERR"):
            out.append("ERR"); continue
        sig, wp = part.split(",")
        exp = refbip341.output(d["key"], _root_of(sc))[0]
        out.append(sig + "," + _facts(d, bytes.fromhex(sig), exp, _digest(d)) + ",addr_ok=%d" % (wp == exp.hex()))
    return "|".join(out)


def post(d, out):
    ok = "len_ok=1,last_ok=1,verifies=1,addr_ok=1"
    if d["k"] in ("key", "script"):
        return out + "|" + ok + ",det=1"
    return "|".join(x + "," + ok for x in out.split("|"))


# source tie (DESIGN 13.8)
from common import with_ties
LEVEL_TEXT, LEVEL_NOTE, TECHNIQUE = with_ties(TIES, LEVEL_TEXT, LEVEL_NOTE, TECHNIQUE)
