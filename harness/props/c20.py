"""C20 - bundled RIPEMD-160, tagged-hash and BIP340 primitives equal their specifications."""
from engine import sx, Raw
from common import *

PID = "C20"
TIES = ['tagged_hash']   # source-tie files coq/Properties/Tie_<f>.v that belong to this property
THEOREMS = ["C20_ripemd", "C20_ripemd_tables", "C20_tagged", "C20_sign_total", "C20_sign_verifies", "C20_verify_ranges", "C20_s_unique", "C20_point_mul"]
TECHNIQUE = "Coq proof (RIPEMD-160 model = 32-bit word specification for every length; BIP340 completeness and uniqueness over the abstract curve) + extracted-model correspondence against pycryptodome, hashlib and libsecp256k1"
RULE = ("RIPEMD-160 on every length 0..300 and random lengths to 100000 (padding boundaries 55/56/63/64/119/120); tagged hashes through both copies; "
        "BIP340 signing for secrets across [1, n-1] incl. 1 and n-1 with random messages and aux values, byte-for-byte against libsecp256k1; "
        "verification of valid and mutated signatures (bit flips, r >= p, s >= n, negated R / non-normalised nonce, off-curve keys); "
        "point_add / point_mul / lift_x against libsecp256k1. Non-trivial = distinct input on which the primitive returns a value.")
LEVEL_TEXT = ("Coq theorems: the bundled RIPEMD-160 (unbounded Python integers) equals the 32-bit specification on every byte string; both "
              "tagged_hash copies are SHA256(SHA256(tag)||SHA256(tag)||data); over the abstract prime-order curve BIP340 signing never fails "
              "except for k0 = 0 and its signatures verify, verification enforces r < p, s < n and an on-curve key, and s is unique for "
              "given (R, P, m). Tied to the code by differential runs against the extracted model, pycryptodome, hashlib and libsecp256k1.")
LEVEL_NOTE = ("Trusted: Coq kernel; the curve's group law, the order of G and the primality facts are premises (Spec/Curve.v: curve_laws), "
              "instantiated on a toy curve in Proofs/ToyCurve.v and validated against libsecp256k1 by the correspondence; SHA-256 abstract.")
P = 0xFFFFFFFFFFFFFFFFFFFFFFFFFFFFFFFFFFFFFFFFFFFFFFFFFFFFFFFEFFFFFC2F
N = 0xFFFFFFFFFFFFFFFFFFFFFFFFFFFFFFFEBAAEDCE6AF48A03BBFD25E8CD0364141


def cases(tier, rng):
    for ln in range(0, 301):
        yield {"k": "rmd", "b": rand_hex(rng, ln)}
    for _ in range(12 if tier == "quick" else 200):
        yield {"k": "rmd", "b": rand_data(rng, rng.choice([55, 56, 63, 64, 119, 120, 1000, 4096, 65535, 100000, rng.randrange(300, 100000)]))}
    for tag in ["TapLeaf", "TapBranch", "TapTweak", "TapSighash", "BIP0340/aux", "BIP0340/nonce", "BIP0340/challenge", "x"]:
        for ln in (0, 1, 32, 64, 100):
            yield {"k": "tag", "tag": tag, "b": rand_hex(rng, ln)}
    ns = 150 if tier == "quick" else 3000
    keys = [1, 2, 3, N - 1, N - 2, (N - 1) // 2, (N + 1) // 2]
    for j in range(ns):
        d = keys[j] if j < len(keys) else rng.randrange(1, N)
        yield {"k": "sign", "key": "%064x" % d, "msg": rand_hex(rng, 32), "aux": rng.choice(["00" * 32, "ff" * 32, rand_hex(rng, 32)])}
    for key in ["00" * 32, "%064x" % N, "ff" * 32]:
        yield {"k": "sign", "key": key, "msg": "11" * 32, "aux": "22" * 32, "reject": True}
    for j in range(ns):
        yield {"k": "ver", "key": "%064x" % rng.randrange(1, N), "msg": rand_hex(rng, 32), "aux": rand_hex(rng, 32),
               "mut": rng.choice(["none", "none", "flip_r", "flip_s", "flip_m", "flip_pk", "r_ge_p", "s_ge_n", "neg_s", "s_plus_n", "odd_R", "offcurve", "zero"]),
               "bit": rng.randrange(256)}
    for j in range(100 if tier == "quick" else 2000):
        a, b = rng.randrange(1, N), rng.randrange(1, N)
        yield {"k": "ec", "a": a, "b": b if j % 5 else a, "neg": j % 7 == 0, "k": "ec"}
    for j in range(12 if tier == "quick" else 100):
        a = rng.randrange(1, N)
        yield {"k": "ecinf", "a": a, "form": j % 3, "n": rng.choice([0, N, 1, 2, N - 1, N + 1, 2 * N, 2 ** 256 - 1])}
    for j in range(12 if tier == "quick" else 60):
        # argument lengths the reference code refuses outright
        yield {"k": "len", "what": ["vmsg", "vpk", "vsig", "smsg", "saux", "skey"][j % 6], "n": rng.choice([0, 1, 31, 33, 63, 64, 65]),
               "key": "%064x" % rng.randrange(1, N), "msg": rand_hex(rng, 32), "aux": rand_hex(rng, 32)}
    for x in [0, 1, 2, 3, 4, 5, P - 1, P, P + 1, 2 ** 256 - 1] + [rng.getrandbits(256) for _ in range(60)]:
        yield {"k": "lift", "x": x}


def _mutate(d, sig, pk):
    """returns (msg, pk, sig) after the mutation"""
    import coincurve
    msg = bytearray.fromhex(d["msg"]); sig = bytearray(sig); pk = bytearray(pk)
    m, bit = d["mut"], d["bit"]
    r, s = int.from_bytes(sig[:32], "big"), int.from_bytes(sig[32:], "big")
    if m == "flip_r": sig[bit // 8 % 32] ^= 1 << (bit % 8)
    elif m == "flip_s": sig[32 + bit // 8 % 32] ^= 1 << (bit % 8)
    elif m == "flip_m": msg[bit // 8 % 32] ^= 1 << (bit % 8)
    elif m == "flip_pk": pk[bit // 8 % 32] ^= 1 << (bit % 8)
    elif m == "r_ge_p": sig[:32] = (P + (r % 1000)).to_bytes(32, "big")
    elif m == "s_ge_n": sig[32:] = (N + (s % 1000)).to_bytes(32, "big") if N + (s % 1000) < 2 ** 256 else b"\xff" * 32
    elif m == "neg_s": sig[32:] = (N - s).to_bytes(32, "big")
    elif m == "s_plus_n": sig[32:] = ((s + N) % 2 ** 256).to_bytes(32, "big")
    elif m == "zero": sig[:] = bytes(64)
    elif m == "offcurve":
        x = int.from_bytes(pk, "big")
        while pow((pow(x, 3, P) + 7) % P, (P - 1) // 2, P) == 1: x = (x + 1) % P
        pk[:] = x.to_bytes(32, "big")
    return bytes(msg), bytes(pk), bytes(sig)


def _odd_R_sig(d):
    """a signature built without normalising the nonce point to even y: s = k + e d with odd-y R"""
    import hashlib, coincurve
    dk = int(d["key"], 16)
    pub = coincurve.PrivateKey(bytes.fromhex(d["key"])).public_key.format(False)
    px, py = int.from_bytes(pub[1:33], "big"), int.from_bytes(pub[33:], "big")
    if py % 2: dk = N - dk
    k = int(d["aux"], 16) % N or 1
    for _ in range(8):
        R = coincurve.PrivateKey(k.to_bytes(32, "big")).public_key.format(False)
        if R[-1] % 2 == 1: break
        k = (k + 1) % N or 1
    rx = R[1:33]
    th = hashlib.sha256(b"BIP0340/challenge").digest()
    e = int.from_bytes(hashlib.sha256(th + th + rx + px.to_bytes(32, "big") + bytes.fromhex(d["msg"])).digest(), "big") % N
    return rx + ((k + e * dk) % N).to_bytes(32, "big"), px.to_bytes(32, "big")


def _case_ver(d):
    import coincurve
    if d["mut"] == "odd_R":
        sig, pk = _odd_R_sig(d)
        return bytes.fromhex(d["msg"]), pk, sig
    sk = coincurve.PrivateKey(bytes.fromhex(d["key"]))
    sig = sk.sign_schnorr(bytes.fromhex(d["msg"]), bytes.fromhex(d["aux"]))
    pk = sk.public_key_xonly.format()
    return _mutate(d, sig, pk)


def _len_case(d):
    import coincurve
    sk = coincurve.PrivateKey(bytes.fromhex(d["key"]))
    msg = bytes.fromhex(d["msg"]); aux = bytes.fromhex(d["aux"]); key = bytes.fromhex(d["key"])
    sig = sk.sign_schnorr(msg, aux); pk = sk.public_key_xonly.format()
    fit = lambda b: (b * 3)[:d["n"]]
    w = d["what"]
    if w in ("vmsg", "smsg"): msg = fit(msg)
    elif w == "vpk": pk = fit(pk)
    elif w == "vsig": sig = fit(sig)
    elif w == "saux": aux = fit(aux)
    elif w == "skey": key = (b"\x00" * 40 + key)[-d["n"]:] if d["n"] else b""
    return msg, pk, sig, key, aux


def _pt(hexkey_int):
    import coincurve
    b = coincurve.PrivateKey(hexkey_int.to_bytes(32, "big")).public_key.format(False)
    return (int.from_bytes(b[1:33], "big"), int.from_bytes(b[33:], "big"))


def _show(pt):
    return "INF" if pt is None else "%d,%d" % pt


def impl(d):
    from bitcoinutils import ripemd160, schnorr, utils
    k = d["k"]
    if k == "rmd":
        return ripemd160.ripemd160(bytes.fromhex(d["b"])).hex()
    if k == "tag":
        a = utils.tagged_hash(bytes.fromhex(d["b"]), d["tag"]); b = schnorr.tagged_hash(d["tag"], bytes.fromhex(d["b"]))
        return a.hex() + "|" + b.hex()
    if k == "sign":
        return schnorr.schnorr_sign(bytes.fromhex(d["msg"]), bytes.fromhex(d["key"]), bytes.fromhex(d["aux"])).hex()
    if k == "ver":
        msg, pk, sig = _case_ver(d)
        return "1" if schnorr.schnorr_verify(msg, pk, sig) else "0"
    if k == "ec":
        A, B = _pt(d["a"]), _pt(d["b"])
        if d["neg"]: B = (A[0], P - A[1])
        return _show(schnorr.point_add(A, B)) + "|" + _show(schnorr.point_mul(A, d["b"]))
    if k == "lift":
        return _show(schnorr.lift_x(d["x"]))
    if k == "ecinf":
        A = _pt(d["a"]); ops = [(A, None), (None, A), (None, None)][d["form"]]
        return _show(schnorr.point_add(*ops)) + "|" + _show(schnorr.point_mul(A, d["n"])) + "|" + _show(schnorr.point_mul(None, d["n"]))
    if k == "len":
        msg, pk, sig, key, aux = _len_case(d)
        if d["what"][0] == "v":
            return "1" if schnorr.schnorr_verify(msg, pk, sig) else "0"
        return schnorr.schnorr_sign(msg, key, aux).hex()


def model(d):
    k = d["k"]
    if k == "rmd":
        return sx("ripemd160", bytes.fromhex(d["b"]))
    if k == "tag":
        q = sx("tagged_hash", bytes.fromhex(d["b"]), d["tag"].replace("/", "/"))
        return [q, q]
    if k == "sign":
        return sx("schnorr_sign", bytes.fromhex(d["msg"]), bytes.fromhex(d["key"]), bytes.fromhex(d["aux"]))
    if k == "ver":
        msg, pk, sig = _case_ver(d)
        return sx("schnorr_verify", msg, pk, sig)
    if k == "ec":
        A, B = _pt(d["a"]), _pt(d["b"])
        if d["neg"]: B = (A[0], P - A[1])
        return [sx("point_add", list(A), list(B)), sx("point_mul", list(A), d["b"])]
    if k == "lift":
        return sx("lift_x", d["x"])
    if k == "ecinf":
        A = list(_pt(d["a"])); I = Raw("INF"); ops = [(A, I), (I, A), (I, I)][d["form"]]
        return [sx("point_add", *ops), sx("point_mul", A, d["n"]), sx("point_mul", I, d["n"])]
    if k == "len":
        msg, pk, sig, key, aux = _len_case(d)
        if d["what"][0] == "v":
            return sx("schnorr_verify", msg, pk, sig)
        return sx("schnorr_sign", msg, key, aux)


def spec(d):
    if d["k"] == "rmd":
        return sx("ripemd160_spec", bytes.fromhex(d["b"]))
    return None


def oracle(d):
    import hashlib, coincurve
    k = d["k"]
    if k == "rmd":
        from Crypto.Hash import RIPEMD160
        return RIPEMD160.new(bytes.fromhex(d["b"])).hexdigest()
    if k == "tag":
        t = hashlib.sha256(d["tag"].encode()).digest()
        h = hashlib.sha256(t + t + bytes.fromhex(d["b"])).hexdigest()
        return h + "|" + h
    if k == "sign":
        if d.get("reject"): return "ERR"
        return coincurve.PrivateKey(bytes.fromhex(d["key"])).sign_schnorr(bytes.fromhex(d["msg"]), bytes.fromhex(d["aux"])).hex()
    if k == "ver":
        msg, pk, sig = _case_ver(d)
        try:
            return "1" if coincurve.PublicKeyXOnly(pk).verify(sig, msg) else "0"
        except Exception:
            return "0"
    if k == "ec":
        A = coincurve.PrivateKey(d["a"].to_bytes(32, "big")).public_key
        if d["neg"]:
            s = "INF"
        else:
            Bk = coincurve.PrivateKey(d["b"].to_bytes(32, "big")).public_key
            f = coincurve.PublicKey.combine_keys([A, Bk]).format(False)
            s = "%d,%d" % (int.from_bytes(f[1:33], "big"), int.from_bytes(f[33:], "big"))
        m = A.multiply(d["b"].to_bytes(32, "big")).format(False)
        return s + "|%d,%d" % (int.from_bytes(m[1:33], "big"), int.from_bytes(m[33:], "big"))
    if k == "lift":
        x = d["x"]
        if x >= P: return "INF"
        ysq = (pow(x, 3, P) + 7) % P
        y = pow(ysq, (P + 1) // 4, P)
        if y * y % P != ysq: return "INF"
        return "%d,%d" % (x, y if y % 2 == 0 else P - y)


# source tie (DESIGN 13.8)
from common import with_ties
LEVEL_TEXT, LEVEL_NOTE, TECHNIQUE = with_ties(TIES, LEVEL_TEXT, LEVEL_NOTE, TECHNIQUE)
