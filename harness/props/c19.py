"""C19 - HD wallet keys equal BIP32/BIP39 derivation on the configured network."""
from engine import sx, Raw
from common import *
import refbip32

PID = "C19"
THEOREMS = ["C19_paths", "C19_init", "C19_network"]
TECHNIQUE = "Coq proof (state-machine invariant over arbitrary sequences of path changes; network hand-over on the generated tables) + correspondence of the wrapper model with an independent BIP39/BIP32 reference"
RULE = ("random 12/15/18/21/24-word mnemonics and random extended private keys (xprv/tprv), paths of depth 0..8 with hardened and normal indices "
        "across 0..2^31-1, sequences of 1..4 path changes on one wallet object with the key read after every change, networks mainnet, testnet, "
        "regtest. Non-trivial = distinct (root, path history, network) for which a key is returned.")
LEVEL_TEXT = ("Coq theorems over an arbitrary child-derivation function: after any sequence of from_path calls the wrapper's key is the derivation "
              "of the last path from the ROOT (induction over the sequence), construction from xprv+path / mnemonic yields the expected key, and the "
              "WIF hand-over to PrivateKey succeeds on all four networks (generated WIF prefixes). That the external hdwallet package behaves as "
              "the abstract state machine and implements BIP32/BIP39 is validated by the correspondence against an independent reference.")
LEVEL_NOTE = ("Partial by nature: BIP32 CKDpriv, BIP39 PBKDF2 and the hdwallet package are external; the theorem covers the repository's wrapper logic. "
              "Trusted: Coq kernel, extraction, harness reference refbip32.py (hashlib, hmac, libsecp256k1).")
WORDS = None


def _words():
    global WORDS
    if WORDS is None:
        import hdwallet, os
        from hdwallet.mnemonics.bip39 import BIP39Mnemonic
        WORDS = BIP39Mnemonic.get_words_list_by_language("english") if hasattr(BIP39Mnemonic, "get_words_list_by_language") else None
    return WORDS


def _mnemonic(rng, nwords):
    """a valid BIP39 mnemonic built by the harness (entropy + checksum), independent of the package"""
    import hashlib, os
    wl = _wordlist()
    ent = bytes(rng.getrandbits(8) for _ in range(nwords * 4 // 3))
    cs = hashlib.sha256(ent).digest()
    bits = bin(int.from_bytes(ent, "big"))[2:].zfill(len(ent) * 8) + bin(cs[0])[2:].zfill(8)[: len(ent) * 8 // 32]
    return " ".join(wl[int(bits[i:i + 11], 2)] for i in range(0, len(bits), 11))


_WL = None


def _wordlist():
    global _WL
    if _WL is None:
        import hdwallet, os, glob
        base = os.path.dirname(hdwallet.__file__)
        cand = glob.glob(os.path.join(base, "**", "english.txt"), recursive=True)
        cand = [c for c in cand if "bip39" in c.lower()] or cand
        _WL = open(cand[0]).read().split()
        assert len(_WL) == 2048
    return _WL


def _rand_path(rng):
    d = rng.choice([0, 1, 2, 3, 5, 8])
    out = []
    for _ in range(d):
        i = rng.choice([0, 1, 2, 44, 2 ** 31 - 1, rng.getrandbits(31)])
        if rng.random() < 0.5: i += 2 ** 31
        out.append(i)
    return out


def cases(tier, rng):
    n = 60 if tier == "quick" else 1500
    for j in range(n):
        net = rng.choice(["mainnet", "testnet", "regtest"])
        paths = [_rand_path(rng) for _ in range(rng.choice([0, 1, 2, 3, 4]))]
        if j % 2 == 0:
            yield {"k": "mn", "net": net, "mn": _mnemonic(rng, rng.choice([12, 15, 18, 21, 24])), "paths": paths}
        else:
            k = rng.randrange(1, refbip32.N); c = bytes(rng.getrandbits(8) for _ in range(32))
            yield {"k": "xp", "net": net, "key": k, "chain": c.hex(), "p0": _rand_path(rng), "paths": paths, "tprv": net != "mainnet"}


def impl(d):
    from bitcoinutils.setup import setup
    from bitcoinutils.hdwallet import HDWallet
    setup(d["net"])
    if d["k"] == "mn":
        w = HDWallet(mnemonic=d["mn"])
    else:
        x = refbip32.xprv(d["key"], bytes.fromhex(d["chain"]), mainnet=not d["tprv"])
        w = HDWallet.from_xprivate_key(x, refbip32.path_str(d["p0"]))
    out = [guarded(lambda: w.get_private_key().to_bytes().hex())]
    for p in d["paths"]:
        w.from_path(refbip32.path_str(p))
        out.append(guarded(lambda: w.get_private_key().to_bytes().hex()))
    return "|".join(out)


def model(d):
    init = Raw("(mn)") if d["k"] == "mn" else Raw("(xp (%s))" % " ".join(str(i) for i in d["p0"]))
    return sx("hd", d["net"], init, Raw("(" + " ".join("(" + " ".join(str(i) for i in p) + ")" for p in d["paths"]) + ")"))


def post(d, out):
    """the model answers with (root, path from root) for every read; the keys come from the reference derivation"""
    if d["k"] == "mn":
        k0, c0 = refbip32.master(refbip32.seed_from_mnemonic(d["mn"]))
    else:
        k0, c0 = d["key"], bytes.fromhex(d["chain"])
    res = []
    for part in out.split("|"):
        if part == "ERR":
            res.append("ERR"); continue
        path = [int(x) for x in part.split("/") if x != ""]
        try:
            res.append("%064x" % refbip32.derive(k0, c0, path)[0])
        except ValueError:
            res.append("ERR")
    return "|".join(res)


def oracle(d):
    if d["k"] == "mn":
        k0, c0 = refbip32.master(refbip32.seed_from_mnemonic(d["mn"]))
        cur = [[]]
    else:
        k0, c0 = d["key"], bytes.fromhex(d["chain"])
        cur = [d["p0"]]
    for p in d["paths"]:
        cur.append(p)
    return "|".join("%064x" % refbip32.derive(k0, c0, p)[0] for p in cur)
