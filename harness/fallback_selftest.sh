#!/bin/sh
# Self-test (not a registered check): every translated function is forced to fall back to its model definition and
# coq/Gen/Src.v must still typecheck -- otherwise a function the translator cannot read would break the build instead
# of merely dropping its tie.  Holds the build lock; restores Src.v.
V=$(cd "$(dirname "$0")/.." && pwd)
exec 9>"$V/.build.lock"; flock 9
GEN_SRC_FORCE_FALLBACK=1 /venv/bin/python "$V/harness/gen_src.py" /repo | tail -1
(cd "$V/coq" && timeout 600 coqc -Q . BU Gen/Src.v) && echo FALLBACKS_TYPECHECK || echo FALLBACKS_BROKEN
# ... and every tie proof must then pass or fail quickly (none may chew on a model term for minutes)
(cd "$V/coq" && /usr/bin/time -f "make -k with every function fallen back: %es" timeout 900 make -k -j8 > /dev/null 2>/tmp/fb_time.$$; tail -1 /tmp/fb_time.$$; rm -f /tmp/fb_time.$$)
/venv/bin/python "$V/harness/gen_src.py" /repo > /dev/null
(cd "$V/coq" && timeout 3000 make -j8 > /dev/null 2>&1)
