"""Harness-owned BIP173/BIP350 reference (written from the BIPs), used as an independent oracle."""
CH = "qpzry9x8gf2tvdw0s3jn54khce6mua7l"
GEN = [0x3b6a57b2, 0x26508e6d, 0x1ea119fa, 0x3d4233dd, 0x2a1462b3]
M = 0x2bc830a3


def polymod(v):
    c = 1
    for x in v:
        b = c >> 25
        c = ((c & 0x1ffffff) << 5) ^ x
        for i in range(5):
            if (b >> i) & 1: c ^= GEN[i]
    return c


def expand(h):
    return [ord(x) >> 5 for x in h] + [0] + [ord(x) & 31 for x in h]


def encode(hrp, ver, prog):
    acc = bits = 0; d = [ver]
    for b in prog:
        acc = (acc << 8) | b; bits += 8
        while bits >= 5:
            bits -= 5; d.append((acc >> bits) & 31)
    if bits: d.append((acc << (5 - bits)) & 31)
    const = 1 if ver == 0 else M
    pm = polymod(expand(hrp) + d + [0] * 6) ^ const
    d += [(pm >> 5 * (5 - i)) & 31 for i in range(6)]
    return hrp + "1" + "".join(CH[x] for x in d)


def raw_encode(hrp, d, const):
    """hrp + '1' + data symbols d + a checksum that verifies against `const` (1 = bech32, M = bech32m)"""
    d = list(d)
    pm = polymod(expand(hrp) + d + [0] * 6) ^ const
    d += [(pm >> 5 * (5 - i)) & 31 for i in range(6)]
    return hrp + "1" + "".join(CH[x] for x in d)


def to5(prog):
    acc = bits = 0; d = []
    for b in prog:
        acc = (acc << 8) | b; bits += 8
        while bits >= 5:
            bits -= 5; d.append((acc >> bits) & 31)
    if bits: d.append((acc << (5 - bits)) & 31)
    return d


def decode(hrp, s):
    """(version, program bytes) or None, following BIP173 + BIP350 decoding rules for segwit addresses"""
    if any(ord(c) < 33 or ord(c) > 126 for c in s): return None
    if s.lower() != s and s.upper() != s: return None
    s = s.lower()
    p = s.rfind("1")
    if p < 1 or p + 7 > len(s) or len(s) > 90: return None
    if s[:p] != hrp: return None
    if any(c not in CH for c in s[p + 1:]): return None
    d = [CH.index(c) for c in s[p + 1:]]
    c = polymod(expand(s[:p]) + d)
    if c not in (1, M): return None
    d = d[:-6]
    if not d: return None
    ver = d[0]
    acc = bits = 0; out = []
    for x in d[1:]:
        acc = (acc << 5) | x; bits += 5
        if bits >= 8:
            bits -= 8; out.append((acc >> bits) & 255)
    if bits >= 5 or (acc & ((1 << bits) - 1)): return None
    if len(out) < 2 or len(out) > 40 or ver > 16: return None
    if ver == 0 and len(out) not in (20, 32): return None
    if (ver == 0) != (c == 1): return None
    return ver, bytes(out)
