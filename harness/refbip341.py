"""Harness-owned reference for BIP341 outputs, control blocks and script-path verification,
over libsecp256k1 (coincurve) and hashlib.  Trees: ("leaf", script_bytes) | ("node", a, b)."""
import hashlib
import coincurve
from refsighash import cs, tagged

P = 0xFFFFFFFFFFFFFFFFFFFFFFFFFFFFFFFFFFFFFFFFFFFFFFFFFFFFFFFEFFFFFC2F
N = 0xFFFFFFFFFFFFFFFFFFFFFFFFFFFFFFFEBAAEDCE6AF48A03BBFD25E8CD0364141


def leaf_hash(script):
    return tagged("TapLeaf", b"\xc0" + cs(len(script)) + script)


def branch(a, b):
    return tagged("TapBranch", a + b if a < b else b + a)


def root_and_paths(t):
    """returns (root, [(script, path_bytes)] in leaf order)"""
    if t[0] == "leaf":
        return leaf_hash(t[1]), [(t[1], b"")]
    ra, la = root_and_paths(t[1]); rb, lb = root_and_paths(t[2])
    return branch(ra, rb), [(s, p + rb) for s, p in la] + [(s, p + ra) for s, p in lb]


def pub_xy(secret):
    f = coincurve.PrivateKey(secret.to_bytes(32, "big")).public_key.format(False)
    return int.from_bytes(f[1:33], "big"), int.from_bytes(f[33:], "big")


def output(secret, root):
    """(witness program 32 bytes, is_odd, tweaked secret) for internal secret and merkle root (b'' for none)"""
    x, y = pub_xy(secret)
    t = int.from_bytes(tagged("TapTweak", x.to_bytes(32, "big") + root), "big")
    d = secret if y % 2 == 0 else N - secret
    dt = (d + t) % N
    qx, qy = pub_xy(dt)
    return qx.to_bytes(32, "big"), qy % 2 == 1, dt


def control_block(secret, tree, index):
    root, leaves = root_and_paths(tree)
    wp, odd, _ = output(secret, root)
    x, _ = pub_xy(secret)
    return bytes([0xc0 + (1 if odd else 0)]) + x.to_bytes(32, "big") + leaves[index][1]


def verify_script_path(control, script, wp):
    if len(control) < 33 or (len(control) - 33) % 32: return False
    k = tagged("TapLeaf", bytes([control[0] & 0xfe]) + cs(len(script)) + script)
    for j in range(33, len(control), 32):
        k = branch(k, control[j:j + 32])
    pk = control[1:33]
    t = int.from_bytes(tagged("TapTweak", pk + k), "big")
    if t >= N: return False
    try:
        Pk = coincurve.PublicKey(b"\x02" + pk)
        Q = coincurve.PublicKey.combine_keys([Pk, coincurve.PrivateKey(t.to_bytes(32, "big")).public_key]) if t else Pk
    except Exception:
        return False
    f = Q.format(False)
    return f[1:33] == wp and (f[64] & 1) == (control[0] & 1)
