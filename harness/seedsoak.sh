#!/bin/sh
# Self-test (not a registered check): every quick check on the unchanged tree under several generator seeds; any
# line that is not OK is a false alarm of the machinery or a defect of the library to look into.  The evidence files
# on disk are put back afterwards (they describe the default-seed run).
# usage: harness/seedsoak.sh SEED...
V=$(cd "$(dirname "$0")/.." && pwd); cd "$V"
rm -rf /tmp/evidence.keep; cp -r evidence /tmp/evidence.keep
for s in "$@"; do
  for i in 01 02 03 04 05 06 07 08 09 10 11 12 13 14 15 16 17 18 19 20; do
    r=$(VERIF_SEED=$s ./check C$i 2>&1 | tail -1)
    case "$r" in OK*) ;; *) echo "seed=$s $r";; esac
  done
  echo "seed $s done"
done
cp /tmp/evidence.keep/*.json evidence/; rm -rf /tmp/evidence.keep
