"""AST fingerprints of the anchored source files.  When a file a property is anchored in differs from the
recorded baseline (the tree the model was written against), the check explores more: it is not a verdict,
only a reason to spend a larger case budget on this run."""
import ast, hashlib, json, os, sys

ROOT = os.path.dirname(os.path.dirname(os.path.abspath(__file__)))
BASE = os.path.join(ROOT, "harness", "fingerprints.json")


def _strip(node):
    for n in ast.walk(node):
        if isinstance(n, (ast.FunctionDef, ast.ClassDef, ast.AsyncFunctionDef, ast.Module)) and n.body and \
                isinstance(n.body[0], ast.Expr) and isinstance(getattr(n.body[0], "value", None), ast.Constant) and \
                isinstance(n.body[0].value.value, str):
            n.body = n.body[1:] or [ast.Pass()]
    return node


def fingerprint(path):
    try:
        tree = _strip(ast.parse(open(path).read()))
        return hashlib.sha256(ast.dump(tree, include_attributes=False).encode()).hexdigest()
    except Exception as e:
        return "unparsable:%s" % type(e).__name__


def anchored_files(pid):
    for l in open(os.path.join(ROOT, "properties.jsonl")):
        p = json.loads(l)
        if p["id"] == pid:
            return p["anchors"]["files"]
    return []


def changed(pid, repo):
    base = json.load(open(BASE)) if os.path.exists(BASE) else {}
    out = []
    for f in anchored_files(pid):
        if base.get(f) != fingerprint(os.path.join(repo, f)):
            out.append(f)
    return out


if __name__ == "__main__":
    repo = sys.argv[1] if len(sys.argv) > 1 else "/repo"
    files = sorted({f for l in open(os.path.join(ROOT, "properties.jsonl")) for f in json.loads(l)["anchors"]["files"]})
    json.dump({f: fingerprint(os.path.join(repo, f)) for f in files}, open(BASE, "w"), indent=1)
    print("wrote", BASE, len(files))
