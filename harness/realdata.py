"""The three mainnet block fixtures of the repository, split into raw transactions by a harness-owned
reader (independent of the library's parser)."""
import os, hashlib, functools
from engine import REPO

FIXTURES = ["legacy_block.txt", "segwit_v0_block.txt", "segwit_v1_block.txt"]


def _vi(b, o):
    x = b[o]
    if x < 253: return x, o + 1
    if x == 253: return int.from_bytes(b[o + 1:o + 3], "little"), o + 3
    if x == 254: return int.from_bytes(b[o + 1:o + 5], "little"), o + 5
    return int.from_bytes(b[o + 1:o + 9], "little"), o + 9


def tx_end(b, o):
    """offset just past the transaction starting at o; also returns a parsed view"""
    start = o
    o += 4
    seg = b[o] == 0 and b[o + 1] == 1
    if seg: o += 2
    nin, o = _vi(b, o)
    ins = []
    for _ in range(nin):
        txid = b[o:o + 32][::-1]; vout = int.from_bytes(b[o + 32:o + 36], "little"); o += 36
        ln, o = _vi(b, o); sc = b[o:o + ln]; o += ln; seq = b[o:o + 4]; o += 4
        ins.append((txid, vout, sc, seq))
    nout, o = _vi(b, o)
    outs = []
    for _ in range(nout):
        amt = int.from_bytes(b[o:o + 8], "little"); o += 8
        ln, o = _vi(b, o); outs.append((amt, b[o:o + ln])); o += ln
    mid = o
    wits = []
    if seg:
        for _ in range(nin):
            k, o = _vi(b, o); st = []
            for _ in range(k):
                ln, o = _vi(b, o); st.append(b[o:o + ln]); o += ln
            wits.append(st)
    lt = b[o:o + 4]; o += 4
    stripped = b[start:start + 4] + (b[start + 6:mid] if seg else b[start + 4:mid]) + lt
    return o, {"seg": seg, "ins": ins, "outs": outs, "wits": wits, "lt": lt, "ver": b[start:start + 4], "stripped": stripped}


@functools.lru_cache(maxsize=None)
def blocks():
    out = []
    for f in FIXTURES:
        raw = bytes.fromhex(open(os.path.join(REPO, "tests", f)).read().strip())
        hdr = raw[8:88]
        n, o = _vi(raw, 88)
        txs = []
        for _ in range(n):
            e, view = tx_end(raw, o)
            txs.append((raw[o:e], view)); o = e
        out.append({"name": f, "raw": raw, "header": hdr, "txs": txs})
    return out


def dsha(b):
    return hashlib.sha256(hashlib.sha256(b).digest()).digest()


def merkle_root(hashes):
    hs = list(hashes)
    while len(hs) > 1:
        if len(hs) % 2: hs.append(hs[-1])
        hs = [dsha(hs[i] + hs[i + 1]) for i in range(0, len(hs), 2)]
    return hs[0]
