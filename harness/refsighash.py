"""Harness-owned reference implementations of the three signature hashes, written from Bitcoin Core's
SignatureHash, BIP143 and BIP341/342 over plain byte strings (an independent oracle next to the extracted
Coq specification). A transaction is the 'view' dict of realdata.tx_end or built by view_of()."""
import hashlib, struct


def sha(b): return hashlib.sha256(b).digest()
def dsha(b): return sha(sha(b))


def cs(n):
    if n < 253: return bytes([n])
    if n <= 0xFFFF: return b"\xfd" + struct.pack("<H", n)
    if n <= 0xFFFFFFFF: return b"\xfe" + struct.pack("<I", n)
    return b"\xff" + struct.pack("<Q", n)


def tagged(tag, m):
    t = sha(tag.encode()); return sha(t + t + m)


def ser_out(o): return struct.pack("<Q", o[0] % 2 ** 64) + cs(len(o[1])) + o[1]
def outpoint(i): return i[0][::-1] + struct.pack("<I", i[1])


def legacy(v, i, sc, ht):
    """v: view with ins [(txid_display, vout, script, seq4)], outs [(amt, spk)]; returns digest or None (must refuse)"""
    base, acp = ht & 0x1F, bool(ht & 0x80)
    if not (0 <= i < len(v["ins"])): return None
    if base == 3 and i >= len(v["outs"]): return None
    def sin(k, x):
        seq = x[3] if (k == i or base not in (2, 3)) else b"\0\0\0\0"
        s = sc if k == i else b""
        return outpoint(x) + cs(len(s)) + s + seq
    ins = [sin(i, v["ins"][i])] if acp else [sin(k, x) for k, x in enumerate(v["ins"])]
    if base == 2: outs = []
    elif base == 3: outs = [b"\xff" * 8 + b"\0"] * i + [ser_out(v["outs"][i])]
    else: outs = [ser_out(o) for o in v["outs"]]
    pre = v["ver"] + cs(len(ins)) + b"".join(ins) + cs(len(outs)) + b"".join(outs) + v["lt"] + struct.pack("<I", ht)
    return dsha(pre)


def bip143(v, i, sc, amount, ht):
    base, acp = ht & 0x1F, bool(ht & 0x80)
    z = b"\0" * 32
    hp = z if acp else dsha(b"".join(outpoint(x) for x in v["ins"]))
    hs = z if (acp or base in (2, 3)) else dsha(b"".join(x[3] for x in v["ins"]))
    if base not in (2, 3): ho = dsha(b"".join(ser_out(o) for o in v["outs"]))
    elif base == 3 and i < len(v["outs"]): ho = dsha(ser_out(v["outs"][i]))
    else: ho = z
    x = v["ins"][i]
    pre = v["ver"] + hp + hs + outpoint(x) + cs(len(sc)) + sc + struct.pack("<Q", amount) + x[3] + ho + v["lt"] + struct.pack("<I", ht)
    return dsha(pre)


def bip341(v, i, spent, ht, leaf=None):
    """spent: [(amount, spk)] per input; leaf: script bytes for a script-path spend"""
    acp, low = bool(ht & 0x80), ht & 3
    if low == 3 and i >= len(v["outs"]): return None
    m = bytes([ht]) + v["ver"] + v["lt"]
    if not acp:
        m += sha(b"".join(outpoint(x) for x in v["ins"])) + sha(b"".join(struct.pack("<Q", a) for a, _ in spent))
        m += sha(b"".join(cs(len(s)) + s for _, s in spent)) + sha(b"".join(x[3] for x in v["ins"]))
    if low not in (2, 3): m += sha(b"".join(ser_out(o) for o in v["outs"]))
    m += bytes([2 if leaf is not None else 0])
    if acp:
        x = v["ins"][i]
        m += outpoint(x) + struct.pack("<Q", spent[i][0]) + cs(len(spent[i][1])) + spent[i][1] + x[3]
    else:
        m += struct.pack("<I", i)
    if low == 3: m += sha(ser_out(v["outs"][i]))
    if leaf is not None:
        m += tagged("TapLeaf", b"\xc0" + cs(len(leaf)) + leaf) + b"\0" + b"\xff\xff\xff\xff"
    return tagged("TapSighash", b"\0" + m)
