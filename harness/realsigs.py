"""Real signatures in the block fixtures whose spent outputs lie in the same block (C04, C05)."""
import hashlib, functools
import realdata


def h160(b):
    from Crypto.Hash import RIPEMD160
    return RIPEMD160.new(hashlib.sha256(b).digest()).digest()


def pushes(sc):
    """parse a script consisting of direct pushes only; None otherwise"""
    out, o = [], 0
    while o < len(sc):
        n = sc[o]
        if n == 0: out.append(b""); o += 1; continue
        if n > 75: return None
        out.append(sc[o + 1:o + 1 + n]); o += 1 + n
    return out


@functools.lru_cache(maxsize=None)
def collect():
    v0, trk, trs = [], [], []
    for b in realdata.blocks():
        prev = {}
        for raw, v in b["txs"]:
            txid = realdata.dsha(v["stripped"])[::-1]
            for k, o in enumerate(v["outs"]):
                prev[(txid, k)] = o
        for raw, v in b["txs"]:
            if not v["seg"]: continue
            spent = [prev.get((x[0], x[1])) for x in v["ins"]]
            for i, x in enumerate(v["ins"]):
                w = v["wits"][i]
                if spent[i] is None or not w: continue
                amt, spk = spent[i]
                # --- P2WPKH (native or P2SH-wrapped)
                if len(w) == 2 and len(w[1]) == 33 and 70 <= len(w[0]) <= 73 and w[0][0] == 0x30:
                    prog = b"\x00\x14" + h160(w[1])
                    if spk == prog or spk == b"\xa9\x14" + h160(prog) + b"\x87":
                        v0.append({"kind": "p2wpkh", "raw": raw.hex(), "i": i, "amt": amt, "sig": w[0].hex(), "pk": w[1].hex()})
                    continue
                # --- P2WSH multisig
                if len(w) >= 3 and w[0] == b"" and w[-1][-1:] == b"\xae":
                    ws = w[-1]
                    prog = b"\x00\x20" + hashlib.sha256(ws).digest()
                    if spk == prog or spk == b"\xa9\x14" + h160(prog) + b"\x87":
                        pks = [p for p in (pushes(ws[1:-2]) or []) if len(p) in (33, 65)]
                        sigs = [s for s in w[1:-1] if s]
                        if pks and sigs:
                            v0.append({"kind": "p2wsh", "raw": raw.hex(), "i": i, "amt": amt, "ws": ws.hex(),
                                       "sigs": [s.hex() for s in sigs], "pks": [p.hex() for p in pks]})
                    continue
                # --- taproot
                if len(spk) == 34 and spk[:2] == b"\x51\x20" and all(s is not None for s in spent):
                    ww = list(w)
                    if len(ww) >= 2 and ww[-1][:1] == b"\x50":
                        continue  # annex: not supported by the library's digest
                    ctx = {"raw": raw.hex(), "i": i, "amts": [s[0] for s in spent], "spks": [s[1].hex() for s in spent]}
                    if len(ww) == 1 and len(ww[0]) in (64, 65):
                        trk.append(dict(ctx, kind="trkey", sig=ww[0].hex(), pk=spk[2:].hex()))
                    elif len(ww) == 3 and len(ww[0]) in (64, 65) and (ww[-1][0] & 0xfe) == 0xc0 and len(ww[1]) >= 34 \
                            and ww[1][0] == 0x20 and ww[1][33] == 0xac:
                        trs.append(dict(ctx, kind="trscript", sig=ww[0].hex(), pk=ww[1][1:33].hex(), leaf=ww[1].hex()))
    return v0, trk, trs
