#!/venv/bin/python
"""Self-test (not a registered check): applies each seeded change under seeded/<id>/ to /repo,
runs the property's quick check, reverts /repo, and reports which changes are caught.
usage: harness/seedtest.py [--dir DIR] [ids...]   (DIR defaults to /verif/seeded)"""
import os, sys, json, subprocess, time
ROOT = os.path.dirname(os.path.dirname(os.path.abspath(__file__)))


def sh(cmd, **kw):
    return subprocess.run(cmd, shell=True, stdout=subprocess.PIPE, stderr=subprocess.STDOUT, text=True, **kw)


def main():
    args = sys.argv[1:]
    d = os.path.join(ROOT, "seeded")
    if args and args[0] == "--dir":
        d = args[1]; args = args[2:]
    repo = "/repo"
    if args and args[0] == "--repo":
        repo = args[1]; args = args[2:]
    ids = args or sorted(os.listdir(d))
    assert sh("git -C %s status --porcelain" % repo).stdout.strip() == "", repo + " not clean"
    res = {}
    for sid in ids:
        p = os.path.join(d, sid)
        meta = json.load(open(os.path.join(p, "meta.json")))
        pid = meta["property"]
        props = meta.get("also_check", [])
        try:
            r = sh("git -C %s apply %s" % (repo, os.path.join(p, "patch.diff")))
            if r.returncode != 0:
                res[sid] = "PATCH-FAILED " + r.stdout[-200:]; continue
            out = {}
            for q in [pid] + props:
                t0 = time.time()
                ev = os.path.join(ROOT, "evidence", q + ".json")
                keep = open(ev).read() if os.path.exists(ev) else None       # evidence on disk stays that of the unchanged tree
                c = sh("cd %s && VERIF_REPO=%s ./check %s --tier quick" % (ROOT, repo, q))
                if keep is not None:
                    open(ev, "w").write(keep)
                line = [l for l in c.stdout.splitlines() if l.startswith(("VIOLATION", "OK", "HARNESS", "KNOWN"))]
                out[q] = (c.returncode, line[-1] if line else c.stdout[-300:], round(time.time() - t0, 1))
            res[sid] = out
        finally:
            sh("git -C %s checkout -- ." % repo)
        print(sid, json.dumps(res[sid]), flush=True)
    assert sh("git -C %s status --porcelain" % repo).stdout.strip() == ""
    return 0


if __name__ == "__main__":
    sys.exit(main())
