"""Harness-owned BIP39 seed / BIP32 private derivation (from the BIPs), over hashlib, hmac and libsecp256k1."""
import hashlib, hmac, unicodedata
import coincurve

N = 0xFFFFFFFFFFFFFFFFFFFFFFFFFFFFFFFEBAAEDCE6AF48A03BBFD25E8CD0364141
B58 = "123456789ABCDEFGHJKLMNPQRSTUVWXYZabcdefghijkmnopqrstuvwxyz"


def seed_from_mnemonic(m, passphrase=""):
    m = unicodedata.normalize("NFKD", m)
    return hashlib.pbkdf2_hmac("sha512", m.encode(), ("mnemonic" + passphrase).encode(), 2048, 64)


def master(seed):
    I = hmac.new(b"Bitcoin seed", seed, hashlib.sha512).digest()
    return int.from_bytes(I[:32], "big"), I[32:]


def ckd(k, c, i):
    if i >= 2 ** 31:
        data = b"\0" + k.to_bytes(32, "big") + i.to_bytes(4, "big")
    else:
        data = coincurve.PrivateKey(k.to_bytes(32, "big")).public_key.format(True) + i.to_bytes(4, "big")
    I = hmac.new(c, data, hashlib.sha512).digest()
    il = int.from_bytes(I[:32], "big")
    child = (il + k) % N
    if il >= N or child == 0:
        raise ValueError("invalid child")
    return child, I[32:]


def derive(k, c, path):
    for i in path:
        k, c = ckd(k, c, i)
    return k, c


def b58check(b):
    b = b + hashlib.sha256(hashlib.sha256(b).digest()).digest()[:4]
    n = int.from_bytes(b, "big"); s = ""
    while n: n, r = divmod(n, 58); s = B58[r] + s
    return "1" * (len(b) - len(b.lstrip(b"\0"))) + s


def xprv(k, c, mainnet=True, depth=0, fp=b"\0\0\0\0", child=0):
    ver = bytes.fromhex("0488ade4" if mainnet else "04358394")
    return b58check(ver + bytes([depth]) + fp + child.to_bytes(4, "big") + c + b"\0" + k.to_bytes(32, "big"))


def path_str(path):
    return "m" + "".join("/%d'" % (i - 2 ** 31) if i >= 2 ** 31 else "/%d" % i for i in path)
