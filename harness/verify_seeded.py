#!/venv/bin/python
"""Confirms each staged seeded change in a scratch worktree (outside /repo and /verif) and installs it under
/verif/seeded/<id>/: the patch applies to /repo's HEAD, the pinned test suite still passes with it, its
demonstration fails with it and passes without it.  usage: verify_seeded.py STAGE_DIR [ids...]"""
import os, sys, json, shutil, subprocess, tempfile
ROOT = os.path.dirname(os.path.dirname(os.path.abspath(__file__)))


def sh(cmd, **kw):
    return subprocess.run(cmd, shell=True, stdout=subprocess.PIPE, stderr=subprocess.STDOUT, text=True, **kw)


def main():
    stage = sys.argv[1]
    ids = sys.argv[2:] or sorted(os.listdir(stage))
    wt = tempfile.mkdtemp(prefix="seedwt_", dir="/tmp")
    os.rmdir(wt)
    assert sh("git -C /repo worktree add -q --detach %s HEAD" % wt).returncode == 0
    head = sh("git -C /repo rev-parse --short HEAD").stdout.strip()
    try:
        for sid in ids:
            src = os.path.join(stage, sid)
            if not os.path.exists(os.path.join(src, "patch.diff")):
                continue
            meta = json.load(open(os.path.join(src, "meta.json")))
            ran = []
            env = dict(os.environ, LIBPATH=wt, PYTHONPATH=wt, PYTHONHASHSEED="0")
            sh("git -C %s checkout -q -- ." % wt)
            r0 = sh("/venv/bin/python %s" % os.path.join(src, "demo.py"), env=env, timeout=1800)
            ran.append("demo on clean HEAD %s: exit %d" % (head, r0.returncode))
            a = sh("git -C %s apply %s" % (wt, os.path.join(src, "patch.diff")))
            if a.returncode != 0:
                print(sid, "PATCH DOES NOT APPLY", a.stdout[-200:]); continue
            t = sh("cd %s && /venv/bin/python -m pytest -q -p no:cacheprovider --timeout=900 -n 8 2>&1 | tail -1" % wt, timeout=1800)
            ran.append("pytest with patch: " + t.stdout.strip())
            r1 = sh("/venv/bin/python %s" % os.path.join(src, "demo.py"), env=env, timeout=1800)
            ran.append("demo with patch: exit %d" % r1.returncode)
            sh("git -C %s checkout -q -- ." % wt)
            ok = r0.returncode == 0 and r1.returncode != 0 and "97 passed" in t.stdout
            print(sid, "CONFIRMED" if ok else "NOT CONFIRMED", ran, flush=True)
            if ok:
                dst = os.path.join(ROOT, "seeded", sid)
                os.makedirs(dst, exist_ok=True)
                for f in ("patch.diff", "demo.py"):
                    shutil.copy(os.path.join(src, f), os.path.join(dst, f))
                meta_out = {"property": meta.get("property", sid.split("-")[0]), "summary": meta.get("summary"),
                            "needs": meta.get("needs"), "author_ran": meta.get("ran"), "confirmed_by_me": ran,
                            "confirmed_at_repo_head": head}
                json.dump(meta_out, open(os.path.join(dst, "meta.json"), "w"), indent=1)
    finally:
        sh("git -C /repo worktree remove --force %s" % wt)
    return 0


if __name__ == "__main__":
    sys.exit(main())
