#!/venv/bin/python
"""Source translator: a fail-closed Python-AST -> Gallina translation of small pure functions of /repo.

Every run re-reads the functions listed in TARGETS from the tree under test and writes coq/Gen/Src.v in
the vocabulary of coq/Lib/PySem.v.  coq/Proofs/SrcTie.v proves each translated function equal to the
hand-written model, so for these functions the tie between code and model is a theorem re-checked on
every run, not a sample.  The translator supports a deliberately small subset (straight-line code,
if/elif/else, assert, raise, return, local (aug)assignments, integer and bytes expressions, the
primitives of PySem.v); on anything else it FAILS CLOSED for that function: the function is listed in
Src.v's `untranslated` list, its definition falls back to the model's, and the check widens its
correspondence run instead (engine.py).  It never guesses.

usage: gen_src.py [repo-root]      (writes coq/Gen/Src.v only when the content changes)
"""
import ast, os, re, sys

ROOT = os.path.dirname(os.path.dirname(os.path.abspath(__file__)))
OUT = os.path.join(ROOT, "coq", "Gen", "Src.v")

# name, file, qualname, parameters (name, type) in order, self attributes, return type, model fallback term
# types: int | bytes | bool | hexbytes (a str holding hex that the code immediately turns into bytes: transport only)
TARGETS = [
    dict(coq="src_encode_varint", file="bitcoinutils/utils.py", qual="encode_varint", params=[("i", "int")], ret="bytes",
         fallback="fun i => of_option (Varint.encode_varint i)"),
    dict(coq="src_prepend_compact_size", file="bitcoinutils/utils.py", qual="prepend_compact_size", params=[("data", "bytes")],
         ret="bytes", fallback="fun data => of_option (Varint.prepend_compact_size data)"),
    dict(coq="src_parse_compact_size", file="bitcoinutils/utils.py", qual="parse_compact_size", params=[("data", "bytes")],
         ret="int*int", fallback="fun data => of_option (option_map (fun p => (fst p, Z.of_nat (snd p))) (Varint.parse_compact_size data))"),
    dict(coq="src_vi_to_int", file="bitcoinutils/utils.py", qual="vi_to_int", params=[("byteint", "bytes")],
         ret="int*int", fallback="fun data => of_option (option_map (fun p => (fst p, Z.of_nat (snd p))) (Varint.vi_to_int data))"),
    dict(coq="src_op_push_data", file="bitcoinutils/script.py", qual="Script._op_push_data", params=[("data", "hexbytes")],
         ret="bytes", fallback="fun data => of_option (Script.op_push_data data)"),
    dict(coq="src_push_integer", file="bitcoinutils/script.py", qual="Script._push_integer", params=[("integer", "int")],
         ret="bytes", fallback="fun n => of_option (Script.push_integer n)",
         forbid=("py_rshift", "py_mod"),   # its tie proof reasons about `integer & (1 << k)` only; other bit tricks: say so, do not guess
         ),
    dict(coq="src_sequence_init", file="bitcoinutils/transactions.py", qual="Sequence.__init__",
         params=[("seq_type", "int"), ("value", "int"), ("is_type_block", "bool")], ret="attrs", init=True,
         initattrs=[("seq_type", "int"), ("value", "int"), ("is_type_block", "bool")],
         fallback="fun ty v blk => match Seq.mk_sequence ty v blk with Some s => Ok (Some (Seq.seq_type s), Some (Seq.seq_value s), Some (Seq.seq_is_block s)) | None => Raise end"),
    dict(coq="src_for_input_sequence", file="bitcoinutils/transactions.py", qual="Sequence.for_input_sequence", params=[],
         selfattrs=[("seq_type", "int"), ("value", "int"), ("is_type_block", "bool")], ret="bytes",
         fallback="fun ty v blk => match Seq.for_input_sequence (Seq.Build_sequence ty v blk) with Seq.SeqBytes b => Ok b | Seq.SeqNone => RetNone | Seq.SeqErr => Raise end"),
    dict(coq="src_for_script", file="bitcoinutils/transactions.py", qual="Sequence.for_script", params=[],
         selfattrs=[("seq_type", "int"), ("value", "int"), ("is_type_block", "bool")], ret="int",
         fallback="fun ty v blk => of_option (Seq.for_script (Seq.Build_sequence ty v blk))"),
    dict(coq="src_locktime_for_transaction", file="bitcoinutils/transactions.py", qual="Locktime.for_transaction", params=[],
         selfattrs=[("value", "int")], ret="bytes", fallback="fun v => of_option (Seq.locktime_for_transaction v)"),
]

TARGETS += [
    dict(coq="src_add_magic_prefix", file="bitcoinutils/utils.py", qual="add_magic_prefix", params=[("message", "utf8")], ret="bytes",
         fallback="fun m => of_option (Msg.add_magic_prefix m)"),
    dict(coq="src_tagged_hash", file="bitcoinutils/utils.py", qual="tagged_hash", params=[("data", "bytes"), ("tag", "str")], ret="bytes",
         sha=True, fallback="fun sha256 data tag => Ok (Sighash.tagged_hash sha256 data tag)"),
    dict(coq="src_schnorr_tagged_hash", file="bitcoinutils/schnorr.py", qual="tagged_hash", params=[("tag", "str"), ("msg", "bytes")],
         ret="bytes", sha=True, register=False, tiefile="tagged_hash", fallback="fun sha256 tag msg => Ok (Sighash.tagged_hash sha256 msg tag)"),
    dict(coq="src_tapbranch_tagged_hash", file="bitcoinutils/utils.py", qual="tapbranch_tagged_hash",
         params=[("thashed_a", "bytes"), ("thashed_b", "bytes")], ret="bytes", sha=True,
         fallback="fun sha256 a b => Ok (Taproot.tapbranch_tagged_hash sha256 a b)"),
    dict(coq="src_tapleaf_tagged_hash", file="bitcoinutils/utils.py", qual="tapleaf_tagged_hash", params=[("script", "script")],
         ret="bytes", sha=True, fallback="fun sha256 s => of_option (Taproot.tapleaf_tagged_hash sha256 s)"),
]

_HDR = [("version", "int"), ("previous_block_hash", "bytes"), ("merkle_root", "bytes"), ("timestamp", "int"), ("target_bits", "int"), ("nonce", "int")]
TARGETS += [
    dict(coq="src_get_target_bits", file="bitcoinutils/block.py", qual="BlockHeader.get_target_bits", params=[], selfattrs=[("target_bits", "int")],
         ret="hexint", tiefile="block_header", fallback="fun bits => of_option (Block.get_target (Block.Build_header 0 [] [] 0 bits 0))"),
    dict(coq="src_serialize_header", file="bitcoinutils/block.py", qual="BlockHeader.serialize_header", params=[], selfattrs=_HDR, ret="bytes",
         callable_method=True, tiefile="block_header", fallback="fun v p m t b n => of_option (Block.serialize_header (Block.Build_header v p m t b n))"),
    dict(coq="src_get_block_hash", file="bitcoinutils/block.py", qual="BlockHeader.get_block_hash", params=[], selfattrs=_HDR, ret="bytes", sha=True,
         tiefile="block_header", fallback="fun sha256 v p m t b n => of_option (Block.get_block_hash sha256 (Block.Build_header v p m t b n))"),
]

TARGETS += [
    dict(coq="src_txout_to_bytes", file="bitcoinutils/transactions.py", qual="TxOutput.to_bytes", params=[],
         selfattrs=[("amount", "int"), ("script_pubkey", "script")], ret="bytes", tiefile="tx_parts",
         fallback="fun a s => of_option (Tx.txout_to_bytes (Tx.Build_txout a s))"),
    dict(coq="src_txin_to_bytes", file="bitcoinutils/transactions.py", qual="TxInput.to_bytes", params=[],
         selfattrs=[("txid", "hexbytes"), ("txout_index", "int"), ("script_sig", "script"), ("sequence", "bytes")], ret="bytes", tiefile="tx_parts",
         fallback="fun t v s q => of_option (Tx.txin_to_bytes (Tx.Build_txin t v s q))"),
]

TARGETS += [
    dict(coq="src_witness_to_bytes", file="bitcoinutils/transactions.py", qual="TxWitnessInput.to_bytes", params=[],
         selfattrs=[("stack", "list:hexbytes")], ret="bytes", tiefile="tx_whole",
         fallback="fun st => of_option (Tx.witness_to_bytes st)"),
    dict(coq="src_tx_to_bytes", file="bitcoinutils/transactions.py", qual="Transaction.to_bytes", params=[("has_segwit", "bool")],
         selfattrs=[("version", "bytes"), ("inputs", "list:txin"), ("outputs", "list:txout"), ("witnesses", "list:witness"), ("locktime", "bytes")],
         ret="bytes", tiefile="tx_whole", callable_method=True,
         fallback="fun hs v i o w l => of_option (Tx.tx_to_bytes (Tx.Build_tx v i o l false w) hs)"),
    dict(coq="src_get_txid", file="bitcoinutils/transactions.py", qual="Transaction.get_txid", params=[], sha=True,
         selfattrs=[("version", "bytes"), ("inputs", "list:txin"), ("outputs", "list:txout"), ("witnesses", "list:witness"), ("locktime", "bytes")],
         ret="bytes", tiefile="tx_ids", fallback="fun sha256 v i o w l => of_option (Tx.get_txid sha256 (Tx.Build_tx v i o l false w))"),
    dict(coq="src_get_hash", file="bitcoinutils/transactions.py", qual="Transaction._get_hash", params=[], sha=True,
         selfattrs=[("version", "bytes"), ("inputs", "list:txin"), ("outputs", "list:txout"), ("witnesses", "list:witness"), ("locktime", "bytes"),
                    ("has_segwit", "bool")],
         ret="bytes", tiefile="tx_ids", fallback="fun sha256 v i o w l hs => of_option (Tx.get_wtxid sha256 (Tx.Build_tx v i o l hs w))"),
    dict(coq="src_get_size", file="bitcoinutils/transactions.py", qual="Transaction.get_size", params=[],
         selfattrs=[("version", "bytes"), ("inputs", "list:txin"), ("outputs", "list:txout"), ("witnesses", "list:witness"), ("locktime", "bytes"),
                    ("has_segwit", "bool")],
         ret="int", tiefile="tx_ids", fallback="fun v i o w l hs => of_option (Tx.get_size (Tx.Build_tx v i o l hs w))"),
    dict(coq="src_to_p2sh_spk", file="bitcoinutils/script.py", qual="Script.to_p2sh_script_pub_key", params=[], selfattrs=[("script", "script")], sha=True,
         ret="script", tiefile="locking_scripts", fallback="fun sha256 ts => of_option (Script.to_p2sh_script_pub_key (fun b => Ripemd160.ripemd160 (sha256 b)) ts)"),
    dict(coq="src_to_p2wsh_spk", file="bitcoinutils/script.py", qual="Script.to_p2wsh_script_pub_key", params=[], selfattrs=[("script", "script")], sha=True,
         ret="script", tiefile="locking_scripts", fallback="fun sha256 ts => of_option (Script.to_p2wsh_script_pub_key sha256 ts)"),
    dict(coq="src_addr_to_hash160", file="bitcoinutils/keys.py", qual="Address.to_hash160", params=[], selfattrs=[("hash160", "hexbytes")],
         ret="bytes", tiefile="locking_scripts", callable_method=True, fallback="fun (h : bytes) => Ok h"),
    dict(coq="src_seg_to_witness_program", file="bitcoinutils/keys.py", qual="SegwitAddress.to_witness_program", params=[],
         selfattrs=[("witness_program", "hexbytes")], ret="bytes", tiefile="locking_scripts", callable_method=True, fallback="fun (h : bytes) => Ok h"),
    dict(coq="src_p2pkh_spk", file="bitcoinutils/keys.py", qual="P2pkhAddress.to_script_pub_key", params=[], selfattrs=[("hash160", "hexbytes")],
         ret="script", tiefile="locking_scripts", fallback="fun h => Ok (Address.spk_p2pkh h)"),
    dict(coq="src_p2sh_spk", file="bitcoinutils/keys.py", qual="P2shAddress.to_script_pub_key", params=[], selfattrs=[("hash160", "hexbytes")],
         ret="script", tiefile="locking_scripts", fallback="fun h => Ok (Address.spk_p2sh h)"),
    dict(coq="src_p2wpkh_spk", file="bitcoinutils/keys.py", qual="P2wpkhAddress.to_script_pub_key", params=[], selfattrs=[("witness_program", "hexbytes")],
         ret="script", tiefile="locking_scripts", fallback="fun h => Ok (Address.spk_segwit Address.P2WPKH h)"),
    dict(coq="src_p2wsh_spk", file="bitcoinutils/keys.py", qual="P2wshAddress.to_script_pub_key", params=[], selfattrs=[("witness_program", "hexbytes")],
         ret="script", tiefile="locking_scripts", fallback="fun h => Ok (Address.spk_segwit Address.P2WSH h)"),
    dict(coq="src_p2tr_spk", file="bitcoinutils/keys.py", qual="P2trAddress.to_script_pub_key", params=[], selfattrs=[("witness_program", "hexbytes")],
         ret="script", tiefile="locking_scripts", fallback="fun h => Ok (Address.spk_segwit Address.P2TR h)"),
    dict(coq="src_legacy_digest", file="bitcoinutils/transactions.py", qual="Transaction.get_transaction_digest", sha=True,
         params=[("txin_index", "int"), ("script", "script"), ("sighash", "int")],
         selfattrs=[("version", "bytes"), ("inputs", "list:txin"), ("outputs", "list:txout"), ("witnesses", "list:witness"), ("locktime", "bytes")],
         ret="bytes", tiefile="legacy_digest",
         fallback="fun sha256 i sc ht v ins outs w l => if i <? 0 then Raise else of_option (Sighash.legacy_digest sha256 (Tx.Build_tx v ins outs l false w) (Z.to_nat i) sc ht)"),
    dict(coq="src_taproot_digest", file="bitcoinutils/transactions.py", qual="Transaction.get_transaction_taproot_digest", sha=True,
         params=[("txin_index", "int"), ("script_pubkeys", "list:script"), ("amounts", "list:int"), ("ext_flag", "int"), ("script", "script"),
                 ("leaf_ver", "int"), ("sighash", "int")],
         selfattrs=[("version", "bytes"), ("inputs", "list:txin"), ("outputs", "list:txout"), ("locktime", "bytes")],
         ret="bytes", tiefile="taproot_digest",
         fallback="fun sha256 i spks ams ext sc (lv : Z) ht v ins outs l => if i <? 0 then Raise else of_option (Sighash.taproot_digest sha256 (Tx.Build_tx v ins outs l false []) (Z.to_nat i) spks ams ext sc ht)"),
    dict(coq="src_segwit_digest", file="bitcoinutils/transactions.py", qual="Transaction.get_transaction_segwit_digest", sha=True,
         params=[("txin_index", "int"), ("script", "script"), ("amount", "int"), ("sighash", "int")],
         selfattrs=[("version", "bytes"), ("inputs", "list:txin"), ("outputs", "list:txout"), ("locktime", "bytes")],
         ret="bytes", tiefile="segwit_digest",
         fallback="fun sha256 i sc am ht v ins outs l => if i <? 0 then Raise else of_option (Sighash.segwit_digest sha256 (Tx.Build_tx v ins outs l false []) (Z.to_nat i) sc am ht)"),
]

COQTY = {"int": "Z", "bytes": "bytes", "hexbytes": "bytes", "bool": "bool", "int*int": "(Z * Z)", "unit": "unit",
         "utf8": "bytes",          # a str that the code only ever .encode("utf-8")s: the model takes those bytes
         "str": "string",          # a str used as a tag: str.encode() of an ASCII tag is Sighash.str_bytes
         "script": "(list tok)",
         "hexint": "Z",
         "list:int": "(list Z)", "list:script": "(list (list tok))",
         "list:hexbytes": "(list bytes)", "list:txin": "(list Tx.txin)", "list:txout": "(list Tx.txout)", "list:witness": "(list (list bytes))"}            # an int returned as f"{x:064x}": the integer that is printed   # a Script object: its .to_bytes() is the model's Script.to_bytes (tied by C02)
STRUCT = {"<B": 1, "<H": 2, "<I": 4, "<L": 4, "<Q": 8, "B": 1}
STRUCT_SIGNED = {"<i": 4, "<l": 4, "<q": 8}


METHODS = {}
TRANSLATED = set()
BASES = {"P2pkhAddress": ["Address"], "P2shAddress": ["Address"], "P2wpkhAddress": ["SegwitAddress"], "P2wshAddress": ["SegwitAddress"],
         "P2trAddress": ["SegwitAddress"]}
# element objects of the lists a method iterates over: attribute -> (type, model projection), method -> translated function
SETTERS = {("txin", "script_sig"): ("Sighash.set_script", "script"), ("txin", "sequence"): ("Sighash.set_seq", "bytes")}
OBJ = {
    "txin": {"attrs": [("txid", "hexbytes", "Tx.ti_txid"), ("txout_index", "int", "Tx.ti_vout"), ("script_sig", "script", "Tx.ti_script"),
                       ("sequence", "bytes", "Tx.ti_seq")], "methods": {"to_bytes": ("src_txin_to_bytes", "bytes")}, "coq": "Tx.txin"},
    "txout": {"attrs": [("amount", "int", "Tx.to_amount"), ("script_pubkey", "script", "Tx.to_script")],
              "methods": {"to_bytes": ("src_txout_to_bytes", "bytes")}, "coq": "Tx.txout"},
    "witness": {"attrs": [("stack", "list:hexbytes", "")], "methods": {"to_bytes": ("src_witness_to_bytes", "bytes")}, "coq": "(list bytes)"},
}


class Unsupported(Exception):
    pass


def tie_file_of(coqname):
    """coq/Proofs/Tie_<x>.v that holds the tie lemma of a translated function"""
    for t in TARGETS:
        if t["coq"] == coqname:
            return "Proofs/Tie_%s.v" % t.get("tiefile", coqname[len("src_"):])
    return "Proofs/Tie_%s.v" % coqname[len("src_"):]


def tables():
    """module-level constant NAME -> (coq ident, type) for the constants the table generator exports"""
    out = {}
    p = os.path.join(ROOT, "coq", "Gen", "Tables.v")
    if os.path.exists(p):
        for m in re.finditer(r"^Definition (\w+) : (Z|list Z) :=", open(p).read(), re.M):
            out[m.group(1).upper()] = (m.group(1), "int" if m.group(2) == "Z" else "bytes")
    return out


def find_func(tree, qual):
    parts = qual.split(".")
    node = tree
    for i, name in enumerate(parts):
        nxt = None
        for n in node.body:
            if isinstance(n, (ast.FunctionDef, ast.ClassDef)) and n.name == name:
                nxt = n
        if nxt is None:
            raise Unsupported("function %s not found" % qual)
        node = nxt
    if not isinstance(node, ast.FunctionDef):
        raise Unsupported("%s is not a function" % qual)
    return node


class Tr:
    def __init__(self, target, consts, known):
        self.t = target
        self.consts = consts
        self.translated = set()       # coq names of the functions translated so far on this run
        self.tails = []               # what "falling off the end" means inside a loop body
        self.methods = {}             # method name -> (coq name, self attributes, ret type, hashes?) of translated methods callable on self
        self.known = known            # qualname tail -> (coq name, param types, ret type) of functions translated before
        self.env = {}                 # python local -> (coq ident, type)
        self.n = 0
        self.selfattrs = dict(target.get("selfattrs", []))

    def fresh(self, base="t"):
        self.n += 1
        return "%s%d" % (base, self.n)

    # ---- expressions: returns (prebindings, text, type); prebindings = [(kind, ident, option/res-valued text)]
    def expr(self, e):
        if isinstance(e, ast.Constant):
            v = e.value
            if isinstance(v, bool):
                return [], "true" if v else "false", "bool"
            if isinstance(v, int):
                return [], "(%d)" % v, "int"
            if isinstance(v, bytes):
                return [], "[" + "; ".join(str(b) for b in v) + "]", "bytes"
            if isinstance(v, str) and v.isascii() and '"' not in v and v.isprintable():
                return [], '"%s"%%string' % v, "str"
            if v is None:
                return [], "NONE", "none"
            raise Unsupported("constant %r" % (v,))
        if isinstance(e, ast.Name):
            if e.id in self.env:
                return [], self.env[e.id][0], self.env[e.id][1]
            if e.id in self.consts:
                return [], self.consts[e.id][0], self.consts[e.id][1]
            raise Unsupported("name %s" % e.id)
        if isinstance(e, ast.Attribute) and isinstance(e.value, ast.Name) and (e.value.id == "self" or e.value.id in getattr(self, "aliases", ())):
            key = "self." + e.attr
            if key in self.env:
                return [], self.env[key][0], self.env[key][1]
            raise Unsupported("attribute self.%s" % e.attr)
        if isinstance(e, ast.Attribute) and isinstance(e.value, ast.Name) and e.value.id in self.env and self.env[e.value.id][1] in OBJ:
            ident, ty = self.env[e.value.id]
            for a, aty, proj in OBJ[ty]["attrs"]:
                if a == e.attr:
                    return [], ("(%s %s)" % (proj, ident)) if proj else ident, ("bytes" if aty == "hexbytes" else aty)
            raise Unsupported("attribute %s of %s" % (e.attr, ty))
        if isinstance(e, ast.List) and len(e.elts) <= 1 and getattr(self, "want_list", None):
            # [] or [x] assigned to a list-valued field of the copy
            if not e.elts:
                return [], "[]", self.want_list
            p, a, ta = self.expr(e.elts[0])
            if "list:" + ta != self.want_list: raise Unsupported("list element type")
            return p, "[%s]" % a, self.want_list
        if isinstance(e, ast.Call) and isinstance(e.func, ast.Name) and e.func.id == "TxOutput" and len(e.args) == 2 and not e.keywords:
            p1, a, ta = self.expr(e.args[0]); p2, b, tb = self.expr(e.args[1])
            if ta != "int" or tb != "script": raise Unsupported("TxOutput arguments")
            return p1 + p2, "(Tx.Build_txout %s %s)" % (a, b), "txout"
        if isinstance(e, ast.Tuple):
            if len(e.elts) != 2:
                raise Unsupported("tuple arity")
            p1, a, ta = self.expr(e.elts[0]); p2, b, tb = self.expr(e.elts[1])
            if ta != "int" or tb != "int":
                raise Unsupported("tuple of non-ints")
            return p1 + p2, "(%s, %s)" % (a, b), "int*int"
        if isinstance(e, ast.UnaryOp):
            p, a, ta = self.expr(e.operand)
            if isinstance(e.op, ast.Not):
                return p, "(negb %s)" % self.truthy(a, ta), "bool"
            if isinstance(e.op, ast.USub) and ta == "int":
                return p, "(- %s)" % a, "int"
            raise Unsupported("unary op")
        if isinstance(e, ast.BinOp):
            p1, a, ta = self.expr(e.left); p2, b, tb = self.expr(e.right)
            pre = p1 + p2
            op = type(e.op)
            if ta == "bytes" and tb == "bytes" and op is ast.Add:
                return pre, "(%s ++ %s)" % (a, b), "bytes"
            if op is ast.Mult and {ta, tb} == {"bytes", "int"}:
                bexp, nexp = (e.left, e.right) if ta == "bytes" else (e.right, e.left)
                if (isinstance(bexp, ast.Constant) and isinstance(bexp.value, bytes) and len(bexp.value) == 1
                        and isinstance(nexp, ast.Constant) and isinstance(nexp.value, int) and 0 <= nexp.value <= 4096):
                    return pre, "(repeat %d %d)" % (bexp.value[0], nexp.value), "bytes"
                raise Unsupported("bytes repetition")
            if ta == "int" and tb == "int":
                tot = {ast.Add: "+", ast.Sub: "-", ast.Mult: "*"}
                if op in tot:
                    return pre, "(%s %s %s)" % (a, tot[op], b), "int"
                bit = {ast.BitAnd: "Z.land", ast.BitOr: "Z.lor", ast.BitXor: "Z.lxor"}
                if op in bit:
                    return pre, "(%s %s %s)" % (bit[op], a, b), "int"
                # a shift by, or a division by, a literal that cannot raise is total
                lit = e.right.value if isinstance(e.right, ast.Constant) and isinstance(e.right.value, int) and not isinstance(e.right.value, bool) else None
                if lit is not None and lit >= 0 and op in (ast.LShift, ast.RShift):
                    return pre, "(%s %s %s)" % ("Z.shiftl" if op is ast.LShift else "Z.shiftr", a, b), "int"
                if lit is not None and lit > 0 and op in (ast.FloorDiv, ast.Mod):
                    return pre, "(%s %s %s)" % (a, "/" if op is ast.FloorDiv else "mod", b), "int"
                part = {ast.LShift: "py_lshift", ast.RShift: "py_rshift", ast.FloorDiv: "py_floordiv", ast.Mod: "py_mod"}
                if op in part:
                    if part[op] in self.t.get("forbid", ()):
                        raise Unsupported("%s is outside the fragment this function's tie proof decides" % part[op])
                    t = self.fresh()
                    return pre + [("opt", t, "%s %s %s" % (part[op], a, b))], t, "int"
            raise Unsupported("binary op %s on %s,%s" % (op.__name__, ta, tb))
        if isinstance(e, ast.Compare):
            if len(e.ops) > 1:
                # a < b <= c : each operand evaluated once, left to right; conjunction of the adjacent comparisons
                pre = []; vals = []
                for x in [e.left] + list(e.comparators):
                    p, a, ta = self.expr(x)
                    if ta != "int": raise Unsupported("chained comparison of %s" % ta)
                    if p and vals: raise Unsupported("partial operation inside a chained comparison")
                    pre += p; vals.append(a)
                m = {ast.Lt: "(%s <? %s)", ast.LtE: "(%s <=? %s)", ast.Gt: "(%s >? %s)", ast.GtE: "(%s >=? %s)",
                     ast.Eq: "(%s =? %s)", ast.NotEq: "(negb (%s =? %s))"}
                parts = []
                for i, o in enumerate(e.ops):
                    if type(o) not in m: raise Unsupported("chained comparison operator")
                    parts.append(m[type(o)] % (vals[i], vals[i + 1]))
                return pre, "(" + " && ".join(parts) + ")", "bool"
            op = type(e.ops[0])
            # `x is None` / `x is not None` on a value whose type is known not to be None
            if op in (ast.Is, ast.IsNot) and isinstance(e.comparators[0], ast.Constant) and e.comparators[0].value is None:
                p, a, ta = self.expr(e.left)
                if ta in ("int", "bytes", "bool"):
                    return p, "false" if op is ast.Is else "true", "bool"
                raise Unsupported("is None on %s" % ta)
            # X == 64 * "0"  on a value held as bytes (hex transport): 32 zero bytes
            rz = e.comparators[0]
            if (op in (ast.Eq, ast.NotEq) and isinstance(rz, ast.BinOp) and isinstance(rz.op, ast.Mult)
                    and {type(rz.left), type(rz.right)} == {ast.Constant}
                    and sorted([repr(type(rz.left.value)), repr(type(rz.right.value))]) == sorted([repr(int), repr(str)])):
                nrep = rz.left.value if isinstance(rz.left.value, int) else rz.right.value
                ch = rz.right.value if isinstance(rz.left.value, int) else rz.left.value
                p1, a, ta = self.expr(e.left)
                if ta == "bytes" and ch == "0" and nrep % 2 == 0 and 0 <= nrep <= 128:
                    t_ = "(py_bytes_eq %s (repeat 0 %d))" % (a, nrep // 2)
                    return p1, t_ if op is ast.Eq else "(negb %s)" % t_, "bool"
                raise Unsupported("comparison with a repeated string")
            p1, a, ta = self.expr(e.left); p2, b, tb = self.expr(e.comparators[0])
            if ta == "int" and tb == "int":
                m = {ast.Lt: "(%s <? %s)", ast.LtE: "(%s <=? %s)", ast.Gt: "(%s >? %s)", ast.GtE: "(%s >=? %s)",
                     ast.Eq: "(%s =? %s)", ast.NotEq: "(negb (%s =? %s))"}
                if op in m:
                    return p1 + p2, m[op] % (a, b), "bool"
            if ta == "bytes" and tb == "bytes" and op in (ast.Lt, ast.Gt):
                return p1 + p2, ("(bytes_ltb %s %s)" % ((a, b) if op is ast.Lt else (b, a))), "bool"
            if ta == "bytes" and tb == "bytes" and op in (ast.LtE, ast.GtE):       # a <= b  is  not (b < a)
                return p1 + p2, ("(negb (bytes_ltb %s %s))" % ((b, a) if op is ast.LtE else (a, b))), "bool"
            if ta == "bytes" and tb == "bytes" and op in (ast.Eq, ast.NotEq):
                s = "(py_bytes_eq %s %s)" % (a, b)
                return p1 + p2, s if op is ast.Eq else "(negb %s)" % s, "bool"
            raise Unsupported("comparison %s on %s,%s" % (op.__name__, ta, tb))
        if isinstance(e, ast.BoolOp):
            parts = [self.expr(v) for v in e.values]
            # only the first operand may contain operations that can raise (the others are evaluated conditionally)
            if any(p for p, _, _ in parts[1:]):
                raise Unsupported("partial operation under and/or")
            texts = [self.truthy(a, ta) for _, a, ta in parts]
            j = " && " if isinstance(e.op, ast.And) else " || "
            return parts[0][0], "(" + j.join(texts) + ")", "bool"
        if isinstance(e, ast.JoinedStr):
            # f"{x:064x}": the hexadecimal rendering of an int -- represented by the int itself
            if (len(e.values) == 1 and isinstance(e.values[0], ast.FormattedValue) and e.values[0].conversion == -1
                    and isinstance(e.values[0].format_spec, ast.JoinedStr) and len(e.values[0].format_spec.values) == 1
                    and isinstance(e.values[0].format_spec.values[0], ast.Constant) and e.values[0].format_spec.values[0].value == "064x"):
                p, a, ta = self.expr(e.values[0].value)
                if ta != "int": raise Unsupported("formatted value of %s" % ta)
                return p, a, "hexint"
            raise Unsupported("f-string")
        if isinstance(e, ast.IfExp):
            pc, c, tc = self.expr(e.test)
            p1, a, ta = self.expr(e.body); p2, b, tb = self.expr(e.orelse)
            if p1 or p2:
                raise Unsupported("partial operation inside a conditional expression")
            if ta != tb:
                raise Unsupported("conditional expression of types %s / %s" % (ta, tb))
            return pc, "(if %s then %s else %s)" % (self.truthy(c, tc), a, b), ta
        if isinstance(e, ast.Subscript):
            p, a, ta = self.expr(e.value)
            if ta.startswith("list:") and not isinstance(e.slice, ast.Slice):
                q, i_, ti = self.expr(e.slice)
                if ti != "int": raise Unsupported("index type")
                ety = ta[len("list:"):]
                t = self.fresh()
                return p + q + [("opt", t, "py_nth %s %s" % (a, i_))], t, ("bytes" if ety == "hexbytes" else ety)
            if ta != "bytes":
                # struct.unpack(...)[0]
                if ta == "unpacked" and isinstance(e.slice, ast.Constant) and e.slice.value == 0:
                    return p, a, "int"
                raise Unsupported("subscript of %s" % ta)
            s = e.slice
            if isinstance(s, ast.Slice):
                if s.step is not None:
                    if (s.lower is None and s.upper is None and isinstance(s.step, ast.UnaryOp) and isinstance(s.step.op, ast.USub)
                            and isinstance(s.step.operand, ast.Constant) and s.step.operand.value == 1):
                        return p, "(rev %s)" % a, "bytes"
                    raise Unsupported("slice step")
                pre = list(p)
                lo = hi = None
                if s.lower is not None:
                    q, lo, tl = self.expr(s.lower); pre += q
                    if tl != "int": raise Unsupported("slice bound type")
                if s.upper is not None:
                    q, hi, th = self.expr(s.upper); pre += q
                    if th != "int": raise Unsupported("slice bound type")
                if lo is not None and hi is not None:
                    return pre, "(py_slice %s %s %s)" % (a, lo, hi), "bytes"
                if lo is not None:
                    return pre, "(py_slice_from %s %s)" % (a, lo), "bytes"
                if hi is not None:
                    return pre, "(py_slice_to %s %s)" % (a, hi), "bytes"
                return pre, a, "bytes"
            q, i, ti = self.expr(s)
            if ti != "int":
                raise Unsupported("index type")
            t = self.fresh()
            return p + q + [("opt", t, "py_index %s %s" % (a, i))], t, "int"
        if isinstance(e, ast.Call):
            return self.call(e)
        raise Unsupported("expression %s" % type(e).__name__)

    def truthy(self, a, ta):
        if ta == "bool": return a
        if ta == "int": return "(py_truthy_int %s)" % a
        if ta == "bytes": return "(py_truthy_bytes %s)" % a
        raise Unsupported("truthiness of %s" % ta)

    def kw(self, call, name, pos):
        if len(call.args) > pos:
            return call.args[pos]
        for k in call.keywords:
            if k.arg == name:
                return k.value
        return None

    def call(self, e):
        f = e.func
        # self.m(args): a method of the same object translated earlier on this run
        cls_ = self.t["qual"].split(".")[0]
        if (isinstance(f, ast.Attribute) and isinstance(f.value, ast.Name) and (f.value.id == "self" or f.value.id in getattr(self, "aliases", ()))
                and f.attr in self.methods and not e.keywords and self.methods[f.attr][5] in [cls_] + BASES.get(cls_, [])):
            name = f.attr
            coq, attrs, rty, sha = self.methods[name][:4]
            ptys = self.methods[name][4] if len(self.methods[name]) > 4 else []
            if sha and not self.t.get("sha"): raise Unsupported("call of a hashing method")
            if len(e.args) != len(ptys): raise Unsupported("method call arity")
            pre_m = []; args = []
            for a_, pt in zip(e.args, ptys):
                p, a, ta = self.expr(a_)
                if ta != pt: raise Unsupported("method argument type")
                pre_m += p; args.append(a)
            for a_, ty in attrs:
                if "self." + a_ not in self.env or self.env["self." + a_][1] != ("bytes" if ty == "hexbytes" else ty):
                    raise Unsupported("method call needs attribute %s" % a_)
                args.append(self.env["self." + a_][0])
            t = self.fresh()
            return pre_m + [("res", t, "%s%s %s" % (coq, " sha256" if sha else "", " ".join(args)))], t, rty
        # bytes([x])
        if isinstance(f, ast.Name) and f.id == "bytes" and len(e.args) == 1 and isinstance(e.args[0], ast.List) and len(e.args[0].elts) == 1:
            p, a, ta = self.expr(e.args[0].elts[0])
            if ta != "int": raise Unsupported("bytes([non-int])")
            t = self.fresh()
            return p + [("opt", t, "py_bytes1 %s" % a)], t, "bytes"
        if isinstance(f, ast.Name) and f.id == "len" and len(e.args) == 1:
            p, a, ta = self.expr(e.args[0])
            if ta != "bytes" and not ta.startswith("list:"): raise Unsupported("len of %s" % ta)
            if a in getattr(self, "hexstr_idents", set()): raise Unsupported("len of a hex string outside int(len(x) / 2)")
            return p, "(Z.of_nat (length %s))" % a, "int"
        if isinstance(f, ast.Name) and f.id == "isinstance" and len(e.args) == 2:
            p, a, ta = self.expr(e.args[0])
            cls = e.args[1]
            names = [cls.id] if isinstance(cls, ast.Name) else [c.id for c in getattr(cls, "elts", []) if isinstance(c, ast.Name)]
            want = {"int": "int", "bytes": "bytes", "bool": "bool"}
            if names and all(n in want for n in names) and ta in want.values():
                return p, "true" if ta in [want[n] for n in names] else "false", "bool"
            raise Unsupported("isinstance")
        # h_to_b(<script>.script[0]): the first element of a script taken as raw hex data (coinbase scriptSig)
        if (isinstance(f, ast.Name) and f.id == "h_to_b" and len(e.args) == 1 and isinstance(e.args[0], ast.Subscript)
                and isinstance(e.args[0].slice, ast.Constant) and e.args[0].slice.value == 0
                and isinstance(e.args[0].value, ast.Attribute) and e.args[0].value.attr == "script"):
            p, a, ta = self.expr(e.args[0].value.value)
            if ta != "script": raise Unsupported(".script of %s" % ta)
            t = self.fresh()
            return p + [("opt", t, "Tx.coinbase_script_bytes %s" % a)], t, "bytes"
        # hex transport: h_to_b(x) on a hexbytes value and b_to_h(x) on bytes are the identity on the byte string
        if isinstance(f, ast.Name) and f.id in ("h_to_b", "b_to_h") and len(e.args) == 1:
            p, a, ta = self.expr(e.args[0])
            if ta not in ("bytes", "hexstr"): raise Unsupported("%s of %s" % (f.id, ta))
            return p, a, "bytes"
        # s.encode() / s.encode("utf-8")
        if isinstance(f, ast.Attribute) and f.attr == "encode" and len(e.args) <= 1 and not e.keywords:
            if e.args and not (isinstance(e.args[0], ast.Constant) and e.args[0].value in ("utf-8", "utf8")):
                raise Unsupported("encoding")
            p, a, ta = self.expr(f.value)
            if ta == "utf8": return p, a, "bytes"
            if ta == "str": return p, "(str_bytes %s)" % a, "bytes"
            raise Unsupported("encode of %s" % ta)
        # hashlib.sha256(x).digest()
        if (isinstance(f, ast.Attribute) and f.attr == "digest" and not e.args and isinstance(f.value, ast.Call)
                and isinstance(f.value.func, ast.Attribute) and f.value.func.attr == "sha256"
                and isinstance(f.value.func.value, ast.Name) and f.value.func.value.id == "hashlib" and len(f.value.args) == 1):
            if not self.t.get("sha"): raise Unsupported("sha256 in a function not declared to hash")
            p, a, ta = self.expr(f.value.args[0])
            if ta != "bytes": raise Unsupported("sha256 of %s" % ta)
            return p, "(sha256 %s)" % a, "bytes"
        # Script([...]) : a token list of opcode names, hex data and small integers
        if isinstance(f, ast.Name) and f.id == "Script" and len(e.args) == 1 and isinstance(e.args[0], ast.List) and not e.keywords:
            pre = []; toks = []
            for el in e.args[0].elts:
                if isinstance(el, ast.Constant) and isinstance(el.value, str) and el.value.startswith("OP_") and el.value.isascii() and '"' not in el.value:
                    toks.append('TOp "%s"%%string' % el.value); continue
                if isinstance(el, ast.Constant) and isinstance(el.value, int) and not isinstance(el.value, bool):
                    toks.append("TInt (%d)" % el.value); continue
                p, a, ta = self.expr(el)
                if ta not in ("bytes", "hexstr"): raise Unsupported("script element of type %s" % ta)
                pre += p; toks.append("TData %s" % a)
            return pre, "[" + "; ".join(toks) + "]", "script"
        # ripemd160(x): the bundled implementation (modelled concretely, C20)
        if isinstance(f, ast.Name) and f.id == "ripemd160" and len(e.args) == 1 and not e.keywords:
            p, a, ta = self.expr(e.args[0])
            if ta != "bytes": raise Unsupported("ripemd160 of %s" % ta)
            return p, "(Ripemd160.ripemd160 %s)" % a, "bytes"
        # self.to_bytes() inside class Script: the model's Script.to_bytes on the token list
        if (isinstance(f, ast.Attribute) and f.attr == "to_bytes" and isinstance(f.value, ast.Name) and f.value.id == "self" and not e.args
                and self.t["qual"].startswith("Script.") and "self.script" in self.env):
            t = self.fresh()
            return [("opt", t, "Script.to_bytes %s" % self.env["self.script"][0])], t, "bytes"
        # b"".join(<expr> for x in <list>)  /  b"".join([<expr> for x in <list>]): a loop that appends
        if (isinstance(f, ast.Attribute) and f.attr == "join" and isinstance(f.value, ast.Constant) and f.value.value == b""
                and len(e.args) == 1 and isinstance(e.args[0], (ast.GeneratorExp, ast.ListComp)) and len(e.args[0].generators) == 1):
            g = e.args[0].generators[0]
            if g.ifs or g.is_async or not isinstance(g.target, ast.Name): raise Unsupported("comprehension form")
            pre, it, tit = self.expr(g.iter)
            if not tit.startswith("list:"): raise Unsupported("iteration over %s" % tit)
            ety = tit[len("list:"):]
            saved = dict(self.env)
            x = self.fresh(g.target.id + "_")
            self.env[g.target.id] = (x, "bytes" if ety == "hexbytes" else ety)
            pe, a, ta = self.expr(e.args[0].elt)
            self.env = saved
            if ta != "bytes": raise Unsupported("join of %s" % ta)
            body = self.wrap(pe, "Ok (st_ ++ %s)" % a)
            t = self.fresh()
            return pre + [("res", t, "py_for %s [] (fun %s st_ =>\n%s)" % (it, x, body))], t, "bytes"
        # x.to_bytes() on an element object of a list being iterated: the translated method of that class
        if (isinstance(f, ast.Attribute) and isinstance(f.value, ast.Name) and f.value.id in self.env and self.env[f.value.id][1] in OBJ
                and f.attr in OBJ[self.env[f.value.id][1]]["methods"] and not e.args and not e.keywords):
            ident, ty = self.env[f.value.id]
            coq, rty = OBJ[ty]["methods"][f.attr]
            if coq not in self.translated: raise Unsupported("method %s.%s was not translated" % (ty, f.attr))
            args = " ".join(("(%s %s)" % (proj, ident)) if proj else ident for _, _, proj in OBJ[ty]["attrs"])
            t = self.fresh()
            return [("res", t, "%s %s" % (coq, args))], t, rty
        # script.to_hex(): the hex string of the model's Script.to_bytes (kept as the bytes; its len() is twice as long)
        if isinstance(f, ast.Attribute) and f.attr == "to_hex" and not e.args and not e.keywords:
            p, a, ta = self.expr(f.value)
            if ta != "script": raise Unsupported("to_hex() of %s" % ta)
            t = self.fresh()
            self.hexstrs = getattr(self, "hexstrs", set()) | {t}
            return p + [("opt", t, "Script.to_bytes %s" % a)], t, "hexstr"
        # int(len(<hex string>) / 2): the number of bytes
        if (isinstance(f, ast.Name) and f.id == "int" and len(e.args) == 1 and isinstance(e.args[0], ast.BinOp) and isinstance(e.args[0].op, ast.Div)
                and isinstance(e.args[0].right, ast.Constant) and e.args[0].right.value == 2 and isinstance(e.args[0].left, ast.Call)
                and isinstance(e.args[0].left.func, ast.Name) and e.args[0].left.func.id == "len" and len(e.args[0].left.args) == 1):
            p, a, ta = self.expr(e.args[0].left.args[0])
            if ta != "bytes" or a not in getattr(self, "hexstr_idents", set()): raise Unsupported("int(len(x) / 2) on something that is not a hex string")
            return p, "(Z.of_nat (length %s))" % a, "int"
        # script.to_bytes(): the model's Script.to_bytes
        if isinstance(f, ast.Attribute) and f.attr == "to_bytes" and not e.args and not e.keywords:
            p, a, ta = self.expr(f.value)
            if ta != "script": raise Unsupported("to_bytes() of %s" % ta)
            t = self.fresh()
            return p + [("opt", t, "Script.to_bytes %s" % a)], t, "bytes"
        # x.to_bytes(n, "little")
        if isinstance(f, ast.Attribute) and f.attr == "to_bytes":
            p, a, ta = self.expr(f.value)
            ln = self.kw(e, "length", 0); bo = self.kw(e, "byteorder", 1)
            if ta != "int" or ln is None or not (isinstance(bo, ast.Constant) and bo.value == "little"):
                raise Unsupported("to_bytes form")
            q, n, tn = self.expr(ln)
            if tn != "int": raise Unsupported("to_bytes length")
            t = self.fresh()
            return p + q + [("opt", t, "py_to_bytes_le %s %s" % (a, n))], t, "bytes"
        # bytes.fromhex(x) on a value held as bytes: hex transport, the identity
        if (isinstance(f, ast.Attribute) and f.attr == "fromhex" and isinstance(f.value, ast.Name) and f.value.id == "bytes" and len(e.args) == 1):
            p, a, ta = self.expr(e.args[0])
            if ta != "bytes": raise Unsupported("bytes.fromhex of %s" % ta)
            return p, a, "bytes"
        # b.hex() on bytes: hex transport, the identity on the byte string
        if isinstance(f, ast.Attribute) and f.attr == "hex" and not e.args and not e.keywords:
            p, a, ta = self.expr(f.value)
            if ta != "bytes": raise Unsupported("hex() of %s" % ta)
            return p, a, "bytes"
        if isinstance(f, ast.Attribute) and f.attr == "bit_length" and not e.args:
            p, a, ta = self.expr(f.value)
            if ta != "int": raise Unsupported("bit_length of %s" % ta)
            return p, "(py_bit_length %s)" % a, "int"
        # int.from_bytes(b, "little"|"big")
        if isinstance(f, ast.Attribute) and f.attr == "from_bytes" and isinstance(f.value, ast.Name) and f.value.id == "int":
            p, a, ta = self.expr(e.args[0]); bo = self.kw(e, "byteorder", 1)
            if ta != "bytes" or not isinstance(bo, ast.Constant) or bo.value not in ("little", "big"):
                raise Unsupported("from_bytes form")
            return p, "(py_from_bytes_%s %s)" % ("le" if bo.value == "little" else "be", a), "int"
        # struct.pack(fmt, x) / struct.unpack(fmt, b)
        if isinstance(f, ast.Attribute) and isinstance(f.value, ast.Name) and f.value.id == "struct" and f.attr in ("pack", "unpack"):
            if (len(e.args) == 2 and isinstance(e.args[0], ast.Constant) and e.args[0].value in STRUCT_SIGNED and f.attr == "pack"):
                p, a, ta = self.expr(e.args[1])
                if ta != "int": raise Unsupported("struct.pack of %s" % ta)
                t = self.fresh()
                return p + [("opt", t, "py_pack_le_signed %d %s" % (STRUCT_SIGNED[e.args[0].value], a))], t, "bytes"
            if len(e.args) != 2 or not isinstance(e.args[0], ast.Constant) or e.args[0].value not in STRUCT:
                raise Unsupported("struct format")
            size = STRUCT[e.args[0].value]
            p, a, ta = self.expr(e.args[1])
            t = self.fresh()
            if f.attr == "pack":
                if ta != "int": raise Unsupported("struct.pack of %s" % ta)
                return p + [("opt", t, "py_pack_le %d %s" % (size, a))], t, "bytes"
            if ta != "bytes": raise Unsupported("struct.unpack of %s" % ta)
            return p + [("opt", t, "py_unpack_le %d %s" % (size, a))], t, "unpacked"
        # a call of a function translated earlier: f(args) or self.f(args)
        name = f.id if isinstance(f, ast.Name) else (f.attr if isinstance(f, ast.Attribute) and isinstance(f.value, ast.Name) and f.value.id == "self" else None)
        if name in self.known:
            coq, ptys, rty = self.known[name][:3]
            if len(self.known[name]) > 3 and self.known[name][3]:
                if not self.t.get("sha"): raise Unsupported("call of a hashing function from a function not declared to hash")
                coq = coq + " sha256"
            if len(e.args) != len(ptys) or e.keywords:
                raise Unsupported("call arity of %s" % name)
            pre = []; args = []
            for a_, pt in zip(e.args, ptys):
                p, a, ta = self.expr(a_)
                if ta != {"hexbytes": "bytes", "utf8": "bytes"}.get(pt, pt): raise Unsupported("argument type in call of %s" % name)
                pre += p; args.append(a)
            t = self.fresh()
            return pre + [("res", t, "%s %s" % (coq, " ".join(args)))], t, rty
        raise Unsupported("call of %s" % ast.unparse(f))

    # ---- statements, continuation style: `rest` are the statements that follow
    def wrap(self, pre, body):
        for kind, ident, text in reversed(pre):
            if kind == "opt":
                body = "match %s with None => Raise | Some %s =>\n%s end" % (text, ident, body)
            else:
                body = "match %s with Ok %s =>\n%s | _ => Raise end" % (text, ident, body)
        return body

    def bind(self, pyname, text, ty):
        ident = self.fresh(re.sub(r"\W", "_", pyname) + "_")
        self.env[pyname] = (ident, ty)
        return ident

    def end_of_body(self):
        """falling off the end (or a bare return): None -- for a constructor, the attributes the object now has"""
        if not self.t.get("init"):
            return "RetNone"
        parts = []
        for a, ty in self.t["initattrs"]:
            if "self." + a in self.env:
                if self.env["self." + a][1] != ty: raise Unsupported("attribute %s has type %s" % (a, self.env["self." + a][1]))
                parts.append("Some %s" % self.env["self." + a][0])
            else:
                parts.append("None")
        return "Ok (%s)" % ", ".join(parts)

    def stmts(self, ss):
        if not ss:
            return self.tails[-1]() if self.tails else self.end_of_body()
        s, rest = ss[0], ss[1:]
        mut = self.mutation(s)
        if mut is not None:
            key, pre, newval = mut
            saved = dict(self.env)
            ident = self.bind(key, newval, saved[key][1])
            body = self.stmts(rest)
            self.env = saved
            return self.wrap(pre, "let %s := %s in\n%s" % (ident, newval, body))
        if isinstance(s, ast.Expr) and isinstance(s.value, ast.Constant) and isinstance(s.value.value, str):
            return self.stmts(rest)                     # docstring
        if isinstance(s, ast.Pass):
            return self.stmts(rest)
        if isinstance(s, ast.Return):
            if s.value is None or (isinstance(s.value, ast.Constant) and s.value.value is None):
                return self.end_of_body()
            # tail call of a translated function: its result is this function's result
            if isinstance(s.value, ast.Call):
                pre, a, ta = self.expr(s.value)
                if pre and pre[-1][0] == "res" and pre[-1][1] == a:
                    if ta != self.t["ret"]: raise Unsupported("tail call type")
                    return self.wrap(pre[:-1], pre[-1][2])
            else:
                pre, a, ta = self.expr(s.value)
            if ta != self.t["ret"]:
                raise Unsupported("return type %s, expected %s" % (ta, self.t["ret"]))
            return self.wrap(pre, "Ok %s" % a)
        if isinstance(s, ast.Raise):
            return "Raise"
        if isinstance(s, ast.Assert):
            pre, c, tc = self.expr(s.test)
            return self.wrap(pre, "if %s then\n%s\nelse Raise" % (self.truthy(c, tc), self.stmts(rest)))
        if isinstance(s, (ast.Assign, ast.AnnAssign, ast.AugAssign)):
            if (isinstance(s, ast.Assign) and len(s.targets) == 1 and isinstance(s.targets[0], ast.Name) and isinstance(s.value, ast.Call)
                    and isinstance(s.value.func, ast.Attribute) and s.value.func.attr == "copy" and isinstance(s.value.func.value, ast.Name)
                    and s.value.func.value.id == self.t["qual"].split(".")[0] and len(s.value.args) == 1
                    and isinstance(s.value.args[0], ast.Name) and s.value.args[0].id == "self" and not self.t.get("init")):
                # x = Class.copy(self), then only read: the copy has the same field values (separation of copies is C13's subject)
                self.aliases = getattr(self, "aliases", set()) | {s.targets[0].id}
                return self.stmts(rest)
            if isinstance(s, ast.Assign) and len(s.targets) == 1 and isinstance(s.targets[0], ast.Tuple):
                return self.tuple_assign(s, rest)
            if isinstance(s, ast.Assign):
                if len(s.targets) != 1: raise Unsupported("multiple targets")
                tgt, val = s.targets[0], s.value
            elif isinstance(s, ast.AnnAssign):
                tgt, val = s.target, s.value
            else:
                tgt = s.target
                val = ast.BinOp(left=copy_load(tgt), op=s.op, right=s.value)
            if isinstance(tgt, ast.Name):
                key = tgt.id
            elif isinstance(tgt, ast.Attribute) and isinstance(tgt.value, ast.Name) and tgt.value.id == "self":
                key = "self." + tgt.attr
            else:
                raise Unsupported("assignment target")
            pre, a, ta = self.expr(val)
            was_hex = (ta == "hexstr")
            if was_hex: ta = "bytes"
            if ta not in ("int", "bytes", "bool", "hexint", "script") and ta not in OBJ:
                raise Unsupported("assignment of %s" % ta)
            saved = dict(self.env)
            ident = self.bind(key, a, ta)
            if was_hex:
                self.hexstr_idents = getattr(self, "hexstr_idents", set()) | {ident}
            body = self.stmts(rest)
            self.env = saved
            return self.wrap(pre, "let %s := %s in\n%s" % (ident, a, body))
        if isinstance(s, ast.For):
            return self.for_loop(s, rest)
        if isinstance(s, ast.If):
            pre, c, tc = self.expr(s.test)
            saved = dict(self.env)
            th = self.stmts(list(s.body) + rest)
            self.env = dict(saved)
            el = self.stmts(list(s.orelse) + rest)
            self.env = saved
            return self.wrap(pre, "if %s then\n%s\nelse\n%s" % (self.truthy(c, tc), th, el))
        raise Unsupported("statement %s" % type(s).__name__)


def _tuple_assign(self, s, rest):
    """a, b = e1, e2   (right-hand sides first, then the bindings)   and   a, b = <pair-valued expression>"""
    tg = s.targets[0].elts
    keys = []
    for t in tg:
        if isinstance(t, ast.Name): keys.append(t.id)
        elif isinstance(t, ast.Attribute) and isinstance(t.value, ast.Name) and t.value.id == "self": keys.append("self." + t.attr)
        else: raise Unsupported("assignment target")
    saved = dict(self.env)
    if isinstance(s.value, ast.Tuple):
        if len(s.value.elts) != len(tg): raise Unsupported("tuple arity")
        pre = []; vals = []
        for v in s.value.elts:
            p, a, ta = self.expr(v)
            if ta not in ("int", "bytes", "bool"): raise Unsupported("assignment of %s" % ta)
            pre += p; vals.append((a, ta))
        tmps = [(self.fresh("u"), a, ta) for a, ta in vals]
        lets = "".join("let %s := %s in\n" % (t, a) for t, a, _ in tmps)
        for k, (t, _, ta) in zip(keys, tmps):
            ident = self.bind(k, t, ta)
            lets += "let %s := %s in\n" % (ident, t)
        body = self.stmts(rest)
        self.env = saved
        return self.wrap(pre, lets + body)
    pre, a, ta = self.expr(s.value)
    if ta != "int*int" or len(keys) != 2:
        raise Unsupported("unpacking of %s" % ta)
    i1 = self.bind(keys[0], "", "int"); i2 = self.bind(keys[1], "", "int")
    body = self.stmts(rest)
    self.env = saved
    return self.wrap(pre, "let '(%s, %s) := %s in\n%s" % (i1, i2, a, body))


Tr.tuple_assign = _tuple_assign


def _assigned_names(stmts_):
    out = []
    for st in stmts_:
        for n in ast.walk(st):
            if isinstance(n, (ast.Assign, ast.AugAssign, ast.AnnAssign)):
                for t in (n.targets if isinstance(n, ast.Assign) else [n.target]):
                    for x in ast.walk(t):
                        if isinstance(x, ast.Name) and x.id not in out: out.append(x.id)
                        if isinstance(x, ast.Attribute): raise Unsupported("attribute assignment inside a loop")
            if isinstance(n, (ast.Return, ast.Break, ast.Continue, ast.While)):
                raise Unsupported("%s inside a loop" % type(n).__name__)
    return out


def _for_loop(self, s, rest):
    """for x in <list>: body   -- the body may only update variables that exist before the loop (the loop-carried state)
    or raise; translated with PySem.py_for over that state, then the statements after the loop"""
    if s.orelse or not isinstance(s.target, ast.Name):
        raise Unsupported("loop form")
    pre, it, tit = self.expr(s.iter)
    if not tit.startswith("list:"):
        raise Unsupported("iteration over %s" % tit)
    ety = tit[len("list:"):]
    carried = [n for n in _assigned_names(s.body) if n in self.env]
    if not carried:
        raise Unsupported("loop without carried state")
    for n in carried:
        if self.env[n][1] not in ("int", "bytes", "bool"): raise Unsupported("loop state of type %s" % self.env[n][1])
    saved = dict(self.env)
    x = self.fresh(s.target.id + "_")
    self.env[s.target.id] = (x, "bytes" if ety == "hexbytes" else ety)
    ins = []
    for n in carried:
        i_ = self.fresh(n + "_"); ins.append(i_); self.env[n] = (i_, saved[n][1])
    tup = lambda names: names[0] if len(names) == 1 else "(" + ", ".join(names) + ")"
    self.tails.append(lambda: "Ok " + tup([self.env[n][0] for n in carried]))
    try:
        body = self.stmts(list(s.body))
    finally:
        self.tails.pop()
    self.env = dict(saved)
    outs = []
    for n in carried:
        o_ = self.fresh(n + "_"); outs.append(o_); self.env[n] = (o_, saved[n][1])
    after = self.stmts(rest)
    self.env = saved
    st0 = tup([saved[n][0] for n in carried])
    pat_in = ins[0] if len(ins) == 1 else "'" + tup(ins)
    pat_out = outs[0] if len(outs) == 1 else "'" + tup(outs)
    text = ("match py_for %s %s (fun %s st_ => let %s := st_ in\n%s) with Ok st_ => let %s := st_ in\n%s | _ => Raise end"
            % (it, st0, x, pat_in, body, pat_out, after))
    return self.wrap(pre, text)


Tr.for_loop = _for_loop


def _alias_field(self, node):
    """node is <alias>.<attr> for a copy of self made earlier: the key of that field"""
    if (isinstance(node, ast.Attribute) and isinstance(node.value, ast.Name) and node.value.id in getattr(self, "aliases", ())
            and "self." + node.attr in self.env and self.env["self." + node.attr][1].startswith("list:")):
        return "self." + node.attr
    return None


def _setter(self, key, attr, value_expr, elem_ident=None):
    ety = self.env[key][1][len("list:"):]
    if (ety, attr) not in SETTERS: raise Unsupported("assignment to %s.%s" % (ety, attr))
    fn, vty = SETTERS[(ety, attr)]
    p, a, ta = self.expr(value_expr)
    if p: raise Unsupported("partial operation in an element update")
    if ta != vty: raise Unsupported("element update of type %s" % ta)
    return "(%s %s)" % (fn, a)


def _mutation(self, s):
    """the imperative updates of a copied object that are understood, each as a functional update of one list field:
    returns (field key, prebindings, new value text) or None"""
    # A.  for x in T.field: x.attr = E
    if (isinstance(s, ast.For) and not s.orelse and isinstance(s.target, ast.Name) and len(s.body) == 1 and isinstance(s.body[0], ast.Assign)
            and len(s.body[0].targets) == 1 and isinstance(s.body[0].targets[0], ast.Attribute)
            and isinstance(s.body[0].targets[0].value, ast.Name) and s.body[0].targets[0].value.id == s.target.id):
        key = self.alias_field(s.iter)
        if key:
            if any(isinstance(n, ast.Name) and n.id == s.target.id for n in ast.walk(s.body[0].value)): raise Unsupported("element update depending on the element")
            return key, [], "(map %s %s)" % (self.setter(key, s.body[0].targets[0].attr, s.body[0].value), self.env[key][0])
    # C.  for i in range(len(T.field)): if i != K: T.field[i].attr = E
    if (isinstance(s, ast.For) and not s.orelse and isinstance(s.target, ast.Name) and isinstance(s.iter, ast.Call) and isinstance(s.iter.func, ast.Name)
            and s.iter.func.id == "range" and len(s.iter.args) == 1 and isinstance(s.iter.args[0], ast.Call)
            and isinstance(s.iter.args[0].func, ast.Name) and s.iter.args[0].func.id == "len" and len(s.iter.args[0].args) == 1
            and len(s.body) == 1 and isinstance(s.body[0], ast.If) and not s.body[0].orelse and len(s.body[0].body) == 1):
        key = self.alias_field(s.iter.args[0].args[0]); iff = s.body[0]; asg = iff.body[0]
        if (key and isinstance(iff.test, ast.Compare) and len(iff.test.ops) == 1 and isinstance(iff.test.ops[0], ast.NotEq)
                and isinstance(iff.test.left, ast.Name) and iff.test.left.id == s.target.id and isinstance(asg, ast.Assign)
                and len(asg.targets) == 1 and isinstance(asg.targets[0], ast.Attribute) and isinstance(asg.targets[0].value, ast.Subscript)
                and self.alias_field(asg.targets[0].value.value) == key and isinstance(asg.targets[0].value.slice, ast.Name)
                and asg.targets[0].value.slice.id == s.target.id):
            p, k, tk = self.expr(iff.test.comparators[0])
            if tk != "int" or p: raise Unsupported("index compared in a loop")
            return key, [], "(py_update_others %s %s %s)" % (self.env[key][0], k, self.setter(key, asg.targets[0].attr, asg.value))
    # D.  for i in range(K): T.field.append(E)
    if (isinstance(s, ast.For) and not s.orelse and isinstance(s.iter, ast.Call) and isinstance(s.iter.func, ast.Name) and s.iter.func.id == "range"
            and len(s.iter.args) == 1 and len(s.body) == 1 and isinstance(s.body[0], ast.Expr) and isinstance(s.body[0].value, ast.Call)
            and isinstance(s.body[0].value.func, ast.Attribute) and s.body[0].value.func.attr == "append" and len(s.body[0].value.args) == 1):
        key = self.alias_field(s.body[0].value.func.value)
        if key:
            p, k, tk = self.expr(s.iter.args[0]); q, a, ta = self.expr(s.body[0].value.args[0])
            if tk != "int" or p or q or "list:" + ta != self.env[key][1]: raise Unsupported("append loop")
            return key, [], "(%s ++ repeat %s (Z.to_nat %s))" % (self.env[key][0], a, k)
    # B.  T.field[I].attr = E
    if (isinstance(s, ast.Assign) and len(s.targets) == 1 and isinstance(s.targets[0], ast.Attribute) and isinstance(s.targets[0].value, ast.Subscript)):
        key = self.alias_field(s.targets[0].value.value)
        if key:
            p, i_, ti = self.expr(s.targets[0].value.slice)
            if ti != "int" or p: raise Unsupported("index of an element update")
            t = self.fresh()
            return key, [("opt", t, "py_update_nth %s %s %s" % (self.env[key][0], i_, self.setter(key, s.targets[0].attr, s.value)))], t
    # E.  T.field.append(x)
    if (isinstance(s, ast.Expr) and isinstance(s.value, ast.Call) and isinstance(s.value.func, ast.Attribute) and s.value.func.attr == "append"
            and len(s.value.args) == 1):
        key = self.alias_field(s.value.func.value)
        if key:
            p, a, ta = self.expr(s.value.args[0])
            if "list:" + ta != self.env[key][1]: raise Unsupported("append of %s" % ta)
            return key, p, "(%s ++ [%s])" % (self.env[key][0], a)
    # F.  T.field = <list expression>
    if isinstance(s, ast.Assign) and len(s.targets) == 1:
        key = self.alias_field(s.targets[0])
        if key:
            self.want_list = self.env[key][1]
            try:
                p, a, ta = self.expr(s.value)
            finally:
                self.want_list = None
            if ta != self.env[key][1]: raise Unsupported("assignment of %s to a %s field" % (ta, self.env[key][1]))
            return key, p, a
    return None


Tr.alias_field = _alias_field
Tr.setter = _setter
Tr.mutation = _mutation


def copy_load(t):
    import copy
    n = copy.deepcopy(t)
    for x in ast.walk(n):
        if hasattr(x, "ctx"):
            x.ctx = ast.Load()
    return n


def translate(target, repo, consts, known):
    src = open(os.path.join(repo, target["file"])).read()
    fn = find_func(ast.parse(src), target["qual"])
    args = fn.args
    if args.vararg or args.kwarg or args.kwonlyargs or args.posonlyargs:
        raise Unsupported("argument kinds")
    names = [a.arg for a in args.args]
    is_method = "." in target["qual"]
    if is_method:
        if not names or names[0] != "self": raise Unsupported("method without self")
        names = names[1:]
    if names != [p for p, _ in target["params"]]:
        raise Unsupported("parameters are %s" % names)
    # defaults are part of the interface: record them in the output for the tie theorems
    defaults = [ast.unparse(d) for d in args.defaults]
    tr = Tr(target, consts, known)
    tr.methods = dict(METHODS)
    tr.translated = set(TRANSLATED)
    binders = ["(sha256 : bytes -> bytes)"] if target.get("sha") else []
    for p, ty in target["params"]:
        tr.env[p] = (p + "_", "bytes" if ty == "hexbytes" else ty)
        binders.append("(%s_ : %s)" % (p, COQTY[ty]))
    for a, ty in target.get("selfattrs", []):
        tr.env["self." + a] = ("self_" + a, "bytes" if ty == "hexbytes" else ty)
        binders.append("(self_%s : %s)" % (a, COQTY[ty]))
    body = tr.stmts(list(fn.body))
    rty = COQTY[target["ret"]] if target["ret"] != "attrs" else "(" + " * ".join("option " + COQTY[ty] for _, ty in target["initattrs"]) + ")"
    return "Definition %s %s : res %s :=\n%s." % (target["coq"], " ".join(binders), rty, body), defaults


def main():
    repo = sys.argv[1] if len(sys.argv) > 1 else os.environ.get("VERIF_REPO", "/repo")
    consts = tables()
    out = ["(* GENERATED by harness/gen_src.py from the source files of the tree under test -- do not edit. *)",
           "From Coq Require Import String ZArith List Bool.",
           "From BU Require Import Lib.Bytes Lib.PySem Gen.Tables Model.Varint Model.Script Model.Seq Model.Tx Model.Block Model.Sighash Model.Msg Model.Taproot Model.Ripemd160 Model.Address.",
           "Import ListNotations.", "Open Scope list_scope.", "Open Scope Z_scope.", "",
           ""]
    known = {}
    untranslated = []
    notes = []
    defaults_out = []
    for t in TARGETS:
        try:
            if os.environ.get("GEN_SRC_FORCE_FALLBACK"):
                raise Unsupported("forced (self-test of the fallback definitions)")
            text, defaults = translate(t, repo, consts, known)
            TRANSLATED.add(t["coq"])
            out.append("(* %s:%s *)" % (t["file"], t["qual"]))
            out.append(text)
            defaults_out.append((t["coq"], defaults))
        except (Unsupported, SyntaxError, OSError) as e:
            untranslated.append(t["coq"])
            notes.append("%s: %s" % (t["coq"], e))
            out.append("(* %s:%s NOT TRANSLATED (%s): falls back to the model *)" % (t["file"], t["qual"], str(e).replace("*)", "* )")))
            out.append("Definition %s := %s." % (t["coq"], t["fallback"]))
        out.append("")
        if t.get("callable_method"):
            METHODS[t["qual"].split(".")[-1]] = (t["coq"], t["selfattrs"], t["ret"], t.get("sha", False), [ty for _, ty in t["params"]],
                                                 t["qual"].split(".")[0])
        if t.get("register", True):
            known[t["qual"].split(".")[-1]] = (t["coq"], [ty for _, ty in t["params"]] + [ty for _, ty in t.get("selfattrs", [])], t["ret"], t.get("sha", False))
        if t.get("selfattrs") and t.get("register", True):
            known.pop(t["qual"].split(".")[-1])       # methods reading self attributes are not callable from translated code
    out.append("Definition untranslated : list string := [%s]." % "; ".join('"%s"%%string' % u for u in untranslated))
    # default argument values, as source text (an interface fact the tie theorems pin down)
    out.append("Definition arg_defaults : list (string * list string) := [%s]." % "; ".join(
        '("%s"%%string, [%s])' % (n, "; ".join('"%s"%%string' % d.replace('"', "'") for d in ds)) for n, ds in defaults_out))
    text = "\n".join(out) + "\n"
    old = open(OUT).read() if os.path.exists(OUT) else None
    if old != text:
        open(OUT, "w").write(text)
        print("GEN_SRC_CHANGED")
    for n in notes:
        print("UNTRANSLATED " + n)
    print("GEN_SRC_OK translated=%d untranslated=%d" % (len(TARGETS) - len(untranslated), len(untranslated)))


if __name__ == "__main__":
    main()
