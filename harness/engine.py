"""Common engine of all checks (DESIGN.md section 2): regenerate tables, build the proofs,
build the extracted model, run the correspondence, decide the verdict, write evidence.

A property module (harness/props/cNN.py) provides:
  PID, THEOREMS (names expected in Properties/CNN.v), RULE (text), TECHNIQUE
  cases(tier, rng)  -> iterable of descriptors (JSON-able dicts; key "k" = kind, "dom" = in-domain flag,
                       optional "reject" = the property itself demands rejection)
  impl(d)           -> str   (runs the real library; every exception is "ERR")
  model(d)          -> sexp string or list of sexp strings for the extracted model (None: not modelled)
  spec(d)           -> sexp string / list / None for the extracted specification
  oracle(d)         -> str or None: independent Python oracle (hashlib, libsecp256k1, ...)
"""
import os, sys, json, time, random, subprocess, hashlib, re, fcntl, importlib, traceback, multiprocessing

ROOT = os.path.dirname(os.path.dirname(os.path.abspath(__file__)))
COQ = os.path.join(ROOT, "coq")
OCAML = os.path.join(ROOT, "ocaml")
REPO = os.environ.get("VERIF_REPO", "/repo")
LOCK = os.path.join(ROOT, ".build.lock")

AXIOM_WHITELIST = [
    # standard-library axioms that may appear (DESIGN.md section 8); everything else fails the check
    "ClassicalDedekindReals.sig_forall_dec", "ClassicalDedekindReals.sig_not_dec",
    "FunctionalExtensionality.functional_extensionality_dep", "Classical_Prop.classic",
]


def sx(*items):
    return "(" + " ".join(atom(i) for i in items) + ")"


def atom(v):
    if isinstance(v, bool):
        return "1" if v else "0"
    if isinstance(v, int):
        return str(v)
    if isinstance(v, (bytes, bytearray)):
        return "x" + bytes(v).hex()
    if isinstance(v, str):
        assert v and not any(c in v for c in " ()\n\t"), repr(v)
        return v
    if isinstance(v, (list, tuple)):
        return "(" + " ".join(atom(i) for i in v) + ")"
    if isinstance(v, Raw):
        return v.s
    raise TypeError(type(v))


class Raw:
    def __init__(self, s):
        self.s = s


# ----------------------------------------------------------------------------------------
# build


def run(cmd, cwd=None, timeout=3600, env=None):
    p = subprocess.run(cmd, cwd=cwd, stdout=subprocess.PIPE, stderr=subprocess.STDOUT, timeout=timeout,
                       shell=isinstance(cmd, str), env=env, text=True, errors="replace")
    return p.returncode, p.stdout


class BuildResult:
    def __init__(self):
        self.tables = None  # CHANGED / UNCHANGED / FAILED
        self.make_ok = False
        self.make_log = ""
        self.failed_files = []
        self.driver_ok = False
        self.driver_log = ""
        self.assumptions = {}
        self.prop_log = ""
        self.prop_ok = False
        self.cone = []
        self.obligations = 0
        self.discharged = 0
        self.checker_cmds = []


def coq_files():
    out = []
    for line in open(os.path.join(COQ, "_CoqProject")):
        line = line.strip()
        if line.endswith(".v"):
            out.append(line)
    return out


def cone_of(target):
    """transitive dependencies (as .v paths relative to coq/) of a .v file, via coqdep"""
    rc, out = run(["coqdep", "-Q", ".", "BU"] + coq_files(), cwd=COQ)
    deps = {}
    for line in out.splitlines():
        if ":" not in line:
            continue
        lhs, rhs = line.split(":", 1)
        tg = [t for t in lhs.split() if t.endswith(".vo")]
        if not tg:
            continue
        src = tg[0][:-1]
        deps[src] = [d[:-1] for d in rhs.split() if d.endswith(".vo") and not d.startswith("/")]
    seen, todo = [], [target]
    while todo:
        f = todo.pop()
        if f in seen:
            continue
        seen.append(f)
        todo.extend(deps.get(f, []))
    return sorted(seen)


STMT = re.compile(r"^\s*(Theorem|Lemma|Corollary|Fact|Example|Proposition|Remark)\s+([A-Za-z0-9_']+)", re.M)
FORBIDDEN = re.compile(r"\b(Admitted|admit|Axiom|Axioms|Parameter|Parameters|Conjecture|Abort All|"
                       r"Unset Guard Checking|Unset Positivity Checking|Unset Universe Checking|bypass_check|"
                       r"Admit Obligations|type-in-type|impredicative-set)\b")


def strip_comments(text):
    out, depth, i = [], 0, 0
    while i < len(text):
        if text.startswith("(*", i):
            depth += 1; i += 2
        elif text.startswith("*)", i) and depth > 0:
            depth -= 1; i += 2
        else:
            if depth == 0:
                out.append(text[i])
            i += 1
    return "".join(out)


def grep_gate(files):
    bad = []
    for f in files:
        txt = strip_comments(open(os.path.join(COQ, f)).read())
        for m in FORBIDDEN.finditer(txt):
            bad.append("%s: %s" % (f, m.group(0)))
        # Variable/Hypothesis outside a section
        depth = 0
        for line in txt.splitlines():
            s = line.strip()
            if re.match(r"^Section\b", s):
                depth += 1
            elif re.match(r"^End\b", s) and depth > 0:
                depth -= 1
            elif depth == 0 and re.match(r"^(Variable|Variables|Hypothesis|Hypotheses|Context)\b", s):
                bad.append("%s: top-level %s" % (f, s.split()[0]))
    return bad


def build(pid, ties=(), log=print):
    """steps 1-2 of the flow, under the build lock"""
    br = BuildResult()
    os.makedirs(os.path.join(ROOT, "evidence"), exist_ok=True)
    with open(LOCK, "w") as lk:
        fcntl.flock(lk, fcntl.LOCK_EX)
        env = dict(os.environ, VERIF_REPO=REPO, PYTHONHASHSEED="0")
        rc, out = run([sys.executable, os.path.join(ROOT, "harness", "gen_tables.py")], env=env)
        br.tables = "FAILED" if rc != 0 else ("CHANGED" if "GEN_TABLES_CHANGED" in out else "UNCHANGED")
        br.tables_log = out.strip()
        # the source translator: re-reads the translated functions from the tree under test (coq/Gen/Src.v)
        rc, out = run([sys.executable, os.path.join(ROOT, "harness", "gen_src.py"), REPO], env=env)
        br.src_ok = (rc == 0 and "GEN_SRC_OK" in out)
        br.src_log = out.strip()
        br.src_untranslated = [l.split(" ", 1)[1] for l in out.splitlines() if l.startswith("UNTRANSLATED ")]
        untranslated_names = [u.split(":")[0] for u in br.src_untranslated]
        m = re.search(r"GEN_SRC_OK translated=(\d+) untranslated=(\d+)", out)
        br.src_counts = (int(m.group(1)), int(m.group(2))) if m else (0, 0)
        if not os.path.exists(os.path.join(COQ, "Makefile")) or \
                os.path.getmtime(os.path.join(COQ, "Makefile")) < os.path.getmtime(os.path.join(COQ, "_CoqProject")):
            run("coq_makefile -f _CoqProject -o Makefile", cwd=COQ)
        cmd = "timeout 3000 make -k -j16"
        rc, out = run(cmd, cwd=COQ, timeout=3100)
        br.make_ok = (rc == 0)
        br.make_log = out[-6000:]
        br.checker_cmds.append("cd coq && " + cmd)
        br.failed_files = sorted(set(re.findall(r'File "\./([^"]+)", line', out)))
        prop = "Properties/%s.v" % pid
        br.cone = cone_of(prop) if os.path.exists(os.path.join(COQ, prop)) else []
        # source-tie files of this property (Properties/Tie_<f>.v): part of the cone unless the translator could not
        # read <f> (or a function its proof builds on) from the current source -- then that tie is unavailable on this
        # run, the function is tied by the correspondence only, and the check explores more instead
        br.ties = {}
        tie_files = []
        for t in ties:
            tf = "Properties/Tie_%s.v" % t
            if not os.path.exists(os.path.join(COQ, tf)):
                br.ties[t] = "missing"
                continue
            c = cone_of(tf)
            import gen_src
            lost = [u for u in untranslated_names if gen_src.tie_file_of(u) in c]
            if lost:
                br.ties[t] = "unavailable (translator could not read %s)" % ", ".join(lost)
                continue
            tie_files.append(tf)
            br.cone = br.cone + [f for f in c if f not in br.cone]
        gate = grep_gate(br.cone)
        br.gate = gate
        names = []
        for f in br.cone:
            if f.startswith("Gen/"):
                continue
            names += ["%s:%s" % (f, m.group(2)) for m in STMT.finditer(strip_comments(open(os.path.join(COQ, f)).read()))]
        br.obligation_names = names
        br.obligations = len(names)
        done = 0
        for n in names:
            f = n.split(":")[0]
            vo = os.path.join(COQ, f[:-2] + ".vo")
            if os.path.exists(vo) and os.path.getmtime(vo) >= os.path.getmtime(os.path.join(COQ, f)) and f not in br.failed_files:
                done += 1
        br.discharged = done
        # Print Assumptions of every property theorem, captured from a generated file
        pvo = os.path.join(COQ, prop[:-2] + ".vo")
        if os.path.exists(pvo) and prop not in br.failed_files and \
                os.path.getmtime(pvo) >= os.path.getmtime(os.path.join(COQ, prop)):
            ptxt = strip_comments(open(os.path.join(COQ, prop)).read())
            ths = [m.group(2) for m in STMT.finditer(ptxt) if m.group(1) == "Theorem"]
            br.theorems_in_file = list(ths)
            af = os.path.join(COQ, "Properties", "Assum_%s.v" % pid)
            with open(af, "w") as f:
                f.write("From BU Require Properties.%s.\n" % pid)
                for th in ths:
                    f.write("Check BU.Properties.%s.%s.\nPrint Assumptions BU.Properties.%s.%s.\n" % (pid, th, pid, th))
                for tf in tie_files:
                    tmod = tf[len("Properties/"):-2]
                    tvo = os.path.join(COQ, tf[:-2] + ".vo")
                    tname = tmod[len("Tie_"):]
                    if tf in br.failed_files or not os.path.exists(tvo) or os.path.getmtime(tvo) < os.path.getmtime(os.path.join(COQ, tf)):
                        br.ties[tname] = "BROKEN"
                        continue
                    tths = [m.group(2) for m in STMT.finditer(strip_comments(open(os.path.join(COQ, tf)).read())) if m.group(1) == "Theorem"]
                    f.write("From BU Require Properties.%s.\n" % tmod)
                    for th in tths:
                        f.write("Check BU.Properties.%s.%s.\nPrint Assumptions BU.Properties.%s.%s.\n" % (tmod, th, tmod, th))
                    ths += tths
                    br.ties[tname] = tths
            cmd2 = "timeout 900 coqc -Q . BU Properties/Assum_%s.v" % pid
            rc2, out2 = run(cmd2, cwd=COQ, timeout=1000)
            br.prop_ok = (rc2 == 0)
            br.prop_log = out2
            br.checker_cmds.append("cd coq && " + cmd2)
            br.assumptions = parse_assumptions(out2, ths)
        else:
            br.prop_log = "Properties/%s.vo not built" % pid
        # extraction + driver
        stamp = os.path.join(OCAML, ".stamp")
        need = not os.path.exists(os.path.join(OCAML, "driver")) or not os.path.exists(stamp)
        if not need:
            st = os.path.getmtime(stamp)
            for d in ("Lib", "Gen", "Model", "Spec", "Crypto", "Extract"):
                dd = os.path.join(COQ, d)
                if os.path.isdir(dd):
                    for f in os.listdir(dd):
                        if f.endswith(".v") and os.path.getmtime(os.path.join(dd, f)) > st:
                            need = True
            for f in ("driver.ml", "build.sh"):
                if os.path.getmtime(os.path.join(OCAML, f)) > st:
                    need = True
        if need:
            rc3, out3 = run([os.path.join(OCAML, "build.sh")], timeout=1300)
            br.driver_log = out3[-3000:]
            if rc3 == 0:
                open(stamp, "w").write(str(time.time()))
            elif os.path.exists(stamp):
                os.remove(stamp)
        br.driver_ok = os.path.exists(os.path.join(OCAML, "driver")) and os.path.exists(stamp)
    return br


def parse_assumptions(out, ths):
    """Output of the generated Assum file: for each theorem a `Check` (first line ends with the bare
    name) followed by the Print Assumptions text."""
    res = {}
    cur = None
    for line in out.splitlines():
        st = line.strip()
        m = re.match(r"^(?:[A-Za-z0-9_]+\.)*([A-Za-z0-9_']+)$", st)
        if m and m.group(1) in ths and not line.startswith(" "):
            cur = m.group(1); res[cur] = None
            continue
        if cur is None:
            continue
        if "Closed under the global context" in line:
            res[cur] = []
        elif st.startswith("Axioms:") or st.startswith("Section Variables:"):
            if res[cur] is None:
                res[cur] = []
        elif res.get(cur) is not None:
            m2 = re.match(r"^([A-Za-z0-9_.']+)\s*(:|$)", line)
            if m2:
                res[cur].append(m2.group(1))
    return res


# ----------------------------------------------------------------------------------------
# model execution


def run_driver(queries, shards=8):
    """queries: list of strings (one s-expression each) -> list of result strings"""
    if not queries:
        return []
    n = len(queries)
    shards = max(1, min(shards, n // 200 + 1))
    chunks = [queries[i::shards] for i in range(shards)]
    procs = []
    for c in chunks:
        p = subprocess.Popen("ulimit -s unlimited 2>/dev/null; exec ./driver", cwd=OCAML, shell=True,
                             stdin=subprocess.PIPE, stdout=subprocess.PIPE, text=True)
        procs.append(p)
    import threading
    outs = [None] * shards

    def feed(i):
        o, _ = procs[i].communicate("\n".join(chunks[i]) + "\n")
        outs[i] = o.split("\n")
    ths = [threading.Thread(target=feed, args=(i,)) for i in range(shards)]
    for t in ths: t.start()
    for t in ths: t.join()
    res = [None] * n
    for i in range(shards):
        lines = outs[i]
        for j in range(len(chunks[i])):
            res[i + j * shards] = lines[j] if j < len(lines) else "DRIVER_ERROR no output"
    return res


# ----------------------------------------------------------------------------------------
# implementation execution (in worker processes; the library is imported from REPO)

_mod = None


def _init_worker(modname, repo):
    global _mod
    sys.path.insert(0, repo)
    os.environ["PYTHONHASHSEED"] = "0"
    _mod = importlib.import_module(modname)
    import bitcoinutils
    assert os.path.realpath(bitcoinutils.__file__).startswith(os.path.realpath(repo)), bitcoinutils.__file__


def _run_impl(d):
    try:
        r = _mod.impl(d)
    except BaseException as e:  # the library raised: rejection
        if isinstance(e, (KeyboardInterrupt, SystemExit, MemoryError)):
            raise
        r = "ERR"
    o = None
    if hasattr(_mod, "oracle"):
        try:
            o = _mod.oracle(d)
        except Exception as e:
            o = "ORACLE_ERROR %r" % (e,)
    return r, o


def _measure_child(a):
    modname, sample, repo, limit, budget = a
    _init_worker(modname, repo)
    import anchors
    return anchors.measure(_mod, sample, repo, _mod.impl, limit=limit, budget_s=budget)


def anchored_coverage(modname, descs, tier):
    """executed/executable lines of the anchored functions over a sample of this run's cases (bookkeeping only)"""
    try:
        limit, budget = (600, 15.0) if tier == "quick" else (4000, 120.0)
        if os.environ.get("VERIF_ANCH_ALL"):
            limit, budget = len(descs) + 1, 3600.0
        r = random.Random(7)
        if len(descs) <= limit:
            sample = list(descs)
        else:  # stratified by case kind so that rare kinds are not sampled away
            groups = {}
            for d in descs:
                groups.setdefault(d.get("k", "?"), []).append(d)
            share = max(1, limit // len(groups))
            sample = []
            for g in groups.values():
                sample += g if len(g) <= share else r.sample(g, share)
        r.shuffle(sample)
        ctx = multiprocessing.get_context("fork")
        with ctx.Pool(1) as pool:
            return pool.apply(_measure_child, ((modname, sample, REPO, limit, budget),))
    except BaseException as e:
        if isinstance(e, (KeyboardInterrupt, SystemExit)):
            raise
        return {"error": "%s: %s" % (type(e).__name__, str(e)[:200])}


def run_impl(modname, descs, procs=14):
    if len(descs) < 50 or procs <= 1:
        _init_worker(modname, REPO)
        return [_run_impl(d) for d in descs]
    ctx = multiprocessing.get_context("fork")
    with ctx.Pool(procs, initializer=_init_worker, initargs=(modname, REPO)) as pool:
        return pool.map(_run_impl, descs, chunksize=max(1, len(descs) // (procs * 8)))


# ----------------------------------------------------------------------------------------
# verdict


def load_known():
    p = os.path.join(ROOT, "known_findings.json")
    if not os.path.exists(p):
        return []
    return json.load(open(p)).get("open", [])


def check(modname, argv):
    import argparse
    ap = argparse.ArgumentParser()
    ap.add_argument("--tier", default=os.environ.get("VERIF_TIER", "quick"))
    ap.add_argument("--replay", default=None)
    args = ap.parse_args(argv)
    tier = args.tier if args.tier in ("quick", "thorough") else "quick"
    seed = int(os.environ.get("VERIF_SEED", "20260930"))
    t0 = time.time()
    sys.path.insert(0, os.path.join(ROOT, "harness"))
    sys.path.insert(0, REPO)          # the library is always imported from the tree under test
    mod = importlib.import_module(modname)
    pid = mod.PID
    os.chdir(ROOT)
    os.makedirs("replays", exist_ok=True)
    os.makedirs("evidence", exist_ok=True)

    br = build(pid, ties=getattr(mod, "TIES", ()))
    problems = []  # broken obligations (strings)
    if br.tables == "FAILED":
        problems.append("table generator failed closed: " + br.tables_log[-300:])
    if not br.src_ok:
        problems.append("source translator crashed: " + br.src_log[-300:])
    if br.gate:
        problems.append("forbidden construct in development: " + "; ".join(br.gate[:5]))
    cone_failed = [f for f in br.failed_files if f in br.cone]
    if cone_failed:
        problems.append("proof no longer checks: " + ", ".join(cone_failed))
    elif not br.prop_ok:
        problems.append("property file Properties/%s.v does not check: %s" % (pid, br.prop_log[-400:]))
    axioms = {}
    for th in mod.THEOREMS:
        a = br.assumptions.get(th)
        if a is None:
            if not cone_failed and br.prop_ok:
                problems.append("theorem %s missing from Properties/%s.v output" % (th, pid))
            continue
        axioms[th] = a
        extra = [x for x in a if not any(x.endswith(w) or x == w for w in AXIOM_WHITELIST) and
                 x not in getattr(mod, "SECTION_VARS", [])]
        if extra:
            problems.append("theorem %s depends on non-whitelisted assumptions: %s" % (th, extra))

    for t, st in br.ties.items():
        if st == "BROKEN" or st == "missing":
            if not any("Tie_%s.v" % t in p_ for p_ in problems):
                problems.append("source tie Properties/Tie_%s.v does not check" % t)
        elif isinstance(st, list):
            for th in st:
                a = br.assumptions.get(th)
                if a is None:
                    problems.append("tie theorem %s missing from the Print Assumptions output" % th)
                    continue
                axioms[th] = a
                if a:
                    problems.append("tie theorem %s depends on assumptions: %s" % (th, a))

    # thorough tier: independent re-check of the compiled cone with coqchk, and its axiom list
    coqchk = None
    if tier == "thorough" and not args.replay and not problems:
        t1 = time.time()
        try:
            rc, out = run("timeout 2400 coqchk -silent -o -Q . BU BU.Properties.%s" % pid, cwd=COQ, timeout=2500)
        except subprocess.TimeoutExpired:
            rc, out = 124, ""
        ax = []
        if "* Axioms:" in out:
            for line in out.split("* Axioms:")[1].split("* Constants")[0].splitlines():
                if line.strip() and line.strip() != "<none>":
                    ax.append(line.strip())
        coqchk = {"exit": rc, "seconds": round(time.time() - t1, 1), "axioms": ax,
                  "flags": [l.strip() for l in out.splitlines() if "relying on" in l or "assumed" in l]}
        if rc == 124:
            coqchk["note"] = "coqchk did not finish within its time limit (kernel-computed sweeps are slow in the checker); not a verdict"
        elif rc != 0:
            problems.append("coqchk rejects the compiled development: " + out[-400:])
        else:
            bad = [a for a in ax if not any(a.endswith(w) for w in AXIOM_WHITELIST)]
            if bad:
                problems.append("coqchk reports non-whitelisted axioms: %s" % bad)
    # correspondence
    rng = random.Random(seed)
    if args.replay:
        rp = json.load(open(args.replay))
        descs = [c["case"] for c in rp.get("cases", [])]
    else:
        descs = []
        corpus = os.path.join(ROOT, "corpus", pid + ".jsonl")
        if os.path.exists(corpus):
            for line in open(corpus):
                if line.strip():
                    descs.append(json.loads(line))
        ncorpus = len(descs)
        search = bool(problems)
        descs += list(mod.cases("thorough" if search and tier == "quick" else tier, rng))
        # the anchored source differs from the tree the model was written against: explore more on this run
        import fingerprints
        src_changed = fingerprints.changed(pid, REPO)
        # a function the translator could not read falls back to the model in Gen/Src.v (its tie theorem is then
        # vacuous): that function is tied by the correspondence only, so explore more on this run
        tie_lost = [t for t, st in br.ties.items() if isinstance(st, str) and st.startswith("unavailable")]
        if (src_changed or tie_lost) and not search and tier == "quick":
            for extra in (1, 2):
                descs += list(mod.cases(tier, random.Random(seed * 1000003 + extra)))
    corpus_n = 0 if args.replay else ncorpus
    if args.replay:
        src_changed = []
    impl_out = run_impl(modname, descs)
    anch = None if args.replay else anchored_coverage(modname, descs, tier)
    mq, sq, idx = [], [], []
    for i, d in enumerate(descs):
        m = mod.model(d)
        if m is None and hasattr(mod, "model_after"):
            # a model query that depends on what the implementation did (e.g. recorded outputs of an external signer)
            m = mod.model_after(d, impl_out[i][0])
        s = mod.spec(d) if hasattr(mod, "spec") else None
        for kind, q in (("m", m), ("s", s)):
            if q is None:
                continue
            qs = q if isinstance(q, list) else [q]
            for x in qs:
                (mq if kind == "m" else sq).append(x)
            idx.append((i, kind, len(qs)))
    mres = run_driver(mq) if br.driver_ok else None
    sres = run_driver(sq) if br.driver_ok else None
    if not br.driver_ok:
        problems.append("extracted model could not be built: " + br.driver_log[-400:])
    model_out = [None] * len(descs)
    spec_out = [None] * len(descs)
    if br.driver_ok:
        mi = si = 0
        for (i, kind, k) in idx:
            if kind == "m":
                model_out[i] = "|".join(mres[mi:mi + k]); mi += k
            else:
                spec_out[i] = "|".join(sres[si:si + k]); si += k
    if hasattr(mod, "post_impl"):
        impl_out = [(mod.post_impl(d, io), oo) for d, (io, oo) in zip(descs, impl_out)]
    if hasattr(mod, "post"):
        model_out = [None if o is None else mod.post(d, o) for d, o in zip(descs, model_out)]
        spec_out = [None if o is None else mod.post(d, o) for d, o in zip(descs, spec_out)]
    viol, infos, harness_errors = [], [], []
    nontrivial = set()
    kinds = {}
    for i, d in enumerate(descs):
        io, oo = impl_out[i]
        mo, so = model_out[i], spec_out[i]
        key = json.dumps(d, sort_keys=True)
        kinds[d.get("k", "?")] = kinds.get(d.get("k", "?"), 0) + 1
        if (mo or so or oo or "") != "ERR" and io != "ERR":
            nontrivial.add(hashlib.sha1(key.encode()).hexdigest())
        for lab, other in (("model", mo), ("spec", so), ("oracle", oo)):
            if other is None:
                continue
            if other.startswith("DRIVER_ERROR") or other.startswith("ORACLE_ERROR"):
                harness_errors.append({"case": d, "impl": io, lab: other})
                continue
            if other != io:
                rec = {"case": d, "impl": io[:4000], lab: other[:4000], "against": lab}
                if d.get("dom", True) or (d.get("reject") and io != "ERR"):
                    viol.append(rec)
                else:
                    infos.append(rec)
        if d.get("reject") and io != "ERR" and not any(v["case"] is d for v in viol):
            viol.append({"case": d, "impl": io[:4000], "against": "property demands rejection"})

    known = [k for k in load_known() if k.get("property") == pid]
    new_viol, known_hit = [], {}
    kf = getattr(mod, "matches_known", None)
    for v in viol:
        hit = None
        for k in known:
            if kf and kf(k, v):
                hit = k; break
        if hit:
            known_hit[hit["id"]] = hit
        else:
            new_viol.append(v)

    wall = time.time() - t0
    ev = {
        "property_id": pid, "tier": tier, "seed": seed, "level": "proof",
        "coverage": {
            "obligations": br.obligations, "discharged": br.discharged,
            "checker_cmd": " && ".join("(%s)" % c for c in br.checker_cmds),
            "trusted_base": trusted_base(mod, axioms),
            "theorems": {th: ("Closed under the global context" if a == [] else a) for th, a in axioms.items()},
            "cone_files": br.cone,
            "tables": br.tables,
            "evaluations": len(descs),
            "distinct_nontrivial": len(nontrivial),
            "rule": mod.RULE,
            "samples": samples(descs, impl_out, model_out, spec_out, rng),
            "input_distribution": kinds,
            "corpus_replayed": corpus_n,
            "coqchk": coqchk,
            "anchored_code_executed": anch,
            "anchored_files_changed_since_baseline": src_changed,
            "source_tie": ({"functions": {t: (("proved: " + ", ".join(st)) if isinstance(st, list) else st) for t, st in br.ties.items()},
                            "translator_notes": br.src_untranslated,
                            "note": "functions translated from the current source by harness/gen_src.py on this run (coq/Gen/Src.v) and proved equal to the model (coq/Proofs/Tie_*.v, statements in coq/Properties/Tie_*.v)"}
                           if br.ties else None),
            "model_vs_impl_disagreements_in_domain": len(viol),
            "out_of_domain_differences_logged": len(infos),
            "harness_errors": len(harness_errors),
            "broken_obligations": problems,
        },
        "assumptions": getattr(mod, "ASSUMPTIONS", []),
        "wall_s": round(wall, 2),
        "violations": len(new_viol) + (1 if problems and not new_viol else 0),
    }
    with open(os.path.join("evidence", pid + ".json"), "w") as f:
        json.dump(ev, f, indent=1, default=str)

    for k in known_hit.values():
        print("KNOWN-FINDING: property=%s %s" % (pid, k["what"]))
    if harness_errors and not new_viol and not problems:
        print("HARNESS-ERROR: %d cases could not be evaluated by the model/oracle, first: %s" % (
            len(harness_errors), json.dumps(harness_errors[0])[:600]))
        return 2
    if new_viol:
        path = os.path.join("replays", "%s-%d-%d.json" % (pid, seed, int(t0)))
        json.dump({"property": pid, "seed": seed, "tier": tier, "broken_obligations": problems,
                   "replay_cmd": "./check %s --replay %s" % (pid, path),
                   "cases": new_viol[:20], "total": len(new_viol)}, open(path, "w"), indent=1, default=str)
        print("VIOLATION property=%s replay=%s" % (pid, path))
        return 1
    if problems:
        path = os.path.join("replays", "%s-%d-%d-obligation.json" % (pid, seed, int(t0)))
        json.dump({"property": pid, "seed": seed, "tier": tier, "broken_obligations": problems,
                   "make_log_tail": br.make_log[-3000:], "cases": [],
                   "note": "no failing input found among %d cases" % len(descs)}, open(path, "w"), indent=1)
        print("VIOLATION property=%s replay=%s no-failing-input-found" % (pid, path))
        return 1
    print("OK property=%s tier=%s cases=%d nontrivial=%d obligations=%d/%d wall=%.1fs" % (
        pid, tier, len(descs), len(nontrivial), br.discharged, br.obligations, wall))
    return 0


def samples(descs, impl_out, model_out, spec_out, rng, k=6):
    if not descs:
        return []
    pick = sorted(set([0, len(descs) - 1] + [rng.randrange(len(descs)) for _ in range(k)]))
    out = []
    for i in pick:
        d = json.loads(json.dumps(descs[i], default=str))
        s = json.dumps(d)
        if len(s) > 600:
            d = {"k": d.get("k"), "truncated": s[:600]}
        out.append({"case": d, "impl": (impl_out[i][0] or "")[:200],
                    "model": (model_out[i] or "")[:200] if model_out[i] is not None else None,
                    "spec": (spec_out[i] or "")[:200] if spec_out[i] is not None else None})
    return out


def trusted_base(mod, axioms):
    tb = [
        "Coq 8.16.1 kernel (coqc, full .vo builds); vm_compute used in reflective table lemmas; no native_compute",
        "axioms per theorem (Print Assumptions): " + json.dumps({k: (v or "closed") for k, v in axioms.items()}),
        "table generator harness/gen_tables.py (runtime values of the library -> coq/Gen/Tables.v)",
        "source translator harness/gen_src.py (Python AST of ten small functions -> coq/Gen/Src.v) and the Python semantics it assumes, coq/Lib/PySem.v",
        "extraction: ExtrOcamlBasic, ExtrOcamlZBigInt, ExtrOcamlNatBigInt, ExtrOcamlString (standard-library directives) plus three of our own: Extract Constant Z.land/Z.lor/Z.lxor => Zx.logand/logor/logxor (ocaml/zx.ml, zarith bit operations on non-negative and negative Z); zarith 1.12; ocaml/driver.ml",
        "correspondence harness (harness/engine.py, generators and canonicalisation in harness/props), CPython 3.12",
        "hand-written model coq/Model/*.v tied to the code only by the correspondence run of this check",
    ]
    tb += getattr(mod, "TRUSTED", [])
    return tb
