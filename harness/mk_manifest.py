#!/venv/bin/python
"""Writes MANIFEST.json from the property modules that exist (harness/props/cNN.py)."""
import os, sys, json, importlib
ROOT = os.path.dirname(os.path.dirname(os.path.abspath(__file__)))
sys.path.insert(0, os.path.join(ROOT, "harness"))
props = [json.loads(l) for l in open(os.path.join(ROOT, "properties.jsonl"))]
checks, na = [], []
for p in props:
    pid = p["id"]
    path = os.path.join(ROOT, "harness", "props", pid.lower() + ".py")
    if not os.path.exists(path):
        na.append({"property_id": pid, "reason": "check not built yet in this round (the technique applies; see DESIGN.md section 6)"})
        continue
    m = importlib.import_module("props." + pid.lower())
    checks.append({
        "property_id": pid,
        "quick_cmd": "./check %s --tier quick" % pid,
        "thorough_cmd": "./check %s --tier thorough" % pid,
        "evidence_file": "/verif/evidence/%s.json" % pid,
        "replay_cmd_template": "./check %s --replay {path}" % pid,
        "engine": "coq-proof+correspondence",
        "level_claimed": {"category": "proof", "text": m.LEVEL_TEXT, "design_ref": "DESIGN.md section 6, " + pid},
        "level_note": m.LEVEL_NOTE,
        "technique": m.TECHNIQUE,
    })
man = {
    "version": 1,
    "setup_cmd": "cd /verif && ./setup.sh",
    "hooks": {
        "guard": "KARASK_PYTHON_BITCOIN_UTILS_VERIF",
        "enable": "no source hooks are needed: the harness imports /repo's working tree directly and installs its stubs by monkey-patching at run time",
        "baseline_off_cmd": "cd /repo && /venv/bin/python -m pytest -ra -q -p no:cacheprovider --timeout=900 --continue-on-collection-errors",
        "source_commits": [],
        "add_only": True,
    },
    "engines": [{"name": "coq-proof+correspondence", "path": "/verif/check",
                 "serves_properties": [c["property_id"] for c in checks],
                 "kind_free_text": "Coq 8.16.1 theorems over a hand-written executable model (coq/), tables regenerated from /repo on every run, model extracted to OCaml and compared with the real library on generated inputs (harness/)"}],
    "checks": checks,
    "not_applicable": na,
    "notes": "Genuine defects repaired in /repo as 'fix:' commits are listed in known_findings.json (fixed entries suppress nothing).",
}
json.dump(man, open(os.path.join(ROOT, "MANIFEST.json"), "w"), indent=1)
print("claimed", len(checks), "not_applicable", len(na))
