"""Script trees for C07/C08/C13: descriptor <-> library nested lists <-> driver s-expression <-> reference trees."""
from common import *
from sighash_common import asm_ref, script_of_len


def tree_py(t):
    from bitcoinutils.script import Script
    if "leaf" in t:
        return Script([tok_py(x) for x in t["leaf"]])
    return [tree_py(c) for c in t["list"]]


def tree_sx(t):
    if "leaf" in t:
        return "(leaf %s)" % toks_sx(t["leaf"]).s
    return "(list" + "".join(" " + tree_sx(c) for c in t["list"]) + ")"


def tree_ref(t):
    """reference tree (wrappers removed); None if not a proper tree"""
    if "leaf" in t:
        return ("leaf", asm_ref(t["leaf"]))
    c = t["list"]
    if len(c) == 1: return tree_ref(c[0])
    if len(c) == 2:
        a, b = tree_ref(c[0]), tree_ref(c[1])
        return None if a is None or b is None else ("node", a, b)
    return None


def n_leaves(t):
    return 1 if "leaf" in t else sum(n_leaves(c) for c in t["list"])


def shapes(n):
    """all full binary tree shapes with n leaves (as nested descriptor lists with placeholder leaves)"""
    if n == 1:
        return [None]
    out = []
    for k in range(1, n):
        for a in shapes(k):
            for b in shapes(n - k):
                out.append((a, b))
    return out


def fill(shape, mk):
    if shape is None:
        return {"leaf": mk()}
    return {"list": [fill(shape[0], mk), fill(shape[1], mk)]}


def rand_leaf_script(rng, big=False):
    r = rng.random()
    if big and r < 0.1:
        return script_of_len(rng, rng.choice([253, 65535, 65536, 70000]))
    if r < 0.6:
        return [["data", rand_hex(rng, 32)], ["op", "OP_CHECKSIG"]]
    return rand_script(rng, 5) or [["op", "OP_1"]]


def rand_tree(rng, depth=8, big=False, pool=None):
    def mk():
        if pool and rng.random() < 0.3:
            return rng.choice(pool)
        s = rand_leaf_script(rng, big)
        if pool is not None: pool.append(s)
        return s
    def go(d):
        r = rng.random()
        if d == 0 or r < 0.35:
            return {"leaf": mk()}
        if r < 0.45:
            return {"list": [go(d - 1)]}
        return {"list": [go(d - 1), go(d - 1)]}
    t = go(depth)
    return t


def sarg_sx(sc):
    """scripts argument: None | tree descriptor | {"root": hex}"""
    if sc is None: return "none"
    if "root" in sc: return "(root x%s)" % sc["root"]
    return tree_sx(sc)


def sarg_py(sc):
    if sc is None: return None
    if "root" in sc: return bytes.fromhex(sc["root"])
    return tree_py(sc)
