#!/bin/sh
# lays the committed behaviour-preserving rewrites out the way harmlesstest.py expects them
set -e
d=${1:-/tmp/harmless_stage}; rm -rf "$d"; mkdir -p "$d"
for x in "$(dirname "$0")"/../harmless/*; do n=$(basename "$x"); mkdir -p "$d/${n%-*}/${n##*-}"; cp "$x/patch.diff" "$d/${n%-*}/${n##*-}/"; done
echo "$d"
