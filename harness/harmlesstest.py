#!/venv/bin/python
"""False-alarm self-test (not a registered check): applies each behaviour-preserving rewrite to /repo, runs the
quick check of every property anchored in a file the patch touches, reverts, and reports any alarm.
usage: harness/harmlesstest.py DIR   (DIR/<name>/<hN>/patch.diff; the committed set is restaged from /verif/harmless by harness/restage_harmless.sh)"""
import os, sys, json, subprocess, re, time
ROOT = os.path.dirname(os.path.dirname(os.path.abspath(__file__)))


def sh(cmd):
    return subprocess.run(cmd, shell=True, stdout=subprocess.PIPE, stderr=subprocess.STDOUT, text=True)


def main():
    d = sys.argv[1]
    only = sys.argv[2:]
    repo = "/repo"
    if only and only[0] == "--repo":          # run against a scratch worktree instead of /repo itself
        repo = only[1]; only = only[2:]
    props = [json.loads(l) for l in open(os.path.join(ROOT, "properties.jsonl"))]
    assert sh("git -C %s status --porcelain" % repo).stdout.strip() == ""
    alarms = 0
    for name in sorted(x for x in os.listdir(d) if os.path.isdir(os.path.join(d, x))):
        for h in sorted(os.listdir(os.path.join(d, name))):
            patch = os.path.join(d, name, h, "patch.diff")
            if not os.path.exists(patch) or (only and "%s/%s" % (name, h) not in only):
                continue
            files = set(re.findall(r"^\+\+\+ b/(\S+)", open(patch).read(), re.M))
            pids = [p["id"] for p in props if files & set(p["anchors"]["files"])]
            try:
                if sh("git -C %s apply %s" % (repo, patch)).returncode != 0:
                    print(name, h, "PATCH-FAILED"); continue
                res = {}
                for pid in pids:
                    t0 = time.time()
                    ev = os.path.join(ROOT, "evidence", pid + ".json")
                    keep = open(ev).read() if os.path.exists(ev) else None      # evidence on disk stays that of the unchanged tree
                    c = sh("cd %s && VERIF_REPO=%s ./check %s --tier quick" % (ROOT, repo, pid))
                    if keep is not None:
                        open(ev, "w").write(keep)
                    line = [l for l in c.stdout.splitlines() if l.startswith(("VIOLATION", "OK", "HARNESS"))]
                    res[pid] = (c.returncode, (line[-1] if line else c.stdout[-200:])[:110], round(time.time() - t0))
                    if c.returncode != 0: alarms += 1
            finally:
                sh("git -C %s checkout -- ." % repo)
            bad = {k: v for k, v in res.items() if v[0] != 0}
            print(name, h, sorted(files), "checks=%d" % len(res), "ALARMS=%s" % json.dumps(bad) if bad else "no alarm", flush=True)
    print("total alarms", alarms)
    return 1 if alarms else 0


if __name__ == "__main__":
    sys.exit(main())
