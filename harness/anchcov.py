"""usage: harness/anchcov.py Cxx [quick|thorough]  -- anchored lines a check's cases never reach (full sample)"""
import sys, random, json, importlib, os
sys.path.insert(0, os.path.dirname(os.path.abspath(__file__)))
import engine
sys.path.insert(0, engine.REPO)
pid = sys.argv[1].lower(); tier = sys.argv[2] if len(sys.argv) > 2 else "quick"
mod = importlib.import_module("props." + pid)
descs = []
cp = os.path.join(engine.ROOT, "corpus", pid.upper() + ".jsonl")
if os.path.exists(cp):
    descs += [json.loads(l) for l in open(cp) if l.strip()]
descs += list(mod.cases(tier, random.Random(20260930)))
r = engine.anchored_coverage("props." + pid, descs, "thorough")
print(pid, len(descs), r.get("sampled_cases"), "%s/%s" % (r.get("executed"), r.get("executable")))
for k, v in r.get("functions", {}).items():
    if not isinstance(v, dict) or v["never_reached_lines"]:
        print("  ", k, v if not isinstance(v, dict) else v["never_reached_lines"])
