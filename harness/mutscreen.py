"""Mutation screen (a self-test of the generators, not a registered check).

For one property, mutate the anchored functions of the library one AST node at a time in scratch copies
of bitcoinutils/, run the property's quick implementation cases on each mutant and compare, case by
case, with the outputs on the unchanged tree.  Since the check passes on the unchanged tree
(implementation = model on every case), a mutant whose outputs all coincide is exactly one the
correspondence would not notice: those survivors are printed for inspection (equivalent mutants, or gaps
in the generators).

usage: mutscreen.py Cxx [--jobs 14] [--max N] [--out file.json]
       mutscreen.py --run Cxx <repo-root>        (internal: run the cases, print one digest per case)
"""
import ast, copy, hashlib, json, os, random, shutil, subprocess, sys, tempfile, time
from concurrent.futures import ThreadPoolExecutor

HERE = os.path.dirname(os.path.abspath(__file__))
ROOT = os.path.dirname(HERE)
SEED = 20260930


def run_cases(pid, repo, limit=200000, budget=150.0):
    sys.path.insert(0, HERE); sys.path.insert(0, repo)
    os.environ["VERIF_REPO"] = repo
    import importlib
    mod = importlib.import_module("props." + pid.lower())
    descs = []
    cp = os.path.join(ROOT, "corpus", pid.upper() + ".jsonl")
    if os.path.exists(cp):
        descs += [json.loads(l) for l in open(cp) if l.strip()]
    descs += list(mod.cases("quick", random.Random(SEED)))
    if len(descs) > limit:
        r = random.Random(7); groups = {}
        for d in descs:
            groups.setdefault(d.get("k", "?"), []).append(d)
        share = max(1, limit // len(groups)); sample = []
        for g in groups.values():
            sample += g if len(g) <= share else r.sample(g, share)
        descs = sample
    t0 = time.time(); out = []
    for d in descs:
        if time.time() - t0 > budget:
            out.append("TIMEOUT"); break
        if not (d.get("dom", True) or d.get("reject")):
            out.append("-"); continue
        try:
            r = mod.impl(d)
            if hasattr(mod, "post_impl"):
                r = mod.post_impl(d, r)
        except BaseException as e:
            if isinstance(e, (KeyboardInterrupt, SystemExit, MemoryError)):
                raise
            r = "ERR"
        out.append(hashlib.sha1(str(r).encode()).hexdigest()[:12])
    return out


# ---------------------------------------------------------------------------------------- mutants

CMP = {ast.Lt: ast.LtE, ast.LtE: ast.Lt, ast.Gt: ast.GtE, ast.GtE: ast.Gt, ast.Eq: ast.NotEq, ast.NotEq: ast.Eq,
       ast.Is: ast.IsNot, ast.IsNot: ast.Is, ast.In: ast.NotIn, ast.NotIn: ast.In}
BIN = {ast.Add: ast.Sub, ast.Sub: ast.Add, ast.Mult: ast.FloorDiv, ast.FloorDiv: ast.Mult, ast.LShift: ast.RShift,
       ast.RShift: ast.LShift, ast.BitOr: ast.BitAnd, ast.BitAnd: ast.BitOr, ast.BitXor: ast.BitOr, ast.Mod: ast.FloorDiv}


def func_nodes(tree, qualnames):
    found = {}

    def walk(node, prefix):
        for n in ast.iter_child_nodes(node):
            if isinstance(n, (ast.FunctionDef, ast.AsyncFunctionDef)):
                if prefix + n.name in qualnames:
                    found[prefix + n.name] = n
                walk(n, prefix + n.name + ".")
            elif isinstance(n, ast.ClassDef):
                walk(n, prefix + n.name + ".")
    walk(tree, "")
    return found


def mutation_sites(fn):
    """yield (description, applier) where applier(node_in_copy) mutates in place; addressed by walk index"""
    sites = []
    # type annotations are not behaviour: leave them alone
    skip = set()
    for a in ast.walk(fn):
        for fld in ("annotation", "returns"):
            sub = getattr(a, fld, None)
            if isinstance(sub, ast.AST):
                skip.update(id(x) for x in ast.walk(sub))
    for idx, n in enumerate(ast.walk(fn)):
        if id(n) in skip:
            continue
        ln = getattr(n, "lineno", 0)
        if isinstance(n, ast.Compare):
            for j, op in enumerate(n.ops):
                if type(op) in CMP:
                    sites.append((idx, "L%d cmp %s->%s" % (ln, type(op).__name__, CMP[type(op)].__name__), ("cmp", j)))
        elif isinstance(n, ast.BinOp) and type(n.op) in BIN:
            sites.append((idx, "L%d bin %s->%s" % (ln, type(n.op).__name__, BIN[type(n.op)].__name__), ("bin",)))
        elif isinstance(n, ast.BoolOp):
            sites.append((idx, "L%d bool swap" % ln, ("boolop",)))
        elif isinstance(n, ast.UnaryOp) and isinstance(n.op, ast.Not):
            sites.append((idx, "L%d drop not" % ln, ("dropnot",)))
        elif isinstance(n, ast.Constant):
            if isinstance(n.value, bool):
                sites.append((idx, "L%d bool const flip" % ln, ("const", not n.value)))
            elif isinstance(n.value, int):
                sites.append((idx, "L%d int %r->%r" % (ln, n.value, n.value + 1), ("const", n.value + 1)))
                if n.value != 0:
                    sites.append((idx, "L%d int %r->%r" % (ln, n.value, n.value - 1), ("const", n.value - 1)))
            elif isinstance(n.value, bytes) and 0 < len(n.value) <= 4:
                sites.append((idx, "L%d bytes %r tweak" % (ln, n.value), ("const", bytes([n.value[0] ^ 1]) + n.value[1:])))
        elif isinstance(n, ast.If):
            sites.append((idx, "L%d if negate" % ln, ("ifneg",)))
        elif isinstance(n, (ast.Assign, ast.AugAssign, ast.Expr)) and not (
                isinstance(n, ast.Expr) and isinstance(getattr(n, "value", None), ast.Constant)):
            sites.append((idx, "L%d delete stmt" % ln, ("del",)))
        elif isinstance(n, ast.Raise):
            sites.append((idx, "L%d raise->pass" % ln, ("del",)))
        elif isinstance(n, ast.Slice):
            if n.lower is not None:
                sites.append((idx, "L%d slice lower+1" % ln, ("slice", "lower")))
            if n.upper is not None:
                sites.append((idx, "L%d slice upper-1" % ln, ("slice", "upper")))
    return sites


def apply_site(fn, idx, how):
    nodes = list(ast.walk(fn))
    n = nodes[idx]
    k = how[0]
    if k == "cmp":
        n.ops[how[1]] = CMP[type(n.ops[how[1]])]()
    elif k == "bin":
        n.op = BIN[type(n.op)]()
    elif k == "boolop":
        n.op = ast.Or() if isinstance(n.op, ast.And) else ast.And()
    elif k == "dropnot":
        n.op = ast.UAdd() if False else n.op
        # replace `not x` by `bool(x)`: emulate through double negation removal
        n.__class__ = ast.Call; n.func = ast.Name(id="bool", ctx=ast.Load()); n.args = [n.operand]; n.keywords = []
    elif k == "const":
        n.value = how[1]
    elif k == "ifneg":
        n.test = ast.UnaryOp(op=ast.Not(), operand=n.test)
    elif k == "del":
        n.__class__ = ast.Pass
        for f in ("targets", "value", "target", "op", "exc", "cause"):
            if hasattr(n, f):
                delattr(n, f)
    elif k == "slice":
        if how[1] == "lower":
            n.lower = ast.BinOp(left=n.lower, op=ast.Add(), right=ast.Constant(value=1))
        else:
            n.upper = ast.BinOp(left=n.upper, op=ast.Sub(), right=ast.Constant(value=1))


def make_mutants(pid, repo):
    amap = json.load(open(os.path.join(HERE, "anchor_funcs.json"))).get(pid, [])
    byfile = {}
    for f, q in amap:
        byfile.setdefault(f, set()).add(q)
    muts = []
    for f, qs in sorted(byfile.items()):
        src = open(os.path.join(repo, f)).read()
        tree = ast.parse(src)
        fns = func_nodes(tree, qs)
        for q in sorted(fns):
            # nested anchored functions are mutated under their own name only
            for (idx, desc, how) in mutation_sites(fns[q]):
                muts.append({"file": f, "func": q, "idx": idx, "desc": desc, "how": how})
    return muts


def build_mutant(m, repo, dest):
    shutil.copytree(os.path.join(repo, "bitcoinutils"), os.path.join(dest, "bitcoinutils"))
    if os.path.isdir(os.path.join(repo, "tests")):
        os.symlink(os.path.join(repo, "tests"), os.path.join(dest, "tests"))      # block fixtures read by some generators
    p = os.path.join(repo, m["file"])
    tree = ast.parse(open(p).read())
    fn = func_nodes(tree, {m["func"]})[m["func"]]
    apply_site(fn, m["idx"], tuple(m["how"]))
    ast.fix_missing_locations(tree)
    code = ast.unparse(tree)
    compile(code, m["file"], "exec")
    open(os.path.join(dest, m["file"]), "w").write(code)


def run_sub(pid, repo, timeout=240):
    env = dict(os.environ, PYTHONHASHSEED="0", PYTHONDONTWRITEBYTECODE="1")
    try:
        r = subprocess.run([sys.executable, os.path.abspath(__file__), "--run", pid, repo], capture_output=True, text=True,
                           timeout=timeout, env=env)
    except subprocess.TimeoutExpired:
        return None
    if r.returncode != 0:
        return ["CRASH " + r.stderr[-200:]]
    return r.stdout.split()


def main():
    if sys.argv[1] == "--run":
        print("\n".join(run_cases(sys.argv[2], sys.argv[3])))
        return
    import argparse
    ap = argparse.ArgumentParser()
    ap.add_argument("pid"); ap.add_argument("--jobs", type=int, default=14); ap.add_argument("--max", type=int, default=0)
    ap.add_argument("--out", default=None); ap.add_argument("--repo", default="/repo")
    a = ap.parse_args()
    pid = a.pid.upper()
    base = run_sub(pid, a.repo, timeout=900)
    assert base and not base[0].startswith("CRASH"), base
    muts = make_mutants(pid, a.repo)
    if a.max and len(muts) > a.max:
        muts = random.Random(1).sample(muts, a.max)
    scratch = tempfile.mkdtemp(prefix="mutscreen-")
    res = []

    def one(i):
        m = muts[i]; d = os.path.join(scratch, str(i)); os.makedirs(d)
        try:
            try:
                build_mutant(m, a.repo, d)
            except Exception as e:
                return dict(m, status="invalid:%s" % type(e).__name__)
            out = run_sub(pid, d)
            if out is None:
                return dict(m, status="killed:timeout")
            if out and out[0].startswith("CRASH"):
                return dict(m, status="killed:crash")
            if out == base:
                return dict(m, status="SURVIVED")
            nd = sum(1 for x, y in zip(out, base) if x != y) + abs(len(out) - len(base))
            return dict(m, status="killed", differing=nd)
        finally:
            shutil.rmtree(d, ignore_errors=True)
    t0 = time.time()
    with ThreadPoolExecutor(a.jobs) as ex:
        for r in ex.map(one, range(len(muts))):
            res.append(r)
    shutil.rmtree(scratch, ignore_errors=True)
    surv = [r for r in res if r["status"] == "SURVIVED"]
    print("%s: %d mutants, %d killed, %d invalid, %d survived, base cases %d, %.0fs" % (
        pid, len(res), sum(r["status"].startswith("killed") for r in res), sum(r["status"].startswith("invalid") for r in res),
        len(surv), len(base), time.time() - t0))
    for r in surv:
        print("  SURVIVED %s:%s %s" % (r["file"], r["func"], r["desc"]))
    if a.out:
        json.dump(res, open(a.out, "w"), indent=1, default=repr)


if __name__ == "__main__":
    main()
