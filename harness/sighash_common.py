"""Shared by C03/C04/C05: building views of descriptors for the reference oracle, case generation."""
from common import *
import refsighash


def asm_ref(ts):
    """harness-side assembler for the reference oracle (consensus rules; opcode values from the Coq spec table)"""
    out = b""
    for t in ts:
        if t[0] == "op":
            out += bytes([CONSENSUS[t[1]]])
        elif t[0] == "int":
            n = t[1]
            if n == 0: out += b"\0"
            elif 1 <= n <= 16: out += bytes([0x50 + n])
            else:
                b = b""
                while n: b += bytes([n & 255]); n >>= 8
                if b[-1] & 0x80: b += b"\0"
                out += push_ref(b)
        else:
            out += push_ref(bytes.fromhex(t[1]))
    return out


def push_ref(d):
    n = len(d)
    if n < 76: return bytes([n]) + d
    if n <= 255: return b"\x4c" + bytes([n]) + d
    if n <= 65535: return b"\x4d" + n.to_bytes(2, "little") + d
    return b"\x4e" + n.to_bytes(4, "little") + d


def view_of(t, blank_sigs=False):
    return {"ver": bytes.fromhex(t["ver"]), "lt": bytes.fromhex(t["lt"]),
            "ins": [(bytes.fromhex(i["txid"]), i["vout"], b"" if blank_sigs else asm_ref(i["script"]), bytes.fromhex(i["seq"])) for i in t["ins"]],
            "outs": [(o["amt"], asm_ref(o["script"])) for o in t["outs"]]}


LEGACY_TYPES = [1, 2, 3, 0x81, 0x82, 0x83]
TAPROOT_TYPES = [0, 1, 2, 3, 0x81, 0x82, 0x83]
BOUNDARY_LENS = [0, 1, 75, 76, 252, 253, 254, 255, 256, 257, 520, 65535, 65536, 70000]


def script_of_len(rng, n):
    """a script (token list) whose byte encoding has exactly n bytes"""
    if n == 0: return []
    if n <= 3:
        return [["op", rng.choice(["OP_DUP", "OP_1", "OP_CHECKSIG"])] for _ in range(n)]
    # one data push with header: choose payload so total = n; pad with opcodes
    for hdr, lo, hi in ((1, 1, 75), (2, 76, 255), (3, 256, 65535), (5, 65536, 10 ** 9)):
        p = n - hdr
        if lo <= p <= hi:
            return [["data", rand_data(rng, p)]]
    # lengths just above a header change (e.g. 77, 78, 257, 258): opcode padding + push
    for pad in range(1, 6):
        for hdr, lo, hi in ((1, 1, 75), (2, 76, 255), (3, 256, 65535), (5, 65536, 10 ** 9)):
            p = n - hdr - pad
            if lo <= p <= hi:
                return [["op", "OP_DROP"]] * pad + [["data", rand_data(rng, p)]]
    raise ValueError(n)
