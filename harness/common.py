"""Shared helpers of the property modules: consensus opcode table (parsed from the Coq spec),
token generators, canonical printing."""
import os, re
from engine import sx, Raw, ROOT

_spec = open(os.path.join(ROOT, "coq", "Spec", "Opcodes.v")).read()
CONSENSUS = {m.group(1): int(m.group(2)) for m in re.finditer(r'\("(OP_[A-Z0-9_]+)",\s*(\d+)\)', _spec)}

# the 87 names the library's OP_CODES had at the pinned commit (the property's "opcodes the library names")
LIB_NAMES = """OP_0 OP_FALSE OP_PUSHDATA1 OP_PUSHDATA2 OP_PUSHDATA4 OP_1NEGATE OP_1 OP_TRUE OP_2 OP_3 OP_4 OP_5 OP_6 OP_7
OP_8 OP_9 OP_10 OP_11 OP_12 OP_13 OP_14 OP_15 OP_16 OP_NOP OP_IF OP_NOTIF OP_ELSE OP_ENDIF OP_VERIFY OP_RETURN
OP_TOALTSTACK OP_FROMALTSTACK OP_IFDUP OP_DEPTH OP_DROP OP_DUP OP_NIP OP_OVER OP_PICK OP_ROLL OP_ROT OP_SWAP OP_TUCK
OP_2DROP OP_2DUP OP_3DUP OP_2OVER OP_2ROT OP_2SWAP OP_SIZE OP_EQUAL OP_EQUALVERIFY OP_1ADD OP_1SUB OP_NEGATE OP_ABS
OP_NOT OP_0NOTEQUAL OP_ADD OP_SUB OP_BOOLAND OP_BOOLOR OP_NUMEQUAL OP_NUMEQUALVERIFY OP_NUMNOTEQUAL OP_LESSTHAN
OP_GREATERTHAN OP_LESSTHANOREQUAL OP_GREATERTHANOREQUAL OP_MIN OP_MAX OP_WITHIN OP_RIPEMD160 OP_SHA1 OP_SHA256
OP_HASH160 OP_HASH256 OP_CODESEPARATOR OP_CHECKSIG OP_CHECKSIGVERIFY OP_CHECKMULTISIG OP_CHECKMULTISIGVERIFY
OP_CHECKSIGADD OP_NOP2 OP_CHECKLOCKTIMEVERIFY OP_NOP3 OP_CHECKSEQUENCEVERIFY""".split()
PUSHDATA_NAMES = ("OP_PUSHDATA1", "OP_PUSHDATA2", "OP_PUSHDATA4")
DIS_NAMES = [n for n in LIB_NAMES if n not in PUSHDATA_NAMES]


def tok_sx(t):
    """descriptor token -> s-expression for the driver; tokens are ["op", name] | ["int", n] | ["data", hex]"""
    if t[0] == "op":
        return Raw("(op %s)" % t[1])
    if t[0] == "int":
        return Raw("(int %d)" % t[1])
    return Raw("(data x%s)" % t[1])


def toks_sx(ts):
    return Raw("(" + " ".join(tok_sx(t).s for t in ts) + ")")


def tok_py(t):
    """descriptor token -> the Python object the library's Script takes"""
    return t[1]


def show_lib_tokens(script_list):
    """canonical printing of Script.get_script(): opcode names by consensus value, data as hex"""
    out = []
    for c in script_list:
        if isinstance(c, int):
            out.append("int%d" % c)
        elif c in CONSENSUS:
            out.append("#%d" % CONSENSUS[c])
        elif c == "":
            out.append("#0")
        elif re.fullmatch(r"([0-9a-fA-F]{2})+", c):
            out.append("x" + c.lower())
        else:
            out.append("?" + c)
    return ",".join(out)


def rand_data(rng, n):
    if n == 0:
        return ""
    if n > 2000:
        # cheap long data: repeated random block
        blk = bytes(rng.getrandbits(8) for _ in range(64))
        return (blk * (n // 64 + 1))[:n].hex()
    return bytes(rng.getrandbits(8) for _ in range(n)).hex()


def rand_token(rng, big=False, names=DIS_NAMES):
    r = rng.random()
    if r < 0.45:
        return ["op", rng.choice(names)]
    if r < 0.65:
        c = rng.random()
        if c < 0.3:
            return ["int", rng.randrange(0, 18)]
        if c < 0.6:
            return ["int", rng.choice([127, 128, 129, 255, 256, 32767, 32768, 65535, 65536, 2 ** 31 - 1, 2 ** 31, 2 ** 32 - 1,
                                       2 ** 32, 2 ** 39, 2 ** 40, 2 ** 63 - 1, 2 ** 63, 0x80, 0x8000, 0x800000, 0x80000000])]
        return ["int", rng.getrandbits(rng.choice([5, 8, 15, 16, 24, 31, 32, 40, 63]))]
    n = rng.choice([0, 1, 2, 20, 32, 33, 64, 65, 71, 72, 73, 74, 75, 76, 77, 100, 254, 255, 256, 257, 520])
    if big and rng.random() < 0.15:
        n = rng.choice([65535, 65536, 70000, rng.randrange(600, 70000)])
    return ["data", rand_data(rng, n)]


def rand_script(rng, maxlen=60, big=False, names=DIS_NAMES):
    return [rand_token(rng, big, names) for _ in range(rng.randrange(0, maxlen + 1))]


# ------------------------------------------------------------------------------------------------
# transactions: descriptor <-> library objects <-> driver s-expression

NULL_TXID = "00" * 32


def tx_sx(t):
    ins = " ".join("(x%s %d %s x%s)" % (i["txid"], i["vout"], toks_sx(i["script"]).s, i["seq"]) for i in t["ins"])
    outs = " ".join("(%d %s)" % (o["amt"], toks_sx(o["script"]).s) for o in t["outs"])
    wits = " ".join("(" + " ".join("x" + it for it in st) + ")" for st in t["wits"])
    return Raw("(tx x%s %d (%s) (%s) x%s (%s))" % (t["ver"], 1 if t["sw"] else 0, ins, outs, t["lt"], wits))


def tx_build(t):
    from bitcoinutils.transactions import Transaction, TxInput, TxOutput, TxWitnessInput
    from bitcoinutils.script import Script
    ins = [TxInput(i["txid"], i["vout"], Script([tok_py(x) for x in i["script"]]), bytes.fromhex(i["seq"])) for i in t["ins"]]
    outs = [TxOutput(o["amt"], Script([tok_py(x) for x in o["script"]])) for o in t["outs"]]
    wits = [TxWitnessInput(list(st)) for st in t["wits"]]
    return Transaction(ins, outs, bytes.fromhex(t["lt"]), bytes.fromhex(t["ver"]), t["sw"], wits)


def lib_tx_facts(tx):
    return "|".join([tx.to_hex(), tx.to_bytes(False).hex(), tx.get_txid(), tx.get_wtxid(), str(tx.get_size()), str(tx.get_vsize())])


def dump_lib_tx(tx):
    def sin(i):
        if i.txid == NULL_TXID:
            sc = i.script_sig.script
            s = ("cb" + sc[0]) if len(sc) == 1 and isinstance(sc[0], str) else "cb?" + show_lib_tokens(sc)
        else:
            s = show_lib_tokens(i.script_sig.script)
        return "%s:%d:%s:%s" % (i.txid, i.txout_index, s, i.sequence.hex())
    return ("v=" + tx.version.hex() + ";sw=%d" % (1 if tx.has_segwit else 0)
            + ";in=" + "/".join(sin(i) for i in tx.inputs)
            + ";out=" + "/".join("%d:%s" % (o.amount, show_lib_tokens(o.script_pubkey.script)) for o in tx.outputs)
            + ";lt=" + tx.locktime.hex()
            + ";wit=" + "/".join(".".join("x" + it for it in w.stack) for w in tx.witnesses))


def apply_mut(t, m):
    """pure version of a mutation on the descriptor (returns a new descriptor)"""
    import copy
    t = copy.deepcopy(t)
    k = m["m"]
    if k == "amount": t["outs"][m["i"]]["amt"] = m["v"]
    elif k == "out_script": t["outs"][m["i"]]["script"] = m["script"]
    elif k == "replace_out": t["outs"][m["i"]] = {"amt": m["v"], "script": m["script"]}
    elif k == "add_out": t["outs"].append({"amt": m["v"], "script": m["script"]})
    elif k == "del_out": t["outs"].pop()
    elif k == "locktime": t["lt"] = m["v"]
    elif k == "version": t["ver"] = m["v"]
    elif k == "script_sig": t["ins"][m["i"]]["script"] = m["script"]
    elif k == "seq": t["ins"][m["i"]]["seq"] = m["v"]
    elif k == "vout": t["ins"][m["i"]]["vout"] = m["v"]
    elif k == "witness":
        t["wits"][m["i"]] = m["stack"]
    elif k == "witness_item":
        t["wits"][m["i"]][m["j"]] = m["v"]
    elif k == "segwit": t["sw"] = m["v"]
    else: raise KeyError(k)
    return t


def apply_mut_lib(tx, m):
    """the same mutation through the public attributes of the library objects"""
    from bitcoinutils.transactions import TxOutput
    from bitcoinutils.script import Script
    k = m["m"]
    if k == "amount": tx.outputs[m["i"]].amount = m["v"]
    elif k == "out_script": tx.outputs[m["i"]].script_pubkey = Script([tok_py(x) for x in m["script"]])
    elif k == "replace_out": tx.outputs[m["i"]] = TxOutput(m["v"], Script([tok_py(x) for x in m["script"]]))
    elif k == "add_out": tx.outputs.append(TxOutput(m["v"], Script([tok_py(x) for x in m["script"]])))
    elif k == "del_out": tx.outputs.pop()
    elif k == "locktime": tx.locktime = bytes.fromhex(m["v"])
    elif k == "version": tx.version = bytes.fromhex(m["v"])
    elif k == "script_sig": tx.inputs[m["i"]].script_sig = Script([tok_py(x) for x in m["script"]])
    elif k == "seq": tx.inputs[m["i"]].sequence = bytes.fromhex(m["v"])
    elif k == "vout": tx.inputs[m["i"]].txout_index = m["v"]
    elif k == "witness": tx.witnesses[m["i"]].stack = list(m["stack"])
    elif k == "witness_item": tx.witnesses[m["i"]].stack[m["j"]] = m["v"]
    elif k == "segwit": tx.has_segwit = m["v"]
    else: raise KeyError(k)


def rand_hex(rng, n):
    return bytes(rng.getrandbits(8) for _ in range(n)).hex()


def rand_txid(rng):
    while True:
        h = rand_hex(rng, 32)
        if h != NULL_TXID:
            return h


def rand_amount(rng):
    return rng.choice([0, 1, 546, 2 ** 63 - 1, 2 ** 32, rng.getrandbits(rng.choice([16, 32, 40, 62]))])


def rand_seq(rng):
    return rng.choice(["ffffffff", "feffffff", "fdffffff", "00000000", "01000000", "0a004000", rand_hex(rng, 4)])


def rand_stack(rng, big=False):
    r = rng.random()
    if r < 0.25:
        return []
    n = rng.choice([1, 2, 2, 3, 4, 5, 10])
    if big and rng.random() < 0.3:
        n = rng.choice([127, 128, 252, 253, 300])
    st = []
    for _ in range(n):
        ln = rng.choice([0, 1, 32, 33, 64, 71, 72, 73, 105, 252, 253, 254]) if n < 20 else rng.choice([0, 1, 2, 33])
        st.append(rand_data(rng, ln))
    if big and n < 20 and rng.random() < 0.3:
        st[rng.randrange(len(st))] = rand_data(rng, rng.choice([255, 256, 520, 65535, 65536, 70000]))
    return st


def rand_tx(rng, nin=None, nout=None, segwit=None, coinbase=False, big=False, scripts=True, min_out=0):
    nin = nin if nin is not None else rng.choice([1, 1, 2, 3, 5, 8])
    nout = nout if nout is not None else rng.choice([min_out, 1, 1, 2, 3, 5, 8])
    nout = max(nout, min_out)
    sw = segwit if segwit is not None else (rng.random() < 0.5)
    ins = []
    for k in range(nin):
        sc = rand_script(rng, rng.choice([0, 0, 2, 5]), big=big and rng.random() < 0.05) if scripts else []
        ins.append({"txid": rand_txid(rng), "vout": rng.choice([0, 1, 2, 2 ** 32 - 1, rng.getrandbits(32), rng.getrandbits(8)]),
                    "script": sc, "seq": rand_seq(rng)})
    if coinbase:
        ins[0] = {"txid": NULL_TXID, "vout": 0xFFFFFFFF, "script": [["data", rand_data(rng, rng.choice([0, 2, 40, 100]))]], "seq": "ffffffff"}
    outs = [{"amt": rand_amount(rng), "script": rand_script(rng, rng.choice([0, 2, 5, 5]), big=big and rng.random() < 0.05) if scripts
             else [["op", "OP_1"]]} for _ in range(nout)]
    wits = [rand_stack(rng, big=big and nin <= 3) for _ in range(nin)] if sw else []
    return {"ver": rng.choice(["01000000", "02000000", "02000000", "03000000", rand_hex(rng, 4)]), "sw": sw, "ins": ins, "outs": outs,
            "lt": rng.choice(["00000000", "00000000", "ffffffff", "0065cd1d", rand_hex(rng, 4)]), "wits": wits}


def rand_mut(rng, t):
    """a mutation applicable to descriptor t"""
    ch = ["locktime", "version", "seq", "script_sig", "vout"]
    if t["outs"]:
        ch += ["amount", "amount", "out_script", "replace_out", "del_out"]
    ch += ["add_out"]
    if t["sw"] and t["wits"]:
        ch += ["witness", "witness"]
    k = rng.choice(ch)
    i = rng.randrange(len(t["ins"]))
    if k == "amount": return {"m": k, "i": rng.randrange(len(t["outs"])), "v": rand_amount(rng)}
    if k == "out_script": return {"m": k, "i": rng.randrange(len(t["outs"])), "script": rand_script(rng, 4)}
    if k == "replace_out": return {"m": k, "i": rng.randrange(len(t["outs"])), "v": rand_amount(rng), "script": rand_script(rng, 4)}
    if k == "add_out": return {"m": k, "v": rand_amount(rng), "script": rand_script(rng, 4)}
    if k == "del_out": return {"m": k}
    if k == "locktime": return {"m": k, "v": rand_hex(rng, 4)}
    if k == "version": return {"m": k, "v": rng.choice(["01000000", "02000000", "03000000"])}
    if k == "script_sig": return {"m": k, "i": i, "script": rand_script(rng, 4)}
    if k == "seq": return {"m": k, "i": i, "v": rand_seq(rng)}
    if k == "vout": return {"m": k, "i": i, "v": rng.getrandbits(16)}
    if k == "witness": return {"m": k, "i": rng.randrange(len(t["wits"])), "stack": rand_stack(rng)}
    raise KeyError(k)


def tx_is_null_in(t):
    return any(i["txid"] == NULL_TXID for i in t["ins"])


def fill_ids(out):
    """The extracted model leaves txid/wtxid as placeholders (@t after the stripped serialisation, @w three
    fields after the full one); the abstract hash of the theorems is instantiated here with hashlib's SHA-256."""
    import hashlib
    if "@" not in out:
        return out
    tk = out.split("|")
    res = list(tk)
    for i, x in enumerate(tk):
        if x == "@t":
            b = bytes.fromhex(tk[i - 1]); res[i] = hashlib.sha256(hashlib.sha256(b).digest()).digest()[::-1].hex()
        elif x == "@w":
            b = bytes.fromhex(tk[i - 3]); res[i] = hashlib.sha256(hashlib.sha256(b).digest()).digest()[::-1].hex()
    return "|".join(res)


def guarded(f):
    """one observation of a history: a raised exception is the observation ERR (the history goes on)"""
    try:
        return f()
    except Exception:
        return "ERR"


# ---- source tie (DESIGN 13.8): texts for MANIFEST
TIE_NAMES = {'encode_varint': 'utils.encode_varint', 'prepend_compact_size': 'utils.prepend_compact_size', 'parse_compact_size': 'utils.parse_compact_size',
             'vi_to_int': 'utils.vi_to_int', 'op_push_data': 'Script._op_push_data', 'push_integer': 'Script._push_integer',
             'sequence_init': 'Sequence.__init__', 'for_input_sequence': 'Sequence.for_input_sequence', 'for_script': 'Sequence.for_script',
             'locktime_for_transaction': 'Locktime.for_transaction', 'add_magic_prefix': 'utils.add_magic_prefix',
             'tagged_hash': 'utils.tagged_hash and schnorr.tagged_hash', 'tapbranch_tagged_hash': 'utils.tapbranch_tagged_hash',
             'tapleaf_tagged_hash': 'utils.tapleaf_tagged_hash (modulo Script.to_bytes)',
             'block_header': 'BlockHeader.get_target_bits / serialize_header / get_block_hash',
             'tx_parts': 'TxOutput.to_bytes and TxInput.to_bytes (modulo Script.to_bytes)',
             'tx_whole': 'TxWitnessInput.to_bytes and Transaction.to_bytes (loops included)',
             'tx_ids': 'Transaction.get_txid / _get_hash (get_wtxid) / get_size',
             'segwit_digest': 'Transaction.get_transaction_segwit_digest (BIP143, whole function)',
             'taproot_digest': 'Transaction.get_transaction_taproot_digest (BIP341/342, whole function)',
             'legacy_digest': 'Transaction.get_transaction_digest (legacy signature hash, whole function)',
             'locking_scripts': 'Script.to_p2sh/to_p2wsh_script_pub_key, the hash accessors and the five to_script_pub_key methods'}


def with_ties(ties, level_text, level_note, technique):
    names = ", ".join(TIE_NAMES[t] for t in ties)
    return (level_text + (" In addition %s %s translated from the tree under test on every run (harness/gen_src.py -> coq/Gen/Src.v) and "
                          "proved equal to the model on every input (coq/Properties/Tie_*.v); where the translator cannot read a function it says so "
                          "and the check widens its correspondence run instead." % (names, "is" if len(ties) == 1 else "are")),
            level_note + " Source tie: trusted are the translator harness/gen_src.py and the Python semantics of coq/Lib/PySem.v.",
            technique + " + source-to-Gallina translation of the small helpers proved equal to the model")
