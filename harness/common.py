"""Shared helpers of the property modules: consensus opcode table (parsed from the Coq spec),
token generators, canonical printing."""
import os, re
from engine import sx, Raw, ROOT

_spec = open(os.path.join(ROOT, "coq", "Spec", "Opcodes.v")).read()
CONSENSUS = {m.group(1): int(m.group(2)) for m in re.finditer(r'\("(OP_[A-Z0-9_]+)",\s*(\d+)\)', _spec)}

# the 87 names the library's OP_CODES had at the pinned commit (the property's "opcodes the library names")
LIB_NAMES = """OP_0 OP_FALSE OP_PUSHDATA1 OP_PUSHDATA2 OP_PUSHDATA4 OP_1NEGATE OP_1 OP_TRUE OP_2 OP_3 OP_4 OP_5 OP_6 OP_7
OP_8 OP_9 OP_10 OP_11 OP_12 OP_13 OP_14 OP_15 OP_16 OP_NOP OP_IF OP_NOTIF OP_ELSE OP_ENDIF OP_VERIFY OP_RETURN
OP_TOALTSTACK OP_FROMALTSTACK OP_IFDUP OP_DEPTH OP_DROP OP_DUP OP_NIP OP_OVER OP_PICK OP_ROLL OP_ROT OP_SWAP OP_TUCK
OP_2DROP OP_2DUP OP_3DUP OP_2OVER OP_2ROT OP_2SWAP OP_SIZE OP_EQUAL OP_EQUALVERIFY OP_1ADD OP_1SUB OP_NEGATE OP_ABS
OP_NOT OP_0NOTEQUAL OP_ADD OP_SUB OP_BOOLAND OP_BOOLOR OP_NUMEQUAL OP_NUMEQUALVERIFY OP_NUMNOTEQUAL OP_LESSTHAN
OP_GREATERTHAN OP_LESSTHANOREQUAL OP_GREATERTHANOREQUAL OP_MIN OP_MAX OP_WITHIN OP_RIPEMD160 OP_SHA1 OP_SHA256
OP_HASH160 OP_HASH256 OP_CODESEPARATOR OP_CHECKSIG OP_CHECKSIGVERIFY OP_CHECKMULTISIG OP_CHECKMULTISIGVERIFY
OP_CHECKSIGADD OP_NOP2 OP_CHECKLOCKTIMEVERIFY OP_NOP3 OP_CHECKSEQUENCEVERIFY""".split()
PUSHDATA_NAMES = ("OP_PUSHDATA1", "OP_PUSHDATA2", "OP_PUSHDATA4")
DIS_NAMES = [n for n in LIB_NAMES if n not in PUSHDATA_NAMES]


def tok_sx(t):
    """descriptor token -> s-expression for the driver; tokens are ["op", name] | ["int", n] | ["data", hex]"""
    if t[0] == "op":
        return Raw("(op %s)" % t[1])
    if t[0] == "int":
        return Raw("(int %d)" % t[1])
    return Raw("(data x%s)" % t[1])


def toks_sx(ts):
    return Raw("(" + " ".join(tok_sx(t).s for t in ts) + ")")


def tok_py(t):
    """descriptor token -> the Python object the library's Script takes"""
    return t[1]


def show_lib_tokens(script_list):
    """canonical printing of Script.get_script(): opcode names by consensus value, data as hex"""
    out = []
    for c in script_list:
        if isinstance(c, int):
            out.append("int%d" % c)
        elif c in CONSENSUS:
            out.append("#%d" % CONSENSUS[c])
        elif c == "":
            out.append("#0")
        elif re.fullmatch(r"([0-9a-fA-F]{2})+", c):
            out.append("x" + c.lower())
        else:
            out.append("?" + c)
    return ",".join(out)


def rand_data(rng, n):
    if n == 0:
        return ""
    if n > 2000:
        # cheap long data: repeated random block
        blk = bytes(rng.getrandbits(8) for _ in range(64))
        return (blk * (n // 64 + 1))[:n].hex()
    return bytes(rng.getrandbits(8) for _ in range(n)).hex()


def rand_token(rng, big=False, names=DIS_NAMES):
    r = rng.random()
    if r < 0.45:
        return ["op", rng.choice(names)]
    if r < 0.65:
        c = rng.random()
        if c < 0.3:
            return ["int", rng.randrange(0, 18)]
        if c < 0.6:
            return ["int", rng.choice([127, 128, 129, 255, 256, 32767, 32768, 65535, 65536, 2 ** 31 - 1, 2 ** 31, 2 ** 32 - 1,
                                       2 ** 32, 2 ** 39, 2 ** 40, 2 ** 63 - 1, 2 ** 63, 0x80, 0x8000, 0x800000, 0x80000000])]
        return ["int", rng.getrandbits(rng.choice([5, 8, 15, 16, 24, 31, 32, 40, 63]))]
    n = rng.choice([0, 1, 2, 20, 32, 33, 64, 65, 71, 72, 73, 74, 75, 76, 77, 100, 254, 255, 256, 257, 520])
    if big and rng.random() < 0.15:
        n = rng.choice([65535, 65536, 70000, rng.randrange(600, 70000)])
    return ["data", rand_data(rng, n)]


def rand_script(rng, maxlen=60, big=False, names=DIS_NAMES):
    return [rand_token(rng, big, names) for _ in range(rng.randrange(0, maxlen + 1))]
