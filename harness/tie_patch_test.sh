#!/bin/sh
# Self-test helper (not a registered check): for each patch file given, apply it to a scratch copy of /repo's
# package, run the source translator on it and rebuild the tie proofs; print which functions became
# untranslatable (soft: the tie is dropped for that run) and which tie proofs broke although the function
# translated (hard: the check would report it).  Holds the build lock; restores coq/Gen/Src.v at the end.
# usage: harness/tie_patch_test.sh PATCH...
V=$(cd "$(dirname "$0")/.." && pwd)
exec 9>"$V/.build.lock"; flock 9
S=$(mktemp -d /tmp/tiepatch.XXXXXX)
for p in "$@"; do
  rm -rf "$S/r"; mkdir -p "$S/r"; cp -r /repo/bitcoinutils "$S/r/"
  (cd "$S/r" && patch -p1 -s < "$p") || { echo "$p: patch failed"; continue; }
  out=$(/venv/bin/python "$V/harness/gen_src.py" "$S/r" | grep -v GEN_SRC_CHANGED | tr '\n' ' ')
  (cd "$V/coq" && timeout 1800 make -k -j8 > "$S/make.log" 2>&1)
  fails=$(grep -o 'File "./[^"]*"' "$S/make.log" | sort -u | tr '\n' ' ')
  echo "$p: $out | failing: $fails"
done
/venv/bin/python "$V/harness/gen_src.py" /repo > /dev/null
(cd "$V/coq" && timeout 1800 make -j8 > /dev/null 2>&1)
rm -rf "$S"
