"""Which of the anchored code did a check actually execute?

properties.jsonl anchors every property in line ranges of the pinned snapshot.  `build_map` (run once,
result committed as harness/anchor_funcs.json) turns those ranges into qualified function names by
reading the pinned commit's files; `measure` re-runs a sample of a check's implementation cases in this
process under coverage.py and reports, per anchored function of the CURRENT tree, executed/executable
body lines and the lines never reached.  It is bookkeeping for the evidence file, never a verdict."""
import ast, json, os, re, subprocess, sys

ROOT = os.path.dirname(os.path.dirname(os.path.abspath(__file__)))
MAP = os.path.join(ROOT, "harness", "anchor_funcs.json")
PINNED = "6210c02"


def _functions(src):
    """[(qualname, first_line, last_line, body_first_line)] for every def in src."""
    out = []

    def walk(node, prefix):
        for n in ast.iter_child_nodes(node):
            if isinstance(n, (ast.FunctionDef, ast.AsyncFunctionDef)):
                body = n.body
                if body and isinstance(body[0], ast.Expr) and isinstance(getattr(body[0], "value", None), ast.Constant) \
                        and isinstance(body[0].value.value, str):
                    body = body[1:]
                first = body[0].lineno if body else n.end_lineno + 1
                start = min([n.lineno] + [d.lineno for d in n.decorator_list])
                out.append((prefix + n.name, start, n.end_lineno, first))
                walk(n, prefix + n.name + ".")
            elif isinstance(n, ast.ClassDef):
                walk(n, prefix + n.name + ".")
    walk(ast.parse(src), "")
    return out


def build_map(repo="/repo"):
    res = {}
    for l in open(os.path.join(ROOT, "properties.jsonl")):
        p = json.loads(l)
        funcs = []
        for m in p["anchors"]["mechanism"]:
            for part in m["where"].split(";"):
                part = part.strip()
                if ":" not in part:
                    continue
                f, ranges = part.split(":", 1)
                f = f.strip()
                src = subprocess.run(["git", "-C", repo, "show", "%s:%s" % (PINNED, f)], capture_output=True,
                                     text=True).stdout
                fl = _functions(src)
                for r in ranges.split(","):
                    mm = re.match(r"\s*(\d+)(?:-(\d+))?", r)
                    if not mm:
                        continue
                    a = int(mm.group(1)); b = int(mm.group(2) or a)
                    for (q, s, e, _) in fl:
                        if s <= b and e >= a and [f, q] not in funcs:
                            # innermost functions only when a class-level range hits many: keep all overlaps
                            funcs.append([f, q])
        res[p["id"]] = funcs
    json.dump(res, open(MAP, "w"), indent=1)
    return res


def measure(mod, descs, repo, run_one, limit=1500, budget_s=20.0):
    """Run up to `limit` evenly spaced cases through run_one under coverage; report per anchored function."""
    import coverage
    amap = json.load(open(MAP)).get(mod.PID, [])
    if not amap:
        return None
    step = max(1, len(descs) // limit)
    sample = descs[::step][:limit]
    cov = coverage.Coverage(data_file=None, include=[os.path.join(os.path.realpath(repo), "bitcoinutils", "*")],
                            branch=False)
    import time
    t0 = time.time(); ran = 0
    cov.start()
    try:
        for d in sample:
            if time.time() - t0 > budget_s:
                break
            ran += 1
            try:
                run_one(d)
            except BaseException as e:
                if isinstance(e, (KeyboardInterrupt, SystemExit, MemoryError)):
                    raise
    finally:
        cov.stop()
    per = {}
    tot_x = tot_n = 0
    byfile = {}
    for f, q in amap:
        byfile.setdefault(f, []).append(q)
    for f, qs in byfile.items():
        path = os.path.join(os.path.realpath(repo), f)
        try:
            _, stmts, _, missing, _ = cov.analysis2(path)
            fl = {q: (s, e, b) for (q, s, e, b) in _functions(open(path).read())}
        except Exception as e:
            per[f] = "unreadable: %s" % type(e).__name__
            continue
        stmts = set(stmts); missing = set(missing)
        for q in qs:
            if q not in fl:
                per["%s:%s" % (f, q)] = "absent in current tree"
                continue
            s, e, b = fl[q]
            # nested defs' own bodies are reported under their own name only if anchored; keep them here too
            body = sorted(x for x in stmts if b <= x <= e)
            miss = sorted(x for x in body if x in missing)
            tot_n += len(body); tot_x += len(body) - len(miss)
            per["%s:%s" % (f, q)] = {"executed": len(body) - len(miss), "executable": len(body),
                                     "never_reached_lines": miss[:40]}
    return {"sampled_cases": ran, "executed": tot_x, "executable": tot_n, "functions": per}


if __name__ == "__main__":
    m = build_map(sys.argv[1] if len(sys.argv) > 1 else "/repo")
    for k, v in m.items():
        print(k, len(v), [q for _, q in v][:8])
