#!/bin/sh
# MANIFEST.setup_cmd: offline build of the whole framework from files on disk.
set -e
cd "$(dirname "$0")"
PYTHONHASHSEED=0 /venv/bin/python harness/gen_tables.py
PYTHONHASHSEED=0 /venv/bin/python harness/gen_src.py /repo
cd coq
coq_makefile -f _CoqProject -o Makefile >/dev/null
timeout 3000 make -j16 >/dev/null 2>make.err || { tail -30 make.err; exit 1; }
rm -f make.err
cd ..
./ocaml/build.sh
date +%s > ocaml/.stamp
echo '(encode_varint 300)' | ./ocaml/driver | grep -q '^fd2c01$'
echo SETUP_OK
