(* C17 - CompactSize and satoshi amount conversions are exact.  Statements only. *)
From Coq Require Import ZArith List.
From BU Require Import Lib.Bytes Model.Varint Spec.CompactSize Proofs.VarintFacts.
Import ListNotations.
Open Scope Z_scope.

(* encoder = canonical form, for every 0 <= n < 2^64 *)
Theorem C17_canonical : forall n, 0 <= n < 2 ^ 64 -> encode_varint n = Some (spec_compact n).
Proof. exact encode_is_spec. Qed.
Print Assumptions C17_canonical.

(* ... and that form is the shortest one any CompactSize decoder maps to n *)
Theorem C17_shortest : forall b n len,
  wf_bytes b -> spec_decode_any b = Some (n, len) -> (length (spec_compact n) <= len)%nat.
Proof. exact spec_compact_shortest. Qed.
Print Assumptions C17_shortest.

Theorem C17_too_large : forall n, n < 0 \/ 2 ^ 64 <= n -> encode_varint n = None.
Proof. exact encode_rejects. Qed.
Print Assumptions C17_too_large.

(* both decoders invert the encoder whatever follows: value and bytes consumed *)
Theorem C17_parse : forall n rest, 0 <= n < 2 ^ 64 ->
  parse_compact_size (spec_compact n ++ rest) = Some (n, length (spec_compact n)).
Proof. exact parse_spec_compact. Qed.
Print Assumptions C17_parse.

Theorem C17_vi : forall n rest, 0 <= n < 2 ^ 64 ->
  vi_to_int (spec_compact n ++ rest) = Some (n, length (spec_compact n)).
Proof. exact vi_spec_compact. Qed.
Print Assumptions C17_vi.

Theorem C17_prefix_free : forall n m r1 r2, 0 <= n < 2 ^ 64 -> 0 <= m < 2 ^ 64 ->
  spec_compact n ++ r1 = spec_compact m ++ r2 -> n = m /\ r1 = r2.
Proof. exact spec_compact_prefix_free. Qed.
Print Assumptions C17_prefix_free.

Theorem C17_prepend : forall d, Z.of_nat (length d) < 2 ^ 64 ->
  exists pre, prepend_compact_size d = Some (pre ++ d) /\ pre = spec_compact (Z.of_nat (length d)) /\
    parse_compact_size (pre ++ d) = Some (Z.of_nat (length d), length pre) /\
    vi_to_int (pre ++ d) = Some (Z.of_nat (length d), length pre) /\
    skipn (length pre) (pre ++ d) = d.
Proof. exact prepend_parse. Qed.
Print Assumptions C17_prepend.

(* amounts given as Decimal c * 10^-e with at most eight decimals (and int, e = 0) *)
Theorem C17_sat_decimal : forall c e, (e <= 8)%nat -> to_satoshis_dec c e = c * 10 ^ Z.of_nat (8 - e).
Proof. exact to_satoshis_dec_exact. Qed.
Print Assumptions C17_sat_decimal.

(* non-vacuity *)
Example C17_ex : encode_varint 70000 = Some [254; 112; 17; 1; 0] /\ to_satoshis_dec 2099999997690000 8 = 2099999997690000.
Proof. split; reflexivity. Qed.

(* ---- the float path: amounts given as the binary64 nearest to k / 10^8 (what `k / 1e8` or a decimal
   literal with at most eight decimals produces), for every amount up to 21 million BTC.
   Model: Flocq's round-to-nearest-even on FLT_exp(-1074, 53) for the division and the multiplication,
   exact round-half-even for Python's round().  Assumption: CPython floats are IEEE-754 binary64. *)
From Coq Require Import Reals.
From BU Require Import Proofs.SatFloat.
Theorem C17_sat_float : forall k : Z, (0 <= k <= 2100000000000000)%Z -> to_satoshis_float k = k.
Proof. exact sat_float_exact. Qed.
Print Assumptions C17_sat_float.

(* any double within relative distance 2^-52 of k / 10^8 (the 0.1 + 0.2 family), up to 10^15 satoshis *)
Theorem C17_sat_float_near : forall (k : Z) (x : R), (0 <= k <= 10 ^ 15)%Z ->
  (Rabs (x - IZR k / 100000000) <= 2 * Flocq.Core.Raux.bpow Flocq.Core.Zaux.radix2 (-53) * (IZR k / 100000000))%R ->
  py_round (rnd64 (x * 100000000)) = k.
Proof. exact sat_float_near. Qed.
Print Assumptions C17_sat_float_near.
