(* Source tie, statement only: utils.encode_varint as translated from /repo on this run is the model's function on every input. *)
From Coq Require Import String ZArith List Bool.
From BU Require Import Lib.Bytes Lib.PySem Gen.Tables Gen.Src Model.Varint Model.Script Model.Seq Proofs.TieLib Proofs.Tie_encode_varint.
Import ListNotations.
Open Scope list_scope.
Open Scope Z_scope.

Theorem tie_encode_varint : forall i, src_encode_varint i = of_option (encode_varint i).
Proof. exact src_encode_varint_eq. Qed.
Print Assumptions tie_encode_varint.
