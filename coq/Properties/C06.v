(* C06 - ECDSA input signatures: strict DER, low S, low R (the repository's own post-processing of the
   external signer's output).  Statements only. *)
From Coq Require Import ZArith String List.
From BU Require Import Lib.Bytes Model.Der Spec.BIP66 Proofs.DerFacts.
Import ListNotations.
Open Scope list_scope.
Open Scope Z_scope.

(* for every (r, s) with low r returned by the signer as strict DER, and every one-byte hash type:
   the result is the strict DER encoding of (r, min(s, n - s)) followed by exactly the hash type ... *)
Theorem C06_normalise : forall r s ht, 1 <= r < 2 ^ 255 -> 1 <= s < secp_n -> 0 <= ht < 256 ->
  normalise (strict_der r s) ht = Some (strict_der r (normal_s s) ++ [ht]).
Proof. exact normalise_spec. Qed.
Print Assumptions C06_normalise.

(* ... whose s is at most half the group order (BIP62 / BIP146) and still a valid scalar ... *)
Theorem C06_low_s : forall s, 1 <= s < secp_n -> low_s (normal_s s) = true /\ 1 <= normal_s s < secp_n.
Proof. exact normal_s_low. Qed.
Print Assumptions C06_low_s.

(* ... and which Bitcoin Core's IsValidSignatureEncoding (BIP66) accepts *)
Theorem C06_bip66 : forall r s ht, 1 <= r < 2 ^ 256 -> 1 <= s < 2 ^ 256 -> 0 <= ht < 256 ->
  is_valid_signature_encoding (strict_der r s ++ [ht]) = true.
Proof. exact strict_der_valid. Qed.
Print Assumptions C06_bip66.

(* the grinding loop never hands on a signature whose R needs 33 bytes (r >= 2^255); its termination
   is probabilistic and not claimed: exhaustion of the fuel is the value None *)
Theorem C06_low_r : forall fuel signer a sg, grind fuel signer a = Some sg -> exists lr, idx sg 3 = Some lr /\ lr <> 33.
Proof. exact grind_low_r. Qed.
Print Assumptions C06_low_r.

(* the group order used by the code is the curve's *)
Theorem C06_order : order = secp_n.
Proof. exact order_is_n. Qed.
Print Assumptions C06_order.

(* ---- validity is preserved by the low-S rule (over the abstract curve, Spec/Curve.v): a signature
   (r, s) that verifies under Q still verifies after s is replaced by n - s, hence after normalisation.
   Together with C03/C04 (the digest is the consensus one) and the correspondence (the external signer's
   (r, s) verifies under libsecp256k1) this is the "verifies under the signer's public key" clause. *)
From BU Require Import Model.EC Model.Msg Spec.Curve Proofs.EcdsaSymFacts.
Theorem C06_low_s_valid : forall p n add lift G on, curve_laws p n add lift G on ->
  forall inv : Z -> Z, (forall a, a mod n <> 0 -> (a * inv a) mod n = 1) -> (forall a, 0 <= inv a < n) -> n < 2 ^ 256 ->
  forall Q e r s, on Q -> 0 <= e -> ecdsa_verify n add G inv Q e r s = true ->
  ecdsa_verify n add G inv Q e r (if s <=? n / 2 then s else n - s) = true.
Proof. intros p n add lift G on L inv H1 H2 H3. exact (ecdsa_normalised_valid p n add lift G on L inv H1 H2 H3). Qed.
Print Assumptions C06_low_s_valid.
