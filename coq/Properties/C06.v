(* C06 - ECDSA input signatures: strict DER, low S, low R (the repository's own post-processing of the
   external signer's output).  Statements only. *)
From Coq Require Import ZArith String List.
From BU Require Import Lib.Bytes Model.Der Spec.BIP66 Proofs.DerFacts.
Import ListNotations.
Open Scope list_scope.
Open Scope Z_scope.

(* for every (r, s) with low r returned by the signer as strict DER, and every one-byte hash type:
   the result is the strict DER encoding of (r, min(s, n - s)) followed by exactly the hash type ... *)
Theorem C06_normalise : forall r s ht, 1 <= r < 2 ^ 255 -> 1 <= s < secp_n -> 0 <= ht < 256 ->
  normalise (strict_der r s) ht = Some (strict_der r (normal_s s) ++ [ht]).
Proof. exact normalise_spec. Qed.
Print Assumptions C06_normalise.

(* ... whose s is at most half the group order (BIP62 / BIP146) and still a valid scalar ... *)
Theorem C06_low_s : forall s, 1 <= s < secp_n -> low_s (normal_s s) = true /\ 1 <= normal_s s < secp_n.
Proof. exact normal_s_low. Qed.
Print Assumptions C06_low_s.

(* ... and which Bitcoin Core's IsValidSignatureEncoding (BIP66) accepts *)
Theorem C06_bip66 : forall r s ht, 1 <= r < 2 ^ 256 -> 1 <= s < 2 ^ 256 -> 0 <= ht < 256 ->
  is_valid_signature_encoding (strict_der r s ++ [ht]) = true.
Proof. exact strict_der_valid. Qed.
Print Assumptions C06_bip66.

(* the grinding loop never hands on a signature whose R needs 33 bytes (r >= 2^255); its termination
   is probabilistic and not claimed: exhaustion of the fuel is the value None *)
Theorem C06_low_r : forall fuel signer a sg, grind fuel signer a = Some sg -> exists lr, idx sg 3 = Some lr /\ lr <> 33.
Proof. exact grind_low_r. Qed.
Print Assumptions C06_low_r.

(* the group order used by the code is the curve's *)
Theorem C06_order : order = secp_n.
Proof. exact order_is_n. Qed.
Print Assumptions C06_order.
