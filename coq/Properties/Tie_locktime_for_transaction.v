(* Source tie, statement only: Locktime.for_transaction as translated from /repo on this run is the model's function on every input. *)
From Coq Require Import String ZArith List Bool.
From BU Require Import Lib.Bytes Lib.PySem Gen.Tables Gen.Src Model.Varint Model.Script Model.Seq Proofs.TieLib Proofs.Tie_locktime_for_transaction.
Import ListNotations.
Open Scope list_scope.
Open Scope Z_scope.

Theorem tie_locktime_for_transaction : forall v, src_locktime_for_transaction v = of_option (locktime_for_transaction v).
Proof. exact src_locktime_eq. Qed.
Print Assumptions tie_locktime_for_transaction.
