(* Source tie, statements only: Transaction.get_txid, _get_hash (what get_wtxid returns) and get_size as translated from
   /repo on this run are the model's functions, for every transaction and every function in the place of SHA-256. *)
From Coq Require Import String ZArith List Bool.
From BU Require Import Lib.Bytes Lib.PySem Gen.Tables Gen.Src Model.Script Model.Tx Proofs.TieLib Proofs.Tie_tx_ids.
Import ListNotations.
Open Scope list_scope.
Open Scope Z_scope.

Theorem tie_get_txid : forall sha256 v i o w l sw,
  src_get_txid sha256 v i o w l =
  of_option (get_txid sha256 {| tx_version := v; tx_inputs := i; tx_outputs := o; tx_locktime := l; tx_segwit := sw; tx_witnesses := w |}).
Proof. exact src_get_txid_eq. Qed.
Print Assumptions tie_get_txid.
Theorem tie_get_wtxid : forall sha256 v i o w l hs,
  src_get_hash sha256 v i o w l hs =
  of_option (get_wtxid sha256 {| tx_version := v; tx_inputs := i; tx_outputs := o; tx_locktime := l; tx_segwit := hs; tx_witnesses := w |}).
Proof. exact src_get_hash_eq. Qed.
Print Assumptions tie_get_wtxid.
Theorem tie_get_size : forall v i o w l hs,
  src_get_size v i o w l hs =
  of_option (get_size {| tx_version := v; tx_inputs := i; tx_outputs := o; tx_locktime := l; tx_segwit := hs; tx_witnesses := w |}).
Proof. exact src_get_size_eq. Qed.
Print Assumptions tie_get_size.
