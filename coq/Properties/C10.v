(* C10 - Base58Check addresses (P2PKH, P2SH) round-trip and are validated, per network.  Statements only. *)
From Coq Require Import ZArith String List.
From BU Require Import Lib.Bytes Gen.Tables Model.Base58 Model.Keys Model.Address Proofs.KeysFacts.
Import ListNotations.
Open Scope list_scope.
Open Scope Z_scope.

Section C10.
  Variable sha256 : bytes -> bytes.
  Hypothesis Hlen : forall x, length (sha256 x) = 32%nat.
  Hypothesis Hwf : forall x, wf_bytes (sha256 x).

  (* acceptance = the Base58Check definition, on EVERY string: valid checksum, the version byte of that address
     type on the configured network, a 20-byte payload (within the library's 26..35 character window) *)
  Theorem C10_accept_iff : forall ty net pre s, version_prefix ty net = Some pre ->
    (is_address_valid sha256 ty net s = true <->
     exists h, length h = 20%nat /\ wf_bytes h /\ s = b58encode ((pre ++ h) ++ dsha4 sha256 (pre ++ h)) /\ (26 <= length s <= 35)%nat).
  Proof. exact (address_accept_iff sha256 Hlen Hwf). Qed.

  (* the string of a 20-byte hash is accepted and decodes to the hash that produced it *)
  Theorem C10_roundtrip : forall ty net h s, length h = 20%nat -> wf_bytes h ->
    address_to_string sha256 ty net h = Some s -> (26 <= length s)%nat ->
    is_address_valid sha256 ty net s = true /\ address_from_string sha256 ty net s = Some h.
  Proof. exact (address_roundtrip sha256 Hlen Hwf). Qed.

  (* length window: never more than 35 characters, at least 26 unless version byte and hash are all zero *)
  Theorem C10_length : forall ty net h s, length h = 20%nat -> wf_bytes h -> address_to_string sha256 ty net h = Some s ->
    (length s <= 35)%nat /\
    ((exists x, In x (match version_prefix ty net with Some pre => pre ++ h | None => [] end) /\ x <> 0) -> (26 <= length s)%nat).
  Proof. exact (address_length sha256 Hlen Hwf). Qed.

  (* an address derived from a public key commits to the HASH160 of the chosen SEC encoding (definitional
     in the model: pub_to_hash160 = RIPEMD160(SHA256(encoding)), RIPEMD-160 proved in C20) *)
  Theorem C10_pubkey_address : forall compressed P, pub_to_hash160 sha256 compressed P = option_map (hash160 sha256) (pub_to_bytes compressed P).
  Proof. reflexivity. Qed.
End C10.
Print Assumptions C10_accept_iff.
Print Assumptions C10_roundtrip.
Print Assumptions C10_length.
Print Assumptions C10_pubkey_address.

(* the all-zero hash on mainnet, the one case C10_length leaves open (executed with the concrete SHA-256) *)
From BU Require Import Crypto.Sha256 Proofs.AddressExamples.
Theorem C10_zero_hash_example :
  option_map (@length Z) (address_to_string Crypto.Sha256.sha256 P2PKH "mainnet"%string (repeat 0 20)) = Some 27%nat /\
  (match address_to_string Crypto.Sha256.sha256 P2PKH "mainnet"%string (repeat 0 20) with
   | Some s => address_from_string Crypto.Sha256.sha256 P2PKH "mainnet"%string s
   | None => None
   end) = Some (repeat 0 20).
Proof. exact zero_hash_mainnet. Qed.
Print Assumptions C10_zero_hash_example.

