(* Source tie, statement only: Script._push_integer as translated from /repo on this run is the model's function on every input. *)
From Coq Require Import String ZArith List Bool.
From BU Require Import Lib.Bytes Lib.PySem Gen.Tables Gen.Src Model.Varint Model.Script Model.Seq Proofs.TieLib Proofs.Tie_push_integer.
Import ListNotations.
Open Scope list_scope.
Open Scope Z_scope.

Theorem tie_push_integer : forall n, src_push_integer n = of_option (push_integer n).
Proof. exact src_push_integer_eq. Qed.
Print Assumptions tie_push_integer.
