(* Source tie, statement only: Sequence.__init__ as translated from /repo on this run is the model's function on every input. *)
From Coq Require Import String ZArith List Bool.
From BU Require Import Lib.Bytes Lib.PySem Gen.Tables Gen.Src Model.Varint Model.Script Model.Seq Proofs.TieLib Proofs.Tie_sequence_init.
Import ListNotations.
Open Scope list_scope.
Open Scope Z_scope.

Theorem tie_sequence_init : forall ty v blk,
  src_sequence_init ty v blk = match mk_sequence ty v blk with
  | Some s => Ok (Some (seq_type s), Some (seq_value s), Some (seq_is_block s)) | None => Raise end.
Proof. exact src_sequence_init_eq. Qed.
Print Assumptions tie_sequence_init.

(* the third constructor argument defaults to block units *)
Theorem tie_sequence_default_is_block :
  (fix assoc (k : string) (l : list (string * list string)) := match l with
     | [] => None | (a, v) :: r => if String.eqb a k then Some v else assoc k r end)
    "src_sequence_init"%string arg_defaults = Some ["True"%string] \/ In "src_sequence_init"%string untranslated.
Proof. exact src_sequence_default_is_block. Qed.
Print Assumptions tie_sequence_default_is_block.
