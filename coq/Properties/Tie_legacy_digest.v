(* Source tie, statement only: Transaction.get_transaction_digest (the legacy signature hash) as translated from /repo on
   this run -- copy, blanking of every scriptSig, the signed input's script, the NONE / SINGLE rewriting of outputs and of
   the other inputs' sequences, ANYONECANPAY, serialisation without witnesses, 4-byte hash type, double hash; including
   the refusal for SINGLE without a matching output -- is the model's function for every transaction, non-negative input
   index, script code and hash type, and every function in the place of SHA-256.  The imperative updates of the copied
   object are read as functional updates of its input and output lists (harness/gen_src.py, "mutation"); that the copy is
   faithful and separate from the original is C13's subject; Script.to_bytes is the model's (C02). *)
From Coq Require Import String ZArith List Bool.
From BU Require Import Lib.Bytes Lib.PySem Gen.Tables Gen.Src Model.Script Model.Tx Model.Sighash Proofs.TieLib Proofs.Tie_legacy_digest.
Import ListNotations.
Open Scope list_scope.
Open Scope Z_scope.

Theorem tie_legacy_digest : forall sha256 (i : nat) sc ht v ins outs w l sw,
  src_legacy_digest sha256 (Z.of_nat i) sc ht v ins outs w l =
  of_option (legacy_digest sha256 {| tx_version := v; tx_inputs := ins; tx_outputs := outs; tx_locktime := l; tx_segwit := sw; tx_witnesses := w |} i sc ht).
Proof. exact src_legacy_digest_eq. Qed.
Print Assumptions tie_legacy_digest.
