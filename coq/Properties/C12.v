(* C12 - locking scripts and script-hash addresses commit to the intended key/script.  Statements only. *)
From Coq Require Import ZArith String List.
From BU Require Import Lib.Bytes Model.Script Model.Keys Model.Address Proofs.KeysFacts.
Import ListNotations.
Open Scope list_scope.
Open Scope Z_scope.

(* byte-exact standard templates for every 20/32-byte payload *)
Theorem C12_templates : forall h20 h32, length h20 = 20%nat -> length h32 = 32%nat ->
  to_bytes (spk_p2pkh h20) = Some ([118; 169; 20] ++ h20 ++ [136; 172]) /\
  to_bytes (spk_p2sh h20) = Some ([169; 20] ++ h20 ++ [135]) /\
  to_bytes (spk_segwit P2WPKH h20) = Some ([0; 20] ++ h20) /\
  to_bytes (spk_segwit P2WSH h32) = Some ([0; 32] ++ h32) /\
  to_bytes (spk_segwit P2TR h32) = Some ([81; 32] ++ h32).
Proof. exact spk_templates. Qed.
Print Assumptions C12_templates.

(* the script-to-P2SH / script-to-P2WSH helpers equal the locking script of the address created from the same
   script; the hash is over the script's exact byte encoding *)
Theorem C12_helpers_agree : forall (sha256 : bytes -> bytes) s,
  to_p2sh_script_pub_key (hash160 sha256) s = option_map spk_p2sh (script_to_hash160 sha256 s) /\
  to_p2wsh_script_pub_key sha256 s = option_map (spk_segwit P2WSH) (script_to_sha256 sha256 s).
Proof. exact script_helpers_agree. Qed.
Print Assumptions C12_helpers_agree.
