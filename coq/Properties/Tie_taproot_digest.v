(* Source tie, statement only: Transaction.get_transaction_taproot_digest (BIP341 signature message with the BIP342
   extension) as translated from /repo on this run -- hash-type and extension case analysis, the five loops, the message
   layout, the two tagged hashes -- is the model's function for every transaction, every non-negative input index, lists
   of spent scripts and amounts, extension flag, leaf script and hash type, and every function in the place of SHA-256.
   (`tmp_tx = Transaction.copy(self)` is read as "the same field values": that copies are faithful and separate is C13's
   subject; Script.to_bytes is the model's, tied by C02; the `leaf_ver` argument is ignored by the code, and by the model.) *)
From Coq Require Import String ZArith List Bool.
From BU Require Import Lib.Bytes Lib.PySem Gen.Tables Gen.Src Model.Script Model.Tx Model.Sighash Proofs.TieLib Proofs.Tie_taproot_digest.
Import ListNotations.
Open Scope list_scope.
Open Scope Z_scope.

Theorem tie_taproot_digest : forall sha256 (i : nat) spks ams ext sc lv ht v ins outs l sw w,
  src_taproot_digest sha256 (Z.of_nat i) spks ams ext sc lv ht v ins outs l =
  of_option (taproot_digest sha256 {| tx_version := v; tx_inputs := ins; tx_outputs := outs; tx_locktime := l; tx_segwit := sw; tx_witnesses := w |}
               i spks ams ext sc ht).
Proof. exact src_taproot_digest_eq. Qed.
Print Assumptions tie_taproot_digest.
