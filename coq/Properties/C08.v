(* C08 - taproot addresses and control blocks commit to key and script tree per BIP341.  Statements only. *)
From Coq Require Import ZArith String List.
From BU Require Import Lib.Bytes Model.Script Model.EC Model.Sighash Model.Taproot Spec.BIP341 Spec.Curve
  Proofs.TxFacts Proofs.MerkleFacts.
Import ListNotations.
Open Scope list_scope.
Open Scope Z_scope.

Section C08.
  Variable sha256 : bytes -> bytes.
  Hypothesis Hlen : forall x, length (sha256 x) = 32%nat.   (* the control block is cut into 32-byte hashes *)

  (* root of any proper tree (single script, nested one- and two-element lists) = BIP341's tree root:
     TapLeaf hashes (version 0xc0, CompactSize script) joined by TapBranch hashes of the sorted children *)
  Theorem C08_root : forall t st, proper t -> to_stree t = Some st ->
    (forall s sb, In s (leaves t) -> to_bytes s = Some sb -> Z.of_nat (length sb) < two64) ->
    merkle_root sha256 t = Some (tree_root sha256 (str_bytes "TapLeaf") (str_bytes "TapBranch") st).
  Proof. exact (merkle_root_spec sha256 Hlen). Qed.

  (* for every tree and every leaf position the generated path, folded from the leaf hash, recomputes the
     root; duplicated leaves and wrappers included *)
  Theorem C08_path_recomputes : forall t st k s sb, proper t -> to_stree t = Some st ->
    (forall s0 sb0, In s0 (leaves t) -> to_bytes s0 = Some sb0 -> Z.of_nat (length sb0) < two64) ->
    nth_error (leaves t) k = Some s -> to_bytes s = Some sb ->
    exists path, generate_merkle_path sha256 t (Z.of_nat k) = Some path /\ (length path mod 32 = 0)%nat /\
      fold_left (branch_hash sha256 (str_bytes "TapBranch")) (chunks32 (length path) path)
                (leaf_hash sha256 (str_bytes "TapLeaf") 192 sb)
      = tree_root sha256 (str_bytes "TapLeaf") (str_bytes "TapBranch") st.
  Proof. exact (merkle_path_recomputes sha256 Hlen). Qed.

  (* over the abstract curve: the control block generated for leaf k, with the address's own parity flag,
     lets the BIP341 script-path verifier recompute exactly the address's witness program.
     Premises: the tree is at most 128 levels deep (BIP341's limit) and the tweak is below the group
     order (the library checks neither; the second fails with probability 2^-128). *)
  Theorem C08_control_verifies : forall p n add lift G on px py t st k s sb odd cb wp,
    curve_laws p n add lift G on -> on (Some (px, py)) -> proper t -> to_stree t = Some st ->
    small_scripts t -> (depth t <= 128)%nat ->
    nth_error (leaves t) k = Some s -> to_bytes s = Some sb ->
    control_block sha256 (px, py) t (Z.of_nat k) odd = Some cb ->
    to_taproot sha256 add G p (px, py) (STree t) = Some (wp, odd) ->
    (forall tw, calculate_tweak sha256 (px, py) (STree t) = Some tw -> tw < n) ->
    verify_script_path sha256 n add lift G (str_bytes "TapLeaf") (str_bytes "TapBranch") (str_bytes "TapTweak") cb sb wp = true.
  Proof. intros p n add lift G on. intros. eapply (control_block_verifies sha256 Hlen p n add lift G on); eauto. Qed.
End C08.
Print Assumptions C08_root.
Print Assumptions C08_path_recomputes.
Print Assumptions C08_control_verifies.
