(* C15 - block and header parsing is faithful to the raw block.  Statements only. *)
From Coq Require Import ZArith String List.
From BU Require Import Lib.Bytes Model.Tx Model.Block Spec.CompactSize Proofs.TxFacts Proofs.BlockFacts.
Import ListNotations.
Open Scope list_scope.
Open Scope Z_scope.

(* every 80-byte header parses, and re-serialising gives the same bytes *)
Theorem C15_header_roundtrip : forall b, wf_bytes b -> length b = 80%nat ->
  exists h, header_from_raw b = Some h /\ serialize_header h = Some b.
Proof. exact header_roundtrip. Qed.
Print Assumptions C15_header_roundtrip.

(* fields: little-endian protocol fields, hashes reversed into display order *)
Theorem C15_header_fields : forall b h, length b = 80%nat -> header_from_raw b = Some h ->
  h_version h = le_val (firstn 4 b) /\ h_prev h = rev (firstn 32 (skipn 4 b)) /\
  h_merkle h = rev (firstn 32 (skipn 36 b)) /\ h_time h = le_val (firstn 4 (skipn 68 b)) /\
  h_bits h = le_val (firstn 4 (skipn 72 b)) /\ h_nonce h = le_val (firstn 4 (skipn 76 b)).
Proof.
  intros b h Hl. unfold header_from_raw. rewrite Hl. cbn [Nat.eqb negb].
  change (Nat.eqb 80 (Z.to_nat Gen.Tables.header_size)) with true. cbn [negb].
  intros [= <-]. cbn. unfold slice. cbn [skipn]. repeat split; reflexivity.
Qed.
Print Assumptions C15_header_fields.

(* block hash = byte-reversed double hash of the serialised header (any hash function) *)
Theorem C15_block_hash : forall (sha256 : bytes -> bytes) h,
  get_block_hash sha256 h = option_map (fun b => rev (sha256 (sha256 b))) (serialize_header h).
Proof. reflexivity. Qed.
Print Assumptions C15_block_hash.

(* compact target: bits = e * 2^24 + m expands to m * 256^(e-3) for every exponent >= 3 *)
Theorem C15_target : forall v p mk t n e m, 3 <= e -> 0 <= m < 2 ^ 24 ->
  get_target {| h_version := v; h_prev := p; h_merkle := mk; h_time := t; h_bits := e * 2 ^ 24 + m; h_nonce := n |}
  = Some (m * 256 ^ (e - 3)).
Proof. exact target_spec. Qed.
Print Assumptions C15_target.

(* the independent length scanner agrees with the serialiser, whatever follows *)
Theorem C15_scanner : forall t b rest, wf_tx t -> tx_serialize t = Some b ->
  get_transaction_length (b ++ rest) = Some (length b).
Proof. exact scanner_spec. Qed.
Print Assumptions C15_scanner.

(* a framed block (magic, size, header, count, transactions) parses into every transaction, each equal
   to parsing its own byte slice; unbounded in the number and size of the transactions *)
Theorem C15_block : forall magic sz hdr h txs bss,
  length magic = 4%nat -> 0 <= sz < 2 ^ 32 -> wf_bytes hdr -> length hdr = 80%nat -> header_from_raw hdr = Some h ->
  Forall wf_tx txs -> Forall2 (fun t b => tx_serialize t = Some b) txs bss -> Z.of_nat (length txs) < 2 ^ 64 ->
  block_from_raw (frame magic sz hdr bss) =
  Some {| b_magic := magic; b_size := sz; b_header := h; b_count := Z.of_nat (length txs); b_txs := map canon_tx txs |}
  /\ Forall2 (fun t b => tx_from_raw b = Some (canon_tx t)) txs bss.
Proof.
  intros magic sz hdr h txs bss H1 H2 H3 H4 H5 H6 H7 H8. split; [now apply block_spec|].
  induction H7 as [|t b ts bs Htb _ IH]; constructor.
  - apply tx_roundtrip; [now inversion H6|exact Htb].
  - apply IH; [now inversion H6|cbn [length] in H8; Lia.lia].
Qed.
Print Assumptions C15_block.
