(* Source tie, statement only: utils.vi_to_int as translated from /repo on this run is the model's function on every input. *)
From Coq Require Import String ZArith List Bool.
From BU Require Import Lib.Bytes Lib.PySem Gen.Tables Gen.Src Model.Varint Model.Script Model.Seq Proofs.TieLib Proofs.Tie_vi_to_int.
Import ListNotations.
Open Scope list_scope.
Open Scope Z_scope.

Theorem tie_vi_to_int : forall d, wf_bytes d -> src_vi_to_int d = of_option (pairZ (vi_to_int d)).
Proof. exact src_vi_to_int_eq. Qed.
Print Assumptions tie_vi_to_int.
