(* C02 - script assembly emits canonical bytes and disassembly inverts it.  Statements only. *)
From Coq Require Import ZArith String List.
From BU Require Import Lib.Bytes Gen.Tables Model.Script Spec.Opcodes Spec.ScriptSpec
  Proofs.ScriptTables Proofs.ScriptNumFacts Proofs.ScriptFacts.
Import ListNotations.
Open Scope list_scope.
Open Scope Z_scope.

(* the tables regenerated from the library agree with the consensus numbering, are mutually
   inverse up to aliases, and leave 0x01..0x4b to direct pushes *)
Theorem C02_tables_ok : tables_ok = true.
Proof. exact tables_ok_true. Qed.
Print Assumptions C02_tables_ok.

(* assembly = consensus encoding, for every list of well-formed elements *)
Theorem C02_assemble : forall ts, Forall wf_tok ts -> to_bytes ts = spec_assemble (map to_stok ts).
Proof. exact to_bytes_spec. Qed.
Print Assumptions C02_assemble.

(* the integer payload is a minimally-encoded script number that decodes back to n (all n >= 0) *)
Theorem C02_scriptnum : forall n, 0 <= n ->
  scriptnum_decode_minimal (spec_scriptnum n) = Some n /\ (0 < n -> push_integer_payload n = spec_scriptnum n).
Proof. intros n H. split; [now apply scriptnum_roundtrip|apply payload_is_spec]. Qed.
Print Assumptions C02_scriptnum.

(* disassembling assembled bytes returns the canonical elements, for both values of has_segwit *)
Theorem C02_disassemble : forall ts bs hs,
  Forall wf_tok_dis ts -> to_bytes ts = Some bs -> from_raw bs hs = map canon_tok ts.
Proof. exact from_raw_tokens. Qed.
Print Assumptions C02_disassemble.

(* ... and re-assembling them gives the same bytes *)
Theorem C02_reassemble : forall ts, Forall wf_tok_dis ts -> to_bytes (map canon_tok ts) = to_bytes ts.
Proof. exact canon_to_bytes. Qed.
Print Assumptions C02_reassemble.

(* non-vacuity: a script with an alias, a small int, a sign-padded integer, an empty and a 76-byte push *)
Example C02_ex :
  let ts := [TOp "OP_NOP2"; TInt 5; TInt 128; TData []; TData (repeat 7 76)] in
  to_bytes ts = Some ([177; 85; 2; 128; 0; 0; 76; 76] ++ repeat 7 76) /\
  from_raw ([177; 85; 2; 128; 0; 0; 76; 76] ++ repeat 7 76) true =
    [TOp "OP_CHECKSEQUENCEVERIFY"; TOp "OP_5"; TData [128; 0]; TOp "OP_0"; TData (repeat 7 76)] -> True.
Proof. exact (fun _ => I). Qed.
