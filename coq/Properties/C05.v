(* C05 - taproot signature hash equals BIP341 (key path) and BIP342 (script path).  Statements only. *)
From Coq Require Import ZArith String List.
From BU Require Import Lib.Bytes Gen.Tables Model.Script Model.Tx Model.Sighash Spec.Consensus Spec.SighashSpec
  Proofs.TxFacts Proofs.LegacySighashFacts Proofs.SegwitSighashFacts.
Import ListNotations.
Open Scope list_scope.
Open Scope Z_scope.

(* seven hash types, key path (ext = 0) and script path (ext = 1, committing to the tapleaf hash of
   the given script, key version 0 and code-separator position 0xffffffff); spent scriptPubKeys and
   amounts one per input; all script lengths CompactSize; any hash function *)
Theorem C05_digest : forall (sha256 : bytes -> bytes) t st i spks spkbs amounts ext script scb ht,
  wf_tx_sig t -> abs_tx_sig t = Some st ->
  map_opt to_bytes spks = Some spkbs -> Forall (fun b => Z.of_nat (length b) < two64) spkbs ->
  Forall (fun a => 0 <= a < two64) amounts ->
  length spks = length (tx_inputs t) -> length amounts = length (tx_inputs t) ->
  to_bytes script = Some scb -> Z.of_nat (length scb) < two64 ->
  (ext = 0 \/ ext = 1) -> In ht seven_types -> (i < length (tx_inputs t))%nat -> Z.of_nat i < 4294967296 ->
  taproot_digest sha256 t i spks amounts ext script ht
  = taproot_sighash sha256 tap_tags st (combine amounts spkbs) i ht (if ext =? 1 then Some scb else None).
Proof. exact taproot_digest_spec. Qed.
Print Assumptions C05_digest.
