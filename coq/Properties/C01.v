(* C01 - transaction wire format: encode, parse and re-encode are exact; ids are right.  Statements only. *)
From Coq Require Import ZArith String List.
From BU Require Import Lib.Bytes Model.Script Model.Tx Spec.Consensus Proofs.ScriptFacts Proofs.TxFacts.
Import ListNotations.
Open Scope list_scope.
Open Scope Z_scope.

(* serialisation through the object API = the consensus wire encoding (legacy or BIP144), and the
   witness-stripped serialisation = the legacy encoding; unbounded in counts and sizes *)
Theorem C01_encode : forall t, wf_tx t ->
  exists st, abs_tx t = Some st /\
    tx_serialize t = Some (spec_serialize st) /\
    tx_to_bytes t false = Some (spec_serialize_stripped st).
Proof. exact tx_to_bytes_spec. Qed.
Print Assumptions C01_encode.

(* parsing any such encoding gives back the transaction (scripts in canonical disassembly, witness
   stacks index-aligned, empty stacks included) ... *)
Theorem C01_roundtrip : forall t b, wf_tx t -> tx_serialize t = Some b -> tx_from_raw b = Some (canon_tx t).
Proof. exact tx_roundtrip. Qed.
Print Assumptions C01_roundtrip.

(* ... and re-serialising it reproduces the original bytes, field for field *)
Theorem C01_reserialize : forall t b, wf_tx t -> tx_serialize t = Some b ->
  exists t', tx_from_raw b = Some t' /\ tx_serialize t' = Some b /\ tx_to_bytes t' false = tx_to_bytes t false.
Proof.
  intros t b Hw Hb. exists (canon_tx t). split; [now apply tx_roundtrip|]. split.
  - unfold tx_serialize. change (tx_segwit (canon_tx t)) with (tx_segwit t).
    rewrite canon_tx_bytes; [exact Hb|exact Hw|tauto].
  - apply canon_tx_bytes; [exact Hw|discriminate].
Qed.
Print Assumptions C01_reserialize.

(* txid / wtxid: byte-reversed double hash of the stripped / full encoding, for any hash function *)
Theorem C01_ids : forall (sha256 : bytes -> bytes) t, wf_tx t ->
  exists st, abs_tx t = Some st /\
    get_txid sha256 t = Some (spec_txid sha256 st) /\ get_wtxid sha256 t = Some (spec_wtxid sha256 st).
Proof.
  intros sha t Hw. destruct (tx_to_bytes_spec t Hw) as (st & Ha & Hf & Hs). exists st. split; [exact Ha|].
  unfold get_txid, get_wtxid, spec_txid, spec_wtxid, dsha. now rewrite Hf, Hs.
Qed.
Print Assumptions C01_ids.
