(* Source tie, statements only: BlockHeader.get_target_bits, serialize_header and get_block_hash as translated from
   /repo on this run are the model's functions on every input (SHA-256 arbitrary). *)
From Coq Require Import String ZArith List Bool.
From BU Require Import Lib.Bytes Lib.PySem Gen.Tables Gen.Src Model.Tx Model.Block Proofs.TieLib Proofs.Tie_block_header.
Import ListNotations.
Open Scope list_scope.
Open Scope Z_scope.

(* the target is returned as f"{target:064x}": the translation carries the integer that is printed *)
Theorem tie_get_target_bits : forall bits,
  src_get_target_bits bits = of_option (get_target {| h_version := 0; h_prev := []; h_merkle := []; h_time := 0; h_bits := bits; h_nonce := 0 |}).
Proof. exact src_get_target_bits_eq. Qed.
Print Assumptions tie_get_target_bits.
Theorem tie_serialize_header : forall v p m t b n,
  src_serialize_header v p m t b n =
  of_option (serialize_header {| h_version := v; h_prev := p; h_merkle := m; h_time := t; h_bits := b; h_nonce := n |}).
Proof. exact src_serialize_header_eq. Qed.
Print Assumptions tie_serialize_header.
Theorem tie_get_block_hash : forall sha256 v p m t b n,
  src_get_block_hash sha256 v p m t b n =
  of_option (get_block_hash sha256 {| h_version := v; h_prev := p; h_merkle := m; h_time := t; h_bits := b; h_nonce := n |}).
Proof. exact src_get_block_hash_eq. Qed.
Print Assumptions tie_get_block_hash.
