(* Source tie, statement only: Transaction.get_transaction_segwit_digest (BIP143) as translated from /repo on this run --
   the hash-type case analysis, the three loops, the preimage layout, the final double hash -- is the model's function for
   every transaction, every non-negative input index, script code, amount and hash type, and every function in the place
   of SHA-256.  (Script.to_bytes is the model's, tied by C02; a negative index is Python list indexing from the end and is
   outside this statement.) *)
From Coq Require Import String ZArith List Bool.
From BU Require Import Lib.Bytes Lib.PySem Gen.Tables Gen.Src Model.Script Model.Tx Model.Sighash Proofs.TieLib Proofs.Tie_segwit_digest.
Import ListNotations.
Open Scope list_scope.
Open Scope Z_scope.

Theorem tie_segwit_digest : forall sha256 (i : nat) sc am ht v ins outs l sw w,
  src_segwit_digest sha256 (Z.of_nat i) sc am ht v ins outs l =
  of_option (segwit_digest sha256 {| tx_version := v; tx_inputs := ins; tx_outputs := outs; tx_locktime := l; tx_segwit := sw; tx_witnesses := w |} i sc am ht).
Proof. exact src_segwit_digest_eq. Qed.
Print Assumptions tie_segwit_digest.
