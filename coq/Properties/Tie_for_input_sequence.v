(* Source tie, statement only: Sequence.for_input_sequence as translated from /repo on this run is the model's function on every input. *)
From Coq Require Import String ZArith List Bool.
From BU Require Import Lib.Bytes Lib.PySem Gen.Tables Gen.Src Model.Varint Model.Script Model.Seq Proofs.TieLib Proofs.Tie_for_input_sequence.
Import ListNotations.
Open Scope list_scope.
Open Scope Z_scope.

Theorem tie_for_input_sequence : forall ty v blk,
  src_for_input_sequence ty v blk =
  match for_input_sequence {| seq_type := ty; seq_value := v; seq_is_block := blk |} with
  | SeqBytes b => Ok b | SeqNone => RetNone | SeqErr => Raise end.
Proof. exact src_for_input_sequence_eq. Qed.
Print Assumptions tie_for_input_sequence.
