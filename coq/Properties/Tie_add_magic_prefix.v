(* Source tie, statement only: utils.add_magic_prefix as translated from /repo on this run is the model's function on every input. *)
From Coq Require Import String ZArith List Bool.
From BU Require Import Lib.Bytes Lib.PySem Gen.Tables Gen.Src Model.Varint Model.Script Model.Seq Model.Tx Model.Sighash Model.Msg Model.Taproot Proofs.TieLib Proofs.Tie_add_magic_prefix.
Import ListNotations.
Open Scope list_scope.
Open Scope Z_scope.

Theorem tie_add_magic_prefix : forall m, src_add_magic_prefix m = of_option (add_magic_prefix m).
Proof. exact src_add_magic_prefix_eq. Qed.
Print Assumptions tie_add_magic_prefix.
