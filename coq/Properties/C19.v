(* C19 - HD wallet keys equal BIP32/BIP39 derivation on the configured network.  Statements only.
   The repository's part is a wrapper; the `hdwallet` package is represented by an abstract state machine
   over any child-key-derivation function ckd (BIP32 CKDpriv is validated by the correspondence). *)
From Coq Require Import ZArith String List.
From BU Require Import Lib.Bytes Gen.Tables Model.HD Proofs.HDFacts.
Import ListNotations.
Open Scope Z_scope.

(* any sequence of path changes on one wallet object: the key handed back is derived from the ROOT by the
   last path (never from the previous child) *)
Theorem C19_paths : forall (key : Type) (ckd : key -> Z -> key) ps s p0,
  let s' := fold_left (hd_from_path key ckd) ps (hd_from_path key ckd s p0) in
  p_root key s' = p_root key s /\
  p_cur key s' = option_map (fun r => derive key ckd r (last ps p0)) (p_root key s) /\
  p_mainnet key s' = p_mainnet key s.
Proof. exact paths_from_root. Qed.
Print Assumptions C19_paths.

(* construction: extended key + path derives path from that key; a mnemonic gives its root *)
Theorem C19_init : forall (key : Type) (ckd : key -> Z -> key) mainnet x p r,
  p_cur key (hd_init key ckd mainnet (Some x) (Some p) None) = Some (derive key ckd x p) /\
  p_cur key (hd_init key ckd mainnet None None (Some r)) = Some r.
Proof. intros. split; [apply init_xprv|apply init_mnemonic]. Qed.
Print Assumptions C19_init.

(* the returned key imports on the configured network, for all four networks of the generated table *)
Theorem C19_network : forall (key : Type) net (s : pkg key), In net networks -> p_mainnet key s = is_mainnet net ->
  hd_get_private_key key net s = p_cur key s.
Proof. exact handover_network. Qed.
Print Assumptions C19_network.
