(* Source tie, statement only: utils.tapbranch_tagged_hash as translated from /repo on this run is the model's function on every input. *)
From Coq Require Import String ZArith List Bool.
From BU Require Import Lib.Bytes Lib.PySem Gen.Tables Gen.Src Model.Varint Model.Script Model.Seq Model.Tx Model.Sighash Model.Msg Model.Taproot Proofs.TieLib Proofs.Tie_tapbranch_tagged_hash.
Import ListNotations.
Open Scope list_scope.
Open Scope Z_scope.

Theorem tie_tapbranch_tagged_hash : forall sha256 a b,
  src_tapbranch_tagged_hash sha256 a b = Ok (tapbranch_tagged_hash sha256 a b).
Proof. exact src_tapbranch_tagged_hash_eq. Qed.
Print Assumptions tie_tapbranch_tagged_hash.
