(* Source tie, statement only: utils.tagged_hash and schnorr.tagged_hash as translated from /repo on this run is the model's function on every input. *)
From Coq Require Import String ZArith List Bool.
From BU Require Import Lib.Bytes Lib.PySem Gen.Tables Gen.Src Model.Varint Model.Script Model.Seq Model.Tx Model.Sighash Model.Msg Model.Taproot Proofs.TieLib Proofs.Tie_tagged_hash.
Import ListNotations.
Open Scope list_scope.
Open Scope Z_scope.

(* for every hash function in the place of SHA-256 *)
Theorem tie_tagged_hash : forall sha256 data tag, src_tagged_hash sha256 data tag = Ok (tagged_hash sha256 data tag).
Proof. exact src_tagged_hash_eq. Qed.
Print Assumptions tie_tagged_hash.
Theorem tie_schnorr_tagged_hash : forall sha256 tag msg, src_schnorr_tagged_hash sha256 tag msg = Ok (tagged_hash sha256 msg tag).
Proof. exact src_schnorr_tagged_hash_eq. Qed.
Print Assumptions tie_schnorr_tagged_hash.
