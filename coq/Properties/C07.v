(* C07 - taproot Schnorr signatures verify for the committed output key or leaf key.  Statements only.
   Over the abstract prime-order curve of Spec/Curve.v (premise curve_laws; instantiated on a toy curve in
   Proofs/ToyCurve.v); the code's second copy of the parameters (order, field) is instantiated with n, p. *)
From Coq Require Import ZArith String List.
From BU Require Import Lib.Bytes Gen.Tables Model.EC Model.Schnorr Model.Taproot Spec.Curve Proofs.CurveFacts Proofs.ToyCurve.
Import ListNotations.
Open Scope list_scope.
Open Scope Z_scope.

(* the algebraic heart: for every secret d and every tweak t, (d or n-d by the parity of d*G) + t is the
   discrete logarithm of lift_x(d*G) + t*G *)
Theorem C07_tweak_agrees : forall p n add lift G on, curve_laws p n add lift G on ->
  forall d t px py, 1 <= d < n -> smul p add d G = Some (px, py) ->
  let d' := if Z.even py then d else n - d in
  add (Some (px, if Z.even py then py else p - py)) (smul p add t G) = smul p add ((d' + t) mod n) G.
Proof. exact tweak_agrees. Qed.
Print Assumptions C07_tweak_agrees.

(* the code's two tweak functions agree: the tweaked private key's point has the tweaked public key's x,
   the returned y is the even one and the odd flag is the parity of the actual point *)
Theorem C07_tweak_model : forall p n add lift G on, curve_laws p n add lift G on ->
  forall key t px py kb qx qy odd, n < 2 ^ 256 -> p < 2 ^ 256 -> wf_bytes key -> length key = 32%nat -> 0 <= t < 2 ^ 256 ->
  full_pubkey_gen n add G key = Some (px, py) ->
  tweak_taproot_privkey n add G n key t = Some kb ->
  tweak_taproot_pubkey add G p (px, py) t = Some (qx, qy, odd) ->
  exists y, smul p add (be_val kb) G = Some (qx, y) /\ (y = qy \/ y = p - qy) /\ Z.even qy = true /\ odd = negb (Z.even y).
Proof. exact taproot_tweak_model. Qed.
Print Assumptions C07_tweak_model.

(* a key-path signature (any script-tree argument: none, tree, raw root) is a valid BIP340 signature for
   exactly the witness program the address of d*G with the same argument commits to, whatever the parities;
   64 bytes for the default hash type, 65 ending in the hash type otherwise *)
Theorem C07_keypath_verifies : forall p n add lift G on, curve_laws p n add lift G on ->
  forall sha256 : bytes -> bytes, (forall x, length (sha256 x) = 32%nat) -> (forall x, wf_bytes (sha256 x)) ->
  forall key digest ht sc sig xb odd pub, n < 2 ^ 256 -> p < 2 ^ 256 -> wf_bytes key -> length key = 32%nat ->
  full_pubkey_gen n add G key = Some pub ->
  sign_taproot sha256 p n add lift G n key digest ht sc true = Some sig ->
  to_taproot sha256 add G p pub sc = Some (xb, odd) ->
  schnorr_verify sha256 p n add lift G digest xb (firstn 64 sig) = Some true /\
  (ht = taproot_sighash_all -> length sig = 64%nat) /\
  (ht <> taproot_sighash_all -> length sig = 65%nat /\ last sig 0 = ht).
Proof. exact keypath_signature_verifies. Qed.
Print Assumptions C07_keypath_verifies.

(* a script-path signature (no tweak) verifies under the signer's x-only key: this is BIP340's
   sign-then-verify; signing itself can only fail for a zero nonce (C20_sign_total) *)
Theorem C07_scriptpath_verifies : forall p n add lift G (sha256 : bytes -> bytes) msg key aux sig,
  schnorr_sign sha256 p n add lift G msg key aux = Some sig ->
  exists px py, full_pubkey_gen n add G key = Some (px, py) /\
    schnorr_verify sha256 p n add lift G msg (be_bytes 32 px) sig = Some true /\ length sig = 64%nat.
Proof. exact schnorr_sign_verifies. Qed.
Print Assumptions C07_scriptpath_verifies.

(* non-vacuity: the premises are satisfiable by the model's own formulas (toy curve y^2 = x^3 + 7 over F_79) *)
Example C07_toy : forall d t px py, 1 <= d < tn -> smul tp (point_add tp) d tG = Some (px, py) ->
  point_add tp (Some (px, if Z.even py then py else tp - py)) (smul tp (point_add tp) t tG)
  = smul tp (point_add tp) (((if Z.even py then d else tn - d) + t) mod tn) tG.
Proof. exact (tweak_agrees tp tn (point_add tp) (lift_x tp) tG toy_on toy_curve_laws). Qed.
