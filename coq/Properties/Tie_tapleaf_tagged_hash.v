(* Source tie, statement only: utils.tapleaf_tagged_hash as translated from /repo on this run is the model's function on every input. *)
From Coq Require Import String ZArith List Bool.
From BU Require Import Lib.Bytes Lib.PySem Gen.Tables Gen.Src Model.Varint Model.Script Model.Seq Model.Tx Model.Sighash Model.Msg Model.Taproot Proofs.TieLib Proofs.Tie_tapleaf_tagged_hash.
Import ListNotations.
Open Scope list_scope.
Open Scope Z_scope.

(* modulo Script.to_bytes, which the translation takes from the model (tied by C02) *)
Theorem tie_tapleaf_tagged_hash : forall sha256 s,
  src_tapleaf_tagged_hash sha256 s = of_option (tapleaf_tagged_hash sha256 s).
Proof. exact src_tapleaf_tagged_hash_eq. Qed.
Print Assumptions tie_tapleaf_tagged_hash.
