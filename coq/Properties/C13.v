(* C13 - digests and signing are pure and order-independent; copies share no state.  Statements only. *)
From Coq Require Import ZArith String List Permutation.
From BU Require Import Lib.Bytes Model.Script Model.Tx Model.Sighash Model.Order Model.Heap Proofs.OrderFacts.
Import ListNotations.
Open Scope list_scope.

(* no digest (legacy, segwit v0, taproot; any hash type) depends on scriptSigs or witnesses already
   attached: transactions with the same skeleton (version, outputs, locktime, flag, and per input
   txid / vout / sequence) have the same digest *)
Theorem C13_digest_ignores_attachments : forall (sha256 : bytes -> bytes) t t' i k,
  same_skeleton t t' -> digest_of sha256 t i k = digest_of sha256 t' i k.
Proof. exact digest_ignores_attachments. Qed.
Print Assumptions C13_digest_ignores_attachments.

(* every interleaving: for operations with pairwise distinct targets, any permutation of "sign input i and
   store the result in scriptSig i / witness slot i" yields the same final transaction *)
Theorem C13_order_independent : forall (sha256 : bytes -> bytes) (signer : nat -> bytes -> bytes) ops ops' t,
  Permutation ops ops' -> NoDup (map target ops) ->
  run sha256 signer ops t = run sha256 signer ops' t.
Proof. exact run_order_independent. Qed.
Print Assumptions C13_order_independent.

(* operations never touch version, outputs, locktime or the flag, and leave outpoints and sequences alone *)
Theorem C13_run_skeleton : forall (sha256 : bytes -> bytes) (signer : nat -> bytes -> bytes) ops t,
  same_skeleton t (run sha256 signer ops t).
Proof. exact run_skeleton. Qed.
Print Assumptions C13_run_skeleton.

(* store model: Transaction.copy allocates every mutable cell afresh (Script objects, their lists, inputs,
   outputs, witness objects and stacks, the three lists): equal value, no shared cell *)
Theorem C13_copy_separated : forall t c t' c', below c (locs_tx t) -> copy_tx t c = (t', c') ->
  val_tx t' = val_tx t /\ above c (locs_tx t') /\ below c' (locs_tx t') /\ (c <= c')%nat /\ NoDup (locs_tx t') /\
  (forall l, In l (locs_tx t) -> ~ In l (locs_tx t')).
Proof. exact copy_tx_separated. Qed.
Print Assumptions C13_copy_separated.

(* hence a write to any cell of the copy cannot affect the original, and vice versa *)
Theorem C13_mutation_isolated : forall t c t' c' l, below c (locs_tx t) -> copy_tx t c = (t', c') ->
  (affects l (locs_tx t') -> ~ affects l (locs_tx t)) /\ (affects l (locs_tx t) -> ~ affects l (locs_tx t')).
Proof. exact mutation_isolated. Qed.
Print Assumptions C13_mutation_isolated.

(* two independently (default-)constructed inputs share no Script *)
Theorem C13_fresh_objects_separated : forall f1 f2 c,
  let '(a, c1) := new_txin_default f1 c in let '(b, _) := new_txin_default f2 c1 in
  forall l, In l (locs_in a) -> ~ In l (locs_in b).
Proof. exact fresh_txins_separated. Qed.
Print Assumptions C13_fresh_objects_separated.
