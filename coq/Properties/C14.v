(* C14 - signed messages: sign, verify and key recovery agree and interoperate.  Statements only.
   Over the abstract curve (curve_laws), an inverse modulo n and the sqrt_mod specification as premises. *)
From Coq Require Import ZArith String List.
From BU Require Import Lib.Bytes Model.EC Model.Msg Spec.CompactSize Spec.Curve Proofs.MsgFacts.
Import ListNotations.
Open Scope list_scope.
Open Scope Z_scope.

(* the digest signed is the standard one: double SHA-256 of the magic prefix, the CompactSize of the
   message's UTF-8 byte length, and the message *)
Theorem C14_digest : forall (sha256 : bytes -> bytes) msg, Z.of_nat (length msg) < 2 ^ 64 ->
  message_digest sha256 msg = Some (sha256 (sha256 (magic_prefix ++ spec_compact (Z.of_nat (length msg)) ++ msg))).
Proof.
  intros sha msg H. unfold message_digest, add_magic_prefix.
  rewrite Proofs.VarintFacts.encode_is_spec by Lia.lia. reflexivity.
Qed.
Print Assumptions C14_digest.

Section C14.
  Variables (p n : Z) (add : point -> point -> point) (lift : Z -> point) (G : point) (on : point -> Prop).
  Hypothesis L : curve_laws p n add lift G on.
  Hypothesis Hsizes : n < p /\ p < 2 * n /\ p < 2 ^ 256.
  Variable inv : Z -> Z.
  Hypothesis Hinv : forall a, a mod n <> 0 -> (a * inv a) mod n = 1.
  Hypothesis Hinv_range : forall a, 0 <= inv a < n.
  Variable sqrts : Z -> list Z.
  Hypothesis Hsq_some : forall x y, on (Some (x, y)) ->
    exists y0 y1, sqrts ((x ^ 3 + 7) mod p) = [y0; y1] /\ ((y0 = y /\ y1 = p - y) \/ (y0 = p - y /\ y1 = y)).

  (* recovery: a valid signature (r, s) by d with nonce point R is recovered to d*G exactly at the recovery id
     that encodes R's parity and the overflow of its x over n *)
  Theorem C14_recovery : forall d k e Rx Ry, 1 <= d < n -> 1 <= k < n -> 0 <= e < 2 ^ 256 ->
    smul p add k G = Some (Rx, Ry) -> let '(r, s) := ecdsa_sig n inv d k e Rx in r <> 0 -> s <> 0 ->
    let recid := (if Z.even Ry then 0 else 1) + (if Rx <? n then 0 else 2) in
    recover p n add G inv sqrts e r s recid = Some (smul p add d G).
  Proof. exact (recover_correct p n add lift G on L Hsizes inv Hinv Hinv_range sqrts Hsq_some). Qed.

  (* for every key, message and compression flag the header search finds a header, and what it returns
     verifies against the signer's address of that flavour *)
  Theorem C14_sign_total : forall (sha256 : bytes -> bytes) (addr_of : bool -> Z * Z -> bytes) d k msg c dg Rx Ry,
    1 <= d < n -> 1 <= k < n -> Z.of_nat (length msg) < 2 ^ 64 ->
    (forall x, length (sha256 x) = 32%nat) -> (forall x, wf_bytes (sha256 x)) ->
    message_digest sha256 msg = Some dg -> smul p add k G = Some (Rx, Ry) ->
    let '(r, s) := ecdsa_sig n inv d k (be_val dg) Rx in r <> 0 -> s <> 0 ->
    forall q, smul p add d G = Some q ->
    exists sig, sign_message sha256 p n add G inv sqrts addr_of q r s msg c = Some sig.
  Proof. intros sha. exact (sign_message_total sha p n add lift G on L Hsizes inv Hinv Hinv_range sqrts Hsq_some). Qed.
End C14.
Print Assumptions C14_recovery.
Print Assumptions C14_sign_total.

Theorem C14_sign_verify : forall (sha256 : bytes -> bytes) p n add G inv sqrts (addr_of : bool -> Z * Z -> bytes) pub r s msg c sig,
  sign_message sha256 p n add G inv sqrts addr_of pub r s msg c = Some sig ->
  verify_message sha256 p n add G inv sqrts addr_of (addr_of c pub) sig msg = Some true /\ length sig = 65%nat.
Proof. exact sign_message_verifies. Qed.
Print Assumptions C14_sign_verify.

(* soundness: verification succeeds only if a key is recovered from (r, s, header) by exactly this
   procedure, the signature verifies under it and its address - compressed or not as the header says - is
   the given one; the header lies in 27..35 (header 35 is accepted by the range test of the code and is
   covered by the rejection stream of the correspondence, not by a theorem) *)
Theorem C14_sound : forall (sha256 : bytes -> bytes) p n add G inv sqrts (addr_of : bool -> Z * Z -> bytes) address sig msg,
  verify_message sha256 p n add G inv sqrts addr_of address sig msg = Some true ->
  exists h rs dg q, sig = h :: rs /\ length rs = 64%nat /\ 27 <= h <= 35 /\ message_digest sha256 msg = Some dg /\
    recover p n add G inv sqrts (be_val dg) (be_val (firstn 32 rs)) (be_val (skipn 32 rs)) (if 31 <=? h then h - 31 else h - 27) = Some (Some q) /\
    ecdsa_verify n add G inv (Some q) (be_val dg) (be_val (firstn 32 rs)) (be_val (skipn 32 rs)) = true /\
    addr_of (31 <=? h) q = address.
Proof. exact verify_message_sound. Qed.
Print Assumptions C14_sound.

(* the recovery constructor: for headers 27, 28, 31, 32 it is the recovery verification uses; for 29, 30, 33, 34
   (R.x = r + n, repaired D14) it returns a key exactly when r + n is a field element, verification's recovery
   yields that key and the key verifies the signature *)
Theorem C14_recover_pubkey : forall (sha256 : bytes -> bytes) p n add G inv sqrts msg h rs dg,
  msg <> [] -> length rs = 64%nat -> 27 <= h <= 34 -> (if 31 <=? h then h - 31 else h - 27) < 2 ->
  message_digest sha256 msg = Some dg ->
  recover_pubkey sha256 p n add G inv sqrts msg (h :: rs)
  = recover p n add G inv sqrts (be_val dg) (be_val (firstn 32 rs)) (be_val (skipn 32 rs)) (if 31 <=? h then h - 31 else h - 27).
Proof.
  intros sha p n add G inv sqrts msg h rs dg Hm Hl Hh Hid Hd. unfold recover_pubkey. cbn [length].
  destruct msg as [|m0 mr]; [congruence|]. cbn [length Nat.eqb]. rewrite Hl. cbn [Nat.eqb negb].
  replace ((27 <=? h) && (h <=? 34))%bool with true by Lia.lia. cbn [negb]. rewrite Hd. cbn [Schnorr.obind]. cbv zeta.
  assert (Hr : (h - 27) mod 4 = (if 31 <=? h then h - 31 else h - 27)).
  { destruct (31 <=? h) eqn:E.
    - replace (h - 27) with (h - 31 + 1 * 4) by Lia.lia. rewrite Z.mod_add by Lia.lia. apply Z.mod_small. Lia.lia.
    - apply Z.mod_small. Lia.lia. }
  rewrite Hr. destruct ((if 31 <=? h then h - 31 else h - 27) <? 2) eqn:E2; [reflexivity|Lia.lia].
Qed.
Print Assumptions C14_recover_pubkey.
Theorem C14_recover_pubkey_high : forall (sha256 : bytes -> bytes) p n add G inv sqrts msg h rs dg Q,
  msg <> [] -> length rs = 64%nat -> 27 <= h <= 34 -> 2 <= (if 31 <=? h then h - 31 else h - 27) ->
  message_digest sha256 msg = Some dg ->
  (recover_pubkey sha256 p n add G inv sqrts msg (h :: rs) = Some Q <->
   be_val (firstn 32 rs) + n < p /\
   recover p n add G inv sqrts (be_val dg) (be_val (firstn 32 rs)) (be_val (skipn 32 rs)) (if 31 <=? h then h - 31 else h - 27) = Some Q /\
   ecdsa_verify n add G inv Q (be_val dg) (be_val (firstn 32 rs)) (be_val (skipn 32 rs)) = true).
Proof.
  intros sha p n add G inv sqrts msg h rs dg Q Hm Hl Hh Hid Hd. unfold recover_pubkey. cbn [length].
  destruct msg as [|m0 mr]; [congruence|]. cbn [length Nat.eqb]. rewrite Hl. cbn [Nat.eqb negb].
  replace ((27 <=? h) && (h <=? 34))%bool with true by Lia.lia. cbn [negb]. rewrite Hd. cbn [Schnorr.obind]. cbv zeta.
  assert (Hr : (h - 27) mod 4 = (if 31 <=? h then h - 31 else h - 27)).
  { destruct (31 <=? h) eqn:E.
    - replace (h - 27) with (h - 31 + 1 * 4) by Lia.lia. rewrite Z.mod_add by Lia.lia. apply Z.mod_small. Lia.lia.
    - apply Z.mod_small. Lia.lia. }
  rewrite Hr. set (rid := if 31 <=? h then h - 31 else h - 27) in *.
  destruct (rid <? 2) eqn:E2; [Lia.lia|].
  destruct (p <=? be_val (firstn 32 rs) + n) eqn:Ep.
  - split; [discriminate|intros [Hlt _]; Lia.lia].
  - destruct (recover p n add G inv sqrts (be_val dg) (be_val (firstn 32 rs)) (be_val (skipn 32 rs)) rid) as [Q'|] eqn:ER.
    + destruct (ecdsa_verify n add G inv Q' (be_val dg) (be_val (firstn 32 rs)) (be_val (skipn 32 rs))) eqn:EV.
      * split; [intros [= <-]; repeat split; [Lia.lia|assumption]|intros (_ & [= <-] & _); reflexivity].
      * split; [discriminate|intros (_ & [= <-] & HV); congruence].
    + split; [discriminate|intros (_ & HF & _); discriminate].
Qed.
Print Assumptions C14_recover_pubkey_high.
