(* Source tie, statements only: TxWitnessInput.to_bytes and Transaction.to_bytes (marker and flag, counts, the three
   loops, locktime) as translated from /repo on this run are the model's functions on every transaction and for both
   values of has_segwit; TxInput/TxOutput.to_bytes are tied in Tie_tx_parts, Script.to_bytes is the model's (C02). *)
From Coq Require Import String ZArith List Bool.
From BU Require Import Lib.Bytes Lib.PySem Gen.Tables Gen.Src Model.Script Model.Tx Proofs.TieLib Proofs.Tie_tx_whole.
Import ListNotations.
Open Scope list_scope.
Open Scope Z_scope.

Theorem tie_witness_to_bytes : forall st, src_witness_to_bytes st = of_option (witness_to_bytes st).
Proof. exact src_witness_to_bytes_eq. Qed.
Print Assumptions tie_witness_to_bytes.
Theorem tie_tx_to_bytes : forall hs v i o w l sw,
  src_tx_to_bytes hs v i o w l =
  of_option (tx_to_bytes {| tx_version := v; tx_inputs := i; tx_outputs := o; tx_locktime := l; tx_segwit := sw; tx_witnesses := w |} hs).
Proof. exact src_tx_to_bytes_eq. Qed.
Print Assumptions tie_tx_to_bytes.
