(* Source tie, statements only: the locking-script helpers as translated from /repo on this run are the model's. *)
From Coq Require Import String ZArith List Bool.
From BU Require Import Lib.Bytes Lib.PySem Gen.Tables Gen.Src Model.Script Model.Ripemd160 Model.Address Proofs.TieLib Proofs.Tie_locking_scripts.
Import ListNotations.
Open Scope list_scope.
Open Scope Z_scope.

(* the script-to-P2SH helper commits to RIPEMD160(SHA256(bytes)) with the bundled RIPEMD-160, the P2WSH helper to SHA256 *)
Theorem tie_to_p2sh_script_pub_key : forall sha256 ts,
  src_to_p2sh_spk sha256 ts = of_option (to_p2sh_script_pub_key (fun b => ripemd160 (sha256 b)) ts).
Proof. exact src_to_p2sh_spk_eq. Qed.
Print Assumptions tie_to_p2sh_script_pub_key.
Theorem tie_to_p2wsh_script_pub_key : forall sha256 ts,
  src_to_p2wsh_spk sha256 ts = of_option (to_p2wsh_script_pub_key sha256 ts).
Proof. exact src_to_p2wsh_spk_eq. Qed.
Print Assumptions tie_to_p2wsh_script_pub_key.
(* the five address types: exactly the template around the address's own hash / program *)
Theorem tie_to_script_pub_key : forall h,
  src_p2pkh_spk h = Ok (spk_p2pkh h) /\ src_p2sh_spk h = Ok (spk_p2sh h) /\
  src_p2wpkh_spk h = Ok (spk_segwit P2WPKH h) /\ src_p2wsh_spk h = Ok (spk_segwit P2WSH h) /\ src_p2tr_spk h = Ok (spk_segwit P2TR h).
Proof. exact src_spk_eq. Qed.
Print Assumptions tie_to_script_pub_key.
