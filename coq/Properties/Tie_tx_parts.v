(* Source tie, statements only: TxOutput.to_bytes and TxInput.to_bytes (with the coinbase special case) as translated
   from /repo on this run are the model's functions on every input; Script.to_bytes is the model's (tied by C02). *)
From Coq Require Import String ZArith List Bool.
From BU Require Import Lib.Bytes Lib.PySem Gen.Tables Gen.Src Model.Script Model.Tx Proofs.TieLib Proofs.Tie_tx_parts.
Import ListNotations.
Open Scope list_scope.
Open Scope Z_scope.

Theorem tie_txout_to_bytes : forall a s,
  src_txout_to_bytes a s = of_option (txout_to_bytes {| to_amount := a; to_script := s |}).
Proof. exact src_txout_to_bytes_eq. Qed.
Print Assumptions tie_txout_to_bytes.
Theorem tie_txin_to_bytes : forall t v s q,
  src_txin_to_bytes t v s q = of_option (txin_to_bytes {| ti_txid := t; ti_vout := v; ti_script := s; ti_seq := q |}).
Proof. exact src_txin_to_bytes_eq. Qed.
Print Assumptions tie_txin_to_bytes.
