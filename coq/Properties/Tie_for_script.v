(* Source tie, statement only: Sequence.for_script as translated from /repo on this run is the model's function on every input. *)
From Coq Require Import String ZArith List Bool.
From BU Require Import Lib.Bytes Lib.PySem Gen.Tables Gen.Src Model.Varint Model.Script Model.Seq Proofs.TieLib Proofs.Tie_for_script.
Import ListNotations.
Open Scope list_scope.
Open Scope Z_scope.

Theorem tie_for_script : forall ty v blk,
  src_for_script ty v blk = of_option (for_script {| seq_type := ty; seq_value := v; seq_is_block := blk |}).
Proof. exact src_for_script_eq. Qed.
Print Assumptions tie_for_script.
