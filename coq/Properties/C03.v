(* C03 - legacy signature hash equals the original Bitcoin SignatureHash.  Statements only. *)
From Coq Require Import ZArith String List.
From BU Require Import Lib.Bytes Gen.Tables Model.Script Model.Tx Model.Sighash Spec.Consensus Spec.SighashSpec
  Proofs.TxFacts Proofs.LegacySighashFacts.
Import ListNotations.
Open Scope list_scope.
Open Scope Z_scope.

(* the model of get_transaction_digest (copy, blank, install, rewrite, serialise, 4-byte type) produces
   exactly the preimage of Bitcoin Core's SignatureHash, and refuses exactly where the specification
   has no digest (index out of range; SINGLE without a matching output); unbounded in the number of
   inputs and outputs and in script sizes; every hash type 0 <= ht < 2^31 (in particular the six defined) *)
Theorem C03_digest : forall (sha256 : bytes -> bytes) t st i script scb ht,
  wf_tx_sig t -> abs_tx_sig t = Some st ->
  to_bytes script = Some scb -> Z.of_nat (length scb) < two64 -> 0 <= ht < 2147483648 ->
  legacy_digest sha256 t i script ht =
  option_map (fun p => sha256 (sha256 p)) (spec_legacy_preimage st i scb ht).
Proof.
  intros sha t st i script scb ht H1 H2 H3 H4 H5. unfold legacy_digest.
  now rewrite (legacy_preimage_spec t st i script scb ht H1 H2 H3 H4 H5).
Qed.
Print Assumptions C03_digest.

Theorem C03_single_refuses : forall (sha256 : bytes -> bytes) t i script ht,
  Z.land ht 31 = sighash_single -> (length (tx_outputs t) <= i)%nat -> legacy_digest sha256 t i script ht = None.
Proof. intros sha t i script ht H1 H2. unfold legacy_digest. now rewrite legacy_single_refuses. Qed.
Print Assumptions C03_single_refuses.

(* scriptSigs already present on the transaction never influence the digest (used by C13) *)
Theorem C03_ignores_scriptsigs : forall (sha256 : bytes -> bytes) f t i script ht,
  legacy_digest sha256 (with_scripts f t) i script ht = legacy_digest sha256 t i script ht.
Proof. intros. unfold legacy_digest. now rewrite legacy_ignores_scriptsigs. Qed.
Print Assumptions C03_ignores_scriptsigs.
