(* C04 - segwit v0 signature hash equals BIP143.  Statements only. *)
From Coq Require Import ZArith String List.
From BU Require Import Lib.Bytes Gen.Tables Model.Script Model.Tx Model.Sighash Spec.Consensus Spec.SighashSpec
  Proofs.TxFacts Proofs.LegacySighashFacts Proofs.SegwitSighashFacts.
Import ListNotations.
Open Scope list_scope.
Open Scope Z_scope.

(* for the six defined hash types, any transaction, index, script code of any length and amount:
   the hashed string is BIP143's (CompactSize lengths everywhere, zero hashes when excluded, SINGLE
   without a matching output gives a zero hashOutputs); refusal only for an index out of range *)
Theorem C04_digest : forall (sha256 : bytes -> bytes) t st i script scb amount ht,
  wf_tx_sig t -> abs_tx_sig t = Some st ->
  to_bytes script = Some scb -> Z.of_nat (length scb) < two64 ->
  0 <= amount < 9223372036854775808 -> In ht six_types ->
  segwit_digest sha256 t i script amount ht =
  option_map (fun p => sha256 (sha256 p)) (bip143_preimage sha256 st i scb amount ht).
Proof.
  intros sha t st i script scb amount ht H1 H2 H3 H4 H5 H6. unfold segwit_digest.
  now rewrite (segwit_preimage_spec sha t st i script scb amount ht H1 H2 H3 H4 H5 H6).
Qed.
Print Assumptions C04_digest.
