(* C11 - segwit addresses (bech32/bech32m) round-trip and are validated, per network.  Statements only. *)
From Coq Require Import ZArith String List.
From BU Require Import Lib.Bytes Gen.Tables Model.Bech32 Model.Address Proofs.Bech32Facts Proofs.Bech32Distance Proofs.Bech32DecodeDistance Proofs.KeysFacts.
Import ListNotations.
Open Scope list_scope.
Open Scope Z_scope.

(* 8 -> 5 -> 8 bit regrouping round-trips on byte strings of every length *)
Theorem C11_convertbits_roundtrip : forall d, wf_bytes d ->
  exists d5, convertbits d 8 5 true = Some d5 /\ sym5 d5 /\ convertbits d5 5 8 false = Some d /\
             Z.of_nat (length d5) = (8 * Z.of_nat (length d) + 4) / 5.
Proof. exact convertbits_roundtrip. Qed.
Print Assumptions C11_convertbits_roundtrip.

(* the checksum step is XOR-linear; a created checksum verifies as its own variant (bech32 / bech32m) *)
Theorem C11_polymod_linear : forall c c' v v', 0 <= c -> 0 <= c' -> 0 <= v -> 0 <= v' ->
  polymod_step (Z.lxor c c') (Z.lxor v v') = Z.lxor (polymod_step c v) (polymod_step c' v').
Proof. exact polymod_step_linear. Qed.
Print Assumptions C11_polymod_linear.
Theorem C11_checksum_verifies : forall hrp data spec, Forall (fun c => 0 <= c < 256) hrp -> sym5 data ->
  verify_checksum hrp (data ++ create_checksum hrp data spec) = Some spec.
Proof. exact checksum_verifies. Qed.
Print Assumptions C11_checksum_verifies.

(* error detection: a data part of up to 89 symbols (checksum included) in which 1..4 symbols are substituted
   never verifies as the variant the original verified as -- for every prefix, every data part and every choice
   of positions and symbols (BIP173's design claim; the reduction to a finite check is proved, the check is one
   closed kernel computation over 85,529 + 2848 syndromes).  The window is tight: at 90 symbols a weight-4
   codeword exists.  (A substitution that also changes the witness version can land on a valid string of the
   OTHER variant: that is a property of BIP350, not of this code, and is outside the statement.) *)
Theorem C11_detects_4_substitutions : forall hrp data data' spec,
  Forall (fun c => 0 <= c < 256) hrp -> sym5 data -> sym5 data' ->
  length data = length data' -> (length data <= 89)%nat ->
  (1 <= hamming data data' <= 4)%nat ->
  verify_checksum hrp data = Some spec -> verify_checksum hrp data' <> Some spec.
Proof. exact checksum_detects_4. Qed.
Print Assumptions C11_detects_4_substitutions.
Theorem C11_distance_tight : exists data data', sym5 data /\ sym5 data' /\
  length data = 90%nat /\ length data' = 90%nat /\ hamming data data' = 4%nat /\
  verify_checksum [97] data = Some BECH32 /\ verify_checksum [97] data' = Some BECH32.
Proof. exact checksum_distance_tight. Qed.
Print Assumptions C11_distance_tight.

(* the same at the level of strings: take a string the decoder accepts, keep its prefix and separator, replace
   one to four characters of the data part by other characters of the bech32 alphabet: whatever the result
   decodes to, it is not the variant the original decoded to (so a bech32 address stays no bech32 address, a
   bech32m address no bech32m address) *)
Theorem C11_decoder_detects_4_substitutions : forall s s' hrp data spec,
  bech32_decode s = Some (hrp, data, spec) ->
  length s' = length s ->
  firstn (length hrp + 1) s' = firstn (length hrp + 1) (map lower s) ->
  Forall (fun c => In c bech32_charset) (skipn (length hrp + 1) s') ->
  (1 <= hamming (skipn (length hrp + 1) (map lower s)) (skipn (length hrp + 1) s') <= 4)%nat ->
  forall hrp' data' spec', bech32_decode s' = Some (hrp', data', spec') -> spec' <> spec.
Proof. exact decode_detects_4. Qed.
Print Assumptions C11_decoder_detects_4_substitutions.

(* decoding an encoded string returns HRP, data and variant *)
Theorem C11_decode_encode : forall hrp data spec, hrp_ok hrp -> sym5 data -> (length hrp + 1 + length data + 6 <= 90)%nat ->
  bech32_decode (bech32_encode hrp data spec) = Some (hrp, data, spec).
Proof. exact bech32_decode_encode. Qed.
Print Assumptions C11_decode_encode.

(* segwit addresses round-trip: v0 with 20 or 32 bytes (bech32), v1..16 with 2..40 bytes (bech32m) *)
Theorem C11_segwit_roundtrip : forall hrp v prog, hrp_ok hrp -> (length hrp <= 4)%nat -> wf_bytes prog ->
  (v = 0 /\ (length prog = 20%nat \/ length prog = 32%nat)) \/ (1 <= v <= 16 /\ (2 <= length prog <= 40)%nat) ->
  exists s, segwit_encode hrp v prog = Some s /\ segwit_decode hrp s = Some (v, prog).
Proof. exact segwit_roundtrip. Qed.
Print Assumptions C11_segwit_roundtrip.

(* the three address objects: the string of a program is produced on every network of the generated table,
   re-creating the object from it gives the identical program, and the bech32 predicate says yes *)
Theorem C11_objects : forall ty net prog s, wf_bytes prog ->
  (ty = P2WPKH /\ length prog = 20%nat) \/ (ty = P2WSH /\ length prog = 32%nat) \/ (ty = P2TR /\ length prog = 32%nat) ->
  segwit_to_string ty net prog = Some s -> segwit_from_string ty net s = Some prog /\ is_address_bech32 s = true.
Proof. exact segwit_object_roundtrip. Qed.
Print Assumptions C11_objects.
Theorem C11_objects_total : forall ty net prog hrp, hrp_of net = Some hrp -> wf_bytes prog ->
  (ty = P2WPKH /\ length prog = 20%nat) \/ (ty = P2WSH /\ length prog = 32%nat) \/ (ty = P2TR /\ length prog = 32%nat) ->
  exists s, segwit_to_string ty net prog = Some s.
Proof. exact segwit_to_string_some. Qed.
Print Assumptions C11_objects_total.
