(* C09 - private/public key encodings (WIF, SEC, x-only) round-trip and match the curve.  Statements only. *)
From Coq Require Import ZArith String List.
From BU Require Import Lib.Bytes Gen.Tables Model.Base58 Model.Keys Proofs.Base58Facts Proofs.KeysFacts.
Import ListNotations.
Open Scope list_scope.
Open Scope Z_scope.

(* Base58: decode inverts encode on every byte string (leading zero bytes included); encode is injective *)
Theorem C09_b58_roundtrip : forall b, wf_bytes b -> b58decode (b58encode b) = Some b.
Proof. exact b58_roundtrip. Qed.
Print Assumptions C09_b58_roundtrip.
Theorem C09_b58_injective : forall a b, wf_bytes a -> wf_bytes b -> b58encode a = b58encode b -> a = b.
Proof. exact b58encode_inj. Qed.
Print Assumptions C09_b58_injective.

(* WIF export then import is the identity for every secret in [1, n-1], both compression flags, every network
   of the generated table (any SHA-256 with 32-byte output) *)
Theorem C09_wif_roundtrip : forall sha256 : bytes -> bytes,
  (forall x, length (sha256 x) = 32%nat) -> (forall x, wf_bytes (sha256 x)) ->
  forall n net c d w, n <= 2 ^ 256 -> 1 <= d < n ->
  priv_to_wif sha256 net c d = Some w -> priv_from_wif sha256 n net w = Some d.
Proof. exact wif_roundtrip. Qed.
Print Assumptions C09_wif_roundtrip.

(* an import succeeds only with a matching checksum and the version byte of the configured network, and
   only for a secret in range *)
Theorem C09_wif_checks : forall sha256 : bytes -> bytes,
  (forall x, length (sha256 x) = 32%nat) -> (forall x, wf_bytes (sha256 x)) ->
  forall n net w d, priv_from_wif sha256 n net w = Some d ->
  exists data pre, b58decode w = Some data /\ net_prefix network_wif_prefixes net = Some pre /\
    skipn (length data - 4) data = dsha4 sha256 (firstn (length data - 4) data) /\
    firstn 1 data = pre /\ 1 <= d < n.
Proof. exact wif_checks. Qed.
Print Assumptions C09_wif_checks.

(* a key built from an explicit secret holds exactly that secret or the construction fails; a random key is
   created only when no argument at all is given *)
Theorem C09_explicit_secret : forall (sha256 : bytes -> bytes) n net,
  (forall e d, priv_init sha256 n net None (Some e) None = PrivOk d -> d = e /\ 1 <= e < n) /\
  (forall b d, priv_init sha256 n net None None (Some b) = PrivOk d -> d = be_val b /\ length b = 32%nat /\ 1 <= d < n) /\
  (forall w e b, priv_init sha256 n net w e b = PrivRandom -> w = None /\ e = None /\ b = None).
Proof. exact explicit_secret. Qed.
Print Assumptions C09_explicit_secret.

(* parsing the emitted SEC compressed / uncompressed / x-only encoding of a curve point returns that point
   (the even-y point for x-only), under the specification of sqrt_mod on the curve equation *)
Theorem C09_sec_roundtrip : forall p (sqrts : Z -> list Z),
  (forall x y, on_curve p x y = true -> 0 < y ->
     exists y0 y1, sqrts ((x ^ 3 + 7) mod p) = [y0; y1] /\ ((y0 = y /\ y1 = p - y) \/ (y0 = p - y /\ y1 = y))) ->
  (2 < p < 2 ^ 256) /\ Z.odd p = true ->
  forall x y, on_curve p x y = true -> 0 < y ->
  (forall b, pub_to_bytes true (x, y) = Some b -> pub_from_bytes p sqrts b = Some (x, y)) /\
  (forall b, pub_to_bytes false (x, y) = Some b -> pub_from_bytes p sqrts b = Some (x, y)) /\
  (forall b, pub_to_x_only (x, y) = Some b -> pub_from_bytes p sqrts b = Some (x, if Z.even y then y else p - y)).
Proof. exact sec_roundtrip. Qed.
Print Assumptions C09_sec_roundtrip.

(* an x that is not the abscissa of a curve point is rejected in compressed and in x-only form, whatever
   sqrt_mod returns *)
Theorem C09_off_curve_rejected : forall p (sqrts : Z -> list Z) x first, 0 <= x < 2 ^ 256 ->
  (forall y, on_curve p x y = false) ->
  pub_from_bytes p sqrts (first :: be_bytes 32 x) = None /\ pub_from_bytes p sqrts (be_bytes 32 x) = None.
Proof. exact off_curve_rejected. Qed.
Print Assumptions C09_off_curve_rejected.
