(* C20 - bundled RIPEMD-160, tagged-hash and BIP340 primitives equal their specifications.  Statements only. *)
From Coq Require Import ZArith String List.
From BU Require Import Lib.Bytes Model.Ripemd160 Spec.Ripemd160Spec Model.Sighash Model.Schnorr Proofs.RipemdFacts.
Import ListNotations.
Open Scope list_scope.
Open Scope Z_scope.

(* the bundled RIPEMD-160 (unbounded integers, masks only in rol and at output) equals the 32-bit word
   specification on every byte string of every length *)
Theorem C20_ripemd : forall d, ripemd160 d = ripemd160_spec d.
Proof. exact ripemd160_correct. Qed.
Print Assumptions C20_ripemd.

(* the generated tables and constants are the specification's *)
Theorem C20_ripemd_tables : Gen.Tables.rmd_ml = r_left /\ Gen.Tables.rmd_mr = r_right /\ Gen.Tables.rmd_rl = s_left /\ Gen.Tables.rmd_rr = s_right /\
  (forall j, 0 <= j < 80 -> Model.Ripemd160.nthz Gen.Tables.rmd_kl (Z.shiftr j 4) = K_left j /\ Model.Ripemd160.nthz Gen.Tables.rmd_kr (Z.shiftr j 4) = K_right j).
Proof. exact tables_eq. Qed.
Print Assumptions C20_ripemd_tables.

(* both copies of tagged_hash are SHA256(SHA256(tag) || SHA256(tag) || data), for any SHA256 *)
Theorem C20_tagged : forall (sha256 : bytes -> bytes) data tag,
  tagged_hash sha256 data tag = sha256 (sha256 (str_bytes tag) ++ sha256 (str_bytes tag) ++ data) /\
  stag sha256 tag data = tagged_hash sha256 data tag.
Proof. intros. split; reflexivity. Qed.
Print Assumptions C20_tagged.

(* ---- BIP340 over the abstract curve (premise curve_laws, Spec/Curve.v) ---- *)
From BU Require Import Model.EC Spec.Curve Proofs.CurveFacts.

(* signing yields a signature for every key in [1, n-1], message and auxiliary randomness: the only
   failure is a zero nonce (negligible); in particular the internal verification never rejects *)
Theorem C20_sign_total : forall p n add lift G on, curve_laws p n add lift G on ->
  forall (sha256 : bytes -> bytes) msg key aux, n < 2 ^ 256 -> p < 2 ^ 256 ->
  length msg = 32%nat -> length aux = 32%nat -> wf_bytes key -> length key = 32%nat -> 1 <= be_val key <= n - 1 ->
  schnorr_sign sha256 p n add lift G msg key aux = None ->
  exists px py, full_pubkey_gen n add G key = Some (px, py) /\
    let d := if Z.even py then be_val key else n - be_val key in
    be_val (stag sha256 "BIP0340/nonce" (xor_bytes (be_bytes 32 d) (stag sha256 "BIP0340/aux" aux) ++ be_bytes 32 px ++ msg)) mod n = 0.
Proof. exact schnorr_sign_total. Qed.
Print Assumptions C20_sign_total.

Theorem C20_sign_verifies : forall p n add lift G (sha256 : bytes -> bytes) msg key aux sig,
  schnorr_sign sha256 p n add lift G msg key aux = Some sig ->
  exists px py, full_pubkey_gen n add G key = Some (px, py) /\
    schnorr_verify sha256 p n add lift G msg (be_bytes 32 px) sig = Some true /\ length sig = 64%nat.
Proof. exact schnorr_sign_verifies. Qed.
Print Assumptions C20_sign_verifies.

(* verification rejects r >= p, s >= n and x-only keys that are not on the curve *)
Theorem C20_verify_ranges : forall p n add lift G (sha256 : bytes -> bytes) msg pk sig,
  schnorr_verify sha256 p n add lift G msg pk sig = Some true ->
  be_val (firstn 32 sig) < p /\ be_val (skipn 32 sig) < n /\ lift (be_val pk) <> None.
Proof. exact schnorr_verify_ranges. Qed.
Print Assumptions C20_verify_ranges.

(* for given R, key and message at most one s verifies: any altered s is rejected
   (wf_bytes pk: the lift laws of curve_laws are about non-negative integers, be_val of a byte string) *)
Theorem C20_s_unique : forall p n add lift G on, curve_laws p n add lift G on ->
  forall (sha256 : bytes -> bytes) msg pk rb sb sb', length rb = 32%nat -> length sb = 32%nat -> length sb' = 32%nat ->
  wf_bytes pk -> wf_bytes sb -> wf_bytes sb' ->
  schnorr_verify sha256 p n add lift G msg pk (rb ++ sb) = Some true ->
  schnorr_verify sha256 p n add lift G msg pk (rb ++ sb') = Some true -> sb = sb'.
Proof. exact schnorr_s_unique. Qed.
Print Assumptions C20_s_unique.

(* the 256-step double-and-add of point_mul computes the scalar multiple *)
Theorem C20_point_mul : forall p n add lift G on, curve_laws p n add lift G on ->
  forall P k, on P -> 0 <= k < 2 ^ 256 -> point_mul_with add P k = smul p add k P.
Proof. exact point_mul_smul. Qed.
Print Assumptions C20_point_mul.
