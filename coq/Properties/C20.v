(* C20 - bundled RIPEMD-160, tagged-hash and BIP340 primitives equal their specifications.  Statements only. *)
From Coq Require Import ZArith String List.
From BU Require Import Lib.Bytes Model.Ripemd160 Spec.Ripemd160Spec Model.Sighash Model.Schnorr Proofs.RipemdFacts.
Import ListNotations.
Open Scope list_scope.
Open Scope Z_scope.

(* the bundled RIPEMD-160 (unbounded integers, masks only in rol and at output) equals the 32-bit word
   specification on every byte string of every length *)
Theorem C20_ripemd : forall d, ripemd160 d = ripemd160_spec d.
Proof. exact ripemd160_correct. Qed.
Print Assumptions C20_ripemd.

(* the generated tables and constants are the specification's *)
Theorem C20_ripemd_tables : Gen.Tables.rmd_ml = r_left /\ Gen.Tables.rmd_mr = r_right /\ Gen.Tables.rmd_rl = s_left /\ Gen.Tables.rmd_rr = s_right /\
  (forall j, 0 <= j < 80 -> Model.Ripemd160.nthz Gen.Tables.rmd_kl (Z.shiftr j 4) = K_left j /\ Model.Ripemd160.nthz Gen.Tables.rmd_kr (Z.shiftr j 4) = K_right j).
Proof. exact tables_eq. Qed.
Print Assumptions C20_ripemd_tables.

(* both copies of tagged_hash are SHA256(SHA256(tag) || SHA256(tag) || data), for any SHA256 *)
Theorem C20_tagged : forall (sha256 : bytes -> bytes) data tag,
  tagged_hash sha256 data tag = sha256 (sha256 (str_bytes tag) ++ sha256 (str_bytes tag) ++ data) /\
  stag sha256 tag data = tagged_hash sha256 data tag.
Proof. intros. split; reflexivity. Qed.
Print Assumptions C20_tagged.
