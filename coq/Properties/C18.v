(* C18 - timelock helpers encode BIP68/BIP112/BIP65 consistently.  Statements only. *)
From Coq Require Import ZArith List Bool.
From BU Require Import Lib.Bytes Gen.Tables Model.Seq Spec.BIP68 Proofs.SeqFacts.
Import ListNotations.
Open Scope Z_scope.

(* every relative value 1..65535, both unit types: the helper object exists, the input sequence is
   the 4-byte little-endian of v (+ 2^22 for 512-second units), bit 31 is clear, BIP68 reads back the
   unit type and the value, the script number is the same integer, and BIP112 is satisfied in a
   version-2 transaction.  (rel_ok is the boolean conjunction of exactly these facts.) *)
Theorem C18_relative : forall v blk, 1 <= v <= 65535 -> rel_ok v blk = true.
Proof. exact rel_ok_every. Qed.
Print Assumptions C18_relative.

Theorem C18_rejects : forall v blk, v < 1 \/ 65535 < v -> mk_sequence type_relative_timelock v blk = None.
Proof. exact rel_rejects. Qed.
Print Assumptions C18_rejects.

Theorem C18_nonfinal :
  length absolute_timelock_sequence = 4%nat /\ length replace_by_fee_sequence = 4%nat /\
  enforces_locktime (le_val absolute_timelock_sequence) = true /\
  enforces_locktime (le_val replace_by_fee_sequence) = true /\
  signals_rbf (le_val replace_by_fee_sequence) = true /\
  signals_rbf (le_val absolute_timelock_sequence) = false /\
  (forall v b s, mk_sequence type_absolute_timelock v b = Some s ->
     for_input_sequence s = SeqBytes absolute_timelock_sequence) /\
  (forall v b s, mk_sequence type_replace_by_fee v b = Some s ->
     for_input_sequence s = SeqBytes replace_by_fee_sequence).
Proof. exact constants_nonfinal. Qed.
Print Assumptions C18_nonfinal.

Theorem C18_locktime : forall v, 0 <= v < 2 ^ 32 ->
  locktime_for_transaction v = Some (le_bytes 4 v) /\ le_val (le_bytes 4 v) = v.
Proof. exact locktime_ok. Qed.
Print Assumptions C18_locktime.

Theorem C18_locktime_rejects : forall v, v < 0 \/ 2 ^ 32 <= v -> locktime_for_transaction v = None.
Proof. exact locktime_rejects. Qed.
Print Assumptions C18_locktime_rejects.

Example C18_ex : rel_ok 65535 false = true /\ mk_sequence type_relative_timelock 65536 true = None.
Proof. split; vm_compute; reflexivity. Qed.
