(* Source tie, statement only: utils.parse_compact_size as translated from /repo on this run is the model's function on every input. *)
From Coq Require Import String ZArith List Bool.
From BU Require Import Lib.Bytes Lib.PySem Gen.Tables Gen.Src Model.Varint Model.Script Model.Seq Proofs.TieLib Proofs.Tie_parse_compact_size.
Import ListNotations.
Open Scope list_scope.
Open Scope Z_scope.

Theorem tie_parse_compact_size : forall d, wf_bytes d ->
  src_parse_compact_size d = of_option (pairZ (parse_compact_size d)).
Proof. exact src_parse_compact_size_eq. Qed.
Print Assumptions tie_parse_compact_size.
