(* Source tie, statement only: Script._op_push_data as translated from /repo on this run is the model's function on every input. *)
From Coq Require Import String ZArith List Bool.
From BU Require Import Lib.Bytes Lib.PySem Gen.Tables Gen.Src Model.Varint Model.Script Model.Seq Proofs.TieLib Proofs.Tie_op_push_data.
Import ListNotations.
Open Scope list_scope.
Open Scope Z_scope.

Theorem tie_op_push_data : forall d, src_op_push_data d = of_option (op_push_data d).
Proof. exact src_op_push_data_eq. Qed.
Print Assumptions tie_op_push_data.
