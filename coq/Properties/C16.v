(* C16 - reported size and virtual size follow BIP141 weight accounting.  Statements only. *)
From Coq Require Import ZArith String List.
From BU Require Import Lib.Bytes Model.Tx Spec.Consensus Proofs.TxFacts.
Import ListNotations.
Open Scope Z_scope.

(* size = length of the full serialisation; vsize = ceil((3 * stripped + full) / 4), for legacy and
   for segwit transactions with any number and size of witness items *)
(* wf_tx_enc: no alignment between witness stacks and inputs is needed, so an unsigned segwit
   transaction (flag set, no stacks yet) is covered as well *)
Theorem C16_size_vsize : forall t, wf_tx_enc t ->
  exists st, abs_tx t = Some st /\
    get_size t = Some (Z.of_nat (length (spec_serialize st))) /\
    get_vsize t = Some (spec_vsize st).
Proof. exact size_vsize_spec. Qed.
Print Assumptions C16_size_vsize.

Theorem C16_legacy : forall t, wf_tx_enc t -> tx_segwit t = false -> get_vsize t = get_size t.
Proof. intros t _ H. unfold get_vsize. now rewrite H. Qed.
Print Assumptions C16_legacy.

(* ceil is what the formula computes *)
Theorem C16_ceil : forall w, 0 <= w -> 4 * ((w + 3) / 4) >= w /\ 4 * ((w + 3) / 4) < w + 4.
Proof. intros w H. pose proof (Z.div_mod (w + 3) 4 ltac:(discriminate)). pose proof (Z.mod_pos_bound (w + 3) 4 ltac:(reflexivity)). split; Lia.lia. Qed.
Print Assumptions C16_ceil.
