(* The distance property of the bech32 checksum (Proofs/Bech32Distance.v, checksum_detects_4)
   lifted to the string decoder bech32_decode: a decodable string in which one to four
   characters of the data part are replaced by other characters of the bech32 alphabet is
   never decoded as the same checksum variant. *)
From Coq Require Import ZArith List Bool Lia.
From BU Require Import Lib.Bytes Lib.BytesFacts Gen.Tables Model.Bech32 Proofs.Bech32Facts Proofs.Bech32Distance.
Import ListNotations.
Open Scope Z_scope.

(* ------------------------------------------------------------------ *)
(* 1. lower                                                            *)
(* ------------------------------------------------------------------ *)

Lemma lower_idem c : lower (lower c) = lower c.
Proof.
  unfold lower. destruct ((65 <=? c) && (c <=? 90)) eqn:E.
  - apply andb_true_iff in E. destruct E as [E1 E2]. apply Z.leb_le in E1, E2.
    replace ((65 <=? c + 32) && (c + 32 <=? 90)) with false; [reflexivity|].
    symmetry. apply andb_false_iff. right. apply Z.leb_gt. lia.
  - rewrite E. reflexivity.
Qed.

Lemma lower_range c : 33 <= c <= 126 -> 33 <= lower c <= 126.
Proof.
  intros H. unfold lower. destruct ((65 <=? c) && (c <=? 90)) eqn:E; [|exact H].
  apply andb_true_iff in E. destruct E as [E1 E2]. apply Z.leb_le in E1, E2. lia.
Qed.

Lemma map_lower_idem l : map lower (map lower l) = map lower l.
Proof. rewrite map_map. apply map_ext. intros c. apply lower_idem. Qed.

Lemma map_id_inv (f : Z -> Z) l : map f l = l -> Forall (fun x => f x = x) l.
Proof.
  induction l as [|x l IH]; cbn [map]; intros H; constructor.
  - now injection H.
  - apply IH. now injection H.
Qed.

(* ------------------------------------------------------------------ *)
(* 2. rfind, find_char, map_opt                                        *)
(* ------------------------------------------------------------------ *)

Lemma rfind_inv c l : forall i best pos, rfind c l i best = Some pos ->
  (best = Some pos /\ ~ In c l) \/
  exists a r, l = a ++ c :: r /\ ~ In c r /\ pos = i + Z.of_nat (length a).
Proof.
  induction l as [|x l IH]; intros i best pos H; cbn [rfind] in H.
  - left. split; [exact H|intros []].
  - apply IH in H. destruct H as [[Hb Hn]|[a [r [E [Hn Hp]]]]].
    + destruct (Z.eqb_spec x c) as [->|Hx].
      * right. exists [], l. split; [reflexivity|]. split; [exact Hn|].
        injection Hb as <-. cbn [length]. lia.
      * left. split; [exact Hb|]. intros [H|H]; [congruence|contradiction].
    + right. exists (x :: a), r. subst l. split; [reflexivity|]. split; [exact Hn|].
      cbn [length]. lia.
Qed.

Lemma find_char_spec c l : forall d, find_char c l = Some d ->
  0 <= d < Z.of_nat (length l) /\ nth (Z.to_nat d) l 0 = c.
Proof.
  induction l as [|x l IH]; cbn [find_char]; intros d H; [discriminate|].
  destruct (Z.eqb_spec x c) as [E|E].
  - injection H as <-. cbn [length Z.to_nat nth]. split; [lia|exact E].
  - destruct (find_char c l) as [d0|] eqn:F; [|discriminate].
    cbn [option_map] in H. injection H as <-.
    destruct (IH d0 eq_refl) as [H1 H2]. split; [cbn [length]; lia|].
    replace (Z.to_nat (Z.succ d0)) with (S (Z.to_nat d0)) by lia. cbn [nth]. exact H2.
Qed.

Lemma find_char_eqb c c' l d d' : find_char c l = Some d -> find_char c' l = Some d' ->
  (d =? d') = (c =? c').
Proof.
  intros H H'. destruct (Z.eqb_spec c c') as [E|E].
  - subst c'. rewrite H in H'. injection H' as <-. apply Z.eqb_refl.
  - apply find_char_spec in H, H'. destruct H as [_ H], H' as [_ H'].
    apply Z.eqb_neq. intros ->. congruence.
Qed.

Notation charset_find := (fun x => find_char x bech32_charset).

Lemma map_opt_cons_inv {A B} (f : A -> option B) x r ys : map_opt f (x :: r) = Some ys ->
  exists y ys', f x = Some y /\ map_opt f r = Some ys' /\ ys = y :: ys'.
Proof.
  cbn [map_opt]. destruct (f x) as [y|]; [|discriminate].
  destruct (map_opt f r) as [ys'|]; [|discriminate].
  intros H. injection H as <-. exists y, ys'. repeat split.
Qed.

Lemma map_opt_charset r : forall ds, map_opt charset_find r = Some ds ->
  length ds = length r /\ sym5 ds.
Proof.
  induction r as [|x r IH]; intros ds H.
  - cbn [map_opt] in H. injection H as <-. split; [reflexivity|constructor].
  - apply map_opt_cons_inv in H. destruct H as [y [ys [Hy [Hys ->]]]].
    destruct (IH ys Hys) as [HL HS]. split; [cbn [length]; now rewrite HL|].
    constructor; [|exact HS]. apply find_char_spec in Hy.
    destruct charset_facts as [L32 _]. rewrite L32 in Hy. lia.
Qed.

Lemma hamming_cons x a y b :
  hamming (x :: a) (y :: b) = ((if (x =? y)%Z then 0 else 1) + hamming a b)%nat.
Proof. unfold hamming. cbn [combine filter fst snd]. destruct (x =? y); reflexivity. Qed.

Lemma hamming_nil_r a : hamming a [] = 0%nat.
Proof. unfold hamming. destruct a; reflexivity. Qed.

Lemma map_opt_hamming r : forall r' ds ds',
  map_opt charset_find r = Some ds -> map_opt charset_find r' = Some ds' ->
  hamming ds ds' = hamming r r'.
Proof.
  induction r as [|x r IH]; intros r' ds ds' H H'.
  - cbn [map_opt] in H. injection H as <-. reflexivity.
  - apply map_opt_cons_inv in H. destruct H as [y [ys [Hy [Hys ->]]]].
    destruct r' as [|x' r'].
    + cbn [map_opt] in H'. injection H' as <-. now rewrite !hamming_nil_r.
    + apply map_opt_cons_inv in H'. destruct H' as [y' [ys' [Hy' [Hys' ->]]]].
      rewrite !hamming_cons, (IH r' ys ys' Hys Hys').
      now rewrite (find_char_eqb x x' bech32_charset y y' Hy Hy').
Qed.

(* ------------------------------------------------------------------ *)
(* 3. what a successful decoding has checked                           *)
(* ------------------------------------------------------------------ *)

Lemma decode_inv s hrp data spec : bech32_decode s = Some (hrp, data, spec) ->
  exists pos ds,
    Forall (fun c => 33 <= c <= 126) s /\
    rfind 49 (map lower s) 0 None = Some pos /\ 1 <= pos /\
    Z.of_nat (length (map lower s)) <= 90 /\
    hrp = firstn (Z.to_nat pos) (map lower s) /\
    map_opt charset_find (skipn (Z.to_nat pos + 1) (map lower s)) = Some ds /\
    verify_checksum hrp ds = Some spec.
Proof.
  unfold bech32_decode. intros H.
  destruct (existsb (fun x => (x <? 33) || (126 <? x)) s) eqn:Hex; [discriminate|].
  destruct (negb (list_eqb (map lower s) s) && negb (list_eqb (map upper s) s)); [discriminate|].
  cbv zeta in H.
  destruct (rfind 49 (map lower s) 0 None) as [pos|] eqn:Hr; [|discriminate].
  destruct ((pos <? 1) || (Z.of_nat (length (map lower s)) <? pos + 7)
            || (90 <? Z.of_nat (length (map lower s)))) eqn:Hc; [discriminate|].
  destruct (map_opt charset_find (skipn (Z.to_nat pos + 1) (map lower s))) as [ds|] eqn:Hm;
    [|discriminate].
  destruct (verify_checksum (firstn (Z.to_nat pos) (map lower s)) ds) as [sp|] eqn:Hv;
    [|discriminate].
  injection H as <- _ <-.
  apply orb_false_iff in Hc. destruct Hc as [Hc H90]. apply orb_false_iff in Hc.
  destruct Hc as [H1 _]. apply Z.ltb_ge in H1, H90.
  exists pos, ds. split.
  { apply Forall_forall. intros c Hin.
    destruct (Z.ltb_spec c 33) as [L|L].
    - assert (existsb (fun x => (x <? 33) || (126 <? x)) s = true); [|congruence].
      apply existsb_exists. exists c. split; [exact Hin|].
      apply orb_true_iff. left. apply Z.ltb_lt. exact L.
    - destruct (Z.ltb_spec 126 c) as [U|U]; [|lia].
      assert (existsb (fun x => (x <? 33) || (126 <? x)) s = true); [|congruence].
      apply existsb_exists. exists c. split; [exact Hin|].
      apply orb_true_iff. right. apply Z.ltb_lt. exact U. }
  repeat split; try assumption; lia.
Qed.

(* ------------------------------------------------------------------ *)
(* 4. the theorem                                                      *)
(* ------------------------------------------------------------------ *)

Theorem decode_detects_4 : forall s s' hrp data spec,
  bech32_decode s = Some (hrp, data, spec) ->
  length s' = length s ->
  (* s' keeps the prefix and the separator of s and is all lower case like the decoder's view of s *)
  firstn (length hrp + 1) s' = firstn (length hrp + 1) (map lower s) ->
  (* the characters after the separator are bech32 characters ... *)
  Forall (fun c => In c bech32_charset) (skipn (length hrp + 1) s') ->
  (* ... and between one and four of them differ from those of s *)
  (1 <= hamming (skipn (length hrp + 1) (map lower s)) (skipn (length hrp + 1) s') <= 4)%nat ->
  forall hrp' data' spec', bech32_decode s' = Some (hrp', data', spec') -> spec' <> spec.
Proof.
  intros s s' hrp data spec Hd Hlen Hpre Hcs Hham hrp' data' spec' Hd'.
  apply decode_inv in Hd. destruct Hd as [pos [ds [Hrng [Hr [Hpos [H90 [Hh [Hm Hv]]]]]]]].
  assert (Hbrng : Forall (fun c => 33 <= c <= 126) (map lower s)).
  { apply Forall_forall. intros c Hin. apply in_map_iff in Hin. destruct Hin as [x [<- Hx]].
    apply lower_range. rewrite Forall_forall in Hrng. now apply Hrng. }
  pose proof (map_lower_idem s) as Hbl.
  assert (Hblen : length (map lower s) = length s') by (rewrite map_length; now symmetry).
  revert Hr H90 Hh Hm Hpre Hham Hbrng Hbl Hblen. generalize (map lower s). clear Hrng Hlen s.
  intros b Hr H90 Hh Hm Hpre Hham Hbrng Hbl Hblen.
  apply rfind_inv in Hr. destruct Hr as [[Hx _]|[a [r [Eb [Hn Hp]]]]]; [discriminate|].
  assert (Hpa : Z.to_nat pos = length a) by lia. rewrite Hpa in Hh, Hm. clear Hpa.
  assert (Ea : hrp = a) by (rewrite Hh, Eb; apply firstn_app_exact).
  assert (Er : skipn (length a + 1) b = r).
  { rewrite Eb. replace (a ++ 49 :: r) with ((a ++ [49]) ++ r) by (now rewrite <- app_assoc).
    apply skipn_app_len. rewrite app_length. reflexivity. }
  rewrite Er in Hm. rewrite Ea in Hpre, Hcs, Hham. rewrite Er in Hham.
  assert (Ef : firstn (length a + 1) b = a ++ [49]).
  { rewrite Eb. replace (a ++ 49 :: r) with ((a ++ [49]) ++ r) by (now rewrite <- app_assoc).
    apply firstn_app_len. rewrite app_length. reflexivity. }
  rewrite Ef in Hpre.
  set (r' := skipn (length a + 1) s') in *.
  assert (Es' : s' = a ++ 49 :: r').
  { rewrite <- (firstn_skipn (length a + 1) s'). fold r'. rewrite Hpre.
    now rewrite <- app_assoc. }
  clearbody r'.
  (* the characters of s' *)
  destruct charset_facts as [_ [_ [H49 Hcf]]]. rewrite Forall_forall in Hcf.
  assert (Hn' : ~ In 49 r').
  { intros Hin. rewrite Forall_forall in Hcs. apply H49. now apply Hcs. }
  assert (Hlow' : map lower s' = s').
  { rewrite Es'. rewrite Eb in Hbl. apply map_id_inv in Hbl.
    apply map_id_Forall. apply Forall_app in Hbl. destruct Hbl as [Hla _].
    apply Forall_app. split; [exact Hla|]. constructor; [reflexivity|].
    apply Forall_forall. intros c Hc.
    rewrite Forall_forall in Hcs. now apply Hcf, Hcs. }
  (* decoding s' *)
  apply decode_inv in Hd'.
  destruct Hd' as [pos' [ds' [_ [Hr' [_ [_ [Hh' [Hm' Hv']]]]]]]].
  rewrite Hlow' in Hr', Hh', Hm'. rewrite Es' in Hr', Hh', Hm'.
  rewrite rfind_sep in Hr' by exact Hn'. injection Hr' as <-.
  rewrite Nat2Z.id in Hh', Hm'.
  rewrite firstn_app_exact in Hh'.
  replace (a ++ 49 :: r') with ((a ++ [49]) ++ r') in Hm' by (now rewrite <- app_assoc).
  rewrite skipn_app_len in Hm' by (rewrite app_length; reflexivity).
  subst hrp hrp'.
  (* symbols *)
  destruct (map_opt_charset r ds Hm) as [Lds Sds].
  destruct (map_opt_charset r' ds' Hm') as [Lds' Sds'].
  assert (Lrr' : length r' = length r).
  { rewrite Es', Eb in Hblen. rewrite !app_length in Hblen. cbn [length] in Hblen. lia. }
  intros ->. revert Hv'. apply checksum_detects_4 with (data := ds).
  - rewrite Eb in Hbrng. apply Forall_app in Hbrng. destruct Hbrng as [Hbrng _].
    eapply Forall_impl; [|exact Hbrng]. cbn beta. intros; lia.
  - exact Sds.
  - exact Sds'.
  - lia.
  - rewrite Eb in H90. rewrite app_length in H90. cbn [length] in H90. lia.
  - rewrite (map_opt_hamming r r' ds ds' Hm Hm'). exact Hham.
  - rewrite Ea in Hv. exact Hv.
Qed.

(* ------------------------------------------------------------------ *)
(* 5. the hypotheses can be met                                        *)
(* ------------------------------------------------------------------ *)

(* "bc1qpzrnw3dvh" = bech32_encode "bc" [0;1;2;3] BECH32 *)
Definition ex_s : list Z := [98; 99; 49; 113; 112; 122; 114; 110; 119; 51; 100; 118; 104].
(* "bc1ppqrnw3dvh": two data characters replaced *)
Definition ex_s' : list Z := [98; 99; 49; 112; 112; 113; 114; 110; 119; 51; 100; 118; 104].

Lemma In_dec_b c l : existsb (Z.eqb c) l = true -> In c l.
Proof.
  intros H. apply existsb_exists in H. destruct H as [x [Hx E]]. apply Z.eqb_eq in E. now subst.
Qed.

Example decode_detects_4_nonvacuous :
  ex_s = bech32_encode [98; 99] [0; 1; 2; 3] BECH32 /\
  bech32_decode ex_s = Some ([98; 99], [0; 1; 2; 3], BECH32) /\
  hamming (skipn 3 ex_s) (skipn 3 ex_s') = 2%nat /\
  forall hrp' data', bech32_decode ex_s' <> Some (hrp', data', BECH32).
Proof.
  split; [vm_compute; reflexivity|].
  assert (Hd : bech32_decode ex_s = Some ([98; 99], [0; 1; 2; 3], BECH32)) by (vm_compute; reflexivity).
  split; [exact Hd|]. split; [vm_compute; reflexivity|].
  intros hrp' data' H.
  refine (decode_detects_4 ex_s ex_s' _ _ _ Hd _ _ _ _ hrp' data' BECH32 H eq_refl).
  - reflexivity.
  - vm_compute. reflexivity.
  - apply Forall_forall. intros c Hc.
    assert (F : forallb (fun c => existsb (Z.eqb c) bech32_charset) (skipn (length [98; 99] + 1) ex_s') = true)
      by (vm_compute; reflexivity).
    rewrite forallb_forall in F. apply In_dec_b. now apply F.
  - vm_compute. split; repeat constructor.
Qed.

Print Assumptions decode_detects_4.
Print Assumptions decode_detects_4_nonvacuous.
