(* Source tie for utils.prepend_compact_size: the function as translated from the current source (Gen/Src.v) equals the model. *)
From Coq Require Import String ZArith List Bool Lia ZifyBool.
From BU Require Import Lib.Bytes Lib.BytesFacts Lib.PySem Gen.Tables Gen.Src Model.Varint Model.Script Model.Seq
  Proofs.ScriptNumFacts Proofs.TieLib Proofs.Tie_encode_varint.
Import ListNotations.
Open Scope list_scope.
Open Scope Z_scope.

Lemma src_prepend_compact_size_eq : forall d, src_prepend_compact_size d = of_option (prepend_compact_size d).
Proof.
  intros d. unfold src_prepend_compact_size. tie_pipe.
Qed.

#[global] Hint Rewrite src_prepend_compact_size_eq : tie.
