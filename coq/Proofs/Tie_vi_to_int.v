(* Source tie for utils.vi_to_int: the function as translated from the current source (Gen/Src.v) equals the model. *)
From Coq Require Import String ZArith List Bool Lia ZifyBool.
From BU Require Import Lib.Bytes Lib.BytesFacts Lib.PySem Gen.Tables Gen.Src Model.Varint Model.Script Model.Seq
  Proofs.ScriptNumFacts Proofs.TieLib.
Import ListNotations.
Open Scope list_scope.
Open Scope Z_scope.

Lemma src_vi_to_int_eq : forall d, wf_bytes d -> src_vi_to_int d = of_option (pairZ (vi_to_int d)).
Proof.
  intros d Hd. unfold src_vi_to_int. cbv beta iota zeta. eval_closed. rewrite !py_index_0.
  destruct d as [|b t]; [reflexivity|].
  assert (Hb : 0 <= b < 256) by (inversion Hd; assumption).
  unfold vi_to_int. decode_first_byte b Hb.
Qed.
