(* Source tie for TxWitnessInput.to_bytes and Transaction.to_bytes: the functions as translated from the current
   source (Gen/Src.v), loops included (PySem.py_for), equal the model. *)
From Coq Require Import String ZArith List Bool Lia ZifyBool.
From BU Require Import Lib.Bytes Lib.BytesFacts Lib.PySem Gen.Tables Gen.Src Model.Varint Model.Script Model.Seq Model.Tx
  Proofs.ScriptNumFacts Proofs.TieLib Proofs.Tie_encode_varint Proofs.Tie_prepend_compact_size Proofs.Tie_tx_parts.
Import ListNotations.
Open Scope list_scope.
Open Scope Z_scope.
(* a rewritten source that translates but sends a tactic into a long search is reported as a broken proof in bounded time *)
Set Default Timeout 900.

Lemma src_witness_to_bytes_eq : forall st, src_witness_to_bytes st = of_option (witness_to_bytes st).
Proof.
  intros st. unfold src_witness_to_bytes, witness_to_bytes. cbv zeta.
  erewrite (py_for_acc (fun x => src_prepend_compact_size x) prepend_compact_size);
    [ | intros; apply src_prepend_compact_size_eq | body_ok ].
  destruct (concat_opt prepend_compact_size st); reflexivity.
Qed.
#[global] Hint Rewrite src_witness_to_bytes_eq : tie.

Lemma g_txin x : src_txin_to_bytes (ti_txid x) (ti_vout x) (ti_script x) (ti_seq x) = of_option (txin_to_bytes x).
Proof. destruct x. apply src_txin_to_bytes_eq. Qed.
Lemma g_txout x : src_txout_to_bytes (to_amount x) (to_script x) = of_option (txout_to_bytes x).
Proof. destruct x. apply src_txout_to_bytes_eq. Qed.
Lemma g_wit w :
  match src_encode_varint (Z.of_nat (length w)) with
  | Ok c => match src_witness_to_bytes w with Ok b => Ok (c ++ b) | _ => Raise end
  | _ => Raise end = of_option (witness_with_count w).
Proof.
  unfold witness_with_count, obind. rewrite src_encode_varint_eq, src_witness_to_bytes_eq.
  destruct (encode_varint (Z.of_nat (length w))); [|reflexivity].
  destruct (witness_to_bytes w); reflexivity.
Qed.

(* rewrite the next loop of the goal, whichever of the three it is *)
Ltac loop_step :=
  first
  [ erewrite (py_for_acc (fun x => src_txin_to_bytes (ti_txid x) (ti_vout x) (ti_script x) (ti_seq x)) txin_to_bytes);
      [ | intros; apply g_txin | body_ok ]
  | erewrite (py_for_acc (fun x => src_txout_to_bytes (to_amount x) (to_script x)) txout_to_bytes);
      [ | intros; apply g_txout | body_ok ]
  | erewrite (py_for_acc (fun w => match src_encode_varint (Z.of_nat (length w)) with
                                   | Ok c => match src_witness_to_bytes w with Ok b => Ok (c ++ b) | _ => Raise end
                                   | _ => Raise end) witness_with_count);
      [ | intros; apply g_wit | body_ok ] ].

Lemma src_tx_to_bytes_eq : forall hs v i o w l sw,
  src_tx_to_bytes hs v i o w l =
  of_option (tx_to_bytes {| tx_version := v; tx_inputs := i; tx_outputs := o; tx_locktime := l; tx_segwit := sw; tx_witnesses := w |} hs).
Proof.
  intros. unfold src_tx_to_bytes. not_fallback (@tx_to_bytes). unfold tx_to_bytes, obind.
  cbn [tx_version tx_inputs tx_outputs tx_locktime tx_segwit tx_witnesses]. cbv zeta.
  destruct hs;
    repeat (autorewrite with tie; unfold of_option; reuse_eqns; cbv beta iota zeta; first [ loop_step | pipe_step ]);
    cbv beta iota zeta; try reflexivity; try congruence;
    rewrite <- ?app_assoc; cbn [app]; rewrite <- ?app_assoc; try reflexivity; bytes_eq.
Qed.
