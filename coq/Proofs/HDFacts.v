From Coq Require Import ZArith String List Bool.
From BU Require Import Lib.Bytes Gen.Tables Model.Script Model.HD.
Import ListNotations.
Open Scope list_scope.
Open Scope Z_scope.

Section F.
  Variable key : Type.
  Variable ckd : key -> Z -> key.

  Lemma derive_app k p q : derive key ckd (derive key ckd k p) q = derive key ckd k (p ++ q).
  Proof. unfold derive. now rewrite fold_left_app. Qed.

  (* after from_path the current key is derived from the ROOT, whatever was derived before *)
  Lemma from_path_root s p : p_root key (hd_from_path key ckd s p) = p_root key s /\
    p_cur key (hd_from_path key ckd s p) = option_map (fun r => derive key ckd r p) (p_root key s) /\
    p_mainnet key (hd_from_path key ckd s p) = p_mainnet key s.
  Proof. repeat split. Qed.

  (* any sequence of path changes: the key handed back is the derivation of the LAST path from the root *)
  Theorem paths_from_root ps s p0 :
    let s' := fold_left (hd_from_path key ckd) ps (hd_from_path key ckd s p0) in
    p_root key s' = p_root key s /\
    p_cur key s' = option_map (fun r => derive key ckd r (last ps p0)) (p_root key s) /\
    p_mainnet key s' = p_mainnet key s.
  Proof.
    revert s p0. induction ps as [|p ps IH]; intros s p0; cbn [fold_left last].
    - apply from_path_root.
    - specialize (IH (hd_from_path key ckd s p0) p). cbv zeta in IH.
      destruct IH as (H1 & H2 & H3).
      destruct (from_path_root s p0) as (R1 & R2 & R3).
      assert (E : last ps p = match ps with [] => p | _ :: _ => last ps p0 end).
      { destruct ps as [|q ps']; [reflexivity|]. clear. revert q. induction ps' as [|r ps' IH']; intros q; [reflexivity|].
        cbn [last] in *. apply IH'. }
      split; [now rewrite H1, R1|]. split; [|now rewrite H3, R3].
      rewrite H2, R1. destruct ps; [reflexivity|]. now rewrite E.
  Qed.

  (* construction from an extended key and a path, and from a mnemonic *)
  Lemma init_xprv mainnet x p : p_cur key (hd_init key ckd mainnet (Some x) (Some p) None) = Some (derive key ckd x p)
    /\ p_root key (hd_init key ckd mainnet (Some x) (Some p) None) = Some x.
  Proof. split; reflexivity. Qed.
  Lemma init_mnemonic mainnet r : p_cur key (hd_init key ckd mainnet None None (Some r)) = Some r.
  Proof. reflexivity. Qed.

  (* the hand-over never fails on any of the four networks: the package is created for mainnet exactly
     when the configured network is mainnet, and the WIF versions coincide (generated tables) *)
  Theorem handover_network net s : In net networks -> p_mainnet key s = is_mainnet net ->
    hd_get_private_key key net s = p_cur key s.
  Proof.
    unfold networks. cbn [In]. intros [<-|[<-|[<-|[<-|[]]]]] Hm; unfold hd_get_private_key, pkg_wif_version; rewrite Hm; reflexivity.
  Qed.
End F.
