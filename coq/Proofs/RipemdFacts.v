(* The Python-mirroring RIPEMD-160 model (unbounded integers) equals the 32-bit word specification. *)
From Coq Require Import ZArith List Bool Lia.
From BU Require Import Lib.Bytes Lib.BytesFacts Gen.Tables Model.Ripemd160 Spec.Ripemd160Spec.
Import ListNotations.
Open Scope Z_scope.
Ltac Zify.zify_post_hook ::= Z.to_euclidean_division_equations.

(* ---------- finite checks over 0..79 ---------- *)

Fixpoint zrange (n : nat) (start : Z) : list Z :=
  match n with
  | O => []
  | S n' => start :: zrange n' (start + 1)
  end.

Lemma in_zrange n : forall start j, start <= j < start + Z.of_nat n -> In j (zrange n start).
Proof.
  induction n as [|n IH]; intros start j H.
  - lia.
  - cbn [zrange]. destruct (Z.eq_dec start j) as [E|E]; [now left|right].
    apply IH. lia.
Qed.

Lemma check80 (P : Z -> bool) : forallb P (zrange 80 0) = true -> forall j, 0 <= j < 80 -> P j = true.
Proof.
  intros H j Hj. rewrite forallb_forall in H. apply H. apply in_zrange. cbn. lia.
Qed.

Lemma tables_eq : rmd_ml = r_left /\ rmd_mr = r_right /\ rmd_rl = s_left /\ rmd_rr = s_right /\
  (forall j, 0 <= j < 80 -> nthz rmd_kl (Z.shiftr j 4) = K_left j /\ nthz rmd_kr (Z.shiftr j 4) = K_right j).
Proof.
  split; [reflexivity|]. split; [reflexivity|]. split; [reflexivity|]. split; [reflexivity|].
  intros j Hj.
  pose proof (check80 (fun j => (nthz rmd_kl (Z.shiftr j 4) =? K_left j) && (nthz rmd_kr (Z.shiftr j 4) =? K_right j))) as C.
  cbv beta in C. specialize (C ltac:(vm_compute; reflexivity) j Hj).
  apply andb_true_iff in C. destruct C as [C1 C2]. apply Z.eqb_eq in C1, C2. now split.
Qed.

Lemma shifts_ok j : 0 <= j < 80 -> 0 < nthz rmd_rl j < 32 /\ 0 < nthz rmd_rr j < 32.
Proof.
  intros Hj.
  pose proof (check80 (fun j => ((0 <? nthz rmd_rl j) && (nthz rmd_rl j <? 32)) && ((0 <? nthz rmd_rr j) && (nthz rmd_rr j <? 32)))) as C.
  cbv beta in C. specialize (C ltac:(vm_compute; reflexivity) j Hj).
  rewrite !andb_true_iff in C. rewrite !Z.ltb_lt in C. lia.
Qed.

(* ---------- reduction modulo 2^32 as a mask ---------- *)

Lemma M32_pow : M32 = 2 ^ 32.
Proof. reflexivity. Qed.

Lemma mask32_ones : mask32 = Z.ones 32.
Proof. reflexivity. Qed.

Lemma mod_land x : x mod M32 = Z.land x (Z.ones 32).
Proof. rewrite M32_pow, Z.land_ones by lia. reflexivity. Qed.

Lemma not32_land x : not32 (Z.land x (Z.ones 32)) = Z.land (Z.lnot x) (Z.ones 32).
Proof.
  unfold not32. rewrite !Z.land_ones by lia. unfold Z.lnot. rewrite <- M32_pow. unfold M32.
  lia.
Qed.

Ltac bitwise x y z :=
  apply Z.bits_inj'; intros n Hn;
  repeat (rewrite ?Z.land_spec, ?Z.lor_spec, ?Z.lxor_spec, ?Z.lnot_spec by assumption);
  destruct (Z.testbit x n), (Z.testbit y n), (Z.testbit z n), (Z.testbit (Z.ones 32) n); reflexivity.

Lemma f0_mod x y z :
  Z.lxor (Z.lxor x y) z mod M32 = Z.lxor (Z.lxor (x mod M32) (y mod M32)) (z mod M32).
Proof. rewrite !mod_land. bitwise x y z. Qed.

Lemma f1_mod x y z :
  Z.lor (Z.land x y) (Z.land (Z.lnot x) z) mod M32
  = Z.lor (Z.land (x mod M32) (y mod M32)) (Z.land (not32 (x mod M32)) (z mod M32)).
Proof. rewrite !mod_land, !not32_land. bitwise x y z. Qed.

Lemma f2_mod x y z :
  Z.lxor (Z.lor x (Z.lnot y)) z mod M32
  = Z.lxor (Z.lor (x mod M32) (not32 (y mod M32))) (z mod M32).
Proof. rewrite !mod_land, !not32_land. bitwise x y z. Qed.

Lemma f3_mod x y z :
  Z.lor (Z.land x z) (Z.land y (Z.lnot z)) mod M32
  = Z.lor (Z.land (x mod M32) (z mod M32)) (Z.land (y mod M32) (not32 (z mod M32))).
Proof. rewrite !mod_land, !not32_land. bitwise x y z. Qed.

Lemma f4_mod x y z :
  Z.lxor x (Z.lor y (Z.lnot z)) mod M32
  = Z.lxor (x mod M32) (Z.lor (y mod M32) (not32 (z mod M32))).
Proof. rewrite !mod_land, !not32_land. bitwise x y z. Qed.

Lemma fi_mod x y z i : 0 <= i <= 4 ->
  (fi x y z i) mod M32 = f_spec (16 * i) (x mod M32) (y mod M32) (z mod M32).
Proof.
  intros Hi.
  assert (C : i = 0 \/ i = 1 \/ i = 2 \/ i = 3 \/ i = 4) by lia.
  destruct C as [-> | [-> | [-> | [-> | ->]]]]; unfold fi, f_spec; cbn [Z.eqb Z.ltb Z.mul Z.compare Pos.mul Pos.compare Pos.compare_cont Pos.eqb].
  - apply f0_mod.
  - apply f1_mod.
  - apply f2_mod.
  - apply f3_mod.
  - apply f4_mod.
Qed.

(* the selector used by the model (j >> 4, and 4 - (j >> 4) on the right line) against the
   specification's selector (j, and 79 - j on the right line) *)
Lemma shiftr4_cases j : 0 <= j < 80 ->
  (j < 16 /\ Z.shiftr j 4 = 0) \/ (16 <= j < 32 /\ Z.shiftr j 4 = 1) \/ (32 <= j < 48 /\ Z.shiftr j 4 = 2) \/
  (48 <= j < 64 /\ Z.shiftr j 4 = 3) \/ (64 <= j /\ Z.shiftr j 4 = 4).
Proof.
  intros Hj. rewrite Z.shiftr_div_pow2 by lia. change (2 ^ 4) with 16. lia.
Qed.

Lemma f_spec_sel j i x y z : 0 <= i <= 4 -> 16 * i <= j < 16 * i + 16 -> f_spec j x y z = f_spec (16 * i) x y z.
Proof.
  intros Hi Hj. unfold f_spec.
  destruct (Z.ltb_spec j 16), (Z.ltb_spec (16 * i) 16); try lia; try reflexivity.
  destruct (Z.ltb_spec j 32), (Z.ltb_spec (16 * i) 32); try lia; try reflexivity.
  destruct (Z.ltb_spec j 48), (Z.ltb_spec (16 * i) 48); try lia; try reflexivity.
  destruct (Z.ltb_spec j 64), (Z.ltb_spec (16 * i) 64); try lia; try reflexivity.
Qed.

Lemma fi_mod_left x y z j : 0 <= j < 80 ->
  (fi x y z (Z.shiftr j 4)) mod M32 = f_spec j (x mod M32) (y mod M32) (z mod M32).
Proof.
  intros Hj. rewrite fi_mod by (destruct (shiftr4_cases j Hj) as [H|[H|[H|[H|H]]]]; lia).
  symmetry. apply f_spec_sel; destruct (shiftr4_cases j Hj) as [H|[H|[H|[H|H]]]]; lia.
Qed.

Lemma fi_mod_right x y z j : 0 <= j < 80 ->
  (fi x y z (4 - Z.shiftr j 4)) mod M32 = f_spec (79 - j) (x mod M32) (y mod M32) (z mod M32).
Proof.
  intros Hj. rewrite fi_mod by (destruct (shiftr4_cases j Hj) as [H|[H|[H|[H|H]]]]; lia).
  symmetry. apply f_spec_sel; destruct (shiftr4_cases j Hj) as [H|[H|[H|[H|H]]]]; lia.
Qed.

(* ---------- rotation ---------- *)

Lemma rol_range x s : 0 <= rol x s < M32.
Proof.
  unfold rol. rewrite mask32_ones, Z.land_ones by lia. rewrite <- M32_pow.
  apply Z.mod_pos_bound. reflexivity.
Qed.

Lemma rol_mod x s : 0 < s < 32 -> rol x s = rol32 (x mod M32) s.
Proof.
  intros Hs. unfold rol, rol32. rewrite mask32_ones.
  rewrite <- (mod_land x). set (w := x mod M32).
  assert (Hw : 0 <= w < 2 ^ 32) by (subst w; rewrite M32_pow; apply Z.mod_pos_bound; lia).
  assert (Hp : 2 ^ 32 = 2 ^ (32 - s) * 2 ^ s) by (rewrite <- Z.pow_add_r by lia; f_equal; lia).
  assert (Hps : 0 < 2 ^ s) by (apply Z.pow_pos_nonneg; lia).
  assert (Hps' : 0 < 2 ^ (32 - s)) by (apply Z.pow_pos_nonneg; lia).
  set (b := Z.shiftr w (32 - s)).
  assert (Hb : 0 <= b < 2 ^ s).
  { subst b. rewrite Z.shiftr_div_pow2 by lia. split.
    - apply Z.div_pos; lia.
    - apply Z.div_lt_upper_bound; lia. }
  assert (Hs32 : 2 ^ s <= 2 ^ 32) by (apply Z.pow_le_mono_r; lia).
  rewrite Z.land_lor_distr_l.
  replace (Z.land b (Z.ones 32)) with b by (rewrite Z.land_ones by lia; symmetry; apply Z.mod_small; lia).
  assert (H0 : Z.land (Z.land (Z.shiftl x s) (Z.ones 32)) b = 0).
  { apply Z.bits_inj'. intros n Hn. rewrite Z.bits_0, !Z.land_spec.
    destruct (Z.lt_ge_cases n s) as [Hlt|Hge].
    + rewrite Z.shiftl_spec_low by lia. reflexivity.
    + replace b with (b mod 2 ^ s) by (apply Z.mod_small; lia).
      rewrite Z.mod_pow2_bits_high by lia. apply andb_false_r. }
  rewrite <- (Z.lxor_lor _ _ H0), <- (Z.add_nocarry_lxor _ _ H0).
  f_equal.
  - rewrite Z.land_ones by lia. rewrite Z.shiftl_mul_pow2 by lia. rewrite <- M32_pow.
    subst w. rewrite Z.mul_mod_idemp_l by (unfold M32; lia). reflexivity.
  - subst b. apply Z.shiftr_div_pow2. lia.
Qed.

(* ---------- additions ---------- *)

Lemma add32_mod a b : add32 (a mod M32) (b mod M32) = (a + b) mod M32.
Proof. unfold add32. symmetry. apply Z.add_mod. unfold M32; lia. Qed.

Lemma add32_mod_l a b : add32 (a mod M32) b = (a + b) mod M32.
Proof. unfold add32. apply Z.add_mod_idemp_l. unfold M32; lia. Qed.

Lemma add32_mod_r a b : add32 a (b mod M32) = (a + b) mod M32.
Proof. unfold add32. apply Z.add_mod_idemp_r. unfold M32; lia. Qed.

Local Opaque fi rol rol32 f_spec add32 M32.

(* ---------- one step, eighty rounds, one compression ---------- *)

Definition cong5 (s : st5) (w : w5) : Prop :=
  sa s mod M32 = wa w /\ sb s mod M32 = wb w /\ sc s mod M32 = wc w /\ sd s mod M32 = wd w /\ se s mod M32 = we w.

Lemma step_cong x ml rl k fidx fj j l wl :
  0 < nthz rl j < 32 ->
  (forall a b c, fi a b c fidx mod M32 = f_spec fj (a mod M32) (b mod M32) (c mod M32)) ->
  cong5 l wl ->
  cong5 (step x ml rl k fidx j l) (line_step x ml rl k fj j wl).
Proof.
  intros Hs Hf (Ha & Hb & Hc & Hd & He).
  unfold cong5, step, line_step. cbn [sa sb sc sd se wa wb wc wd we].
  rewrite <- Ha, <- Hb, <- Hc, <- Hd, <- He. clear Ha Hb Hc Hd He.
  change nz with nthz.
  rewrite <- Hf. rewrite add32_mod, !add32_mod_l.
  rewrite <- rol_mod by assumption. rewrite <- rol_mod by lia.
  rewrite add32_mod_r.
  repeat split.
  apply Z.mod_small. apply rol_range.
Qed.

Lemma rounds_cong n : forall j x l r wl wr,
  0 <= j -> j + Z.of_nat n <= 80 ->
  cong5 l wl -> cong5 r wr ->
  cong5 (fst (rounds n j x l r)) (fst (lines n j x wl wr)) /\
  cong5 (snd (rounds n j x l r)) (snd (lines n j x wl wr)).
Proof.
  induction n as [|n IH]; intros j x l r wl wr Hj Hn Hl Hr.
  - cbn [rounds lines fst snd]. now split.
  - cbn [rounds lines].
    assert (Hj80 : 0 <= j < 80) by lia.
    destruct tables_eq as (E1 & E2 & E3 & E4 & EK).
    destruct (EK j Hj80) as [EKl EKr].
    destruct (shifts_ok j Hj80) as [Sl Sr].
    apply IH; try lia.
    + rewrite <- E1, <- E3, <- EKl. apply step_cong; try assumption.
      intros a b c. apply fi_mod_left. assumption.
    + rewrite <- E2, <- E4, <- EKr. apply step_cong; try assumption.
      intros a b c. apply fi_mod_right. assumption.
Qed.

Lemma compress_cong h w block : cong5 h w -> cong5 (compress h block) (compress_spec w block).
Proof.
  intros H. unfold compress, compress_spec. change (block_words block) with (words_le block).
  pose proof (rounds_cong 80 0 (words_le block) h h w w ltac:(lia) ltac:(cbn; lia) H H) as [Cl Cr].
  destruct (rounds 80 0 (words_le block) h h) as [l r].
  destruct (lines 80 0 (words_le block) w w) as [wl wr].
  cbn [fst snd] in Cl, Cr.
  destruct H as (Ha & Hb & Hc & Hd & He).
  destruct Cl as (La & Lb & Lc & Ld & Le).
  destruct Cr as (Ra & Rb & Rc & Rd & Re).
  unfold cong5. cbn [sa sb sc sd se wa wb wc wd we].
  rewrite <- Ha, <- Hb, <- Hc, <- Hd, <- He, <- La, <- Lb, <- Lc, <- Ld, <- Le, <- Ra, <- Rb, <- Rc, <- Rd, <- Re.
  rewrite !add32_mod.
  repeat split.
Qed.

(* ---------- padding ---------- *)

Lemma land_lnot63 n : Z.land n (Z.lnot 63) = 64 * (n / 64).
Proof.
  change 63 with (Z.ones 6). rewrite <- Z.ldiff_land, Z.ldiff_ones_r by lia.
  rewrite Z.shiftr_div_pow2, Z.shiftl_mul_pow2 by lia. change (2 ^ 6) with 64. lia.
Qed.

Lemma land_63 n : Z.land (119 - n) 63 = (55 - n) mod 64.
Proof.
  change 63 with (Z.ones 6). rewrite Z.land_ones by lia. change (2 ^ 6) with 64. lia.
Qed.

Lemma padding_eq d : let len := Z.of_nat (length d) in
  firstn (Z.to_nat (Z.land len (Z.lnot 63))) d ++
  (skipn (Z.to_nat (Z.land len (Z.lnot 63))) d ++ (128 :: repeat 0 (Z.to_nat (Z.land (119 - len) 63))) ++ le_bytes 8 (8 * len))
  = pad_spec d.
Proof.
  intros len. rewrite app_assoc, firstn_skipn. unfold pad_spec. fold len.
  rewrite land_63. reflexivity.
Qed.

(* ---------- absorbing blocks ---------- *)

Lemma skipn_skipn' {A} n m (l : list A) : skipn n (skipn m l) = skipn (m + n) l.
Proof.
  revert l; induction m as [|m IH]; intros l.
  - reflexivity.
  - destruct l as [|a l].
    + rewrite !skipn_nil. reflexivity.
    + cbn [Nat.add]. rewrite !skipn_cons. apply IH.
Qed.

Lemma absorb_app_ge k : forall a b h, (64 * k <= length a)%nat -> absorb k (a ++ b) h = absorb k a h.
Proof.
  induction k as [|k IH]; intros a b h H; cbn [absorb]; [reflexivity|].
  rewrite firstn_app, skipn_app.
  replace (64 - length a)%nat with 0%nat by lia.
  rewrite firstn_O, skipn_O, app_nil_r. apply IH. rewrite skipn_length. lia.
Qed.

Lemma absorb_split k1 : forall k2 p h,
  absorb (k1 + k2) p h = absorb k2 (skipn (64 * k1) p) (absorb k1 p h).
Proof.
  induction k1 as [|k1 IH]; intros k2 p h.
  - replace (64 * 0)%nat with 0%nat by lia. reflexivity.
  - cbn [Nat.add absorb]. rewrite IH, skipn_skipn'.
    replace (64 + 64 * k1)%nat with (64 * S k1)%nat by lia. reflexivity.
Qed.

Lemma absorb_cong k : forall data h w, cong5 h w -> cong5 (absorb k data h) (fold_blocks k data w).
Proof.
  induction k as [|k IH]; intros data h w H; cbn [absorb fold_blocks]; [assumption|].
  apply IH, compress_cong, H.
Qed.

Lemma init_cong : cong5 init_state iv.
Proof. unfold cong5. cbn [init_state iv sa sb sc sd se wa wb wc wd we]. repeat split. Qed.

(* the model's two absorb phases are one pass over the specification's padded message *)
Lemma absorb_two_phase d h : let len := Z.of_nat (length d) in
  let fin := skipn (Z.to_nat (Z.land len (Z.lnot 63))) d ++
             (128 :: repeat 0 (Z.to_nat (Z.land (119 - len) 63))) ++ le_bytes 8 (8 * len) in
  absorb (Z.to_nat (Z.shiftr (Z.of_nat (length fin)) 6)) fin (absorb (Z.to_nat (Z.shiftr len 6)) d h)
  = absorb (Nat.div (length (pad_spec d)) 64) (pad_spec d) h.
Proof.
  intros len fin.
  set (k1 := Z.to_nat (Z.shiftr len 6)).
  set (k2 := Z.to_nat (Z.shiftr (Z.of_nat (length fin)) 6)).
  assert (Hk1 : Z.of_nat k1 = len / 64).
  { subst k1. rewrite Z.shiftr_div_pow2 by lia. change (2 ^ 6) with 64. lia. }
  assert (Hn : Z.to_nat (Z.land len (Z.lnot 63)) = (64 * k1)%nat).
  { rewrite land_lnot63. lia. }
  assert (Hle : (64 * k1 <= length d)%nat) by lia.
  set (tail := (128 :: repeat 0 (Z.to_nat (Z.land (119 - len) 63))) ++ le_bytes 8 (8 * len)) in *.
  assert (Hp : pad_spec d = d ++ tail).
  { subst tail. unfold pad_spec. fold len. rewrite land_63. reflexivity. }
  assert (Hfin : fin = skipn (64 * k1) (pad_spec d)).
  { subst fin. rewrite Hn, Hp, skipn_app. replace (64 * k1 - length d)%nat with 0%nat by lia.
    rewrite skipn_O. reflexivity. }
  assert (Hlen : length (pad_spec d) = (64 * k1 + length fin)%nat).
  { rewrite Hfin, skipn_length. rewrite Hp, app_length. lia. }
  assert (Hk : (length (pad_spec d) / 64)%nat = (k1 + k2)%nat).
  { apply Nat2Z.inj. rewrite Nat2Z.inj_div, Hlen. subst k2.
    rewrite Z.shiftr_div_pow2 by lia. change (2 ^ 6) with 64. lia. }
  rewrite Hk, absorb_split, <- Hfin.
  f_equal. rewrite Hp. symmetry. apply absorb_app_ge. assumption.
Qed.

Lemma output_cong s w : cong5 s w ->
  concat (map (fun h => le_bytes 4 (Z.land h mask32)) [sa s; sb s; sc s; sd s; se s])
  = concat (map (le_bytes 4) [wa w; wb w; wc w; wd w; we w]).
Proof.
  intros (Ha & Hb & Hc & Hd & He). rewrite <- Ha, <- Hb, <- Hc, <- Hd, <- He.
  cbn [map]. rewrite !mod_land, mask32_ones. reflexivity.
Qed.

Theorem ripemd160_correct d : ripemd160 d = ripemd160_spec d.
Proof.
  unfold ripemd160, ripemd160_spec. cbv zeta.
  rewrite absorb_two_phase. apply output_cong. apply absorb_cong. apply init_cong.
Qed.

Corollary ripemd160_correct_wf d : wf_bytes d -> ripemd160 d = ripemd160_spec d.
Proof. intros _. apply ripemd160_correct. Qed.
