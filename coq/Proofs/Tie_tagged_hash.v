(* Source tie for utils.tagged_hash and schnorr.tagged_hash: the function as translated from the current source (Gen/Src.v) equals the model. *)
From Coq Require Import String ZArith List Bool Lia ZifyBool.
From BU Require Import Lib.Bytes Lib.BytesFacts Lib.PySem Gen.Tables Gen.Src Model.Varint Model.Script Model.Seq Model.Tx Model.Sighash Model.Msg Model.Taproot
  Proofs.ScriptNumFacts Proofs.TieLib.
Import ListNotations.
Open Scope list_scope.
Open Scope Z_scope.

Lemma src_tagged_hash_eq : forall sha256 data tag, src_tagged_hash sha256 data tag = Ok (tagged_hash sha256 data tag).
Proof. intros. unfold src_tagged_hash, tagged_hash. cbv zeta. rewrite <- ?app_assoc. reflexivity. Qed.

Lemma src_schnorr_tagged_hash_eq : forall sha256 tag msg, src_schnorr_tagged_hash sha256 tag msg = Ok (tagged_hash sha256 msg tag).
Proof. intros. unfold src_schnorr_tagged_hash, tagged_hash. cbv zeta. rewrite <- ?app_assoc. reflexivity. Qed.

#[global] Hint Rewrite src_tagged_hash_eq src_schnorr_tagged_hash_eq : tie.
