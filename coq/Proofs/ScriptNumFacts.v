From Coq Require Import ZArith String List Bool Lia.
From BU Require Import Lib.Bytes Lib.BytesFacts Model.Script Spec.ScriptSpec.
Import ListNotations.
Open Scope list_scope.
Open Scope Z_scope.
Ltac Zify.zify_post_hook ::= Z.to_euclidean_division_equations.

(* ---------- nbytes ---------- *)

Lemma nbytes_pos_eq n : 0 < n -> nbytes n = Z.to_nat ((Z.log2 n + 8) / 8).
Proof.
  intros H. unfold nbytes. destruct (n <=? 0) eqn:E; [lia|reflexivity].
Qed.

Lemma nbytes_nonpos n : n <= 0 -> nbytes n = O.
Proof.
  intros H. unfold nbytes. destruct (n <=? 0) eqn:E; [reflexivity|lia].
Qed.

Lemma pow256_pow2 k : 0 <= k -> 256 ^ k = 2 ^ (8 * k).
Proof.
  intros H. change 256 with (2 ^ 8). rewrite <- Z.pow_mul_r by lia. reflexivity.
Qed.

Lemma nbytes_spec n : 0 < n -> 256 ^ (Z.of_nat (nbytes n) - 1) <= n < 256 ^ Z.of_nat (nbytes n).
Proof.
  intros H. rewrite (nbytes_pos_eq n H).
  pose proof (Z.log2_nonneg n) as Hl.
  destruct (Z.log2_spec n H) as [L1 L2].
  set (l := Z.log2 n) in *.
  assert (Hk : 1 <= (l + 8) / 8) by lia.
  rewrite Z2Nat.id by lia.
  set (k := (l + 8) / 8) in *.
  assert (K1 : 8 * (k - 1) <= l) by (unfold k; lia).
  assert (K2 : Z.succ l <= 8 * k) by (unfold k; lia).
  rewrite !pow256_pow2 by lia.
  split.
  - apply Z.le_trans with (2 ^ l); [|exact L1].
    apply Z.pow_le_mono_r; lia.
  - apply Z.lt_le_trans with (2 ^ Z.succ l); [exact L2|].
    apply Z.pow_le_mono_r; lia.
Qed.

Lemma nbytes_pos n : 0 < n -> (1 <= nbytes n)%nat.
Proof.
  intros H. rewrite (nbytes_pos_eq n H).
  pose proof (Z.log2_nonneg n) as Hl.
  assert (1 <= (Z.log2 n + 8) / 8) by lia. lia.
Qed.

Lemma nbytes_small n : 0 < n < 256 -> nbytes n = 1%nat.
Proof.
  intros H. rewrite nbytes_pos_eq by lia.
  pose proof (Z.log2_nonneg n) as Hl.
  assert (Z.log2 n < 8) by (apply Z.log2_lt_pow2; [lia|change (2 ^ 8) with 256; lia]).
  assert ((Z.log2 n + 8) / 8 = 1) as -> by lia. reflexivity.
Qed.

Lemma nbytes_step n : 0 < n -> nbytes n = S (nbytes (n / 256)).
Proof.
  intros H.
  destruct (Z_lt_le_dec n 256) as [Hs|Hb].
  - rewrite nbytes_small by lia.
    rewrite (nbytes_nonpos (n / 256)) by lia. reflexivity.
  - assert (Hq : 0 < n / 256) by lia.
    rewrite (nbytes_pos_eq n H), (nbytes_pos_eq _ Hq).
    assert (L8 : 8 <= Z.log2 n) by (apply Z.log2_le_pow2; [lia|change (2 ^ 8) with 256; lia]).
    assert (E : Z.log2 (n / 256) = Z.log2 n - 8).
    { change 256 with (2 ^ 8). rewrite <- Z.shiftr_div_pow2 by lia.
      rewrite Z.log2_shiftr by lia. lia. }
    rewrite E.
    rewrite <- Z2Nat.inj_succ by lia.
    f_equal. lia.
Qed.

(* ---------- sn_digits vs le_bytes ---------- *)

Lemma sn_digits_le_bytes fuel : forall n, (nbytes n <= fuel)%nat ->
  sn_digits fuel n = le_bytes (nbytes n) n.
Proof.
  induction fuel as [|f IH]; intros n Hf.
  - assert (nbytes n = O) as -> by lia. reflexivity.
  - cbn [sn_digits]. destruct (n <=? 0) eqn:E.
    + rewrite nbytes_nonpos by lia. reflexivity.
    + assert (Hn : 0 < n) by lia.
      rewrite (nbytes_step n Hn) in *. cbn [le_bytes].
      f_equal. apply IH. lia.
Qed.

Lemma fuel_enough n : (nbytes n <= S (Z.to_nat (Z.log2 n)))%nat.
Proof.
  destruct (Z_lt_le_dec 0 n) as [H|H].
  - rewrite nbytes_pos_eq by lia.
    pose proof (Z.log2_nonneg n) as Hl.
    assert ((Z.log2 n + 8) / 8 <= Z.log2 n + 1) by lia. lia.
  - rewrite nbytes_nonpos by lia. lia.
Qed.

Lemma spec_scriptnum_eq n :
  spec_scriptnum n =
  if 128 <=? last (le_bytes (nbytes n) n) 0 then le_bytes (nbytes n) n ++ [0]
  else le_bytes (nbytes n) n.
Proof.
  unfold spec_scriptnum. rewrite sn_digits_le_bytes by apply fuel_enough. reflexivity.
Qed.

(* ---------- last digit ---------- *)

Lemma last_le_bytes k : forall n,
  last (le_bytes (S k) n) 0 = (n / 256 ^ Z.of_nat k) mod 256.
Proof.
  induction k as [|k IH]; intros n.
  - cbn [le_bytes last]. change (Z.of_nat 0) with 0. rewrite Z.pow_0_r, Z.div_1_r. reflexivity.
  - change (le_bytes (S (S k)) n) with (n mod 256 :: le_bytes (S k) (n / 256)).
    assert (Hne : le_bytes (S k) (n / 256) <> []).
    { cbn [le_bytes]. discriminate. }
    remember (le_bytes (S k) (n / 256)) as l eqn:El.
    destruct l as [|x l]; [congruence|].
    change (last (n mod 256 :: x :: l) 0) with (last (x :: l) 0).
    rewrite El, IH.
    rewrite Nat2Z.inj_succ, Z.pow_succ_r by lia.
    rewrite Z.div_div by lia. reflexivity.
Qed.

Lemma top_digit n : 0 < n ->
  last (le_bytes (nbytes n) n) 0 = n / 256 ^ (Z.of_nat (nbytes n) - 1) /\
  1 <= n / 256 ^ (Z.of_nat (nbytes n) - 1) < 256.
Proof.
  intros H.
  pose proof (nbytes_spec n H) as [S1 S2].
  pose proof (nbytes_pos n H) as Hp.
  destruct (nbytes n) as [|k] eqn:Ek; [lia|].
  rewrite last_le_bytes.
  replace (Z.of_nat (S k) - 1) with (Z.of_nat k) in * by lia.
  rewrite Nat2Z.inj_succ, Z.pow_succ_r in S2 by lia.
  assert (Hpos : 0 < 256 ^ Z.of_nat k) by (apply Z.pow_pos_nonneg; lia).
  set (P := 256 ^ Z.of_nat k) in *.
  assert (B : 1 <= n / P < 256).
  { split.
    - apply Z.div_le_lower_bound; lia.
    - apply Z.div_lt_upper_bound; lia. }
  split; [|exact B].
  apply Z.mod_small. lia.
Qed.

(* ---------- bit test ---------- *)

Lemma land_pow2_eqb n m : 0 <= m ->
  (Z.land n (Z.shiftl 1 m) =? 0) = negb (Z.testbit n m).
Proof.
  intros Hm. rewrite Z.shiftl_1_l.
  destruct (Z.testbit n m) eqn:T; cbn [negb].
  - apply Z.eqb_neq. intros E.
    assert (F : Z.testbit (Z.land n (2 ^ m)) m = true).
    { rewrite Z.land_spec, T, Z.pow2_bits_true by lia. reflexivity. }
    rewrite E, Z.bits_0 in F. discriminate.
  - apply Z.eqb_eq. apply Z.bits_inj'. intros k Hk.
    rewrite Z.land_spec, Z.bits_0, Z.pow2_bits_eqb by lia.
    destruct (Z.eqb_spec m k) as [->|Hne].
    + rewrite T. reflexivity.
    + apply andb_false_r.
Qed.

Lemma testbit_top n m : 0 <= m -> 0 <= n < 2 ^ (m + 1) ->
  Z.testbit n m = (2 ^ m <=? n).
Proof.
  intros Hm Hn.
  assert (Hpos : 0 < 2 ^ m) by (apply Z.pow_pos_nonneg; lia).
  rewrite Z.pow_add_r, Z.pow_1_r in Hn by lia.
  destruct (2 ^ m <=? n) eqn:E.
  - apply Z.testbit_true; [lia|].
    assert (n / 2 ^ m = 1) as ->; [|reflexivity].
    set (P := 2 ^ m) in *.
    assert (1 <= n / P) by (apply Z.div_le_lower_bound; lia).
    assert (n / P < 2) by (apply Z.div_lt_upper_bound; lia).
    lia.
  - apply not_true_is_false. intros T.
    apply Z.testbit_true in T; [|lia].
    rewrite Z.div_small in T by lia. discriminate.
Qed.

Lemma top_bit_iff n : 0 < n ->
  (2 ^ (Z.of_nat (nbytes n) * 8 - 1) <=? n) = (128 <=? n / 256 ^ (Z.of_nat (nbytes n) - 1)).
Proof.
  intros H.
  pose proof (nbytes_pos n H) as Hp.
  set (k := Z.of_nat (nbytes n)) in *.
  assert (Hk : 1 <= k) by lia.
  rewrite pow256_pow2 by lia.
  replace (k * 8 - 1) with (7 + 8 * (k - 1)) by lia.
  rewrite Z.pow_add_r by lia.
  assert (Hpos : 0 < 2 ^ (8 * (k - 1))) by (apply Z.pow_pos_nonneg; lia).
  set (P := 2 ^ (8 * (k - 1))) in *.
  change (2 ^ 7) with 128.
  destruct (128 <=? n / P) eqn:E.
  - apply Z.leb_le. apply Z.leb_le in E.
    pose proof (Z.mul_div_le n P Hpos). nia.
  - apply Z.leb_gt. apply Z.leb_gt in E.
    pose proof (Z.mul_succ_div_gt n P Hpos). nia.
Qed.

(* ---------- main lemmas ---------- *)

Lemma payload_is_spec n : 0 < n -> push_integer_payload n = spec_scriptnum n.
Proof.
  intros H. rewrite spec_scriptnum_eq. unfold push_integer_payload.
  pose proof (nbytes_pos n H) as Hp.
  pose proof (nbytes_spec n H) as [S1 S2].
  destruct (top_digit n H) as [T1 T2].
  rewrite T1.
  rewrite land_pow2_eqb by lia.
  rewrite testbit_top; [| lia |].
  - rewrite top_bit_iff by lia.
    destruct (128 <=? n / 256 ^ (Z.of_nat (nbytes n) - 1)); reflexivity.
  - split; [lia|].
    replace (Z.of_nat (nbytes n) * 8 - 1 + 1) with (8 * Z.of_nat (nbytes n)) by lia.
    rewrite <- pow256_pow2 by lia. exact S2.
Qed.

Lemma spec_scriptnum_wf n : 0 <= n -> wf_bytes (spec_scriptnum n).
Proof.
  intros _. rewrite spec_scriptnum_eq.
  destruct (128 <=? _).
  - apply wf_bytes_app. split; [apply le_bytes_wf|].
    constructor; [lia|constructor].
  - apply le_bytes_wf.
Qed.

Lemma spec_scriptnum_nonempty n : 0 < n -> (1 <= length (spec_scriptnum n))%nat.
Proof.
  intros H. rewrite spec_scriptnum_eq. pose proof (nbytes_pos n H).
  destruct (128 <=? _); rewrite ?app_length, le_bytes_length; lia.
Qed.

Lemma spec_scriptnum_length n : 0 < n -> (length (spec_scriptnum n) <= nbytes n + 1)%nat.
Proof.
  intros H. rewrite spec_scriptnum_eq.
  destruct (128 <=? _); rewrite ?app_length, le_bytes_length; cbn [length]; lia.
Qed.

Lemma land_127_nonzero t : 1 <= t < 128 -> Z.land t 127 <> 0.
Proof.
  intros H. change 127 with (Z.ones 7). rewrite Z.land_ones by lia.
  change (2 ^ 7) with 128. rewrite Z.mod_small; lia.
Qed.

Lemma scriptnum_roundtrip n : 0 <= n -> scriptnum_decode_minimal (spec_scriptnum n) = Some n.
Proof.
  intros H0.
  destruct (Z.eq_dec n 0) as [->|Hne].
  - reflexivity.
  - assert (H : 0 < n) by lia.
    rewrite spec_scriptnum_eq.
    pose proof (nbytes_pos n H) as Hp.
    pose proof (nbytes_spec n H) as [S1 S2].
    destruct (top_digit n H) as [T1 T2].
    assert (V : le_val (le_bytes (nbytes n) n) = n) by (apply le_val_le_bytes_small; lia).
    assert (Hnil : le_bytes (nbytes n) n <> []).
    { intros E. apply (f_equal (@length Z)) in E. rewrite le_bytes_length in E.
      cbn [length] in E. lia. }
    pose proof (app_removelast_last 0 Hnil) as D.
    set (r := le_bytes (nbytes n) n) in *.
    set (t := last r 0) in *.
    assert (Ht : 1 <= t < 256) by lia.
    clearbody t r.
    unfold scriptnum_decode_minimal.
    destruct (128 <=? t) eqn:E.
    + rewrite rev_app_distr. cbn [rev app].
      rewrite D at 1. rewrite rev_app_distr. cbn [rev app].
      change (Z.land 0 127) with 0. rewrite Z.eqb_refl, E.
      rewrite le_val_app. cbn [le_val]. rewrite V. f_equal. lia.
    + rewrite D at 1. rewrite rev_app_distr. cbn [rev app].
      apply Z.leb_gt in E.
      pose proof (land_127_nonzero t ltac:(lia)) as L.
      apply Z.eqb_neq in L. rewrite L.
      assert (128 <=? t = false) as -> by (apply Z.leb_gt; lia).
      rewrite V. reflexivity.
Qed.
