From Coq Require Import ZArith String List Bool Lia.
From BU Require Import Lib.Bytes Lib.BytesFacts Gen.Tables Model.Script Spec.ScriptSpec Proofs.ScriptNumFacts Model.Der Spec.BIP66.
Import ListNotations.
Open Scope list_scope.
Open Scope Z_scope.
Ltac Zify.zify_post_hook ::= Z.to_euclidean_division_equations.

Lemma order_is_n : order = secp_n.
Proof. reflexivity. Qed.

(* ---------- bit 7 of a byte ---------- *)

Lemma land128_eqb t : 0 <= t < 256 -> (Z.land t 128 =? 0) = negb (128 <=? t).
Proof.
  intros H. change 128 with (Z.shiftl 1 7) at 1. rewrite land_pow2_eqb by lia.
  rewrite testbit_top; [reflexivity|lia|]. change (2 ^ (7 + 1)) with 256. lia.
Qed.

Lemma land128_small t : 0 <= t < 128 -> Z.land t 128 = 0.
Proof.
  intros H. apply Z.eqb_eq. rewrite land128_eqb by lia.
  destruct (Z.leb_spec 128 t); [lia|reflexivity].
Qed.

Lemma land128_big t : 128 <= t < 256 -> Z.land t 128 <> 0.
Proof.
  intros H. apply Z.eqb_neq. rewrite land128_eqb by lia.
  destruct (Z.leb_spec 128 t); [reflexivity|lia].
Qed.

(* ---------- nbytes bounds ---------- *)

Lemma nbytes_le x k : 0 < x < 256 ^ Z.of_nat k -> (nbytes x <= k)%nat.
Proof.
  intros [H0 H1]. destruct (nbytes_spec x H0) as [S1 _].
  destruct (le_lt_dec (nbytes x) k) as [L|L]; [assumption|]. exfalso.
  assert (256 ^ Z.of_nat k <= 256 ^ (Z.of_nat (nbytes x) - 1)) by (apply Z.pow_le_mono_r; lia).
  lia.
Qed.

Lemma pow2_256 : 2 ^ 256 = 256 ^ Z.of_nat 32.
Proof. reflexivity. Qed.

Lemma pow2_255 : 2 ^ 255 = 128 * 256 ^ 31.
Proof. reflexivity. Qed.

(* ---------- shape of der_int ---------- *)

Lemma der_int_eq x : 1 <= x ->
  exists t rest,
    be_bytes (nbytes x) x = t :: rest /\
    1 <= t < 256 /\
    t = x / 256 ^ (Z.of_nat (nbytes x) - 1) /\
    der_int x = (if 128 <=? t then 0 :: t :: rest else t :: rest).
Proof.
  intros H.
  destruct (top_digit x ltac:(lia)) as [T1 T2].
  pose proof (nbytes_pos x ltac:(lia)) as Hp.
  assert (Hnil : le_bytes (nbytes x) x <> []).
  { intros E. apply (f_equal (@length Z)) in E. rewrite le_bytes_length in E.
    cbn [length] in E. lia. }
  pose proof (app_removelast_last 0 Hnil) as D.
  assert (E : be_bytes (nbytes x) x =
              last (le_bytes (nbytes x) x) 0 :: rev (removelast (le_bytes (nbytes x) x))).
  { unfold be_bytes. rewrite D at 1. rewrite rev_app_distr. reflexivity. }
  exists (last (le_bytes (nbytes x) x) 0), (rev (removelast (le_bytes (nbytes x) x))).
  split; [exact E|]. split; [lia|]. split; [exact T1|].
  unfold der_int. rewrite E. reflexivity.
Qed.

Lemma der_int_length x : 1 <= x < 2 ^ 256 -> (1 <= length (der_int x) <= 33)%nat.
Proof.
  intros H. rewrite pow2_256 in H.
  pose proof (nbytes_le x 32 ltac:(lia)) as Hk.
  destruct (der_int_eq x ltac:(lia)) as (t & rest & Eb & Ht & _ & Ed).
  pose proof (be_bytes_length (nbytes x) x) as Hl. rewrite Eb in Hl. cbn [length] in Hl.
  rewrite Ed. destruct (128 <=? t); cbn [length]; lia.
Qed.

Lemma der_int_low x : 1 <= x < 2 ^ 255 -> (length (der_int x) <= 32)%nat.
Proof.
  intros H.
  assert (H256 : 1 <= x < 2 ^ 256).
  { split; [lia|]. apply Z.lt_trans with (2 ^ 255); [lia|reflexivity]. }
  rewrite pow2_256 in H256.
  pose proof (nbytes_le x 32 ltac:(lia)) as Hk.
  destruct (der_int_eq x ltac:(lia)) as (t & rest & Eb & Ht & Et & Ed).
  pose proof (be_bytes_length (nbytes x) x) as Hl. rewrite Eb in Hl. cbn [length] in Hl.
  rewrite Ed. destruct (Z.leb_spec 128 t) as [Hb|Hb]; cbn [length]; [|lia].
  destruct (le_lt_dec (nbytes x) 31) as [L|L]; [lia|]. exfalso.
  assert (K : nbytes x = 32%nat) by lia.
  rewrite K in Et. change (Z.of_nat 32 - 1) with 31 in Et.
  rewrite pow2_255 in H.
  assert (Hpos : 0 < 256 ^ 31) by reflexivity.
  pose proof (Z.mul_div_le x (256 ^ 31) Hpos) as M.
  rewrite <- Et in M. lia.
Qed.

Lemma der_int_wf x : 1 <= x -> wf_bytes (der_int x).
Proof.
  intros H.
  destruct (der_int_eq x H) as (t & rest & Eb & Ht & _ & Ed).
  pose proof (be_bytes_wf (nbytes x) x) as W. rewrite Eb in W.
  rewrite Ed. destruct (128 <=? t); [|exact W].
  constructor; [lia|exact W].
Qed.

Lemma be_val_cons0 l : be_val (0 :: l) = be_val l.
Proof.
  unfold be_val. cbn [rev]. rewrite le_val_app. cbn [le_val]. lia.
Qed.

Lemma der_int_val x : 1 <= x -> be_val (der_int x) = x.
Proof.
  intros H.
  destruct (der_int_eq x H) as (t & rest & Eb & Ht & _ & Ed).
  destruct (nbytes_spec x ltac:(lia)) as [S1 S2].
  assert (V : be_val (t :: rest) = x).
  { rewrite <- Eb. apply be_val_be_bytes_small. lia. }
  rewrite Ed. destruct (128 <=? t); [rewrite be_val_cons0|]; exact V.
Qed.

Lemma der_int_top x : 1 <= x -> Z.land (nth 0 (der_int x) 0) 128 = 0.
Proof.
  intros H.
  destruct (der_int_eq x H) as (t & rest & Eb & Ht & _ & Ed).
  rewrite Ed. destruct (Z.leb_spec 128 t); cbn [nth]; [reflexivity|].
  apply land128_small. lia.
Qed.

Lemma der_int_minimal x : 1 <= x -> (1 < length (der_int x))%nat -> nth 0 (der_int x) 0 = 0 ->
  Z.land (nth 1 (der_int x) 0) 128 <> 0.
Proof.
  intros H.
  destruct (der_int_eq x H) as (t & rest & Eb & Ht & _ & Ed).
  rewrite Ed. destruct (Z.leb_spec 128 t); cbn [nth]; intros _ E; [|lia].
  apply land128_big. lia.
Qed.

(* ---------- low S ---------- *)

Lemma secp_n_odd : secp_n = 2 * (secp_n / 2) + 1.
Proof. reflexivity. Qed.

Lemma half_n_lt : secp_n / 2 < 2 ^ 255.
Proof. reflexivity. Qed.

Lemma secp_n_lt : secp_n < 2 ^ 256.
Proof. reflexivity. Qed.

Theorem normal_s_low s : 1 <= s < secp_n -> low_s (normal_s s) = true /\ 1 <= normal_s s < secp_n.
Proof.
  intros H. unfold low_s, normal_s.
  pose proof secp_n_odd as Odd. set (h := secp_n / 2) in *. clearbody h.
  destruct (Z.leb_spec s h) as [L|L].
  - split; [apply Z.leb_le; lia|lia].
  - split; [apply Z.leb_le; lia|lia].
Qed.

(* ---------- the grinding loop ---------- *)

Lemma grind_low_r fuel signer a sg : grind fuel signer a = Some sg -> exists lr, idx sg 3 = Some lr /\ lr <> 33.
Proof.
  revert a. induction fuel as [|f IH]; intros a; cbn [grind]; [discriminate|].
  destruct (idx (signer a) 3) as [lr|] eqn:E; [|discriminate].
  destruct (Z.eqb_spec lr 33) as [->|Hne].
  - apply IH.
  - intros X. injection X as <-. exists lr. split; [exact E|exact Hne].
Qed.

(* ---------- i_to_b and the zero prefix ---------- *)

Lemma i_to_b_first x : 1 <= x ->
  exists f, idx (i_to_b x) 0 = Some f /\
            (if negb (Z.land f 128 =? 0) then 0 :: i_to_b x else i_to_b x) = der_int x.
Proof.
  intros H.
  destruct (der_int_eq x H) as (t & rest & Eb & Ht & _ & Ed).
  exists t. unfold i_to_b. rewrite Eb. split; [reflexivity|].
  rewrite land128_eqb by lia. rewrite negb_involutive. symmetry. exact Ed.
Qed.

Lemma i_to_b_der x : 1 <= x ->
  (let b := i_to_b x in
   match idx b 0 with
   | Some f => Some (if negb (Z.land f 128 =? 0) then 0 :: b else b)
   | None => None
   end) = Some (der_int x).
Proof.
  intros H. destruct (i_to_b_first x H) as (f & E1 & E2).
  cbv zeta. rewrite E1, E2. reflexivity.
Qed.

Lemma pack_b_ok x : 0 <= x < 256 -> pack_b x = Some [x].
Proof.
  intros H. unfold pack_b.
  destruct (Z.leb_spec 0 x); [|lia]. destruct (Z.ltb_spec x 256); [|lia]. reflexivity.
Qed.

Local Opaque be_bytes be_val le_bytes le_val nbytes.

(* ---------- normalise on a well-formed DER skeleton ---------- *)

Section Skeleton.
Variables (p L t lenS : Z) (rb sb : bytes).
Let sg := p :: L :: t :: Z.of_nat (length rb) :: rb ++ t :: lenS :: sb.

Lemma sg_idx5 : idx sg (5 + length rb) = Some lenS.
Proof.
  unfold sg, idx. change (nth_error (rb ++ t :: lenS :: sb) (S (length rb)) = Some lenS).
  rewrite nth_error_app2 by lia.
  replace (S (length rb) - length rb)%nat with 1%nat by lia. reflexivity.
Qed.

Lemma sg_R : firstn (length rb) (skipn 4 sg) = rb.
Proof. unfold sg. cbn [skipn]. apply firstn_app_len. reflexivity. Qed.

Lemma sg_S : skipn (5 + length rb + 1) sg = sb.
Proof.
  unfold sg. replace (5 + length rb + 1)%nat with (S (S (S (S (length rb + 2))))) by lia.
  cbn [skipn].
  change (rb ++ t :: lenS :: sb) with (rb ++ [t; lenS] ++ sb). rewrite app_assoc.
  apply skipn_app_len. rewrite app_length. reflexivity.
Qed.

Lemma normalise_skeleton ht :
  normalise sg ht =
  obind (if order / 2 <? be_val sb then
           let new_s0 := i_to_b (order - be_val sb) in
           obind (idx new_s0 0) (fun first =>
             let new_s := if negb (Z.eqb (Z.land first 128) 0) then 0 :: new_s0 else new_s0 in
             Some (L - (lenS - Z.of_nat (length new_s)), Z.of_nat (length new_s), new_s))
         else Some (L, lenS, sb))
    (fun res => let '(lt, ls, new_s) := res in
       obind (pack_b p) (fun a => obind (pack_b lt) (fun b => obind (pack_b t) (fun c =>
       obind (pack_b (Z.of_nat (length rb))) (fun d => obind (pack_b t) (fun e =>
       obind (pack_b ls) (fun f => obind (pack_b ht) (fun g =>
         Some (a ++ b ++ c ++ d ++ rb ++ e ++ f ++ new_s ++ g))))))))).
Proof.
  unfold normalise.
  change (idx sg 0) with (Some p). cbn [obind].
  change (idx sg 1) with (Some L). cbn [obind].
  change (idx sg 2) with (Some t). cbn [obind].
  change (idx sg 3) with (Some (Z.of_nat (length rb))). cbn [obind].
  rewrite Nat2Z.id. rewrite sg_idx5. cbn [obind].
  rewrite sg_R, sg_S. reflexivity.
Qed.
End Skeleton.

Theorem normalise_spec r s ht : 1 <= r < 2 ^ 255 -> 1 <= s < secp_n -> 0 <= ht < 256 ->
  normalise (strict_der r s) ht = Some (strict_der r (normal_s s) ++ [ht]).
Proof.
  intros Hr Hs Hht.
  pose proof secp_n_lt as Nlt. pose proof half_n_lt as Hlt. pose proof secp_n_odd as Odd.
  pose proof (der_int_low r Hr) as Lr1.
  assert (Hr' : 1 <= r < 2 ^ 256).
  { split; [lia|]. apply Z.lt_trans with (2 ^ 255); [lia|reflexivity]. }
  pose proof (der_int_length r Hr') as Lr2.
  pose proof (der_int_length s ltac:(lia)) as Ls.
  pose proof (der_int_val s ltac:(lia)) as Vs.
  unfold strict_der.
  change ([48; Z.of_nat (length (der_int r) + length (der_int s) + 4); 2; Z.of_nat (length (der_int r))]
          ++ der_int r ++ [2; Z.of_nat (length (der_int s))] ++ der_int s)
    with (48 :: Z.of_nat (length (der_int r) + length (der_int s) + 4) :: 2 :: Z.of_nat (length (der_int r))
          :: der_int r ++ 2 :: Z.of_nat (length (der_int s)) :: der_int s).
  rewrite normalise_skeleton. rewrite Vs. rewrite order_is_n.
  unfold normal_s.
  set (h := secp_n / 2) in *.
  destruct (Z.leb_spec s h) as [Le|Gt].
  - destruct (Z.ltb_spec h s) as [X|_]; [lia|].
    set (rb := der_int r) in *. set (sb := der_int s) in *. clearbody rb sb.
    cbn [obind].
    rewrite !pack_b_ok by lia. cbn [obind app].
    rewrite <- app_assoc. reflexivity.
  - destruct (Z.ltb_spec h s) as [_|X]; [|lia].
    assert (Hn : 1 <= secp_n - s < 2 ^ 255) by lia.
    pose proof (der_int_low _ Hn) as Ln1.
    assert (Hn' : 1 <= secp_n - s < 2 ^ 256) by lia.
    pose proof (der_int_length _ Hn') as Ln2.
    destruct (i_to_b_first (secp_n - s) ltac:(lia)) as (f & E1 & E2).
    cbv zeta. rewrite E1. cbn [obind]. rewrite E2.
    set (rb := der_int r) in *. set (sb := der_int s) in *.
    set (nb := der_int (secp_n - s)) in *. clearbody rb sb nb.
    replace (Z.of_nat (length rb + length sb + 4) - (Z.of_nat (length sb) - Z.of_nat (length nb)))
      with (Z.of_nat (length rb + length nb + 4)) by lia.
    rewrite !pack_b_ok by lia. cbn [obind app].
    rewrite <- app_assoc. reflexivity.
Qed.

(* ---------- BIP66 accepts strict_der ---------- *)

Section Valid.
Variables (L lenR lenS ht : Z) (rb sb : bytes).
Let sig := 48 :: L :: 2 :: lenR :: rb ++ 2 :: lenS :: sb ++ [ht].

Lemma sig_length : length sig = (length rb + length sb + 7)%nat.
Proof. unfold sig. cbn [length]. rewrite app_length. cbn [length]. rewrite app_length. cbn [length]. lia. Qed.

Lemma sig_nth_r i : (i < length rb)%nat -> nthz sig (4 + i) = nth i rb 0.
Proof. intros H. unfold nthz, sig. change (nth i (rb ++ 2 :: lenS :: sb ++ [ht]) 0 = nth i rb 0). apply app_nth1. exact H. Qed.

Lemma sig_nth_m0 : nthz sig (4 + length rb) = 2.
Proof.
  unfold nthz, sig. change (nth (length rb) (rb ++ 2 :: lenS :: sb ++ [ht]) 0 = 2).
  rewrite app_nth2 by lia. rewrite Nat.sub_diag. reflexivity.
Qed.

Lemma sig_nth_m1 : nthz sig (5 + length rb) = lenS.
Proof.
  unfold nthz, sig. change (nth (S (length rb)) (rb ++ 2 :: lenS :: sb ++ [ht]) 0 = lenS).
  rewrite app_nth2 by lia. replace (S (length rb) - length rb)%nat with 1%nat by lia. reflexivity.
Qed.

Lemma sig_nth_s i : (i < length sb)%nat -> nthz sig (6 + length rb + i) = nth i sb 0.
Proof.
  intros H. unfold nthz, sig.
  change (nth (S (S (length rb + i))) (rb ++ 2 :: lenS :: sb ++ [ht]) 0 = nth i sb 0).
  rewrite app_nth2 by lia. replace (S (S (length rb + i)) - length rb)%nat with (S (S i)) by lia.
  cbn [nth]. apply app_nth1. exact H.
Qed.

Hypothesis HL : L = Z.of_nat (length rb + length sb + 4).
Hypothesis HlenR : lenR = Z.of_nat (length rb).
Hypothesis HlenS : lenS = Z.of_nat (length sb).
Hypothesis Hrl : (1 <= length rb <= 33)%nat.
Hypothesis Hsl : (1 <= length sb <= 33)%nat.
Hypothesis Hrt : Z.land (nth 0 rb 0) 128 = 0.
Hypothesis Hst : Z.land (nth 0 sb 0) 128 = 0.
Hypothesis Hrm : (1 < length rb)%nat -> nth 0 rb 0 = 0 -> Z.land (nth 1 rb 0) 128 <> 0.
Hypothesis Hsm : (1 < length sb)%nat -> nth 0 sb 0 = 0 -> Z.land (nth 1 sb 0) 128 <> 0.

Lemma sig_valid : is_valid_signature_encoding sig = true.
Proof.
  unfold is_valid_signature_encoding. cbv zeta.
  rewrite sig_length.
  change (nthz sig 0) with 48. change (nthz sig 1) with L. change (nthz sig 2) with 2.
  change (nthz sig 3) with lenR. rewrite HlenR, Nat2Z.id.
  rewrite sig_nth_m1, HlenS, Nat2Z.id.
  replace (length rb + 4)%nat with (4 + length rb)%nat by lia. rewrite sig_nth_m0.
  change (nthz sig 4) with (nthz sig (4 + 0)). rewrite (sig_nth_r 0) by lia.
  replace (length rb + 6)%nat with (6 + length rb + 0)%nat by lia. rewrite (sig_nth_s 0) by lia.
  rewrite Hrt, Hst. rewrite !Z.eqb_refl. cbn [negb].
  destruct (Nat.ltb_spec (length rb + length sb + 7) 9); [lia|].
  destruct (Nat.ltb_spec 73 (length rb + length sb + 7)); [lia|].
  destruct (Z.eqb_spec L (Z.of_nat (length rb + length sb + 7) - 3)); [|lia]. cbn [negb].
  destruct (Nat.leb_spec (length rb + length sb + 7) (5 + length rb)); [lia|].
  rewrite Nat.eqb_refl. cbn [negb].
  destruct (Nat.eqb_spec (length rb) 0); [lia|].
  destruct (Nat.eqb_spec (length sb) 0); [lia|].
  assert (CR : ((1 <? length rb)%nat && (nth 0 rb 0 =? 0) && (Z.land (nthz sig 5) 128 =? 0)) = false).
  { destruct (Nat.ltb_spec 1 (length rb)) as [A|A]; [|reflexivity].
    destruct (Z.eqb_spec (nth 0 rb 0) 0) as [B|B]; [|reflexivity].
    change (nthz sig 5) with (nthz sig (4 + 1)). rewrite (sig_nth_r 1) by lia.
    cbn [andb]. apply Z.eqb_neq. apply Hrm; assumption. }
  rewrite CR.
  assert (CS : ((1 <? length sb)%nat && (nth 0 sb 0 =? 0) && (Z.land (nthz sig (length rb + 7)) 128 =? 0)) = false).
  { destruct (Nat.ltb_spec 1 (length sb)) as [A|A]; [|reflexivity].
    destruct (Z.eqb_spec (nth 0 sb 0) 0) as [B|B]; [|reflexivity].
    replace (length rb + 7)%nat with (6 + length rb + 1)%nat by lia. rewrite (sig_nth_s 1) by lia.
    cbn [andb]. apply Z.eqb_neq. apply Hsm; assumption. }
  rewrite CS. reflexivity.
Qed.
End Valid.

Theorem strict_der_valid r s ht : 1 <= r < 2 ^ 256 -> 1 <= s < 2 ^ 256 -> 0 <= ht < 256 ->
  is_valid_signature_encoding (strict_der r s ++ [ht]) = true.
Proof.
  intros Hr Hs Hht. unfold strict_der.
  replace (([48; Z.of_nat (length (der_int r) + length (der_int s) + 4); 2; Z.of_nat (length (der_int r))]
            ++ der_int r ++ [2; Z.of_nat (length (der_int s))] ++ der_int s) ++ [ht])
    with (48 :: Z.of_nat (length (der_int r) + length (der_int s) + 4) :: 2 :: Z.of_nat (length (der_int r))
          :: der_int r ++ 2 :: Z.of_nat (length (der_int s)) :: der_int s ++ [ht])
    by (cbn [app]; rewrite <- app_assoc; reflexivity).
  apply sig_valid; try reflexivity.
  - apply der_int_length; assumption.
  - apply der_int_length; assumption.
  - apply der_int_top; lia.
  - apply der_int_top; lia.
  - apply der_int_minimal; lia.
  - apply der_int_minimal; lia.
Qed.

(* sign_input = grind then normalise: on a well-formed low-R signer output the result is strict DER,
   low S, and BIP66-valid *)
Corollary normalise_result_valid r s ht : 1 <= r < 2 ^ 255 -> 1 <= s < secp_n -> 0 <= ht < 256 ->
  exists out, normalise (strict_der r s) ht = Some out /\
              is_valid_signature_encoding out = true /\
              out = strict_der r (normal_s s) ++ [ht] /\ low_s (normal_s s) = true.
Proof.
  intros Hr Hs Hht. exists (strict_der r (normal_s s) ++ [ht]).
  destruct (normal_s_low s Hs) as [Lo B].
  pose proof secp_n_lt as Nlt.
  split; [apply normalise_spec; assumption|]. split; [|split; [reflexivity|exact Lo]].
  apply strict_der_valid; [|lia|assumption].
  split; [lia|]. apply Z.lt_trans with (2 ^ 255); [lia|reflexivity].
Qed.
