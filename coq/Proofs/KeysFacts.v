(* Facts about Model/Keys.v and Model/Address.v: network tables, WIF (C09), SEC / x-only parsing (C09),
   Base58Check addresses (C10), segwit address objects (C11), locking-script templates (C12). *)
From Coq Require Import ZArith String List Bool Lia.
From BU Require Import Lib.Bytes Lib.BytesFacts Gen.Tables Model.Script Model.EC Model.Base58 Model.Bech32 Model.Ripemd160 Model.Keys Model.Address
  Proofs.Base58Facts Proofs.Bech32Facts.
Import ListNotations.
Open Scope list_scope.
Open Scope Z_scope.
Local Opaque be_bytes be_val le_bytes le_val b58encode b58decode.

(* ------------------------------------------------------------------ *)
(* A. Tables                                                           *)
(* ------------------------------------------------------------------ *)

Lemma assoc_str_In {A} k (l : list (string * A)) v : assoc_str k l = Some v -> In (k, v) l.
Proof.
  induction l as [|[k' v'] l IH]; cbn [assoc_str]; [discriminate|].
  destruct (String.eqb k k') eqn:E.
  - apply String.eqb_eq in E. subst. intros [= ->]. now left.
  - intros H. right. now apply IH.
Qed.

Lemma table_forall {A} (P : A -> bool) tbl k v :
  forallb (fun e => P (snd e)) tbl = true -> assoc_str k tbl = Some v -> P v = true.
Proof.
  intros T H. apply assoc_str_In in H. rewrite forallb_forall in T. exact (T _ H).
Qed.

Definition prefix_okb (pre : bytes) : bool := Nat.eqb (length pre) 1 && wf_bytesb pre.

Lemma prefix_okb_sound pre : prefix_okb pre = true -> length pre = 1%nat /\ wf_bytes pre.
Proof.
  unfold prefix_okb. rewrite andb_true_iff, Nat.eqb_eq, wf_bytesb_iff. tauto.
Qed.

Lemma wif_table_ok : forallb (fun e => prefix_okb (snd e)) network_wif_prefixes = true.
Proof. vm_compute. reflexivity. Qed.
Lemma p2pkh_table_ok : forallb (fun e => prefix_okb (snd e)) network_p2pkh_prefixes = true.
Proof. vm_compute. reflexivity. Qed.
Lemma p2sh_table_ok : forallb (fun e => prefix_okb (snd e)) network_p2sh_prefixes = true.
Proof. vm_compute. reflexivity. Qed.

Lemma wif_prefix_ok net pre : net_prefix network_wif_prefixes net = Some pre -> length pre = 1%nat /\ wf_bytes pre.
Proof.
  unfold net_prefix. intros H. apply prefix_okb_sound.
  exact (table_forall prefix_okb _ _ _ wif_table_ok H).
Qed.

Lemma version_prefix_ok ty net pre : version_prefix ty net = Some pre -> length pre = 1%nat /\ wf_bytes pre.
Proof.
  unfold version_prefix. intros H. apply prefix_okb_sound. destruct ty.
  - exact (table_forall prefix_okb _ _ _ p2pkh_table_ok H).
  - exact (table_forall prefix_okb _ _ _ p2sh_table_ok H).
Qed.

Definition hrp_char_okb (c : Z) : bool := (33 <=? c) && (c <=? 126) && (lower c =? c) && negb (c =? 49).
Definition hrp_okb (hrp : bytes) : bool :=
  Nat.leb 1 (length hrp) && Nat.leb (length hrp) 4 && forallb hrp_char_okb hrp.

Lemma segwit_table_ok : forallb (fun e => hrp_okb (snd e)) network_segwit_prefixes = true.
Proof. vm_compute. reflexivity. Qed.

Lemma hrp_table_ok net hrp : hrp_of net = Some hrp -> hrp_ok hrp /\ (length hrp <= 4)%nat.
Proof.
  unfold hrp_of. intros H.
  pose proof (table_forall hrp_okb _ _ _ segwit_table_ok H) as T.
  unfold hrp_okb in T. rewrite !andb_true_iff, !Nat.leb_le, forallb_forall in T.
  destruct T as [[T1 T2] T3]. split; [|exact T2]. split; [exact T1|].
  apply Forall_forall. intros c Hc. specialize (T3 c Hc). unfold hrp_char_okb in T3.
  rewrite !andb_true_iff, negb_true_iff in T3. destruct T3 as [[[A1 A2] A3] A4]. lia.
Qed.

(* ------------------------------------------------------------------ *)
(* generic list facts                                                  *)
(* ------------------------------------------------------------------ *)

Lemma firstn_add {A} a b (l : list A) : firstn (a + b) l = firstn a l ++ firstn b (skipn a l).
Proof.
  revert l; induction a as [|a IH]; intros l; [reflexivity|].
  destruct l as [|x l]; cbn [Nat.add firstn skipn app].
  - now rewrite firstn_nil.
  - now rewrite IH.
Qed.

Lemma pow_256_32 : 256 ^ Z.of_nat 32 = 2 ^ 256.
Proof. reflexivity. Qed.

Lemma bytes_from_int_some d : 0 <= d < 2 ^ 256 -> bytes_from_int d = Some (be_bytes 32 d).
Proof.
  intros H. unfold bytes_from_int.
  replace (0 <=? d) with true by (symmetry; apply Z.leb_le; lia).
  replace (d <? 2 ^ 256) with true by (symmetry; apply Z.ltb_lt; lia). reflexivity.
Qed.

Lemma bytes_from_int_inv d b : bytes_from_int d = Some b -> 0 <= d < 2 ^ 256 /\ b = be_bytes 32 d.
Proof.
  unfold bytes_from_int. destruct (0 <=? d) eqn:E1; [|discriminate].
  destruct (d <? 2 ^ 256) eqn:E2; [|discriminate]. cbn [andb]. intros [= <-].
  apply Z.leb_le in E1. apply Z.ltb_lt in E2. split; [lia|reflexivity].
Qed.

Lemma be_val_be_bytes_32 d : 0 <= d < 2 ^ 256 -> be_val (be_bytes 32 d) = d.
Proof. intros H. apply be_val_be_bytes_small. rewrite pow_256_32. exact H. Qed.

(* ------------------------------------------------------------------ *)
(* facts that do not depend on the hash function: alphabet check, leading zeros,
   E. locking-script templates (C12), F. segwit address objects (C11)  *)
(* ------------------------------------------------------------------ *)

Lemma all_b58_iff s : all_b58 s = true <-> Forall (fun c => In c b58_charset) s.
Proof.
  unfold all_b58. rewrite forallb_forall, Forall_forall.
  split; intros H c Hc; specialize (H c Hc).
  - apply index_of_in. destruct (index_of c b58_charset); [discriminate|discriminate].
  - apply index_of_in in H. destruct (index_of c b58_charset); [reflexivity|congruence].
Qed.

Lemma all_b58_decode s : all_b58 s = true <-> exists b, b58decode s = Some b.
Proof. rewrite all_b58_iff. symmetry. apply b58decode_some_iff. Qed.

Lemma lstrip0_fst_lt a b : (exists x, In x a /\ x <> 0) -> (fst (lstrip 0 (a ++ b)) < length a)%nat.
Proof.
  induction a as [|y a IH]; intros [x [Hin Hx]]; [destruct Hin|].
  cbn [app lstrip length]. destruct (y =? 0) eqn:E.
  - apply Z.eqb_eq in E. destruct Hin as [->|Hin]; [contradiction|].
    specialize (IH (ex_intro _ x (conj Hin Hx))).
    destruct (lstrip 0 (a ++ b)) as [k t]. cbn [fst] in *. lia.
  - cbn [fst]. lia.
Qed.

Lemma op_lookup_consts :
  op_lookup "OP_DUP" = Some [118] /\ op_lookup "OP_HASH160" = Some [169] /\ op_lookup "OP_EQUALVERIFY" = Some [136] /\
  op_lookup "OP_CHECKSIG" = Some [172] /\ op_lookup "OP_EQUAL" = Some [135] /\ op_lookup "OP_0" = Some [0] /\
  op_lookup "OP_1" = Some [81].
Proof. vm_compute. repeat split; reflexivity. Qed.

Lemma op_push_data_short h k : length h = k -> (k < 76)%nat -> op_push_data h = Some (Z.of_nat k :: h).
Proof.
  intros L B. unfold op_push_data. rewrite L.
  replace (Z.of_nat k <? 76) with true by (symmetry; apply Z.ltb_lt; lia). reflexivity.
Qed.

Theorem spk_templates h20 h32 : length h20 = 20%nat -> length h32 = 32%nat ->
  to_bytes (spk_p2pkh h20) = Some ([118; 169; 20] ++ h20 ++ [136; 172]) /\
  to_bytes (spk_p2sh h20) = Some ([169; 20] ++ h20 ++ [135]) /\
  to_bytes (spk_segwit P2WPKH h20) = Some ([0; 20] ++ h20) /\
  to_bytes (spk_segwit P2WSH h32) = Some ([0; 32] ++ h32) /\
  to_bytes (spk_segwit P2TR h32) = Some ([81; 32] ++ h32).
Proof.
  intros L20 L32.
  destruct op_lookup_consts as [O1 [O2 [O3 [O4 [O5 [O6 O7]]]]]].
  pose proof (op_push_data_short h20 20 L20 ltac:(lia)) as P20.
  pose proof (op_push_data_short h32 32 L32 ltac:(lia)) as P32.
  change (Z.of_nat 20) with 20 in P20. change (Z.of_nat 32) with 32 in P32.
  unfold spk_p2pkh, spk_p2sh, spk_segwit. cbn [to_bytes tok_to_bytes].
  rewrite O1, O2, O3, O4, O5, O6, O7, P20, P32. cbn [app].
  repeat split; try reflexivity.
  - rewrite app_nil_r. reflexivity.
  - rewrite app_nil_r. reflexivity.
  - rewrite app_nil_r. reflexivity.
Qed.

Definition seg_len_ok (ty : seg_type) (prog : bytes) : Prop :=
  (ty = P2WPKH /\ length prog = 20%nat) \/ (ty = P2WSH /\ length prog = 32%nat) \/ (ty = P2TR /\ length prog = 32%nat).

Lemma seg_len_ok_cond ty prog : seg_len_ok ty prog ->
  (seg_version ty = 0 /\ (length prog = 20%nat \/ length prog = 32%nat)) \/
  (1 <= seg_version ty <= 16 /\ (2 <= length prog <= 40)%nat).
Proof.
  intros [[-> L]|[[-> L]|[-> L]]]; cbn [seg_version]; [left|left|right]; split; try lia; auto.
Qed.

Lemma segwit_decode_bech32 hrp s r : segwit_decode hrp s = Some r -> is_address_bech32 s = true.
Proof.
  unfold segwit_decode, is_address_bech32. destruct s as [|c s].
  - vm_compute. discriminate.
  - destruct (bech32_decode (c :: s)); [reflexivity|discriminate].
Qed.

Theorem segwit_object_roundtrip ty net prog s : wf_bytes prog ->
  ((ty = P2WPKH /\ length prog = 20%nat) \/ (ty = P2WSH /\ length prog = 32%nat) \/ (ty = P2TR /\ length prog = 32%nat)) ->
  segwit_to_string ty net prog = Some s -> segwit_from_string ty net s = Some prog /\ is_address_bech32 s = true.
Proof.
  intros Wp Hl. unfold segwit_to_string, segwit_from_string.
  destruct (hrp_of net) as [hrp|] eqn:Eh; [|discriminate].
  destruct (hrp_table_ok _ _ Eh) as [Hok Hl4].
  destruct (segwit_roundtrip hrp (seg_version ty) prog Hok Hl4 Wp (seg_len_ok_cond _ _ Hl)) as [s' [E1 E2]].
  rewrite E1. intros [= <-]. rewrite E2, Z.eqb_refl. split; [reflexivity|].
  eapply segwit_decode_bech32; exact E2.
Qed.

Theorem segwit_to_string_some ty net prog hrp : hrp_of net = Some hrp -> wf_bytes prog ->
  ((ty = P2WPKH /\ length prog = 20%nat) \/ (ty = P2WSH /\ length prog = 32%nat) \/ (ty = P2TR /\ length prog = 32%nat)) ->
  exists s, segwit_to_string ty net prog = Some s.
Proof.
  intros Eh Wp Hl. unfold segwit_to_string. rewrite Eh.
  destruct (hrp_table_ok _ _ Eh) as [Hok Hl4].
  destruct (segwit_roundtrip hrp (seg_version ty) prog Hok Hl4 Wp (seg_len_ok_cond _ _ Hl)) as [s' [E1 _]].
  exists s'. exact E1.
Qed.

Section K.
  Variable sha256 : bytes -> bytes.
  Hypothesis Hlen : forall x, length (sha256 x) = 32%nat.
  Hypothesis Hwf : forall x, wf_bytes (sha256 x).

  Lemma dsha4_length x : length (dsha4 sha256 x) = 4%nat.
  Proof. unfold dsha4. rewrite firstn_length, Hlen. reflexivity. Qed.

  Lemma dsha4_wf x : wf_bytes (dsha4 sha256 x).
  Proof. unfold dsha4. apply wf_bytes_firstn, Hwf. Qed.

  (* ---------------------------------------------------------------- *)
  (* B. WIF                                                            *)
  (* ---------------------------------------------------------------- *)
  Section Wif.
    Variable n : Z.

    Lemma priv_from_exponent_some e d : priv_from_exponent n e = Some d -> d = e /\ 1 <= e < n.
    Proof.
      unfold priv_from_exponent. destruct (1 <=? e) eqn:E1; [|discriminate].
      destruct (e <? n) eqn:E2; [|discriminate]. cbn [andb]. intros [= <-].
      apply Z.leb_le in E1. apply Z.ltb_lt in E2. split; [reflexivity|lia].
    Qed.

    Lemma priv_from_exponent_ok e : 1 <= e < n -> priv_from_exponent n e = Some e.
    Proof.
      intros H. unfold priv_from_exponent.
      replace (1 <=? e) with true by (symmetry; apply Z.leb_le; lia).
      replace (e <? n) with true by (symmetry; apply Z.ltb_lt; lia). reflexivity.
    Qed.

    Lemma priv_from_bytes_some b d : priv_from_bytes n b = Some d -> d = be_val b /\ length b = 32%nat /\ 1 <= d < n.
    Proof.
      unfold priv_from_bytes. destruct (Nat.eqb (length b) 32) eqn:E; cbn [negb]; [|discriminate].
      apply Nat.eqb_eq in E. intros H. apply priv_from_exponent_some in H as [-> H]. auto.
    Qed.

    Lemma priv_from_bytes_ok b : length b = 32%nat -> 1 <= be_val b < n -> priv_from_bytes n b = Some (be_val b).
    Proof.
      intros L H. unfold priv_from_bytes. rewrite L. cbn [Nat.eqb negb]. now apply priv_from_exponent_ok.
    Qed.

    Theorem wif_roundtrip net c d w : n <= 2 ^ 256 -> 1 <= d < n ->
      priv_to_wif sha256 net c d = Some w -> priv_from_wif sha256 n net w = Some d.
    Proof.
      intros Hn Hd. unfold priv_to_wif, priv_from_wif, obind.
      destruct (net_prefix network_wif_prefixes net) as [pre|] eqn:Epre; [|discriminate].
      destruct (wif_prefix_ok _ _ Epre) as [Lpre Wpre].
      rewrite bytes_from_int_some by lia.
      set (suf := if c then [1] else []).
      set (data := pre ++ be_bytes 32 d ++ suf).
      intros [= <-].
      assert (Wsuf : wf_bytes suf) by (unfold suf; destruct c; repeat constructor; lia).
      assert (Wdata : wf_bytes data).
      { unfold data. apply wf_bytes_app; split; [exact Wpre|]. apply wf_bytes_app; split; [apply be_bytes_wf|exact Wsuf]. }
      rewrite b58_roundtrip by (apply wf_bytes_app; split; [exact Wdata|apply dsha4_wf]).
      rewrite app_length, dsha4_length.
      replace (length data + 4 - 4)%nat with (length data) by lia.
      rewrite firstn_app_exact, skipn_app_exact, bytes_eqb_refl. cbn [negb].
      replace (firstn 1 data) with pre by (unfold data; symmetry; now apply firstn_app_len).
      rewrite bytes_eqb_refl. cbn [negb].
      replace (skipn 1 data) with (be_bytes 32 d ++ suf) by (unfold data; symmetry; now apply skipn_app_len).
      assert (V : be_val (be_bytes 32 d) = d) by (apply be_val_be_bytes_32; lia).
      rewrite app_length, be_bytes_length.
      destruct c; unfold suf; cbn [length Nat.add Nat.ltb Nat.leb Nat.sub].
      - rewrite (firstn_app_len 32) by apply be_bytes_length.
        rewrite priv_from_bytes_ok; rewrite ?V; [reflexivity|apply be_bytes_length|lia].
      - rewrite app_nil_r.
        rewrite priv_from_bytes_ok; rewrite ?V; [reflexivity|apply be_bytes_length|lia].
    Qed.

    Theorem wif_checks net w d : priv_from_wif sha256 n net w = Some d ->
      exists data pre, b58decode w = Some data /\ net_prefix network_wif_prefixes net = Some pre /\
        skipn (length data - 4) data = dsha4 sha256 (firstn (length data - 4) data) /\
        firstn 1 data = pre /\ 1 <= d < n.
    Proof.
      unfold priv_from_wif, obind.
      destruct (b58decode w) as [data|]; [|discriminate].
      destruct (bytes_eqb (skipn (length data - 4) data) (dsha4 sha256 (firstn (length data - 4) data))) eqn:Ec;
        cbn [negb]; [|discriminate].
      apply bytes_eqb_eq in Ec.
      destruct (net_prefix network_wif_prefixes net) as [pre|] eqn:Epre; [|discriminate].
      destruct (bytes_eqb (firstn 1 (firstn (length data - 4) data)) pre) eqn:Ev; cbn [negb]; [|discriminate].
      apply bytes_eqb_eq in Ev.
      intros H. exists data, pre. repeat split; try assumption.
      - destruct (wif_prefix_ok _ _ Epre) as [Lpre _].
        rewrite firstn_firstn in Ev.
        destruct (length data - 4)%nat as [|k] eqn:Ek.
        + cbn in Ev. subst pre. discriminate.
        + replace (Nat.min 1 (S k)) with 1%nat in Ev by lia. exact Ev.
      - destruct (_ <? _)%nat; apply priv_from_bytes_some in H; lia.
      - destruct (_ <? _)%nat; apply priv_from_bytes_some in H; lia.
    Qed.

    Theorem explicit_secret net :
      (forall e d, priv_init sha256 n net None (Some e) None = PrivOk d -> d = e /\ 1 <= e < n) /\
      (forall b d, priv_init sha256 n net None None (Some b) = PrivOk d -> d = be_val b /\ length b = 32%nat /\ 1 <= d < n) /\
      (forall w e b, priv_init sha256 n net w e b = PrivRandom -> w = None /\ e = None /\ b = None).
    Proof.
      split; [|split].
      - intros e d. unfold priv_init. destruct (priv_from_exponent n e) eqn:E; [|discriminate].
        intros [= ->]. now apply priv_from_exponent_some.
      - intros b d. unfold priv_init. destruct (priv_from_bytes n b) eqn:E; [|discriminate].
        intros [= ->]. now apply priv_from_bytes_some.
      - intros w e b. unfold priv_init. destruct w as [w|].
        + destruct (priv_from_wif sha256 n net w); discriminate.
        + destruct b as [b|].
          * destruct (priv_from_bytes n b); discriminate.
          * destruct e as [e|]; [destruct (priv_from_exponent n e); discriminate|auto].
    Qed.
  End Wif.

  (* ---------------------------------------------------------------- *)
  (* D. Base58Check addresses                                          *)
  (* ---------------------------------------------------------------- *)

  Lemma payload_facts pre h : length pre = 1%nat -> wf_bytes pre -> length h = 20%nat -> wf_bytes h ->
    let dc := (pre ++ h) ++ dsha4 sha256 (pre ++ h) in
    wf_bytes dc /\ length dc = 25%nat /\ firstn 21 dc = pre ++ h /\ skipn 21 dc = dsha4 sha256 (pre ++ h) /\
    firstn 1 dc = pre /\ firstn 20 (skipn 1 dc) = h.
  Proof.
    intros Lp Wp Lh Wh dc.
    assert (L21 : length (pre ++ h) = 21%nat) by (rewrite app_length; lia).
    split; [|split; [|split; [|split; [|split]]]].
    - apply wf_bytes_app; split; [apply wf_bytes_app; split; assumption|apply dsha4_wf].
    - unfold dc. rewrite app_length, dsha4_length. lia.
    - unfold dc. now apply firstn_app_len.
    - unfold dc. now apply skipn_app_len.
    - unfold dc. rewrite <- app_assoc. now apply firstn_app_len.
    - unfold dc. rewrite <- app_assoc. rewrite (skipn_app_len 1) by exact Lp. now apply firstn_app_len.
  Qed.

  Theorem address_accept_iff ty net pre s : version_prefix ty net = Some pre ->
    (is_address_valid sha256 ty net s = true <->
     exists h, length h = 20%nat /\ wf_bytes h /\ s = b58encode ((pre ++ h) ++ dsha4 sha256 (pre ++ h)) /\ (26 <= length s <= 35)%nat).
  Proof.
    intros Epre. destruct (version_prefix_ok _ _ _ Epre) as [Lpre Wpre].
    unfold is_address_valid. rewrite Epre. split.
    - destruct (all_b58 s) eqn:Eall; cbn [negb]; [|discriminate].
      destruct (length s <? 26)%nat eqn:E1; [discriminate|].
      destruct (35 <? length s)%nat eqn:E2; [discriminate|]. cbn [orb].
      apply Nat.ltb_ge in E1. apply Nat.ltb_ge in E2.
      destruct (b58decode s) as [dc|] eqn:Edc; [|discriminate].
      destruct (Nat.eqb (length dc) 25) eqn:E25; cbn [negb]; [|discriminate].
      apply Nat.eqb_eq in E25. rewrite E25. change (25 - 4)%nat with 21%nat.
      destruct (bytes_eqb (firstn 1 dc) pre) eqn:Ev; cbn [negb]; [|discriminate].
      apply bytes_eqb_eq in Ev. intros Ec. apply bytes_eqb_eq in Ec.
      pose proof (b58decode_wf _ _ Edc) as Wdc.
      exists (firstn 20 (skipn 1 dc)).
      assert (E21 : firstn 21 dc = pre ++ firstn 20 (skipn 1 dc)).
      { change 21%nat with (1 + 20)%nat. rewrite firstn_add, Ev. reflexivity. }
      split; [|split; [|split]].
      + rewrite firstn_length, skipn_length. lia.
      + apply wf_bytes_firstn, wf_bytes_skipn, Wdc.
      + rewrite <- E21. unfold dsha4. rewrite Ec, firstn_skipn. symmetry. now apply b58_decode_encode.
      + lia.
    - intros [h [Lh [Wh [-> [B1 B2]]]]].
      destruct (payload_facts pre h Lpre Wpre Lh Wh) as [Wdc [Ldc [F21 [S21 [F1 _]]]]].
      set (dc := (pre ++ h) ++ dsha4 sha256 (pre ++ h)) in *.
      assert (Edc : b58decode (b58encode dc) = Some dc) by now apply b58_roundtrip.
      replace (all_b58 (b58encode dc)) with true by (symmetry; apply all_b58_decode; eexists; exact Edc).
      cbn [negb].
      replace (length (b58encode dc) <? 26)%nat with false by (symmetry; apply Nat.ltb_ge; lia).
      replace (35 <? length (b58encode dc))%nat with false by (symmetry; apply Nat.ltb_ge; lia).
      cbn [orb]. rewrite Edc, Ldc. cbn [Nat.eqb negb]. change (25 - 4)%nat with 21%nat.
      rewrite F1, bytes_eqb_refl. cbn [negb]. rewrite F21, S21. apply bytes_eqb_refl.
  Qed.

  Theorem address_roundtrip ty net h s : length h = 20%nat -> wf_bytes h ->
    address_to_string sha256 ty net h = Some s -> (26 <= length s)%nat ->
    is_address_valid sha256 ty net s = true /\ address_from_string sha256 ty net s = Some h.
  Proof.
    intros Lh Wh. unfold address_to_string. cbv zeta.
    destruct (version_prefix ty net) as [pre|] eqn:Epre; [|discriminate]. cbn [option_map].
    intros [= <-] B.
    destruct (version_prefix_ok _ _ _ Epre) as [Lpre Wpre].
    destruct (payload_facts pre h Lpre Wpre Lh Wh) as [Wdc [Ldc [_ [_ [_ F20]]]]].
    assert (V : is_address_valid sha256 ty net (b58encode ((pre ++ h) ++ dsha4 sha256 (pre ++ h))) = true).
    { apply (address_accept_iff ty net pre _ Epre). exists h. repeat split; try assumption.
      now apply b58encode_length_25. }
    split; [exact V|].
    unfold address_from_string. rewrite V. unfold address_to_hash160.
    rewrite b58_roundtrip by exact Wdc. cbn [option_map]. rewrite Ldc. change (25 - 5)%nat with 20%nat.
    now rewrite F20.
  Qed.

  Theorem address_length ty net h s : length h = 20%nat -> wf_bytes h -> address_to_string sha256 ty net h = Some s ->
    (length s <= 35)%nat /\
    ((exists x, In x (match version_prefix ty net with Some pre => pre ++ h | None => [] end) /\ x <> 0) -> (26 <= length s)%nat).
  Proof.
    intros Lh Wh. unfold address_to_string. cbv zeta.
    destruct (version_prefix ty net) as [pre|] eqn:Epre; [|discriminate]. cbn [option_map].
    intros [= <-].
    destruct (version_prefix_ok _ _ _ Epre) as [Lpre Wpre].
    destruct (payload_facts pre h Lpre Wpre Lh Wh) as [Wdc [Ldc _]].
    split; [now apply b58encode_length_25|].
    intros Hx. apply b58encode_length_25_lower; [exact Wdc|exact Ldc|].
    apply (lstrip0_fst_lt _ (dsha4 sha256 (pre ++ h))) in Hx. rewrite app_length in Hx. lia.
  Qed.

  (* ---------------------------------------------------------------- *)
  (* E. (continued) the Script helpers agree with the address objects  *)
  (* ---------------------------------------------------------------- *)

  Theorem script_helpers_agree s :
    to_p2sh_script_pub_key (hash160 sha256) s = option_map spk_p2sh (script_to_hash160 sha256 s) /\
    to_p2wsh_script_pub_key sha256 s = option_map (spk_segwit P2WSH) (script_to_sha256 sha256 s).
  Proof.
    unfold to_p2sh_script_pub_key, to_p2wsh_script_pub_key, script_to_hash160, script_to_sha256. cbv zeta.
    destruct (to_bytes s); split; reflexivity.
  Qed.

End K.

(* ---------------------------------------------------------------- *)
(* C. SEC / x-only parsing                                           *)
(* ---------------------------------------------------------------- *)
Section Sec.
  Variable p : Z.

  Lemma on_curve_inv x y : on_curve p x y = true ->
    0 <= x < p /\ 0 <= y < p /\ (y * y - (x * x * x + 7)) mod p = 0.
  Proof.
    unfold on_curve. rewrite !andb_true_iff, !Z.leb_le, !Z.ltb_lt, Z.eqb_eq. tauto.
  Qed.

  Lemma on_curve_intro x y : 0 <= x < p -> 0 <= y < p -> (y * y - (x * x * x + 7)) mod p = 0 -> on_curve p x y = true.
  Proof.
    intros. unfold on_curve. rewrite !andb_true_iff, !Z.leb_le, !Z.ltb_lt, Z.eqb_eq. tauto.
  Qed.

  Lemma on_curve_neg x y : on_curve p x y = true -> 0 < y -> on_curve p x (p - y) = true.
  Proof.
    intros H Hy. apply on_curve_inv in H as [Hx [Hy' E]].
    apply on_curve_intro; [lia|lia|].
    replace ((p - y) * (p - y) - (x * x * x + 7)) with ((y * y - (x * x * x + 7)) + (p - 2 * y) * p) by ring.
    rewrite Z_mod_plus_full. exact E.
  Qed.

  Variable sqrts : Z -> list Z.

  (* No hypothesis about sqrts is needed for rejection: pub_from_bytes re-checks on_curve on whatever
     root sqrts returns. *)
  Theorem off_curve_rejected x first : 0 <= x < 2 ^ 256 -> (forall y, on_curve p x y = false) ->
    pub_from_bytes p sqrts (first :: be_bytes 32 x) = None /\ pub_from_bytes p sqrts (be_bytes 32 x) = None.
  Proof.
    intros Hx Hoff.
    assert (Vx : be_val (be_bytes 32 x) = x) by (apply be_val_be_bytes_32; lia).
    split; unfold pub_from_bytes.
    - cbn [length]. rewrite be_bytes_length. cbn [Nat.ltb Nat.leb Nat.eqb nth skipn orb]. rewrite Vx.
      destruct (sqrts ((x ^ 3 + 7) mod p)) as [|y0 rest]; [reflexivity|].
      match goal with |- obind ?o _ = None => destruct o as [y'|] end; cbn [obind]; [|reflexivity].
      rewrite Hoff. destruct (_ && _); reflexivity.
    - rewrite be_bytes_length. cbn [Nat.ltb Nat.leb Nat.eqb orb]. rewrite Vx.
      destruct (sqrts ((x ^ 3 + 7) mod p)) as [|y0 rest]; [reflexivity|].
      match goal with |- obind ?o _ = None => destruct o as [y'|] end; cbn [obind]; [|reflexivity].
      rewrite Hoff. destruct (_ && _); reflexivity.
  Qed.

  Hypothesis Hsq_some : forall x y, on_curve p x y = true -> 0 < y ->
    exists y0 y1, sqrts ((x ^ 3 + 7) mod p) = [y0; y1] /\ ((y0 = y /\ y1 = p - y) \/ (y0 = p - y /\ y1 = y)).

  (* The specification "sqrts ((x^3+7) mod p) = [] whenever no y puts (x, y) on the curve", with x ranging
     over all integers, contradicts Hsq_some as soon as the curve has a point with y > 0: x + p is outside
     the field range, so no y is on the curve there, but (x+p)^3 + 7 = x^3 + 7 (mod p). *)
  Lemma sqrt_spec_inconsistent x y :
    (forall x, (forall y, on_curve p x y = false) -> sqrts ((x ^ 3 + 7) mod p) = []) ->
    on_curve p x y = true -> 0 < y -> False.
  Proof.
    intros Hnone H Hy. destruct (Hsq_some x y H Hy) as [y0 [y1 [Es _]]].
    apply on_curve_inv in H as [Hx _].
    assert (Hoff : forall y', on_curve p (x + p) y' = false).
    { intros y'. unfold on_curve. replace (x + p <? p) with false by (symmetry; apply Z.ltb_ge; lia).
      now rewrite andb_false_r. }
    specialize (Hnone (x + p) Hoff).
    replace ((x + p) ^ 3 + 7) with ((x ^ 3 + 7) + (3 * x * x + 3 * x * p + p * p) * p) in Hnone by ring.
    rewrite Z_mod_plus_full in Hnone. congruence.
  Qed.

  Hypothesis Hp : 2 < p < 2 ^ 256 /\ Z.odd p = true.

  Lemma even_neg y : Z.even (p - y) = negb (Z.even y).
  Proof.
    destruct Hp as [_ Ho]. rewrite Z.even_sub. rewrite <- (Z.negb_odd p), Ho. cbn [negb].
    destruct (Z.even y); reflexivity.
  Qed.

  Lemma range_finish x y : on_curve p x y = true ->
    (if (0 <=? x) && (x <? 2 ^ 256) && (0 <=? y) && (y <? 2 ^ 256)
     then (if on_curve p x y then Some (x, y) else None) else None) = Some (x, y).
  Proof.
    intros H. rewrite H. apply on_curve_inv in H as [Hx [Hy _]]. destruct Hp as [Hp' _].
    replace (0 <=? x) with true by (symmetry; apply Z.leb_le; lia).
    replace (0 <=? y) with true by (symmetry; apply Z.leb_le; lia).
    replace (x <? 2 ^ 256) with true by (symmetry; apply Z.ltb_lt; lia).
    replace (y <? 2 ^ 256) with true by (symmetry; apply Z.ltb_lt; lia).
    reflexivity.
  Qed.

  (* the root selection: the candidate of the wanted parity among [y; p - y], in either order *)
  Lemma pick_root x y (want : bool) : on_curve p x y = true -> 0 < y ->
    match sqrts ((x ^ 3 + 7) mod p) with
    | [] => None
    | y0 :: rest =>
        obind (if Bool.eqb (Z.even y0) want then Some y0 else nth_error rest 0)
          (fun y' => if (0 <=? x) && (x <? 2 ^ 256) && (0 <=? y') && (y' <? 2 ^ 256)
                     then (if on_curve p x y' then Some (x, y') else None) else None)
    end = Some (x, if Bool.eqb (Z.even y) want then y else p - y).
  Proof.
    intros H Hy. pose proof (on_curve_neg x y H Hy) as Hneg.
    destruct (Hsq_some x y H Hy) as [y0 [y1 [Es Hor]]]. rewrite Es.
    destruct Hor as [[-> ->]|[-> ->]].
    - destruct (Bool.eqb (Z.even y) want) eqn:E; cbn [nth_error obind]; now apply range_finish.
    - rewrite even_neg.
      destruct (Z.even y), want; cbn [Bool.eqb negb nth_error obind]; now apply range_finish.
  Qed.

  Theorem sec_roundtrip x y : on_curve p x y = true -> 0 < y ->
    (forall b, pub_to_bytes true (x, y) = Some b -> pub_from_bytes p sqrts b = Some (x, y)) /\
    (forall b, pub_to_bytes false (x, y) = Some b -> pub_from_bytes p sqrts b = Some (x, y)) /\
    (forall b, pub_to_x_only (x, y) = Some b -> pub_from_bytes p sqrts b = Some (x, if Z.even y then y else p - y)).
  Proof.
    intros H Hy. pose proof (on_curve_inv x y H) as [Hx [Hy' _]]. destruct Hp as [Hp' _].
    assert (Bx : bytes_from_int x = Some (be_bytes 32 x)) by (apply bytes_from_int_some; lia).
    assert (By : bytes_from_int y = Some (be_bytes 32 y)) by (apply bytes_from_int_some; lia).
    assert (Vx : be_val (be_bytes 32 x) = x) by (apply be_val_be_bytes_32; lia).
    assert (Vy : be_val (be_bytes 32 y) = y) by (apply be_val_be_bytes_32; lia).
    split; [|split]; intros b; unfold pub_to_bytes, pub_to_x_only; cbn [fst snd]; rewrite ?Bx, ?By; cbn [obind];
      intros [= <-]; unfold pub_from_bytes.
    - cbn [length]. rewrite be_bytes_length. cbn [Nat.ltb Nat.leb Nat.eqb nth skipn orb]. rewrite Vx.
      destruct (Z.even y) eqn:Ey.
      + change (2 =? 2) with true. cbn match.
        pose proof (pick_root x y true H Hy) as P. rewrite Ey in P. exact P.
      + change (3 =? 2) with false. change (3 =? 3) with true. cbn match.
        pose proof (pick_root x y false H Hy) as P. rewrite Ey in P. exact P.
    - cbn [length]. rewrite app_length, !be_bytes_length. cbn [Nat.add Nat.ltb Nat.leb skipn].
      unfold pub_from_raw64. rewrite app_length, !be_bytes_length. cbn [Nat.add Nat.eqb negb].
      rewrite (firstn_app_len 32), (skipn_app_len 32) by apply be_bytes_length.
      rewrite Vx, Vy, H. reflexivity.
    - rewrite be_bytes_length. cbn [Nat.ltb Nat.leb Nat.eqb orb]. rewrite Vx.
      pose proof (pick_root x y true H Hy) as P. destruct (Z.even y); exact P.
  Qed.
End Sec.

(* The hypotheses of Section Sec are satisfiable together with a point that has y > 0 (so sec_roundtrip is
   not vacuous): the curve y^2 = x^3 + 7 over F_11 with the ascending list of square roots. *)
Definition toy_range : list Z := map Z.of_nat (seq 0 11).
Definition toy_sqrts (a : Z) : list Z := filter (fun y => (y * y) mod 11 =? a mod 11) toy_range.
Definition toy_check (x y : Z) : bool :=
  implb (on_curve 11 x y && (0 <? y))
    match toy_sqrts ((x ^ 3 + 7) mod 11) with
    | [y0; y1] => ((y0 =? y) && (y1 =? 11 - y)) || ((y0 =? 11 - y) && (y1 =? y))
    | _ => false
    end.

Lemma toy_check_all : forallb (fun x => forallb (toy_check x) toy_range) toy_range = true.
Proof. vm_compute. reflexivity. Qed.

Lemma sec_hypotheses_satisfiable :
  exists p sqrts,
    (2 < p < 2 ^ 256 /\ Z.odd p = true) /\
    (forall x y, on_curve p x y = true -> 0 < y ->
       exists y0 y1, sqrts ((x ^ 3 + 7) mod p) = [y0; y1] /\ ((y0 = y /\ y1 = p - y) \/ (y0 = p - y /\ y1 = y))) /\
    (exists x y, on_curve p x y = true /\ 0 < y).
Proof.
  exists 11, toy_sqrts. split; [split; [lia|reflexivity]|]. split.
  - intros x y H Hy. pose proof (on_curve_inv 11 x y H) as [Hx [Hy' _]].
    assert (R : forall z, 0 <= z < 11 -> In z toy_range).
    { intros z Hz. unfold toy_range. apply in_map_iff. exists (Z.to_nat z). split; [lia|]. apply in_seq. lia. }
    pose proof toy_check_all as T. rewrite forallb_forall in T. specialize (T x (R x Hx)).
    rewrite forallb_forall in T. specialize (T y (R y Hy')). unfold toy_check in T.
    rewrite H in T. replace (0 <? y) with true in T by (symmetry; apply Z.ltb_lt; lia). cbn [andb implb] in T.
    destruct (toy_sqrts ((x ^ 3 + 7) mod 11)) as [|y0 [|y1 [|? ?]]]; try discriminate.
    exists y0, y1. split; [reflexivity|].
    rewrite orb_true_iff, !andb_true_iff, !Z.eqb_eq in T. exact T.
  - exists 2, 2. split; [vm_compute; reflexivity|lia].
Qed.
