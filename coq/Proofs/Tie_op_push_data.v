(* Source tie for Script._op_push_data: the function as translated from the current source (Gen/Src.v) equals the model. *)
From Coq Require Import String ZArith List Bool Lia ZifyBool.
From BU Require Import Lib.Bytes Lib.BytesFacts Lib.PySem Gen.Tables Gen.Src Model.Varint Model.Script Model.Seq
  Proofs.ScriptNumFacts Proofs.TieLib.
Import ListNotations.
Open Scope list_scope.
Open Scope Z_scope.

Lemma src_op_push_data_eq : forall d, src_op_push_data d = of_option (op_push_data d).
Proof.
  intros d. unfold src_op_push_data, op_push_data. cbv zeta.
  set (n := Z.of_nat (length d)). assert (0 <= n) by (unfold n; lia).
  tie_auto.
Qed.

#[global] Hint Rewrite src_op_push_data_eq : tie.
