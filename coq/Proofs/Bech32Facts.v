From Coq Require Import ZArith List Bool Lia Btauto.
From BU Require Import Lib.Bytes Lib.BytesFacts Gen.Tables Model.Bech32.
Import ListNotations.
Open Scope Z_scope.

(* ------------------------------------------------------------------ *)
(* 1. polymod_step is XOR-linear                                       *)
(* ------------------------------------------------------------------ *)

Lemma land_lxor_l a b m : Z.land (Z.lxor a b) m = Z.lxor (Z.land a m) (Z.land b m).
Proof.
  apply Z.bits_inj'; intros n Hn.
  rewrite ?Z.lxor_spec, ?Z.land_spec, ?Z.lxor_spec.
  destruct (Z.testbit a n), (Z.testbit b n), (Z.testbit m n); reflexivity.
Qed.

Lemma if_xorb_lxor (p q : bool) g :
  (if xorb p q then g else 0) = Z.lxor (if p then g else 0) (if q then g else 0).
Proof.
  destruct p, q; cbn [xorb]; rewrite ?Z.lxor_nilpotent, ?Z.lxor_0_r, ?Z.lxor_0_l; reflexivity.
Qed.

Lemma polymod_step_unfold c v :
  polymod_step c v =
  let top := Z.shiftr c 25 in
  Z.lxor (Z.lxor (Z.lxor (Z.lxor (Z.lxor
    (Z.lxor (Z.shiftl (Z.land c 0x1FFFFFF) 5) v)
    (if Z.testbit top 0 then 0x3B6A57B2 else 0))
    (if Z.testbit top 1 then 0x26508E6D else 0))
    (if Z.testbit top 2 then 0x1EA119FA else 0))
    (if Z.testbit top 3 then 0x3D4233DD else 0))
    (if Z.testbit top 4 then 0x2A1462B3 else 0).
Proof. reflexivity. Qed.

Lemma polymod_step_linear c c' v v' : 0 <= c -> 0 <= c' -> 0 <= v -> 0 <= v' ->
  polymod_step (Z.lxor c c') (Z.lxor v v') = Z.lxor (polymod_step c v) (polymod_step c' v').
Proof.
  intros _ _ _ _. rewrite !polymod_step_unfold. cbv zeta.
  rewrite Z.shiftr_lxor, land_lxor_l, Z.shiftl_lxor, !Z.lxor_spec, !if_xorb_lxor.
  generalize (Z.shiftl (Z.land c 33554431) 5) (Z.shiftl (Z.land c' 33554431) 5).
  intros a a'.
  generalize (if Z.testbit (Z.shiftr c 25) 0 then 996825010 else 0)
             (if Z.testbit (Z.shiftr c' 25) 0 then 996825010 else 0)
             (if Z.testbit (Z.shiftr c 25) 1 then 642813549 else 0)
             (if Z.testbit (Z.shiftr c' 25) 1 then 642813549 else 0)
             (if Z.testbit (Z.shiftr c 25) 2 then 513874426 else 0)
             (if Z.testbit (Z.shiftr c' 25) 2 then 513874426 else 0)
             (if Z.testbit (Z.shiftr c 25) 3 then 1027748829 else 0)
             (if Z.testbit (Z.shiftr c' 25) 3 then 1027748829 else 0)
             (if Z.testbit (Z.shiftr c 25) 4 then 705979059 else 0)
             (if Z.testbit (Z.shiftr c' 25) 4 then 705979059 else 0).
  intros g0 g0' g1 g1' g2 g2' g3 g3' g4 g4'.
  apply Z.bits_inj'; intros n Hn. rewrite !Z.lxor_spec. btauto.
Qed.

Lemma lxor_range n a b : 0 <= n -> 0 <= a < 2 ^ n -> 0 <= b < 2 ^ n -> 0 <= Z.lxor a b < 2 ^ n.
Proof.
  intros Hn Ha Hb.
  assert (H0 : 0 <= Z.lxor a b) by (apply Z.lxor_nonneg; split; intros; lia).
  split; [exact H0|].
  assert (E : Z.shiftr (Z.lxor a b) n = 0).
  { rewrite Z.shiftr_lxor, !Z.shiftr_div_pow2 by lia.
    rewrite (Z.div_small a), (Z.div_small b) by lia. reflexivity. }
  rewrite Z.shiftr_div_pow2 in E by lia.
  assert (0 < 2 ^ n) by (apply Z.pow_pos_nonneg; lia).
  apply Z.div_small_iff in E; lia.
Qed.

Lemma polymod_step_range c v : 0 <= c < 2 ^ 30 -> 0 <= v < 32 -> 0 <= polymod_step c v < 2 ^ 30.
Proof.
  intros Hc Hv. rewrite polymod_step_unfold. cbv zeta.
  assert (H1 : 0 <= Z.shiftl (Z.land c 33554431) 5 < 2 ^ 30).
  { change 33554431 with (Z.ones 25). rewrite Z.land_ones, Z.shiftl_mul_pow2 by lia.
    change (2 ^ 5) with 32. change (2 ^ 25) with 33554432. change (2 ^ 30) with 1073741824. lia. }
  repeat apply lxor_range; try lia;
    match goal with |- context [if ?b then _ else _] => destruct b; cbn; lia end.
Qed.

(* ------------------------------------------------------------------ *)
(* 2. a created checksum verifies                                      *)
(* ------------------------------------------------------------------ *)

Definition sym5 (l : list Z) : Prop := Forall (fun v => 0 <= v < 32) l.

Notation run S l := (fold_left polymod_step l S) (only parsing).

Lemma polymod_step_linear' c c' v v' :
  polymod_step (Z.lxor c c') (Z.lxor v v') = Z.lxor (polymod_step c v) (polymod_step c' v').
Proof.
  rewrite !polymod_step_unfold. cbv zeta.
  rewrite Z.shiftr_lxor, land_lxor_l, Z.shiftl_lxor, !Z.lxor_spec, !if_xorb_lxor.
  generalize (Z.shiftl (Z.land c 33554431) 5) (Z.shiftl (Z.land c' 33554431) 5).
  intros a a'.
  generalize (if Z.testbit (Z.shiftr c 25) 0 then 996825010 else 0)
             (if Z.testbit (Z.shiftr c' 25) 0 then 996825010 else 0)
             (if Z.testbit (Z.shiftr c 25) 1 then 642813549 else 0)
             (if Z.testbit (Z.shiftr c' 25) 1 then 642813549 else 0)
             (if Z.testbit (Z.shiftr c 25) 2 then 513874426 else 0)
             (if Z.testbit (Z.shiftr c' 25) 2 then 513874426 else 0)
             (if Z.testbit (Z.shiftr c 25) 3 then 1027748829 else 0)
             (if Z.testbit (Z.shiftr c' 25) 3 then 1027748829 else 0)
             (if Z.testbit (Z.shiftr c 25) 4 then 705979059 else 0)
             (if Z.testbit (Z.shiftr c' 25) 4 then 705979059 else 0).
  intros g0 g0' g1 g1' g2 g2' g3 g3' g4 g4'.
  apply Z.bits_inj'; intros n Hn. rewrite !Z.lxor_spec. btauto.
Qed.

Lemma run_linear_zero l : forall S S',
  run (Z.lxor S S') l = Z.lxor (run S (repeat 0 (length l))) (run S' l).
Proof.
  induction l as [|x l IH]; intros S S'; cbn [fold_left length repeat]; [reflexivity|].
  rewrite <- IH. f_equal.
  rewrite <- polymod_step_linear'. now rewrite Z.lxor_0_l.
Qed.

Lemma run_range l : forall S, sym5 l -> 0 <= S < 2 ^ 30 -> 0 <= run S l < 2 ^ 30.
Proof.
  induction l as [|x l IH]; intros S Hl HS; cbn [fold_left]; [exact HS|].
  inversion Hl; subst. apply IH; [assumption|]. now apply polymod_step_range.
Qed.

Lemma land_shiftl_small c d k : 0 <= k -> 0 <= d < 2 ^ k -> Z.land (Z.shiftl c k) d = 0.
Proof.
  intros Hk Hd. apply Z.bits_inj'; intros n Hn.
  rewrite Z.land_spec, Z.bits_0.
  destruct (Z.ltb_spec n k).
  - rewrite Z.shiftl_spec_low by lia. reflexivity.
  - rewrite <- (Z.mod_small d (2 ^ k)) by lia.
    rewrite Z.mod_pow2_bits_high by lia. apply andb_false_r.
Qed.

Lemma polymod_step_small c d : 0 <= c < 2 ^ 25 -> 0 <= d < 32 -> polymod_step c d = 32 * c + d.
Proof.
  intros Hc Hd. rewrite polymod_step_unfold. cbv zeta.
  assert (E : Z.shiftr c 25 = 0) by (rewrite Z.shiftr_div_pow2 by lia; apply Z.div_small; lia).
  rewrite E, !Z.bits_0, !Z.lxor_0_r.
  change 33554431 with (Z.ones 25). rewrite Z.land_ones by lia.
  rewrite Z.mod_small by lia.
  rewrite <- Z.add_nocarry_lxor by (apply land_shiftl_small; [lia|change (2 ^ 5) with 32; lia]).
  rewrite Z.shiftl_mul_pow2 by lia. change (2 ^ 5) with 32. lia.
Qed.

Definition digits6 (pm : Z) : list Z :=
  map (fun i => Z.land (Z.shiftr pm (5 * (5 - Z.of_nat i))) 31) (seq 0 6).

Lemma digit_div pm k : 0 <= k -> Z.land (Z.shiftr pm k) 31 = (pm / 2 ^ k) mod 32.
Proof.
  intros Hk. change 31 with (Z.ones 5). rewrite Z.land_ones, Z.shiftr_div_pow2 by lia. reflexivity.
Qed.

Lemma run0_digits6 pm : 0 <= pm < 2 ^ 30 -> run 0 (digits6 pm) = pm.
Proof.
  intros Hpm. unfold digits6. cbn [seq map fold_left].
  rewrite !digit_div by (cbn; lia). cbn [Z.of_nat Pos.of_succ_nat Pos.succ Z.sub Z.mul Z.opp Z.add Z.pos_sub Pos.pred_double Pos.mul Pos.add Z.pow Z.pow_pos Pos.iter Z.succ_double Z.pred_double Z.double].
  change (2 ^ 30) with 1073741824 in Hpm.
  set (q1 := pm / 32). set (q2 := pm / 1024). set (q3 := pm / 32768).
  set (q4 := pm / 1048576). set (q5 := pm / 33554432).
  assert (E2 : q2 = q1 / 32) by (unfold q1, q2; rewrite Z.div_div by lia; reflexivity).
  assert (E3 : q3 = q2 / 32) by (unfold q2, q3; rewrite Z.div_div by lia; reflexivity).
  assert (E4 : q4 = q3 / 32) by (unfold q3, q4; rewrite Z.div_div by lia; reflexivity).
  assert (E5 : q5 = q4 / 32) by (unfold q4, q5; rewrite Z.div_div by lia; reflexivity).
  assert (H5 : 0 <= q5 < 32) by (unfold q5; lia).
  rewrite (Z.mod_small q5 32) by lia.
  rewrite (polymod_step_small 0 q5) by (cbn; lia).
  rewrite (polymod_step_small _ (q4 mod 32)) by (change (2 ^ 25) with 33554432; lia).
  replace (32 * (32 * 0 + q5) + q4 mod 32) with q4 by lia.
  rewrite (polymod_step_small q4) by (change (2 ^ 25) with 33554432; unfold q4; lia).
  replace (32 * q4 + q3 mod 32) with q3 by lia.
  rewrite (polymod_step_small q3) by (change (2 ^ 25) with 33554432; unfold q3; lia).
  replace (32 * q3 + q2 mod 32) with q2 by lia.
  rewrite (polymod_step_small q2) by (change (2 ^ 25) with 33554432; unfold q2; lia).
  replace (32 * q2 + q1 mod 32) with q1 by lia.
  change (pm / 1) with (pm / 1).
  rewrite Z.div_1_r.
  rewrite (polymod_step_small q1) by (change (2 ^ 25) with 33554432; unfold q1; lia).
  unfold q1. lia.
Qed.

Lemma hrp_expand_sym5 hrp : Forall (fun c => 0 <= c < 256) hrp -> sym5 (hrp_expand hrp).
Proof.
  intros H. unfold hrp_expand, sym5. rewrite !Forall_app. repeat split.
  - rewrite Forall_forall in *. intros x Hx. apply in_map_iff in Hx. destruct Hx as [c [<- Hc]].
    specialize (H c Hc). rewrite Z.shiftr_div_pow2 by lia. change (2 ^ 5) with 32. lia.
  - repeat constructor; lia.
  - rewrite Forall_forall in *. intros x Hx. apply in_map_iff in Hx. destruct Hx as [c [<- Hc]].
    specialize (H c Hc). change 31 with (Z.ones 5). rewrite Z.land_ones by lia.
    change (2 ^ 5) with 32. lia.
Qed.

Lemma spec_const_range spec : 0 <= spec_const spec < 2 ^ 30.
Proof. destruct spec; unfold spec_const, bech32m_const; lia. Qed.

Lemma create_checksum_digits hrp data spec :
  create_checksum hrp data spec =
  digits6 (Z.lxor (fold_left polymod_step (repeat 0 6%nat) (fold_left polymod_step (hrp_expand hrp ++ data) 1)) (spec_const spec)).
Proof.
  unfold create_checksum, digits6, bech32_polymod. rewrite fold_left_app.
  change (repeat 0 6) with [0;0;0;0;0;0]. reflexivity.
Qed.

Lemma digits6_length pm : length (digits6 pm) = 6%nat.
Proof. unfold digits6. rewrite map_length, seq_length. reflexivity. Qed.

Lemma verify_core S0 c : 0 <= S0 < 2 ^ 30 -> 0 <= c < 2 ^ 30 ->
  fold_left polymod_step (digits6 (Z.lxor (fold_left polymod_step (repeat 0 6%nat) S0) c)) S0 = c.
Proof.
  intros HS0 Hc.
  assert (HZ0 : 0 <= run S0 (repeat 0 6) < 2 ^ 30).
  { apply run_range; [|exact HS0]. repeat constructor; lia. }
  pose proof (run_linear_zero (digits6 (Z.lxor (run S0 (repeat 0 6)) c)) S0 0) as L.
  rewrite digits6_length, Z.lxor_0_r in L.
  remember (run S0 (repeat 0 6)) as Z0 eqn:EZ. clear EZ.
  assert (Hpm : 0 <= Z.lxor Z0 c < 2 ^ 30) by (apply lxor_range; [lia|exact HZ0|exact Hc]).
  rewrite run0_digits6 in L by exact Hpm.
  rewrite L.
  rewrite <- Z.lxor_assoc, Z.lxor_nilpotent, Z.lxor_0_l. reflexivity.
Qed.

Theorem checksum_verifies hrp data spec :
  Forall (fun c => 0 <= c < 256) hrp -> sym5 data ->
  verify_checksum hrp (data ++ create_checksum hrp data spec) = Some spec.
Proof.
  intros Hh Hd. unfold verify_checksum, bech32_polymod.
  rewrite create_checksum_digits.
  rewrite app_assoc, fold_left_app.
  
  rewrite verify_core.
  - destruct spec; reflexivity.
  - apply run_range; [|cbn; lia]. apply Forall_app; split; [now apply hrp_expand_sym5|exact Hd].
  - apply spec_const_range.
Qed.

Lemma create_checksum_sym5 hrp data spec :
  sym5 (create_checksum hrp data spec) /\ length (create_checksum hrp data spec) = 6%nat.
Proof.
  rewrite create_checksum_digits. split; [|apply digits6_length].
  unfold digits6, sym5. rewrite Forall_forall. intros x Hx. apply in_map_iff in Hx.
  destruct Hx as [i [<- _]]. change 31 with (Z.ones 5). rewrite Z.land_ones by lia.
  change (2 ^ 5) with 32. lia.
Qed.

(* ------------------------------------------------------------------ *)
(* 4. the character set                                                *)
(* ------------------------------------------------------------------ *)

Fixpoint nodupb (l : list Z) : bool :=
  match l with
  | [] => true
  | x :: r => negb (existsb (Z.eqb x) r) && nodupb r
  end.

Lemma nodupb_sound l : nodupb l = true -> NoDup l.
Proof.
  induction l as [|x l IH]; cbn [nodupb]; intros H; constructor.
  - apply andb_true_iff in H. destruct H as [H _]. apply negb_true_iff in H.
    intros Hin. assert (existsb (Z.eqb x) l = true); [|congruence].
    apply existsb_exists. exists x. split; [exact Hin|apply Z.eqb_refl].
  - apply IH. apply andb_true_iff in H. tauto.
Qed.

Lemma notinb_sound c l : existsb (Z.eqb c) l = false -> ~ In c l.
Proof.
  intros H Hin. assert (existsb (Z.eqb c) l = true); [|congruence].
  apply existsb_exists. exists c. split; [exact Hin|apply Z.eqb_refl].
Qed.

Lemma charset_facts : length bech32_charset = 32%nat /\ NoDup bech32_charset /\ ~ In 49 bech32_charset /\
  Forall (fun c => 33 <= c <= 126 /\ lower c = c) bech32_charset.
Proof.
  split; [reflexivity|]. split; [apply nodupb_sound; vm_compute; reflexivity|].
  split; [apply notinb_sound; vm_compute; reflexivity|].
  apply Forall_forall. intros c Hc.
  assert (H : forallb (fun c => (33 <=? c) && (c <=? 126) && (lower c =? c)) bech32_charset = true)
    by (vm_compute; reflexivity).
  rewrite forallb_forall in H. specialize (H c Hc).
  rewrite !andb_true_iff in H. destruct H as [[H1 H2] H3].
  apply Z.leb_le in H1, H2. apply Z.eqb_eq in H3. tauto.
Qed.

Lemma find_charset_char d : 0 <= d < 32 -> find_char (charset_char d) bech32_charset = Some d.
Proof.
  intros Hd.
  assert (H : forallb (fun d => match find_char (charset_char d) bech32_charset with
                                | Some x => x =? d | None => false end)
                      (map Z.of_nat (seq 0 32)) = true) by (vm_compute; reflexivity).
  rewrite forallb_forall in H. specialize (H d).
  assert (Hin : In d (map Z.of_nat (seq 0 32))).
  { apply in_map_iff. exists (Z.to_nat d). split; [lia|]. apply in_seq. lia. }
  specialize (H Hin). destruct (find_char (charset_char d) bech32_charset); [|discriminate].
  apply Z.eqb_eq in H. now subst.
Qed.

Lemma charset_char_facts d : 0 <= d < 32 ->
  33 <= charset_char d <= 126 /\ lower (charset_char d) = charset_char d /\ charset_char d <> 49.
Proof.
  intros Hd. destruct charset_facts as [HL [_ [H49 HF]]].
  assert (Hin : In (charset_char d) bech32_charset).
  { unfold charset_char. apply nth_In. rewrite HL. lia. }
  rewrite Forall_forall in HF. specialize (HF _ Hin).
  repeat split; try tauto. intros E. rewrite E in Hin. contradiction.
Qed.

(* ------------------------------------------------------------------ *)
(* 5. decode (encode ...)                                              *)
(* ------------------------------------------------------------------ *)

Definition hrp_ok (hrp : list Z) : Prop :=
  (1 <= length hrp)%nat /\ Forall (fun c => 33 <= c <= 126 /\ lower c = c /\ c <> 49) hrp.

Lemma rfind_app c a : forall l i best,
  rfind c (a ++ l) i best = rfind c l (i + Z.of_nat (length a)) (rfind c a i best).
Proof.
  induction a as [|x a IH]; intros l i best; cbn [app rfind length].
  - f_equal. lia.
  - rewrite IH. f_equal. lia.
Qed.

Lemma rfind_notin c l : forall i best, ~ In c l -> rfind c l i best = best.
Proof.
  induction l as [|x l IH]; intros i best Hn; cbn [rfind]; [reflexivity|].
  rewrite IH by (intros H; apply Hn; now right).
  destruct (Z.eqb_spec x c); [|reflexivity]. exfalso. apply Hn. now left.
Qed.

Lemma rfind_sep c a r : ~ In c r -> rfind c (a ++ c :: r) 0 None = Some (Z.of_nat (length a)).
Proof.
  intros Hn. rewrite rfind_app. cbn [rfind]. rewrite Z.eqb_refl.
  rewrite rfind_notin by exact Hn. reflexivity.
Qed.

Lemma existsb_false_Forall {A} (f : A -> bool) l : Forall (fun x => f x = false) l -> existsb f l = false.
Proof. induction 1 as [|x l Hx _ IH]; cbn [existsb]; [reflexivity|now rewrite Hx, IH]. Qed.

Lemma map_id_Forall (f : Z -> Z) l : Forall (fun x => f x = x) l -> map f l = l.
Proof. induction 1 as [|x l Hx _ IH]; cbn [map]; [reflexivity|now rewrite Hx, IH]. Qed.

Lemma map_opt_find_charset dc : sym5 dc ->
  map_opt (fun x => find_char x bech32_charset) (map charset_char dc) = Some dc.
Proof.
  induction 1 as [|x l Hx _ IH]; cbn [map map_opt]; [reflexivity|].
  rewrite find_charset_char by exact Hx. rewrite IH. reflexivity.
Qed.

Definition char_ok (c : Z) : Prop := 33 <= c <= 126 /\ lower c = c.

Lemma decode_core hrp dc data spec :
  hrp_ok hrp -> sym5 dc -> length dc = (length data + 6)%nat -> firstn (length data) dc = data ->
  verify_checksum hrp dc = Some spec -> (length hrp + 1 + length dc <= 90)%nat ->
  bech32_decode (hrp ++ [49] ++ map charset_char dc) = Some (hrp, data, spec).
Proof.
  intros [Hlen Hh] Hdc Hl Hf Hv Hb.
  set (body := map charset_char dc).
  assert (Hbody : Forall (fun c => char_ok c /\ c <> 49) body).
  { unfold body. apply Forall_forall. intros c Hc. apply in_map_iff in Hc.
    destruct Hc as [d [<- Hd]]. unfold sym5 in Hdc. rewrite Forall_forall in Hdc.
    pose proof (charset_char_facts d (Hdc d Hd)). unfold char_ok. tauto. }
  assert (Hall : Forall char_ok (hrp ++ [49] ++ body)).
  { apply Forall_app; split; [|apply Forall_app; split].
    - eapply Forall_impl; [|exact Hh]. unfold char_ok. cbn beta. intros; tauto.
    - constructor; [|constructor]. unfold char_ok. split; [lia|reflexivity].
    - eapply Forall_impl; [|exact Hbody]. cbn beta. intros; tauto. }
  assert (Hn49 : ~ In 49 body).
  { intros Hin. rewrite Forall_forall in Hbody. destruct (Hbody _ Hin) as [_ H]. now apply H. }
  assert (Hblen : length body = length dc) by (unfold body; apply map_length).
  unfold bech32_decode.
  set (s := hrp ++ [49] ++ body) in *.
  assert (Hlow : map lower s = s).
  { apply map_id_Forall. eapply Forall_impl; [|exact Hall]. unfold char_ok. cbn beta. intros; tauto. }
  rewrite existsb_false_Forall.
  2:{ eapply Forall_impl; [|exact Hall]. unfold char_ok. cbn beta. intros a [Ha _].
      apply orb_false_iff. split; [apply Z.ltb_ge|apply Z.ltb_ge]; lia. }
  rewrite Hlow. unfold list_eqb. rewrite bytes_eqb_refl. cbn [negb andb].
  assert (Hslen : length s = (length hrp + 1 + length dc)%nat).
  { unfold s. rewrite !app_length. cbn [length]. lia. }
  unfold s at 1. cbn [app]. rewrite rfind_sep by exact Hn49.
  replace ((Z.of_nat (length hrp) <? 1) || (Z.of_nat (length s) <? Z.of_nat (length hrp) + 7)
           || (90 <? Z.of_nat (length s))) with false.
  2:{ symmetry. rewrite !orb_false_iff. repeat split; apply Z.ltb_ge; lia. }
  rewrite Nat2Z.id.
  replace (firstn (length hrp) s) with hrp by (unfold s; now rewrite firstn_app_exact).
  replace (skipn (length hrp + 1) s) with body.
  2:{ unfold s. rewrite app_assoc. symmetry. apply skipn_app_len. rewrite app_length. reflexivity. }
  unfold body. rewrite map_opt_find_charset by exact Hdc.
  rewrite Hv. rewrite Hl. replace (length data + 6 - 6)%nat with (length data) by lia.
  rewrite Hf. reflexivity.
Qed.

Theorem bech32_decode_encode hrp data spec : hrp_ok hrp -> sym5 data -> (length hrp + 1 + length data + 6 <= 90)%nat ->
  bech32_decode (bech32_encode hrp data spec) = Some (hrp, data, spec).
Proof.
  intros Hh Hd Hlen. unfold bech32_encode.
  destruct (create_checksum_sym5 hrp data spec) as [Hc5 Hc6].
  assert (Hv : verify_checksum hrp (data ++ create_checksum hrp data spec) = Some spec).
  { apply checksum_verifies; [|exact Hd]. destruct Hh as [_ Hh].
    eapply Forall_impl; [|exact Hh]. cbn beta. intros; lia. }
  generalize dependent (create_checksum hrp data spec). intros cs Hc5 Hc6 Hv.
  apply decode_core; try assumption.
  - apply Forall_app; split; assumption.
  - rewrite app_length. lia.
  - apply firstn_app_exact.
  - rewrite app_length. lia.
Qed.
