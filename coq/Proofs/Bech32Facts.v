From Coq Require Import ZArith List Bool Lia Btauto.
From BU Require Import Lib.Bytes Lib.BytesFacts Gen.Tables Model.Bech32.
Import ListNotations.
Open Scope Z_scope.

(* ------------------------------------------------------------------ *)
(* 1. polymod_step is XOR-linear                                       *)
(* ------------------------------------------------------------------ *)

Lemma land_lxor_l a b m : Z.land (Z.lxor a b) m = Z.lxor (Z.land a m) (Z.land b m).
Proof.
  apply Z.bits_inj'; intros n Hn.
  rewrite ?Z.lxor_spec, ?Z.land_spec, ?Z.lxor_spec.
  destruct (Z.testbit a n), (Z.testbit b n), (Z.testbit m n); reflexivity.
Qed.

Lemma if_xorb_lxor (p q : bool) g :
  (if xorb p q then g else 0) = Z.lxor (if p then g else 0) (if q then g else 0).
Proof.
  destruct p, q; cbn [xorb]; rewrite ?Z.lxor_nilpotent, ?Z.lxor_0_r, ?Z.lxor_0_l; reflexivity.
Qed.

Lemma polymod_step_unfold c v :
  polymod_step c v =
  let top := Z.shiftr c 25 in
  Z.lxor (Z.lxor (Z.lxor (Z.lxor (Z.lxor
    (Z.lxor (Z.shiftl (Z.land c 0x1FFFFFF) 5) v)
    (if Z.testbit top 0 then 0x3B6A57B2 else 0))
    (if Z.testbit top 1 then 0x26508E6D else 0))
    (if Z.testbit top 2 then 0x1EA119FA else 0))
    (if Z.testbit top 3 then 0x3D4233DD else 0))
    (if Z.testbit top 4 then 0x2A1462B3 else 0).
Proof. reflexivity. Qed.

Lemma polymod_step_linear c c' v v' : 0 <= c -> 0 <= c' -> 0 <= v -> 0 <= v' ->
  polymod_step (Z.lxor c c') (Z.lxor v v') = Z.lxor (polymod_step c v) (polymod_step c' v').
Proof.
  intros _ _ _ _. rewrite !polymod_step_unfold. cbv zeta.
  rewrite Z.shiftr_lxor, land_lxor_l, Z.shiftl_lxor, !Z.lxor_spec, !if_xorb_lxor.
  generalize (Z.shiftl (Z.land c 33554431) 5) (Z.shiftl (Z.land c' 33554431) 5).
  intros a a'.
  generalize (if Z.testbit (Z.shiftr c 25) 0 then 996825010 else 0)
             (if Z.testbit (Z.shiftr c' 25) 0 then 996825010 else 0)
             (if Z.testbit (Z.shiftr c 25) 1 then 642813549 else 0)
             (if Z.testbit (Z.shiftr c' 25) 1 then 642813549 else 0)
             (if Z.testbit (Z.shiftr c 25) 2 then 513874426 else 0)
             (if Z.testbit (Z.shiftr c' 25) 2 then 513874426 else 0)
             (if Z.testbit (Z.shiftr c 25) 3 then 1027748829 else 0)
             (if Z.testbit (Z.shiftr c' 25) 3 then 1027748829 else 0)
             (if Z.testbit (Z.shiftr c 25) 4 then 705979059 else 0)
             (if Z.testbit (Z.shiftr c' 25) 4 then 705979059 else 0).
  intros g0 g0' g1 g1' g2 g2' g3 g3' g4 g4'.
  apply Z.bits_inj'; intros n Hn. rewrite !Z.lxor_spec. btauto.
Qed.

Lemma lxor_range n a b : 0 <= n -> 0 <= a < 2 ^ n -> 0 <= b < 2 ^ n -> 0 <= Z.lxor a b < 2 ^ n.
Proof.
  intros Hn Ha Hb.
  assert (H0 : 0 <= Z.lxor a b) by (apply Z.lxor_nonneg; split; intros; lia).
  split; [exact H0|].
  assert (E : Z.shiftr (Z.lxor a b) n = 0).
  { rewrite Z.shiftr_lxor, !Z.shiftr_div_pow2 by lia.
    rewrite (Z.div_small a), (Z.div_small b) by lia. reflexivity. }
  rewrite Z.shiftr_div_pow2 in E by lia.
  assert (0 < 2 ^ n) by (apply Z.pow_pos_nonneg; lia).
  apply Z.div_small_iff in E; lia.
Qed.

Lemma polymod_step_range c v : 0 <= c < 2 ^ 30 -> 0 <= v < 32 -> 0 <= polymod_step c v < 2 ^ 30.
Proof.
  intros Hc Hv. rewrite polymod_step_unfold. cbv zeta.
  assert (H1 : 0 <= Z.shiftl (Z.land c 33554431) 5 < 2 ^ 30).
  { change 33554431 with (Z.ones 25). rewrite Z.land_ones, Z.shiftl_mul_pow2 by lia.
    change (2 ^ 5) with 32. change (2 ^ 25) with 33554432. change (2 ^ 30) with 1073741824. lia. }
  repeat apply lxor_range; try lia;
    match goal with |- context [if ?b then _ else _] => destruct b; cbn; lia end.
Qed.

(* ------------------------------------------------------------------ *)
(* 2. a created checksum verifies                                      *)
(* ------------------------------------------------------------------ *)

Definition sym5 (l : list Z) : Prop := Forall (fun v => 0 <= v < 32) l.

Notation run S l := (fold_left polymod_step l S) (only parsing).

Lemma polymod_step_linear' c c' v v' :
  polymod_step (Z.lxor c c') (Z.lxor v v') = Z.lxor (polymod_step c v) (polymod_step c' v').
Proof.
  rewrite !polymod_step_unfold. cbv zeta.
  rewrite Z.shiftr_lxor, land_lxor_l, Z.shiftl_lxor, !Z.lxor_spec, !if_xorb_lxor.
  generalize (Z.shiftl (Z.land c 33554431) 5) (Z.shiftl (Z.land c' 33554431) 5).
  intros a a'.
  generalize (if Z.testbit (Z.shiftr c 25) 0 then 996825010 else 0)
             (if Z.testbit (Z.shiftr c' 25) 0 then 996825010 else 0)
             (if Z.testbit (Z.shiftr c 25) 1 then 642813549 else 0)
             (if Z.testbit (Z.shiftr c' 25) 1 then 642813549 else 0)
             (if Z.testbit (Z.shiftr c 25) 2 then 513874426 else 0)
             (if Z.testbit (Z.shiftr c' 25) 2 then 513874426 else 0)
             (if Z.testbit (Z.shiftr c 25) 3 then 1027748829 else 0)
             (if Z.testbit (Z.shiftr c' 25) 3 then 1027748829 else 0)
             (if Z.testbit (Z.shiftr c 25) 4 then 705979059 else 0)
             (if Z.testbit (Z.shiftr c' 25) 4 then 705979059 else 0).
  intros g0 g0' g1 g1' g2 g2' g3 g3' g4 g4'.
  apply Z.bits_inj'; intros n Hn. rewrite !Z.lxor_spec. btauto.
Qed.

Lemma run_linear_zero l : forall S S',
  run (Z.lxor S S') l = Z.lxor (run S (repeat 0 (length l))) (run S' l).
Proof.
  induction l as [|x l IH]; intros S S'; cbn [fold_left length repeat]; [reflexivity|].
  rewrite <- IH. f_equal.
  rewrite <- polymod_step_linear'. now rewrite Z.lxor_0_l.
Qed.

Lemma run_range l : forall S, sym5 l -> 0 <= S < 2 ^ 30 -> 0 <= run S l < 2 ^ 30.
Proof.
  induction l as [|x l IH]; intros S Hl HS; cbn [fold_left]; [exact HS|].
  inversion Hl; subst. apply IH; [assumption|]. now apply polymod_step_range.
Qed.

Lemma land_shiftl_small c d k : 0 <= k -> 0 <= d < 2 ^ k -> Z.land (Z.shiftl c k) d = 0.
Proof.
  intros Hk Hd. apply Z.bits_inj'; intros n Hn.
  rewrite Z.land_spec, Z.bits_0.
  destruct (Z.ltb_spec n k).
  - rewrite Z.shiftl_spec_low by lia. reflexivity.
  - rewrite <- (Z.mod_small d (2 ^ k)) by lia.
    rewrite Z.mod_pow2_bits_high by lia. apply andb_false_r.
Qed.

Lemma polymod_step_small c d : 0 <= c < 2 ^ 25 -> 0 <= d < 32 -> polymod_step c d = 32 * c + d.
Proof.
  intros Hc Hd. rewrite polymod_step_unfold. cbv zeta.
  assert (E : Z.shiftr c 25 = 0) by (rewrite Z.shiftr_div_pow2 by lia; apply Z.div_small; lia).
  rewrite E, !Z.bits_0, !Z.lxor_0_r.
  change 33554431 with (Z.ones 25). rewrite Z.land_ones by lia.
  rewrite Z.mod_small by lia.
  rewrite <- Z.add_nocarry_lxor by (apply land_shiftl_small; [lia|change (2 ^ 5) with 32; lia]).
  rewrite Z.shiftl_mul_pow2 by lia. change (2 ^ 5) with 32. lia.
Qed.

Definition digits6 (pm : Z) : list Z :=
  map (fun i => Z.land (Z.shiftr pm (5 * (5 - Z.of_nat i))) 31) (seq 0 6).

Lemma digit_div pm k : 0 <= k -> Z.land (Z.shiftr pm k) 31 = (pm / 2 ^ k) mod 32.
Proof.
  intros Hk. change 31 with (Z.ones 5). rewrite Z.land_ones, Z.shiftr_div_pow2 by lia. reflexivity.
Qed.

Lemma run0_digits6 pm : 0 <= pm < 2 ^ 30 -> run 0 (digits6 pm) = pm.
Proof.
  intros Hpm. unfold digits6. cbn [seq map fold_left].
  rewrite !digit_div by (cbn; lia). cbn [Z.of_nat Pos.of_succ_nat Pos.succ Z.sub Z.mul Z.opp Z.add Z.pos_sub Pos.pred_double Pos.mul Pos.add Z.pow Z.pow_pos Pos.iter Z.succ_double Z.pred_double Z.double].
  change (2 ^ 30) with 1073741824 in Hpm.
  set (q1 := pm / 32). set (q2 := pm / 1024). set (q3 := pm / 32768).
  set (q4 := pm / 1048576). set (q5 := pm / 33554432).
  assert (E2 : q2 = q1 / 32) by (unfold q1, q2; rewrite Z.div_div by lia; reflexivity).
  assert (E3 : q3 = q2 / 32) by (unfold q2, q3; rewrite Z.div_div by lia; reflexivity).
  assert (E4 : q4 = q3 / 32) by (unfold q3, q4; rewrite Z.div_div by lia; reflexivity).
  assert (E5 : q5 = q4 / 32) by (unfold q4, q5; rewrite Z.div_div by lia; reflexivity).
  assert (H5 : 0 <= q5 < 32) by (unfold q5; lia).
  rewrite (Z.mod_small q5 32) by lia.
  rewrite (polymod_step_small 0 q5) by (cbn; lia).
  rewrite (polymod_step_small _ (q4 mod 32)) by (change (2 ^ 25) with 33554432; lia).
  replace (32 * (32 * 0 + q5) + q4 mod 32) with q4 by lia.
  rewrite (polymod_step_small q4) by (change (2 ^ 25) with 33554432; unfold q4; lia).
  replace (32 * q4 + q3 mod 32) with q3 by lia.
  rewrite (polymod_step_small q3) by (change (2 ^ 25) with 33554432; unfold q3; lia).
  replace (32 * q3 + q2 mod 32) with q2 by lia.
  rewrite (polymod_step_small q2) by (change (2 ^ 25) with 33554432; unfold q2; lia).
  replace (32 * q2 + q1 mod 32) with q1 by lia.
  change (pm / 1) with (pm / 1).
  rewrite Z.div_1_r.
  rewrite (polymod_step_small q1) by (change (2 ^ 25) with 33554432; unfold q1; lia).
  unfold q1. lia.
Qed.

Lemma hrp_expand_sym5 hrp : Forall (fun c => 0 <= c < 256) hrp -> sym5 (hrp_expand hrp).
Proof.
  intros H. unfold hrp_expand, sym5. rewrite !Forall_app. repeat split.
  - rewrite Forall_forall in *. intros x Hx. apply in_map_iff in Hx. destruct Hx as [c [<- Hc]].
    specialize (H c Hc). rewrite Z.shiftr_div_pow2 by lia. change (2 ^ 5) with 32. lia.
  - repeat constructor; lia.
  - rewrite Forall_forall in *. intros x Hx. apply in_map_iff in Hx. destruct Hx as [c [<- Hc]].
    specialize (H c Hc). change 31 with (Z.ones 5). rewrite Z.land_ones by lia.
    change (2 ^ 5) with 32. lia.
Qed.

Lemma spec_const_range spec : 0 <= spec_const spec < 2 ^ 30.
Proof. destruct spec; unfold spec_const, bech32m_const; lia. Qed.

Lemma create_checksum_digits hrp data spec :
  create_checksum hrp data spec =
  digits6 (Z.lxor (fold_left polymod_step (repeat 0 6%nat) (fold_left polymod_step (hrp_expand hrp ++ data) 1)) (spec_const spec)).
Proof.
  unfold create_checksum, digits6, bech32_polymod. rewrite fold_left_app.
  change (repeat 0 6) with [0;0;0;0;0;0]. reflexivity.
Qed.

Lemma digits6_length pm : length (digits6 pm) = 6%nat.
Proof. unfold digits6. rewrite map_length, seq_length. reflexivity. Qed.

Lemma verify_core S0 c : 0 <= S0 < 2 ^ 30 -> 0 <= c < 2 ^ 30 ->
  fold_left polymod_step (digits6 (Z.lxor (fold_left polymod_step (repeat 0 6%nat) S0) c)) S0 = c.
Proof.
  intros HS0 Hc.
  assert (HZ0 : 0 <= run S0 (repeat 0 6) < 2 ^ 30).
  { apply run_range; [|exact HS0]. repeat constructor; lia. }
  pose proof (run_linear_zero (digits6 (Z.lxor (run S0 (repeat 0 6)) c)) S0 0) as L.
  rewrite digits6_length, Z.lxor_0_r in L.
  remember (run S0 (repeat 0 6)) as Z0 eqn:EZ. clear EZ.
  assert (Hpm : 0 <= Z.lxor Z0 c < 2 ^ 30) by (apply lxor_range; [lia|exact HZ0|exact Hc]).
  rewrite run0_digits6 in L by exact Hpm.
  rewrite L.
  rewrite <- Z.lxor_assoc, Z.lxor_nilpotent, Z.lxor_0_l. reflexivity.
Qed.

Theorem checksum_verifies hrp data spec :
  Forall (fun c => 0 <= c < 256) hrp -> sym5 data ->
  verify_checksum hrp (data ++ create_checksum hrp data spec) = Some spec.
Proof.
  intros Hh Hd. unfold verify_checksum, bech32_polymod.
  rewrite create_checksum_digits.
  rewrite app_assoc, fold_left_app.
  
  rewrite verify_core.
  - destruct spec; reflexivity.
  - apply run_range; [|cbn; lia]. apply Forall_app; split; [now apply hrp_expand_sym5|exact Hd].
  - apply spec_const_range.
Qed.

Lemma create_checksum_sym5 hrp data spec :
  sym5 (create_checksum hrp data spec) /\ length (create_checksum hrp data spec) = 6%nat.
Proof.
  rewrite create_checksum_digits. split; [|apply digits6_length].
  unfold digits6, sym5. rewrite Forall_forall. intros x Hx. apply in_map_iff in Hx.
  destruct Hx as [i [<- _]]. change 31 with (Z.ones 5). rewrite Z.land_ones by lia.
  change (2 ^ 5) with 32. lia.
Qed.

(* ------------------------------------------------------------------ *)
(* 4. the character set                                                *)
(* ------------------------------------------------------------------ *)

Fixpoint nodupb (l : list Z) : bool :=
  match l with
  | [] => true
  | x :: r => negb (existsb (Z.eqb x) r) && nodupb r
  end.

Lemma nodupb_sound l : nodupb l = true -> NoDup l.
Proof.
  induction l as [|x l IH]; cbn [nodupb]; intros H; constructor.
  - apply andb_true_iff in H. destruct H as [H _]. apply negb_true_iff in H.
    intros Hin. assert (existsb (Z.eqb x) l = true); [|congruence].
    apply existsb_exists. exists x. split; [exact Hin|apply Z.eqb_refl].
  - apply IH. apply andb_true_iff in H. tauto.
Qed.

Lemma notinb_sound c l : existsb (Z.eqb c) l = false -> ~ In c l.
Proof.
  intros H Hin. assert (existsb (Z.eqb c) l = true); [|congruence].
  apply existsb_exists. exists c. split; [exact Hin|apply Z.eqb_refl].
Qed.

Lemma charset_facts : length bech32_charset = 32%nat /\ NoDup bech32_charset /\ ~ In 49 bech32_charset /\
  Forall (fun c => 33 <= c <= 126 /\ lower c = c) bech32_charset.
Proof.
  split; [reflexivity|]. split; [apply nodupb_sound; vm_compute; reflexivity|].
  split; [apply notinb_sound; vm_compute; reflexivity|].
  apply Forall_forall. intros c Hc.
  assert (H : forallb (fun c => (33 <=? c) && (c <=? 126) && (lower c =? c)) bech32_charset = true)
    by (vm_compute; reflexivity).
  rewrite forallb_forall in H. specialize (H c Hc).
  rewrite !andb_true_iff in H. destruct H as [[H1 H2] H3].
  apply Z.leb_le in H1, H2. apply Z.eqb_eq in H3. tauto.
Qed.

Lemma find_charset_char d : 0 <= d < 32 -> find_char (charset_char d) bech32_charset = Some d.
Proof.
  intros Hd.
  assert (H : forallb (fun d => match find_char (charset_char d) bech32_charset with
                                | Some x => x =? d | None => false end)
                      (map Z.of_nat (seq 0 32)) = true) by (vm_compute; reflexivity).
  rewrite forallb_forall in H. specialize (H d).
  assert (Hin : In d (map Z.of_nat (seq 0 32))).
  { apply in_map_iff. exists (Z.to_nat d). split; [lia|]. apply in_seq. lia. }
  specialize (H Hin). destruct (find_char (charset_char d) bech32_charset); [|discriminate].
  apply Z.eqb_eq in H. now subst.
Qed.

Lemma charset_char_facts d : 0 <= d < 32 ->
  33 <= charset_char d <= 126 /\ lower (charset_char d) = charset_char d /\ charset_char d <> 49.
Proof.
  intros Hd. destruct charset_facts as [HL [_ [H49 HF]]].
  assert (Hin : In (charset_char d) bech32_charset).
  { unfold charset_char. apply nth_In. rewrite HL. lia. }
  rewrite Forall_forall in HF. specialize (HF _ Hin).
  repeat split; try tauto. intros E. rewrite E in Hin. contradiction.
Qed.

(* ------------------------------------------------------------------ *)
(* 5. decode (encode ...)                                              *)
(* ------------------------------------------------------------------ *)

Definition hrp_ok (hrp : list Z) : Prop :=
  (1 <= length hrp)%nat /\ Forall (fun c => 33 <= c <= 126 /\ lower c = c /\ c <> 49) hrp.

Lemma rfind_app c a : forall l i best,
  rfind c (a ++ l) i best = rfind c l (i + Z.of_nat (length a)) (rfind c a i best).
Proof.
  induction a as [|x a IH]; intros l i best; cbn [app rfind length].
  - f_equal. lia.
  - rewrite IH. f_equal. lia.
Qed.

Lemma rfind_notin c l : forall i best, ~ In c l -> rfind c l i best = best.
Proof.
  induction l as [|x l IH]; intros i best Hn; cbn [rfind]; [reflexivity|].
  rewrite IH by (intros H; apply Hn; now right).
  destruct (Z.eqb_spec x c); [|reflexivity]. exfalso. apply Hn. now left.
Qed.

Lemma rfind_sep c a r : ~ In c r -> rfind c (a ++ c :: r) 0 None = Some (Z.of_nat (length a)).
Proof.
  intros Hn. rewrite rfind_app. cbn [rfind]. rewrite Z.eqb_refl.
  rewrite rfind_notin by exact Hn. reflexivity.
Qed.

Lemma existsb_false_Forall {A} (f : A -> bool) l : Forall (fun x => f x = false) l -> existsb f l = false.
Proof. induction 1 as [|x l Hx _ IH]; cbn [existsb]; [reflexivity|now rewrite Hx, IH]. Qed.

Lemma map_id_Forall (f : Z -> Z) l : Forall (fun x => f x = x) l -> map f l = l.
Proof. induction 1 as [|x l Hx _ IH]; cbn [map]; [reflexivity|now rewrite Hx, IH]. Qed.

Lemma map_opt_find_charset dc : sym5 dc ->
  map_opt (fun x => find_char x bech32_charset) (map charset_char dc) = Some dc.
Proof.
  induction 1 as [|x l Hx _ IH]; cbn [map map_opt]; [reflexivity|].
  rewrite find_charset_char by exact Hx. rewrite IH. reflexivity.
Qed.

Definition char_ok (c : Z) : Prop := 33 <= c <= 126 /\ lower c = c.

Lemma decode_core hrp dc data spec :
  hrp_ok hrp -> sym5 dc -> length dc = (length data + 6)%nat -> firstn (length data) dc = data ->
  verify_checksum hrp dc = Some spec -> (length hrp + 1 + length dc <= 90)%nat ->
  bech32_decode (hrp ++ [49] ++ map charset_char dc) = Some (hrp, data, spec).
Proof.
  intros [Hlen Hh] Hdc Hl Hf Hv Hb.
  set (body := map charset_char dc).
  assert (Hbody : Forall (fun c => char_ok c /\ c <> 49) body).
  { unfold body. apply Forall_forall. intros c Hc. apply in_map_iff in Hc.
    destruct Hc as [d [<- Hd]]. unfold sym5 in Hdc. rewrite Forall_forall in Hdc.
    pose proof (charset_char_facts d (Hdc d Hd)). unfold char_ok. tauto. }
  assert (Hall : Forall char_ok (hrp ++ [49] ++ body)).
  { apply Forall_app; split; [|apply Forall_app; split].
    - eapply Forall_impl; [|exact Hh]. unfold char_ok. cbn beta. intros; tauto.
    - constructor; [|constructor]. unfold char_ok. split; [lia|reflexivity].
    - eapply Forall_impl; [|exact Hbody]. cbn beta. intros; tauto. }
  assert (Hn49 : ~ In 49 body).
  { intros Hin. rewrite Forall_forall in Hbody. destruct (Hbody _ Hin) as [_ H]. now apply H. }
  assert (Hblen : length body = length dc) by (unfold body; apply map_length).
  unfold bech32_decode.
  set (s := hrp ++ [49] ++ body) in *.
  assert (Hlow : map lower s = s).
  { apply map_id_Forall. eapply Forall_impl; [|exact Hall]. unfold char_ok. cbn beta. intros; tauto. }
  rewrite existsb_false_Forall.
  2:{ eapply Forall_impl; [|exact Hall]. unfold char_ok. cbn beta. intros a [Ha _].
      apply orb_false_iff. split; [apply Z.ltb_ge|apply Z.ltb_ge]; lia. }
  rewrite Hlow. unfold list_eqb. rewrite bytes_eqb_refl. cbn [negb andb].
  assert (Hslen : length s = (length hrp + 1 + length dc)%nat).
  { unfold s. rewrite !app_length. cbn [length]. lia. }
  unfold s at 1. cbn [app]. rewrite rfind_sep by exact Hn49.
  replace ((Z.of_nat (length hrp) <? 1) || (Z.of_nat (length s) <? Z.of_nat (length hrp) + 7)
           || (90 <? Z.of_nat (length s))) with false.
  2:{ symmetry. rewrite !orb_false_iff. repeat split; apply Z.ltb_ge; lia. }
  rewrite Nat2Z.id.
  replace (firstn (length hrp) s) with hrp by (unfold s; now rewrite firstn_app_exact).
  replace (skipn (length hrp + 1) s) with body.
  2:{ unfold s. rewrite app_assoc. symmetry. apply skipn_app_len. rewrite app_length. reflexivity. }
  unfold body. rewrite map_opt_find_charset by exact Hdc.
  rewrite Hv. rewrite Hl. replace (length data + 6 - 6)%nat with (length data) by lia.
  rewrite Hf. reflexivity.
Qed.

Theorem bech32_decode_encode hrp data spec : hrp_ok hrp -> sym5 data -> (length hrp + 1 + length data + 6 <= 90)%nat ->
  bech32_decode (bech32_encode hrp data spec) = Some (hrp, data, spec).
Proof.
  intros Hh Hd Hlen. unfold bech32_encode.
  destruct (create_checksum_sym5 hrp data spec) as [Hc5 Hc6].
  assert (Hv : verify_checksum hrp (data ++ create_checksum hrp data spec) = Some spec).
  { apply checksum_verifies; [|exact Hd]. destruct Hh as [_ Hh].
    eapply Forall_impl; [|exact Hh]. cbn beta. intros; lia. }
  generalize dependent (create_checksum hrp data spec). intros cs Hc5 Hc6 Hv.
  apply decode_core; try assumption.
  - apply Forall_app; split; assumption.
  - rewrite app_length. lia.
  - apply firstn_app_exact.
  - rewrite app_length. lia.
Qed.

(* ------------------------------------------------------------------ *)
(* 3. convertbits                                                      *)
(* ------------------------------------------------------------------ *)

Lemma mod_mod_pow2 a m n : 0 <= n <= m -> (a mod 2 ^ m) mod 2 ^ n = a mod 2 ^ n.
Proof.
  intros H. apply Z.bits_inj'; intros i Hi.
  rewrite !Z.testbit_mod_pow2 by lia.
  destruct (Z.ltb_spec i n), (Z.ltb_spec i m); try lia; cbn; reflexivity.
Qed.

Lemma div_mod_pow2 a W k t : 0 <= k -> 0 <= t -> k + t <= W ->
  ((a mod 2 ^ W) / 2 ^ k) mod 2 ^ t = (a / 2 ^ k) mod 2 ^ t.
Proof.
  intros Hk Ht HW. apply Z.bits_inj'; intros i Hi.
  rewrite !Z.testbit_mod_pow2 by lia.
  destruct (Z.ltb_spec i t); [|reflexivity]. cbn [andb].
  rewrite !Z.div_pow2_bits by lia. rewrite Z.testbit_mod_pow2 by lia.
  destruct (Z.ltb_spec (i + k) W); [reflexivity|lia].
Qed.

Lemma pow2_pos k : 0 <= k -> 0 < 2 ^ k.
Proof. intros. apply Z.pow_pos_nonneg; lia. Qed.

Lemma lor_shiftl_add a v k : 0 <= k -> 0 <= v < 2 ^ k -> Z.lor (Z.shiftl a k) v = a * 2 ^ k + v.
Proof.
  intros Hk Hv. rewrite <- Z.lxor_lor by (now apply land_shiftl_small).
  rewrite <- Z.add_nocarry_lxor by (now apply land_shiftl_small).
  now rewrite Z.shiftl_mul_pow2.
Qed.

Definition valw_from (w : Z) (l : list Z) (a : Z) : Z := fold_left (fun a x => a * 2 ^ w + x) l a.
Definition valw (w : Z) (l : list Z) : Z := valw_from w l 0.
Definition rangew (w : Z) (l : list Z) : Prop := Forall (fun v => 0 <= v < 2 ^ w) l.

Lemma valw_from_app w l1 l2 a : valw_from w (l1 ++ l2) a = valw_from w l2 (valw_from w l1 a).
Proof. unfold valw_from. apply fold_left_app. Qed.

Lemma valw_snoc w l x : valw w (l ++ [x]) = valw w l * 2 ^ w + x.
Proof. unfold valw. rewrite valw_from_app. reflexivity. Qed.

Lemma valw_from_nonneg w l : forall a, 0 <= w -> rangew w l -> 0 <= a -> 0 <= valw_from w l a.
Proof.
  induction l as [|x l IH]; intros a Hw Hl Ha; cbn [valw_from fold_left]; [exact Ha|].
  inversion Hl; subst. apply IH; try assumption.
  pose proof (pow2_pos w Hw). nia.
Qed.

Lemma valw_from_split w l : forall a, 0 <= w ->
  valw_from w l a = a * 2 ^ (w * Z.of_nat (length l)) + valw w l.
Proof.
  unfold valw.
  induction l as [|x l IH]; intros a Hw.
  - cbn [valw_from fold_left length]. change (Z.of_nat 0) with 0. rewrite Z.mul_0_r, Z.pow_0_r. lia.
  - cbn [valw_from fold_left length]. fold (valw_from w l (a * 2 ^ w + x)).
    fold (valw_from w l (0 * 2 ^ w + x)).
    rewrite (IH (a * 2 ^ w + x)), (IH (0 * 2 ^ w + x)) by lia.
    rewrite Nat2Z.inj_succ. replace (w * Z.succ (Z.of_nat (length l))) with (w + w * Z.of_nat (length l)) by lia.
    rewrite Z.pow_add_r by lia. ring.
Qed.

Lemma valw_cons w x l : 0 <= w -> valw w (x :: l) = x * 2 ^ (w * Z.of_nat (length l)) + valw w l.
Proof.
  intros Hw. unfold valw at 1. cbn [valw_from fold_left]. fold (valw_from w l (0 * 2 ^ w + x)).
  rewrite valw_from_split by lia. f_equal; lia.
Qed.

Lemma valw_bound w l : 0 <= w -> rangew w l -> 0 <= valw w l < 2 ^ (w * Z.of_nat (length l)).
Proof.
  intros Hw. induction 1 as [|x l Hx Hl IH].
  - cbn [length]. change (Z.of_nat 0) with 0. rewrite Z.mul_0_r, Z.pow_0_r. cbn. lia.
  - rewrite valw_cons by lia. cbn [length]. rewrite Nat2Z.inj_succ.
    replace (w * Z.succ (Z.of_nat (length l))) with (w + w * Z.of_nat (length l)) by lia.
    rewrite Z.pow_add_r by lia.
    pose proof (pow2_pos (w * Z.of_nat (length l)) ltac:(lia)). nia.
Qed.

Lemma valw_inj w l : forall l', 0 <= w -> rangew w l -> rangew w l' -> length l = length l' ->
  valw w l = valw w l' -> l = l'.
Proof.
  induction l as [|x l IH]; intros [|x' l'] Hw Hl Hl' Hlen Hv; try discriminate; [reflexivity|].
  inversion Hl; subst. inversion Hl'; subst. cbn [length] in Hlen. injection Hlen as Hlen.
  rewrite !valw_cons in Hv by lia. rewrite <- Hlen in Hv.
  pose proof (valw_bound w l Hw H2). pose proof (valw_bound w l' Hw H4). rewrite <- Hlen in H0.
  set (M := 2 ^ (w * Z.of_nat (length l))) in *.
  assert (x = x') by nia. subst x'. f_equal. apply IH; try assumption. lia.
Qed.

Section ConvertBits.
  Variables (from to : Z).
  Hypothesis Hfrom : 0 < from.
  Hypothesis Hto : 0 < to.
  Let W := from + to - 1.
  Hypothesis Hfuel : W < to * 16.

  Lemma emit_digit N' b : 0 <= N' -> to <= b <= W ->
    Z.land (Z.shiftr (N' mod 2 ^ W) (b - to)) (Z.ones to) = (N' / 2 ^ (b - to)) mod 2 ^ to.
  Proof.
    intros HN Hb. rewrite Z.land_ones, Z.shiftr_div_pow2 by lia.
    apply div_mod_pow2; lia.
  Qed.

  Lemma cb_emit_spec N' : 0 <= N' ->
    forall fuel b out, 0 <= b <= W -> b < to * Z.of_nat fuel -> rangew to out ->
      valw to out = N' / 2 ^ b ->
      exists out', cb_emit fuel (N' mod 2 ^ W) b to (Z.ones to) out = (b mod to, out') /\
        rangew to out' /\ valw to out' = N' / 2 ^ (b mod to) /\
        Z.of_nat (length out') = Z.of_nat (length out) + b / to.
  Proof.
    intros HN. induction fuel as [|f IH]; intros b out Hb Hfu Hr Hv.
    - exfalso. change (Z.of_nat 0) with 0 in Hfu. lia.
    - cbn [cb_emit]. destruct (Z.leb_spec to b) as [Hle|Hlt].
      + rewrite emit_digit by lia.
        assert (E1 : b mod to = (b - to) mod to).
        { replace b with ((b - to) + 1 * to) at 1 by lia. apply Z_mod_plus_full. }
        assert (E2 : b / to = (b - to) / to + 1).
        { replace b with ((b - to) + 1 * to) at 1 by lia. apply Z_div_plus_full. lia. }
        destruct (IH (b - to) (out ++ [(N' / 2 ^ (b - to)) mod 2 ^ to])) as [out' [H1 [H2 [H3 H4]]]].
        * lia.
        * rewrite Nat2Z.inj_succ in Hfu. lia.
        * apply Forall_app. split; [exact Hr|]. constructor; [|constructor].
          apply Z.mod_pos_bound. apply pow2_pos. lia.
        * rewrite valw_snoc, Hv.
          replace b with ((b - to) + to) at 1 by lia. rewrite Z.pow_add_r by lia.
          rewrite <- Z.div_div by (try apply pow2_pos; lia).
          pose proof (pow2_pos to ltac:(lia)).
          pose proof (Z.div_mod (N' / 2 ^ (b - to)) (2 ^ to) ltac:(lia)). lia.
        * exists out'. rewrite E1, E2. repeat split; try assumption.
          rewrite H4, app_length. cbn [length]. lia.
      + exists out. rewrite (Z.mod_small b to), (Z.div_small b to) by lia. repeat split; try assumption. lia.
  Qed.

  Lemma cb_loop_spec : forall data N bits out,
    rangew from data -> 0 <= N -> 0 <= bits < to -> rangew to out -> valw to out = N / 2 ^ bits ->
    exists bits' out',
      let N' := valw_from from data N in
      cb_loop data (N mod 2 ^ W) bits from to (Z.ones to) (Z.ones W) out = Some (N' mod 2 ^ W, bits', out') /\
      0 <= N' /\ 0 <= bits' < to /\ rangew to out' /\ valw to out' = N' / 2 ^ bits' /\
      to * Z.of_nat (length out') + bits' = to * Z.of_nat (length out) + bits + from * Z.of_nat (length data).
  Proof.
    induction data as [|v r IH]; intros N bits out Hd HN Hb Hr Hv.
    - exists bits, out. cbn [cb_loop valw_from fold_left length]. repeat split; try assumption; lia.
    - inversion Hd as [|? ? Hv0 Hr0]; subst.
      cbn [cb_loop].
      replace ((v <? 0) || negb (Z.shiftr v from =? 0)) with false.
      2:{ symmetry. apply orb_false_iff. split; [apply Z.ltb_ge; lia|].
          rewrite Z.shiftr_div_pow2, Z.div_small by lia. reflexivity. }
      set (N' := N * 2 ^ from + v).
      pose proof (pow2_pos from ltac:(lia)) as Hpf.
      assert (HN' : 0 <= N') by (unfold N'; nia).
      assert (Eacc : Z.land (Z.lor (Z.shiftl (N mod 2 ^ W) from) v) (Z.ones W) = N' mod 2 ^ W).
      { rewrite lor_shiftl_add by lia. rewrite Z.land_ones by (unfold W; lia).
        unfold N'. rewrite Z.add_mod, Z.mul_mod_idemp_l, <- Z.add_mod; try reflexivity;
          apply Z.neq_sym, Z.lt_neq, pow2_pos; unfold W; lia. }
      rewrite Eacc.
      destruct (cb_emit_spec N' HN' 16 (bits + from) out) as [out1 [H1 [H2 [H3 H4]]]].
      + unfold W. lia.
      + change (Z.of_nat 16) with 16. fold W in Hfuel. unfold W in *. lia.
      + exact Hr.
      + rewrite Hv. rewrite Z.pow_add_r by lia. rewrite Z.mul_comm, <- Z.div_div by (try apply pow2_pos; lia).
        f_equal. unfold N'. rewrite Z.div_add_l by lia. rewrite (Z.div_small v) by lia. lia.
      + rewrite H1.
        assert (Hb1 : 0 <= (bits + from) mod to < to) by (apply Z.mod_pos_bound; lia).
        destruct (IH N' ((bits + from) mod to) out1 Hr0 HN' Hb1 H2 H3) as [bits' [out' IH']].
        cbv zeta in IH'. destruct IH' as [I1 [I2 [I3 [I4 [I5 I6]]]]].
        exists bits', out'. cbv zeta. cbn [valw_from fold_left length]. fold N'.
        fold (valw_from from r N').
        split; [exact I1|]. split; [exact I2|]. split; [exact I3|]. split; [exact I4|].
        split; [exact I5|].
        rewrite I6, Nat2Z.inj_succ, Z.mul_succ_r.
        pose proof (Z.div_mod (bits + from) to ltac:(lia)) as Hdm.
        rewrite H4, Z.mul_add_distr_l.
        remember ((bits + from) / to) as q eqn:Eq. remember ((bits + from) mod to) as m eqn:Em.
        remember (to * q) as tq eqn:Etq.
        remember (to * Z.of_nat (length out)) as A eqn:EA.
        remember (from * Z.of_nat (length r)) as B eqn:EB.
        clear -Hdm. lia.
  Qed.
End ConvertBits.

Lemma pad_digit N' W to b : 0 <= b < to -> b <= W ->
  Z.land (Z.shiftl (N' mod 2 ^ W) (to - b)) (Z.ones to) = (N' mod 2 ^ b) * 2 ^ (to - b).
Proof.
  intros Hb HW. rewrite Z.land_ones, Z.shiftl_mul_pow2 by lia.
  replace to with (b + (to - b)) at 2 by lia. rewrite Z.pow_add_r by lia.
  rewrite Zmult_mod_distr_r. rewrite mod_mod_pow2 by lia. reflexivity.
Qed.

Lemma wf_bytes_rangew d : wf_bytes d <-> rangew 8 d.
Proof. unfold wf_bytes, rangew. change (2 ^ 8) with 256. tauto. Qed.

Lemma sym5_rangew d : sym5 d <-> rangew 5 d.
Proof. unfold sym5, rangew. change (2 ^ 5) with 32. tauto. Qed.

Lemma convertbits_8_5 d : wf_bytes d ->
  exists d5 pad, convertbits d 8 5 true = Some d5 /\ sym5 d5 /\ 0 <= pad < 5 /\
    5 * Z.of_nat (length d5) = 8 * Z.of_nat (length d) + pad /\ valw 5 d5 = valw 8 d * 2 ^ pad.
Proof.
  intros Hd. apply wf_bytes_rangew in Hd.
  destruct (cb_loop_spec 8 5 ltac:(lia) ltac:(lia) ltac:(lia) d 0 0 [] Hd ltac:(lia) ltac:(lia))
    as [bits' [out' H]]; [constructor|reflexivity|].
  cbv zeta in H. fold (valw 8 d) in H. destruct H as [H1 [H2 [H3 [H4 [H5 H6]]]]].
  set (N := valw 8 d) in *.
  assert (E : cb_loop d 0 0 8 5 (Z.shiftl 1 5 - 1) (Z.shiftl 1 (8 + 5 - 1) - 1) [] =
              Some (N mod 2 ^ (8 + 5 - 1), bits', out')) by exact H1.
  unfold convertbits. rewrite E. clear E H1.
  change (Z.shiftl 1 5 - 1) with (Z.ones 5).
  change (Z.of_nat (length [])) with 0 in H6.
  destruct (Z.eqb_spec bits' 0) as [E0|E0].
  - exists out', 0. subst bits'. rewrite Z.pow_0_r, Z.div_1_r in H5. rewrite Z.pow_0_r.
    repeat split; try lia. now apply sym5_rangew.
  - exists (out' ++ [Z.land (Z.shiftl (N mod 2 ^ (8 + 5 - 1)) (5 - bits')) (Z.ones 5)]), (5 - bits').
    rewrite pad_digit by lia.
    pose proof (pow2_pos bits' ltac:(lia)) as Hp1. pose proof (pow2_pos (5 - bits') ltac:(lia)) as Hp2.
    pose proof (Z.mod_pos_bound N (2 ^ bits') Hp1) as Hm.
    assert (Hpp : 2 ^ bits' * 2 ^ (5 - bits') = 2 ^ 5) by (rewrite <- Z.pow_add_r by lia; f_equal; lia).
    split; [reflexivity|]. split; [|split; [lia|split]].
    + apply sym5_rangew. apply Forall_app. split; [exact H4|]. constructor; [|constructor]. nia.
    + rewrite app_length, Nat2Z.inj_add. cbn [length]. lia.
    + rewrite valw_snoc, H5. pose proof (Z.div_mod N (2 ^ bits') ltac:(lia)). rewrite <- Hpp. nia.
Qed.

Lemma convertbits_5_8 d5 n pad N : sym5 d5 -> 5 * Z.of_nat (length d5) = 8 * n + pad -> 0 <= pad < 5 ->
  valw 5 d5 = N * 2 ^ pad ->
  exists out, convertbits d5 5 8 false = Some out /\ wf_bytes out /\ Z.of_nat (length out) = n /\ valw 8 out = N.
Proof.
  intros Hd Hlen Hpad Hv. apply sym5_rangew in Hd.
  destruct (cb_loop_spec 5 8 ltac:(lia) ltac:(lia) ltac:(lia) d5 0 0 [] Hd ltac:(lia) ltac:(lia))
    as [bits' [out' H]]; [constructor|reflexivity|].
  cbv zeta in H. fold (valw 5 d5) in H. destruct H as [H1 [H2 [H3 [H4 [H5 H6]]]]].
  rewrite Hv in *.
  assert (E : cb_loop d5 0 0 5 8 (Z.shiftl 1 8 - 1) (Z.shiftl 1 (5 + 8 - 1) - 1) [] =
              Some ((N * 2 ^ pad) mod 2 ^ (5 + 8 - 1), bits', out')) by exact H1.
  unfold convertbits. rewrite E. clear E H1.
  change (Z.shiftl 1 8 - 1) with (Z.ones 8).
  change (Z.of_nat (length [])) with 0 in H6.
  assert (bits' = pad) by lia. subst bits'.
  rewrite pad_digit by lia. rewrite Z.mod_mul by (apply Z.neq_sym, Z.lt_neq, pow2_pos; lia).
  replace (5 <=? pad) with false by (symmetry; apply Z.leb_gt; lia).
  cbn [orb negb Z.mul Z.eqb].
  exists out'. split; [reflexivity|]. split; [now apply wf_bytes_rangew|]. split; [lia|].
  rewrite H5. apply Z.div_mul. apply Z.neq_sym, Z.lt_neq, pow2_pos; lia.
Qed.

Theorem convertbits_roundtrip d : wf_bytes d ->
  exists d5, convertbits d 8 5 true = Some d5 /\ sym5 d5 /\ convertbits d5 5 8 false = Some d /\
             Z.of_nat (length d5) = (8 * Z.of_nat (length d) + 4) / 5.
Proof.
  intros Hd. destruct (convertbits_8_5 d Hd) as [d5 [pad [H1 [H2 [H3 [H4 H5]]]]]].
  exists d5. split; [exact H1|]. split; [exact H2|]. split; [|lia].
  destruct (convertbits_5_8 d5 (Z.of_nat (length d)) pad (valw 8 d) H2 H4 H3 H5) as [out [G1 [G2 [G3 G4]]]].
  rewrite G1. f_equal. apply (valw_inj 8); try lia.
  - now apply wf_bytes_rangew.
  - now apply wf_bytes_rangew.
Qed.

(* ------------------------------------------------------------------ *)
(* 6. segwit addresses                                                 *)
(* ------------------------------------------------------------------ *)

Lemma segwit_decode_encode hrp v prog d5 :
  hrp_ok hrp -> (length hrp <= 4)%nat -> wf_bytes prog ->
  (v = 0 /\ (length prog = 20%nat \/ length prog = 32%nat)) \/ (1 <= v <= 16 /\ (2 <= length prog <= 40)%nat) ->
  convertbits prog 8 5 true = Some d5 -> sym5 d5 -> convertbits d5 5 8 false = Some prog ->
  Z.of_nat (length d5) = (8 * Z.of_nat (length prog) + 4) / 5 ->
  segwit_decode hrp (bech32_encode hrp (v :: d5) (if v =? 0 then BECH32 else BECH32M)) = Some (v, prog).
Proof.
  intros Hh Hl Hp Hv H1 H2 H3 H4.
  unfold segwit_decode.
  rewrite bech32_decode_encode.
  - unfold list_eqb. rewrite bytes_eqb_refl. cbn [negb tl]. rewrite H3.
    destruct Hv as [[-> Hn]|[Hv Hn]].
    + replace ((Z.of_nat (length prog) <? 2) || (40 <? Z.of_nat (length prog))) with false
        by (symmetry; apply orb_false_iff; split; apply Z.ltb_ge; lia).
      cbn [Z.ltb Z.compare Z.eqb andb negb orb encoding_eqb].
      replace (negb (Z.of_nat (length prog) =? 20) && negb (Z.of_nat (length prog) =? 32)) with false.
      2:{ symmetry. destruct Hn as [-> | ->]; reflexivity. }
      reflexivity.
    + replace ((Z.of_nat (length prog) <? 2) || (40 <? Z.of_nat (length prog))) with false
        by (symmetry; apply orb_false_iff; split; apply Z.ltb_ge; lia).
      replace (16 <? v) with false by (symmetry; apply Z.ltb_ge; lia).
      replace (v =? 0) with false by (symmetry; apply Z.eqb_neq; lia).
      cbn [andb negb orb encoding_eqb]. reflexivity.
  - exact Hh.
  - constructor; [lia|exact H2].
  - cbn [length]. destruct Hv as [[_ Hn]|[_ Hn]]; lia.
Qed.

Theorem segwit_roundtrip hrp v prog : hrp_ok hrp -> (length hrp <= 4)%nat -> wf_bytes prog ->
  (v = 0 /\ (length prog = 20%nat \/ length prog = 32%nat)) \/ (1 <= v <= 16 /\ (2 <= length prog <= 40)%nat) ->
  exists s, segwit_encode hrp v prog = Some s /\ segwit_decode hrp s = Some (v, prog).
Proof.
  intros Hh Hl Hp Hv.
  destruct (convertbits_roundtrip prog Hp) as [d5 [H1 [H2 [H3 H4]]]].
  pose proof (segwit_decode_encode hrp v prog d5 Hh Hl Hp Hv H1 H2 H3 H4) as Hdec.
  exists (bech32_encode hrp (v :: d5) (if v =? 0 then BECH32 else BECH32M)).
  split; [|exact Hdec].
  unfold segwit_encode. rewrite H1. rewrite Hdec. reflexivity.
Qed.
