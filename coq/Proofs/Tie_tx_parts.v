(* Source tie for TxOutput.to_bytes and TxInput.to_bytes: the functions as translated from the current source
   (Gen/Src.v) equal the model (a Script's own serialisation is taken from the model, tied by C02). *)
From Coq Require Import String ZArith List Bool Lia ZifyBool.
From BU Require Import Lib.Bytes Lib.BytesFacts Lib.PySem Gen.Tables Gen.Src Model.Varint Model.Script Model.Seq Model.Tx
  Proofs.ScriptNumFacts Proofs.TieLib Proofs.Tie_encode_varint Proofs.Tie_prepend_compact_size.
Import ListNotations.
Open Scope list_scope.
Open Scope Z_scope.

Lemma pack_signed_8 x : py_pack_le_signed 8 x = pack_i64 x.
Proof. unfold py_pack_le_signed, pack_i64. eval_closed. reflexivity. Qed.

Lemma pack_le_4 x : py_pack_le 4 x = pack_u32 x.
Proof. unfold py_pack_le, pack_u32. eval_closed. reflexivity. Qed.

#[global] Hint Rewrite pack_signed_8 pack_le_4 : tie.

Lemma src_txout_to_bytes_eq : forall a s,
  src_txout_to_bytes a s = of_option (txout_to_bytes {| to_amount := a; to_script := s |}).
Proof.
  intros. unfold src_txout_to_bytes, txout_to_bytes, obind. cbn [to_amount to_script].
  autorewrite with tie. tie_pipe.
Qed.

Lemma src_txin_to_bytes_eq : forall t v s q,
  src_txin_to_bytes t v s q = of_option (txin_to_bytes {| ti_txid := t; ti_vout := v; ti_script := s; ti_seq := q |}).
Proof.
  intros. unfold src_txin_to_bytes, txin_to_bytes, txin_script_bytes, is_null_txid, null_txid, py_bytes_eq, obind.
  cbn [ti_txid ti_vout ti_script ti_seq].
  autorewrite with tie. tie_pipe.
Qed.
