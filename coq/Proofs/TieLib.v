(* Shared lemmas of the source tie: the functions that harness/gen_src.py translates from /repo's current source files
   (Gen/Src.v, regenerated on every run) are equal to the hand-written model on every input.
   The proofs are written to survive harmless rewrites of the source (reordered or rephrased comparisons,
   renamed locals): they unfold, split on every test and finish with lia / computation. *)
From Coq Require Import String ZArith List Bool Lia ZifyBool.
From BU Require Import Lib.Bytes Lib.BytesFacts Lib.PySem Gen.Tables Model.Varint Model.Script Model.Seq Model.Tx
  Proofs.ScriptNumFacts.
Import ListNotations.
Open Scope list_scope.
Open Scope Z_scope.

Ltac split_ifs :=
  repeat match goal with
         | |- context [if ?c then _ else _] =>
             lazymatch type of c with bool => idtac end;
             let E := fresh "E" in destruct c eqn:E; cbv beta iota zeta
         end.

(* ---------- a decision tactic for the loop-free integer/bytes fragment ----------
   Both sides are unfolded down to comparisons, list constructors and div/mod; closed arithmetic (2 ^ (8 * 4),
   Z.to_nat 2, ...) is computed; every test is split; the leaves are closed by reflexivity, by lia (with the
   Euclidean-division hook) or by comparing byte lists element by element.  Rephrased comparisons, swapped
   operands, to_bytes(1) for bytes([x]), struct.pack for to_bytes, renamed or extra locals all end in the same
   normal form, so a harmless rewrite of a translated function keeps its tie theorem. *)
Ltac is_pos_num p := lazymatch p with xH => idtac | xO ?q => is_pos_num q | xI ?q => is_pos_num q end.
Ltac is_Z_num z := lazymatch z with Z0 => idtac | Zpos ?p => is_pos_num p | Zneg ?p => is_pos_num p end.
Ltac is_nat_num n := lazymatch n with O => idtac | S ?m => is_nat_num m end.
Ltac is_bool_val b := lazymatch b with true => idtac | false => idtac end.
Ltac eval_closed_step :=
  match goal with
  | |- context [Z.pow ?a ?b] => let v := eval vm_compute in (Z.pow a b) in is_Z_num v; progress change (Z.pow a b) with v
  | |- context [Z.mul ?a ?b] => is_Z_num a; is_Z_num b; let v := eval vm_compute in (Z.mul a b) in change (Z.mul a b) with v
  | |- context [Z.add ?a ?b] => is_Z_num a; is_Z_num b; let v := eval vm_compute in (Z.add a b) in change (Z.add a b) with v
  | |- context [Z.sub ?a ?b] => is_Z_num a; is_Z_num b; let v := eval vm_compute in (Z.sub a b) in change (Z.sub a b) with v
  | |- context [Z.shiftl ?a ?b] => is_Z_num a; is_Z_num b; let v := eval vm_compute in (Z.shiftl a b) in change (Z.shiftl a b) with v
  | |- context [Z.lor ?a ?b] => is_Z_num a; is_Z_num b; let v := eval vm_compute in (Z.lor a b) in change (Z.lor a b) with v
  | |- context [Z.land ?a ?b] => is_Z_num a; is_Z_num b; let v := eval vm_compute in (Z.land a b) in change (Z.land a b) with v
  | |- context [Z.of_nat ?a] => is_nat_num a; let v := eval vm_compute in (Z.of_nat a) in change (Z.of_nat a) with v
  | |- context [Z.to_nat ?a] => is_Z_num a; let v := eval vm_compute in (Z.to_nat a) in change (Z.to_nat a) with v
  | |- context [Z.ltb ?a ?b] => is_Z_num a; is_Z_num b; let v := eval vm_compute in (Z.ltb a b) in change (Z.ltb a b) with v
  | |- context [Z.leb ?a ?b] => is_Z_num a; is_Z_num b; let v := eval vm_compute in (Z.leb a b) in change (Z.leb a b) with v
  | |- context [Z.eqb ?a ?b] => is_Z_num a; is_Z_num b; let v := eval vm_compute in (Z.eqb a b) in change (Z.eqb a b) with v
  | |- context [andb ?a ?b] => is_bool_val a; let v := eval cbv beta iota delta [andb] in (andb a b) in change (andb a b) with v
  | |- context [orb ?a ?b] => is_bool_val a; let v := eval cbv beta iota delta [orb] in (orb a b) in change (orb a b) with v
  | |- context [negb ?a] => is_bool_val a; let v := eval cbv beta iota delta [negb] in (negb a) in change (negb a) with v
  | |- context [if true then ?x else _] => change (if true then x else _) with x
  end.
Ltac eval_closed := repeat eval_closed_step; cbv beta iota zeta.
(* x | CONST  ->  CONST | x  (one canonical operand order for the bit-or of a flag) *)
Ltac is_not_Z_num z := tryif is_Z_num z then fail else idtac.
Ltac norm_lor :=
  repeat match goal with
         | |- context [Z.lor ?a ?b] => is_Z_num b; is_not_Z_num a; rewrite (Z.lor_comm a b)
         end.

Ltac Zify.zify_post_hook ::= Z.to_euclidean_division_equations.

Ltac bytes_eq := try congruence; repeat (f_equal; try lia; try congruence); try reflexivity; try lia; try congruence.
Ltac tie_leaf :=
  first [ reflexivity | discriminate | lia
        | (cbn [app]; rewrite <- ?app_assoc; cbn [app]; bytes_eq) ].
Ltac tie_auto :=
  unfold py_bytes1, py_to_bytes_le, py_pack_le, py_lshift, py_rshift, py_floordiv, py_mod, py_truthy_int, of_option;
  rewrite ?Z.gtb_ltb, ?Z.geb_leb;
  eval_closed; rewrite ?Z.lor_0_l, ?Z.lor_0_r; norm_lor; cbn [le_bytes]; eval_closed;
  split_ifs; cbv beta iota zeta; tie_leaf.

(* ---------- primitives in the terms the model uses ---------- *)

Lemma pow_8_2 : 2 ^ (8 * 2) = 65536. Proof. reflexivity. Qed.
Lemma pow_8_4 : 2 ^ (8 * 4) = 4294967296. Proof. reflexivity. Qed.
Lemma pow_8_8 : 2 ^ (8 * 8) = 18446744073709551616. Proof. reflexivity. Qed.

Lemma to_bytes_le_lit x (k : nat) (kz : Z) : kz = Z.of_nat k ->
  py_to_bytes_le x kz = if (0 <=? x) && (x <? 2 ^ (8 * kz)) then Some (le_bytes k x) else None.
Proof.
  intros ->. unfold py_to_bytes_le. rewrite Nat2Z.id.
  destruct (0 <=? Z.of_nat k) eqn:E; [reflexivity|lia].
Qed.

Lemma py_slice_tail (b : Z) (t : bytes) (k : Z) : 0 <= k ->
  py_slice (b :: t) 1 (1 + k) = firstn (Z.to_nat k) t.
Proof.
  intros Hk. unfold py_slice, py_norm.
  set (n := Z.of_nat (length (b :: t))).
  assert (Hn : n = Z.of_nat (length t) + 1) by (unfold n; cbn [length]; lia).
  destruct (1 <? 0) eqn:E1; [lia|]. destruct (1 + k <? 0) eqn:E2; [lia|].
  replace (Z.to_nat (Z.min 1 n)) with 1%nat by lia.
  cbn [skipn].
  destruct (Z.le_gt_cases (1 + k) n) as [Hle|Hgt].
  - replace (Z.min (1 + k) n - Z.min 1 n) with k by lia. reflexivity.
  - replace (Z.min (1 + k) n - Z.min 1 n) with (Z.of_nat (length t)) by lia.
    rewrite Nat2Z.id. rewrite firstn_all. symmetry. apply firstn_all2. lia.
Qed.

Lemma py_slice_tail' (b : Z) (t : bytes) (hi : Z) : 1 <= hi ->
  py_slice (b :: t) 1 hi = firstn (Z.to_nat (hi - 1)) t.
Proof. intros H. replace hi with (1 + (hi - 1)) at 1 by lia. apply py_slice_tail. lia. Qed.

Ltac eval_to_nat :=
  repeat match goal with
         | |- context [Z.to_nat ?e] => let v := eval vm_compute in (Z.to_nat e) in progress change (Z.to_nat e) with v
         end.

Lemma py_index_0 (d : bytes) : py_index d 0 = match d with [] => None | b :: _ => Some b end.
Proof.
  unfold py_index. destruct d as [|b t]; cbn [length nth]; [reflexivity|].
  destruct ((0 <=? 0) && (0 <? Z.of_nat (S (length t)))) eqn:E; [reflexivity|lia].
Qed.

Lemma unpack_eq (k : nat) (t : bytes) :
  py_unpack_le k (firstn k t) = unpack_le k t.
Proof. reflexivity. Qed.

Definition pairZ (o : option (Z * nat)) : option (Z * Z) := option_map (fun p => (fst p, Z.of_nat (snd p))) o.

Lemma bit_length_bytes n : 0 < n -> (py_bit_length n + 7) / 8 = Z.of_nat (nbytes n).
Proof.
  intros Hn. unfold py_bit_length. destruct (n =? 0) eqn:E; [lia|].
  rewrite (nbytes_pos_eq n Hn). rewrite Z.abs_eq by lia.
  rewrite Z2Nat.id. - f_equal. lia.
  - apply Z.div_pos; [|lia]. pose proof (Z.log2_nonneg n). lia.
Qed.

Lemma to_bytes4_eq x : py_to_bytes_le x 4 = to_bytes4 x.
Proof. reflexivity. Qed.

(* ---------- decoders of a CompactSize: case analysis on the first byte ----------
   After the first byte is fixed (below 253, or one of 253 / 254 / 255) everything but the tail is closed, so the
   two sides are normalised by computation; the form of the source (if-chain, table of sizes, shift) is irrelevant. *)
Ltac decode_norm :=
  unfold py_lshift, py_rshift, py_floordiv, py_mod, py_from_bytes_le, py_from_bytes_be, be_val, py_unpack_le, unpack_le,
         pairZ, option_map, of_option;
  cbv beta iota zeta; eval_closed;
  rewrite ?py_slice_tail' by lia; eval_closed;
  rewrite ?rev_involutive; cbn [fst snd]; eval_closed.
Ltac decode_first_byte b Hb :=
  let H := fresh "H" in
  destruct (Z_lt_le_dec b 253) as [H|H];
  [ decode_norm; split_ifs; try reflexivity; try lia
  | let H3 := fresh "H3" in
    assert (H3 : b = 253 \/ b = 254 \/ b = 255) by lia;
    destruct H3 as [H3|[H3|H3]]; subst b; decode_norm;
    repeat match goal with
           | |- context [if ?c then _ else _] =>
               lazymatch type of c with bool => idtac end; destruct c; cbv beta iota zeta
           end; reflexivity ].

(* ---------- pipelines in the option monad ----------
   Functions that only chain partial operations (pack, Script.to_bytes, a CompactSize prefix, concatenation): after
   the callee ties have been rewritten (database `tie`) both sides are matches over the same atomic option-valued
   terms; destruct them innermost first, then compare the concatenations up to associativity. *)
Ltac pipe_step :=
  cbv beta iota zeta;
  match goal with
  | |- context [match ?o with Some _ => _ | None => _ end] =>
      lazymatch o with
      | context [match _ with _ => _ end] => fail
      | context [if _ then _ else _] => fail
      | _ => let E := fresh "E" in destruct o eqn:E
      end
  | |- context [if ?b then _ else _] =>
      lazymatch type of b with bool => idtac end;
      lazymatch b with
      | context [match _ with _ => _ end] => fail
      | _ => let E := fresh "E" in destruct b eqn:E
      end
  end.
Ltac reuse_eqns :=
  repeat match goal with
         | H : ?o = Some _ |- context [?o] => rewrite H
         | H : ?o = None |- context [?o] => rewrite H
         | H : ?o = true |- context [?o] => rewrite H
         | H : ?o = false |- context [?o] => rewrite H
         end.
Ltac tie_pipe :=
  repeat (autorewrite with tie; unfold prepend_compact_size; unfold of_option, option_map; reuse_eqns; pipe_step);
  autorewrite with tie; unfold prepend_compact_size; unfold of_option, option_map; reuse_eqns; cbv beta iota zeta;
  try reflexivity; try discriminate; try congruence;
  rewrite <- ?app_assoc; cbn [app]; rewrite <- ?app_assoc; try reflexivity; bytes_eq.

(* when the translator could not read a function, Gen/Src.v defines src_f by the model's function; the tie of f is
   then dropped from the cone for that run, and its proof script must fail at once rather than chew on the model term *)
Ltac not_fallback f :=
  lazymatch goal with
  | |- ?lhs = _ => lazymatch lhs with context [f] => fail 1 "this function fell back to the model" | _ => idtac end
  end.

(* ---------- loops ---------- *)
(* a loop that appends g x for every element is concat_opt, whatever the loop body looks like as long as it
   computes "state ++ g x, or raise" *)
Lemma py_for_acc {A} (g : A -> res bytes) (f : A -> option bytes) :
  (forall x, g x = of_option (f x)) ->
  forall (body : A -> bytes -> res bytes),
  (forall x st, body x st = match g x with Ok b => Ok (st ++ b) | _ => Raise end) ->
  forall l acc, py_for l acc body = match concat_opt f l with Some b => Ok (acc ++ b) | None => Raise end.
Proof.
  intros Hg body Hb l. induction l as [|x r IH]; intros acc; cbn [py_for concat_opt].
  - rewrite app_nil_r. reflexivity.
  - rewrite Hb, Hg. destruct (f x) as [a|]; cbn [of_option]; [|reflexivity].
    rewrite IH. destruct (concat_opt f r) as [b|]; [|reflexivity]. rewrite <- app_assoc. reflexivity.
Qed.

Ltac body_ok :=
  intros; cbv beta iota zeta;
  repeat match goal with
         | |- context [match ?r with Ok _ => _ | RetNone => _ | Raise => _ end] =>
             lazymatch r with context [match _ with _ => _ end] => fail | _ => destruct r end
         end;
  rewrite <- ?app_assoc; reflexivity.

