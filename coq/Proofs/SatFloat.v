(* Exactness of the Python expression  int(round(num * 100000000))
   when [num] is the IEEE-754 binary64 value nearest to k / 10^8.

   Model: binary64 round-to-nearest-even is Flocq's generic rounding in the
   format FLT_exp (-1074) 53 (unbounded exponent above: no overflow can occur
   for the magnitudes considered, all values are below 2^52).
   Python's [round(float)] returns the exact round-half-even integer of the
   real value of the float, and [int] of an integral float is exact. *)

From Coq Require Import ZArith Reals Lia Lra.
From Flocq Require Import Core Relative.
Open Scope R_scope.

Definition fmt := FLT_exp (-1074) 53.
Definition rnd64 (x : R) : R := round radix2 fmt ZnearestE x.
Definition py_round (x : R) : Z := ZnearestE x.
Definition to_satoshis_float (k : Z) : Z :=
  py_round (rnd64 (rnd64 (IZR k / 100000000) * 100000000)).

(* unit roundoff 2^-53 *)
Definition u64 : R := / 9007199254740992.

Lemma u64_bpow : / 2 * bpow radix2 (- (53) + 1) = u64.
Proof.
  unfold u64.
  replace (- (53) + 1)%Z with (- (52))%Z by lia.
  rewrite bpow_opp.
  replace (bpow radix2 52) with 4503599627370496.
  - field.
  - change 52%Z with (Z.pos 52). simpl. reflexivity.
Qed.

Lemma tiny_le : bpow radix2 (-1074 + 53 - 1) <= / 134217728.
Proof.
  apply Rle_trans with (bpow radix2 (- (27))).
  - apply bpow_le. lia.
  - rewrite bpow_opp. right. f_equal.
Qed.

(* Relative error of one binary64 rounding, for arguments in the normal range. *)
Lemma rnd64_rel x :
  / 134217728 <= Rabs x ->
  exists e, Rabs e <= u64 /\ rnd64 x = x * (1 + e).
Proof.
  intros Hx.
  destruct (relative_error_N_FLT_ex radix2 (-1074) 53 ltac:(lia)
              (fun n => negb (Z.even n)) x) as [e [He Hr]].
  - apply Rle_trans with (2 := Hx). apply tiny_le.
  - exists e. split.
    + rewrite <- u64_bpow. exact He.
    + exact Hr.
Qed.

Lemma py_round_int n : py_round (IZR n) = n.
Proof.
  unfold py_round. apply Znearest_imp.
  replace (IZR n - IZR n) with 0 by ring.
  rewrite Rabs_R0. lra.
Qed.

Lemma rnd64_0 : rnd64 0 = 0.
Proof. unfold rnd64. apply round_0. apply valid_rnd_N. Qed.

Lemma sat_float_zero : to_satoshis_float 0 = 0%Z.
Proof.
  unfold to_satoshis_float.
  replace (IZR 0 / 100000000) with 0 by (unfold Rdiv; ring).
  rewrite rnd64_0.
  replace (0 * 100000000) with 0 by ring.
  rewrite rnd64_0.
  apply (py_round_int 0).
Qed.

(* Core step: rounding k * (1 + d) and then rounding to an integer gives k,
   provided the accumulated relative error times k stays below 1/2. *)
Lemma round_back k d D :
  (1 <= k)%Z ->
  Rabs d <= D -> D <= / 4 ->
  IZR k * (D + u64 + D * u64) < / 2 ->
  py_round (rnd64 (IZR k * (1 + d))) = k.
Proof.
  intros Hk Hd HD Hb.
  assert (Hk1 : 1 <= IZR k) by (apply IZR_le in Hk; exact Hk).
  assert (HD0 : 0 <= D) by (apply Rle_trans with (2 := Hd); apply Rabs_pos).
  assert (Hu : 0 < u64) by (unfold u64; lra).
  destruct (rnd64_rel (IZR k * (1 + d))) as [e [He Hr]].
  { assert (Hd' : Rabs d <= / 4) by lra. apply Rabs_le_inv in Hd'.
    assert (H1 : / 2 <= 1 + d) by lra.
    rewrite Rabs_pos_eq.
    - apply Rle_trans with (/ 2); [lra|].
      apply Rle_trans with (1 * (1 + d)); [lra|].
      apply Rmult_le_compat_r; lra.
    - apply Rmult_le_pos; lra. }
  rewrite Hr. unfold py_round. apply Znearest_imp.
  replace (IZR k * (1 + d) * (1 + e) - IZR k)
    with (IZR k * (d + e + d * e)) by ring.
  rewrite Rabs_mult. rewrite (Rabs_pos_eq (IZR k)) by lra.
  apply Rle_lt_trans with (2 := Hb).
  apply Rmult_le_compat_l; [lra|].
  apply Rle_trans with (Rabs (d + e) + Rabs (d * e)); [apply Rabs_triang|].
  apply Rle_trans with (Rabs d + Rabs e + Rabs d * Rabs e).
  { rewrite Rabs_mult. apply Rplus_le_compat_r. apply Rabs_triang. }
  assert (Hde : Rabs d * Rabs e <= D * u64).
  { apply Rmult_le_compat; auto using Rabs_pos. }
  lra.
Qed.

Theorem sat_float_exact : forall k : Z,
  (0 <= k <= 2100000000000000)%Z -> to_satoshis_float k = k.
Proof.
  intros k [H0 Hmax].
  destruct (Z.eq_dec k 0) as [->|Hnz]; [apply sat_float_zero|].
  assert (Hk : (1 <= k)%Z) by lia.
  assert (Hk1 : 1 <= IZR k) by (apply IZR_le in Hk; exact Hk).
  assert (HkM : IZR k <= 2100000000000000) by (apply IZR_le in Hmax; exact Hmax).
  unfold to_satoshis_float.
  destruct (rnd64_rel (IZR k / 100000000)) as [e [He Hr]].
  { rewrite Rabs_pos_eq.
    - unfold Rdiv. lra.
    - unfold Rdiv. lra. }
  rewrite Hr.
  replace (IZR k / 100000000 * (1 + e) * 100000000)
    with (IZR k * (1 + e)) by field.
  apply round_back with (D := u64); auto.
  - unfold u64. lra.
  - apply Rle_lt_trans with (2100000000000000 * (u64 + u64 + u64 * u64)).
    + apply Rmult_le_compat_r; [unfold u64; lra | exact HkM].
    + unfold u64. lra.
Qed.

(* Any real (in particular any double) within relative distance 2^-52 of
   k / 10^8 -- e.g. the result of a couple of float additions such as
   0.1 + 0.2 -- still converts to exactly k, for k up to 10^15. *)
Theorem sat_float_near : forall (k : Z) (x : R),
  (0 <= k <= 10 ^ 15)%Z ->
  Rabs (x - IZR k / 100000000) <= 2 * bpow radix2 (-53) * (IZR k / 100000000) ->
  py_round (rnd64 (x * 100000000)) = k.
Proof.
  intros k x [H0 Hmax] Hx.
  assert (Hb : 2 * bpow radix2 (-53) = 2 * u64).
  { rewrite <- u64_bpow. replace (- (53) + 1)%Z with (-53 + 1)%Z by lia.
    rewrite bpow_plus. simpl (bpow radix2 1). lra. }
  rewrite Hb in Hx. clear Hb.
  destruct (Z.eq_dec k 0) as [->|Hnz].
  { replace (2 * u64 * (IZR 0 / 100000000)) with 0 in Hx by (unfold Rdiv; ring).
    replace (x - IZR 0 / 100000000) with x in Hx by (unfold Rdiv; ring).
    assert (x = 0).
    { destruct (Req_dec x 0) as [E|E]; auto.
      apply Rabs_pos_lt in E. lra. }
    subst x. replace (0 * 100000000) with 0 by ring.
    rewrite rnd64_0. apply (py_round_int 0). }
  assert (Hk : (1 <= k)%Z) by lia.
  assert (Hk1 : 1 <= IZR k) by (apply IZR_le in Hk; exact Hk).
  assert (HkM : IZR k <= 1000000000000000).
  { apply IZR_le in Hmax. exact Hmax. }
  set (d := (x * 100000000 - IZR k) / IZR k).
  replace (x * 100000000) with (IZR k * (1 + d)) by (unfold d; field; lra).
  apply round_back with (D := 2 * u64); auto.
  - unfold d. unfold Rdiv at 1. rewrite Rabs_mult.
    rewrite (Rabs_pos_eq (/ IZR k)).
    2:{ left. apply Rinv_0_lt_compat. lra. }
    apply Rmult_le_reg_r with (IZR k); [lra|].
    rewrite Rmult_assoc, Rinv_l, Rmult_1_r by lra.
    replace (x * 100000000 - IZR k)
      with ((x - IZR k / 100000000) * 100000000) by field.
    rewrite Rabs_mult. rewrite (Rabs_pos_eq 100000000) by lra.
    replace (2 * u64 * IZR k)
      with (2 * u64 * (IZR k / 100000000) * 100000000) by field.
    apply Rmult_le_compat_r; [lra | exact Hx].
  - unfold u64. lra.
  - apply Rle_lt_trans
      with (1000000000000000 * (2 * u64 + u64 + 2 * u64 * u64)).
    + apply Rmult_le_compat_r; [unfold u64; lra | exact HkM].
    + unfold u64. lra.
Qed.

Print Assumptions sat_float_exact.
