(* The (r, s) / (r, n - s) symmetry of textbook ECDSA verification (Model/Msg.v ecdsa_verify) over the
   abstract curve of Spec/Curve.v: the BIP62 / BIP146 low-S normalisation keeps a valid signature valid. *)
From Coq Require Import ZArith List Bool Lia.
From BU Require Import Lib.Bytes Model.EC Model.Msg Spec.Curve Proofs.CurveFacts.
Import ListNotations.
Open Scope list_scope.
Open Scope Z_scope.

Local Opaque point_mul_with le_bytes le_val be_bytes be_val.

Section Sym.
  Variables (p n : Z) (add : point -> point -> point) (lift : Z -> point) (G : point) (on : point -> Prop).
  Hypothesis L : curve_laws p n add lift G on.
  Variable inv : Z -> Z.
  Hypothesis Hinv : forall a, a mod n <> 0 -> (a * inv a) mod n = 1.   (* inverse modulo the group order *)
  Hypothesis Hinv_range : forall a, 0 <= inv a < n.
  Hypothesis Hn256 : n < 2 ^ 256.

  Notation smul := (smul p add).
  Notation neg := (neg p).
  Let Ln := n_pos _ _ _ _ _ _ L.
  Let HonG := onG _ _ _ _ _ _ L.

  (* ---------------- modular algebra ---------------- *)
  Lemma sym_mod_wit a : exists q, a = n * q + a mod n.
  Proof. exists (a / n). apply Z.div_mod. pose proof Ln. lia. Qed.

  Lemma sym_mod_eq_wit a b q : a = b + q * n -> a mod n = b mod n.
  Proof. intros ->. apply Z.mod_add. pose proof Ln. lia. Qed.

  (* inverses are unique modulo n, hence the inverse of -s is the negated inverse of s *)
  Lemma inv_neg_mod s w w' : (s * w) mod n = 1 -> ((n - s) * w') mod n = 1 -> w' mod n = (- w) mod n.
  Proof.
    intros E1 E2.
    destruct (sym_mod_wit (s * w)) as [q1 W1]. rewrite E1 in W1.
    destruct (sym_mod_wit ((n - s) * w')) as [q2 W2]. rewrite E2 in W2.
    apply (sym_mod_eq_wit _ _ (w' * w - q2 * w - w' * q1)).
    transitivity (w' * (s * w) - w' * n * q1); [rewrite W1; ring|].
    transitivity (- ((n - s) * w') * w + n * w' * w - w' * n * q1); [ring|].
    rewrite W2. ring.
  Qed.

  (* u = (a w) mod n, u' = (a w') mod n with w' = -w  ==>  u' = -u *)
  Lemma scalar_neg_mod a w w' : w' mod n = (- w) mod n -> ((a * w') mod n) mod n = (- ((a * w) mod n)) mod n.
  Proof.
    intros E. pose proof Ln as Hn.
    destruct (sym_mod_wit w') as [q1 W1]. rewrite E in W1.
    destruct (sym_mod_wit (- w)) as [q2 W2].
    destruct (sym_mod_wit (a * w)) as [q3 W3].
    rewrite Z.mod_mod by lia.
    apply (sym_mod_eq_wit _ _ (a * q1 - a * q2 - q3)).
    transitivity (a * (n * q1 + (- w) mod n)); [rewrite <- W1; reflexivity|].
    replace ((- w) mod n) with (- w - n * q2) by lia.
    replace ((a * w) mod n) with (a * w - n * q3) by lia. ring.
  Qed.

  (* ---------------- scalars act modulo n on every point of the curve ---------------- *)
  Lemma smul_mod_eq_on a b P : on P -> a mod n = b mod n -> smul a P = smul b P.
  Proof.
    intros HP E. pose proof Ln as Hn.
    destruct (cl_cyclic _ _ _ _ _ _ L P HP) as (k & _ & ->).
    rewrite <- !(smul_mul _ _ _ _ _ _ L) by auto.
    apply (smul_G_inj _ _ _ _ _ _ L).
    rewrite (Z.mul_mod a), (Z.mul_mod b), E by lia. reflexivity.
  Qed.

  Lemma smul_mod_on a P : on P -> smul (a mod n) P = smul a P.
  Proof. intros HP. apply smul_mod_eq_on; auto. apply Z.mod_mod. pose proof Ln. lia. Qed.

  Lemma neg_affine x y : neg (Some (x, y)) = Some (x, p - y).
  Proof. reflexivity. Qed.

  (* ---------------- low-S normalisation ---------------- *)
  (* BIP62/BIP146: (r, s) valid for Q  ->  (r, n - s) valid for Q *)
  Theorem ecdsa_low_s_valid Q e r s : on Q -> 0 <= e ->
    ecdsa_verify n add G inv Q e r s = true -> ecdsa_verify n add G inv Q e r (n - s) = true.
  Proof.
    intros HQ He. pose proof Ln as Hn.
    unfold ecdsa_verify. cbv zeta.
    destruct (Z.leb_spec 1 r), (Z.ltb_spec r n), (Z.leb_spec 1 s), (Z.ltb_spec s n);
      cbn [andb negb]; try congruence.
    destruct (Z.leb_spec 1 (n - s)), (Z.ltb_spec (n - s) n); try lia. cbn [andb negb].
    set (w := inv s). set (w' := inv (n - s)).
    assert (Ew : w' mod n = (- w) mod n).
    { apply (inv_neg_mod s); subst w w'; apply Hinv; rewrite Z.mod_small by lia; lia. }
    assert (Hu1 : 0 <= (e * w) mod n < n) by (apply Z.mod_pos_bound; lia).
    assert (Hu2 : 0 <= (r * w) mod n < n) by (apply Z.mod_pos_bound; lia).
    assert (Hu1' : 0 <= (e * w') mod n < n) by (apply Z.mod_pos_bound; lia).
    assert (Hu2' : 0 <= (r * w') mod n < n) by (apply Z.mod_pos_bound; lia).
    rewrite !(point_mul_smul _ _ _ _ _ _ L G) by (auto; lia).
    rewrite !(point_mul_smul _ _ _ _ _ _ L Q) by (auto; lia).
    rewrite (smul_mod_eq_on ((e * w') mod n) (- ((e * w) mod n)) G HonG (scalar_neg_mod e w w' Ew)).
    rewrite (smul_mod_eq_on ((r * w') mod n) (- ((r * w) mod n)) Q HQ (scalar_neg_mod r w w' Ew)).
    rewrite !(smul_neg _ _ _ _ _ _ L) by auto.
    rewrite <- (neg_add _ _ _ _ _ _ L) by (apply (smul_on _ _ _ _ _ _ L); auto).
    destruct (add (smul ((e * w) mod n) G) (smul ((r * w) mod n) Q)) as [[x y]|]; [|congruence].
    rewrite neg_affine. intros HH; exact HH.
  Qed.

  Corollary ecdsa_normalised_valid Q e r s : on Q -> 0 <= e -> ecdsa_verify n add G inv Q e r s = true ->
    ecdsa_verify n add G inv Q e r (if s <=? n / 2 then s else n - s) = true.
  Proof.
    intros HQ He H. destruct (s <=? n / 2); [exact H|]. now apply ecdsa_low_s_valid.
  Qed.

  (* the normalised s is low and in range *)
  Lemma normalised_s_low s : 1 <= s < n -> Z.odd n = true ->
    let s' := if s <=? n / 2 then s else n - s in 1 <= s' <= n / 2.
  Proof.
    intros Hs Ho. cbv zeta. pose proof Ln as Hn.
    pose proof (Z.div_mod n 2 ltac:(lia)) as D. rewrite Zmod_odd, Ho in D.
    destruct (Z.leb_spec s (n / 2)); lia.
  Qed.
End Sym.
