From Coq Require Import ZArith List Bool Lia.
From BU Require Import Lib.Bytes Lib.BytesFacts Model.Varint Spec.CompactSize.
Import ListNotations.
Open Scope Z_scope.

Lemma encode_is_spec n : 0 <= n < 2 ^ 64 -> encode_varint n = Some (spec_compact n).
Proof.
  intros [H0 H1]. unfold encode_varint, spec_compact.
  change (2 ^ 64) with 18446744073709551616 in H1.
  destruct (n <? 0) eqn:E0; [lia|].
  destruct (n <? 253) eqn:E1; destruct (n <=? 252) eqn:F1; try lia; [reflexivity|].
  destruct (n <? 65536) eqn:E2; destruct (n <=? 65535) eqn:F2; try lia; [reflexivity|].
  destruct (n <? 4294967296) eqn:E3; destruct (n <=? 4294967295) eqn:F3; try lia; [reflexivity|].
  destruct (n <? 18446744073709551616) eqn:E4; [reflexivity|lia].
Qed.

Lemma encode_rejects n : n < 0 \/ 2 ^ 64 <= n -> encode_varint n = None.
Proof.
  change (2 ^ 64) with 18446744073709551616. intros H. unfold encode_varint.
  destruct (n <? 0) eqn:E0; [reflexivity|].
  destruct (n <? 253) eqn:E1; [lia|].
  destruct (n <? 65536) eqn:E2; [lia|].
  destruct (n <? 4294967296) eqn:E3; [lia|].
  destruct (n <? 18446744073709551616) eqn:E4; [lia|reflexivity].
Qed.

Lemma spec_compact_length n :
  length (spec_compact n) =
  if n <=? 252 then 1%nat else if n <=? 65535 then 3%nat else if n <=? 4294967295 then 5%nat else 9%nat.
Proof.
  unfold spec_compact.
  destruct (n <=? 252); [reflexivity|].
  destruct (n <=? 65535); [reflexivity|].
  destruct (n <=? 4294967295); reflexivity.
Qed.

Lemma spec_compact_wf n : 0 <= n -> wf_bytes (spec_compact n).
Proof.
  intros H. unfold spec_compact.
  destruct (n <=? 252) eqn:E1.
  - constructor; [lia|constructor].
  - destruct (n <=? 65535); [|destruct (n <=? 4294967295)];
      (constructor; [lia|apply le_bytes_wf]).
Qed.

Lemma unpack_le_app k n rest :
  0 <= n < 256 ^ Z.of_nat k -> unpack_le k (le_bytes k n ++ rest) = Some n.
Proof.
  intros H. unfold unpack_le.
  rewrite firstn_le_bytes_app, le_bytes_length, Nat.eqb_refl.
  now rewrite le_val_le_bytes_small.
Qed.

Lemma parse_spec_compact n rest :
  0 <= n < 2 ^ 64 ->
  parse_compact_size (spec_compact n ++ rest) = Some (n, length (spec_compact n)).
Proof.
  change (2 ^ 64) with 18446744073709551616. intros [H0 H1].
  rewrite spec_compact_length. unfold spec_compact.
  destruct (n <=? 252) eqn:E1.
  - cbn [app parse_compact_size]. destruct (n <? 253) eqn:F; [reflexivity|lia].
  - destruct (n <=? 65535) eqn:E2; [|destruct (n <=? 4294967295) eqn:E3];
      cbn [app parse_compact_size]; cbn [Z.ltb Z.eqb Z.compare Pos.compare Pos.compare_cont];
      rewrite unpack_le_app; try reflexivity.
    + change (256 ^ Z.of_nat 2) with 65536. lia.
    + change (256 ^ Z.of_nat 4) with 4294967296. lia.
    + change (256 ^ Z.of_nat 8) with 18446744073709551616. lia.
Qed.

Lemma vi_spec_compact n rest :
  0 <= n < 2 ^ 64 ->
  vi_to_int (spec_compact n ++ rest) = Some (n, length (spec_compact n)).
Proof.
  change (2 ^ 64) with 18446744073709551616. intros [H0 H1].
  rewrite spec_compact_length. unfold spec_compact.
  destruct (n <=? 252) eqn:E1.
  - cbn [app vi_to_int]. destruct (n <? 253) eqn:F; [reflexivity|lia].
  - destruct (n <=? 65535) eqn:E2; [|destruct (n <=? 4294967295) eqn:E3];
      cbn [app vi_to_int]; cbn [Z.ltb Z.eqb Z.compare Pos.compare Pos.compare_cont].
    + rewrite firstn_le_bytes_app, le_val_le_bytes_small; [reflexivity|].
      change (256 ^ Z.of_nat 2) with 65536. lia.
    + rewrite firstn_le_bytes_app, le_val_le_bytes_small; [reflexivity|].
      change (256 ^ Z.of_nat 4) with 4294967296. lia.
    + rewrite firstn_le_bytes_app, le_val_le_bytes_small; [reflexivity|].
      change (256 ^ Z.of_nat 8) with 18446744073709551616. lia.
Qed.

(* shortest: any decoder-accepted encoding of n is at least as long as the canonical one *)
Lemma firstn_bound k (t : bytes) : wf_bytes t -> 0 <= le_val (firstn k t) < 256 ^ Z.of_nat k.
Proof.
  intros Hw. pose proof (le_val_bound (firstn k t) (wf_bytes_firstn k t Hw)) as [Ha Hb].
  split; [exact Ha|]. eapply Z.lt_le_trans; [exact Hb|].
  apply Z.pow_le_mono_r; [lia|]. rewrite firstn_length. lia.
Qed.

Local Opaque firstn.

Lemma spec_compact_shortest b n len :
  wf_bytes b -> spec_decode_any b = Some (n, len) -> (length (spec_compact n) <= len)%nat.
Proof.
  intros Hw. destruct b as [|x t]; [discriminate|]. inversion Hw as [|? ? Hx Ht]; subst.
  cbn [spec_decode_any]. rewrite spec_compact_length.
  destruct (x <=? 252) eqn:E1.
  - intros [= <- <-]. rewrite E1. lia.
  - destruct (x =? 253) eqn:E2.
    + destruct (2 <=? length t)%nat; [|discriminate]. intros [= <- <-].
      pose proof (firstn_bound 2 t Ht) as Hb. change (256 ^ Z.of_nat 2) with 65536 in Hb.
      destruct (le_val (firstn 2 t) <=? 252); [lia|].
      destruct (le_val (firstn 2 t) <=? 65535) eqn:F; [lia|lia].
    + destruct (x =? 254) eqn:E3.
      * destruct (4 <=? length t)%nat; [|discriminate]. intros [= <- <-].
        pose proof (firstn_bound 4 t Ht) as Hb. change (256 ^ Z.of_nat 4) with 4294967296 in Hb.
        destruct (le_val (firstn 4 t) <=? 252); [lia|].
        destruct (le_val (firstn 4 t) <=? 65535); [lia|].
        destruct (le_val (firstn 4 t) <=? 4294967295) eqn:F; lia.
      * destruct (8 <=? length t)%nat; [|discriminate]. intros [= <- <-].
        destruct (le_val (firstn 8 t) <=? 252); [lia|].
        destruct (le_val (firstn 8 t) <=? 65535); [lia|].
        destruct (le_val (firstn 8 t) <=? 4294967295); lia.
Qed.

Local Transparent firstn.

Lemma spec_decode_any_compact n rest :
  0 <= n < 2 ^ 64 -> spec_decode_any (spec_compact n ++ rest) = Some (n, length (spec_compact n)).
Proof.
  change (2 ^ 64) with 18446744073709551616. intros [H0 H1].
  rewrite spec_compact_length. unfold spec_compact.
  destruct (n <=? 252) eqn:E1.
  - cbn [app spec_decode_any]. now rewrite E1.
  - destruct (n <=? 65535) eqn:E2; [|destruct (n <=? 4294967295) eqn:E3];
      cbn [app spec_decode_any]; cbn [Z.leb Z.eqb Z.compare Pos.compare Pos.compare_cont].
    + rewrite app_length, le_bytes_length. cbn [Nat.leb Nat.add].
      rewrite firstn_le_bytes_app, le_val_le_bytes_small; [reflexivity|].
      change (256 ^ Z.of_nat 2) with 65536. lia.
    + rewrite app_length, le_bytes_length. cbn [Nat.leb Nat.add].
      rewrite firstn_le_bytes_app, le_val_le_bytes_small; [reflexivity|].
      change (256 ^ Z.of_nat 4) with 4294967296. lia.
    + rewrite app_length, le_bytes_length. cbn [Nat.leb Nat.add].
      rewrite firstn_le_bytes_app, le_val_le_bytes_small; [reflexivity|].
      change (256 ^ Z.of_nat 8) with 18446744073709551616. lia.
Qed.

(* prefix-freeness: a consequence of the decoder inverting the encoder with any suffix *)
Lemma spec_compact_prefix_free n m r1 r2 :
  0 <= n < 2 ^ 64 -> 0 <= m < 2 ^ 64 ->
  spec_compact n ++ r1 = spec_compact m ++ r2 -> n = m /\ r1 = r2.
Proof.
  intros Hn Hm E.
  pose proof (parse_spec_compact n r1 Hn) as P1.
  pose proof (parse_spec_compact m r2 Hm) as P2.
  rewrite E in P1. rewrite P1 in P2. inversion P2 as [[E1 E2]]. subst m. split; [reflexivity|].
  now apply app_inv_head in E.
Qed.

Lemma prepend_parse d :
  Z.of_nat (length d) < 2 ^ 64 ->
  exists pre, prepend_compact_size d = Some (pre ++ d) /\ pre = spec_compact (Z.of_nat (length d)) /\
    parse_compact_size (pre ++ d) = Some (Z.of_nat (length d), length pre) /\
    vi_to_int (pre ++ d) = Some (Z.of_nat (length d), length pre) /\
    skipn (length pre) (pre ++ d) = d.
Proof.
  intros H. exists (spec_compact (Z.of_nat (length d))).
  unfold prepend_compact_size. rewrite encode_is_spec by lia. cbn [option_map].
  repeat split.
  - apply parse_spec_compact; lia.
  - apply vi_spec_compact; lia.
  - apply skipn_app_exact.
Qed.

(* satoshi conversion, exact arithmetic *)
Lemma round_half_even_exact a b : 0 < b -> round_half_even_div (a * b) b = a.
Proof.
  intros Hb. unfold round_half_even_div.
  rewrite Z.div_mul, Z.mod_mul by lia. cbn [Z.mul].
  destruct (0 <? b) eqn:E; [reflexivity|lia].
Qed.

Lemma to_satoshis_dec_exact c e :
  (e <= 8)%nat -> to_satoshis_dec c e = c * 10 ^ Z.of_nat (8 - e).
Proof.
  intros He. unfold to_satoshis_dec.
  replace (c * 100000000) with ((c * 10 ^ Z.of_nat (8 - e)) * 10 ^ Z.of_nat e).
  - apply round_half_even_exact. apply Z.pow_pos_nonneg; lia.
  - rewrite <- Z.mul_assoc, <- Z.pow_add_r by lia.
    replace (Z.of_nat (8 - e) + Z.of_nat e) with 8 by lia. reflexivity.
Qed.
