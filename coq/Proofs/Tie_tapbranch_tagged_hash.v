(* Source tie for utils.tapbranch_tagged_hash: the function as translated from the current source (Gen/Src.v) equals the model. *)
From Coq Require Import String ZArith List Bool Lia ZifyBool.
From BU Require Import Lib.Bytes Lib.BytesFacts Lib.PySem Gen.Tables Gen.Src Model.Varint Model.Script Model.Seq Model.Tx Model.Sighash Model.Msg Model.Taproot
  Proofs.ScriptNumFacts Proofs.TieLib Proofs.Tie_tagged_hash.
Import ListNotations.
Open Scope list_scope.
Open Scope Z_scope.

Lemma src_tapbranch_tagged_hash_eq : forall sha256 a b,
  src_tapbranch_tagged_hash sha256 a b = Ok (tapbranch_tagged_hash sha256 a b).
Proof.
  intros. unfold src_tapbranch_tagged_hash, tapbranch_tagged_hash. rewrite !src_tagged_hash_eq.
  split_ifs; reflexivity.
Qed.
