(* Source tie for Transaction.get_txid, _get_hash (get_wtxid) and get_size: as translated from the current source. *)
From Coq Require Import String ZArith List Bool Lia ZifyBool.
From BU Require Import Lib.Bytes Lib.BytesFacts Lib.PySem Gen.Tables Gen.Src Model.Varint Model.Script Model.Seq Model.Tx
  Proofs.ScriptNumFacts Proofs.TieLib Proofs.Tie_tx_whole.
Import ListNotations.
Open Scope list_scope.
Open Scope Z_scope.

Lemma src_get_txid_eq : forall sha256 v i o w l sw,
  src_get_txid sha256 v i o w l =
  of_option (get_txid sha256 {| tx_version := v; tx_inputs := i; tx_outputs := o; tx_locktime := l; tx_segwit := sw; tx_witnesses := w |}).
Proof.
  intros. unfold src_get_txid, get_txid, dsha. rewrite (src_tx_to_bytes_eq false v i o w l sw).
  destruct (tx_to_bytes _ false); reflexivity.
Qed.

Lemma src_get_hash_eq : forall sha256 v i o w l hs,
  src_get_hash sha256 v i o w l hs =
  of_option (get_wtxid sha256 {| tx_version := v; tx_inputs := i; tx_outputs := o; tx_locktime := l; tx_segwit := hs; tx_witnesses := w |}).
Proof.
  intros. unfold src_get_hash, get_wtxid, tx_serialize, dsha. cbn [tx_segwit]. rewrite (src_tx_to_bytes_eq hs v i o w l hs).
  destruct (tx_to_bytes _ hs); reflexivity.
Qed.

Lemma src_get_size_eq : forall v i o w l hs,
  src_get_size v i o w l hs =
  of_option (get_size {| tx_version := v; tx_inputs := i; tx_outputs := o; tx_locktime := l; tx_segwit := hs; tx_witnesses := w |}).
Proof.
  intros. unfold src_get_size, get_size, tx_serialize. cbn [tx_segwit]. rewrite (src_tx_to_bytes_eq hs v i o w l hs).
  destruct (tx_to_bytes _ hs); reflexivity.
Qed.
