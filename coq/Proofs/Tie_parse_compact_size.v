(* Source tie for utils.parse_compact_size: the function as translated from the current source (Gen/Src.v) equals the model. *)
From Coq Require Import String ZArith List Bool Lia ZifyBool.
From BU Require Import Lib.Bytes Lib.BytesFacts Lib.PySem Gen.Tables Gen.Src Model.Varint Model.Script Model.Seq
  Proofs.ScriptNumFacts Proofs.TieLib.
Import ListNotations.
Open Scope list_scope.
Open Scope Z_scope.

Lemma src_parse_compact_size_eq : forall d, wf_bytes d ->
  src_parse_compact_size d = of_option (pairZ (parse_compact_size d)).
Proof.
  intros d Hd. unfold src_parse_compact_size. cbv beta iota zeta. eval_closed. rewrite !py_index_0.
  destruct d as [|b t]; [reflexivity|].
  assert (Hb : 0 <= b < 256) by (inversion Hd; assumption).
  unfold parse_compact_size. decode_first_byte b Hb.
Qed.
