From Coq Require Import ZArith String List Bool Lia.
From BU Require Import Lib.Bytes Lib.BytesFacts Gen.Tables Model.Varint Model.Script
  Spec.Opcodes Spec.ScriptSpec Proofs.ScriptTables Proofs.ScriptNumFacts.
Import ListNotations.
Open Scope list_scope.
Open Scope Z_scope.

(* ---- well-formed script elements (the property's domain) ---- *)
Definition max_push : Z := 4294967295.

Definition wf_tok (t : tok) : Prop :=
  match t with
  | TOp name => op_lookup name <> None
  | TInt n => 0 <= n /\ Z.of_nat (length (spec_scriptnum n)) < max_push
  | TData d => wf_bytes d /\ Z.of_nat (length d) < max_push
  end.

(* for disassembly a lone OP_PUSHDATAn name is not a script element *)
Definition wf_tok_dis (t : tok) : Prop :=
  wf_tok t /\ match t with
              | TOp name => forall b, op_lookup name = Some [b] -> is_pd b = false
              | _ => True
              end.

Definition to_stok (t : tok) : stok :=
  match t with TOp n => SOp n | TInt n => SInt n | TData d => SData d end.

(* what disassembly returns for an element: canonical opcode name, or the pushed data *)
Definition canon_byte (b : Z) (dflt : tok) : tok :=
  match code_lookup b with Some nm => TOp nm | None => dflt end.

Definition canon_tok (t : tok) : tok :=
  match t with
  | TOp name => match op_lookup name with Some [b] => canon_byte b t | _ => t end
  | TInt n => if (0 <=? n) && (n <=? 16) then canon_byte (if n =? 0 then 0 else 80 + n) t
              else TData (push_integer_payload n)
  | TData [] => canon_byte 0 t
  | TData d => TData d
  end.

(* ---- assembly = consensus encoding ---- *)
Lemma op_push_data_spec d : Z.of_nat (length d) < max_push -> op_push_data d = Some (spec_push d).
Proof.
  unfold max_push, op_push_data, spec_push. intros H.
  destruct (Z.of_nat (length d) <? 76); [reflexivity|].
  destruct (Z.of_nat (length d) <=? 255); [reflexivity|].
  destruct (Z.of_nat (length d) <=? 65535); [reflexivity|].
  destruct (Z.of_nat (length d) <? 4294967295) eqn:E; [reflexivity|lia].
Qed.

Lemma tok_to_bytes_spec t : wf_tok t -> tok_to_bytes t = spec_tok (to_stok t).
Proof.
  destruct t as [name|n|d]; cbn [wf_tok tok_to_bytes to_stok spec_tok].
  - intros H. destruct (op_lookup name) as [v|] eqn:E; [|congruence].
    destruct (op_lookup_facts name v E) as (b & -> & F). now rewrite (of_consensus _ _ F).
  - intros [H0 Hl]. unfold spec_int.
    destruct ((0 <=? n) && (n <=? 16)) eqn:E.
    + rewrite small_int_lookup by lia. destruct (n =? 0) eqn:E0; [reflexivity|].
      replace ((1 <=? n) && (n <=? 16)) with true by lia. reflexivity.
    + unfold push_integer. destruct (n <=? 0) eqn:En; [lia|].
      destruct (n =? 0) eqn:E0; [lia|].
      replace ((1 <=? n) && (n <=? 16)) with false by lia.
      rewrite payload_is_spec by lia. now rewrite op_push_data_spec.
  - intros [_ Hl]. now apply op_push_data_spec.
Qed.

Lemma to_bytes_spec ts : Forall wf_tok ts -> to_bytes ts = spec_assemble (map to_stok ts).
Proof.
  induction 1 as [|t r Ht _ IH]; cbn [to_bytes map spec_assemble]; [reflexivity|].
  now rewrite tok_to_bytes_spec, IH.
Qed.

(* ---- disassembly ---- *)
Lemma spec_push_shape d rest :
  wf_bytes d -> Z.of_nat (length d) < max_push -> d <> [] ->
  exists b t, spec_push d ++ rest = b :: t /\ from_raw_step b t = (Some (TData d), rest).
Proof.
  unfold max_push. intros Hw Hl Hne. unfold spec_push.
  assert (Hpos : 1 <= Z.of_nat (length d)) by (destruct d; [congruence|cbn [length]; lia]).
  set (len := Z.of_nat (length d)) in *.
  destruct (len <? 76) eqn:E1.
  - exists len, (d ++ rest). split; [reflexivity|].
    unfold from_raw_step. rewrite code_lookup_push_range by lia.
    cbn [firstn vi_to_int]. destruct (len <? 253) eqn:E2; [|lia].
    cbn [skipn]. replace (Z.to_nat len + 1)%nat with (S (length d)) by lia. cbn [skipn].
    replace (Z.to_nat len) with (length d) by lia.
    now rewrite firstn_app_exact, skipn_app_exact.
  - destruct (len <=? 255) eqn:E2.
    + exists 76, (len :: d ++ rest). split; [reflexivity|].
      unfold from_raw_step. destruct (code_lookup_special 76 ltac:(cbn; tauto)) as [nm ->].
      cbn [Z.eqb Pos.eqb firstn le_val skipn Nat.add].
      replace (Z.to_nat (len + 256 * 0)) with (length d) by lia.
      now rewrite firstn_app_exact, skipn_app_exact.
    + destruct (len <=? 65535) eqn:E3.
      * exists 77, (le_bytes 2 len ++ d ++ rest). split; [cbn [app]; now rewrite <- app_assoc|].
        unfold from_raw_step. destruct (code_lookup_special 77 ltac:(cbn; tauto)) as [nm ->].
        cbn [Z.eqb Pos.eqb]. rewrite firstn_le_bytes_app, le_val_le_bytes_small by (change (256 ^ Z.of_nat 2) with 65536; lia).
        replace (Z.to_nat len) with (length d) by lia.
        rewrite skipn_le_bytes_app, firstn_app_exact.
        replace (2 + length d)%nat with (length (le_bytes 2 len ++ d)) by (rewrite app_length, le_bytes_length; lia).
        now rewrite app_assoc, skipn_app_exact.
      * exists 78, (le_bytes 4 len ++ d ++ rest). split; [cbn [app]; now rewrite <- app_assoc|].
        unfold from_raw_step. destruct (code_lookup_special 78 ltac:(cbn; tauto)) as [nm ->].
        cbn [Z.eqb Pos.eqb]. rewrite firstn_le_bytes_app, le_val_le_bytes_small by (change (256 ^ Z.of_nat 4) with 4294967296; lia).
        replace (Z.to_nat len) with (length d) by lia.
        rewrite skipn_le_bytes_app, firstn_app_exact.
        replace (4 + length d)%nat with (length (le_bytes 4 len ++ d)) by (rewrite app_length, le_bytes_length; lia).
        now rewrite app_assoc, skipn_app_exact.
Qed.

Lemma op_byte_step b nm rest :
  code_lookup b = Some nm -> is_pd b = false -> from_raw_step b rest = (Some (TOp nm), rest).
Proof.
  intros H Hp. unfold from_raw_step. rewrite H. unfold is_pd in Hp.
  destruct (b =? 76); [discriminate|]. destruct (b =? 77); [discriminate|].
  destruct (b =? 78); [discriminate|]. reflexivity.
Qed.

(* one element: its bytes followed by anything parse to the canonical element and leave the rest *)
Lemma tok_step t bs rest :
  wf_tok_dis t -> tok_to_bytes t = Some bs ->
  exists b tl, bs ++ rest = b :: tl /\ from_raw_step b tl = (Some (canon_tok t), rest).
Proof.
  intros [Hw Hd] Hb. destruct t as [name|n|d].
  - cbn [tok_to_bytes] in Hb. destruct (op_lookup_facts name bs Hb) as (b & -> & F).
    exists b, rest. split; [reflexivity|].
    destruct (of_code _ _ F) as (nm' & Hc & _).
    cbn [canon_tok]. rewrite Hb. unfold canon_byte. rewrite Hc.
    apply op_byte_step; [exact Hc|]. now apply Hd.
  - cbn [wf_tok] in Hw. destruct Hw as [H0 Hl]. cbn [tok_to_bytes canon_tok] in *.
    destruct ((0 <=? n) && (n <=? 16)) eqn:E.
    + rewrite small_int_lookup in Hb by lia. injection Hb as <-.
      set (b := if n =? 0 then 0 else 80 + n).
      exists b, rest. split; [reflexivity|].
      pose proof (small_int_lookup n ltac:(lia)) as Hs. fold b in Hs.
      destruct (op_lookup_facts _ _ Hs) as (b' & [= <-] & F).
      destruct (of_code _ _ F) as (nm' & Hc & _). unfold canon_byte. rewrite Hc.
      apply op_byte_step; [exact Hc|]. unfold is_pd, b. destruct (n =? 0) eqn:E0; lia.
    + unfold push_integer in Hb. destruct (n <=? 0) eqn:En; [lia|].
      assert (Hn : 0 < n) by lia.
      rewrite payload_is_spec in * by lia.
      rewrite op_push_data_spec in Hb by exact Hl. injection Hb as <-.
      apply spec_push_shape; [now apply spec_scriptnum_wf; lia|exact Hl|].
      pose proof (spec_scriptnum_nonempty n Hn). destruct (spec_scriptnum n); [cbn in *; lia|congruence].
  - cbn [wf_tok] in Hw. destruct Hw as [Hwb Hl]. cbn [tok_to_bytes] in Hb.
    rewrite op_push_data_spec in Hb by exact Hl. injection Hb as <-.
    destruct d as [|x d'].
    + cbn [canon_tok]. exists 0, rest. split; [reflexivity|].
      destruct (code_lookup_special 0 ltac:(cbn; tauto)) as [nm Hc]. unfold canon_byte. rewrite Hc.
      apply op_byte_step; [exact Hc|reflexivity].
    + cbn [canon_tok]. apply spec_push_shape; [exact Hwb|exact Hl|congruence].
Qed.

Lemma spec_push_nonempty d : spec_push d <> [].
Proof.
  unfold spec_push. destruct (_ <? 76); [discriminate|]. destruct (_ <=? 255); [discriminate|].
  destruct (_ <=? 65535); discriminate.
Qed.

Lemma tok_bytes_nonempty t bs : wf_tok t -> tok_to_bytes t = Some bs -> bs <> [].
Proof.
  intros Hw. rewrite (tok_to_bytes_spec t Hw). destruct t as [name|n|d]; cbn [to_stok spec_tok].
  - destruct (spec_assoc name consensus_opcodes); cbn [option_map]; [intros [= <-]; discriminate|discriminate].
  - intros [= <-]. unfold spec_int. destruct (n =? 0); [discriminate|].
    destruct ((1 <=? n) && (n <=? 16)); [discriminate|apply spec_push_nonempty].
  - intros [= <-]. apply spec_push_nonempty.
Qed.

Lemma spec_push_wf d : wf_bytes d -> Z.of_nat (length d) < max_push -> wf_bytes (spec_push d).
Proof.
  unfold max_push, spec_push. intros Hw Hl.
  destruct (Z.of_nat (length d) <? 76) eqn:E1; [constructor; [lia|exact Hw]|].
  destruct (Z.of_nat (length d) <=? 255) eqn:E2; [constructor; [lia|constructor; [lia|exact Hw]]|].
  destruct (Z.of_nat (length d) <=? 65535) eqn:E3.
  - constructor; [lia|]. apply wf_bytes_app. split; [apply le_bytes_wf|exact Hw].
  - constructor; [lia|]. apply wf_bytes_app. split; [apply le_bytes_wf|exact Hw].
Qed.

Lemma to_bytes_cons t r bs :
  to_bytes (t :: r) = Some bs -> exists a b, tok_to_bytes t = Some a /\ to_bytes r = Some b /\ bs = a ++ b.
Proof.
  cbn [to_bytes]. destruct (tok_to_bytes t) as [a|]; [|discriminate].
  destruct (to_bytes r) as [b|]; [|discriminate]. intros [= <-]. now exists a, b.
Qed.

Lemma from_raw_fuel_tokens ts : Forall wf_tok_dis ts ->
  forall bs fuel, to_bytes ts = Some bs -> (length bs <= fuel)%nat ->
  from_raw_fuel fuel bs = map canon_tok ts.
Proof.
  induction 1 as [|t r Ht _ IH]; intros bs fuel Hb Hf.
  - cbn [to_bytes] in Hb. injection Hb as <-. destruct fuel; reflexivity.
  - destruct (to_bytes_cons _ _ _ Hb) as (a & b & Ha & Hr & ->).
    destruct (tok_step t a b Ht Ha) as (x & tl & Hsplit & Hstep).
    rewrite Hsplit in *. destruct fuel as [|f]; [cbn [length] in Hf; lia|].
    cbn [from_raw_fuel map]. rewrite Hstep. f_equal. apply IH; [exact Hr|].
    assert (length tl = length (x :: tl) - 1)%nat by (cbn [length]; lia).
    assert (length b <= length tl)%nat.
    { pose proof (tok_bytes_nonempty t a (proj1 Ht) Ha) as Hne.
      destruct a as [|a0 a']; [congruence|].
      cbn [app] in Hsplit. injection Hsplit as _ <-. rewrite app_length. lia. }
    cbn [length] in Hf. lia.
Qed.

Lemma from_raw_tokens ts bs hs :
  Forall wf_tok_dis ts -> to_bytes ts = Some bs -> from_raw bs hs = map canon_tok ts.
Proof. intros H Hb. unfold from_raw. now apply from_raw_fuel_tokens. Qed.

(* re-assembling the canonical elements gives the same bytes *)
Lemma canon_tok_bytes t : wf_tok_dis t -> tok_to_bytes (canon_tok t) = tok_to_bytes t.
Proof.
  intros [Hw _]. destruct t as [name|n|d].
  - cbn [wf_tok] in Hw. cbn [canon_tok]. destruct (op_lookup name) as [v|] eqn:E; [|congruence].
    destruct (op_lookup_facts name v E) as (b & -> & F).
    destruct (of_code _ _ F) as (nm' & Hc & Ho). unfold canon_byte. rewrite Hc.
    cbn [tok_to_bytes]. now rewrite Ho, E.
  - cbn [wf_tok] in Hw. destruct Hw as [H0 Hl]. cbn [canon_tok tok_to_bytes].
    destruct ((0 <=? n) && (n <=? 16)) eqn:E.
    + pose proof (small_int_lookup n ltac:(lia)) as Hs.
      set (b := if n =? 0 then 0 else 80 + n) in *.
      destruct (op_lookup_facts _ _ Hs) as (b' & [= <-] & F).
      destruct (of_code _ _ F) as (nm' & Hc & Ho). unfold canon_byte. rewrite Hc.
      cbn [tok_to_bytes]. now rewrite Ho, Hs.
    + cbn [tok_to_bytes]. unfold push_integer. destruct (n <=? 0) eqn:En; [lia|]. reflexivity.
  - cbn [wf_tok] in Hw. destruct d as [|x d']; [|reflexivity].
    cbn [canon_tok]. destruct (code_lookup_special 0 ltac:(cbn; tauto)) as [nm Hc].
    unfold canon_byte. rewrite Hc. cbn [tok_to_bytes].
    pose proof (small_int_lookup 0 ltac:(lia)) as Hs. cbn [Z.eqb] in Hs.
    destruct (op_lookup_facts _ _ Hs) as (b' & [= <-] & F).
    destruct (of_code _ _ F) as (nm' & Hc' & Ho). rewrite Hc in Hc'. injection Hc' as <-.
    rewrite Ho. reflexivity.
Qed.

Lemma canon_to_bytes ts : Forall wf_tok_dis ts -> to_bytes (map canon_tok ts) = to_bytes ts.
Proof.
  induction 1 as [|t r Ht _ IH]; cbn [map to_bytes]; [reflexivity|].
  now rewrite canon_tok_bytes, IH.
Qed.

Lemma tok_to_bytes_some t : wf_tok t -> exists bs, tok_to_bytes t = Some bs.
Proof.
  intros Hw. rewrite (tok_to_bytes_spec t Hw). destruct t as [name|n|d]; cbn [to_stok spec_tok]; eauto.
  cbn [wf_tok] in Hw. destruct (op_lookup name) as [v|] eqn:E; [|congruence].
  destruct (op_lookup_facts name v E) as (b & -> & F). rewrite (of_consensus _ _ F). cbn. eauto.
Qed.

Lemma to_bytes_some ts : Forall wf_tok ts -> exists bs, to_bytes ts = Some bs.
Proof.
  induction 1 as [|t r Ht _ [b IH]]; cbn [to_bytes]; [eauto|].
  destruct (tok_to_bytes_some t Ht) as [a ->]. rewrite IH. eauto.
Qed.

Lemma to_bytes_wf ts bs : Forall wf_tok ts -> to_bytes ts = Some bs -> wf_bytes bs.
Proof.
  intros H. revert bs. induction H as [|t r Ht _ IH]; intros bs; cbn [to_bytes].
  - intros [= <-]. constructor.
  - destruct (tok_to_bytes t) as [a|] eqn:Ea; [|discriminate].
    destruct (to_bytes r) as [b|] eqn:Eb; [|discriminate]. intros [= <-].
    apply wf_bytes_app. split; [|now apply IH].
    rewrite (tok_to_bytes_spec t Ht) in Ea. destruct t as [name|n|d]; cbn [to_stok spec_tok wf_tok] in *.
    + destruct (spec_assoc name consensus_opcodes) as [x|] eqn:Ex; [|discriminate]. injection Ea as <-.
      destruct (op_lookup name) as [v|] eqn:E; [|congruence].
      destruct (op_lookup_facts name v E) as (b0 & -> & F). rewrite (of_consensus _ _ F) in Ex. injection Ex as <-.
      constructor; [apply (of_byte _ _ F)|constructor].
    + injection Ea as <-. destruct Ht as [H0 Hl]. unfold spec_int.
      destruct (n =? 0); [constructor; [lia|constructor]|].
      destruct ((1 <=? n) && (n <=? 16)) eqn:E; [constructor; [lia|constructor]|].
      apply spec_push_wf; [now apply spec_scriptnum_wf|exact Hl].
    + injection Ea as <-. destruct Ht as [Hw Hl]. now apply spec_push_wf.
Qed.
