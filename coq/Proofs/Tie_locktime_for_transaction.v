(* Source tie for Locktime.for_transaction: the function as translated from the current source (Gen/Src.v) equals the model. *)
From Coq Require Import String ZArith List Bool Lia ZifyBool.
From BU Require Import Lib.Bytes Lib.BytesFacts Lib.PySem Gen.Tables Gen.Src Model.Varint Model.Script Model.Seq
  Proofs.ScriptNumFacts Proofs.TieLib.
Import ListNotations.
Open Scope list_scope.
Open Scope Z_scope.

Lemma src_locktime_eq : forall v, src_locktime_for_transaction v = of_option (locktime_for_transaction v).
Proof.
  intros v. unfold src_locktime_for_transaction, locktime_for_transaction, to_bytes4. tie_auto.
Qed.
