(* Source tie for Sequence.__init__: the function as translated from the current source (Gen/Src.v) equals the model. *)
From Coq Require Import String ZArith List Bool Lia ZifyBool.
From BU Require Import Lib.Bytes Lib.BytesFacts Lib.PySem Gen.Tables Gen.Src Model.Varint Model.Script Model.Seq
  Proofs.ScriptNumFacts Proofs.TieLib.
Import ListNotations.
Open Scope list_scope.
Open Scope Z_scope.

Lemma src_sequence_init_eq : forall ty v blk,
  src_sequence_init ty v blk = match mk_sequence ty v blk with
  | Some s => Ok (Some (seq_type s), Some (seq_value s), Some (seq_is_block s)) | None => Raise end.
Proof.
  intros ty v blk. unfold src_sequence_init, mk_sequence. tie_auto.
Qed.

(* the documented default of the third constructor argument: block units *)
Theorem src_sequence_default_is_block :
  (fix assoc (k : string) (l : list (string * list string)) := match l with
     | [] => None | (a, v) :: r => if String.eqb a k then Some v else assoc k r end)
    "src_sequence_init"%string arg_defaults = Some ["True"%string] \/ In "src_sequence_init"%string untranslated.
Proof. vm_compute. first [left; reflexivity | right; repeat (first [left; reflexivity | right])]. Qed.
