(* The bech32 / bech32m checksum detects every error that substitutes 1..4 symbols
   in a data part of at most 89 symbols (BIP173's design claim), and 89 is tight.

   Route: XOR-linearity reduces the claim to "no non-zero error vector e of weight <= 4
   and length <= 89 has run 0 e = 0".  Leading zeros of e are irrelevant, trailing
   zeros are removed with the injectivity of c |-> polymod_step c 0 (shift invariance),
   so e = v :: r ++ [w] with v, w <> 0 and r of weight <= 2.  With
   tsyn i a = run 0 (a :: repeat 0 i) this says
        tsyn n v  xor  w  =  tsyn i a  xor  tsyn j b      (i, j < n < 89)
   which is refuted by a meet in the middle computed by vm_compute: the 89*31*31 left
   hand sides go into a PositiveMap (key -> largest n), the 2848^2 right hand sides are
   streamed against it. *)
From Coq Require Import ZArith List Bool Lia FMapPositive.
From BU Require Import Lib.Bytes Gen.Tables Model.Bech32 Proofs.Bech32Facts.
Import ListNotations.
Open Scope Z_scope.

Definition hamming (a b : list Z) : nat :=
  length (filter (fun p => negb (fst p =? snd p)) (combine a b)).

(* ------------------------------------------------------------------ *)
(* 1. symbolwise XOR of two words, weight                              *)
(* ------------------------------------------------------------------ *)

Fixpoint xorl (a b : list Z) : list Z :=
  match a, b with
  | x :: a', y :: b' => Z.lxor x y :: xorl a' b'
  | _, _ => []
  end.

Definition weight (e : list Z) : nat := length (filter (fun v => negb (v =? 0)) e).

Lemma lxor_eqb x y : (Z.lxor x y =? 0) = (x =? y).
Proof.
  destruct (Z.eqb_spec x y) as [->|N].
  - rewrite Z.lxor_nilpotent. reflexivity.
  - apply Z.eqb_neq. intros H. apply Z.lxor_eq in H. contradiction.
Qed.

Lemma xorl_length a : forall b, length a = length b -> length (xorl a b) = length a.
Proof.
  induction a as [|x a IH]; intros [|y b] H; cbn [xorl length] in *; try reflexivity; try discriminate.
  f_equal. apply IH. now injection H.
Qed.

Lemma xorl_sym5 a : forall b, sym5 a -> sym5 b -> sym5 (xorl a b).
Proof.
  induction a as [|x a IH]; intros [|y b] Ha Hb; cbn [xorl]; try constructor.
  - inversion Ha; inversion Hb; subst.
    apply (lxor_range 5); [lia| |]; change (2 ^ 5) with 32; assumption.
  - inversion Ha; inversion Hb; subst. now apply IH.
Qed.

Lemma xorl_weight a : forall b, weight (xorl a b) = hamming a b.
Proof.
  unfold weight, hamming.
  induction a as [|x a IH]; intros [|y b]; cbn [xorl combine filter length]; try reflexivity.
  cbn [fst snd]. rewrite lxor_eqb. destruct (x =? y); cbn [negb length]; rewrite IH; reflexivity.
Qed.

Lemma run_xorl a : forall b S S', length a = length b ->
  run (Z.lxor S S') (xorl a b) = Z.lxor (run S a) (run S' b).
Proof.
  induction a as [|x a IH]; intros [|y b] S S' H; cbn [xorl length fold_left] in *;
    try reflexivity; try discriminate.
  rewrite <- IH by (now injection H). f_equal. apply polymod_step_linear'.
Qed.

Lemma weight_cons x l : weight (x :: l) = if x =? 0 then weight l else S (weight l).
Proof. unfold weight. cbn [filter]. destruct (x =? 0); reflexivity. Qed.

Lemma weight_app a b : weight (a ++ b) = (weight a + weight b)%nat.
Proof. unfold weight. rewrite filter_app, app_length. reflexivity. Qed.

Lemma weight_zeros m : weight (repeat 0 m) = 0%nat.
Proof. induction m as [|m IH]; [reflexivity|]. cbn [repeat]. rewrite weight_cons. exact IH. Qed.

Lemma weight0_zeros l : weight l = 0%nat -> l = repeat 0 (length l).
Proof.
  induction l as [|x l IH]; intros H; [reflexivity|].
  rewrite weight_cons in H. destruct (Z.eqb_spec x 0) as [->|N]; [|discriminate].
  cbn [length repeat]. f_equal. now apply IH.
Qed.

(* every word of weight >= 1 ends with a non-zero symbol followed by zeros *)
Lemma trailing l : (1 <= weight l)%nat ->
  exists l1 w m, l = l1 ++ w :: repeat 0 m /\ w <> 0.
Proof.
  induction l as [|x l IH]; intros H; [cbn in H; lia|].
  destruct (le_lt_dec 1 (weight l)) as [H1|H0].
  - destruct (IH H1) as (l1 & w & m & E & Hw). exists (x :: l1), w, m. split; [|exact Hw].
    cbn [app]. now rewrite <- E.
  - assert (Hz : weight l = 0%nat) by lia.
    exists [], x, (length l). cbn [app]. split; [f_equal; now apply weight0_zeros|].
    rewrite weight_cons, Hz in H. destruct (Z.eqb_spec x 0); [lia|assumption].
Qed.

(* ------------------------------------------------------------------ *)
(* 2. syndromes of single symbols and the decomposition of run 0 e     *)
(* ------------------------------------------------------------------ *)

(* tsyn i a: syndrome of the word with symbol a at distance i from the end *)
Definition tsyn (i : nat) (a : Z) : Z := run a (repeat 0 i).

Lemma step0a a : 0 <= a < 32 -> polymod_step 0 a = a.
Proof. intros H. rewrite polymod_step_small by (cbn; lia). lia. Qed.

Lemma run_cons x l : 0 <= x < 32 -> run 0 (x :: l) = Z.lxor (tsyn (length l) x) (run 0 l).
Proof.
  intros Hx. cbn [fold_left]. rewrite step0a by exact Hx. unfold tsyn.
  pose proof (run_linear_zero l x 0) as H. rewrite Z.lxor_0_r in H. exact H.
Qed.

Lemma run_zero_cons l : run 0 (0 :: l) = run 0 l.
Proof. reflexivity. Qed.

Lemma w0 l : weight l = 0%nat -> run 0 l = 0.
Proof.
  induction l as [|x l IH]; intros H; [reflexivity|].
  rewrite weight_cons in H. destruct (Z.eqb_spec x 0) as [->|N]; [|discriminate].
  rewrite run_zero_cons. now apply IH.
Qed.

Lemma w1 l : sym5 l -> (weight l <= 1)%nat ->
  exists i a, (i <= pred (length l))%nat /\ 0 <= a < 32 /\ run 0 l = tsyn i a.
Proof.
  induction l as [|x l IH]; intros Hs Hw.
  - exists 0%nat, 0. repeat split; try lia.
  - inversion Hs as [|? ? Hx Hl]; subst. rewrite weight_cons in Hw.
    destruct (Z.eqb_spec x 0) as [->|N].
    + destruct (IH Hl Hw) as (i & a & Hi & Ha & E). exists i, a.
      split; [cbn [length]; lia|]. split; [exact Ha|]. rewrite run_zero_cons. exact E.
    + exists (length l), x. split; [cbn [length]; lia|]. split; [exact Hx|].
      rewrite run_cons by exact Hx. rewrite w0 by lia. apply Z.lxor_0_r.
Qed.

Lemma w2 l : sym5 l -> (weight l <= 2)%nat ->
  exists i a j b, (i <= pred (length l))%nat /\ (j <= pred (length l))%nat /\
    0 <= a < 32 /\ 0 <= b < 32 /\ run 0 l = Z.lxor (tsyn i a) (tsyn j b).
Proof.
  induction l as [|x l IH]; intros Hs Hw.
  - exists 0%nat, 0, 0%nat, 0. repeat split; try lia.
  - inversion Hs as [|? ? Hx Hl]; subst. rewrite weight_cons in Hw.
    destruct (Z.eqb_spec x 0) as [->|N].
    + destruct (IH Hl Hw) as (i & a & j & b & Hi & Hj & Ha & Hb & E). exists i, a, j, b.
      split; [cbn [length]; lia|]. split; [cbn [length]; lia|].
      split; [exact Ha|]. split; [exact Hb|]. rewrite run_zero_cons. exact E.
    + destruct (w1 l Hl ltac:(lia)) as (j & b & Hj & Hb & E).
      exists (length l), x, j, b.
      split; [cbn [length]; lia|]. split; [cbn [length]; lia|].
      split; [exact Hx|]. split; [exact Hb|].
      rewrite run_cons by exact Hx. now rewrite E.
Qed.

(* ------------------------------------------------------------------ *)
(* 3. shift invariance: c |-> polymod_step c 0 has a trivial kernel    *)
(* ------------------------------------------------------------------ *)

Definition syms : list Z := map Z.of_nat (seq 0 32).
Definition nzsyms : list Z := map Z.of_nat (seq 1 31).

Lemma In_syms a : 0 <= a < 32 -> In a syms.
Proof.
  intros H. unfold syms. apply in_map_iff. exists (Z.to_nat a). split; [lia|]. apply in_seq. lia.
Qed.

Lemma In_nzsyms a : 1 <= a < 32 -> In a nzsyms.
Proof.
  intros H. unfold nzsyms. apply in_map_iff. exists (Z.to_nat a). split; [lia|]. apply in_seq. lia.
Qed.

Lemma top_table : forallb (fun t => negb (Z.land (polymod_step (Z.shiftl t 25) 0) 31 =? 0) || (t =? 0)) syms = true.
Proof. vm_compute. reflexivity. Qed.

Lemma step0_kernel c : 0 <= c < 2 ^ 30 -> polymod_step c 0 = 0 -> c = 0.
Proof.
  intros Hc H. change (2 ^ 30) with 1073741824 in Hc.
  assert (Htop : 0 <= Z.shiftr c 25 < 32).
  { rewrite Z.shiftr_div_pow2 by lia. change (2 ^ 25) with 33554432.
    split; [apply Z.div_pos; lia|apply Z.div_lt_upper_bound; lia]. }
  assert (Hlo : 0 <= Z.land c (Z.ones 25) < 2 ^ 25).
  { rewrite Z.land_ones by lia. apply Z.mod_pos_bound. reflexivity. }
  assert (Ec : c = Z.lxor (Z.shiftl (Z.shiftr c 25) 25) (Z.land c (Z.ones 25))).
  { rewrite <- Z.add_nocarry_lxor by (apply land_shiftl_small; [lia|exact Hlo]).
    rewrite Z.shiftl_mul_pow2, Z.shiftr_div_pow2, Z.land_ones by lia.
    change (2 ^ 25) with 33554432. pose proof (Z.div_mod c 33554432 ltac:(lia)). lia. }
  remember (Z.shiftr c 25) as top eqn:Et. remember (Z.land c (Z.ones 25)) as lo eqn:El.
  clear Et El.
  pose proof (polymod_step_linear' (Z.shiftl top 25) lo 0 0) as L.
  change (Z.lxor 0 0) with 0 in L. rewrite <- Ec, H in L.
  rewrite (polymod_step_small lo 0) in L by (cbn; lia).
  symmetry in L. apply Z.lxor_eq in L.
  pose proof top_table as TT. rewrite forallb_forall in TT.
  specialize (TT top (In_syms top Htop)).
  assert (E31 : Z.land (polymod_step (Z.shiftl top 25) 0) 31 = 0).
  { rewrite L. change 31 with (Z.ones 5). rewrite Z.land_ones by lia.
    change (2 ^ 5) with 32. rewrite Z.add_0_r, Z.mul_comm. apply Z.mod_mul. lia. }
  rewrite E31 in TT. cbn [Z.eqb negb orb] in TT. apply Z.eqb_eq in TT. subst top.
  change (Z.shiftl 0 25) with 0 in *. rewrite Z.lxor_0_l in Ec. subst lo.
  change (polymod_step 0 0) with 0 in L. lia.
Qed.

Lemma run_zeros_nonzero m : forall c, 0 <= c < 2 ^ 30 -> c <> 0 -> run c (repeat 0 m) <> 0.
Proof.
  induction m as [|m IH]; intros c Hc Hn; cbn [repeat fold_left]; [exact Hn|].
  apply IH.
  - apply polymod_step_range; [exact Hc|lia].
  - intros H. apply Hn. now apply step0_kernel.
Qed.

(* ------------------------------------------------------------------ *)
(* 4. the table and the meet in the middle                             *)
(* ------------------------------------------------------------------ *)

Definition key (z : Z) : positive := match z with Zpos p => xO p | _ => xH end.

Definition ins (m : PositiveMap.t Z) (kv : positive * Z) : PositiveMap.t Z :=
  match PositiveMap.find (fst kv) m with
  | Some n' => if n' <? snd kv then PositiveMap.add (fst kv) (snd kv) m else m
  | None => PositiveMap.add (fst kv) (snd kv) m
  end.

Definition build (l : list (positive * Z)) : PositiveMap.t Z := fold_left ins l (PositiveMap.empty Z).

Definition covers (m : PositiveMap.t Z) (k : positive) (n : Z) : Prop :=
  exists n', PositiveMap.find k m = Some n' /\ n <= n'.

Lemma ins_self m k n : covers (ins m (k, n)) k n.
Proof.
  unfold ins, covers. cbn [fst snd]. destruct (PositiveMap.find k m) as [n'|] eqn:F.
  - destruct (Z.ltb_spec n' n).
    + exists n. rewrite PositiveMap.gss. split; [reflexivity|lia].
    + exists n'. split; [exact F|lia].
  - exists n. rewrite PositiveMap.gss. split; [reflexivity|lia].
Qed.

Lemma ins_mono m kv k n : covers m k n -> covers (ins m kv) k n.
Proof.
  intros (n' & F & Hle). destruct kv as [k0 n0].
  destruct (Pos.eq_dec k k0) as [->|N].
  - unfold ins, covers. cbn [fst snd]. rewrite F. destruct (Z.ltb_spec n' n0).
    + exists n0. rewrite PositiveMap.gss. split; [reflexivity|lia].
    + exists n'. split; [exact F|exact Hle].
  - unfold ins, covers. cbn [fst snd].
    destruct (PositiveMap.find k0 m) as [n1|]; [destruct (n1 <? n0)|];
      exists n'; rewrite ?PositiveMap.gso by exact N; split; assumption.
Qed.

Lemma fold_ins_covers l : forall m k n, In (k, n) l \/ covers m k n -> covers (fold_left ins l m) k n.
Proof.
  induction l as [|kv l IH]; intros m k n H; cbn [fold_left].
  - destruct H as [[]|H]. exact H.
  - apply IH. destruct H as [[->|H]|H].
    + right. apply ins_self.
    + left. exact H.
    + right. now apply ins_mono.
Qed.

Definition dtab : list (Z * Z) :=
  flat_map (fun i => map (fun a => (Z.of_nat i, tsyn i a)) syms) (seq 0 89).

Definition dkeys : list (positive * Z) :=
  flat_map (fun n =>
    flat_map (fun v => let t := tsyn n v in
                       map (fun w => (key (Z.lxor t w), Z.of_nat n)) nzsyms) nzsyms) (seq 0 89).

Definition dmap : PositiveMap.t Z := build dkeys.

Definition chk_pair (m : PositiveMap.t Z) (p q : Z * Z) : bool :=
  match PositiveMap.find (key (Z.lxor (snd p) (snd q))) m with
  | None => true
  | Some n => n <=? Z.max (fst p) (fst q)
  end.

Lemma chk_pair_spec m p q n : chk_pair m p q = true ->
  PositiveMap.find (key (Z.lxor (snd p) (snd q))) m = Some n -> n <= Z.max (fst p) (fst q).
Proof. unfold chk_pair. intros C F. rewrite F in C. now apply Z.leb_le. Qed.

Lemma chk_pair_sym m p q : chk_pair m p q = chk_pair m q p.
Proof. unfold chk_pair. now rewrite Z.lxor_comm, Z.max_comm. Qed.

(* f on every unordered pair (the check is symmetric, so half the square suffices) *)
Fixpoint tri {A} (f : A -> A -> bool) (l : list A) : bool :=
  match l with
  | [] => true
  | p :: r => forallb (f p) l && tri f r
  end.

Lemma tri_sound {A} (f : A -> A -> bool) l : tri f l = true ->
  forall p q, In p l -> In q l -> f p q = true \/ f q p = true.
Proof.
  induction l as [|x l IH]; intros H p q Hp Hq; [destruct Hp|].
  cbn [tri] in H. apply andb_true_iff in H. destruct H as [H1 H2]. rewrite forallb_forall in H1.
  destruct Hp as [<-|Hp]; [left; now apply H1|].
  destruct Hq as [<-|Hq]; [right; apply H1; now right|].
  now apply IH.
Qed.

(* the only heavy computation: 2848*2849/2 look-ups in a map with 89*31*31 keys *)
Lemma big_check_true : tri (chk_pair dmap) dtab = true.
Proof. vm_cast_no_check (eq_refl true). Qed.

Lemma In_dtab i a : (i < 89)%nat -> 0 <= a < 32 -> In (Z.of_nat i, tsyn i a) dtab.
Proof.
  intros Hi Ha. unfold dtab. apply in_flat_map. exists i. split; [apply in_seq; lia|].
  apply in_map_iff. exists a. split; [reflexivity|now apply In_syms].
Qed.

Lemma In_dkeys n v w : (n < 89)%nat -> 1 <= v < 32 -> 1 <= w < 32 ->
  In (key (Z.lxor (tsyn n v) w), Z.of_nat n) dkeys.
Proof.
  intros Hn Hv Hw. unfold dkeys. apply in_flat_map. exists n. split; [apply in_seq; lia|].
  apply in_flat_map. exists v. split; [now apply In_nzsyms|]. cbv zeta.
  apply in_map_iff. exists w. split; [reflexivity|now apply In_nzsyms].
Qed.

Lemma dmap_covers n v w : (n < 89)%nat -> 1 <= v < 32 -> 1 <= w < 32 ->
  covers dmap (key (Z.lxor (tsyn n v) w)) (Z.of_nat n).
Proof.
  intros Hn Hv Hw. unfold dmap, build. apply fold_ins_covers. left. now apply In_dkeys.
Qed.

Global Opaque dtab dkeys dmap.

Lemma table_sound n v w i a j b : (n < 89)%nat -> 1 <= v < 32 -> 1 <= w < 32 ->
  (i < n)%nat -> (j < n)%nat -> 0 <= a < 32 -> 0 <= b < 32 ->
  Z.lxor (tsyn n v) w <> Z.lxor (tsyn i a) (tsyn j b).
Proof.
  intros Hn Hv Hw Hi Hj Ha Hb E.
  destruct (dmap_covers n v w Hn Hv Hw) as (n' & F & Hle).
  assert (C : chk_pair dmap (Z.of_nat i, tsyn i a) (Z.of_nat j, tsyn j b) = true).
  { destruct (tri_sound (chk_pair dmap) dtab big_check_true
                (Z.of_nat i, tsyn i a) (Z.of_nat j, tsyn j b)
                (In_dtab i a ltac:(lia) Ha) (In_dtab j b ltac:(lia) Hb)) as [C|C];
      [|rewrite chk_pair_sym]; exact C. }
  rewrite E in F. pose proof (chk_pair_spec _ _ _ _ C F) as B.
  cbn [fst snd] in B. lia.
Qed.

(* ------------------------------------------------------------------ *)
(* 5. no non-zero word of weight <= 4 and length <= 89 has syndrome 0  *)
(* ------------------------------------------------------------------ *)

Lemma lxor_swap a b c : Z.lxor (Z.lxor a b) c = Z.lxor (Z.lxor a c) b.
Proof. rewrite !Z.lxor_assoc. f_equal. apply Z.lxor_comm. Qed.

Lemma core v r w : 1 <= v < 32 -> 1 <= w < 32 -> sym5 r -> (weight r <= 2)%nat ->
  (length r + 2 <= 89)%nat -> run 0 (v :: r ++ [w]) <> 0.
Proof.
  intros Hv Hw Hr Hwt Hlen E.
  assert (E1 : run 0 (v :: r ++ [w]) = Z.lxor (run 0 (v :: r ++ [0])) w).
  { change (v :: r ++ [w]) with ((v :: r) ++ [w]). change (v :: r ++ [0]) with ((v :: r) ++ [0]).
    rewrite !fold_left_app. cbn [fold_left].
    pose proof (polymod_step_linear' (run (polymod_step 0 v) r) 0 0 w) as L.
    rewrite Z.lxor_0_r, Z.lxor_0_l in L. rewrite L. rewrite (step0a w) by lia. reflexivity. }
  rewrite E1 in E. clear E1. rewrite run_cons in E by lia.
  assert (Hl : sym5 (r ++ [0])).
  { apply Forall_app. split; [exact Hr|]. constructor; [lia|constructor]. }
  assert (Hwl : (weight (r ++ [0%Z]) <= 2)%nat).
  { rewrite weight_app. change (weight [0]) with 0%nat. lia. }
  assert (Hll : length (r ++ [0]) = S (length r)).
  { rewrite app_length. cbn [length]. lia. }
  destruct (w2 _ Hl Hwl) as (i & a & j & b & Hi & Hj & Ha & Hb & E2).
  rewrite E2, Hll in E. rewrite Hll in Hi, Hj. cbn [pred] in Hi, Hj.
  apply (table_sound (S (length r)) v w i a j b); try lia.
  apply Z.lxor_eq. rewrite <- E. apply lxor_swap.
Qed.

Lemma head_nonzero v r : 1 <= v < 32 -> sym5 r -> (length r + 1 <= 89)%nat ->
  (weight r <= 3)%nat -> run 0 (v :: r) <> 0.
Proof.
  intros Hv Hr Hlen Hw.
  destruct (le_lt_dec 1 (weight r)) as [H1|H0].
  - destruct (trailing r H1) as (r1 & w & m & E & Hwn). subst r.
    apply Forall_app in Hr. destruct Hr as [Hr1 Hr2].
    inversion Hr2 as [|? ? Hw5 _]; subst.
    rewrite weight_app, weight_cons, weight_zeros in Hw.
    destruct (Z.eqb_spec w 0) as [|_]; [contradiction|].
    rewrite app_length in Hlen. cbn [length] in Hlen.
    replace (v :: r1 ++ w :: repeat 0 m) with ((v :: r1 ++ [w]) ++ repeat 0 m)
      by (cbn [app]; rewrite <- app_assoc; reflexivity).
    rewrite fold_left_app. apply run_zeros_nonzero.
    + apply run_range; [|cbn; lia]. constructor; [lia|]. apply Forall_app. split; [exact Hr1|].
      constructor; [exact Hw5|constructor].
    + apply core; try lia. exact Hr1.
  - rewrite (weight0_zeros r) by lia. cbn [fold_left]. rewrite step0a by lia.
    apply run_zeros_nonzero; [change (2 ^ 30) with 1073741824|]; lia.
Qed.

Theorem syndrome_nonzero e : sym5 e -> (length e <= 89)%nat -> (1 <= weight e <= 4)%nat ->
  run 0 e <> 0.
Proof.
  induction e as [|x e IH]; intros Hs Hlen Hw; [cbn in Hw; lia|].
  inversion Hs as [|? ? Hx He]; subst. rewrite weight_cons in Hw. cbn [length] in Hlen.
  destruct (Z.eqb_spec x 0) as [->|N].
  - rewrite run_zero_cons. apply IH; [exact He|lia|exact Hw].
  - apply head_nonzero; [lia|exact He|lia|lia].
Qed.

(* ------------------------------------------------------------------ *)
(* 6. the theorems                                                     *)
(* ------------------------------------------------------------------ *)

Lemma verify_const hrp data spec : verify_checksum hrp data = Some spec ->
  bech32_polymod (hrp_expand hrp ++ data) = spec_const spec.
Proof.
  unfold verify_checksum. cbv zeta.
  destruct (Z.eqb_spec (bech32_polymod (hrp_expand hrp ++ data)) 1) as [E|E].
  - intros H. injection H as <-. exact E.
  - destruct (Z.eqb_spec (bech32_polymod (hrp_expand hrp ++ data)) bech32m_const) as [E'|E'].
    + intros H. injection H as <-. exact E'.
    + discriminate.
Qed.

Theorem checksum_detects_4 : forall hrp data data' spec,
  Forall (fun c => 0 <= c < 256) hrp -> sym5 data -> sym5 data' ->
  length data = length data' -> (length data <= 89)%nat ->
  (1 <= hamming data data' <= 4)%nat ->
  verify_checksum hrp data = Some spec -> verify_checksum hrp data' <> Some spec.
Proof.
  intros hrp data data' spec _ Hd Hd' Hlen H89 Hham Hv Hv'.
  apply verify_const in Hv, Hv'. unfold bech32_polymod in Hv, Hv'.
  rewrite fold_left_app in Hv, Hv'.
  pose proof (run_xorl data data' (run 1 (hrp_expand hrp)) (run 1 (hrp_expand hrp)) Hlen) as L.
  rewrite Hv, Hv', !Z.lxor_nilpotent in L.
  apply (syndrome_nonzero (xorl data data')).
  - now apply xorl_sym5.
  - rewrite xorl_length by exact Hlen. exact H89.
  - rewrite xorl_weight. exact Hham.
  - exact L.
Qed.

(* the bound 89 is tight: a weight-4 codeword exists in a window of 90 symbols *)
Definition tight_data : list Z := repeat 0 84 ++ create_checksum [97] (repeat 0 84) BECH32.
Definition tight_err : list Z :=
  [1] ++ repeat 0 9 ++ [19] ++ repeat 0 64 ++ [15] ++ repeat 0 13 ++ [29].

Lemma sym5_dec l : forallb (fun v => (0 <=? v) && (v <? 32)) l = true -> sym5 l.
Proof.
  intros H. rewrite forallb_forall in H. apply Forall_forall. intros x Hx.
  specialize (H x Hx). apply andb_true_iff in H. destruct H as [H1 H2].
  apply Z.leb_le in H1. apply Z.ltb_lt in H2. lia.
Qed.

Theorem checksum_distance_tight : exists data data', sym5 data /\ sym5 data' /\
  length data = 90%nat /\ length data' = 90%nat /\
  hamming data data' = 4%nat /\
  verify_checksum [97] data = Some BECH32 /\ verify_checksum [97] data' = Some BECH32.
Proof.
  exists tight_data, (xorl tight_data tight_err).
  split; [apply sym5_dec; vm_compute; reflexivity|].
  split; [apply sym5_dec; vm_compute; reflexivity|].
  repeat split; vm_compute; reflexivity.
Qed.

Print Assumptions checksum_detects_4.
Print Assumptions checksum_distance_tight.
