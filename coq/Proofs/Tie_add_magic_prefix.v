(* Source tie for utils.add_magic_prefix: the function as translated from the current source (Gen/Src.v) equals the model. *)
From Coq Require Import String ZArith List Bool Lia ZifyBool.
From BU Require Import Lib.Bytes Lib.BytesFacts Lib.PySem Gen.Tables Gen.Src Model.Varint Model.Script Model.Seq Model.Tx Model.Sighash Model.Msg Model.Taproot
  Proofs.ScriptNumFacts Proofs.TieLib Proofs.Tie_encode_varint.
Import ListNotations.
Open Scope list_scope.
Open Scope Z_scope.

Lemma src_add_magic_prefix_eq : forall m, src_add_magic_prefix m = of_option (add_magic_prefix m).
Proof.
  intros m. unfold src_add_magic_prefix, add_magic_prefix. tie_pipe.
Qed.
