(* Taproot script trees: the model's branch hash, merkle root and merkle path (Model/Taproot.v)
   against BIP341 (Spec/BIP341.v). *)
From Coq Require Import ZArith String List Bool Lia.
From BU Require Import Lib.Bytes Lib.BytesFacts Gen.Tables Model.Varint Model.Script Model.EC Model.Sighash Model.Schnorr Model.Taproot
  Spec.CompactSize Spec.Consensus Spec.BIP341 Proofs.VarintFacts Proofs.TxFacts.
From BU Require Import Spec.Curve.
Import ListNotations.
Open Scope list_scope.
Open Scope Z_scope.

(* ------------------------------------------------------------------------------------------ *)
(* lexicographic comparison *)

Lemma bytes_ltb_irrefl a : bytes_ltb a a = false.
Proof. induction a as [|x a IH]; cbn [bytes_ltb]; [reflexivity|]. now rewrite Z.ltb_irrefl. Qed.

Lemma bytes_ltb_asym a b : bytes_ltb a b = true -> bytes_ltb b a = false.
Proof.
  revert b; induction a as [|x a IH]; intros [|y b]; cbn [bytes_ltb]; try congruence.
  destruct (x <? y) eqn:E1, (y <? x) eqn:E2; try congruence; try lia. apply IH.
Qed.

Lemma bytes_ltb_trichotomy a b : bytes_ltb a b = true \/ a = b \/ bytes_ltb b a = true.
Proof.
  revert b; induction a as [|x a IH]; intros [|y b]; cbn [bytes_ltb]; auto.
  destruct (x <? y) eqn:E1; [now left|]. destruct (y <? x) eqn:E2; [now right; right|].
  assert (x = y) by lia. subst y.
  destruct (IH b) as [H|[H|H]]; [now left|right; left; now subst|now right; right].
Qed.

(* ------------------------------------------------------------------------------------------ *)
(* proper trees and their BIP341 counterpart *)

Inductive proper : tree -> Prop :=
| P_leaf s : proper (TLeaf s)
| P_one t : proper t -> proper (TList1 t)
| P_two a b : proper a -> proper b -> proper (TList2 a b).

Fixpoint leaves (t : tree) : list (list tok) :=
  match t with
  | TLeaf s => [s]
  | TList1 t' => leaves t'
  | TList2 a b => leaves a ++ leaves b
  | _ => []
  end.

Fixpoint to_stree (t : tree) : option stree :=
  match t with
  | TLeaf s => option_map SLeaf (to_bytes s)
  | TList1 t' => to_stree t'
  | TList2 a b => match to_stree a, to_stree b with Some x, Some y => Some (SNode x y) | _, _ => None end
  | _ => None
  end.

(* chunking *)
Lemma chunks32_nil f : chunks32 f [] = [].
Proof. destruct f; reflexivity. Qed.

Lemma chunks32_cons f b : b <> [] -> chunks32 (S f) b = firstn 32 b :: chunks32 f (skipn 32 b).
Proof. destruct b; [congruence|reflexivity]. Qed.

Lemma chunks32_app_gen m : forall pth h f1 f2,
  length pth = (32 * m)%nat -> length h = 32%nat -> (m <= f1)%nat -> (m + 1 <= f2)%nat ->
  chunks32 f2 (pth ++ h) = chunks32 f1 pth ++ [h].
Proof.
  induction m as [|m IH]; intros pth h f1 f2 Hp Hh H1 H2.
  - destruct pth; [|cbn in Hp; lia]. rewrite chunks32_nil. cbn [app].
    destruct f2 as [|f2]; [lia|]. rewrite chunks32_cons by (destruct h; [cbn in Hh; lia|congruence]).
    rewrite firstn_all2 by lia. rewrite skipn_all2 by lia. now rewrite chunks32_nil.
  - destruct f1 as [|f1]; [lia|]. destruct f2 as [|f2]; [lia|].
    assert (Hne : pth <> []) by (destruct pth; [cbn in Hp; lia|congruence]).
    rewrite (chunks32_cons f1 pth Hne).
    rewrite chunks32_cons by (destruct pth; [congruence|cbn; congruence]).
    rewrite firstn_app, skipn_app.
    replace (32 - length pth)%nat with 0%nat by lia.
    change (firstn 0 h) with (@nil Z). change (skipn 0 h) with h. rewrite app_nil_r.
    cbn [app]. f_equal. apply IH; [rewrite skipn_length; lia|assumption|lia|lia].
Qed.

Lemma chunks32_app pth h : (length pth mod 32 = 0)%nat -> length h = 32%nat ->
  chunks32 (length (pth ++ h)) (pth ++ h) = chunks32 (length pth) pth ++ [h].
Proof.
  intros Hm Hh. apply Nat.mod_divides in Hm; [|lia]. destruct Hm as [m Hm].
  apply (chunks32_app_gen m); [assumption|assumption|lia|rewrite app_length; lia].
Qed.

Section M.
  Variable sha256 : bytes -> bytes.
  Hypothesis Hlen : forall x, length (sha256 x) = 32%nat.

  Let TL := str_bytes "TapLeaf".
  Let TB := str_bytes "TapBranch".

  (* 1. the branch hash *)
  Lemma tapbranch_is_spec a b :
    tapbranch_tagged_hash sha256 a b = branch_hash sha256 (str_bytes "TapBranch") a b.
  Proof.
    unfold tapbranch_tagged_hash, branch_hash, tagged_hash, htag.
    destruct (bytes_ltb_trichotomy a b) as [H|[H|H]].
    - rewrite H, (bytes_ltb_asym a b H). reflexivity.
    - subst b. rewrite bytes_ltb_irrefl. reflexivity.
    - rewrite H, (bytes_ltb_asym b a H). reflexivity.
  Qed.

  Lemma branch_hash_comm tg a b : branch_hash sha256 tg a b = branch_hash sha256 tg b a.
  Proof.
    unfold branch_hash.
    destruct (bytes_ltb_trichotomy a b) as [H|[H|H]].
    - rewrite H, (bytes_ltb_asym a b H). reflexivity.
    - subst b. reflexivity.
    - rewrite H, (bytes_ltb_asym b a H). reflexivity.
  Qed.

  Lemma tapleaf_is_spec s sb : to_bytes s = Some sb -> Z.of_nat (length sb) < two64 ->
    tapleaf_tagged_hash sha256 s = Some (leaf_hash sha256 (str_bytes "TapLeaf") 192 sb).
  Proof.
    intros H Hl. unfold tapleaf_tagged_hash. rewrite H. cbn [obind].
    unfold prepend_compact_size. rewrite encode_len by lia. cbn [option_map obind].
    unfold leaf_hash, htag, tagged_hash, ser_bytes. reflexivity.
  Qed.

  Definition small_scripts (t : tree) : Prop :=
    forall s sb, In s (leaves t) -> to_bytes s = Some sb -> Z.of_nat (length sb) < two64.

  Lemma small_scripts_two a b : small_scripts (TList2 a b) -> small_scripts a /\ small_scripts b.
  Proof.
    unfold small_scripts. cbn [leaves]. intros H.
    split; intros s sb Hi Hs; apply (H s sb); try assumption; apply in_or_app; auto.
  Qed.

  (* 2. the root *)
  Theorem merkle_root_spec t st : proper t -> to_stree t = Some st ->
    (forall s sb, In s (leaves t) -> to_bytes s = Some sb -> Z.of_nat (length sb) < two64) ->
    merkle_root sha256 t = Some (tree_root sha256 (str_bytes "TapLeaf") (str_bytes "TapBranch") st).
  Proof.
    intros Hp. revert st. induction Hp as [s|t Hp IH|a b Ha IHa Hb IHb]; intros st Hst Hs.
    - cbn [to_stree] in Hst. destruct (to_bytes s) as [sb|] eqn:E; [|discriminate].
      cbn [option_map] in Hst. injection Hst as <-. cbn [merkle_root tree_root].
      apply tapleaf_is_spec; [assumption|]. apply (Hs s sb); [now left|assumption].
    - cbn [to_stree] in Hst. cbn [merkle_root]. apply IH; assumption.
    - cbn [to_stree] in Hst.
      destruct (to_stree a) as [sa|] eqn:Ea; [|discriminate].
      destruct (to_stree b) as [sb'|] eqn:Eb; [|discriminate]. injection Hst as <-.
      destruct (small_scripts_two a b Hs) as [Hsa Hsb].
      cbn [merkle_root tree_root]. rewrite (IHa sa eq_refl Hsa), (IHb sb' eq_refl Hsb). cbn [obind].
      now rewrite tapbranch_is_spec.
  Qed.

  Lemma tree_root_length st : length (tree_root sha256 TL TB st) = 32%nat.
  Proof.
    destruct st; cbn [tree_root]; unfold leaf_hash, branch_hash, htag; [apply Hlen|].
    destruct (bytes_ltb _ _); apply Hlen.
  Qed.

  (* the traversal when the target is not in this subtree: the subtree root, unmarked; no assumption
     on the scripts, both sides fail together *)
  Lemma traverse_miss t : proper t -> forall target c,
    target < c \/ c + Z.of_nat (length (leaves t)) <= target ->
    traverse sha256 t target c =
    option_map (fun r => (r, false, c + Z.of_nat (length (leaves t)))) (merkle_root sha256 t).
  Proof.
    induction 1 as [s|t Hp IH|a b Ha IHa Hb IHb]; intros target c Hr.
    - cbn [leaves length] in *. cbn [traverse merkle_root].
      replace (c =? target) with false by lia.
      destruct (tapleaf_tagged_hash sha256 s); reflexivity.
    - cbn [traverse merkle_root leaves]. apply IH. exact Hr.
    - cbn [leaves] in *. rewrite app_length, Nat2Z.inj_add in *.
      cbn [traverse merkle_root]. rewrite IHa by lia.
      destruct (merkle_root sha256 a) as [x|]; [|reflexivity]. cbn [option_map obind].
      rewrite IHb by lia.
      destruct (merkle_root sha256 b) as [y|]; [|reflexivity]. cbn [option_map obind].
      now rewrite Z.add_assoc.
  Qed.

  (* nesting depth of pairs: one 32-byte path element per level *)
  Fixpoint depth (t : tree) : nat :=
    match t with
    | TList1 t' => depth t'
    | TList2 a b => S (Nat.max (depth a) (depth b))
    | _ => 0
    end.

  (* the traversal when the target is leaf number k of this subtree *)
  Lemma traverse_hit t : proper t -> forall st, to_stree t = Some st -> small_scripts t ->
    forall k c s sb, nth_error (leaves t) k = Some s -> to_bytes s = Some sb ->
    exists path, traverse sha256 t (c + Z.of_nat k) c = Some (path, true, c + Z.of_nat (length (leaves t))) /\
      (length path mod 32 = 0)%nat /\ (length path <= 32 * depth t)%nat /\
      fold_left (branch_hash sha256 TB) (chunks32 (length path) path) (leaf_hash sha256 TL 192 sb)
      = tree_root sha256 TL TB st.
  Proof.
    induction 1 as [s0|t Hp IH|a b Ha IHa Hb IHb]; intros st Hst Hs k c s sb Hk Hsb.
    - cbn [leaves] in Hk. destruct k as [|k]; [|destruct k; discriminate].
      cbn [nth_error] in Hk. injection Hk as ->.
      cbn [to_stree] in Hst. rewrite Hsb in Hst. cbn [option_map] in Hst. injection Hst as <-.
      exists []. cbn [traverse leaves length]. rewrite Z.add_0_r, Z.eqb_refl.
      split; [reflexivity|]. split; [reflexivity|]. split; [cbn; lia|reflexivity].
    - cbn [to_stree leaves traverse depth] in *. eapply IH; eassumption.
    - cbn [to_stree] in Hst.
      destruct (to_stree a) as [sa|] eqn:Ea; [|discriminate].
      destruct (to_stree b) as [sb'|] eqn:Eb; [|discriminate]. injection Hst as <-.
      destruct (small_scripts_two a b Hs) as [Hsa Hsb'].
      cbn [leaves] in *. rewrite app_length, Nat2Z.inj_add.
      cbn [traverse tree_root depth].
      destruct (Nat.ltb k (length (leaves a))) eqn:Elt.
      + apply Nat.ltb_lt in Elt. rewrite nth_error_app1 in Hk by assumption.
        destruct (IHa sa eq_refl Hsa k c s sb Hk Hsb) as (pth & Ht & Hm & Hd & Hf).
        rewrite Ht. cbn [obind].
        rewrite (traverse_miss b Hb) by lia.
        rewrite (merkle_root_spec b sb' Hb Eb Hsb'). cbn [option_map obind].
        eexists. split; [now rewrite Z.add_assoc|].
        pose proof (tree_root_length sb') as Hl.
        split; [|split].
        * rewrite app_length. fold TL TB. rewrite Hl.
          apply Nat.mod_divides in Hm; [|lia]. destruct Hm as [m Hm]. rewrite Hm.
          apply Nat.mod_divides; [lia|]. exists (m + 1)%nat. lia.
        * rewrite app_length. fold TL TB. rewrite Hl. lia.
        * fold TL TB. rewrite chunks32_app by assumption.
          rewrite fold_left_app. cbn [fold_left]. now rewrite Hf.
      + apply Nat.ltb_ge in Elt. rewrite nth_error_app2 in Hk by assumption.
        rewrite (traverse_miss a Ha) by lia.
        rewrite (merkle_root_spec a sa Ha Ea Hsa). cbn [option_map obind].
        destruct (IHb sb' eq_refl Hsb' (k - length (leaves a))%nat (c + Z.of_nat (length (leaves a))) s sb Hk Hsb)
          as (pth & Ht & Hm & Hd & Hf).
        replace (c + Z.of_nat (length (leaves a)) + Z.of_nat (k - length (leaves a))) with (c + Z.of_nat k) in Ht by lia.
        rewrite Ht. cbn [obind].
        eexists. split; [now rewrite Z.add_assoc|].
        pose proof (tree_root_length sa) as Hl.
        split; [|split].
        * rewrite app_length. fold TL TB. rewrite Hl.
          apply Nat.mod_divides in Hm; [|lia]. destruct Hm as [m Hm]. rewrite Hm.
          apply Nat.mod_divides; [lia|]. exists (m + 1)%nat. lia.
        * rewrite app_length. fold TL TB. rewrite Hl. lia.
        * fold TL TB. rewrite chunks32_app by assumption.
          rewrite fold_left_app. cbn [fold_left]. rewrite Hf. apply branch_hash_comm.
  Qed.

  (* 3. the path *)
  Theorem merkle_path_recomputes t st k s sb : proper t -> to_stree t = Some st ->
    (forall s sb, In s (leaves t) -> to_bytes s = Some sb -> Z.of_nat (length sb) < two64) ->
    nth_error (leaves t) k = Some s -> to_bytes s = Some sb ->
    exists path, generate_merkle_path sha256 t (Z.of_nat k) = Some path /\ (length path mod 32 = 0)%nat /\
      fold_left (branch_hash sha256 (str_bytes "TapBranch")) (chunks32 (length path) path)
                (leaf_hash sha256 (str_bytes "TapLeaf") 192 sb)
      = tree_root sha256 (str_bytes "TapLeaf") (str_bytes "TapBranch") st.
  Proof.
    intros Hp Hst Hs Hk Hsb.
    destruct (traverse_hit t Hp st Hst Hs k 0 s sb Hk Hsb) as (path & Ht & Hm & _ & Hf).
    exists path. unfold generate_merkle_path. cbn [Z.add] in Ht. rewrite Ht. cbn [option_map fst].
    split; [reflexivity|]. split; assumption.
  Qed.

  (* 4. index out of range: nothing is marked and the function returns the merkle root
     (None when a script does not assemble, exactly as merkle_root) *)
  Lemma merkle_path_out_of_range t k : proper t -> (length (leaves t) <= k)%nat ->
    generate_merkle_path sha256 t (Z.of_nat k) = merkle_root sha256 t.
  Proof.
    intros Hp Hk. unfold generate_merkle_path. rewrite (traverse_miss t Hp) by lia.
    destruct (merkle_root sha256 t); reflexivity.
  Qed.

  Lemma merkle_path_negative t i : proper t -> i < 0 ->
    generate_merkle_path sha256 t i = merkle_root sha256 t.
  Proof.
    intros Hp Hk. unfold generate_merkle_path. rewrite (traverse_miss t Hp) by lia.
    destruct (merkle_root sha256 t); reflexivity.
  Qed.
  Lemma merkle_path_length t st k s sb path : proper t -> to_stree t = Some st -> small_scripts t ->
    nth_error (leaves t) k = Some s -> to_bytes s = Some sb ->
    generate_merkle_path sha256 t (Z.of_nat k) = Some path -> (length path <= 32 * depth t)%nat.
  Proof.
    intros Hp Hst Hs Hk Hsb Hg.
    destruct (traverse_hit t Hp st Hst Hs k 0 s sb Hk Hsb) as (path' & Ht & _ & Hd & _).
    unfold generate_merkle_path in Hg. cbn [Z.add] in Ht. rewrite Ht in Hg. cbn [option_map fst] in Hg.
    now injection Hg as <-.
  Qed.

  (* ---------------------------------------------------------------------------------------- *)
  (* 5. the control block verifies under BIP341, over an abstract curve *)
  Variables (p n : Z) (add : point -> point -> point) (lift : Z -> point) (G : point) (on : point -> Prop).
  Hypothesis CL : curve_laws p n add lift G on.
  Let TT := str_bytes "TapTweak".

  Lemma odd_mod2 y : Z.odd y = negb (y mod 2 =? 0).
  Proof. rewrite <- Z.bit0_odd, <- Z.bit0_mod. now destruct (Z.testbit y 0). Qed.

  Lemma even_mod2 y : Z.even y = (y mod 2 =? 0).
  Proof. rewrite <- Z.negb_odd, odd_mod2. now rewrite negb_involutive. Qed.

  (* lift_x of the x coordinate of a curve point is the point itself or its negation, whichever has even y:
     what tweak_taproot_pubkey normalises the internal key to *)
  Lemma lift_normalises px py : on (Some (px, py)) ->
    lift px = Some (px, if negb (py mod 2 =? 0) then p - py else py).
  Proof.
    intros Hon. pose proof (proj1 (cl_coords _ _ _ _ _ _ CL px py Hon)) as [Hpx0 _].
    destruct (lift px) as [[x y]|] eqn:El.
    - destruct (cl_lift_some _ _ _ _ _ _ CL px (Some (x, y)) Hpx0 El ltac:(discriminate)) as (y0 & E & Hon' & Hev).
      injection E as -> ->.
      destruct (cl_x_det _ _ _ _ _ _ CL px py y0 Hon Hon') as [->| ->];
        pose proof (cl_coords _ _ _ _ _ _ CL px py Hon) as [_ Hy];
        destruct (cl_p _ _ _ _ _ _ CL) as [_ Hpo];
        rewrite even_mod2 in Hev; rewrite odd_mod2 in Hpo;
        apply Z.eqb_eq in Hev; apply negb_true_iff, Z.eqb_neq in Hpo.
      + replace (py mod 2 =? 0) with true by lia. reflexivity.
      + replace (py mod 2 =? 0) with false by lia. reflexivity.
    - exfalso. exact (cl_lift_none _ _ _ _ _ _ CL px Hpx0 El py Hon).
  Qed.

  Lemma calculate_tweak_proper pub t : proper t ->
    calculate_tweak sha256 pub (STree t) =
    (do kx <- bytes_from_int (fst pub); do root <- merkle_root sha256 t;
     Some (be_val (tagged_hash sha256 (kx ++ root) "TapTweak"))).
  Proof. destruct 1; reflexivity. Qed.

  Lemma verify_script_path_intro c0 pk path script wp qx odd :
    length pk = 32%nat -> (length path mod 32 = 0)%nat -> (length path <= 128 * 32)%nat ->
    output_key sha256 n add lift G TT (be_val pk)
      (fold_left (branch_hash sha256 TB) (chunks32 (length path) path) (leaf_hash sha256 TL (Z.land c0 254) script))
    = Some (qx, odd) ->
    be_bytes 32 qx = wp -> Z.odd c0 = odd ->
    verify_script_path sha256 n add lift G TL TB TT (c0 :: pk ++ path) script wp = true.
  Proof.
    intros Hpk Hm Hl Ho Hw Hodd. unfold verify_script_path. cbv zeta.
    rewrite (firstn_app_len 32 pk path Hpk), (skipn_app_len 32 pk path Hpk).
    rewrite Hpk, Hm. replace (128 * 32 <? length path)%nat with false by (symmetry; apply Nat.ltb_ge; exact Hl).
    rewrite !Nat.eqb_refl. cbn [negb orb].
    rewrite Ho, Hw, Hodd, bytes_eqb_refl. now destruct odd.
  Qed.

  Theorem control_block_verifies px py t st k s sb odd cb wp :
    on (Some (px, py)) -> proper t -> to_stree t = Some st ->
    (forall s sb, In s (leaves t) -> to_bytes s = Some sb -> Z.of_nat (length sb) < two64) ->
    (depth t <= 128)%nat ->
    nth_error (leaves t) k = Some s -> to_bytes s = Some sb ->
    control_block sha256 (px, py) t (Z.of_nat k) odd = Some cb ->
    to_taproot sha256 add G p (px, py) (STree t) = Some (wp, odd) ->
    (forall tw, calculate_tweak sha256 (px, py) (STree t) = Some tw -> tw < n) ->
    verify_script_path sha256 n add lift G (str_bytes "TapLeaf") (str_bytes "TapBranch") (str_bytes "TapTweak") cb sb wp = true.
  Proof.
    intros Hon Hp Hst Hs Hd Hk Hsb Hcb Htt Htw.
    destruct (traverse_hit t Hp st Hst Hs k 0 s sb Hk Hsb) as (path & Ht & Hm & Hl & Hf).
    cbn [Z.add] in Ht.
    unfold control_block, generate_merkle_path in Hcb. rewrite Ht in Hcb. cbn [option_map fst obind] in Hcb.
    destruct (bytes_from_int px) as [xb|] eqn:Ebx; [|discriminate]. cbn [obind] in Hcb.
    assert (Ex : xb = be_bytes 32 px /\ 0 <= px < 2 ^ 256).
    { unfold bytes_from_int in Ebx. destruct ((0 <=? px) && (px <? 2 ^ 256)) eqn:E; [|discriminate].
      injection Ebx as <-. split; [reflexivity|lia]. }
    destruct Ex as [-> Hpx].
    destruct ((0 <=? (if odd then 1 else 0) + leaf_version_tapscript) &&
              ((if odd then 1 else 0) + leaf_version_tapscript <? 256)); [|discriminate].
    match type of Hcb with Some ?x = Some _ => assert (Ecb : cb = x) by congruence end.
    subst cb. clear Hcb.
    (* the output key *)
    unfold to_taproot in Htt. rewrite (calculate_tweak_proper _ t Hp) in Htt, Htw. cbn [fst] in Htt, Htw.
    rewrite Ebx, (merkle_root_spec t st Hp Hst Hs) in Htt, Htw. cbn [obind] in Htt, Htw.
    specialize (Htw _ eq_refl).
    unfold tweak_taproot_pubkey in Htt. cbv beta zeta iota in Htt.
    match type of Htt with context [add ?P ?Q] => destruct (add P Q) as [[qx qy]|] eqn:Eadd; [|discriminate] end.
    match type of Htt with context [if ?c then Some (qx, _, _) else None] => destruct c; [|discriminate] end.
    cbn [obind] in Htt.
    unfold bytes_from_int in Htt. destruct ((0 <=? qx) && (qx <? 2 ^ 256)); [|discriminate].
    cbn [obind] in Htt. injection Htt as <- <-.
    apply (verify_script_path_intro _ _ _ _ _ qx (Z.odd qy)).
    - apply be_bytes_length.
    - exact Hm.
    - lia.
    - replace (Z.land ((if negb (qy mod 2 =? 0) then 1 else 0) + leaf_version_tapscript) 254) with 192
        by (destruct (negb (qy mod 2 =? 0)); reflexivity).
      fold TL TB in Hf. rewrite Hf.
      rewrite be_val_be_bytes_small by (change (256 ^ Z.of_nat 32) with (2 ^ 256); lia).
      unfold output_key. cbv beta zeta.
      change (htag sha256 TT) with (fun m => tagged_hash sha256 m "TapTweak"). cbv beta.
      unfold TL, TB.
      replace (n <=? _) with false by lia.
      rewrite (lift_normalises px py Hon), Eadd. reflexivity.
    - reflexivity.
    - rewrite (odd_mod2 qy). destruct (negb (qy mod 2 =? 0)); reflexivity.
  Qed.
End M.
