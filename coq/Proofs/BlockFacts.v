From Coq Require Import ZArith String List Bool Lia.
From BU Require Import Lib.Bytes Lib.BytesFacts Gen.Tables Model.Varint Model.Script Model.Tx Model.Block
  Spec.CompactSize Spec.Consensus Proofs.VarintFacts Proofs.ScriptFacts Proofs.TxFacts.
Import ListNotations.
Open Scope list_scope.
Open Scope Z_scope.
Local Opaque le_bytes le_val spec_compact.

(* ------------------------------------------------------------------------------------------ *)
(* 1. block header *)

Lemma slice_length (b : bytes) a n : (a + n <= length b)%nat -> length (slice b a n) = n.
Proof. intros H. unfold slice. rewrite firstn_length, skipn_length. lia. Qed.

Lemma slice_wf b a n : wf_bytes b -> wf_bytes (slice b a n).
Proof. intros H. unfold slice. now apply wf_bytes_firstn, wf_bytes_skipn. Qed.

Lemma skipn_add {A} a n (l : list A) : skipn (a + n) l = skipn n (skipn a l).
Proof.
  revert l; induction a as [|a IH]; intros l; [reflexivity|].
  destruct l as [|x l]; [now rewrite !skipn_nil|]. cbn [Nat.add skipn]. apply IH.
Qed.

Lemma slice_cat (b : bytes) a n c : c = (a + n)%nat -> slice b a n ++ skipn c b = skipn a b.
Proof. intros ->. unfold slice. rewrite skipn_add. apply firstn_skipn. Qed.

Lemma pack_u32_le_val s : wf_bytes s -> length s = 4%nat -> pack_u32 (le_val s) = Some s.
Proof.
  intros Hw Hl. pose proof (le_val_bound s Hw) as Hb. rewrite Hl in Hb.
  change (256 ^ Z.of_nat 4) with 4294967296 in Hb. unfold pack_u32.
  replace ((0 <=? le_val s) && (le_val s <? 4294967296)) with true by lia.
  f_equal. apply field4_le. now split.
Qed.

Lemma header_from_raw_some b : length b = 80%nat ->
  header_from_raw b = Some {| h_version := le_val (slice b 0 4);
                              h_prev := rev (slice b 4 32);
                              h_merkle := rev (slice b 36 32);
                              h_time := le_val (slice b 68 4);
                              h_bits := le_val (slice b 72 4);
                              h_nonce := le_val (slice b 76 4) |}.
Proof.
  intros Hl. unfold header_from_raw. rewrite Hl. change (Z.to_nat header_size) with 80%nat.
  rewrite Nat.eqb_refl. reflexivity.
Qed.

Lemma header_roundtrip b : wf_bytes b -> length b = 80%nat ->
  exists h, header_from_raw b = Some h /\ serialize_header h = Some b.
Proof.
  intros Hw Hl. eexists. split; [now apply header_from_raw_some|].
  unfold serialize_header. cbn [h_version h_prev h_merkle h_time h_bits h_nonce].
  rewrite !pack_u32_le_val by first [now apply slice_wf | apply slice_length; lia].
  cbn [obind]. rewrite !rev_involutive. f_equal.
  replace (slice b 76 4) with (skipn 76 b)
    by (unfold slice; symmetry; apply firstn_all2; rewrite skipn_length; lia).
  rewrite (slice_cat b 72 4 76), (slice_cat b 68 4 72), (slice_cat b 36 32 68),
    (slice_cat b 4 32 36), (slice_cat b 0 4 4) by reflexivity.
  reflexivity.
Qed.

Lemma header_len_reject b : length b <> 80%nat -> header_from_raw b = None.
Proof.
  intros H. unfold header_from_raw. change (Z.to_nat header_size) with 80%nat.
  destruct (Nat.eqb_spec (length b) 80); [contradiction|reflexivity].
Qed.

(* ------------------------------------------------------------------------------------------ *)
(* 2. compact target *)

Lemma bits_split e m : 0 <= m < 2 ^ 24 ->
  Z.shiftr (e * 2 ^ 24 + m) 24 = e /\ Z.land (e * 2 ^ 24 + m) 16777215 = m.
Proof.
  intros Hm. split.
  - rewrite Z.shiftr_div_pow2 by lia. rewrite Z.div_add_l by lia. rewrite Z.div_small by lia. lia.
  - change 16777215 with (Z.ones 24). rewrite Z.land_ones by lia.
    rewrite Z.add_comm, Z.mod_add by lia. apply Z.mod_small. lia.
Qed.

Lemma target_spec v p mk t n e m : 3 <= e -> 0 <= m < 2 ^ 24 ->
  get_target {| h_version := v; h_prev := p; h_merkle := mk; h_time := t; h_bits := e * 2 ^ 24 + m; h_nonce := n |}
  = Some (m * 256 ^ (e - 3)).
Proof.
  intros He Hm. unfold get_target. cbn [h_bits].
  destruct (bits_split e m Hm) as [-> ->].
  replace (e <? 3) with false by lia. f_equal.
  rewrite Z.shiftl_mul_pow2 by lia. rewrite Z.pow_mul_r by lia. reflexivity.
Qed.

Lemma target_small_exponent v p mk t n e m : 0 <= e < 3 -> 0 <= m < 2 ^ 24 ->
  get_target {| h_version := v; h_prev := p; h_merkle := mk; h_time := t; h_bits := e * 2 ^ 24 + m; h_nonce := n |} = None.
Proof.
  intros He Hm. unfold get_target. cbn [h_bits].
  destruct (bits_split e m Hm) as [-> _].
  replace (e <? 3) with true by lia. reflexivity.
Qed.

(* ------------------------------------------------------------------------------------------ *)
(* 3. the length scanner *)

Lemma skip_step (data : bytes) off x r : skipn off data = x ++ r -> skipn (off + length x) data = r.
Proof. intros H. rewrite skipn_add, H. apply skipn_app_exact. Qed.

Lemma pcs_at_spec data off n r : 0 <= n < two64 -> skipn off data = spec_compact n ++ r ->
  pcs_at data off = Some (n, length (spec_compact n)).
Proof. intros Hn H. unfold pcs_at. rewrite H. now apply parse_spec_compact. Qed.

(* the byte shapes the scanner relies on *)
Definition in_shape (x : bytes) : Prop :=
  exists a s q, x = a ++ spec_compact (Z.of_nat (length s)) ++ s ++ q /\
                length a = 36%nat /\ length q = 4%nat /\ Z.of_nat (length s) < two64.
Definition out_shape (x : bytes) : Prop :=
  exists a s, x = a ++ spec_compact (Z.of_nat (length s)) ++ s /\
              length a = 8%nat /\ Z.of_nat (length s) < two64.
Definition item_shape (x : bytes) : Prop :=
  exists s, x = spec_compact (Z.of_nat (length s)) ++ s /\ Z.of_nat (length s) < two64.
Definition stack_shape (x : bytes) : Prop :=
  exists items, x = spec_compact (Z.of_nat (length items)) ++ concat items /\
                Forall item_shape items /\ Z.of_nat (length items) < two64.

Lemma scan_inputs_spec data (xs : list (list Z)) : Forall in_shape xs -> forall off post,
  skipn off data = concat xs ++ post ->
  scan_inputs data (length xs) off = Some (off + length (concat xs))%nat.
Proof.
  induction 1 as [|x xs Hx _ IH]; intros off post H.
  - cbn [length concat scan_inputs]. f_equal. lia.
  - destruct Hx as (a & s & q & -> & La & Lq & Ls).
    cbn [length concat scan_inputs] in *.
    rewrite (pcs_at_spec data (off + 36) (Z.of_nat (length s)) (s ++ q ++ concat xs ++ post)); [|lia|].
    2:{ rewrite <- La. apply skip_step. rewrite H. now rewrite <- ?app_assoc. }
    cbn [obind]. rewrite Nat2Z.id.
    rewrite (IH _ post).
    + f_equal. rewrite !app_length. lia.
    + replace (off + 36 + length (spec_compact (Z.of_nat (length s))) + length s + 4)%nat
        with (off + length (a ++ spec_compact (Z.of_nat (length s)) ++ s ++ q))%nat
        by (rewrite !app_length; lia).
      apply skip_step. rewrite H. now rewrite <- ?app_assoc.
Qed.

Lemma scan_outputs_spec data (xs : list (list Z)) : Forall out_shape xs -> forall off post,
  skipn off data = concat xs ++ post ->
  scan_outputs data (length xs) off = Some (off + length (concat xs))%nat.
Proof.
  induction 1 as [|x xs Hx _ IH]; intros off post H.
  - cbn [length concat scan_outputs]. f_equal. lia.
  - destruct Hx as (a & s & -> & La & Ls).
    cbn [length concat scan_outputs] in *.
    rewrite (pcs_at_spec data (off + 8) (Z.of_nat (length s)) (s ++ concat xs ++ post)); [|lia|].
    2:{ rewrite <- La. apply skip_step. rewrite H. now rewrite <- ?app_assoc. }
    cbn [obind]. rewrite Nat2Z.id.
    rewrite (IH _ post).
    + f_equal. rewrite !app_length. lia.
    + replace (off + 8 + length (spec_compact (Z.of_nat (length s))) + length s)%nat
        with (off + length (a ++ spec_compact (Z.of_nat (length s)) ++ s))%nat
        by (rewrite !app_length; lia).
      apply skip_step. rewrite H. now rewrite <- ?app_assoc.
Qed.

Lemma scan_items_spec data (xs : list (list Z)) : Forall item_shape xs -> forall off post,
  skipn off data = concat xs ++ post ->
  scan_items data (length xs) off = Some (off + length (concat xs))%nat.
Proof.
  induction 1 as [|x xs Hx _ IH]; intros off post H.
  - cbn [length concat scan_items]. f_equal. lia.
  - destruct Hx as (s & -> & Ls).
    cbn [length concat scan_items] in *.
    rewrite (pcs_at_spec data off (Z.of_nat (length s)) (s ++ concat xs ++ post)); [|lia|].
    2:{ rewrite H. now rewrite <- ?app_assoc. }
    cbn [obind]. rewrite Nat2Z.id.
    rewrite (IH _ post).
    + f_equal. rewrite !app_length. lia.
    + replace (off + length (spec_compact (Z.of_nat (length s))) + length s)%nat
        with (off + length (spec_compact (Z.of_nat (length s)) ++ s))%nat
        by (rewrite !app_length; lia).
      apply skip_step. rewrite H. now rewrite <- ?app_assoc.
Qed.

Lemma scan_witnesses_spec data (xs : list (list Z)) : Forall stack_shape xs -> forall off post,
  skipn off data = concat xs ++ post ->
  scan_witnesses data (length xs) off = Some (off + length (concat xs))%nat.
Proof.
  induction 1 as [|x xs Hx _ IH]; intros off post H.
  - cbn [length concat scan_witnesses]. f_equal. lia.
  - destruct Hx as (items & -> & Hi & Ls).
    cbn [length concat scan_witnesses] in *.
    rewrite (pcs_at_spec data off (Z.of_nat (length items)) (concat items ++ concat xs ++ post)); [|lia|].
    2:{ rewrite H. now rewrite <- ?app_assoc. }
    cbn [obind]. rewrite Nat2Z.id.
    rewrite (scan_items_spec data items Hi _ (concat xs ++ post)).
    2:{ apply skip_step. rewrite H. now rewrite <- ?app_assoc. }
    cbn [obind].
    rewrite (IH _ post).
    + f_equal. rewrite !app_length. lia.
    + replace (off + length (spec_compact (Z.of_nat (length items))) + length (concat items))%nat
        with (off + length (spec_compact (Z.of_nat (length items)) ++ concat items))%nat
        by (rewrite !app_length; lia).
      apply skip_step. rewrite H. now rewrite <- ?app_assoc.
Qed.

(* the serialisers produce these shapes *)
Lemma txin_shape i bs : wf_in i -> txin_to_bytes i = Some bs -> in_shape bs.
Proof.
  intros Hw Hb. destruct (script_bytes_some i Hw) as [sb Hsb].
  destruct Hw as (Htw & Htl & Hv & [Hqw Hql] & Hs & Hl).
  unfold txin_to_bytes, pack_u32 in Hb. rewrite Hsb in Hb.
  replace ((0 <=? ti_vout i) && (ti_vout i <? 4294967296)) with true in Hb by lia. cbn [obind] in Hb.
  specialize (Hl sb Hsb). rewrite encode_len in Hb by lia. cbn [obind] in Hb. injection Hb as <-.
  exists (rev (ti_txid i) ++ le_bytes 4 (ti_vout i)), sb, (ti_seq i).
  repeat split; [now rewrite <- ?app_assoc| |exact Hql|exact Hl].
  rewrite app_length, rev_length, le_bytes_length. lia.
Qed.

Lemma txout_shape o bs : wf_out o -> txout_to_bytes o = Some bs -> out_shape bs.
Proof.
  intros Hw Hb. destruct (out_script_some o Hw) as [sb Hsb]. destruct Hw as (Ha & Hs & Hl).
  unfold txout_to_bytes, pack_i64 in Hb. rewrite Hsb in Hb.
  replace ((-9223372036854775808 <=? to_amount o) && (to_amount o <? 9223372036854775808)) with true in Hb by lia.
  cbn [obind] in Hb. specialize (Hl sb Hsb). rewrite encode_len in Hb by lia. cbn [obind] in Hb.
  injection Hb as <-. eexists _, sb. split; [reflexivity|]. split; [apply le_bytes_length|exact Hl].
Qed.

Lemma witness_shape st bs : wf_stack st -> witness_with_count st = Some bs -> stack_shape bs.
Proof.
  intros Hw Hb. rewrite (witness_with_count_spec st Hw) in Hb. injection Hb as <-.
  destruct Hw as [Hi Hl]. exists (map ser_bytes st). rewrite map_length. repeat split; [|exact Hl].
  apply Forall_forall. intros x Hx. apply in_map_iff in Hx. destruct Hx as (d & <- & Hd).
  destruct (Forall_In _ _ Hi d Hd) as [_ Hdl]. exists d. split; [reflexivity|exact Hdl].
Qed.

Lemma concat_opt_chunks {A} (f : A -> option bytes) (P : bytes -> Prop) l :
  (forall x b, In x l -> f x = Some b -> P b) ->
  forall bs, concat_opt f l = Some bs ->
  exists xs, bs = concat xs /\ length xs = length l /\ Forall P xs.
Proof.
  induction l as [|x r IH]; intros H bs Hc.
  - cbn in Hc. injection Hc as <-. exists []. repeat split. constructor.
  - cbn [concat_opt] in Hc. destruct (f x) as [a|] eqn:Ea; [|discriminate]. cbn [obind] in Hc.
    destruct (concat_opt f r) as [b|] eqn:Eb; [|discriminate]. cbn [obind] in Hc. injection Hc as <-.
    destruct (IH (fun y c Hy => H y c (or_intror Hy)) b eq_refl) as (xs & -> & Hl & HP).
    exists (a :: xs). cbn [concat length]. repeat split; [now rewrite Hl|].
    constructor; [|exact HP]. apply (H x a (or_introl eq_refl) Ea).
Qed.

Lemma scanner_spec t b rest : wf_tx t -> tx_serialize t = Some b ->
  get_transaction_length (b ++ rest) = Some (length b).
Proof.
  intros (Hv & Hlt & Hins & Houts & Hn1 & Hni & Hno & Hw) Hb.
  unfold tx_serialize, tx_to_bytes in Hb. rewrite !encode_len in Hb by lia. cbn [obind] in Hb.
  destruct (concat_opt txin_to_bytes (tx_inputs t)) as [ins|] eqn:Ei; [|discriminate]. cbn [obind] in Hb.
  destruct (concat_opt txout_to_bytes (tx_outputs t)) as [outs|] eqn:Eo; [|discriminate]. cbn [obind] in Hb.
  destruct Hv as [Hvw Hvl]. destruct Hlt as [Hlw Hll].
  destruct (concat_opt_chunks txin_to_bytes in_shape (tx_inputs t)
              (fun x c Hx Hc => txin_shape x c (Forall_In _ _ Hins x Hx) Hc) ins Ei) as (xs & -> & Lxs & Fxs).
  destruct (concat_opt_chunks txout_to_bytes out_shape (tx_outputs t)
              (fun x c Hx Hc => txout_shape x c (Forall_In _ _ Houts x Hx) Hc) outs Eo) as (ys & -> & Lys & Fys).
  rewrite <- Lxs, <- Lys in *.
  set (nin := spec_compact (Z.of_nat (length xs))) in *.
  set (nout := spec_compact (Z.of_nat (length ys))) in *.
  destruct (tx_segwit t) eqn:Es.
  - destruct (Hw eq_refl) as [Hwl Hst].
    destruct (concat_opt witness_with_count (tx_witnesses t)) as [wits|] eqn:Ewt; [|discriminate].
    cbn [obind] in Hb. injection Hb as <-.
    destruct (concat_opt_chunks witness_with_count stack_shape (tx_witnesses t)
                (fun x c Hx Hc => witness_shape x c (Forall_In _ _ Hst x Hx) Hc) wits Ewt) as (ws & -> & Lws & Fws).
    rewrite Hwl in Lws.
    rewrite <- ?app_assoc. cbn [app]. rewrite <- ?app_assoc. unfold get_transaction_length.
    rewrite (skipn_app_len 4 (tx_version t)) by exact Hvl.
    cbn [app]. change ((0 =? 0) && negb (1 =? 0)) with true. cbv iota.
    set (data := tx_version t ++ 0 :: 1 :: nin ++ concat xs ++ nout ++ concat ys ++ concat ws ++ tx_locktime t ++ rest).
    assert (H6 : skipn 6 data = nin ++ concat xs ++ nout ++ concat ys ++ concat ws ++ tx_locktime t ++ rest).
    { unfold data. change 6%nat with (4 + 2)%nat. rewrite skipn_add, (skipn_app_len 4 (tx_version t)) by exact Hvl. reflexivity. }
    rewrite (pcs_at_spec data 6 (Z.of_nat (length xs)) _ ltac:(lia) H6). cbn [obind]. rewrite Nat2Z.id. fold nin.
    apply skip_step in H6.
    rewrite (scan_inputs_spec data xs Fxs _ _ H6). cbn [obind].
    apply skip_step in H6.
    rewrite (pcs_at_spec data _ (Z.of_nat (length ys)) _ ltac:(lia) H6). cbn [obind]. rewrite Nat2Z.id. fold nout.
    apply skip_step in H6.
    rewrite (scan_outputs_spec data ys Fys _ _ H6). cbn [obind].
    apply skip_step in H6. rewrite <- Lws.
    rewrite (scan_witnesses_spec data ws Fws _ _ H6). cbn [obind].
    f_equal. rewrite !app_length. cbn [length]. rewrite !app_length. lia.
  - cbn [obind app] in Hb. injection Hb as <-.
    unfold get_transaction_length. rewrite <- ?app_assoc.
    rewrite (skipn_app_len 4 (tx_version t)) by exact Hvl.
    set (data := tx_version t ++ nin ++ concat xs ++ nout ++ concat ys ++ tx_locktime t ++ rest).
    assert (H4 : skipn 4 data = nin ++ concat xs ++ nout ++ concat ys ++ tx_locktime t ++ rest).
    { unfold data. now rewrite (skipn_app_len 4 (tx_version t)) by exact Hvl. }
    destruct (spec_compact_first_nonzero (Z.of_nat (length xs)) ltac:(lia)) as (b0 & r0 & Hsc & Hnz).
    fold nin in Hsc.
    assert (Hlen : (4 <= length (r0 ++ concat xs ++ nout ++ concat ys ++ tx_locktime t ++ rest))%nat)
      by (rewrite !app_length; lia).
    rewrite Hsc at 1. cbn [app].
    destruct (r0 ++ concat xs ++ nout ++ concat ys ++ tx_locktime t ++ rest) as [|fl tl] eqn:Et;
      [cbn [length] in Hlen; lia|].
    replace (b0 =? 0) with false by lia. cbn [andb]. cbv iota.
    rewrite (pcs_at_spec data 4 (Z.of_nat (length xs)) _ ltac:(lia) H4). cbn [obind]. rewrite Nat2Z.id. fold nin.
    apply skip_step in H4.
    rewrite (scan_inputs_spec data xs Fxs _ _ H4). cbn [obind].
    apply skip_step in H4.
    rewrite (pcs_at_spec data _ (Z.of_nat (length ys)) _ ltac:(lia) H4). cbn [obind]. rewrite Nat2Z.id. fold nout.
    apply skip_step in H4.
    rewrite (scan_outputs_spec data ys Fys _ _ H4). cbn [obind].
    f_equal. rewrite !app_length. lia.
Qed.

(* ------------------------------------------------------------------------------------------ *)
(* 4. blocks *)

Definition frame (magic : bytes) (sz : Z) (hdr : bytes) (txbytes : list bytes) : bytes :=
  magic ++ le_bytes 4 sz ++ hdr ++ spec_compact (Z.of_nat (length txbytes)) ++ concat txbytes.

Lemma block_txs_spec txs bss rest : Forall wf_tx txs ->
  Forall2 (fun t b => tx_serialize t = Some b) txs bss ->
  block_txs (length txs) (concat bss ++ rest) = map canon_tx txs.
Proof.
  intros Hw H. induction H as [|t b txs bss Hb _ IH]; [reflexivity|].
  inversion Hw as [|? ? Ht Hts]; subst.
  cbn [length block_txs concat map]. rewrite <- app_assoc.
  rewrite (scanner_spec t b (concat bss ++ rest) Ht Hb).
  rewrite firstn_app_exact, skipn_app_exact, (tx_roundtrip t b Ht Hb).
  now rewrite (IH Hts).
Qed.

Lemma block_txs_spec_nil txs bss : Forall wf_tx txs ->
  Forall2 (fun t b => tx_serialize t = Some b) txs bss ->
  block_txs (length txs) (concat bss) = map canon_tx txs.
Proof.
  intros Hw H. rewrite <- (app_nil_r (concat bss)). now apply block_txs_spec.
Qed.

Lemma Forall2_len {A B} (R : A -> B -> Prop) l1 l2 : Forall2 R l1 l2 -> length l1 = length l2.
Proof. induction 1; cbn [length]; congruence. Qed.

Lemma block_spec magic sz hdr h txs bss :
  length magic = 4%nat -> 0 <= sz < 2 ^ 32 -> wf_bytes hdr -> length hdr = 80%nat -> header_from_raw hdr = Some h ->
  Forall wf_tx txs -> Forall2 (fun t b => tx_serialize t = Some b) txs bss -> Z.of_nat (length txs) < 2 ^ 64 ->
  block_from_raw (frame magic sz hdr bss) =
  Some {| b_magic := magic; b_size := sz; b_header := h; b_count := Z.of_nat (length txs); b_txs := map canon_tx txs |}.
Proof.
  intros Lm Hsz Hhw Lh Hh Hw H2 Hn.
  pose proof (Forall2_len _ _ _ H2) as Ll. unfold frame. rewrite <- Ll.
  set (cnt := spec_compact (Z.of_nat (length txs))).
  set (raw := magic ++ le_bytes 4 sz ++ hdr ++ cnt ++ concat bss).
  assert (S4 : skipn 4 raw = le_bytes 4 sz ++ hdr ++ cnt ++ concat bss)
    by (unfold raw; now rewrite (skipn_app_len 4 magic)).
  assert (S8 : skipn 8 raw = hdr ++ cnt ++ concat bss).
  { change 8%nat with (4 + 4)%nat. rewrite skipn_add, S4. apply skipn_le_bytes_app. }
  assert (S88 : skipn 88 raw = cnt ++ concat bss).
  { change 88%nat with (8 + 80)%nat. rewrite skipn_add, S8. now apply skipn_app_len. }
  unfold block_from_raw, slice. rewrite S4, S8, S88.
  rewrite firstn_le_bytes_app, (firstn_app_len 80 hdr) by exact Lh.
  pose proof (unpack_le_app 4 sz []) as U. rewrite app_nil_r in U. rewrite U
    by (change (256 ^ Z.of_nat 4) with 4294967296; change (2 ^ 32) with 4294967296 in Hsz; lia).
  cbn [obind]. rewrite Hh. cbn [obind].
  unfold cnt at 1. rewrite parse_spec_compact by lia. cbn [obind]. fold cnt.
  rewrite Nat2Z.id. rewrite skipn_add, S88, skipn_app_exact.
  rewrite (block_txs_spec_nil txs bss Hw H2).
  f_equal. f_equal. unfold raw. now apply firstn_app_len.
Qed.
