(* Source tie for the locking-script helpers of C12: Script.to_p2sh_script_pub_key / to_p2wsh_script_pub_key, the
   accessors Address.to_hash160 / SegwitAddress.to_witness_program and the five to_script_pub_key methods. *)
From Coq Require Import String ZArith List Bool Lia ZifyBool.
From BU Require Import Lib.Bytes Lib.BytesFacts Lib.PySem Gen.Tables Gen.Src Model.Varint Model.Script Model.Ripemd160 Model.Address
  Proofs.TieLib.
Import ListNotations.
Open Scope list_scope.
Open Scope Z_scope.

Lemma src_to_p2sh_spk_eq : forall sha256 ts,
  src_to_p2sh_spk sha256 ts = of_option (to_p2sh_script_pub_key (fun b => ripemd160 (sha256 b)) ts).
Proof. intros. unfold src_to_p2sh_spk, to_p2sh_script_pub_key. destruct (to_bytes ts); reflexivity. Qed.

Lemma src_to_p2wsh_spk_eq : forall sha256 ts,
  src_to_p2wsh_spk sha256 ts = of_option (to_p2wsh_script_pub_key sha256 ts).
Proof. intros. unfold src_to_p2wsh_spk, to_p2wsh_script_pub_key. destruct (to_bytes ts); reflexivity. Qed.

Lemma src_accessors_eq : (forall h, src_addr_to_hash160 h = Ok h) /\ (forall w, src_seg_to_witness_program w = Ok w).
Proof. split; intros; reflexivity. Qed.

Lemma src_spk_eq : forall h,
  src_p2pkh_spk h = Ok (spk_p2pkh h) /\ src_p2sh_spk h = Ok (spk_p2sh h) /\
  src_p2wpkh_spk h = Ok (spk_segwit P2WPKH h) /\ src_p2wsh_spk h = Ok (spk_segwit P2WSH h) /\ src_p2tr_spk h = Ok (spk_segwit P2TR h).
Proof. intros. repeat split; reflexivity. Qed.
