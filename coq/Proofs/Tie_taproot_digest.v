(* Source tie for Transaction.get_transaction_taproot_digest (BIP341 / BIP342): the function as translated from the
   current source (five loops, the hash-type and extension case analysis, the message layout) equals the model, for every
   non-negative input index. *)
From Coq Require Import String ZArith List Bool Lia ZifyBool.
From BU Require Import Lib.Bytes Lib.BytesFacts Lib.PySem Gen.Tables Gen.Src Model.Varint Model.Script Model.Seq Model.Tx Model.Sighash
  Proofs.ScriptNumFacts Proofs.TieLib Proofs.Tie_encode_varint Proofs.Tie_prepend_compact_size Proofs.Tie_tagged_hash
  Proofs.TieDigestLib.
Import ListNotations.
Open Scope list_scope.
Open Scope Z_scope.
(* a rewritten source that translates but sends a tactic into a long search is reported as a broken proof in bounded time *)
Set Default Timeout 900.

Lemma bytes1_eq x : py_bytes1 x = byte1 x.
Proof. reflexivity. Qed.
Lemma to_bytes_le_8 x : py_to_bytes_le x 8 = pack_u64 x.
Proof. unfold py_to_bytes_le, pack_u64. eval_closed. reflexivity. Qed.
Lemma to_bytes_le_4 x : py_to_bytes_le x 4 = pack_u32 x.
Proof. unfold py_to_bytes_le, pack_u32. eval_closed. reflexivity. Qed.
Lemma pack_le_8 x : py_pack_le 8 x = pack_u64 x.
Proof. unfold py_pack_le, pack_u64. eval_closed. reflexivity. Qed.
#[global] Hint Rewrite bytes1_eq to_bytes_le_8 to_bytes_le_4 pack_le_8 : tie.

Lemma spk_bytes_unfold s :
  spk_bytes s = match to_bytes s with
                | Some sb => match encode_varint (Z.of_nat (length sb)) with Some ln => Some (ln ++ sb) | None => None end
                | None => None end.
Proof. reflexivity. Qed.
Lemma out_bytes_unsigned_unfold o :
  out_bytes_unsigned o = match pack_u64 (to_amount o) with
                         | Some am => match to_bytes (to_script o) with
                                      | Some sb => match encode_varint (Z.of_nat (length sb)) with
                                                   | Some ln => Some (am ++ ln ++ sb) | None => None end
                                      | None => None end
                         | None => None end.
Proof. reflexivity. Qed.
Lemma amount8_unfold a : amount8 a = pack_u64 a.
Proof. reflexivity. Qed.
#[global] Hint Rewrite spk_bytes_unfold out_bytes_unsigned_unfold amount8_unfold : tie.

Ltac body_ok3 :=
  intros; cbv beta iota zeta; unfold obind; tie_pipe.

Ltac loop_step3 :=
  first
  [ erewrite (py_for_acc (fun x => of_option (outpoint_bytes x)) outpoint_bytes); [ | intros; reflexivity | solve [body_ok3] ]
  | erewrite (py_for_acc (fun x => Ok (ti_seq x)) (fun x => Some (ti_seq x))); [ rewrite concat_opt_total | intros; reflexivity | solve [body_ok3] ]
  | erewrite (py_for_acc (fun x => of_option (amount8 x)) amount8); [ | intros; reflexivity | solve [body_ok3] ]
  | erewrite (py_for_acc (fun x => of_option (spk_bytes x)) spk_bytes); [ | intros; reflexivity | solve [body_ok3] ]
  | erewrite (py_for_acc (fun x => of_option (out_bytes_unsigned x)) out_bytes_unsigned); [ | intros; reflexivity | solve [body_ok3] ] ].

Lemma src_taproot_digest_eq : forall sha256 (i : nat) spks ams ext sc lv ht v ins outs l sw w,
  src_taproot_digest sha256 (Z.of_nat i) spks ams ext sc lv ht v ins outs l =
  of_option (taproot_digest sha256 {| tx_version := v; tx_inputs := ins; tx_outputs := outs; tx_locktime := l; tx_segwit := sw; tx_witnesses := w |}
               i spks ams ext sc ht).
Proof.
  intros. unfold src_taproot_digest. not_fallback (@taproot_digest). unfold taproot_digest, taproot_sigmsg, obind.
  cbn [tx_version tx_inputs tx_outputs tx_locktime tx_segwit tx_witnesses]. cbv zeta.
  change (py_bytes1 0) with (Some [0]). cbv beta iota.
  rewrite !bytes1_eq.
  destruct (Z.land ht 128 =? sighash_anyonecanpay) eqn:Eacp;
  destruct (Z.land ht 3 =? sighash_single) eqn:Esingle;
  destruct (Z.land ht 3 =? sighash_none) eqn:Enone;
  destruct (ext =? 1) eqn:Eext;
  cbn [negb andb orb];
  repeat (autorewrite with tie; unfold of_option, option_map, obind; reuse_eqns; cbv beta iota zeta;
          first [ loop_step3 | pipe_step ]);
  autorewrite with tie; unfold of_option; reuse_eqns; cbv beta iota zeta; autorewrite with tie; cbv beta iota zeta;
  try reflexivity; try congruence;
  rewrite <- ?app_assoc, ?app_nil_r; cbn [app]; rewrite <- ?app_assoc, ?app_nil_r; try reflexivity; bytes_eq.
Qed.
