From Coq Require Import ZArith String List Bool Lia.
From BU Require Import Lib.Bytes Lib.BytesFacts Gen.Tables Model.Varint Model.Script Model.Tx Model.Sighash
  Spec.CompactSize Spec.Consensus Spec.SighashSpec Proofs.VarintFacts Proofs.ScriptFacts Proofs.TxFacts
  Proofs.LegacySighashFacts.
Import ListNotations.
Open Scope list_scope.
Open Scope Z_scope.
Local Opaque le_bytes le_val spec_compact.

(* ---- pieces shared by BIP143 and BIP341 ---- *)
Lemma outpoint_bytes_spec x : wf_in_sig x -> outpoint_bytes x = Some (outpoint (abs_in_sig x)).
Proof.
  intros (_ & _ & Hv & _). unfold outpoint_bytes, pack_u32, outpoint, abs_in_sig. cbn [s_txid s_vout].
  replace ((0 <=? ti_vout x) && (ti_vout x <? 4294967296)) with true by lia. reflexivity.
Qed.

Lemma outpoints_spec ins : Forall wf_in_sig ins ->
  concat_opt outpoint_bytes ins = Some (concat (map outpoint (map abs_in_sig ins))).
Proof.
  induction 1 as [|x r Hx _ IH]; cbn [concat_opt map concat]; [reflexivity|].
  rewrite (outpoint_bytes_spec x Hx). cbn [obind]. now rewrite IH.
Qed.

Lemma seqs_spec ins : Forall wf_in_sig ins ->
  concat (map ti_seq ins) = concat (map (fun y => le_bytes 4 (s_seq y)) (map abs_in_sig ins)).
Proof.
  induction 1 as [|x r Hx _ IH]; cbn [map concat]; [reflexivity|].
  destruct Hx as (_ & _ & _ & Hq & _). unfold abs_in_sig at 1. cbn [s_seq]. now rewrite (field4_le _ Hq), IH.
Qed.

Lemma out_signed_is_txout o : out_bytes_signed o = txout_to_bytes o.
Proof. reflexivity. Qed.

Lemma outs_signed_spec outs souts : Forall wf_out outs -> map_opt abs_out outs = Some souts ->
  concat_opt out_bytes_signed outs = Some (concat (map ser_out souts)).
Proof.
  intros Hw Ha. destruct (concat_opt_spec txout_to_bytes abs_out ser_out outs) as (ys & Hys & Hc & _).
  { intros x Hx. apply txout_to_bytes_spec. eapply Forall_In; eauto. }
  rewrite Ha in Hys. injection Hys as <-. exact Hc.
Qed.

Lemma out_unsigned_spec o : wf_out o -> exists so, abs_out o = Some so /\ out_bytes_unsigned o = Some (ser_out so).
Proof.
  intros Hw. destruct (out_script_some o Hw) as [sb Hsb]. destruct Hw as (Ha & _ & Hl).
  unfold abs_out, out_bytes_unsigned, pack_u64. rewrite Hsb. cbn [option_map obind].
  eexists; split; [reflexivity|].
  replace ((0 <=? to_amount o) && (to_amount o <? 18446744073709551616)) with true by lia. cbn [obind].
  rewrite encode_len by (specialize (Hl sb Hsb); lia). cbn [obind]. reflexivity.
Qed.

Lemma outs_unsigned_spec outs souts : Forall wf_out outs -> map_opt abs_out outs = Some souts ->
  concat_opt out_bytes_unsigned outs = Some (concat (map ser_out souts)).
Proof.
  intros Hw Ha. destruct (concat_opt_spec out_bytes_unsigned abs_out ser_out outs) as (ys & Hys & Hc & _).
  { intros x Hx. apply out_unsigned_spec. eapply Forall_In; eauto. }
  rewrite Ha in Hys. injection Hys as <-. exact Hc.
Qed.

Lemma pack_i32_ok ht : 0 <= ht < 2147483648 -> pack_i32 ht = Some (le_bytes 4 ht).
Proof.
  intros H. unfold pack_i32. replace ((-2147483648 <=? ht) && (ht <? 2147483648)) with true by lia.
  now rewrite Z.mod_small by lia.
Qed.

(* ---- BIP143 ---- *)
Definition six_types : list Z := [1; 2; 3; 129; 130; 131].

Lemma flags143 ht : In ht six_types ->
  Z.eqb (Z.land ht 240) sighash_anyonecanpay = negb (Z.eqb (Z.land ht SIGHASH_ANYONECANPAY) 0) /\
  (Z.land ht 31 =? sighash_single) = (Z.land ht 31 =? SIGHASH_SINGLE) /\
  (Z.land ht 31 =? sighash_none) = (Z.land ht 31 =? SIGHASH_NONE) /\ 0 <= ht < 2147483648.
Proof.
  unfold six_types. cbn [In]. intros [<-|[<-|[<-|[<-|[<-|[<-|[]]]]]]]; repeat split; try reflexivity; lia.
Qed.

Section S143.
  Variable sha256 : bytes -> bytes.

  Theorem segwit_preimage_spec t st i script scb amount ht :
    wf_tx_sig t -> abs_tx_sig t = Some st ->
    to_bytes script = Some scb -> Z.of_nat (length scb) < two64 ->
    0 <= amount < 9223372036854775808 -> In ht six_types ->
    segwit_preimage sha256 t i script amount ht = bip143_preimage sha256 st i scb amount ht.
  Proof.
    intros (Hv & Hlt & Hins & Houts & Hni & Hno) Hst Hsc Hl Ham Hht.
    unfold abs_tx_sig in Hst. destruct (map_opt abs_out (tx_outputs t)) as [souts|] eqn:Eo; [|discriminate].
    cbn [option_map] in Hst. injection Hst as <-.
    destruct (flags143 ht Hht) as (Fa & Fs & Fn & Hr).
    unfold segwit_preimage, bip143_preimage. cbv zeta. cbn [s_ins s_outs s_version s_locktime].
    rewrite Fa, Fs, Fn. rewrite nth_error_map.
    set (acp := negb (Z.land ht SIGHASH_ANYONECANPAY =? 0)).
    set (single := Z.land ht 31 =? SIGHASH_SINGLE). set (none := Z.land ht 31 =? SIGHASH_NONE).
    rewrite (outpoints_spec _ Hins), (outs_signed_spec _ _ Houts Eo). cbn [option_map].
    rewrite (seqs_spec _ Hins).
    assert (Hlo : length souts = length (tx_outputs t)) by (eapply map_opt_length; eauto).
    (* hashOutputs agree *)
    assert (Hho :
      (if negb single && negb none then Some (sha256 (sha256 (concat (map ser_out souts))))
       else if single && (i <? length (tx_outputs t))%nat then
              do o <- nth_error (tx_outputs t) i; option_map (fun b => sha256 (sha256 b)) (out_bytes_signed o)
            else Some zeros32)
      = Some (if negb single && negb none then sha256 (sha256 (concat (map ser_out souts)))
              else if single then match nth_error souts i with Some o => sha256 (sha256 (ser_out o)) | None => zero32 end
                   else zero32)).
    { destruct (negb single && negb none); [reflexivity|]. destruct single; cbn [andb]; [|reflexivity].
      destruct (i <? length (tx_outputs t))%nat eqn:Ei.
      - apply Nat.ltb_lt in Ei. destruct (nth_error (tx_outputs t) i) as [o|] eqn:Eoi; [|apply nth_error_None in Eoi; lia].
        destruct (map_opt_nth _ _ _ _ _ Eo Eoi) as (so & Hso & Hab). rewrite Hso. cbn [obind].
        assert (Hwo : wf_out o) by (eapply Forall_In; [exact Houts|eapply nth_error_In; eauto]).
        destruct (txout_to_bytes_spec o Hwo) as (so' & Hab' & Hbo). rewrite Hab in Hab'. injection Hab' as <-.
        rewrite out_signed_is_txout, Hbo. reflexivity.
      - apply Nat.ltb_ge in Ei. rewrite (nth_error_none_len souts i) by lia. reflexivity. }
    destruct (nth_error (tx_inputs t) i) as [x|] eqn:Ex; cbn [option_map].
    2:{ destruct acp; cbn [negb obind]; rewrite Hho; cbn [obind]; reflexivity. }
    assert (Hx : wf_in_sig x) by (eapply Forall_In; [exact Hins|eapply nth_error_In; eauto]).
    assert (Hq : le_bytes 4 (le_val (ti_seq x)) = ti_seq x) by (destruct Hx as (_ & _ & _ & Hq & _); now apply field4_le).
    assert (Hpa : pack_i64 amount = Some (le_bytes 8 amount)).
    { unfold pack_i64. replace ((-9223372036854775808 <=? amount) && (amount <? 9223372036854775808)) with true by lia.
      now rewrite Z.mod_small by lia. }
    assert (Hrest : forall hp hs ho,
      (do op <- outpoint_bytes x; do sc <- to_bytes script;
       do ln <- encode_varint (Z.of_nat (length sc)); do am <- pack_i64 amount; do h <- pack_i32 ht;
       Some (tx_version t ++ hp ++ hs ++ op ++ ln ++ sc ++ am ++ ti_seq x ++ ho ++ tx_locktime t ++ h))
      = Some (le_bytes 4 (le_val (tx_version t)) ++ hp ++ hs ++ outpoint (abs_in_sig x) ++ ser_bytes scb
              ++ le_bytes 8 amount ++ le_bytes 4 (s_seq (abs_in_sig x)) ++ ho ++ le_bytes 4 (le_val (tx_locktime t)) ++ le_bytes 4 ht)).
    { intros hp hs ho. rewrite (outpoint_bytes_spec x Hx). cbn [obind]. rewrite Hsc. cbn [obind].
      rewrite encode_len by lia. cbn [obind]. rewrite Hpa. cbn [obind]. rewrite (pack_i32_ok ht Hr). cbn [obind].
      unfold ser_bytes. unfold abs_in_sig. cbn [s_seq]. rewrite Hq, (field4_le _ Hv), (field4_le _ Hlt).
      now rewrite <- ?app_assoc. }
    destruct acp; cbn [negb obind andb orb].
    - rewrite Hho. cbn [obind]. rewrite Hrest. unfold zeros32, zero32. reflexivity.
    - rewrite Hho. cbn [obind]. rewrite Hrest. f_equal. f_equal. f_equal.
      destruct single, none; cbn [negb andb orb]; reflexivity.
  Qed.
End S143.

(* ---- BIP341 / BIP342 ---- *)
Definition seven_types : list Z := [0; 1; 2; 3; 129; 130; 131].

Lemma flags341 ht : In ht seven_types ->
  Z.eqb (Z.land ht 128) sighash_anyonecanpay = negb (Z.eqb (Z.land ht SIGHASH_ANYONECANPAY) 0) /\
  (Z.land ht 3 =? sighash_single) = (Z.land ht 3 =? SIGHASH_SINGLE) /\
  (Z.land ht 3 =? sighash_none) = (Z.land ht 3 =? SIGHASH_NONE) /\ 0 <= ht < 256.
Proof.
  unfold seven_types. cbn [In]. intros [<-|[<-|[<-|[<-|[<-|[<-|[<-|[]]]]]]]]; repeat split; try reflexivity; lia.
Qed.

Definition tap_tags (n : nat) : bytes := match n with O => str_bytes "TapLeaf" | _ => str_bytes "TapSighash" end.

Lemma amounts_spec amounts : Forall (fun a => 0 <= a < two64) amounts ->
  concat_opt amount8 amounts = Some (concat (map (le_bytes 8) amounts)).
Proof.
  induction 1 as [|a r Ha _ IH]; cbn [concat_opt map concat]; [reflexivity|].
  unfold amount8 at 1, pack_u64. unfold two64 in Ha.
  replace ((0 <=? a) && (a <? 18446744073709551616)) with true by lia. cbn [obind]. now rewrite IH.
Qed.

Lemma spk_bytes_spec s sb : to_bytes s = Some sb -> Z.of_nat (length sb) < two64 -> spk_bytes s = Some (ser_bytes sb).
Proof. intros H Hl. unfold spk_bytes. rewrite H. cbn [obind]. rewrite encode_len by lia. reflexivity. Qed.

Lemma spks_spec spks spkbs : map_opt to_bytes spks = Some spkbs -> Forall (fun b => Z.of_nat (length b) < two64) spkbs ->
  concat_opt spk_bytes spks = Some (concat (map ser_bytes spkbs)).
Proof.
  revert spkbs; induction spks as [|s r IH]; intros spkbs Hm Hl; cbn [map_opt] in Hm.
  - injection Hm as <-. reflexivity.
  - destruct (to_bytes s) as [sb|] eqn:Es; [|discriminate]. destruct (map_opt to_bytes r) as [rb|] eqn:Er; [|discriminate].
    injection Hm as <-. inversion Hl as [|? ? Hl1 Hl2]; subst. cbn [concat_opt map concat].
    rewrite (spk_bytes_spec s sb Es Hl1). cbn [obind]. now rewrite (IH rb eq_refl Hl2).
Qed.

Lemma combine_map_fst {A B} (l1 : list A) (l2 : list B) : length l1 = length l2 -> map fst (combine l1 l2) = l1.
Proof. revert l2; induction l1 as [|a r IH]; intros [|b r2] H; cbn in *; try lia; [reflexivity|]. f_equal. apply IH. lia. Qed.
Lemma combine_map_snd {A B} (l1 : list A) (l2 : list B) : length l1 = length l2 -> map snd (combine l1 l2) = l2.
Proof. revert l2; induction l1 as [|a r IH]; intros [|b r2] H; cbn in *; try lia; [reflexivity|]. f_equal. apply IH. lia. Qed.
Lemma nth_error_combine {A B} (l1 : list A) (l2 : list B) i :
  nth_error (combine l1 l2) i = match nth_error l1 i, nth_error l2 i with Some a, Some b => Some (a, b) | _, _ => None end.
Proof.
  revert l2 i; induction l1 as [|a r IH]; intros [|b r2] [|i]; cbn; try reflexivity.
  - destruct (nth_error r i); reflexivity.
  - apply IH.
Qed.

Section S341.
  Variable sha256 : bytes -> bytes.

  Theorem taproot_digest_spec t st i spks spkbs amounts ext script scb ht :
    wf_tx_sig t -> abs_tx_sig t = Some st ->
    map_opt to_bytes spks = Some spkbs -> Forall (fun b => Z.of_nat (length b) < two64) spkbs ->
    Forall (fun a => 0 <= a < two64) amounts ->
    length spks = length (tx_inputs t) -> length amounts = length (tx_inputs t) ->
    to_bytes script = Some scb -> Z.of_nat (length scb) < two64 ->
    (ext = 0 \/ ext = 1) -> In ht seven_types -> (i < length (tx_inputs t))%nat -> Z.of_nat i < 4294967296 ->
    taproot_digest sha256 t i spks amounts ext script ht
    = taproot_sighash sha256 tap_tags st (combine amounts spkbs) i ht (if ext =? 1 then Some scb else None).
  Proof.
    intros (Hv & Hlt & Hins & Houts & Hni & Hno) Hst Hsp Hspl Ham Hls Hla Hsc Hscl Hext Hht Hin Hi.
    unfold abs_tx_sig in Hst. destruct (map_opt abs_out (tx_outputs t)) as [souts|] eqn:Eo; [|discriminate].
    cbn [option_map] in Hst. injection Hst as <-.
    destruct (flags341 ht Hht) as (Fa & Fs & Fn & Hr).
    assert (Hlb : length spkbs = length spks) by (eapply map_opt_length; eauto).
    assert (Hlc : length amounts = length spkbs) by lia.
    unfold taproot_digest, taproot_sighash, taproot_sigmsg, sigmsg. cbv zeta.
    cbn [s_ins s_outs s_version s_locktime]. rewrite Fa, Fs, Fn. rewrite nth_error_map, nth_error_combine.
    set (acp := negb (Z.land ht SIGHASH_ANYONECANPAY =? 0)).
    set (single := Z.land ht 3 =? SIGHASH_SINGLE). set (none := Z.land ht 3 =? SIGHASH_NONE).
    unfold byte1 at 1. replace ((0 <=? ht) && (ht <? 256)) with true by lia. cbn [obind].
    rewrite (outpoints_spec _ Hins), (amounts_spec _ Ham), (spks_spec _ _ Hsp Hspl), (seqs_spec _ Hins).
    rewrite (outs_unsigned_spec _ _ Houts Eo). cbn [option_map obind].
    rewrite <- (map_map fst (le_bytes 8)), <- (map_map snd ser_bytes), (combine_map_fst _ _ Hlc), (combine_map_snd _ _ Hlc).
    destruct (nth_error (tx_inputs t) i) as [x|] eqn:Ex; [|apply nth_error_None in Ex; lia].
    destruct (nth_error amounts i) as [a|] eqn:Ea; [|apply nth_error_None in Ea; lia].
    destruct (nth_error spks i) as [s|] eqn:Es; [|apply nth_error_None in Es; lia].
    destruct (map_opt_nth _ _ _ _ _ Hsp Es) as (sb & Hsb & Hts). rewrite Hsb. cbn [option_map].
    assert (Hx : wf_in_sig x) by (eapply Forall_In; [exact Hins|eapply nth_error_In; eauto]).
    assert (Hq : le_bytes 4 (le_val (ti_seq x)) = ti_seq x) by (destruct Hx as (_ & _ & _ & Hq & _); now apply field4_le).
    assert (Ha : 0 <= a < two64) by (apply (Forall_In (fun a => 0 <= a < two64) _ Ham a); eapply nth_error_In; eauto).
    assert (Hsbl : Z.of_nat (length sb) < two64) by (apply (Forall_In (fun b => Z.of_nat (length b) < two64) _ Hspl sb); eapply nth_error_In; eauto).
    (* the per-input part *)
    assert (Hthis :
      (if acp then
         do x0 <- Some x; do op <- outpoint_bytes x0; do a0 <- Some a; do ab <- amount8 a0; do s0 <- Some s;
         do sb0 <- spk_bytes s0; Some (op ++ ab ++ sb0 ++ ti_seq x0)
       else pack_u32 (Z.of_nat i))
      = Some (if acp then outpoint (abs_in_sig x) ++ le_bytes 8 a ++ ser_bytes sb ++ le_bytes 4 (s_seq (abs_in_sig x))
              else le_bytes 4 (Z.of_nat i))).
    { destruct acp.
      - cbn [obind]. rewrite (outpoint_bytes_spec x Hx). cbn [obind]. unfold amount8, pack_u64. unfold two64 in Ha.
        replace ((0 <=? a) && (a <? 18446744073709551616)) with true by lia. cbn [obind].
        rewrite (spk_bytes_spec s sb Hts Hsbl). cbn [obind]. unfold abs_in_sig. cbn [s_seq]. now rewrite Hq.
      - unfold pack_u32. replace ((0 <=? Z.of_nat i) && (Z.of_nat i <? 4294967296)) with true by lia. reflexivity. }
    rewrite Hthis. clear Hthis.
    (* the single-output part *)
    assert (Hsing :
      (if single then do o <- nth_error (tx_outputs t) i; option_map sha256 (out_bytes_unsigned o) else Some [])
      = (if single then option_map (fun o => sha256 (ser_out o)) (nth_error souts i) else Some [])).
    { destruct single; [|reflexivity].
      destruct (nth_error (tx_outputs t) i) as [o|] eqn:Eoi.
      - destruct (map_opt_nth _ _ _ _ _ Eo Eoi) as (so & Hso & Hab). rewrite Hso. cbn [obind option_map].
        assert (Hwo : wf_out o) by (eapply Forall_In; [exact Houts|eapply nth_error_In; eauto]).
        destruct (out_unsigned_spec o Hwo) as (so' & Hab' & Hbo). rewrite Hab in Hab'. injection Hab' as <-.
        now rewrite Hbo.
      - apply nth_error_None in Eoi. rewrite (nth_error_none_len souts i); [reflexivity|].
        erewrite map_opt_length by eauto. exact Eoi. }
    rewrite Hsing. clear Hsing.
    (* the script-path extension *)
    assert (Hext2 :
      (if ext =? 1 then
         do lv <- byte1 leaf_version_tapscript; do sb0 <- to_bytes script; do ps <- prepend_compact_size sb0;
         Some (tagged_hash sha256 (lv ++ ps) "TapLeaf" ++ [0] ++ [255; 255; 255; 255])
       else Some [])
      = Some (match (if ext =? 1 then Some scb else None) with
              | Some script0 => hash_tag sha256 (tap_tags 0) ([192] ++ ser_bytes script0) ++ [0] ++ [255; 255; 255; 255]
              | None => []
              end)).
    { destruct (ext =? 1); [|reflexivity]. change (byte1 leaf_version_tapscript) with (Some [192]). cbn [obind].
      rewrite Hsc. cbn [obind]. unfold prepend_compact_size. rewrite encode_len by lia. cbn [option_map obind]. reflexivity. }
    rewrite Hext2. clear Hext2.
    assert (Hspend : byte1 (ext * 2 + 0) = Some [(match (if ext =? 1 then Some scb else None) with Some _ => 1 | None => 0 end) * 2]).
    { destruct Hext as [-> | ->]; reflexivity. }
    rewrite Hspend. clear Hspend.
    rewrite (field4_le _ Hv), (field4_le _ Hlt).
    destruct acp, none, single; cbn [negb orb obind app];
      (destruct (nth_error souts i); cbn [option_map obind]; [|try reflexivity]);
      unfold tagged_hash, hash_tag, tap_tags; rewrite <- ?app_assoc; reflexivity.
  Qed.
End S341.
