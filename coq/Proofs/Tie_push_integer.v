(* Source tie for Script._push_integer: the function as translated from the current source (Gen/Src.v) equals the model. *)
From Coq Require Import String ZArith List Bool Lia ZifyBool.
From BU Require Import Lib.Bytes Lib.BytesFacts Lib.PySem Gen.Tables Gen.Src Model.Varint Model.Script Model.Seq
  Proofs.ScriptNumFacts Proofs.TieLib Proofs.Tie_op_push_data.
Import ListNotations.
Open Scope list_scope.
Open Scope Z_scope.

(* integer = 0 never reaches _push_integer (Script.to_bytes turns 0..16 into OP_n); called directly it raises
   in Python (1 << -1), and so it does in the model *)
Lemma src_push_integer_eq : forall n, src_push_integer n = of_option (push_integer n).
Proof.
  intros n. unfold src_push_integer, push_integer, py_floordiv.
  destruct (n <? 0) eqn:En; [destruct (n <=? 0) eqn:E0; [reflexivity|lia]|].
  destruct (n =? 0) eqn:E0.
  - assert (n = 0) by lia; subst n. reflexivity.
  - assert (Hn : 0 < n) by lia. destruct (n <=? 0) eqn:E00; [lia|].
    change (8 =? 0) with false. cbv iota.
    rewrite (bit_length_bytes n Hn).
    unfold py_to_bytes_le. rewrite Nat2Z.id.
    pose proof (nbytes_spec n Hn) as [_ Hhi].
    replace (2 ^ (8 * Z.of_nat (nbytes n))) with (256 ^ Z.of_nat (nbytes n))
      by (change 256 with (2 ^ 8); rewrite <- Z.pow_mul_r by lia; reflexivity).
    set (P := 256 ^ Z.of_nat (nbytes n)) in *.
    destruct ((0 <=? Z.of_nat (nbytes n)) && (0 <=? n) && (n <? P)) eqn:E; [|lia].
    unfold py_lshift. pose proof (nbytes_pos n Hn).
    destruct (Z.of_nat (nbytes n) * 8 - 1 <? 0) eqn:E2; [lia|].
    unfold push_integer_payload, py_truthy_int.
    destruct (Z.land n (Z.shiftl 1 (Z.of_nat (nbytes n) * 8 - 1)) =? 0) eqn:E3; cbn [negb];
      rewrite src_op_push_data_eq; reflexivity.
Qed.
