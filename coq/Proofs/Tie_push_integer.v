(* Source tie for Script._push_integer: the function as translated from the current source (Gen/Src.v) equals the model. *)
From Coq Require Import String ZArith List Bool Lia ZifyBool.
From BU Require Import Lib.Bytes Lib.BytesFacts Lib.PySem Gen.Tables Gen.Src Model.Varint Model.Script Model.Seq
  Proofs.ScriptNumFacts Proofs.TieLib Proofs.Tie_op_push_data.
Import ListNotations.
Open Scope list_scope.
Open Scope Z_scope.

(* integer = 0 never reaches _push_integer (Script.to_bytes turns 0..16 into OP_n); called directly it raises
   in Python (1 << -1), and so it does in the model *)
Lemma src_push_integer_eq : forall n, src_push_integer n = of_option (push_integer n).
Proof.
  intros n. unfold src_push_integer, push_integer.
  destruct (Z.lt_trichotomy n 0) as [Hneg|[H0|Hpos]].
  - (* negative: whatever the guard looks like, to_bytes refuses a negative integer *)
    unfold py_floordiv, py_to_bytes_le, py_lshift, of_option.
    destruct (n <=? 0) eqn:E0; [|lia].
    split_ifs; try reflexivity; lia.
  - (* zero: number_of_bytes = 0 and 1 << -1 raises *)
    subst n. vm_compute. reflexivity.
  - (* positive *)
    destruct (n <=? 0) eqn:E00; [lia|].
    unfold py_floordiv. change (8 =? 0) with false. cbv iota.
    rewrite (bit_length_bytes n Hpos).
    unfold py_to_bytes_le. rewrite Nat2Z.id.
    pose proof (nbytes_spec n Hpos) as [_ Hhi].
    replace (2 ^ (8 * Z.of_nat (nbytes n))) with (256 ^ Z.of_nat (nbytes n))
      by (change 256 with (2 ^ 8); rewrite <- Z.pow_mul_r by lia; reflexivity).
    set (P := 256 ^ Z.of_nat (nbytes n)) in *.
    unfold py_lshift. pose proof (nbytes_pos n Hpos).
    unfold push_integer_payload, py_truthy_int.
    repeat match goal with
           | |- context [if ?c then _ else _] =>
               lazymatch type of c with bool => idtac end;
               lazymatch c with context [Z.land] => fail | _ => idtac end;
               let E := fresh "E" in destruct c eqn:E; cbv beta iota zeta; try lia
           end;
    try reflexivity;
    destruct (Z.land n (Z.shiftl 1 (Z.of_nat (nbytes n) * 8 - 1)) =? 0) eqn:E3; cbn [negb]; cbv beta iota zeta;
      rewrite ?src_op_push_data_eq; reflexivity.
Qed.
