(* Shared lemmas of the three signature-hash ties: list indexing at a natural index, the model's per-element
   serialisers unfolded, and the tactic that turns each loop of the translated code into the model's concat_opt. *)
From Coq Require Import String ZArith List Bool Lia ZifyBool.
From BU Require Import Lib.Bytes Lib.BytesFacts Lib.PySem Gen.Tables Model.Varint Model.Script Model.Seq Model.Tx Model.Sighash
  Proofs.ScriptNumFacts Proofs.TieLib Proofs.Tie_encode_varint Proofs.Tie_prepend_compact_size.
Import ListNotations.
Open Scope list_scope.
Open Scope Z_scope.

Lemma pack_signed_8 x : py_pack_le_signed 8 x = pack_i64 x.
Proof. unfold py_pack_le_signed, pack_i64. eval_closed. reflexivity. Qed.
Lemma pack_le_4 x : py_pack_le 4 x = pack_u32 x.
Proof. unfold py_pack_le, pack_u32. eval_closed. reflexivity. Qed.
#[global] Hint Rewrite pack_signed_8 pack_le_4 : tie.

Lemma pack_signed_4 x : py_pack_le_signed 4 x = pack_i32 x.
Proof. unfold py_pack_le_signed, pack_i32. eval_closed. reflexivity. Qed.
#[global] Hint Rewrite pack_signed_4 : tie.

Lemma py_nth_nat {A} (l : list A) (i : nat) : py_nth l (Z.of_nat i) = nth_error l i.
Proof.
  unfold py_nth. destruct (Nat.lt_ge_cases i (length l)) as [H|H].
  - replace ((0 <=? Z.of_nat i) && (Z.of_nat i <? Z.of_nat (length l))) with true by lia. rewrite Nat2Z.id. reflexivity.
  - replace ((0 <=? Z.of_nat i) && (Z.of_nat i <? Z.of_nat (length l))) with false by lia.
    replace ((- Z.of_nat (length l) <=? Z.of_nat i) && (Z.of_nat i <? 0)) with false by lia.
    symmetry. apply nth_error_None. exact H.
Qed.
#[global] Hint Rewrite @py_nth_nat : tie.

Lemma ltb_of_nat a b : (Z.of_nat a <? Z.of_nat b) = (a <? b)%nat.
Proof. destruct (Nat.ltb_spec a b); lia. Qed.
#[global] Hint Rewrite ltb_of_nat : tie.

Lemma outpoint_bytes_unfold x :
  outpoint_bytes x = match pack_u32 (ti_vout x) with Some vo => Some (rev (ti_txid x) ++ vo) | None => None end.
Proof. reflexivity. Qed.
Lemma out_bytes_signed_unfold o :
  out_bytes_signed o = match pack_i64 (to_amount o) with
                       | Some am => match to_bytes (to_script o) with
                                    | Some sb => match encode_varint (Z.of_nat (length sb)) with
                                                 | Some ln => Some (am ++ ln ++ sb) | None => None end
                                    | None => None end
                       | None => None end.
Proof. reflexivity. Qed.
#[global] Hint Rewrite outpoint_bytes_unfold out_bytes_signed_unfold : tie.

Lemma concat_opt_total {A} (h : A -> bytes) l : concat_opt (fun x => Some (h x)) l = Some (concat (map h l)).
Proof. induction l as [|x r IH]; cbn [concat_opt map concat obind]; [reflexivity|]. rewrite IH. reflexivity. Qed.

Ltac body_ok2 :=
  intros; cbv beta iota zeta; unfold outpoint_bytes, out_bytes_signed, obind; tie_pipe.

Ltac loop_step2 :=
  first
  [ erewrite (py_for_acc (fun x => of_option (outpoint_bytes x)) outpoint_bytes); [ | intros; reflexivity | solve [body_ok2] ]
  | erewrite (py_for_acc (fun x => Ok (ti_seq x)) (fun x => Some (ti_seq x))); [ rewrite concat_opt_total | intros; reflexivity | solve [body_ok2] ]
  | erewrite (py_for_acc (fun x => of_option (out_bytes_signed x)) out_bytes_signed); [ | intros; reflexivity | solve [body_ok2] ] ].

