(* Executed examples with the concrete SHA-256 of Crypto/Sha256.v (kernel computation): the one address
   whose length depends on the concrete checksum - the all-zero hash on mainnet - is 27 characters, inside
   the library's 26..35 window, is accepted and decodes to its hash. *)
From Coq Require Import ZArith String List.
From BU Require Import Lib.Bytes Crypto.Sha256 Model.Address.
Import ListNotations.
Open Scope string_scope.

Example zero_hash_mainnet :
  option_map (@length Z) (address_to_string sha256 P2PKH "mainnet" (repeat 0%Z 20)) = Some 27%nat /\
  (match address_to_string sha256 P2PKH "mainnet" (repeat 0%Z 20) with
   | Some s => address_from_string sha256 P2PKH "mainnet" s
   | None => None
   end) = Some (repeat 0%Z 20).
Proof. split; vm_compute; reflexivity. Qed.
