(* Facts about the Bitcoin signed-message model of Model/Msg.v over the abstract curve of Spec/Curve.v:
   digest layout, textbook ECDSA completeness, public-key recovery, soundness of verify_message,
   the header search of sign_message and the recovery constructor. *)
From Coq Require Import ZArith String List Bool Lia.
From BU Require Import Lib.Bytes Lib.BytesFacts Model.Varint Model.EC Model.Sighash Model.Schnorr Model.Msg
  Spec.CompactSize Spec.Curve Proofs.VarintFacts Proofs.CurveFacts.
Import ListNotations.
Open Scope list_scope.
Open Scope Z_scope.

Local Opaque point_mul_with le_bytes le_val be_bytes be_val.

Section M.
  Variable sha256 : bytes -> bytes.
  Variables (p n : Z) (add : point -> point -> point) (lift : Z -> point) (G : point) (on : point -> Prop).
  Hypothesis L : curve_laws p n add lift G on.
  Hypothesis Hsizes : n < p /\ p < 2 * n /\ p < 2 ^ 256.            (* true of secp256k1 *)
  Variable inv : Z -> Z.
  Hypothesis Hinv : forall a, a mod n <> 0 -> (a * inv a) mod n = 1.   (* inverse modulo the (prime) group order *)
  Hypothesis Hinv_range : forall a, 0 <= inv a < n.
  Variable sqrts : Z -> list Z.
  (* sympy.sqrt_mod(a, p, True) on the curve equation: both roots when x is the abscissa of a point, none otherwise *)
  Hypothesis Hsq_some : forall x y, on (Some (x, y)) ->
    exists y0 y1, sqrts ((x ^ 3 + 7) mod p) = [y0; y1] /\ ((y0 = y /\ y1 = p - y) \/ (y0 = p - y /\ y1 = y)).

  (* ---------------- 1. digest layout ---------------- *)
  Theorem message_digest_layout msg : Z.of_nat (length msg) < 2 ^ 64 ->
    message_digest sha256 msg = Some (sha256 (sha256 (magic_prefix ++ spec_compact (Z.of_nat (length msg)) ++ msg))).
  Proof.
    intros H. unfold message_digest, add_magic_prefix.
    rewrite encode_is_spec by lia. reflexivity.
  Qed.

  (* ---------------- 7. the recovery constructor ---------------- *)
  Lemma recid_mod4 h : 27 <= h <= 34 -> (h - 27) mod 4 = (if 31 <=? h then h - 31 else h - 27).
  Proof.
    intros H. destruct (Z.leb_spec 31 h).
    - replace (h - 27) with ((h - 31) + 1 * 4) by ring. rewrite Z.mod_add by lia. apply Z.mod_small. lia.
    - apply Z.mod_small. lia.
  Qed.

  (* headers 27, 28, 31, 32 (recovery ids 0 and 1): the same recovery as verification *)
  Theorem recover_pubkey_agrees msg h rs dg : msg <> [] -> length rs = 64%nat -> 27 <= h <= 34 ->
    (if 31 <=? h then h - 31 else h - 27) < 2 ->
    message_digest sha256 msg = Some dg ->
    recover_pubkey sha256 p n add G inv sqrts msg (h :: rs)
    = recover p n add G inv sqrts (be_val dg) (be_val (firstn 32 rs)) (be_val (skipn 32 rs)) (if 31 <=? h then h - 31 else h - 27).
  Proof.
    intros Hm Hl Hh Hid Hd. unfold recover_pubkey.
    destruct msg as [|m0 msg']; [congruence|].
    cbn [length Nat.eqb]. rewrite Hl. change (Nat.eqb 65 65) with true. cbn [negb].
    destruct (Z.leb_spec 27 h), (Z.leb_spec h 34); try lia. cbn [andb negb].
    rewrite Hd. cbn [obind]. cbv zeta. rewrite recid_mod4 by lia.
    destruct ((if 31 <=? h then h - 31 else h - 27) <? 2) eqn:E; [reflexivity|lia].
  Qed.

  (* headers 29, 30, 33, 34 (recovery ids 2 and 3, R.x = r + n): a key is returned exactly when r + n is a field
     element, verification's recovery yields that key, and the key verifies the signature *)
  Theorem recover_pubkey_high msg h rs dg Q : msg <> [] -> length rs = 64%nat -> 27 <= h <= 34 ->
    2 <= (if 31 <=? h then h - 31 else h - 27) ->
    message_digest sha256 msg = Some dg ->
    (recover_pubkey sha256 p n add G inv sqrts msg (h :: rs) = Some Q <->
     be_val (firstn 32 rs) + n < p /\
     recover p n add G inv sqrts (be_val dg) (be_val (firstn 32 rs)) (be_val (skipn 32 rs)) (if 31 <=? h then h - 31 else h - 27) = Some Q /\
     ecdsa_verify n add G inv Q (be_val dg) (be_val (firstn 32 rs)) (be_val (skipn 32 rs)) = true).
  Proof.
    intros Hm Hl Hh Hid Hd. unfold recover_pubkey.
    destruct msg as [|m0 msg']; [congruence|].
    cbn [length Nat.eqb]. rewrite Hl. change (Nat.eqb 65 65) with true. cbn [negb].
    destruct (Z.leb_spec 27 h), (Z.leb_spec h 34); try lia. cbn [andb negb].
    rewrite Hd. cbn [obind]. cbv zeta. rewrite recid_mod4 by lia.
    set (rid := if 31 <=? h then h - 31 else h - 27) in *.
    destruct (rid <? 2) eqn:E; [lia|].
    destruct (p <=? be_val (firstn 32 rs) + n) eqn:Ep.
    - split; [discriminate|intros [Hlt _]; lia].
    - destruct (recover p n add G inv sqrts (be_val dg) (be_val (firstn 32 rs)) (be_val (skipn 32 rs)) rid) as [Q'|] eqn:ER.
      + destruct (ecdsa_verify n add G inv Q' (be_val dg) (be_val (firstn 32 rs)) (be_val (skipn 32 rs))) eqn:EV.
        * split; [intros [= <-]; repeat split; [lia|assumption]|intros (_ & [= <-] & _); reflexivity].
        * split; [discriminate|intros (_ & [= <-] & HV); congruence].
      + split; [discriminate|intros (_ & HF & _); discriminate].
  Qed.

  (* ---------------- 4. soundness of verify_message ---------------- *)
  Theorem verify_message_sound addr_of address sig msg :
    verify_message sha256 p n add G inv sqrts addr_of address sig msg = Some true ->
    exists h rs dg q, sig = h :: rs /\ length rs = 64%nat /\ 27 <= h <= 35 /\ message_digest sha256 msg = Some dg /\
      recover p n add G inv sqrts (be_val dg) (be_val (firstn 32 rs)) (be_val (skipn 32 rs)) (if 31 <=? h then h - 31 else h - 27) = Some (Some q) /\
      ecdsa_verify n add G inv (Some q) (be_val dg) (be_val (firstn 32 rs)) (be_val (skipn 32 rs)) = true /\
      addr_of (31 <=? h) q = address.
  Proof.
    unfold verify_message.
    destruct (Nat.eqb_spec (length sig) 65) as [Hl|Hl]; cbn [negb]; [|congruence].
    destruct sig as [|h rs]; [congruence|].
    destruct (Z.ltb_spec h 27), (Z.ltb_spec 35 h); cbn [orb]; try congruence.
    cbv zeta.
    destruct (message_digest sha256 msg) as [dg|] eqn:Ed; cbn [obind]; [|congruence].
    destruct (recover _ _ _ _ _ _ _ _ _ _) as [[q|]|] eqn:ER; cbn [obind]; try congruence.
    destruct (ecdsa_verify _ _ _ _ _ _ _ _) eqn:EV; cbn [negb]; [|congruence].
    intros HH. assert (Hb : bytes_eqb (addr_of (31 <=? h) q) address = true) by congruence.
    apply bytes_eqb_eq in Hb.
    exists h, rs, dg, q. cbn [length] in Hl.
    repeat split; auto; lia.
  Qed.

  (* ---------------- modular algebra ---------------- *)
  Notation smul := (smul p add).
  Let Ln := n_pos _ _ _ _ _ _ L.
  Let HonG := onG _ _ _ _ _ _ L.

  Lemma mod_wit a : exists q, a = n * q + a mod n.
  Proof. exists (a / n). apply Z.div_mod. pose proof Ln. lia. Qed.

  Lemma mod_eq_wit a b q : a = b + q * n -> a mod n = b mod n.
  Proof. intros ->. apply Z.mod_add. pose proof Ln. lia. Qed.

  Lemma small_mod_nz a : 1 <= a < n -> a mod n <> 0.
  Proof. intros H. rewrite Z.mod_small by lia. lia. Qed.

  (* s = k^-1 (e + r d), w = s^-1  ==>  (e + r d) w = k *)
  Lemma ecdsa_alg_verify t k ik s w :
    (k * ik) mod n = 1 -> s = (ik * t) mod n -> (s * w) mod n = 1 -> (t * w) mod n = k mod n.
  Proof.
    intros E3 E2 E1.
    destruct (mod_wit (k * ik)) as [q3 W3]. rewrite E3 in W3.
    destruct (mod_wit (ik * t)) as [q2 W2]. rewrite <- E2 in W2.
    destruct (mod_wit (s * w)) as [q1 W1]. rewrite E1 in W1.
    apply (mod_eq_wit _ _ (k * q2 * w + k * q1 - q3 * t * w)).
    transitivity ((k * ik - n * q3) * t * w); [rewrite W3; ring|].
    transitivity (k * (ik * t) * w - n * q3 * t * w); [ring|]. rewrite W2.
    transitivity (k * n * q2 * w + k * (s * w) - n * q3 * t * w); [ring|]. rewrite W1. ring.
  Qed.

  (* s = k^-1 (e + r d)  ==>  r^-1 (s k - e) = d *)
  Lemma ecdsa_alg_recover e r d k ik s ir :
    (k * ik) mod n = 1 -> s = (ik * (e + r * d)) mod n -> (r * ir) mod n = 1 ->
    (ir * (s * k + - e)) mod n = d mod n.
  Proof.
    intros E3 E2 E4.
    destruct (mod_wit (k * ik)) as [q3 W3]. rewrite E3 in W3.
    destruct (mod_wit (ik * (e + r * d))) as [q2 W2]. rewrite <- E2 in W2.
    destruct (mod_wit (r * ir)) as [q4 W4]. rewrite E4 in W4.
    apply (mod_eq_wit _ _ (d * q4 + ir * ((e + r * d) * q3 - q2 * k))).
    assert (Es : s = ik * (e + r * d) - n * q2) by lia. rewrite Es.
    transitivity (ir * ((e + r * d) * (k * ik) - n * q2 * k - e)); [ring|]. rewrite W3.
    transitivity (d * (r * ir) + n * ir * ((e + r * d) * q3 - q2 * k)); [ring|]. rewrite W4. ring.
  Qed.

  (* ---------------- 2. textbook ECDSA ---------------- *)
  Definition ecdsa_sig (d k e : Z) (Rx : Z) : Z * Z := let r := Rx mod n in (r, (inv k * (e + r * d)) mod n).

  Lemma n_lt_256 : n < 2 ^ 256.
  Proof. lia. Qed.

  Theorem ecdsa_sign_verifies d k e Rx Ry : 1 <= d < n -> 1 <= k < n -> 0 <= e ->
    smul k G = Some (Rx, Ry) -> let '(r, s) := ecdsa_sig d k e Rx in r <> 0 -> s <> 0 ->
    ecdsa_verify n add G inv (smul d G) e r s = true.
  Proof.
    intros Hd Hk He ER. unfold ecdsa_sig. cbv zeta. cbv iota.
    set (r := Rx mod n). set (s := (inv k * (e + r * d)) mod n). intros Hr Hs.
    pose proof Ln as Hn. pose proof n_lt_256 as Hn256.
    assert (Hrr : 0 <= r < n) by (apply Z.mod_pos_bound; lia).
    assert (Hsr : 0 <= s < n) by (apply Z.mod_pos_bound; lia).
    unfold ecdsa_verify. cbv zeta.
    destruct (Z.leb_spec 1 r), (Z.ltb_spec r n), (Z.leb_spec 1 s), (Z.ltb_spec s n); try lia.
    cbn [andb negb].
    assert (Hu1 : 0 <= (e * inv s) mod n < n) by (apply Z.mod_pos_bound; lia).
    assert (Hu2 : 0 <= (r * inv s) mod n < n) by (apply Z.mod_pos_bound; lia).
    rewrite (point_mul_smul _ _ _ _ _ _ L G) by (auto; lia).
    rewrite (point_mul_smul _ _ _ _ _ _ L (smul d G)) by (try (apply (smul_on _ _ _ _ _ _ L); auto); lia).
    rewrite <- (smul_mul _ _ _ _ _ _ L) by auto.
    rewrite <- (smul_add _ _ _ _ _ _ L) by auto.
    assert (E : smul ((e * inv s) mod n + (r * inv s) mod n * d) G = smul k G).
    { apply (smul_G_inj _ _ _ _ _ _ L).
      rewrite <- (ecdsa_alg_verify (e + r * d) k (inv k) s (inv s)).
      - rewrite Z.add_mod, Z.mod_mod, (Z.mul_mod (_ mod n) d), Z.mod_mod by lia.
        rewrite <- Z.mul_mod, <- Z.add_mod by lia. f_equal. ring.
      - apply Hinv, small_mod_nz; lia.
      - reflexivity.
      - apply Hinv, small_mod_nz; lia. }
    rewrite E, ER. apply Z.eqb_refl.
  Qed.

  (* ---------------- 3. public-key recovery ---------------- *)
  Lemma pick_root y0 y1 Ry recid : 0 <= recid -> Z.even recid = Z.even Ry ->
    (y0 = Ry /\ y1 = p - Ry) \/ (y0 = p - Ry /\ y1 = Ry) ->
    (if (y0 - recid) mod 2 =? 0 then Some y0 else nth_error [y1] 0) = Some Ry.
  Proof.
    intros _ Hpar H. rewrite mod2_even, Z.even_sub, Hpar.
    destruct H as [[-> ->]|[-> ->]].
    - destruct (Z.even Ry); reflexivity.
    - rewrite (even_flip _ _ _ _ _ _ L). destruct (Z.even Ry); reflexivity.
  Qed.

  Theorem recover_correct d k e Rx Ry : 1 <= d < n -> 1 <= k < n -> 0 <= e < 2 ^ 256 ->
    smul k G = Some (Rx, Ry) -> let '(r, s) := ecdsa_sig d k e Rx in r <> 0 -> s <> 0 ->
    let recid := (if Z.even Ry then 0 else 1) + (if Rx <? n then 0 else 2) in
    recover p n add G inv sqrts e r s recid = Some (smul d G).
  Proof.
    intros Hd Hk He ER. unfold ecdsa_sig. cbv zeta. cbv iota.
    set (r := Rx mod n). set (s := (inv k * (e + r * d)) mod n). intros Hr Hs.
    pose proof Ln as Hn. pose proof n_lt_256 as Hn256.
    assert (Hrr : 0 <= r < n) by (apply Z.mod_pos_bound; lia).
    assert (Hsr : 0 <= s < n) by (apply Z.mod_pos_bound; lia).
    assert (HonR : on (Some (Rx, Ry))) by (rewrite <- ER; apply (smul_on _ _ _ _ _ _ L); auto).
    destruct (coords _ _ _ _ _ _ L _ _ HonR) as [HRx HRy].
    set (recid := (if Z.even Ry then 0 else 1) + (if Rx <? n then 0 else 2)).
    assert (Hx : r + (recid / 2) * n = Rx).
    { subst recid r. destruct (Z.ltb_spec Rx n) as [Hlt|Hge].
      - rewrite Z.mod_small by lia.
        destruct (Z.even Ry); [change ((0 + 0) / 2) with 0|change ((1 + 0) / 2) with 0]; ring.
      - assert (Em : Rx mod n = Rx - n).
        { replace Rx with ((Rx - n) + 1 * n) at 1 by ring. rewrite Z.mod_add by lia. apply Z.mod_small. lia. }
        rewrite Em.
        destruct (Z.even Ry); [change ((0 + 2) / 2) with 1|change ((1 + 2) / 2) with 1]; ring. }
    assert (Hpar : Z.even recid = Z.even Ry).
    { subst recid. destruct (Z.even Ry), (Rx <? n); reflexivity. }
    assert (Hrec0 : 0 <= recid).
    { subst recid. destruct (Z.even Ry), (Rx <? n); lia. }
    unfold recover. cbv zeta. rewrite Hx.
    destruct (Hsq_some _ _ HonR) as (y0 & y1 & Esq & Hroots). rewrite Esq.
    rewrite (pick_root y0 y1 Ry recid Hrec0 Hpar Hroots).
    f_equal.
    assert (Hne : 0 <= (- e) mod n < n) by (apply Z.mod_pos_bound; lia).
    pose proof (Hinv_range r) as Hir.
    rewrite (point_mul_smul _ _ _ _ _ _ L (Some (Rx, Ry))) by (auto; lia).
    rewrite (point_mul_smul _ _ _ _ _ _ L G) by (auto; lia).
    rewrite <- ER, <- (smul_mul _ _ _ _ _ _ L), (smul_mod _ _ _ _ _ _ L) by auto.
    rewrite <- (smul_add _ _ _ _ _ _ L) by auto.
    rewrite (point_mul_smul _ _ _ _ _ _ L) by (try (apply (smul_on _ _ _ _ _ _ L); auto); lia).
    rewrite <- (smul_mul _ _ _ _ _ _ L) by auto.
    apply (smul_G_inj _ _ _ _ _ _ L).
    apply (ecdsa_alg_recover e r d k (inv k) s (inv r)).
    - apply Hinv, small_mod_nz; lia.
    - reflexivity.
    - apply Hinv, small_mod_nz; lia.
  Qed.

  (* ---------------- 5. header 35 ---------------- *)
  Theorem header_35_recid : forall h, h = 35 -> (if 31 <=? h then h - 31 else h - 27) = 4.
  Proof. intros h ->. reflexivity. Qed.

  (* sqrt_mod returns no root when no point of the curve has the abscissa *)
  Definition sq_none := forall x, (forall y, ~ on (Some (x, y))) -> sqrts ((x ^ 3 + 7) mod p) = [].

  (* recovery id 4 (header 35): x = r + 2 n >= p is not the abscissa of a point *)
  Theorem recover_recid4_none e r s : sq_none -> 0 <= r -> recover p n add G inv sqrts e r s 4 = None.
  Proof.
    intros Hsq_none Hr. unfold recover. cbv zeta. change (4 / 2) with 2.
    rewrite Hsq_none; [reflexivity|].
    intros y Hon. destruct (coords _ _ _ _ _ _ L _ _ Hon) as [Hx _]. lia.
  Qed.

  Theorem verify_message_header_35 addr_of address rs msg : sq_none -> wf_bytes rs ->
    verify_message sha256 p n add G inv sqrts addr_of address (35 :: rs) msg = None.
  Proof.
    intros Hsq_none Hwf. unfold verify_message.
    destruct (negb _); [reflexivity|].
    change ((35 <? 27) || (35 <? 35)) with false. cbv iota zeta.
    destruct (message_digest sha256 msg) as [dg|]; cbn [obind]; [|reflexivity].
    change (if 31 <=? 35 then 35 - 31 else 35 - 27) with 4.
    rewrite recover_recid4_none; [reflexivity|exact Hsq_none|].
    Local Transparent be_val.
    unfold be_val.
    Local Opaque be_val.
    apply le_val_nonneg, wf_bytes_rev, wf_bytes_firstn, Hwf.
  Qed.

  Corollary verify_message_header_35_never addr_of address sig msg : sq_none -> wf_bytes sig ->
    verify_message sha256 p n add G inv sqrts addr_of address sig msg = Some true ->
    exists h rs, sig = h :: rs /\ 27 <= h <= 34.
  Proof.
    intros Hsq_none Hwf HV. pose proof HV as HV0.
    apply verify_message_sound in HV as (h & rs & dg & q & -> & _ & Hh & _).
    exists h, rs. split; [reflexivity|].
    destruct (Z.eq_dec h 35) as [->|]; [|lia]. exfalso.
    rewrite verify_message_header_35 in HV0; [congruence|exact Hsq_none|].
    apply Forall_inv_tail in Hwf. exact Hwf.
  Qed.

  (* ---------------- 6. signing ---------------- *)
  Theorem sign_message_verifies addr_of pub r s msg c sig :
    sign_message sha256 p n add G inv sqrts addr_of pub r s msg c = Some sig ->
    verify_message sha256 p n add G inv sqrts addr_of (addr_of c pub) sig msg = Some true /\ length sig = 65%nat.
  Proof.
    unfold sign_message.
    destruct (bytes_from_int r) as [rb|]; cbn [obind]; [|congruence].
    destruct (bytes_from_int s) as [sb|]; cbn [obind]; [|congruence].
    cbv zeta. intros H.
    assert (HV : verify_message sha256 p n add G inv sqrts addr_of (addr_of c pub) sig msg = Some true).
    { repeat match type of H with
        | context [verify_message sha256 p n add G inv sqrts addr_of ?a ?sg msg] =>
            let E := fresh "E" in
            destruct (verify_message sha256 p n add G inv sqrts addr_of a sg msg) as [[|]|] eqn:E
        end; cbv iota in H; try congruence;
      (assert (HS : sig = _) by (symmetry; congruence); rewrite HS; assumption). }
    split; [exact HV|].
    unfold verify_message in HV.
    destruct (Nat.eqb_spec (length sig) 65) as [Hl|Hl]; cbn [negb] in HV; [exact Hl|congruence].
  Qed.

  Lemma message_digest_range msg dg : (forall x, length (sha256 x) = 32%nat) -> (forall x, wf_bytes (sha256 x)) ->
    message_digest sha256 msg = Some dg -> 0 <= be_val dg < 2 ^ 256.
  Proof.
    intros Hlen Hwf Hd. unfold message_digest in Hd.
    destruct (add_magic_prefix msg) as [m|]; cbn [option_map] in Hd; [|congruence].
    assert (dg = sha256 (sha256 m)) by congruence. subst dg.
    apply be_val_32_bound; auto.
  Qed.

  (* the attempt with the right recovery id succeeds *)
  Lemma verify_message_signed addr_of d k msg c dg Rx Ry q :
    1 <= d < n -> 1 <= k < n -> 0 <= be_val dg < 2 ^ 256 ->
    message_digest sha256 msg = Some dg -> smul k G = Some (Rx, Ry) ->
    let '(r, s) := ecdsa_sig d k (be_val dg) Rx in r <> 0 -> s <> 0 ->
    smul d G = Some q ->
    let recid := (if Z.even Ry then 0 else 1) + (if Rx <? n then 0 else 2) in
    verify_message sha256 p n add G inv sqrts addr_of (addr_of c q)
      (((if c then 31 else 27) + recid) :: be_bytes 32 r ++ be_bytes 32 s) msg = Some true.
  Proof.
    intros Hd Hk He Hdg ER.
    pose proof (recover_correct d k (be_val dg) Rx Ry Hd Hk He ER) as HR.
    pose proof (ecdsa_sign_verifies d k (be_val dg) Rx Ry Hd Hk (proj1 He) ER) as HV.
    unfold ecdsa_sig in *. cbv zeta in *. cbv iota in *.
    set (r := Rx mod n) in *. set (s := (inv k * (be_val dg + r * d)) mod n) in *.
    intros Hr Hs Eq. specialize (HR Hr Hs). specialize (HV Hr Hs).
    set (recid := (if Z.even Ry then 0 else 1) + (if Rx <? n then 0 else 2)) in *.
    assert (Hrec : 0 <= recid <= 3) by (subst recid; destruct (Z.even Ry), (Rx <? n); lia).
    clearbody recid. rewrite Eq in HR, HV.
    pose proof Ln as Hn. pose proof n_lt_256 as Hn256.
    assert (Hrr : 0 <= r < n) by (apply Z.mod_pos_bound; lia).
    assert (Hsr : 0 <= s < n) by (apply Z.mod_pos_bound; lia).
    set (h := (if c then 31 else 27) + recid).
    assert (Hc : (31 <=? h) = c) by (subst h; destruct c, (Z.leb_spec 31 (31 + recid)), (Z.leb_spec 31 (27 + recid)); auto; lia).
    assert (Hid : (if 31 <=? h then h - 31 else h - 27) = recid) by (rewrite Hc; subst h; destruct c; ring).
    unfold verify_message.
    cbn [length]. rewrite app_length, !be_bytes_length. change (Nat.eqb (S (32 + 32)) 65) with true. cbn [negb].
    destruct (Z.ltb_spec h 27), (Z.ltb_spec 35 h); try (subst h; destruct c; lia). cbn [orb]. cbv zeta.
    rewrite Hdg. cbn [obind].
    rewrite (firstn_app_len 32), (skipn_app_len 32) by apply be_bytes_length.
    rewrite !be_val_be32 by lia.
    rewrite Hid, HR. cbn [obind]. rewrite HV. cbn [negb]. rewrite Hc, bytes_eqb_refl. reflexivity.
  Qed.

  (* the injectivity hypothesis of the proposed statement is not needed for existence and is dropped *)
  Theorem sign_message_total addr_of d k msg c dg Rx Ry : 1 <= d < n -> 1 <= k < n -> Z.of_nat (length msg) < 2 ^ 64 ->
    (forall x, length (sha256 x) = 32%nat) -> (forall x, wf_bytes (sha256 x)) ->
    message_digest sha256 msg = Some dg -> smul k G = Some (Rx, Ry) ->
    let '(r, s) := ecdsa_sig d k (be_val dg) Rx in r <> 0 -> s <> 0 ->
    forall q, smul d G = Some q ->
    exists sig, sign_message sha256 p n add G inv sqrts addr_of q r s msg c = Some sig.
  Proof.
    intros Hd Hk _ Hlen Hwf Hdg ER.
    pose proof (message_digest_range msg dg Hlen Hwf Hdg) as He.
    pose proof (verify_message_signed addr_of d k msg c dg Rx Ry) as HS.
    unfold ecdsa_sig in *. cbv zeta in *. cbv iota in *.
    set (r := Rx mod n) in *. set (s := (inv k * (be_val dg + r * d)) mod n) in *.
    intros Hr Hs q Eq. specialize (HS q Hd Hk He Hdg ER Hr Hs Eq).
    set (recid := (if Z.even Ry then 0 else 1) + (if Rx <? n then 0 else 2)) in *.
    assert (Hrec : recid = 0 \/ recid = 1 \/ recid = 2 \/ recid = 3)
      by (subst recid; destruct (Z.even Ry), (Rx <? n); cbn; auto).
    clearbody recid.
    pose proof Ln as Hn. pose proof n_lt_256 as Hn256.
    assert (Hrr : 0 <= r < n) by (apply Z.mod_pos_bound; lia).
    assert (Hsr : 0 <= s < n) by (apply Z.mod_pos_bound; lia).
    unfold sign_message.
    rewrite (bytes_from_int_ok r), (bytes_from_int_ok s) by lia. cbn [obind]. cbv zeta.
    set (pre := if c then 31 else 27) in *.
    repeat match goal with
      | |- context [verify_message sha256 p n add G inv sqrts addr_of ?a ?sg msg] =>
          let E := fresh "E" in
          destruct (verify_message sha256 p n add G inv sqrts addr_of a sg msg) as [[|]|] eqn:E
      end; cbv iota; try (eexists; reflexivity); exfalso;
    destruct Hrec as [->|[->|[->| ->]]]; try rewrite Z.add_0_r in HS; congruence.
  Qed.
End M.
