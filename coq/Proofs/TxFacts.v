From Coq Require Import ZArith String List Bool Lia.
From BU Require Import Lib.Bytes Lib.BytesFacts Gen.Tables Model.Varint Model.Script Model.Tx
  Spec.CompactSize Spec.Consensus Proofs.VarintFacts Proofs.ScriptFacts.
Import ListNotations.
Open Scope list_scope.
Open Scope Z_scope.
Local Opaque le_bytes le_val spec_compact.

(* ------------------------------------------------------------------------------------------ *)
(* well-formed transactions: the domain of C01/C15/C16 *)

Definition two64 : Z := 18446744073709551616.

Definition wf_field4 (b : bytes) : Prop := wf_bytes b /\ length b = 4%nat.

Definition wf_in (i : txin) : Prop :=
  wf_bytes (ti_txid i) /\ length (ti_txid i) = 32%nat /\
  0 <= ti_vout i < 4294967296 /\ wf_field4 (ti_seq i) /\
  (if is_null_txid (ti_txid i)
   then exists d, ti_script i = [TData d] /\ wf_bytes d
   else Forall wf_tok_dis (ti_script i)) /\
  (forall sb, txin_script_bytes i = Some sb -> Z.of_nat (length sb) < two64).

Definition wf_out (o : txout) : Prop :=
  0 <= to_amount o < 9223372036854775808 /\ Forall wf_tok_dis (to_script o) /\
  (forall sb, to_bytes (to_script o) = Some sb -> Z.of_nat (length sb) < two64).

Definition wf_item (d : bytes) : Prop := wf_bytes d /\ Z.of_nat (length d) < two64.
Definition wf_stack (st : list bytes) : Prop := Forall wf_item st /\ Z.of_nat (length st) < two64.

(* what encoding and size accounting need: no alignment between witnesses and inputs *)
Definition wf_tx_enc (t : tx) : Prop :=
  wf_field4 (tx_version t) /\ wf_field4 (tx_locktime t) /\
  Forall wf_in (tx_inputs t) /\ Forall wf_out (tx_outputs t) /\
  Z.of_nat (length (tx_inputs t)) < two64 /\ Z.of_nat (length (tx_outputs t)) < two64 /\
  (tx_segwit t = true -> Forall wf_stack (tx_witnesses t)).

(* a transaction proper: at least one input and, with witnesses, one stack per input *)
Definition wf_tx (t : tx) : Prop :=
  wf_field4 (tx_version t) /\ wf_field4 (tx_locktime t) /\
  Forall wf_in (tx_inputs t) /\ Forall wf_out (tx_outputs t) /\
  (1 <= length (tx_inputs t))%nat /\
  Z.of_nat (length (tx_inputs t)) < two64 /\ Z.of_nat (length (tx_outputs t)) < two64 /\
  (tx_segwit t = true -> length (tx_witnesses t) = length (tx_inputs t) /\ Forall wf_stack (tx_witnesses t)).

Lemma wf_tx_enc_of t : wf_tx t -> wf_tx_enc t.
Proof. unfold wf_tx, wf_tx_enc. intuition. Qed.

(* ------------------------------------------------------------------------------------------ *)
(* abstraction to the specification's transaction *)

Fixpoint map_opt {A B} (f : A -> option B) (l : list A) : option (list B) :=
  match l with
  | [] => Some []
  | x :: r => match f x, map_opt f r with Some y, Some ys => Some (y :: ys) | _, _ => None end
  end.

Definition abs_in (i : txin) : option s_in :=
  option_map (fun sb => {| s_txid := ti_txid i; s_vout := ti_vout i; s_script := sb; s_seq := le_val (ti_seq i) |})
             (txin_script_bytes i).

Definition abs_out (o : txout) : option s_out :=
  option_map (fun sb => {| s_amount := to_amount o; s_spk := sb |}) (to_bytes (to_script o)).

Definition abs_tx (t : tx) : option s_tx :=
  match map_opt abs_in (tx_inputs t), map_opt abs_out (tx_outputs t) with
  | Some ins, Some outs =>
      Some {| s_version := le_val (tx_version t); s_ins := ins; s_outs := outs;
              s_locktime := le_val (tx_locktime t);
              s_witness := if tx_segwit t then Some (tx_witnesses t) else None |}
  | _, _ => None
  end.

(* ------------------------------------------------------------------------------------------ *)
(* encoding = specification *)

Lemma field4_le b : wf_field4 b -> le_bytes 4 (le_val b) = b.
Proof. intros [Hw Hl]. rewrite <- Hl. now apply le_bytes_le_val. Qed.

Lemma encode_len n : 0 <= n < two64 -> encode_varint n = Some (spec_compact n).
Proof. intros H. apply encode_is_spec. exact H. Qed.

Lemma script_bytes_some i : wf_in i -> exists sb, txin_script_bytes i = Some sb.
Proof.
  intros (_ & _ & _ & _ & Hs & _). unfold txin_script_bytes in *.
  destruct (is_null_txid (ti_txid i)).
  - destruct Hs as (d & -> & _). cbn. eauto.
  - apply to_bytes_some. eapply Forall_impl; [|exact Hs]. intros a [H _]. exact H.
Qed.

Lemma txin_to_bytes_spec i : wf_in i ->
  exists si, abs_in i = Some si /\ txin_to_bytes i = Some (ser_in si).
Proof.
  intros Hw. destruct (script_bytes_some i Hw) as [sb Hsb].
  destruct Hw as (_ & _ & Hv & Hq & _ & Hl).
  unfold abs_in, txin_to_bytes, pack_u32. rewrite Hsb. cbn [option_map obind].
  eexists; split; [reflexivity|].
  replace ((0 <=? ti_vout i) && (ti_vout i <? 4294967296)) with true by lia. cbn [obind].
  rewrite encode_len by (specialize (Hl sb Hsb); lia). cbn [obind].
  unfold ser_in, ser_bytes. cbn [s_txid s_vout s_script s_seq].
  rewrite (field4_le _ Hq). now rewrite <- ?app_assoc.
Qed.

Lemma out_script_some o : wf_out o -> exists sb, to_bytes (to_script o) = Some sb.
Proof.
  intros (_ & Hs & _). apply to_bytes_some. eapply Forall_impl; [|exact Hs]. intros a [H _]. exact H.
Qed.

Lemma txout_to_bytes_spec o : wf_out o ->
  exists so, abs_out o = Some so /\ txout_to_bytes o = Some (ser_out so).
Proof.
  intros Hw. destruct (out_script_some o Hw) as [sb Hsb]. destruct Hw as (Ha & _ & Hl).
  unfold abs_out, txout_to_bytes, pack_i64. rewrite Hsb. cbn [option_map obind].
  eexists; split; [reflexivity|].
  replace ((-9223372036854775808 <=? to_amount o) && (to_amount o <? 9223372036854775808)) with true by lia.
  cbn [obind]. rewrite encode_len by (specialize (Hl sb Hsb); lia). cbn [obind].
  unfold ser_out, ser_bytes. cbn [s_amount s_spk].
  rewrite Z.mod_small by lia. now rewrite <- ?app_assoc.
Qed.

Lemma concat_opt_spec {A B} (f : A -> option bytes) (ab : A -> option B) (g : B -> bytes) l :
  (forall x, In x l -> exists y, ab x = Some y /\ f x = Some (g y)) ->
  exists ys, map_opt ab l = Some ys /\ concat_opt f l = Some (concat (map g ys)) /\ length ys = length l.
Proof.
  induction l as [|x r IH]; intros H.
  - exists []. repeat split.
  - destruct (H x (or_introl eq_refl)) as (y & Hy & Hf).
    destruct IH as (ys & Hys & Hc & Hl); [intros z Hz; apply H; now right|].
    exists (y :: ys). cbn [map_opt concat_opt map concat length]. rewrite Hy, Hys, Hf, Hc. cbn [obind].
    repeat split. now rewrite Hl.
Qed.

Lemma prepend_spec d : wf_item d -> prepend_compact_size d = Some (ser_bytes d).
Proof.
  intros [_ Hl]. unfold prepend_compact_size, ser_bytes. rewrite encode_len by lia. reflexivity.
Qed.

Lemma witness_with_count_spec st : wf_stack st -> witness_with_count st = Some (ser_stack st).
Proof.
  intros [Hi Hl]. unfold witness_with_count, witness_to_bytes, ser_stack.
  rewrite encode_len by lia. cbn [obind].
  assert (E : concat_opt prepend_compact_size st = Some (concat (map ser_bytes st))).
  { induction Hi as [|d r Hd _ IH]; [reflexivity|]. cbn [concat_opt map concat].
    rewrite (prepend_spec d Hd). cbn [obind]. rewrite IH by (cbn [length] in Hl; lia). reflexivity. }
  rewrite E. reflexivity.
Qed.

Lemma witnesses_spec w : Forall wf_stack w ->
  concat_opt witness_with_count w = Some (concat (map ser_stack w)).
Proof.
  induction 1 as [|st r Hs _ IH]; [reflexivity|]. cbn [concat_opt map concat].
  rewrite (witness_with_count_spec st Hs), IH. reflexivity.
Qed.

Lemma Forall_In {A} (P : A -> Prop) l : Forall P l -> forall x, In x l -> P x.
Proof. intros H. now apply Forall_forall. Qed.

Theorem tx_to_bytes_spec_enc t : wf_tx_enc t ->
  exists st, abs_tx t = Some st /\
    tx_serialize t = Some (spec_serialize st) /\
    tx_to_bytes t false = Some (spec_serialize_stripped st).
Proof.
  intros (Hv & Hlt & Hins & Houts & Hni & Hno & Hw).
  destruct (concat_opt_spec txin_to_bytes abs_in ser_in (tx_inputs t)) as (ins & Hai & Hci & Hli).
  { intros x Hx. apply txin_to_bytes_spec. eapply Forall_In; eauto. }
  destruct (concat_opt_spec txout_to_bytes abs_out ser_out (tx_outputs t)) as (outs & Hao & Hco & Hlo).
  { intros x Hx. apply txout_to_bytes_spec. eapply Forall_In; eauto. }
  unfold abs_tx. rewrite Hai, Hao. eexists; split; [reflexivity|].
  unfold tx_serialize, tx_to_bytes, spec_serialize, spec_serialize_stripped, ser_vec.
  cbn [s_version s_ins s_outs s_locktime s_witness].
  rewrite !encode_len by lia. cbn [obind]. rewrite Hci, Hco. cbn [obind].
  rewrite (field4_le _ Hv), (field4_le _ Hlt), Hli, Hlo.
  split.
  - destruct (tx_segwit t) eqn:Es.
    + pose proof (Hw eq_refl) as Hst. rewrite (witnesses_spec _ Hst). cbn [obind].
      now rewrite <- ?app_assoc.
    + cbn [obind app]. now rewrite <- ?app_assoc.
  - cbn [obind app]. now rewrite <- ?app_assoc.
Qed.

Theorem tx_to_bytes_spec t : wf_tx t ->
  exists st, abs_tx t = Some st /\
    tx_serialize t = Some (spec_serialize st) /\
    tx_to_bytes t false = Some (spec_serialize_stripped st).
Proof. intros H. apply tx_to_bytes_spec_enc. now apply wf_tx_enc_of. Qed.

(* ------------------------------------------------------------------------------------------ *)
(* parsing inverts encoding *)

Definition canon_in (i : txin) : txin :=
  {| ti_txid := ti_txid i; ti_vout := ti_vout i;
     ti_script := if is_null_txid (ti_txid i) then ti_script i else map canon_tok (ti_script i);
     ti_seq := ti_seq i |}.

Definition canon_out (o : txout) : txout :=
  {| to_amount := to_amount o; to_script := map canon_tok (to_script o) |}.

Definition canon_tx (t : tx) : tx :=
  {| tx_version := tx_version t; tx_inputs := map canon_in (tx_inputs t); tx_outputs := map canon_out (tx_outputs t);
     tx_locktime := tx_locktime t; tx_segwit := tx_segwit t;
     tx_witnesses := if tx_segwit t then tx_witnesses t else [] |}.

Lemma take_app n (a r : bytes) : length a = n -> take n (a ++ r) = Some (a, r).
Proof.
  intros <-. unfold take. rewrite app_length.
  replace (length a <=? length a + length r)%nat with true by (symmetry; apply Nat.leb_le; lia).
  now rewrite firstn_app_exact, skipn_app_exact.
Qed.

Lemma parse_varint_spec n r : 0 <= n < two64 -> parse_varint (spec_compact n ++ r) = Some (n, r).
Proof.
  intros H. unfold parse_varint. rewrite parse_spec_compact by exact H. cbn [obind].
  now rewrite skipn_app_exact.
Qed.

Lemma le_val_4 v : 0 <= v < 4294967296 -> le_val (le_bytes 4 v) = v.
Proof. intros H. apply le_val_le_bytes_small. change (256 ^ Z.of_nat 4) with 4294967296. lia. Qed.

Lemma le_val_8 v : 0 <= v < two64 -> le_val (le_bytes 8 v) = v.
Proof. intros H. apply le_val_le_bytes_small. change (256 ^ Z.of_nat 8) with two64. lia. Qed.

Lemma txin_parse i bs rest hs : wf_in i -> txin_to_bytes i = Some bs ->
  txin_from_raw (bs ++ rest) hs = Some (canon_in i, rest).
Proof.
  intros Hw Hb. destruct (script_bytes_some i Hw) as [sb Hsb].
  destruct Hw as (Htw & Htl & Hv & [Hqw Hql] & Hs & Hl).
  unfold txin_to_bytes, pack_u32 in Hb. rewrite Hsb in Hb.
  replace ((0 <=? ti_vout i) && (ti_vout i <? 4294967296)) with true in Hb by lia. cbn [obind] in Hb.
  specialize (Hl sb Hsb). rewrite encode_len in Hb by lia. cbn [obind] in Hb. injection Hb as <-.
  unfold txin_from_raw. rewrite <- ?app_assoc.
  rewrite take_app by (now rewrite rev_length). cbn [obind].
  rewrite take_app by apply le_bytes_length. cbn [obind].
  rewrite parse_varint_spec by lia. cbn [obind].
  rewrite Nat2Z.id, take_app by reflexivity. cbn [obind].
  rewrite take_app by exact Hql. cbn [obind].
  rewrite rev_involutive, le_val_4 by exact Hv.
  unfold canon_in. do 2 f_equal. f_equal.
  unfold txin_script_bytes in Hsb. destruct (is_null_txid (ti_txid i)).
  - destruct Hs as (d & Hd & _). rewrite Hd in *. cbn in Hsb. now injection Hsb as <-.
  - now apply from_raw_tokens.
Qed.

Lemma txout_parse o bs rest hs : wf_out o -> txout_to_bytes o = Some bs ->
  txout_from_raw (bs ++ rest) hs = Some (canon_out o, rest).
Proof.
  intros Hw Hb. destruct (out_script_some o Hw) as [sb Hsb]. destruct Hw as (Ha & Hs & Hl).
  unfold txout_to_bytes, pack_i64 in Hb. rewrite Hsb in Hb.
  replace ((-9223372036854775808 <=? to_amount o) && (to_amount o <? 9223372036854775808)) with true in Hb by lia.
  cbn [obind] in Hb. specialize (Hl sb Hsb). rewrite encode_len in Hb by lia. cbn [obind] in Hb.
  injection Hb as <-. unfold txout_from_raw. rewrite <- ?app_assoc.
  rewrite take_app by apply le_bytes_length. cbn [obind].
  rewrite parse_varint_spec by lia. cbn [obind].
  rewrite Nat2Z.id, take_app by reflexivity. cbn [obind].
  rewrite Z.mod_small by (unfold two64 in *; lia). rewrite le_val_8 by (unfold two64; lia).
  unfold canon_out. do 3 f_equal. now apply from_raw_tokens.
Qed.

Lemma parse_n_concat {A B} (p : bytes -> option (B * bytes)) (enc : A -> option bytes) (c : A -> B) l :
  (forall x bs rest, In x l -> enc x = Some bs -> p (bs ++ rest) = Some (c x, rest)) ->
  forall bs rest, concat_opt enc l = Some bs -> parse_n p (length l) (bs ++ rest) = Some (map c l, rest).
Proof.
  induction l as [|x r IH]; intros H bs rest Hc.
  - cbn in Hc. injection Hc as <-. reflexivity.
  - cbn [concat_opt] in Hc. destruct (enc x) as [a|] eqn:Ea; [|discriminate]. cbn [obind] in Hc.
    destruct (concat_opt enc r) as [b|] eqn:Eb; [|discriminate]. cbn [obind] in Hc. injection Hc as <-.
    cbn [length parse_n map]. rewrite <- app_assoc.
    rewrite (H x a (b ++ rest) (or_introl eq_refl) Ea). cbn [obind].
    rewrite (IH (fun y bs0 rest0 Hy => H y bs0 rest0 (or_intror Hy)) b rest eq_refl). reflexivity.
Qed.

Lemma witness_item_parse d bs rest : wf_item d -> prepend_compact_size d = Some bs ->
  witness_item_from_raw (bs ++ rest) = Some (d, rest).
Proof.
  intros Hw Hb. rewrite (prepend_spec d Hw) in Hb. injection Hb as <-. destruct Hw as [_ Hl].
  unfold witness_item_from_raw, ser_bytes. rewrite <- app_assoc, parse_varint_spec by lia. cbn [obind].
  now rewrite Nat2Z.id, firstn_app_exact, skipn_app_exact.
Qed.

Lemma witness_parse st bs rest : wf_stack st -> witness_with_count st = Some bs ->
  witness_from_raw (bs ++ rest) = Some (st, rest).
Proof.
  intros [Hi Hl] Hb. unfold witness_with_count in Hb. rewrite encode_len in Hb by lia. cbn [obind] in Hb.
  unfold witness_to_bytes in Hb. destruct (concat_opt prepend_compact_size st) as [w|] eqn:Ew; [|discriminate].
  cbn [obind] in Hb. injection Hb as <-. unfold witness_from_raw. rewrite <- app_assoc.
  rewrite parse_varint_spec by lia. cbn [obind]. rewrite Nat2Z.id.
  rewrite (parse_n_concat witness_item_from_raw prepend_compact_size (fun d => d) st) with (bs := w); [|
    intros x b r Hx Hb; apply witness_item_parse; [eapply Forall_In; eauto|exact Hb] | exact Ew].
  now rewrite map_id.
Qed.

Local Transparent spec_compact.
Lemma spec_compact_first_nonzero n : 1 <= n -> exists b r, spec_compact n = b :: r /\ b <> 0.
Proof.
  intros H. unfold spec_compact. destruct (n <=? 252) eqn:E; [exists n, []; split; [reflexivity|lia]|].
  destruct (n <=? 65535); [eexists _, _; split; [reflexivity|lia]|].
  destruct (n <=? 4294967295); eexists _, _; (split; [reflexivity|lia]).
Qed.

Local Opaque spec_compact.
Lemma concat_opt_length {A} (f : A -> option bytes) l bs :
  concat_opt f l = Some bs -> True.
Proof. trivial. Qed.

Lemma marker_yes r : bytes_eqb (firstn 2 (0 :: 1 :: r)) [0; 1] = true.
Proof. reflexivity. Qed.
Lemma skip_marker r : skipn 2 (0 :: 1 :: r) = r.
Proof. reflexivity. Qed.

Theorem tx_roundtrip t b : wf_tx t -> tx_serialize t = Some b -> tx_from_raw b = Some (canon_tx t).
Proof.
  intros (Hv & Hlt & Hins & Houts & Hn1 & Hni & Hno & Hw) Hb.
  unfold tx_serialize, tx_to_bytes in Hb. rewrite !encode_len in Hb by lia. cbn [obind] in Hb.
  destruct (concat_opt txin_to_bytes (tx_inputs t)) as [ins|] eqn:Ei; [|discriminate]. cbn [obind] in Hb.
  destruct (concat_opt txout_to_bytes (tx_outputs t)) as [outs|] eqn:Eo; [|discriminate]. cbn [obind] in Hb.
  destruct Hv as [Hvw Hvl]. destruct Hlt as [Hlw Hll].
  destruct (tx_segwit t) eqn:Es.
  - destruct (Hw eq_refl) as [Hwl Hst].
    destruct (concat_opt witness_with_count (tx_witnesses t)) as [wits|] eqn:Ewt; [|discriminate].
    cbn [obind] in Hb. injection Hb as <-.
    unfold tx_from_raw. cbv zeta. rewrite firstn_app_len, skipn_app_len by exact Hvl.
    rewrite marker_yes, skip_marker.
    rewrite parse_varint_spec by lia. cbn [obind]. rewrite Nat2Z.id.
    rewrite (parse_n_concat _ txin_to_bytes canon_in (tx_inputs t) (fun x bs rest Hx Hb => txin_parse x bs rest true (Forall_In _ _ Hins x Hx) Hb) ins _ Ei).
    cbn [obind]. rewrite parse_varint_spec by lia. cbn [obind]. rewrite Nat2Z.id.
    rewrite (parse_n_concat _ txout_to_bytes canon_out (tx_outputs t) (fun x bs rest Hx Hb => txout_parse x bs rest true (Forall_In _ _ Houts x Hx) Hb) outs _ Eo).
    cbn [obind]. rewrite <- Hwl.
    rewrite (parse_n_concat witness_from_raw witness_with_count (fun s => s) (tx_witnesses t)
               (fun x bs rest Hx Hb => witness_parse x bs rest (Forall_In _ _ Hst x Hx) Hb) wits _ Ewt).
    cbn [obind]. rewrite map_id. unfold canon_tx. rewrite Es.
    rewrite <- (app_nil_r (tx_locktime t)), firstn_app_len by exact Hll. now rewrite app_nil_r.
  - cbn [obind app] in Hb. injection Hb as <-.
    unfold tx_from_raw. cbv zeta. rewrite firstn_app_len, skipn_app_len by exact Hvl.
    destruct (spec_compact_first_nonzero (Z.of_nat (length (tx_inputs t))) ltac:(lia)) as (b0 & r0 & Hsc & Hnz).
    assert (Hseg : bytes_eqb (firstn 2 (spec_compact (Z.of_nat (length (tx_inputs t))) ++ ins ++ spec_compact (Z.of_nat (length (tx_outputs t))) ++ outs ++ tx_locktime t)) [0; 1] = false).
    { rewrite Hsc. cbn [app firstn]. destruct (r0 ++ _); cbn [bytes_eqb]; destruct (b0 =? 0) eqn:E0; try lia; reflexivity. }
    rewrite Hseg.
    rewrite parse_varint_spec by lia. cbn [obind]. rewrite Nat2Z.id.
    rewrite (parse_n_concat _ txin_to_bytes canon_in (tx_inputs t) (fun x bs rest Hx Hb => txin_parse x bs rest false (Forall_In _ _ Hins x Hx) Hb) ins _ Ei).
    cbn [obind]. rewrite parse_varint_spec by lia. cbn [obind]. rewrite Nat2Z.id.
    rewrite (parse_n_concat _ txout_to_bytes canon_out (tx_outputs t) (fun x bs rest Hx Hb => txout_parse x bs rest false (Forall_In _ _ Houts x Hx) Hb) outs _ Eo).
    cbn [obind]. unfold canon_tx. rewrite Es.
    rewrite <- (app_nil_r (tx_locktime t)), firstn_app_len by exact Hll. now rewrite app_nil_r.
Qed.

(* re-serialising the parsed (canonical) transaction reproduces the bytes *)
Lemma canon_in_bytes i : wf_in i -> txin_to_bytes (canon_in i) = txin_to_bytes i.
Proof.
  intros (_ & _ & _ & _ & Hs & _). unfold txin_to_bytes, txin_script_bytes, canon_in.
  cbn [ti_txid ti_vout ti_script ti_seq].
  destruct (is_null_txid (ti_txid i)); [reflexivity|]. now rewrite canon_to_bytes.
Qed.

Lemma canon_out_bytes o : wf_out o -> txout_to_bytes (canon_out o) = txout_to_bytes o.
Proof.
  intros (_ & Hs & _). unfold txout_to_bytes, canon_out. cbn [to_amount to_script]. now rewrite canon_to_bytes.
Qed.

Lemma concat_opt_map_ext {A} (f : A -> option bytes) (c : A -> A) l :
  (forall x, In x l -> f (c x) = f x) -> concat_opt f (map c l) = concat_opt f l.
Proof.
  induction l as [|x r IH]; intros H; [reflexivity|]. cbn [map concat_opt].
  rewrite (H x (or_introl eq_refl)), IH; [reflexivity|]. intros y Hy. apply H. now right.
Qed.

Theorem canon_tx_bytes t hs : wf_tx t -> (hs = true -> tx_segwit t = true) ->
  tx_to_bytes (canon_tx t) hs = tx_to_bytes t hs.
Proof.
  intros (_ & _ & Hins & Houts & _) Hh. unfold tx_to_bytes, canon_tx.
  cbn [tx_version tx_inputs tx_outputs tx_locktime tx_segwit tx_witnesses].
  rewrite !map_length.
  rewrite (concat_opt_map_ext txin_to_bytes canon_in) by (intros x Hx; apply canon_in_bytes; eapply Forall_In; eauto).
  rewrite (concat_opt_map_ext txout_to_bytes canon_out) by (intros x Hx; apply canon_out_bytes; eapply Forall_In; eauto).
  destruct hs; [rewrite (Hh eq_refl)|]; reflexivity.
Qed.

(* ------------------------------------------------------------------------------------------ *)
(* sizes (C16) *)

Lemma ser_witness_len t st : abs_tx t = Some st -> tx_segwit t = true ->
  Z.of_nat (length (spec_serialize st)) =
  Z.of_nat (length (spec_serialize_stripped st)) + 2 + Z.of_nat (length (concat (map ser_stack (tx_witnesses t)))).
Proof.
  intros Ha Es. unfold abs_tx in Ha.
  destruct (map_opt abs_in (tx_inputs t)); [|discriminate]. destruct (map_opt abs_out (tx_outputs t)); [|discriminate].
  injection Ha as <-. rewrite Es. unfold spec_serialize, spec_serialize_stripped. cbn [s_witness s_version s_ins s_outs s_locktime].
  rewrite !app_length. cbn [length]. lia.
Qed.

Theorem size_vsize_spec t : wf_tx_enc t ->
  exists st, abs_tx t = Some st /\
    get_size t = Some (Z.of_nat (length (spec_serialize st))) /\
    get_vsize t = Some (spec_vsize st).
Proof.
  intros Hw. destruct (tx_to_bytes_spec_enc t Hw) as (st & Ha & Hf & Hs). exists st. split; [exact Ha|].
  unfold get_size, get_vsize. rewrite Hf. cbn [option_map]. split; [reflexivity|].
  destruct (tx_segwit t) eqn:Es; cbn [negb].
  - unfold get_size. rewrite Hf. cbn [option_map obind].
    destruct Hw as (_ & _ & _ & _ & _ & _ & Hwit). pose proof (Hwit Es) as Hst.
    rewrite (witnesses_spec _ Hst). cbn [obind]. f_equal.
    pose proof (ser_witness_len t st Ha Es) as L.
    unfold spec_vsize, spec_weight. rewrite L.
    set (s := Z.of_nat (length (spec_serialize_stripped st))).
    set (w := Z.of_nat (length (concat (map ser_stack (tx_witnesses t))))).
    replace (s + 2 + w - (2 + w)) with s by lia.
    replace (3 * s + (s + 2 + w) + 3) with (s * 4 + (2 + w + 3)) by lia.
    rewrite Z.div_add_l by lia. reflexivity.
  - unfold get_size. rewrite Hf. cbn [option_map]. f_equal.
    unfold spec_vsize, spec_weight.
    assert (E : spec_serialize st = spec_serialize_stripped st).
    { unfold abs_tx in Ha. destruct (map_opt abs_in (tx_inputs t)); [|discriminate].
      destruct (map_opt abs_out (tx_outputs t)); [|discriminate]. injection Ha as <-. rewrite Es. reflexivity. }
    rewrite E. set (s := Z.of_nat (length (spec_serialize_stripped st))).
    replace (3 * s + s + 3) with (s * 4 + 3) by lia. rewrite Z.div_add_l by lia.
    change (3 / 4) with 0. lia.
Qed.
