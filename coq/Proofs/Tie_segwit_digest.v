(* Source tie for Transaction.get_transaction_segwit_digest (BIP143): the function as translated from the current source
   (three loops, the hash-type case analysis, the preimage layout) equals the model, for every non-negative input index. *)
From Coq Require Import String ZArith List Bool Lia ZifyBool.
From BU Require Import Lib.Bytes Lib.BytesFacts Lib.PySem Gen.Tables Gen.Src Model.Varint Model.Script Model.Seq Model.Tx Model.Sighash
  Proofs.ScriptNumFacts Proofs.TieLib Proofs.Tie_encode_varint Proofs.Tie_prepend_compact_size Proofs.Tie_tx_parts Proofs.Tie_tx_whole.
Import ListNotations.
Open Scope list_scope.
Open Scope Z_scope.

Lemma pack_signed_4 x : py_pack_le_signed 4 x = pack_i32 x.
Proof. unfold py_pack_le_signed, pack_i32. eval_closed. reflexivity. Qed.
#[global] Hint Rewrite pack_signed_4 : tie.

Lemma py_nth_nat {A} (l : list A) (i : nat) : py_nth l (Z.of_nat i) = nth_error l i.
Proof.
  unfold py_nth. destruct (Nat.lt_ge_cases i (length l)) as [H|H].
  - replace ((0 <=? Z.of_nat i) && (Z.of_nat i <? Z.of_nat (length l))) with true by lia. rewrite Nat2Z.id. reflexivity.
  - replace ((0 <=? Z.of_nat i) && (Z.of_nat i <? Z.of_nat (length l))) with false by lia.
    replace ((- Z.of_nat (length l) <=? Z.of_nat i) && (Z.of_nat i <? 0)) with false by lia.
    symmetry. apply nth_error_None. exact H.
Qed.
#[global] Hint Rewrite @py_nth_nat : tie.

Lemma ltb_of_nat a b : (Z.of_nat a <? Z.of_nat b) = (a <? b)%nat.
Proof. destruct (Nat.ltb_spec a b); lia. Qed.
#[global] Hint Rewrite ltb_of_nat : tie.

Lemma outpoint_bytes_unfold x :
  outpoint_bytes x = match pack_u32 (ti_vout x) with Some vo => Some (rev (ti_txid x) ++ vo) | None => None end.
Proof. reflexivity. Qed.
Lemma out_bytes_signed_unfold o :
  out_bytes_signed o = match pack_i64 (to_amount o) with
                       | Some am => match to_bytes (to_script o) with
                                    | Some sb => match encode_varint (Z.of_nat (length sb)) with
                                                 | Some ln => Some (am ++ ln ++ sb) | None => None end
                                    | None => None end
                       | None => None end.
Proof. reflexivity. Qed.
#[global] Hint Rewrite outpoint_bytes_unfold out_bytes_signed_unfold : tie.

Lemma concat_opt_total {A} (h : A -> bytes) l : concat_opt (fun x => Some (h x)) l = Some (concat (map h l)).
Proof. induction l as [|x r IH]; cbn [concat_opt map concat obind]; [reflexivity|]. rewrite IH. reflexivity. Qed.

Ltac body_ok2 :=
  intros; cbv beta iota zeta; unfold outpoint_bytes, out_bytes_signed, obind; tie_pipe.

Ltac loop_step2 :=
  first
  [ erewrite (py_for_acc (fun x => of_option (outpoint_bytes x)) outpoint_bytes); [ | intros; reflexivity | solve [body_ok2] ]
  | erewrite (py_for_acc (fun x => Ok (ti_seq x)) (fun x => Some (ti_seq x))); [ rewrite concat_opt_total | intros; reflexivity | solve [body_ok2] ]
  | erewrite (py_for_acc (fun x => of_option (out_bytes_signed x)) out_bytes_signed); [ | intros; reflexivity | solve [body_ok2] ] ].

Lemma src_segwit_digest_eq : forall sha256 (i : nat) sc am ht v ins outs l sw w,
  src_segwit_digest sha256 (Z.of_nat i) sc am ht v ins outs l =
  of_option (segwit_digest sha256 {| tx_version := v; tx_inputs := ins; tx_outputs := outs; tx_locktime := l; tx_segwit := sw; tx_witnesses := w |} i sc am ht).
Proof.
  intros. unfold src_segwit_digest, segwit_digest, segwit_preimage, obind, dsha, zeros32.
  cbn [tx_version tx_inputs tx_outputs tx_locktime tx_segwit tx_witnesses]. cbv zeta.
  destruct (Z.land ht 240 =? sighash_anyonecanpay) eqn:Eacp;
  destruct (Z.land ht 31 =? sighash_single) eqn:Esingle;
  destruct (Z.land ht 31 =? sighash_none) eqn:Enone;
  cbn [negb andb];
  repeat (autorewrite with tie; unfold of_option, option_map, obind; reuse_eqns; cbv beta iota zeta;
          first [ loop_step2 | pipe_step ]);
  cbv beta iota zeta; try reflexivity; try congruence;
  rewrite <- ?app_assoc; cbn [app]; rewrite <- ?app_assoc; try reflexivity; bytes_eq.
Qed.
