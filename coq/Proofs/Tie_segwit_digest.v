(* Source tie for Transaction.get_transaction_segwit_digest (BIP143): the function as translated from the current source
   (three loops, the hash-type case analysis, the preimage layout) equals the model, for every non-negative input index. *)
From Coq Require Import String ZArith List Bool Lia ZifyBool.
From BU Require Import Lib.Bytes Lib.BytesFacts Lib.PySem Gen.Tables Gen.Src Model.Varint Model.Script Model.Seq Model.Tx Model.Sighash
  Proofs.ScriptNumFacts Proofs.TieLib Proofs.Tie_encode_varint Proofs.Tie_prepend_compact_size Proofs.TieDigestLib.
Import ListNotations.
Open Scope list_scope.
Open Scope Z_scope.
(* a rewritten source that translates but sends a tactic into a long search is reported as a broken proof in bounded time *)
Set Default Timeout 900.

Lemma src_segwit_digest_eq : forall sha256 (i : nat) sc am ht v ins outs l sw w,
  src_segwit_digest sha256 (Z.of_nat i) sc am ht v ins outs l =
  of_option (segwit_digest sha256 {| tx_version := v; tx_inputs := ins; tx_outputs := outs; tx_locktime := l; tx_segwit := sw; tx_witnesses := w |} i sc am ht).
Proof.
  intros. unfold src_segwit_digest. not_fallback (@segwit_digest). unfold segwit_digest, segwit_preimage, obind, dsha, zeros32.
  cbn [tx_version tx_inputs tx_outputs tx_locktime tx_segwit tx_witnesses]. cbv zeta.
  destruct (Z.land ht 240 =? sighash_anyonecanpay) eqn:Eacp;
  destruct (Z.land ht 31 =? sighash_single) eqn:Esingle;
  destruct (Z.land ht 31 =? sighash_none) eqn:Enone;
  cbn [negb andb];
  repeat (autorewrite with tie; unfold of_option, option_map, obind; reuse_eqns; cbv beta iota zeta;
          first [ loop_step2 | pipe_step ]);
  cbv beta iota zeta; try reflexivity; try congruence;
  rewrite <- ?app_assoc; cbn [app]; rewrite <- ?app_assoc; try reflexivity; bytes_eq.
Qed.
