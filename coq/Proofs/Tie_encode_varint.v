(* Source tie for utils.encode_varint: the function as translated from the current source (Gen/Src.v) equals the model. *)
From Coq Require Import String ZArith List Bool Lia ZifyBool.
From BU Require Import Lib.Bytes Lib.BytesFacts Lib.PySem Gen.Tables Gen.Src Model.Varint Model.Script Model.Seq
  Proofs.ScriptNumFacts Proofs.TieLib.
Import ListNotations.
Open Scope list_scope.
Open Scope Z_scope.

Lemma src_encode_varint_eq : forall i, src_encode_varint i = of_option (encode_varint i).
Proof.
  intros i. unfold src_encode_varint, encode_varint. tie_auto.
Qed.

#[global] Hint Rewrite src_encode_varint_eq : tie.
