(* Source tie for BlockHeader.get_target_bits / serialize_header / get_block_hash: the functions as translated from
   the current source (Gen/Src.v) equal the model. *)
From Coq Require Import String ZArith List Bool Lia ZifyBool.
From BU Require Import Lib.Bytes Lib.BytesFacts Lib.PySem Gen.Tables Gen.Src Model.Varint Model.Script Model.Seq Model.Tx Model.Block
  Proofs.ScriptNumFacts Proofs.TieLib.
Import ListNotations.
Open Scope list_scope.
Open Scope Z_scope.

Lemma src_get_target_bits_eq : forall bits,
  src_get_target_bits bits = of_option (get_target {| h_version := 0; h_prev := []; h_merkle := []; h_time := 0; h_bits := bits; h_nonce := 0 |}).
Proof.
  intros bits. unfold src_get_target_bits, get_target. cbn [h_bits]. cbv zeta.
  set (e := Z.shiftr bits 24). set (c := Z.land bits 16777215).
  tie_auto.
Qed.

Lemma src_serialize_header_eq : forall v p m t b n,
  src_serialize_header v p m t b n =
  of_option (serialize_header {| h_version := v; h_prev := p; h_merkle := m; h_time := t; h_bits := b; h_nonce := n |}).
Proof.
  intros. unfold src_serialize_header, serialize_header, obind, pack_u32.
  cbn [h_version h_prev h_merkle h_time h_bits h_nonce].
  tie_auto.
Qed.

Lemma src_get_block_hash_eq : forall sha256 v p m t b n,
  src_get_block_hash sha256 v p m t b n =
  of_option (get_block_hash sha256 {| h_version := v; h_prev := p; h_merkle := m; h_time := t; h_bits := b; h_nonce := n |}).
Proof.
  intros. unfold src_get_block_hash, get_block_hash. rewrite src_serialize_header_eq.
  destruct (serialize_header _); reflexivity.
Qed.
