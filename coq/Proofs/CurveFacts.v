(* Algebraic facts about the Schnorr / taproot model over the abstract prime-order curve interface
   [curve_laws] of Spec/Curve.v: module laws of scalar multiplication, correctness of the 256-step
   double-and-add loop, agreement of the public and private taproot tweak, BIP340 completeness,
   range rejection and uniqueness of s, and key-path signatures verifying under the output key. *)
From Coq Require Import ZArith String List Bool Lia.
From BU Require Import Lib.Bytes Lib.BytesFacts Model.EC Model.Sighash Model.Schnorr Model.Taproot Spec.Curve.
Import ListNotations.
Open Scope list_scope.
Open Scope Z_scope.

Section Algebra.
  Variables (p n : Z) (add : point -> point -> point) (lift : Z -> point) (G : point) (on : point -> Prop).
  Hypothesis L : curve_laws p n add lift G on.
  Notation smul := (smul p add).
  Notation smul_nat := (smul_nat add).
  Notation neg := (neg p).

  Local Definition onO := cl_on_O _ _ _ _ _ _ L.
  Local Definition onA := cl_on_add _ _ _ _ _ _ L.
  Local Definition onN := cl_on_neg _ _ _ _ _ _ L.
  Local Definition addOl := cl_add_O_l _ _ _ _ _ _ L.
  Local Definition addOr := cl_add_O_r _ _ _ _ _ _ L.
  Local Definition addC := cl_add_comm _ _ _ _ _ _ L.
  Local Definition addA := cl_add_assoc _ _ _ _ _ _ L.
  Local Definition addN := cl_add_neg _ _ _ _ _ _ L.

  Lemma onG : on G.
  Proof. exact (proj1 (cl_on_G _ _ _ _ _ _ L)). Qed.

  (* ---------------- group facts ---------------- *)
  Lemma neg_None : neg None = None.
  Proof. reflexivity. Qed.

  Lemma neg_involutive P : on P -> neg (neg P) = P.
  Proof. intros _. destruct P as [[x y]|]; cbn; [|reflexivity]. do 2 f_equal. ring. Qed.

  Lemma add_neg_l P : on P -> add (neg P) P = None.
  Proof. intros H. rewrite addC by auto using onN. now apply addN. Qed.

  Lemma add_cancel_l P Q R : on P -> on Q -> on R -> add P Q = add P R -> Q = R.
  Proof.
    intros HP HQ HR E.
    rewrite <- (addOl Q), <- (addOl R), <- (add_neg_l P HP).
    rewrite <- !addA by auto using onN. now rewrite E.
  Qed.

  Lemma add_cancel_r P Q R : on P -> on Q -> on R -> add Q P = add R P -> Q = R.
  Proof.
    intros HP HQ HR E. apply (add_cancel_l P); auto.
    now rewrite (addC P Q), (addC P R) by auto.
  Qed.

  Lemma neg_unique P Q : on P -> on Q -> add P Q = None -> Q = neg P.
  Proof.
    intros HP HQ E. apply (add_cancel_l P); auto using onN.
    rewrite E. symmetry. now apply addN.
  Qed.

  Lemma neg_add P Q : on P -> on Q -> neg (add P Q) = add (neg P) (neg Q).
  Proof.
    intros HP HQ. symmetry. apply neg_unique; auto using onA, onN.
    rewrite (addC (neg P) (neg Q)) by auto using onN.
    rewrite addA by auto using onA, onN.
    rewrite <- (addA P Q (neg Q)) by auto using onN.
    rewrite addN, addOr by auto. now apply addN.
  Qed.

  (* ---------------- iterated addition over nat ---------------- *)
  Lemma smul_nat_on k P : on P -> on (smul_nat k P).
  Proof. intros H. induction k; cbn [Curve.smul_nat]; auto using onO, onA. Qed.

  Lemma smul_nat_add a b P : on P -> smul_nat (a + b) P = add (smul_nat a P) (smul_nat b P).
  Proof.
    intros H. induction a as [|a IH]; cbn [Curve.smul_nat Nat.add].
    - now rewrite addOl.
    - rewrite IH. apply addA; auto using smul_nat_on.
  Qed.

  Lemma smul_nat_neg k P : on P -> smul_nat k (neg P) = neg (smul_nat k P).
  Proof.
    intros H. induction k as [|k IH]; cbn [Curve.smul_nat]; [reflexivity|].
    rewrite IH, neg_add; auto using smul_nat_on.
  Qed.

  Lemma smul_nat_None k : smul_nat k None = None.
  Proof. induction k as [|k IH]; cbn [Curve.smul_nat]; [reflexivity|]. now rewrite IH, addOl. Qed.

  (* ---------------- scalar multiplication over Z ---------------- *)
  Lemma smul_on k P : on P -> on (smul k P).
  Proof. intros H. unfold Curve.smul. destruct (k <? 0); auto using onN, smul_nat_on. Qed.

  Lemma smul_0 P : smul 0 P = None.
  Proof. reflexivity. Qed.

  Lemma smul_1 P : on P -> smul 1 P = P.
  Proof. intros _. unfold Curve.smul. cbn. apply addOr. Qed.

  Lemma smul_None k : smul k None = None.
  Proof. unfold Curve.smul. rewrite !smul_nat_None. now destruct (k <? 0). Qed.

  Lemma smul_succ k P : on P -> smul (Z.succ k) P = add P (smul k P).
  Proof.
    intros H. unfold Curve.smul.
    destruct (Z.ltb_spec k 0) as [Hk|Hk], (Z.ltb_spec (Z.succ k) 0) as [Hs|Hs]; try lia.
    - replace (Z.to_nat (- k)) with (S (Z.to_nat (- Z.succ k))) by lia.
      cbn [Curve.smul_nat]. set (X := smul_nat _ P).
      assert (HX : on X) by (apply smul_nat_on; auto).
      rewrite neg_add, addA, addN, addOl; auto using onN.
    - assert (k = -1) by lia. subst k. change (Z.to_nat (Z.succ (-1))) with 0%nat. change (Z.to_nat (- -1)) with 1%nat. cbn [Curve.smul_nat].
      rewrite addOr. symmetry. now apply addN.
    - rewrite Z2Nat.inj_succ by lia. reflexivity.
  Qed.

  Lemma smul_pred k P : on P -> smul (Z.pred k) P = add (neg P) (smul k P).
  Proof.
    intros H. rewrite <- (Z.succ_pred k) at 2. rewrite smul_succ by auto.
    rewrite addA, add_neg_l, addOl; auto using onN, smul_on.
  Qed.

  Lemma smul_add a b P : on P -> smul (a + b) P = add (smul a P) (smul b P).
  Proof.
    intros H. pattern a. apply Z.peano_ind; clear a.
    - now rewrite smul_0, addOl.
    - intros a IH. rewrite Z.add_succ_l, !smul_succ, IH by auto.
      apply addA; auto using smul_on.
    - intros a IH. rewrite Z.add_pred_l, !smul_pred, IH by auto.
      apply addA; auto using smul_on, onN.
  Qed.

  Lemma smul_neg k P : on P -> smul (- k) P = neg (smul k P).
  Proof.
    intros H. apply neg_unique; auto using smul_on.
    rewrite <- smul_add by auto. now rewrite Z.add_opp_diag_r.
  Qed.

  Lemma smul_mul a b P : on P -> smul (a * b) P = smul a (smul b P).
  Proof.
    intros H. assert (HQ : on (smul b P)) by now apply smul_on.
    pattern a. apply Z.peano_ind; clear a.
    - reflexivity.
    - intros a IH. rewrite Z.mul_succ_l, smul_add, IH, smul_succ by auto.
      apply addC; auto using smul_on.
    - intros a IH. rewrite Z.mul_pred_l, smul_pred by auto.
      unfold Z.sub. rewrite smul_add, IH, smul_neg by auto.
      apply addC; auto using smul_on, onN.
  Qed.

  (* ---------------- the generator ---------------- *)
  Lemma smul_n_G k : smul (k * n) G = None.
  Proof.
    rewrite smul_mul by apply onG.
    rewrite (proj1 (cl_order _ _ _ _ _ _ L)). apply smul_None.
  Qed.

  Lemma n_pos : 2 < n.
  Proof. exact (cl_n _ _ _ _ _ _ L). Qed.

  Lemma smul_mod k : smul (k mod n) G = smul k G.
  Proof.
    pose proof n_pos as Hn.
    rewrite (Z.div_mod k n) at 2 by lia.
    rewrite smul_add, (Z.mul_comm n), smul_n_G, addOl by apply onG. reflexivity.
  Qed.

  Lemma smul_G_none k : smul k G = None <-> k mod n = 0.
  Proof.
    pose proof n_pos as Hn. split; intros H.
    - rewrite <- smul_mod in H.
      destruct (Z.eq_dec (k mod n) 0) as [E|E]; [exact E|exfalso].
      apply (proj2 (cl_order _ _ _ _ _ _ L) (k mod n)); [|exact H].
      pose proof (Z.mod_pos_bound k n). lia.
    - now rewrite <- smul_mod, H.
  Qed.

  Lemma smul_G_inj a b : smul a G = smul b G <-> a mod n = b mod n.
  Proof.
    pose proof n_pos as Hn. split; intros H.
    - assert (E : smul (a - b) G = None).
      { unfold Z.sub. rewrite smul_add, smul_neg, H by apply onG.
        apply addN, smul_on, onG. }
      apply smul_G_none in E.
      replace a with (b + (a - b)) by ring.
      rewrite <- Z.add_mod_idemp_r, E, Z.add_0_r by lia. reflexivity.
    - now rewrite <- (smul_mod a), H, smul_mod.
  Qed.

  (* ---------------- the double-and-add loop ---------------- *)
  Lemma mul_loop_on fuel i k P R : on P -> on R -> on (mul_loop add fuel i k P R).
  Proof.
    revert i P R. induction fuel as [|f IH]; intros i P R HP HR; cbn [mul_loop]; auto.
    apply IH; auto using onA. destruct (Z.testbit k i); auto using onA.
  Qed.

  Lemma point_mul_on P k : on P -> on (point_mul_with add P k).
  Proof. intros H. unfold point_mul_with. apply mul_loop_on; auto using onO. Qed.

  Lemma testbit_mod_succ k i :
    0 <= i -> k mod 2 ^ (Z.succ i) = k mod 2 ^ i + (if Z.testbit k i then 2 ^ i else 0).
  Proof.
    intros Hi. assert (0 < 2 ^ i) by (apply Z.pow_pos_nonneg; lia).
    rewrite Z.pow_succ_r, (Z.mul_comm 2), Z.rem_mul_r by lia.
    rewrite <- Z.testbit_spec' by lia. destruct (Z.testbit k i); cbn [Z.b2z]; ring.
  Qed.

  Lemma mul_loop_smul P0 k fuel : on P0 -> forall i Pt R, 0 <= i ->
    Pt = smul (2 ^ i) P0 -> R = smul (k mod 2 ^ i) P0 ->
    mul_loop add fuel i k Pt R = smul (k mod 2 ^ (i + Z.of_nat fuel)) P0.
  Proof.
    intros H0. induction fuel as [|f IH]; intros i Pt R Hi HP HR; cbn [mul_loop].
    - change (Z.of_nat 0) with 0. now rewrite Z.add_0_r.
    - rewrite Nat2Z.inj_succ.
      replace (i + Z.succ (Z.of_nat f)) with ((i + 1) + Z.of_nat f) by lia.
      apply IH; [lia| |].
      + subst Pt. rewrite <- smul_add by auto. f_equal.
        rewrite Z.add_1_r, Z.pow_succ_r by lia. ring.
      + subst Pt R. rewrite Z.add_1_r, testbit_mod_succ by lia.
        destruct (Z.testbit k i).
        * now rewrite smul_add.
        * now rewrite Z.add_0_r.
  Qed.

  (* the 256-step double-and-add loop of the code computes the scalar multiple *)
  Lemma point_mul_smul P k : on P -> 0 <= k < 2 ^ 256 -> point_mul_with add P k = smul k P.
  Proof.
    intros H Hk. unfold point_mul_with.
    rewrite (mul_loop_smul P k 256 H 0 P None); try lia.
    - change (0 + Z.of_nat 256) with 256. now rewrite Z.mod_small by lia.
    - change (2 ^ 0) with 1. symmetry. now apply smul_1.
    - change (2 ^ 0) with 1. now rewrite Z.mod_1_r.
  Qed.

  (* NB: discriminate / inversion / easy ignore opacity and would unfold the 256-step loop of
     point_mul_with (exponential): always rewrite with point_mul_smul first, or use congruence. *)
  Local Opaque point_mul_with le_bytes le_val.

  (* ---------------- parity and negation ---------------- *)
  Lemma p_odd : Z.odd p = true.
  Proof. exact (proj2 (cl_p _ _ _ _ _ _ L)). Qed.

  Lemma even_flip y : Z.even (p - y) = negb (Z.even y).
  Proof.
    rewrite Z.even_sub, <- Z.negb_odd, p_odd. cbn [negb]. now destruct (Z.even y).
  Qed.

  Lemma mod2_even y : (y mod 2 =? 0) = Z.even y.
  Proof. rewrite Zmod_even. now destruct (Z.even y). Qed.

  Lemma smul_n_sub k : smul (n - k) G = neg (smul k G).
  Proof.
    pose proof n_pos. rewrite <- smul_neg by apply onG. apply smul_G_inj.
    replace (n - k) with (- k + 1 * n) by ring. apply Z.mod_add. lia.
  Qed.

  Lemma even_norm k x y : smul k G = Some (x, y) ->
    smul (if Z.even y then k else n - k) G = Some (x, if Z.even y then y else p - y).
  Proof. intros E. destruct (Z.even y); auto. now rewrite smul_n_sub, E. Qed.

  Lemma even_norm_even y : Z.even (if Z.even y then y else p - y) = true.
  Proof. destruct (Z.even y) eqn:E; auto. now rewrite even_flip, E. Qed.

  (* ---------------- B. taproot key tweak ---------------- *)
  Theorem tweak_agrees d t px py : 1 <= d < n -> smul d G = Some (px, py) ->
    let d' := if Z.even py then d else n - d in
    add (Some (px, if Z.even py then py else p - py)) (smul t G) = smul ((d' + t) mod n) G.
  Proof.
    intros _ E d'. rewrite smul_mod, smul_add by apply onG. f_equal. symmetry. now apply even_norm.
  Qed.

  (* ---------------- byte conversions ---------------- *)
  Lemma pow256_32 : 256 ^ Z.of_nat 32 = 2 ^ 256.
  Proof. reflexivity. Qed.

  Lemma be_val_be32 x : 0 <= x < 2 ^ 256 -> be_val (be_bytes 32 x) = x.
  Proof. intros H. apply be_val_be_bytes_small. rewrite pow256_32. exact H. Qed.

  Lemma be_val_32_bound l : wf_bytes l -> length l = 32%nat -> 0 <= be_val l < 2 ^ 256.
  Proof.
    intros Hwf Hl. unfold be_val. rewrite <- pow256_32, <- Hl, <- rev_length.
    apply le_val_bound. now apply wf_bytes_rev.
  Qed.

  Lemma bytes_from_int_some x b : bytes_from_int x = Some b -> 0 <= x < 2 ^ 256 /\ b = be_bytes 32 x.
  Proof.
    unfold bytes_from_int.
    destruct (Z.leb_spec 0 x), (Z.ltb_spec x (2 ^ 256)); cbn [andb]; try discriminate.
    intros E. inversion E. split; [lia|reflexivity].
  Qed.

  Lemma bytes_from_int_ok x : 0 <= x < 2 ^ 256 -> bytes_from_int x = Some (be_bytes 32 x).
  Proof.
    intros H. unfold bytes_from_int.
    destruct (Z.leb_spec 0 x), (Z.ltb_spec x (2 ^ 256)); cbn [andb]; try lia. reflexivity.
  Qed.

  Lemma full_pubkey_gen_some key px py : n < 2 ^ 256 ->
    full_pubkey_gen n add G key = Some (px, py) ->
    1 <= be_val key <= n - 1 /\ smul (be_val key) G = Some (px, py).
  Proof.
    intros Hn. unfold full_pubkey_gen. cbv zeta.
    destruct (Z.leb_spec 1 (be_val key)), (Z.leb_spec (be_val key) (n - 1)); cbn [andb negb];
      intros E; try congruence. rewrite point_mul_smul in E by (try apply onG; lia). split; [lia|exact E].
  Qed.

  Theorem taproot_tweak_model key t px py kb qx qy odd :
    n < 2 ^ 256 -> p < 2 ^ 256 -> wf_bytes key -> length key = 32%nat -> 0 <= t < 2 ^ 256 ->
    full_pubkey_gen n add G key = Some (px, py) ->
    tweak_taproot_privkey n add G n key t = Some kb ->
    tweak_taproot_pubkey add G p (px, py) t = Some (qx, qy, odd) ->
    exists y, smul (be_val kb) G = Some (qx, y) /\ (y = qy \/ y = p - qy) /\ Z.even qy = true /\ odd = negb (Z.even y).
  Proof.
    intros Hn Hp Hwf Hlen Ht Hpk Hpriv Hpub.
    destruct (full_pubkey_gen_some _ _ _ Hn Hpk) as [Hd E].
    unfold tweak_taproot_privkey in Hpriv. rewrite Hpk in Hpriv. cbn [obind] in Hpriv.
    rewrite mod2_even in Hpriv. apply bytes_from_int_some in Hpriv as [Hr ->].
    rewrite be_val_be32 by exact Hr.
    unfold tweak_taproot_pubkey in Hpub. cbv zeta in Hpub.
    rewrite mod2_even, point_mul_smul in Hpub by (try apply onG; lia).
    pose proof (tweak_agrees (be_val key) t px py ltac:(lia) E) as TA. cbv zeta in TA.
    replace (if negb (Z.even py) then p - py else py) with (if Z.even py then py else p - py) in Hpub
      by now destruct (Z.even py).
    rewrite TA in Hpub.
    destruct (smul _ G) as [[qx0 qy0]|]; [|discriminate].
    rewrite mod2_even in Hpub.
    match type of Hpub with (if ?c then _ else _) = _ => destruct c; [|discriminate] end.
    inversion Hpub; subst. exists qy0. split; [reflexivity|].
    destruct (Z.even qy0) eqn:Ev; cbn [negb]; repeat split; auto.
    - right. ring.
    - now rewrite even_flip, Ev.
  Qed.

  (* ---------------- C. BIP340 ---------------- *)
  Variable sha256 : bytes -> bytes.

  Lemma coords x y : on (Some (x, y)) -> 0 <= x < p /\ 0 < y < p.
  Proof. apply (cl_coords _ _ _ _ _ _ L). Qed.

  (* lift_x returns the even-y point with the given x *)
  Lemma lift_even x y : on (Some (x, y)) -> Z.even y = true -> lift x = Some (x, y).
  Proof.
    intros Hon Hev. pose proof (proj1 (coords _ _ Hon)) as [Hx _]. destruct (lift x) as [Q|] eqn:E.
    - destruct (cl_lift_some _ _ _ _ _ _ L x (Some Q) Hx E ltac:(congruence)) as (y' & EQ & HonQ & Hev').
      rewrite EQ in *. destruct (cl_x_det _ _ _ _ _ _ L x y y' Hon HonQ) as [->| ->]; auto.
      rewrite even_flip, Hev in Hev'. cbn in Hev'. congruence.
    - exfalso. exact (cl_lift_none _ _ _ _ _ _ L x Hx E y Hon).
  Qed.

  Definition chal (rb pk msg : bytes) : Z :=
    be_val (stag sha256 "BIP0340/challenge" (rb ++ pk ++ msg)) mod n.

  (* schnorr_verify accepts exactly when ... (pure unfolding, the loop is left as is) *)
  Lemma verify_true msg pk sig :
    schnorr_verify sha256 p n add lift G msg pk sig = Some true <->
    length msg = 32%nat /\ length pk = 32%nat /\ length sig = 64%nat /\
    exists P ry, lift (be_val pk) = Some P /\ be_val (firstn 32 sig) < p /\ be_val (skipn 32 sig) < n /\
      add (point_mul_with add G (be_val (skipn 32 sig)))
          (point_mul_with add (Some P) (n - chal (firstn 32 sig) pk msg))
        = Some (be_val (firstn 32 sig), ry) /\ Z.even ry = true.
  Proof.
    unfold schnorr_verify, chal. cbv zeta.
    destruct (Nat.eqb_spec (length msg) 32), (Nat.eqb_spec (length pk) 32),
      (Nat.eqb_spec (length sig) 64); cbn [negb orb].
    all: try (split; [congruence | intros (?&?&?&?); congruence]).
    destruct (lift (be_val pk)) as [P|] eqn:EL.
    2: { split; [congruence|intros (_&_&_&P&ry&E&_); congruence]. }
    destruct (Z.leb_spec p (be_val (firstn 32 sig))), (Z.leb_spec n (be_val (skipn 32 sig))); cbn [orb].
    1-3: split; [congruence|intros (_&_&_&P'&ry&_&?&?&_); lia].
    destruct (add _ _) as [[rx ry]|] eqn:EA.
    - split.
      + intros H1. assert (H2 : Z.even ry && (rx =? be_val (firstn 32 sig)) = true) by congruence.
        apply andb_true_iff in H2 as [Hev Hrx]. apply Z.eqb_eq in Hrx. subst rx.
        repeat split; auto. exists P, ry. repeat split; auto.
      + intros (_&_&_&P'&ry'&E1&_&_&E2&Hev).
        assert (P' = P) by congruence. subst P'. rewrite E2 in EA.
        assert (rx = be_val (firstn 32 sig) /\ ry = ry') as [-> ->] by (split; congruence).
        now rewrite Hev, Z.eqb_refl.
    - split; [congruence|].
      intros (_&_&_&P'&ry'&E1&_&_&E2&Hev).
      assert (P' = P) by congruence. subst P'. congruence.
  Qed.

  Theorem schnorr_verify_ranges msg pk sig :
    schnorr_verify sha256 p n add lift G msg pk sig = Some true ->
    be_val (firstn 32 sig) < p /\ be_val (skipn 32 sig) < n /\ lift (be_val pk) <> None.
  Proof.
    intros H. apply verify_true in H as (_&_&_&P&ry&E&?&?&_). repeat split; auto. congruence.
  Qed.

  (* wf_bytes pk: the curve laws speak of lift on non-negative integers only, and be_val pk >= 0 needs
     the elements of pk to be bytes *)
  Theorem schnorr_s_unique msg pk rb sb sb' :
    length rb = 32%nat -> length sb = 32%nat -> length sb' = 32%nat ->
    wf_bytes pk -> wf_bytes sb -> wf_bytes sb' ->
    schnorr_verify sha256 p n add lift G msg pk (rb ++ sb) = Some true ->
    schnorr_verify sha256 p n add lift G msg pk (rb ++ sb') = Some true -> sb = sb'.
  Proof.
    intros Hr Hs Hs' Hwpk Hw Hw' V1 V2. pose proof n_pos as Hn.
    apply verify_true in V1 as (_&_&_&P&ry&EL&_&Hsn&E1&Hev).
    apply verify_true in V2 as (_&_&_&P'&ry'&EL'&_&Hsn'&E2&Hev').
    assert (P' = P) by congruence; subst P'. clear EL'.
    rewrite (firstn_app_len 32 rb) in E1, E2 by auto.
    rewrite (skipn_app_len 32 rb) in Hsn, Hsn', E1, E2 by auto.
    pose proof (be_val_32_bound sb Hw Hs) as Hb. pose proof (be_val_32_bound sb' Hw' Hs') as Hb'.
    rewrite (point_mul_smul G) in E1, E2 by (try apply onG; lia).
    assert (Hpk0 : 0 <= be_val pk) by (apply le_val_nonneg, wf_bytes_rev, Hwpk).
    destruct (cl_lift_some _ _ _ _ _ _ L (be_val pk) (Some P) Hpk0 EL ltac:(congruence)) as (y & EQ & HonP & _).
    set (X := point_mul_with add (Some P) _) in *.
    assert (HX : on X) by (apply point_mul_on; exact HonP).
    assert (H1 : on (Some (be_val rb, ry))) by (rewrite <- E1; apply onA; auto using smul_on, onG).
    assert (H2 : on (Some (be_val rb, ry'))) by (rewrite <- E2; apply onA; auto using smul_on, onG).
    assert (ry' = ry).
    { destruct (cl_x_det _ _ _ _ _ _ L _ _ _ H1 H2) as [E|E]; [exact E|exfalso].
      rewrite E, even_flip, Hev in Hev'. cbn in Hev'. congruence. }
    subst ry'. rewrite <- E2 in E1.
    apply add_cancel_r in E1; auto using smul_on, onG.
    apply smul_G_inj in E1. rewrite !Z.mod_small in E1 by lia.
    rewrite <- (be_bytes_be_val sb), <- (be_bytes_be_val sb') by auto.
    now rewrite Hs, Hs', E1.
  Qed.

  Theorem schnorr_sign_verifies msg key aux sig :
    schnorr_sign sha256 p n add lift G msg key aux = Some sig ->
    exists px py, full_pubkey_gen n add G key = Some (px, py) /\
      schnorr_verify sha256 p n add lift G msg (be_bytes 32 px) sig = Some true /\ length sig = 64%nat.
  Proof.
    unfold schnorr_sign, full_pubkey_gen. cbv zeta.
    destruct (negb (Nat.eqb (length msg) 32)); [congruence|].
    destruct (negb ((1 <=? be_val key) && (be_val key <=? n - 1))); [congruence|].
    destruct (negb (Nat.eqb (length aux) 32)); [congruence|].
    destruct (point_mul_with add G (be_val key)) as [[px py]|]; cbn [obind]; [|congruence].
    destruct (bytes_from_int (if Z.even py then _ else _)) as [db|]; cbn [obind]; [|congruence].
    destruct (bytes_from_int px) as [pxb|] eqn:Epx; cbn [obind]; [|congruence].
    apply bytes_from_int_some in Epx as [_ ->].
    destruct (_ =? 0); [congruence|].
    destruct (point_mul_with add G _) as [[rx ry]|]; cbn [obind]; [|congruence].
    destruct (bytes_from_int rx) as [rxb|]; cbn [obind]; [|congruence].
    destruct (bytes_from_int (_ mod n)) as [sb|]; cbn [obind]; [|congruence].
    destruct (schnorr_verify _ _ _ _ _ _ _ _ _) as [[|]|] eqn:EV; try congruence.
    intros H. assert (rxb ++ sb = sig) by congruence. subst sig.
    exists px, py. split; [reflexivity|]. split; [exact EV|].
    apply verify_true in EV. tauto.
  Qed.

  (* s*G + (n - e)*P = k*G  for  s = (k + e d) mod n,  P = d*G *)
  Lemma sign_eq k e d : add (smul ((k + e * d) mod n) G) (smul (n - e) (smul d G)) = smul k G.
  Proof.
    pose proof n_pos. rewrite smul_mod, <- smul_mul, <- smul_add by apply onG. apply smul_G_inj.
    replace (k + e * d + (n - e) * d) with (k + d * n) by ring. apply Z.mod_add. lia.
  Qed.

  Theorem schnorr_sign_total msg key aux : n < 2 ^ 256 -> p < 2 ^ 256 ->
    length msg = 32%nat -> length aux = 32%nat -> wf_bytes key -> length key = 32%nat ->
    1 <= be_val key <= n - 1 ->
    schnorr_sign sha256 p n add lift G msg key aux = None ->
    exists px py, full_pubkey_gen n add G key = Some (px, py) /\
      let d := if Z.even py then be_val key else n - be_val key in
      be_val (stag sha256 "BIP0340/nonce"
                (xor_bytes (be_bytes 32 d) (stag sha256 "BIP0340/aux" aux) ++ be_bytes 32 px ++ msg)) mod n = 0.
  Proof.
    intros Hn Hp Hmsg Haux Hwf Hlen Hd0 Hsign. pose proof n_pos as Hn2.
    set (d0 := be_val key) in *.
    destruct (smul d0 G) as [[px py]|] eqn:EP.
    2: { apply smul_G_none in EP. rewrite Z.mod_small in EP by lia. lia. }
    assert (Hpk : full_pubkey_gen n add G key = Some (px, py)).
    { unfold full_pubkey_gen. cbv zeta. fold d0.
      destruct (Z.leb_spec 1 d0), (Z.leb_spec d0 (n - 1)); cbn [andb negb]; try lia.
      rewrite point_mul_smul by (try apply onG; lia). exact EP. }
    exists px, py. split; [exact Hpk|]. cbv zeta. fold d0.
    assert (HonP : on (Some (px, py))) by (rewrite <- EP; apply smul_on, onG).
    destruct (coords _ _ HonP) as [Hpx Hpy].
    pose proof (even_norm _ _ _ EP) as EP'. pose proof (even_norm_even py) as Hev.
    set (d := if Z.even py then d0 else n - d0) in *.
    set (py' := if Z.even py then py else p - py) in *.
    assert (Hd : 1 <= d <= n - 1) by (subst d; destruct (Z.even py); lia).
    assert (HL : lift px = Some (px, py')).
    { apply lift_even; [rewrite <- EP'; apply smul_on, onG|exact Hev]. }
    unfold schnorr_sign in Hsign. cbv zeta in Hsign. fold d0 in Hsign.
    rewrite Hmsg, Haux in Hsign. change (Nat.eqb 32 32) with true in Hsign.
    destruct (Z.leb_spec 1 d0), (Z.leb_spec d0 (n - 1)); try lia. cbn [andb negb] in Hsign.
    rewrite (point_mul_smul G d0), EP in Hsign by (try apply onG; lia). cbn [obind] in Hsign.
    fold d in Hsign. rewrite (bytes_from_int_ok d), (bytes_from_int_ok px) in Hsign by lia.
    cbn [obind] in Hsign.
    match type of Hsign with context [if ?c =? 0 then _ else _] => set (k0 := c) in * end.
    destruct (Z.eqb_spec k0 0) as [|Hk0]; [assumption|exfalso].
    assert (Hk0r : 0 <= k0 < n) by (subst k0; apply Z.mod_pos_bound; lia).
    rewrite (point_mul_smul G k0) in Hsign by (try apply onG; lia).
    destruct (smul k0 G) as [[rx ry]|] eqn:ER.
    2: { apply smul_G_none in ER. rewrite Z.mod_small in ER by lia. lia. }
    cbn [obind] in Hsign.
    assert (HonR : on (Some (rx, ry))) by (rewrite <- ER; apply smul_on, onG).
    destruct (coords _ _ HonR) as [Hrx Hry].
    pose proof (even_norm _ _ _ ER) as ER'. pose proof (even_norm_even ry) as Hevr.
    replace (if negb (Z.even ry) then n - k0 else k0) with (if Z.even ry then k0 else n - k0) in Hsign
      by now destruct (Z.even ry).
    set (k := if Z.even ry then k0 else n - k0) in *.
    set (ry' := if Z.even ry then ry else p - ry) in *.
    rewrite (bytes_from_int_ok rx) in Hsign by lia. cbn [obind] in Hsign.
    fold (chal (be_bytes 32 rx) (be_bytes 32 px) msg) in Hsign.
    set (e := chal (be_bytes 32 rx) (be_bytes 32 px) msg) in *.
    assert (He : 0 <= e < n) by (subst e; unfold chal; apply Z.mod_pos_bound; lia).
    pose proof (Z.mod_pos_bound (k + e * d) n ltac:(lia)) as Hs.
    rewrite (bytes_from_int_ok ((k + e * d) mod n)) in Hsign by lia. cbn [obind] in Hsign.
    assert (EV : schnorr_verify sha256 p n add lift G msg (be_bytes 32 px)
                   (be_bytes 32 rx ++ be_bytes 32 ((k + e * d) mod n)) = Some true).
    { apply verify_true. rewrite app_length, !be_bytes_length.
      repeat split; auto. exists (px, py'), ry'.
      rewrite (firstn_app_len 32), (skipn_app_len 32) by apply be_bytes_length.
      rewrite !be_val_be32 by lia. fold e.
      repeat split; auto; try lia.
      rewrite (point_mul_smul G), point_mul_smul by (try apply onG; try lia; rewrite <- EP'; apply smul_on, onG).
      rewrite <- EP', sign_eq. exact ER'. }
    rewrite EV in Hsign. congruence.
  Qed.

  (* ---------------- D. key-path signatures ---------------- *)
  (* the tweak is the integer value of a hash: it is below 2^256 only for a 32-byte hash function *)
  Hypothesis Hsha_len : forall x, length (sha256 x) = 32%nat.
  Hypothesis Hsha_wf : forall x, wf_bytes (sha256 x).

  Lemma calculate_tweak_range pub sc t : calculate_tweak sha256 pub sc = Some t -> 0 <= t < 2 ^ 256.
  Proof.
    assert (HT : forall d tag, 0 <= be_val (tagged_hash sha256 d tag) < 2 ^ 256)
      by (intros; unfold tagged_hash; apply be_val_32_bound; auto).
    unfold calculate_tweak. cbv zeta.
    destruct (bytes_from_int (fst pub)) as [kx|]; cbn [obind]; [|congruence].
    intros E.
    destruct sc as [|[]|[]]; cbn [obind] in E;
      repeat match type of E with context [obind ?o _] => destruct o; cbn [obind] in E end;
      try congruence; injection E as <-; apply HT.
  Qed.

  Theorem keypath_signature_verifies key digest ht sc sig xb odd pub :
    n < 2 ^ 256 -> p < 2 ^ 256 -> wf_bytes key -> length key = 32%nat ->
    full_pubkey_gen n add G key = Some pub ->
    sign_taproot sha256 p n add lift G n key digest ht sc true = Some sig ->
    to_taproot sha256 add G p pub sc = Some (xb, odd) ->
    schnorr_verify sha256 p n add lift G digest xb (firstn 64 sig) = Some true /\
    (ht = Gen.Tables.taproot_sighash_all -> length sig = 64%nat) /\
    (ht <> Gen.Tables.taproot_sighash_all -> length sig = 65%nat /\ last sig 0 = ht).
  Proof.
    intros Hn Hp Hwf Hlen Hpk Hs Ht. destruct pub as [px py].
    unfold sign_taproot in Hs. rewrite Hpk in Hs. cbn [obind] in Hs.
    unfold to_taproot in Ht.
    destruct (calculate_tweak sha256 (px, py) sc) as [t|] eqn:Et; cbn [obind] in Hs, Ht; [|congruence].
    apply calculate_tweak_range in Et.
    destruct (tweak_taproot_privkey n add G n key t) as [kb|] eqn:Ekb; cbn [obind] in Hs; [|congruence].
    destruct (tweak_taproot_pubkey add G p (px, py) t) as [[[qx qy] odd']|] eqn:Eq; cbn [obind] in Ht; [|congruence].
    destruct (bytes_from_int qx) as [xb'|] eqn:Exb; cbn [obind] in Ht; [|congruence].
    apply bytes_from_int_some in Exb as [Hqx ->].
    assert (xb = be_bytes 32 qx) by congruence. subst xb.
    destruct (schnorr_sign _ _ _ _ _ _ _ _ _) as [sig0|] eqn:Ess; cbn [obind] in Hs; [|congruence].
    apply schnorr_sign_verifies in Ess as (px' & py' & Epk' & EV & Hl).
    destruct (taproot_tweak_model key t px py kb qx qy odd' Hn Hp Hwf Hlen Et Hpk Ekb Eq) as (y & Ey & _).
    apply full_pubkey_gen_some in Epk' as [_ Epk']; [|exact Hn].
    rewrite Ey in Epk'. assert (qx = px') by congruence. subst px'.
    destruct (Z.eqb_spec ht Gen.Tables.taproot_sighash_all) as [Eh|Eh].
    - assert (sig0 = sig) by congruence. subst sig0.
      rewrite <- Hl, firstn_all. split; [exact EV|]. split; [reflexivity|intros; contradiction].
    - destruct ((0 <=? ht) && (ht <? 256)); [|congruence].
      assert (sig = sig0 ++ [ht]) by congruence. subst sig.
      rewrite (firstn_app_len 64) by exact Hl.
      split; [exact EV|]. split; [intros; contradiction|]. intros _.
      rewrite app_length, Hl, last_last. split; reflexivity.
  Qed.
End Algebra.
