(* Source tie for utils.tapleaf_tagged_hash: the function as translated from the current source (Gen/Src.v) equals the model. *)
From Coq Require Import String ZArith List Bool Lia ZifyBool.
From BU Require Import Lib.Bytes Lib.BytesFacts Lib.PySem Gen.Tables Gen.Src Model.Varint Model.Script Model.Seq Model.Tx Model.Sighash Model.Msg Model.Taproot
  Proofs.ScriptNumFacts Proofs.TieLib Proofs.Tie_tagged_hash Proofs.Tie_encode_varint Proofs.Tie_prepend_compact_size.
Import ListNotations.
Open Scope list_scope.
Open Scope Z_scope.

Lemma src_tapleaf_tagged_hash_eq : forall sha256 s,
  src_tapleaf_tagged_hash sha256 s = of_option (tapleaf_tagged_hash sha256 s).
Proof.
  intros. unfold src_tapleaf_tagged_hash, tapleaf_tagged_hash, Schnorr.obind, py_bytes1.
  destruct ((0 <=? leaf_version_tapscript) && (leaf_version_tapscript <? 256)) eqn:E; [|vm_compute in E; discriminate E].
  tie_pipe.
Qed.
