(* C13: order independence of signing / attaching operations (pure model, Model/Order.v) and
   separation of copies in the store model (Model/Heap.v). *)
From Coq Require Import ZArith String List Bool Lia Permutation.
From BU Require Import Lib.Bytes Model.Script Model.Tx Model.Sighash Model.Order Model.Heap Proofs.LegacySighashFacts.
Import ListNotations.
Open Scope list_scope.
(* the imported models leave Z_scope open; all arithmetic in this file is over nat (locations, indices) *)
Local Open Scope nat_scope.

(* ====================================================================== *)
(* PART 2: the store model                                                *)
(* ====================================================================== *)

Definition below (c : nat) (ls : list loc) : Prop := Forall (fun l => l < c) ls.
Definition above (c : nat) (ls : list loc) : Prop := Forall (fun l => c <= l) ls.
Definition within (c c' : nat) (ls : list loc) : Prop := Forall (fun l => c <= l < c') ls.

Lemma within_above c c' ls : within c c' ls -> above c ls.
Proof. apply Forall_impl. intros; lia. Qed.

Lemma within_below c c' ls : within c c' ls -> below c' ls.
Proof. apply Forall_impl. intros; lia. Qed.

Lemma within_mono a b a' b' ls : a' <= a -> b <= b' -> within a b ls -> within a' b' ls.
Proof. intros Ha Hb. apply Forall_impl. intros; lia. Qed.

Lemma within_app a b l1 l2 : within a b l1 -> within a b l2 -> within a b (l1 ++ l2).
Proof. intros H1 H2. apply Forall_app. split; assumption. Qed.

Lemma within_in a b ls l : within a b ls -> In l ls -> a <= l < b.
Proof. intros H Hin. unfold within in H. rewrite Forall_forall in H. apply H, Hin. Qed.

Lemma below_above_disjoint c ls ls' : below c ls -> above c ls' -> forall l, In l ls -> ~ In l ls'.
Proof.
  unfold below, above. rewrite !Forall_forall. intros Hb Ha l H1 H2.
  specialize (Hb l H1). specialize (Ha l H2). lia.
Qed.

Lemma within_disjoint a b b' c l1 l2 :
  within a b l1 -> within b' c l2 -> b <= b' -> forall l, In l l1 -> ~ In l l2.
Proof.
  intros H1 H2 Hle l I1 I2. pose proof (within_in _ _ _ _ H1 I1). pose proof (within_in _ _ _ _ H2 I2). lia.
Qed.

Lemma NoDup_append {A} (l1 l2 : list A) :
  NoDup l1 -> NoDup l2 -> (forall x, In x l1 -> ~ In x l2) -> NoDup (l1 ++ l2).
Proof.
  induction l1 as [|x r IH]; intros H1 H2 Hd; cbn [app]; [exact H2|].
  inversion H1 as [|? ? Hx Hr]; subst. constructor.
  - intros Hin. apply in_app_or in Hin. destruct Hin as [Hin|Hin]; [exact (Hx Hin)|].
    exact (Hd x (or_introl eq_refl) Hin).
  - apply IH; [exact Hr|exact H2|]. intros y Hy. apply Hd. now right.
Qed.

(* what every allocation helper guarantees: the counter only moves forward, the result's cells are the
   ones handed out in between, and they are pairwise distinct *)
Definition good {A} (locs : A -> list loc) (c : nat) (y : A) (c' : nat) : Prop :=
  c <= c' /\ within c c' (locs y) /\ NoDup (locs y).

Local Ltac solve_cells :=
  repeat match goal with
         | |- _ /\ _ => split
         | |- within _ _ _ => unfold within
         | |- Forall _ (_ :: _) => constructor
         | |- Forall _ [] => constructor
         | |- NoDup (_ :: _) => constructor
         | |- NoDup [] => constructor
         | |- ~ In _ _ => cbn [In]; intros ?
         end; try reflexivity; try lia; try tauto.

Lemma new_script_good content c s c' :
  new_script content c = (s, c') -> val_script s = content /\ good locs_script c s c'.
Proof.
  cbv [new_script bind ret fresh]. intros H. injection H as <- <-.
  unfold good, locs_script, val_script. cbn [sc_obj sc_list sc_content]. solve_cells.
Qed.

Lemma copy_script_good s c s' c' :
  copy_script s c = (s', c') -> val_script s' = val_script s /\ good locs_script c s' c'.
Proof. unfold copy_script. apply new_script_good. Qed.

Lemma new_txin_default_good f c a c' :
  new_txin_default f c = (a, c') -> val_in a = ([], f) /\ good locs_in c a c'.
Proof.
  cbv [new_txin_default new_script bind ret fresh]. intros H. injection H as <- <-.
  unfold good, locs_in, locs_script, val_in, val_script. cbn [in_obj in_script in_fields sc_obj sc_list sc_content]. solve_cells.
Qed.

Lemma copy_in_good i c i' c' :
  copy_in i c = (i', c') -> val_in i' = val_in i /\ good locs_in c i' c'.
Proof.
  cbv [copy_in copy_script new_script bind ret fresh]. intros H. injection H as <- <-.
  unfold good, locs_in, locs_script, val_in, val_script. cbn [in_obj in_script in_fields sc_obj sc_list sc_content]. solve_cells.
Qed.

Lemma copy_out_good o c o' c' :
  copy_out o c = (o', c') -> val_out o' = val_out o /\ good locs_out c o' c'.
Proof.
  cbv [copy_out copy_script new_script bind ret fresh]. intros H. injection H as <- <-.
  unfold good, locs_out, locs_script, val_out, val_script. cbn [out_obj out_script out_amount sc_obj sc_list sc_content]. solve_cells.
Qed.

Lemma copy_wit_good w c w' c' :
  copy_wit w c = (w', c') -> wit_items w' = wit_items w /\ good locs_wit c w' c'.
Proof.
  cbv [copy_wit bind ret fresh]. intros H. injection H as <- <-.
  unfold good, locs_wit. cbn [wit_obj wit_stack wit_items]. solve_cells.
Qed.

(* the generic list lemma *)
Lemma map_alloc_good {A B V} (f : A -> alloc B) (locs : B -> list loc) (va : A -> V) (vb : B -> V) :
  (forall x c y c', f x c = (y, c') -> vb y = va x /\ good locs c y c') ->
  forall l c ys c', map_alloc f l c = (ys, c') ->
    map vb ys = map va l /\ c <= c' /\ within c c' (concat (map locs ys)) /\ NoDup (concat (map locs ys)).
Proof.
  intros Hf. induction l as [|x r IH]; intros c ys c' H; cbn [map_alloc] in H.
  - unfold ret in H. injection H as <- <-. cbn [map concat]. repeat split; try constructor.
  - unfold bind at 1 in H. destruct (f x c) as [y c1] eqn:E1.
    unfold bind at 1 in H. destruct (map_alloc f r c1) as [ys1 c2] eqn:E2.
    unfold ret in H. injection H as <- <-.
    destruct (Hf _ _ _ _ E1) as (Hv & Hle & Hw & Hn).
    destruct (IH _ _ _ E2) as (Hvs & Hle2 & Hw2 & Hn2).
    cbn [map concat]. repeat split.
    + now rewrite Hv, Hvs.
    + lia.
    + apply within_app; [eapply within_mono; [| |exact Hw]; lia|eapply within_mono; [| |exact Hw2]; lia].
    + apply NoDup_append; [exact Hn|exact Hn2|]. eapply within_disjoint; [exact Hw|exact Hw2|lia].
Qed.

(* the general shape of the separation statements *)
Lemma good_separated {A} (locs : A -> list loc) (x y : A) c c' :
  below c (locs x) -> good locs c y c' ->
  above c (locs y) /\ below c' (locs y) /\ c <= c' /\ NoDup (locs y) /\ (forall l, In l (locs x) -> ~ In l (locs y)).
Proof.
  intros Hb (Hle & Hw & Hn). repeat split.
  - eapply within_above; eauto.
  - eapply within_below; eauto.
  - exact Hle.
  - exact Hn.
  - eapply below_above_disjoint; [exact Hb|eapply within_above; eauto].
Qed.

Theorem copy_script_separated s c s' c' : below c (locs_script s) -> copy_script s c = (s', c') ->
  val_script s' = val_script s /\ above c (locs_script s') /\ below c' (locs_script s') /\ c <= c' /\ NoDup (locs_script s') /\
  (forall l, In l (locs_script s) -> ~ In l (locs_script s')).
Proof. intros Hb H. destruct (copy_script_good _ _ _ _ H) as [Hv Hg]. split; [exact Hv|]. eapply good_separated; eauto. Qed.

Theorem copy_in_separated i c i' c' : below c (locs_in i) -> copy_in i c = (i', c') ->
  val_in i' = val_in i /\ above c (locs_in i') /\ below c' (locs_in i') /\ c <= c' /\ NoDup (locs_in i') /\
  (forall l, In l (locs_in i) -> ~ In l (locs_in i')).
Proof. intros Hb H. destruct (copy_in_good _ _ _ _ H) as [Hv Hg]. split; [exact Hv|]. eapply good_separated; eauto. Qed.

Theorem copy_out_separated o c o' c' : below c (locs_out o) -> copy_out o c = (o', c') ->
  val_out o' = val_out o /\ above c (locs_out o') /\ below c' (locs_out o') /\ c <= c' /\ NoDup (locs_out o') /\
  (forall l, In l (locs_out o) -> ~ In l (locs_out o')).
Proof. intros Hb H. destruct (copy_out_good _ _ _ _ H) as [Hv Hg]. split; [exact Hv|]. eapply good_separated; eauto. Qed.

Theorem copy_wit_separated w c w' c' : below c (locs_wit w) -> copy_wit w c = (w', c') ->
  wit_items w' = wit_items w /\ above c (locs_wit w') /\ below c' (locs_wit w') /\ c <= c' /\ NoDup (locs_wit w') /\
  (forall l, In l (locs_wit w) -> ~ In l (locs_wit w')).
Proof. intros Hb H. destruct (copy_wit_good _ _ _ _ H) as [Hv Hg]. split; [exact Hv|]. eapply good_separated; eauto. Qed.

Lemma copy_tx_good t c t' c' : copy_tx t c = (t', c') -> val_tx t' = val_tx t /\ good locs_tx c t' c'.
Proof.
  unfold copy_tx. intros H.
  unfold bind at 1 in H. destruct (map_alloc copy_in (tx_ins t) c) as [ins c1] eqn:E1.
  unfold bind at 1 in H. destruct (map_alloc copy_out (tx_outs t) c1) as [outs c2] eqn:E2.
  unfold bind at 1 in H. destruct (map_alloc copy_wit (tx_wits t) c2) as [wits c3] eqn:E3.
  cbv [bind ret fresh] in H. injection H as <- <-.
  destruct (map_alloc_good copy_in locs_in val_in val_in copy_in_good _ _ _ _ E1) as (V1 & L1 & W1 & N1).
  destruct (map_alloc_good copy_out locs_out val_out val_out copy_out_good _ _ _ _ E2) as (V2 & L2 & W2 & N2).
  destruct (map_alloc_good copy_wit locs_wit wit_items wit_items copy_wit_good _ _ _ _ E3) as (V3 & L3 & W3 & N3).
  unfold val_tx, good, locs_tx.
  cbn [Heap.tx_obj Heap.tx_ins_list Heap.tx_outs_list Heap.tx_wits_list Heap.tx_ins Heap.tx_outs Heap.tx_wits Heap.tx_fields].
  split; [now rewrite V1, V2, V3|]. split; [lia|].
  assert (Wall : within c c3 (concat (map locs_in ins) ++ concat (map locs_out outs) ++ concat (map locs_wit wits))).
  { apply within_app; [eapply within_mono; [| |exact W1]; lia|].
    apply within_app; [eapply within_mono; [| |exact W2]; lia|eapply within_mono; [| |exact W3]; lia]. }
  assert (Nall : NoDup (concat (map locs_in ins) ++ concat (map locs_out outs) ++ concat (map locs_wit wits))).
  { apply NoDup_append; [exact N1| |].
    - apply NoDup_append; [exact N2|exact N3|]. eapply within_disjoint; [exact W2|exact W3|lia].
    - intros l I1 I2. apply in_app_or in I2. destruct I2 as [I2|I2].
      + revert l I1 I2. eapply within_disjoint; [exact W1|exact W2|lia].
      + revert l I1 I2. eapply within_disjoint; [exact W1|exact W3|lia]. }
  split.
  - apply (within_app c (S (S (S (S c3)))) [S (S (S c3)); c3; S c3; S (S c3)]).
    + solve_cells.
    + eapply within_mono; [| |exact Wall]; lia.
  - apply (NoDup_append [S (S (S c3)); c3; S c3; S (S c3)]).
    + solve_cells.
    + exact Nall.
    + intros l I1 I2. pose proof (within_in _ _ _ _ Wall I2). cbn [In] in I1. lia.
Qed.

Theorem copy_tx_separated t c t' c' : below c (locs_tx t) -> copy_tx t c = (t', c') ->
  val_tx t' = val_tx t /\ above c (locs_tx t') /\ below c' (locs_tx t') /\ c <= c' /\ NoDup (locs_tx t') /\
  (forall l, In l (locs_tx t) -> ~ In l (locs_tx t')).
Proof. intros Hb H. destruct (copy_tx_good _ _ _ _ H) as [Hv Hg]. split; [exact Hv|]. eapply good_separated; eauto. Qed.

(* two default-constructed inputs share no Script *)
Theorem fresh_txins_separated f1 f2 c :
  let '(a, c1) := new_txin_default f1 c in let '(b, _) := new_txin_default f2 c1 in
  forall l, In l (locs_in a) -> ~ In l (locs_in b).
Proof.
  destruct (new_txin_default f1 c) as [a c1] eqn:E1. destruct (new_txin_default f2 c1) as [b c2] eqn:E2.
  destruct (new_txin_default_good _ _ _ _ E1) as (_ & _ & W1 & _).
  destruct (new_txin_default_good _ _ _ _ E2) as (_ & _ & W2 & _).
  eapply within_disjoint; [exact W1|exact W2|lia].
Qed.

(* a write to any cell of the copy does not affect the original, and vice versa *)
Corollary mutation_isolated t c t' c' l : below c (locs_tx t) -> copy_tx t c = (t', c') ->
  (affects l (locs_tx t') -> ~ affects l (locs_tx t)) /\ (affects l (locs_tx t) -> ~ affects l (locs_tx t')).
Proof.
  intros Hb H. destruct (copy_tx_separated _ _ _ _ Hb H) as (_ & _ & _ & _ & _ & Hd).
  unfold affects. split.
  - intros H1 H2. exact (Hd l H2 H1).
  - intros H1 H2. exact (Hd l H1 H2).
Qed.

(* ====================================================================== *)
(* PART 1: the pure model                                                 *)
(* ====================================================================== *)

(* ---- generic list facts ---- *)
Lemma list_eq_nth_nolen {A} (l1 l2 : list A) : (forall j, nth_error l1 j = nth_error l2 j) -> l1 = l2.
Proof.
  revert l2; induction l1 as [|x r IH]; intros [|y r2] H.
  - reflexivity.
  - specialize (H 0). discriminate.
  - specialize (H 0). discriminate.
  - pose proof (H 0) as H0. cbn in H0. injection H0 as <-. f_equal. apply IH. intros j. exact (H (S j)).
Qed.

Lemma find_none_all {A} (p : A -> bool) l : (forall x, In x l -> p x = false) -> find p l = None.
Proof.
  induction l as [|a r IH]; intros H; cbn [find]; [reflexivity|].
  rewrite (H a (or_introl eq_refl)). apply IH. intros x Hx. apply H. now right.
Qed.

(* a predicate with at most one match in the list: find does not depend on the order *)
Lemma find_perm {A} (p : A -> bool) l l' :
  Permutation l l' -> (forall x y, In x l -> In y l -> p x = true -> p y = true -> x = y) -> find p l = find p l'.
Proof.
  intros HP Hu.
  destruct (find p l) as [x|] eqn:E1; destruct (find p l') as [y|] eqn:E2; try reflexivity.
  - apply find_some in E1. apply find_some in E2. destruct E1 as [I1 P1], E2 as [I2 P2].
    f_equal. apply Hu; try assumption. eapply Permutation_in; [apply Permutation_sym; exact HP|exact I2].
  - apply find_some in E1. destruct E1 as [I1 P1].
    pose proof (find_none _ _ E2 x (Permutation_in _ HP I1)) as F. congruence.
  - apply find_some in E2. destruct E2 as [I2 P2].
    pose proof (find_none _ _ E1 y (Permutation_in _ (Permutation_sym HP) I2)) as F. congruence.
Qed.

Lemma NoDup_map_inj {A B} (f : A -> B) l x y : NoDup (map f l) -> In x l -> In y l -> f x = f y -> x = y.
Proof.
  induction l as [|a r IH]; cbn [map In]; intros Hnd Hx Hy E; [contradiction|].
  inversion Hnd as [|? ? Hn Hr]; subst.
  destruct Hx as [Hx|Hx], Hy as [Hy|Hy].
  - congruence.
  - subst a. exfalso. apply Hn. rewrite E. now apply in_map.
  - subst a. exfalso. apply Hn. rewrite <- E. now apply in_map.
  - now apply IH.
Qed.

Lemma tx_ext (a b : tx) :
  tx_version a = tx_version b -> tx_inputs a = tx_inputs b -> tx_outputs a = tx_outputs b ->
  tx_locktime a = tx_locktime b -> tx_segwit a = tx_segwit b -> tx_witnesses a = tx_witnesses b -> a = b.
Proof. destruct a, b. cbn. intros; subst; reflexivity. Qed.

(* tx_to_bytes without the witness section reads four fields only *)
Lemma tx_to_bytes_false_irrel (a b : tx) :
  tx_version a = tx_version b -> tx_inputs a = tx_inputs b -> tx_outputs a = tx_outputs b -> tx_locktime a = tx_locktime b ->
  tx_to_bytes a false = tx_to_bytes b false.
Proof. intros Hv Hi Ho Hl. unfold tx_to_bytes. now rewrite Hv, Hi, Ho, Hl. Qed.

(* ---- the skeleton of a transaction: everything but scriptSigs and witnesses ---- *)
Definition same_skeleton (t t' : tx) : Prop :=
  tx_version t = tx_version t' /\ tx_outputs t = tx_outputs t' /\ tx_locktime t = tx_locktime t' /\ tx_segwit t = tx_segwit t' /\
  length (tx_inputs t) = length (tx_inputs t') /\
  (forall k a b, nth_error (tx_inputs t) k = Some a -> nth_error (tx_inputs t') k = Some b ->
     ti_txid a = ti_txid b /\ ti_vout a = ti_vout b /\ ti_seq a = ti_seq b).

Definition strip (x : txin) : txin := set_script [] x.
Definition skel (t : tx) : tx :=
  {| tx_version := tx_version t; tx_inputs := map strip (tx_inputs t); tx_outputs := tx_outputs t;
     tx_locktime := tx_locktime t; tx_segwit := tx_segwit t; tx_witnesses := [] |}.

Lemma strip_eq a b : ti_txid a = ti_txid b -> ti_vout a = ti_vout b -> ti_seq a = ti_seq b -> strip a = strip b.
Proof. intros H1 H2 H3. unfold strip, set_script. now rewrite H1, H2, H3. Qed.

Lemma strip_inv a b : strip a = strip b -> ti_txid a = ti_txid b /\ ti_vout a = ti_vout b /\ ti_seq a = ti_seq b.
Proof. unfold strip, set_script. intros H. injection H as H1 H2 H3. auto. Qed.

Lemma same_skeleton_skel t t' : same_skeleton t t' <-> skel t = skel t'.
Proof.
  split.
  - intros (Hv & Ho & Hl & Hs & Hn & Hp). unfold skel. rewrite Hv, Ho, Hl, Hs. f_equal.
    apply list_eq_nth; [now rewrite !map_length|].
    intros j. rewrite !nth_error_map.
    destruct (nth_error (tx_inputs t) j) as [a|] eqn:Ea; destruct (nth_error (tx_inputs t') j) as [b|] eqn:Eb; cbn [option_map].
    + f_equal. destruct (Hp _ _ _ Ea Eb) as (H1 & H2 & H3). now apply strip_eq.
    + apply nth_error_None in Eb. assert (nth_error (tx_inputs t) j <> None) as Hc by congruence.
      apply nth_error_Some in Hc. lia.
    + apply nth_error_None in Ea. assert (nth_error (tx_inputs t') j <> None) as Hc by congruence.
      apply nth_error_Some in Hc. lia.
    + reflexivity.
  - intros H.
    assert (Hv : tx_version (skel t) = tx_version (skel t')) by now rewrite H.
    assert (Hi : tx_inputs (skel t) = tx_inputs (skel t')) by now rewrite H.
    assert (Ho : tx_outputs (skel t) = tx_outputs (skel t')) by now rewrite H.
    assert (Hl : tx_locktime (skel t) = tx_locktime (skel t')) by now rewrite H.
    assert (Hs : tx_segwit (skel t) = tx_segwit (skel t')) by now rewrite H.
    cbn [skel tx_version tx_inputs tx_outputs tx_locktime tx_segwit] in Hv, Hi, Ho, Hl, Hs.
    assert (Hp : forall k a b, nth_error (tx_inputs t) k = Some a -> nth_error (tx_inputs t') k = Some b ->
                 ti_txid a = ti_txid b /\ ti_vout a = ti_vout b /\ ti_seq a = ti_seq b).
    { intros k a b Ha Hb.
      assert (E : nth_error (map strip (tx_inputs t)) k = nth_error (map strip (tx_inputs t')) k) by now rewrite Hi.
      rewrite !nth_error_map, Ha, Hb in E. cbn [option_map] in E.
      apply strip_inv. congruence. }
    repeat split; try assumption.
    all: try (rewrite <- (map_length strip (tx_inputs t)), Hi; apply map_length).
    all: try (eapply Hp; eassumption).
Qed.

Lemma same_skeleton_refl t : same_skeleton t t.
Proof. now apply same_skeleton_skel. Qed.
Lemma same_skeleton_sym t t' : same_skeleton t t' -> same_skeleton t' t.
Proof. intros H. apply same_skeleton_skel. symmetry. now apply same_skeleton_skel. Qed.
Lemma same_skeleton_trans t t' t'' : same_skeleton t t' -> same_skeleton t' t'' -> same_skeleton t t''.
Proof. intros H1 H2. apply same_skeleton_skel in H1, H2. apply same_skeleton_skel. congruence. Qed.

Lemma outpoint_strip x : outpoint_bytes (strip x) = outpoint_bytes x.
Proof. reflexivity. Qed.

Lemma concat_opt_outpoint_strip l : concat_opt outpoint_bytes (map strip l) = concat_opt outpoint_bytes l.
Proof. induction l as [|x r IH]; cbn [map concat_opt]; [reflexivity|]. now rewrite outpoint_strip, IH. Qed.

Lemma map_seq_strip l : map ti_seq (map strip l) = map ti_seq l.
Proof. rewrite map_map. apply map_ext. reflexivity. Qed.

Lemma map_blank_strip l : map (set_script []) (map strip l) = map (set_script []) l.
Proof. rewrite map_map. apply map_ext. reflexivity. Qed.

Lemma map_strip_replace l i s : map strip (replace_nth l i (set_script s)) = map strip l.
Proof.
  revert i; induction l as [|x r IH]; intros [|i]; cbn [replace_nth map]; try reflexivity.
  now rewrite IH.
Qed.

Section O.
  Variable sha256 : bytes -> bytes.
  Variable signer : nat -> bytes -> bytes.

  (* (a) every digest is a function of the skeleton *)
  Lemma legacy_preimage_skel t i sc ht : legacy_preimage (skel t) i sc ht = legacy_preimage t i sc ht.
  Proof.
    unfold legacy_preimage, skel, tx_to_bytes. cbv zeta.
    cbn [tx_copy tx_inputs tx_outputs tx_version tx_locktime tx_segwit tx_witnesses].
    unfold txin_copy, txout_copy. rewrite !map_id, map_blank_strip. reflexivity.
  Qed.

  Lemma segwit_preimage_skel t i sc am ht : segwit_preimage sha256 (skel t) i sc am ht = segwit_preimage sha256 t i sc am ht.
  Proof.
    unfold segwit_preimage, skel. cbv zeta.
    cbn [tx_inputs tx_outputs tx_version tx_locktime tx_segwit tx_witnesses].
    rewrite concat_opt_outpoint_strip, map_seq_strip, nth_error_map.
    destruct (nth_error (tx_inputs t) i) as [x|]; cbn [option_map obind]; reflexivity.
  Qed.

  Lemma taproot_sigmsg_skel t i spks ams ext leaf ht :
    taproot_sigmsg sha256 (skel t) i spks ams ext leaf ht = taproot_sigmsg sha256 t i spks ams ext leaf ht.
  Proof.
    unfold taproot_sigmsg, skel. cbv zeta.
    cbn [tx_inputs tx_outputs tx_version tx_locktime tx_segwit tx_witnesses].
    rewrite concat_opt_outpoint_strip, map_seq_strip, nth_error_map.
    destruct (nth_error (tx_inputs t) i) as [x|]; cbn [option_map obind]; reflexivity.
  Qed.

  Lemma digest_skel t i k : digest_of sha256 (skel t) i k = digest_of sha256 t i k.
  Proof.
    destruct k; cbn [digest_of].
    - unfold legacy_digest. now rewrite legacy_preimage_skel.
    - unfold segwit_digest. now rewrite segwit_preimage_skel.
    - unfold taproot_digest. now rewrite taproot_sigmsg_skel.
  Qed.

  Theorem digest_ignores_attachments t t' i k : same_skeleton t t' -> digest_of sha256 t i k = digest_of sha256 t' i k.
  Proof.
    intros H. apply same_skeleton_skel in H.
    rewrite <- (digest_skel t), <- (digest_skel t'). now rewrite H.
  Qed.

  (* (b) operations keep the skeleton *)
  Lemma skel_apply_op t o : skel (apply_op sha256 signer t o) = skel t.
  Proof.
    unfold apply_op. destruct (digest_of sha256 t (op_index o) (op_kind o)) as [d|]; [|reflexivity].
    destruct (op_to_witness o).
    - reflexivity.
    - unfold skel, set_script_at. cbn [tx_inputs tx_outputs tx_version tx_locktime tx_segwit tx_witnesses].
      now rewrite map_strip_replace.
  Qed.

  Lemma skel_run ops t : skel (run sha256 signer ops t) = skel t.
  Proof.
    unfold run. revert t; induction ops as [|o r IH]; intros t; cbn [fold_left]; [reflexivity|].
    rewrite IH. apply skel_apply_op.
  Qed.

  Lemma apply_op_skeleton t o : same_skeleton t (apply_op sha256 signer t o).
  Proof. apply same_skeleton_skel. symmetry. apply skel_apply_op. Qed.

  Lemma run_skeleton ops t : same_skeleton t (run sha256 signer ops t).
  Proof. apply same_skeleton_skel. symmetry. apply skel_run. Qed.

  (* the four scalar fields are literally unchanged *)
  Lemma run_fields ops t :
    let t' := run sha256 signer ops t in
    tx_version t' = tx_version t /\ tx_outputs t' = tx_outputs t /\ tx_locktime t' = tx_locktime t /\ tx_segwit t' = tx_segwit t.
  Proof.
    cbv zeta. pose proof (skel_run ops t) as H.
    assert (Hv : tx_version (skel (run sha256 signer ops t)) = tx_version (skel t)) by now rewrite H.
    assert (Ho : tx_outputs (skel (run sha256 signer ops t)) = tx_outputs (skel t)) by now rewrite H.
    assert (Hl : tx_locktime (skel (run sha256 signer ops t)) = tx_locktime (skel t)) by now rewrite H.
    assert (Hs : tx_segwit (skel (run sha256 signer ops t)) = tx_segwit (skel t)) by now rewrite H.
    cbn [skel tx_version tx_outputs tx_locktime tx_segwit] in Hv, Ho, Hl, Hs. auto.
  Qed.

  (* (c) the effect of one operation on each slot *)
  Lemma apply_op_inputs t o j :
    nth_error (tx_inputs (apply_op sha256 signer t o)) j =
    if negb (op_to_witness o) && Nat.eqb (op_index o) j
    then option_map (fun x => match digest_of sha256 t j (op_kind o) with
                              | Some d => set_script [TData (signer j d)] x | None => x end) (nth_error (tx_inputs t) j)
    else nth_error (tx_inputs t) j.
  Proof.
    unfold apply_op. destruct (op_to_witness o); cbn [negb andb].
    - destruct (digest_of sha256 t (op_index o) (op_kind o)); reflexivity.
    - destruct (Nat.eqb (op_index o) j) eqn:E.
      + apply Nat.eqb_eq in E. subst j.
        destruct (digest_of sha256 t (op_index o) (op_kind o)) as [d|].
        * unfold set_script_at. cbn [tx_inputs]. rewrite nth_error_replace_nth, Nat.eqb_refl. reflexivity.
        * destruct (nth_error (tx_inputs t) (op_index o)); reflexivity.
      + destruct (digest_of sha256 t (op_index o) (op_kind o)) as [d|]; [|reflexivity].
        unfold set_script_at. cbn [tx_inputs]. rewrite nth_error_replace_nth, Nat.eqb_sym, E. reflexivity.
  Qed.

  Lemma apply_op_witnesses t o j :
    nth_error (tx_witnesses (apply_op sha256 signer t o)) j =
    if op_to_witness o && Nat.eqb (op_index o) j
    then option_map (fun w => match digest_of sha256 t j (op_kind o) with
                              | Some d => [signer j d] | None => w end) (nth_error (tx_witnesses t) j)
    else nth_error (tx_witnesses t) j.
  Proof.
    unfold apply_op. destruct (op_to_witness o); cbn [negb andb].
    - destruct (Nat.eqb (op_index o) j) eqn:E.
      + apply Nat.eqb_eq in E. subst j.
        destruct (digest_of sha256 t (op_index o) (op_kind o)) as [d|].
        * unfold set_witness_at. cbn [tx_witnesses]. rewrite nth_error_replace_nth, Nat.eqb_refl. reflexivity.
        * destruct (nth_error (tx_witnesses t) (op_index o)); reflexivity.
      + destruct (digest_of sha256 t (op_index o) (op_kind o)) as [d|]; [|reflexivity].
        unfold set_witness_at. cbn [tx_witnesses]. rewrite nth_error_replace_nth, Nat.eqb_sym, E. reflexivity.
    - destruct (digest_of sha256 t (op_index o) (op_kind o)); reflexivity.
  Qed.

  Definition target (o : op) : bool * nat := (op_to_witness o, op_index o).

  Lemma run_cons o r t : run sha256 signer (o :: r) t = run sha256 signer r (apply_op sha256 signer t o).
  Proof. reflexivity. Qed.

  Lemma digest_after_op t o j k : digest_of sha256 (apply_op sha256 signer t o) j k = digest_of sha256 t j k.
  Proof. symmetry. apply digest_ignores_attachments, apply_op_skeleton. Qed.

  (* no later operation has the target of the head *)
  Lemma no_later_match (p : op -> bool) o r w j :
    (forall x, p x = true -> target x = (w, j)) -> p o = true -> ~ In (target o) (map target r) -> find p r = None.
  Proof.
    intros Hp Ho Hn. apply find_none_all. intros x Hx. destruct (p x) eqn:Px; [|reflexivity].
    exfalso. apply Hn. rewrite (Hp o Ho), <- (Hp x Px). now apply in_map.
  Qed.

  Lemma script_pred_target j x : negb (op_to_witness x) && Nat.eqb (op_index x) j = true -> target x = (false, j).
  Proof.
    intros H. apply andb_true_iff in H. destruct H as [H1 H2]. apply Nat.eqb_eq in H2.
    unfold target. destruct (op_to_witness x); [discriminate|]. now rewrite H2.
  Qed.

  Lemma witness_pred_target j x : op_to_witness x && Nat.eqb (op_index x) j = true -> target x = (true, j).
  Proof.
    intros H. apply andb_true_iff in H. destruct H as [H1 H2]. apply Nat.eqb_eq in H2.
    unfold target. now rewrite H1, H2.
  Qed.

  Lemma run_inputs ops : forall t, NoDup (map target ops) -> forall j,
    nth_error (tx_inputs (run sha256 signer ops t)) j =
    match nth_error (tx_inputs t) j with
    | None => None
    | Some x => Some (match find (fun o => negb (op_to_witness o) && Nat.eqb (op_index o) j) ops with
                      | Some o => match digest_of sha256 t j (op_kind o) with
                                  | Some d => set_script [TData (signer j d)] x | None => x end
                      | None => x end)
    end.
  Proof.
    induction ops as [|o r IH]; intros t Hnd j.
    - cbn [run fold_left find]. destruct (nth_error (tx_inputs t) j); reflexivity.
    - rewrite run_cons. cbn [map] in Hnd. inversion Hnd as [|? ? Hnot Hnd']; subst.
      rewrite (IH _ Hnd' j), apply_op_inputs. cbn [find].
      destruct (negb (op_to_witness o) && Nat.eqb (op_index o) j) eqn:P.
      + rewrite (no_later_match _ o r false j (script_pred_target j) P Hnot).
        destruct (nth_error (tx_inputs t) j); reflexivity.
      + destruct (nth_error (tx_inputs t) j) as [x|]; [|reflexivity]. f_equal.
        destruct (find _ r) as [o'|]; [|reflexivity]. now rewrite digest_after_op.
  Qed.

  Lemma run_witnesses ops : forall t, NoDup (map target ops) -> forall j,
    nth_error (tx_witnesses (run sha256 signer ops t)) j =
    match nth_error (tx_witnesses t) j with
    | None => None
    | Some w => Some (match find (fun o => op_to_witness o && Nat.eqb (op_index o) j) ops with
                      | Some o => match digest_of sha256 t j (op_kind o) with Some d => [signer j d] | None => w end
                      | None => w end)
    end.
  Proof.
    induction ops as [|o r IH]; intros t Hnd j.
    - cbn [run fold_left find]. destruct (nth_error (tx_witnesses t) j); reflexivity.
    - rewrite run_cons. cbn [map] in Hnd. inversion Hnd as [|? ? Hnot Hnd']; subst.
      rewrite (IH _ Hnd' j), apply_op_witnesses. cbn [find].
      destruct (op_to_witness o && Nat.eqb (op_index o) j) eqn:P.
      + rewrite (no_later_match _ o r true j (witness_pred_target j) P Hnot).
        destruct (nth_error (tx_witnesses t) j); reflexivity.
      + destruct (nth_error (tx_witnesses t) j) as [x|]; [|reflexivity]. f_equal.
        destruct (find _ r) as [o'|]; [|reflexivity]. now rewrite digest_after_op.
  Qed.

  Theorem run_slots ops t : NoDup (map target ops) ->
    let t' := run sha256 signer ops t in
    (forall j, nth_error (tx_inputs t') j =
       match nth_error (tx_inputs t) j with
       | None => None
       | Some x => Some (match find (fun o => negb (op_to_witness o) && Nat.eqb (op_index o) j) ops with
                         | Some o => match digest_of sha256 t j (op_kind o) with
                                     | Some d => set_script [TData (signer j d)] x | None => x end
                         | None => x end)
       end) /\
    (forall j, nth_error (tx_witnesses t') j =
       match nth_error (tx_witnesses t) j with
       | None => None
       | Some w => Some (match find (fun o => op_to_witness o && Nat.eqb (op_index o) j) ops with
                         | Some o => match digest_of sha256 t j (op_kind o) with Some d => [signer j d] | None => w end
                         | None => w end)
       end).
  Proof. intros Hnd. cbv zeta. split; intros j; [now apply run_inputs|now apply run_witnesses]. Qed.

  (* (d) order independence *)
  Theorem run_order_independent ops ops' t : Permutation ops ops' -> NoDup (map target ops) ->
    run sha256 signer ops t = run sha256 signer ops' t.
  Proof.
    intros HP Hnd.
    assert (Hnd' : NoDup (map target ops')) by (eapply Permutation_NoDup; [apply Permutation_map; exact HP|exact Hnd]).
    assert (F : forall (p : op -> bool) w j, (forall x, p x = true -> target x = (w, j)) -> find p ops = find p ops').
    { intros p w j Hp. apply find_perm; [exact HP|]. intros x y Ix Iy Px Py.
      apply (NoDup_map_inj target ops); try assumption. now rewrite (Hp x Px), (Hp y Py). }
    destruct (run_fields ops t) as (V1 & O1 & L1 & S1). destruct (run_fields ops' t) as (V2 & O2 & L2 & S2).
    apply tx_ext; try congruence.
    - apply list_eq_nth_nolen. intros j. rewrite (run_inputs ops t Hnd j), (run_inputs ops' t Hnd' j).
      now rewrite (F _ false j (script_pred_target j)).
    - apply list_eq_nth_nolen. intros j. rewrite (run_witnesses ops t Hnd j), (run_witnesses ops' t Hnd' j).
      now rewrite (F _ true j (witness_pred_target j)).
  Qed.

  (* (e) purity: a digest is a function of the transaction value *)
  Lemma digest_deterministic t i k : digest_of sha256 t i k = digest_of sha256 t i k.
  Proof. reflexivity. Qed.
End O.
