(* Source tie for Sequence.for_script: the function as translated from the current source (Gen/Src.v) equals the model. *)
From Coq Require Import String ZArith List Bool Lia ZifyBool.
From BU Require Import Lib.Bytes Lib.BytesFacts Lib.PySem Gen.Tables Gen.Src Model.Varint Model.Script Model.Seq
  Proofs.ScriptNumFacts Proofs.TieLib.
Import ListNotations.
Open Scope list_scope.
Open Scope Z_scope.

Lemma src_for_script_eq : forall ty v blk,
  src_for_script ty v blk = of_option (for_script {| seq_type := ty; seq_value := v; seq_is_block := blk |}).
Proof.
  intros ty v blk. unfold src_for_script, for_script. cbn [seq_type seq_value seq_is_block].
  destruct blk; tie_auto.
Qed.
