From Coq Require Import ZArith String List Bool Lia.
From BU Require Import Lib.Bytes Lib.BytesFacts Model.Script Spec.ScriptSpec Proofs.ScriptNumFacts Model.Base58.
Import ListNotations.
Open Scope list_scope.
Open Scope Z_scope.
Ltac Zify.zify_post_hook ::= Z.to_euclidean_division_equations.

(* ---------- index_of, generically ---------- *)

Lemma index_of_spec c l d :
  index_of c l = Some d -> 0 <= d < Z.of_nat (length l) /\ nth (Z.to_nat d) l 0 = c.
Proof.
  revert d; induction l as [|x r IH]; intros d; cbn [index_of]; [discriminate|].
  destruct (x =? c) eqn:E.
  - intros H; inversion H; subst. cbn [length]. split; [lia|]. cbn. lia.
  - destruct (index_of c r) as [d'|]; cbn [option_map]; [|discriminate].
    intros H; inversion H; subst. destruct (IH d' eq_refl) as [B N].
    cbn [length]. split; [lia|]. rewrite Z2Nat.inj_succ by lia. cbn [nth]. exact N.
Qed.

Lemma index_of_in c l : In c l <-> index_of c l <> None.
Proof.
  induction l as [|x r IH]; cbn [index_of In].
  - split; [tauto|congruence].
  - destruct (x =? c) eqn:E.
    + split; [congruence|intros _; left; lia].
    + destruct (index_of c r) as [d'|]; cbn [option_map].
      * split; [congruence|intros _; right; apply IH; congruence].
      * split; [intros [H|H]; [lia|apply IH in H; congruence]|congruence].
Qed.

(* ---------- the alphabet ---------- *)

Fixpoint nodupb (l : list Z) : bool :=
  match l with
  | [] => true
  | x :: r => negb (existsb (Z.eqb x) r) && nodupb r
  end.

Lemma nodupb_NoDup l : nodupb l = true -> NoDup l.
Proof.
  induction l as [|x r IH]; cbn [nodupb]; intros H; constructor.
  - apply andb_true_iff in H as [H _]. apply negb_true_iff in H.
    intros Hin. assert (existsb (Z.eqb x) r = true); [|congruence].
    apply existsb_exists. exists x. split; [exact Hin|apply Z.eqb_refl].
  - apply IH. apply andb_true_iff in H as [_ H]. exact H.
Qed.

Lemma charset_ok : length b58_charset = 58%nat /\ NoDup b58_charset /\ wf_bytes b58_charset.
Proof.
  split; [reflexivity|]. split.
  - apply nodupb_NoDup. vm_compute. reflexivity.
  - apply wf_bytesb_iff. vm_compute. reflexivity.
Qed.

Lemma index_of_nth_table :
  forallb (fun n => match index_of (nth n b58_charset 0) b58_charset with
                    | Some d => d =? Z.of_nat n
                    | None => false
                    end) (seq 0 58) = true.
Proof. vm_compute. reflexivity. Qed.

Lemma index_of_nth d : 0 <= d < 58 -> index_of (nth (Z.to_nat d) b58_charset 0) b58_charset = Some d.
Proof.
  intros H. pose proof index_of_nth_table as T. rewrite forallb_forall in T.
  specialize (T (Z.to_nat d)).
  assert (Hin : In (Z.to_nat d) (seq 0 58)) by (apply in_seq; lia).
  specialize (T Hin). cbv beta in T.
  destruct (index_of (nth (Z.to_nat d) b58_charset 0) b58_charset) as [d'|]; [|discriminate].
  apply Z.eqb_eq in T. f_equal. lia.
Qed.

Lemma nth_index_of c d : index_of c b58_charset = Some d -> 0 <= d < 58 /\ nth (Z.to_nat d) b58_charset 0 = c.
Proof.
  intros H. apply index_of_spec in H. exact H.
Qed.

(* ---------- digits ---------- *)

Definition chr (d : Z) : Z := nth (Z.to_nat d) b58_charset 0.
Definition dig_ok (d : Z) : Prop := 0 <= d < 58.

Fixpoint dval (acc : Z) (l : list Z) : Z :=
  match l with
  | [] => acc
  | d :: r => dval (acc * 58 + d) r
  end.

Lemma chr_0 : chr 0 = 49.
Proof. reflexivity. Qed.

Lemma chr_inj d e : dig_ok d -> dig_ok e -> chr d = chr e -> d = e.
Proof.
  intros Hd He E. pose proof (index_of_nth d Hd) as A. pose proof (index_of_nth e He) as B.
  fold (chr d) in A. fold (chr e) in B. rewrite E in A. congruence.
Qed.

Lemma chr_49 d : dig_ok d -> (chr d = 49 <-> d = 0).
Proof.
  intros Hd. split.
  - intros E. apply chr_inj; [exact Hd|unfold dig_ok; lia|]. rewrite E. reflexivity.
  - intros ->. reflexivity.
Qed.

Lemma decode_int_map ds : forall acc, Forall dig_ok ds ->
  b58decode_int acc (map chr ds) = Some (dval acc ds).
Proof.
  induction ds as [|d r IH]; intros acc H; cbn [map b58decode_int dval]; [reflexivity|].
  inversion H; subst. unfold chr at 1. rewrite index_of_nth by assumption. apply IH. assumption.
Qed.

Lemma decode_int_inv l : forall acc v, b58decode_int acc l = Some v ->
  exists ds, Forall dig_ok ds /\ l = map chr ds /\ v = dval acc ds.
Proof.
  induction l as [|c r IH]; intros acc v; cbn [b58decode_int].
  - intros H; inversion H; subst. exists []. repeat split. constructor.
  - destruct (index_of c b58_charset) as [d|] eqn:E; [|discriminate].
    intros H. apply IH in H as (ds & Hok & Hr & Hv).
    apply nth_index_of in E as [Hd Hc].
    exists (d :: ds). repeat split.
    + constructor; assumption.
    + cbn [map]. unfold chr at 1. rewrite Hc, Hr. reflexivity.
    + exact Hv.
Qed.

Lemma decode_int_some_iff l : forall acc,
  (exists v, b58decode_int acc l = Some v) <-> Forall (fun c => In c b58_charset) l.
Proof.
  induction l as [|c r IH]; intros acc; cbn [b58decode_int].
  - split; [constructor|intros _; eexists; reflexivity].
  - pose proof (index_of_in c b58_charset) as I.
    destruct (index_of c b58_charset) as [d|] eqn:E.
    + rewrite IH. split.
      * intros H. constructor; [apply I; congruence|exact H].
      * intros H. inversion H; assumption.
    + split.
      * intros [v Hv]; discriminate.
      * intros H. inversion H; subst. apply I in H2. congruence.
Qed.

Lemma dval_app l : forall acc d, dval acc (l ++ [d]) = dval acc l * 58 + d.
Proof.
  induction l as [|x r IH]; intros acc d; cbn [app dval]; [reflexivity|apply IH].
Qed.

Lemma dval_nonneg l : forall acc, 0 <= acc -> Forall dig_ok l -> 0 <= dval acc l.
Proof.
  induction l as [|x r IH]; intros acc Ha H; cbn [dval]; [exact Ha|].
  inversion H; subst. unfold dig_ok in *. apply IH; [lia|assumption].
Qed.

Lemma dval_pos l : forall acc, 0 < acc -> Forall dig_ok l -> 0 < dval acc l.
Proof.
  induction l as [|x r IH]; intros acc Ha H; cbn [dval]; [exact Ha|].
  inversion H; subst. unfold dig_ok in *. apply IH; [lia|assumption].
Qed.

Lemma digits_ok fuel : forall n, Forall dig_ok (b58_digits fuel n).
Proof.
  induction fuel as [|f IH]; intros n; cbn [b58_digits]; [constructor|].
  destruct (n <=? 0); [constructor|].
  apply Forall_app. split; [apply IH|]. constructor; [|constructor].
  unfold dig_ok. lia.
Qed.

Lemma pow2_succ (f : nat) : 2 ^ Z.of_nat (S f) = 2 * 2 ^ Z.of_nat f.
Proof. rewrite Nat2Z.inj_succ, Z.pow_succ_r by lia. reflexivity. Qed.

Lemma pow2_pos (f : nat) : 0 < 2 ^ Z.of_nat f.
Proof. apply Z.pow_pos_nonneg; lia. Qed.

Lemma digits_val fuel : forall n, 0 <= n < 2 ^ Z.of_nat fuel -> dval 0 (b58_digits fuel n) = n.
Proof.
  induction fuel as [|f IH]; intros n Hn.
  - change (2 ^ Z.of_nat 0) with 1 in Hn. cbn. lia.
  - cbn [b58_digits]. destruct (n <=? 0) eqn:E.
    + cbn. lia.
    + rewrite dval_app. rewrite pow2_succ in Hn. pose proof (pow2_pos f).
      rewrite IH by lia. lia.
Qed.

Lemma digits_zero fuel n : n <= 0 -> b58_digits fuel n = [].
Proof.
  intros H. destruct fuel; cbn [b58_digits]; [reflexivity|].
  destruct (n <=? 0) eqn:E; [reflexivity|lia].
Qed.

Lemma digits_hd fuel : forall n, 0 < n < 2 ^ Z.of_nat fuel ->
  exists d r, b58_digits fuel n = d :: r /\ 0 < d < 58.
Proof.
  induction fuel as [|f IH]; intros n Hn.
  - change (2 ^ Z.of_nat 0) with 1 in Hn. lia.
  - cbn [b58_digits]. destruct (n <=? 0) eqn:E; [lia|].
    rewrite pow2_succ in Hn. pose proof (pow2_pos f).
    destruct (Z_lt_le_dec 0 (n / 58)) as [Hq|Hq].
    + destruct (IH (n / 58)) as (d & r & Ed & Hd); [lia|].
      rewrite Ed. exists d, (r ++ [n mod 58]). split; [reflexivity|exact Hd].
    + rewrite digits_zero by lia. exists (n mod 58), []. split; [reflexivity|lia].
Qed.

Definition no_lead (c : Z) (t : bytes) : Prop :=
  match t with [] => True | x :: _ => x <> c end.

Lemma digits_unique l : Forall dig_ok l -> no_lead 0 l ->
  forall fuel, dval 0 l < 2 ^ Z.of_nat fuel -> b58_digits fuel (dval 0 l) = l.
Proof.
  induction l as [|d l' IH] using rev_ind; intros Hok NL fuel Hf.
  - cbn [dval]. apply digits_zero. lia.
  - apply Forall_app in Hok as [Hok' Hd]. inversion Hd as [|? ? Hd' _]; subst.
    unfold dig_ok in Hd'.
    rewrite dval_app in *. set (v := dval 0 l') in *.
    assert (Hv : 0 <= v) by (apply dval_nonneg; [lia|assumption]).
    assert (NL' : no_lead 0 l').
    { destruct l'; [exact I|exact NL]. }
    assert (Hpos : 0 < v * 58 + d).
    { destruct l' as [|x r'].
      - cbn in NL. unfold v. cbn. lia.
      - cbn in NL. assert (0 < v); [|lia]. unfold v. cbn [dval].
        inversion Hok'; subst. unfold dig_ok in *. apply dval_pos; [lia|assumption]. }
    destruct fuel as [|f].
    + change (2 ^ Z.of_nat 0) with 1 in Hf. lia.
    + cbn [b58_digits]. destruct (v * 58 + d <=? 0) eqn:E; [lia|].
      rewrite pow2_succ in Hf. pose proof (pow2_pos f).
      assert (E1 : (v * 58 + d) / 58 = v) by lia.
      assert (E2 : (v * 58 + d) mod 58 = d) by lia.
      rewrite E1, E2. f_equal. apply IH; [assumption|assumption|lia].
Qed.

Lemma fuel_ok n : 0 <= n -> n < 2 ^ Z.of_nat (S (Z.to_nat (Z.log2 n))).
Proof.
  intros H. pose proof (Z.log2_nonneg n) as Hl.
  rewrite Nat2Z.inj_succ, Z2Nat.id by lia.
  destruct (Z_lt_le_dec 0 n) as [Hp|Hz].
  - apply Z.log2_spec. exact Hp.
  - assert (n = 0) as -> by lia. cbn. lia.
Qed.

(* ---------- lstrip ---------- *)

Lemma lstrip_spec c l : forall k t, lstrip c l = (k, t) -> l = repeat c k ++ t /\ no_lead c t.
Proof.
  induction l as [|x r IH]; intros k t; cbn [lstrip].
  - intros H; inversion H; subst. split; [reflexivity|exact I].
  - destruct (x =? c) eqn:E.
    + destruct (lstrip c r) as [k' t'] eqn:E'. intros H; inversion H; subst.
      destruct (IH k' t eq_refl) as [Hr Hn]. split; [|exact Hn].
      cbn [repeat app]. f_equal; [lia|exact Hr].
    + intros H; inversion H; subst. split; [reflexivity|]. cbn. lia.
Qed.

Lemma lstrip_repeat c k t : no_lead c t -> lstrip c (repeat c k ++ t) = (k, t).
Proof.
  intros NL. induction k as [|k IH]; cbn [repeat app].
  - destruct t as [|x r]; cbn [lstrip]; [reflexivity|].
    cbn in NL. destruct (x =? c) eqn:E; [lia|reflexivity].
  - cbn [lstrip]. rewrite Z.eqb_refl, IH. reflexivity.
Qed.

(* ---------- bytes ---------- *)

Lemma be_val_cons x r : be_val (x :: r) = x * 256 ^ Z.of_nat (length r) + be_val r.
Proof.
  unfold be_val. cbn [rev]. rewrite le_val_app, rev_length. cbn [le_val]. ring.
Qed.

Lemma be_val_bound l : wf_bytes l -> 0 <= be_val l < 256 ^ Z.of_nat (length l).
Proof.
  intros H. unfold be_val. rewrite <- (rev_length l). apply le_val_bound. now apply wf_bytes_rev.
Qed.

Lemma nbytes_unique n k : 0 < n -> 256 ^ (Z.of_nat k - 1) <= n < 256 ^ Z.of_nat k -> nbytes n = k.
Proof.
  intros Hn [L U]. destruct (nbytes_spec n Hn) as [L' U'].
  pose proof (nbytes_pos n Hn) as Hp.
  assert (A : Z.of_nat (nbytes n) - 1 < Z.of_nat k).
  { apply (Z.pow_lt_mono_r_iff 256); lia. }
  assert (B : Z.of_nat k - 1 < Z.of_nat (nbytes n)).
  { destruct k as [|k]; [lia|]. apply (Z.pow_lt_mono_r_iff 256); lia. }
  lia.
Qed.

Lemma be_bytes_nbytes rest : wf_bytes rest -> no_lead 0 rest ->
  be_bytes (nbytes (be_val rest)) (be_val rest) = rest.
Proof.
  intros W NL. destruct rest as [|x r].
  - reflexivity.
  - cbn in NL. inversion W as [|? ? Hx Wr]; subst.
    assert (E : nbytes (be_val (x :: r)) = length (x :: r)).
    { rewrite be_val_cons. pose proof (be_val_bound r Wr) as B.
      assert (0 < 256 ^ Z.of_nat (length r)) by (apply Z.pow_pos_nonneg; lia).
      apply nbytes_unique.
      - nia.
      - cbn [length]. rewrite Nat2Z.inj_succ. replace (Z.succ (Z.of_nat (length r)) - 1) with (Z.of_nat (length r)) by lia.
        rewrite Z.pow_succ_r by lia. nia. }
    rewrite E. apply be_bytes_be_val. exact W.
Qed.

Lemma be_bytes_nbytes_no_lead n : 0 <= n -> no_lead 0 (be_bytes (nbytes n) n).
Proof.
  intros H. destruct (Z_lt_le_dec 0 n) as [Hp|Hz].
  - destruct (top_digit n Hp) as [E B]. unfold be_bytes.
    pose proof (nbytes_pos n Hp) as Hnb.
    pose proof (le_bytes_length (nbytes n) n) as Hl.
    destruct (le_bytes (nbytes n) n) as [|y t] eqn:El using rev_ind; [cbn in Hl; lia|].
    rewrite rev_app_distr. cbn [rev app no_lead]. rewrite last_last in E. lia.
  - rewrite nbytes_nonpos by lia. exact I.
Qed.

Lemma wf_repeat0 k : wf_bytes (repeat 0 k).
Proof. induction k; cbn [repeat]; constructor; [lia|assumption]. Qed.

(* ---------- round trips ---------- *)

Theorem b58_roundtrip b : wf_bytes b -> b58decode (b58encode b) = Some b.
Proof.
  intros W. unfold b58encode. destruct (lstrip 0 b) as [k rest] eqn:E.
  apply lstrip_spec in E as [Eb NL].
  assert (Wr : wf_bytes rest).
  { rewrite Eb in W. apply wf_bytes_app in W. tauto. }
  pose proof (be_val_bound rest Wr) as [Hacc _].
  set (acc := be_val rest) in *.
  pose proof (fuel_ok acc Hacc) as Hf.
  set (fuel := S (Z.to_nat (Z.log2 acc))) in *.
  fold chr. change (fun d => chr d) with chr.
  unfold b58decode. rewrite lstrip_repeat.
  - rewrite decode_int_map by apply digits_ok. rewrite digits_val by lia.
    unfold acc. rewrite be_bytes_nbytes by assumption. rewrite Eb. reflexivity.
  - destruct (Z_lt_le_dec 0 acc) as [Hp|Hz].
    + destruct (digits_hd fuel acc) as (d & r & Ed & Hd); [lia|].
      rewrite Ed. cbn [map no_lead]. intros C. apply chr_49 in C; [lia|unfold dig_ok; lia].
    + rewrite digits_zero by lia. exact I.
Qed.

Corollary b58encode_inj a b : wf_bytes a -> wf_bytes b -> b58encode a = b58encode b -> a = b.
Proof.
  intros Wa Wb E. pose proof (b58_roundtrip a Wa) as Ra. rewrite E, (b58_roundtrip b Wb) in Ra.
  congruence.
Qed.

Theorem b58_decode_encode s b : b58decode s = Some b -> b58encode b = s.
Proof.
  unfold b58decode. destruct (lstrip 49 s) as [k rest] eqn:E.
  apply lstrip_spec in E as [Es NL].
  destruct (b58decode_int 0 rest) as [acc|] eqn:D; [|discriminate].
  intros H; inversion H; subst b; clear H.
  apply decode_int_inv in D as (ds & Hok & Hr & Hv).
  assert (NLd : no_lead 0 ds).
  { destruct ds as [|d r]; [exact I|]. rewrite Hr in NL. cbn [map no_lead] in *.
    intros ->. apply NL. reflexivity. }
  assert (Hacc : 0 <= acc) by (rewrite Hv; apply dval_nonneg; [lia|assumption]).
  unfold b58encode. rewrite lstrip_repeat by (apply be_bytes_nbytes_no_lead; exact Hacc).
  assert (Ev : be_val (be_bytes (nbytes acc) acc) = acc).
  { destruct (Z_lt_le_dec 0 acc) as [Hp|Hz].
    - apply be_val_be_bytes_small. pose proof (nbytes_spec acc Hp). lia.
    - assert (acc = 0) as -> by lia. reflexivity. }
  rewrite Ev. fold chr. change (fun d => chr d) with chr.
  pose proof (fuel_ok acc Hacc) as Hf.
  rewrite Hv in *. rewrite digits_unique by assumption.
  rewrite Es, Hr. reflexivity.
Qed.

Lemma in_49 : In 49 b58_charset.
Proof. left. reflexivity. Qed.

Lemma b58decode_some_iff s : (exists b, b58decode s = Some b) <-> Forall (fun c => In c b58_charset) s.
Proof.
  unfold b58decode. destruct (lstrip 49 s) as [k rest] eqn:E.
  apply lstrip_spec in E as [Es _].
  pose proof (decode_int_some_iff rest 0) as D.
  assert (R : Forall (fun c => In c b58_charset) (repeat 49 k)).
  { apply Forall_forall. intros x Hx. apply repeat_spec in Hx. subst. apply in_49. }
  split.
  - intros [b Hb]. destruct (b58decode_int 0 rest) as [acc|] eqn:Da; [|discriminate].
    rewrite Es. apply Forall_app. split; [exact R|]. apply D. eexists; reflexivity.
  - intros H. rewrite Es in H. apply Forall_app in H as [_ H]. apply D in H as [v Hv].
    rewrite Hv. eexists; reflexivity.
Qed.

Lemma b58decode_wf s b : b58decode s = Some b -> wf_bytes b.
Proof.
  unfold b58decode. destruct (lstrip 49 s) as [k rest].
  destruct (b58decode_int 0 rest) as [acc|]; [|discriminate].
  intros H; inversion H; subst. apply wf_bytes_app. split; [apply wf_repeat0|apply be_bytes_wf].
Qed.

(* ---------- length ---------- *)

Lemma digits_len_upper fuel : forall n (m : nat), n < 58 ^ Z.of_nat m ->
  (length (b58_digits fuel n) <= m)%nat.
Proof.
  induction fuel as [|f IH]; intros n m H; cbn [b58_digits]; [cbn; lia|].
  destruct (n <=? 0) eqn:E; [cbn; lia|].
  rewrite app_length. cbn [length].
  destruct m as [|m]; [change (58 ^ Z.of_nat 0) with 1 in H; lia|].
  rewrite Nat2Z.inj_succ, Z.pow_succ_r in H by lia.
  assert (length (b58_digits f (n / 58)) <= m)%nat; [|lia].
  apply IH. lia.
Qed.

Lemma digits_len_lower fuel : forall n (m : nat), n < 2 ^ Z.of_nat fuel -> 58 ^ Z.of_nat m <= n ->
  (S m <= length (b58_digits fuel n))%nat.
Proof.
  induction fuel as [|f IH]; intros n m Hf H.
  - change (2 ^ Z.of_nat 0) with 1 in Hf.
    assert (0 < 58 ^ Z.of_nat m) by (apply Z.pow_pos_nonneg; lia). lia.
  - assert (0 < 58 ^ Z.of_nat m) by (apply Z.pow_pos_nonneg; lia).
    cbn [b58_digits]. destruct (n <=? 0) eqn:E; [lia|].
    rewrite app_length. cbn [length].
    destruct m as [|m]; [lia|].
    rewrite Nat2Z.inj_succ, Z.pow_succ_r in H by lia.
    rewrite pow2_succ in Hf. pose proof (pow2_pos f).
    assert (S m <= length (b58_digits f (n / 58)))%nat; [|lia].
    apply IH; lia.
Qed.

Lemma b58encode_length b : length (b58encode b) =
  (fst (lstrip 0 b) + length (b58_digits (S (Z.to_nat (Z.log2 (be_val (snd (lstrip 0 b))))))
                                           (be_val (snd (lstrip 0 b)))))%nat.
Proof.
  unfold b58encode. destruct (lstrip 0 b) as [k rest]. cbn [fst snd].
  rewrite app_length, repeat_length, map_length. reflexivity.
Qed.

Lemma upper_table :
  forallb (fun k => 256 ^ Z.of_nat (25 - k) <=? 58 ^ Z.of_nat (35 - k)) (seq 0 26) = true.
Proof. vm_compute. reflexivity. Qed.

Lemma lower_table :
  forallb (fun k => 58 ^ Z.of_nat (25 - k) <=? 256 ^ Z.of_nat (24 - k)) (seq 0 21) = true.
Proof. vm_compute. reflexivity. Qed.

Lemma b58encode_length_25 b : wf_bytes b -> length b = 25%nat -> (length (b58encode b) <= 35)%nat.
Proof.
  intros W L. rewrite b58encode_length. destruct (lstrip 0 b) as [k rest] eqn:E. cbn [fst snd].
  apply lstrip_spec in E as [Eb NL].
  assert (Wr : wf_bytes rest).
  { rewrite Eb in W. apply wf_bytes_app in W. tauto. }
  rewrite Eb, app_length, repeat_length in L.
  pose proof (be_val_bound rest Wr) as [B1 B2].
  replace (length rest) with (25 - k)%nat in B2 by lia.
  pose proof upper_table as T. rewrite forallb_forall in T.
  assert (Hin : In k (seq 0 26)) by (apply in_seq; lia).
  specialize (T k Hin). cbv beta in T. apply Z.leb_le in T.
  assert (length (b58_digits (S (Z.to_nat (Z.log2 (be_val rest)))) (be_val rest)) <= 35 - k)%nat; [|lia].
  apply digits_len_upper. lia.
Qed.

Lemma b58encode_length_25_lower b : wf_bytes b -> length b = 25%nat ->
  (fst (lstrip 0 b) <= 20)%nat -> (26 <= length (b58encode b))%nat.
Proof.
  intros W L. rewrite b58encode_length. destruct (lstrip 0 b) as [k rest] eqn:E. cbn [fst snd].
  intros Hk.
  apply lstrip_spec in E as [Eb NL].
  assert (Wr : wf_bytes rest).
  { rewrite Eb in W. apply wf_bytes_app in W. tauto. }
  rewrite Eb, app_length, repeat_length in L.
  pose proof (be_val_bound rest Wr) as [B1 _].
  pose proof (fuel_ok _ B1) as Hf.
  assert (B3 : 256 ^ Z.of_nat (24 - k) <= be_val rest).
  { destruct rest as [|x r]; [cbn in L; lia|].
    cbn in NL. inversion Wr as [|? ? Hx Wr']; subst.
    rewrite be_val_cons. pose proof (be_val_bound r Wr') as B.
    cbn [length] in L. replace (length r) with (24 - k)%nat in * by lia.
    assert (0 < 256 ^ Z.of_nat (24 - k)) by (apply Z.pow_pos_nonneg; lia). nia. }
  pose proof lower_table as T. rewrite forallb_forall in T.
  assert (Hin : In k (seq 0 21)) by (apply in_seq; lia).
  specialize (T k Hin). cbv beta in T. apply Z.leb_le in T.
  assert (S (25 - k) <= length (b58_digits (S (Z.to_nat (Z.log2 (be_val rest)))) (be_val rest)))%nat; [|lia].
  apply digits_len_lower; [exact Hf|lia].
Qed.
