From Coq Require Import ZArith List Bool Lia.
From BU Require Import Lib.Bytes Lib.BytesFacts Gen.Tables Model.Seq Spec.BIP68.
Import ListNotations.
Open Scope Z_scope.

Fixpoint zlist (a : Z) (k : nat) : list Z :=
  match k with O => [] | S k' => a :: zlist (a + 1) k' end.

Lemma forallb_zlist (f : Z -> bool) k : forall a, forallb f (zlist a k) = true ->
  forall x, a <= x < a + Z.of_nat k -> f x = true.
Proof.
  induction k as [|k IH]; intros a H x Hx; [lia|]. cbn [zlist forallb] in H.
  apply andb_true_iff in H. destruct H as [H1 H2].
  destruct (Z.eq_dec a x) as [->|Hne]; [exact H1|]. apply (IH (a + 1) H2). lia.
Qed.

Definition bytes_eq_dec : forall a b : bytes, {a = b} + {a <> b} := list_eq_dec Z.eq_dec.

(* everything C18 says about one relative timelock helper, as a boolean *)
Definition rel_ok (v : Z) (blk : bool) : bool :=
  match mk_sequence type_relative_timelock v blk with
  | None => false
  | Some s =>
      let expect := v + (if blk then 0 else seq_type_flag) in
      match for_input_sequence s, for_script s with
      | SeqBytes b, Some k =>
          (if bytes_eq_dec b (le_bytes 4 expect) then true else false)
          && (k =? expect)
          && (k =? le_val b)
          && Z.eqb (Z.land expect seq_disable_flag) 0
          && match bip68_units (le_val b) with
             | Some (u, w) => Bool.eqb u (negb blk) && (w =? v)
             | None => false
             end
          && bip112_ok k 2 (le_val b)
      | _, _ => false
      end
  end.

Lemma rel_ok_all : forallb (fun v => rel_ok v true && rel_ok v false) (zlist 1 (Z.to_nat 65535)) = true.
Proof. vm_cast_no_check (eq_refl true). Qed.

Lemma rel_ok_every v blk : 1 <= v <= 65535 -> rel_ok v blk = true.
Proof.
  intros H. pose proof (forallb_zlist _ _ _ rel_ok_all v) as A. cbv beta in A.
  assert (Hr : 1 <= v < 1 + Z.of_nat (Z.to_nat 65535)) by lia.
  specialize (A Hr). apply andb_true_iff in A. destruct blk; tauto.
Qed.

Lemma rel_rejects v blk : v < 1 \/ 65535 < v -> mk_sequence type_relative_timelock v blk = None.
Proof.
  intros H. unfold mk_sequence. rewrite Z.eqb_refl. cbn [andb].
  destruct (v <? 1) eqn:E1; [reflexivity|]. destruct (65535 <? v) eqn:E2; [reflexivity|lia].
Qed.

(* other sequence kinds are not range-checked by the constructor (only the relative one is) *)
Lemma constants_nonfinal :
  length absolute_timelock_sequence = 4%nat /\ length replace_by_fee_sequence = 4%nat /\
  enforces_locktime (le_val absolute_timelock_sequence) = true /\
  enforces_locktime (le_val replace_by_fee_sequence) = true /\
  signals_rbf (le_val replace_by_fee_sequence) = true /\
  signals_rbf (le_val absolute_timelock_sequence) = false /\
  (forall v b s, mk_sequence type_absolute_timelock v b = Some s ->
     for_input_sequence s = SeqBytes absolute_timelock_sequence) /\
  (forall v b s, mk_sequence type_replace_by_fee v b = Some s ->
     for_input_sequence s = SeqBytes replace_by_fee_sequence).
Proof.
  split; [vm_compute; reflexivity|]. split; [vm_compute; reflexivity|].
  split; [vm_compute; reflexivity|]. split; [vm_compute; reflexivity|].
  split; [vm_compute; reflexivity|]. split; [vm_compute; reflexivity|]. split.
  - intros v b s. unfold mk_sequence. cbn [andb]. change (type_absolute_timelock =? type_relative_timelock) with false.
    cbn [andb]. intros [= <-]. reflexivity.
  - intros v b s. unfold mk_sequence. change (type_replace_by_fee =? type_relative_timelock) with false.
    cbn [andb]. intros [= <-]. reflexivity.
Qed.

Lemma locktime_ok v : 0 <= v < 2 ^ 32 -> locktime_for_transaction v = Some (le_bytes 4 v) /\ le_val (le_bytes 4 v) = v.
Proof.
  change (2 ^ 32) with 4294967296. intros H. unfold locktime_for_transaction, to_bytes4.
  replace ((0 <=? v) && (v <? 4294967296)) with true by lia. split; [reflexivity|].
  apply le_val_le_bytes_small. change (256 ^ Z.of_nat 4) with 4294967296. lia.
Qed.

Lemma locktime_rejects v : v < 0 \/ 2 ^ 32 <= v -> locktime_for_transaction v = None.
Proof.
  change (2 ^ 32) with 4294967296. intros H. unfold locktime_for_transaction, to_bytes4.
  replace ((0 <=? v) && (v <? 4294967296)) with false by lia. reflexivity.
Qed.
