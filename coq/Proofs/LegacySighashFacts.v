From Coq Require Import ZArith String List Bool Lia.
From BU Require Import Lib.Bytes Lib.BytesFacts Gen.Tables Model.Varint Model.Script Model.Tx Model.Sighash
  Spec.CompactSize Spec.Consensus Spec.SighashSpec Proofs.VarintFacts Proofs.ScriptFacts Proofs.TxFacts.
Import ListNotations.
Open Scope list_scope.
Open Scope Z_scope.
Local Opaque le_bytes le_val spec_compact.

(* ---- the domain of the signature-hash theorems ---- *)
Definition wf_in_sig (i : txin) : Prop :=
  wf_bytes (ti_txid i) /\ length (ti_txid i) = 32%nat /\ 0 <= ti_vout i < 4294967296 /\
  wf_field4 (ti_seq i) /\ is_null_txid (ti_txid i) = false.

Definition wf_tx_sig (t : tx) : Prop :=
  wf_field4 (tx_version t) /\ wf_field4 (tx_locktime t) /\
  Forall wf_in_sig (tx_inputs t) /\ Forall wf_out (tx_outputs t) /\
  Z.of_nat (length (tx_inputs t)) < two64 /\ Z.of_nat (length (tx_outputs t)) < two64.

(* the specification's view: input scripts play no role in any signature hash *)
Definition abs_in_sig (i : txin) : s_in :=
  {| s_txid := ti_txid i; s_vout := ti_vout i; s_script := []; s_seq := le_val (ti_seq i) |}.

Definition abs_tx_sig (t : tx) : option s_tx :=
  option_map (fun outs => {| s_version := le_val (tx_version t); s_ins := map abs_in_sig (tx_inputs t);
                             s_outs := outs; s_locktime := le_val (tx_locktime t); s_witness := None |})
             (map_opt abs_out (tx_outputs t)).

(* generated constants used by the code = the documents' values (re-proved when Tables change) *)
Lemma consts_ok :
  sighash_none = SIGHASH_NONE /\ sighash_single = SIGHASH_SINGLE /\ sighash_anyonecanpay = SIGHASH_ANYONECANPAY /\
  empty_tx_sequence = [0; 0; 0; 0] /\ negative_satoshi = -1.
Proof. repeat split; reflexivity. Qed.

Local Transparent le_bytes.
Lemma le_bytes_4_0 : le_bytes 4 0 = [0; 0; 0; 0].
Proof. reflexivity. Qed.
Local Opaque le_bytes.

(* ---- list plumbing ---- *)
Lemma mapi_from_length {A B} k (f : nat -> A -> B) l : length (mapi_from k f l) = length l.
Proof. revert k; induction l as [|x r IH]; intros k; cbn [mapi_from length]; [reflexivity|now rewrite IH]. Qed.

Lemma imap_from_length {A B} k (f : nat -> A -> B) l : length (imap_from k f l) = length l.
Proof. revert k; induction l as [|x r IH]; intros k; cbn [imap_from length]; [reflexivity|now rewrite IH]. Qed.

Lemma nth_error_mapi_from {A B} (f : nat -> A -> B) l : forall k i,
  nth_error (mapi_from k f l) i = option_map (f (k + i)%nat) (nth_error l i).
Proof.
  induction l as [|x r IH]; intros k i; cbn [mapi_from].
  - destruct i; reflexivity.
  - destruct i as [|i]; cbn [nth_error option_map]; [now rewrite Nat.add_0_r|].
    rewrite IH. now rewrite Nat.add_succ_comm.
Qed.

(* the three list passes of the code collapse into one indexed map *)
Definition xform (i : nat) (script : list tok) (zero : bool) (k : nat) (x : txin) : txin :=
  {| ti_txid := ti_txid x; ti_vout := ti_vout x;
     ti_script := if Nat.eqb k i then script else [];
     ti_seq := if Nat.eqb k i then ti_seq x else if zero then empty_tx_sequence else ti_seq x |}.

(* every pass is described by nth_error and compared pointwise *)
Lemma replace_nth_length {A} (l : list A) i f : length (replace_nth l i f) = length l.
Proof. revert i; induction l as [|x r IH]; intros [|i]; cbn [replace_nth length]; try reflexivity; now rewrite IH. Qed.

Lemma nth_error_replace_nth {A} (l : list A) i f j :
  nth_error (replace_nth l i f) j = if Nat.eqb j i then option_map f (nth_error l j) else nth_error l j.
Proof.
  revert i j; induction l as [|x r IH]; intros i j.
  - destruct i, j; cbn; try reflexivity. destruct (Nat.eqb j i); reflexivity.
  - destruct i as [|i], j as [|j]; cbn [replace_nth nth_error Nat.eqb option_map]; try reflexivity. apply IH.
Qed.

Lemma list_eq_nth {A} (l1 l2 : list A) :
  length l1 = length l2 -> (forall j, nth_error l1 j = nth_error l2 j) -> l1 = l2.
Proof.
  revert l2; induction l1 as [|x r IH]; intros [|y r2] Hl H; cbn in Hl; try lia; [reflexivity|].
  specialize (H 0%nat) as H0. cbn in H0. injection H0 as <-. f_equal. apply IH; [lia|].
  intros j. apply (H (S j)).
Qed.

Lemma ins1_eq script i ins :
  replace_nth (map (set_script []) ins) i (set_script script) = mapi (xform i script false) ins.
Proof.
  apply list_eq_nth.
  - rewrite replace_nth_length, map_length. unfold mapi. now rewrite mapi_from_length.
  - intros j. rewrite nth_error_replace_nth, nth_error_map. unfold mapi. rewrite nth_error_mapi_from. cbn [Nat.add].
    destruct (nth_error ins j) as [x|]; cbn [option_map]; [|destruct (Nat.eqb j i); reflexivity].
    unfold xform, set_script. cbn [ti_txid ti_vout ti_script ti_seq].
    destruct (Nat.eqb j i); reflexivity.
Qed.

Lemma ins2_eq script i ins :
  zero_other_seqs i (replace_nth (map (set_script []) ins) i (set_script script)) = mapi (xform i script true) ins.
Proof.
  rewrite ins1_eq. unfold zero_other_seqs. apply list_eq_nth.
  - unfold mapi. now rewrite !mapi_from_length.
  - intros j. unfold mapi. rewrite !nth_error_mapi_from. cbn [Nat.add].
    destruct (nth_error ins j) as [x|]; cbn [option_map]; [|reflexivity].
    unfold xform, set_seq. cbn [ti_txid ti_vout ti_script ti_seq].
    destruct (Nat.eqb j i); reflexivity.
Qed.

(* ---- one transformed input serialises to the specification's input ---- *)
Lemma xform_bytes i script scb zero base k x :
  wf_in_sig x -> to_bytes script = Some scb -> Z.of_nat (length scb) < two64 ->
  zero = ((base =? SIGHASH_SINGLE) || (base =? SIGHASH_NONE)) ->
  txin_to_bytes (xform i script zero k x) = Some (legacy_input i scb base k (abs_in_sig x)).
Proof.
  intros (Htw & Htl & Hv & Hq & Hnull) Hsc Hl ->.
  unfold txin_to_bytes, txin_script_bytes, xform, pack_u32. cbn [ti_txid ti_vout ti_script ti_seq]. rewrite Hnull.
  replace ((0 <=? ti_vout x) && (ti_vout x <? 4294967296)) with true by lia. cbn [obind].
  unfold legacy_input, outpoint, ser_bytes, abs_in_sig. cbn [s_txid s_vout s_seq].
  destruct (Nat.eqb k i).
  - rewrite Hsc. cbn [obind]. rewrite encode_len by lia. cbn [obind].
    rewrite (field4_le _ Hq). now rewrite <- ?app_assoc.
  - cbn [to_bytes obind length]. rewrite encode_len by (unfold two64; cbn; lia). cbn [obind].
    destruct ((base =? SIGHASH_SINGLE) || (base =? SIGHASH_NONE)).
    + destruct consts_ok as (_ & _ & _ & -> & _). rewrite le_bytes_4_0. now rewrite <- ?app_assoc.
    + rewrite (field4_le _ Hq). now rewrite <- ?app_assoc.
Qed.

Lemma concat_opt_mapi f g (a : txin -> s_in) l :
  (forall k x, In x l -> txin_to_bytes (f k x) = Some (g k (a x))) ->
  forall k0, concat_opt txin_to_bytes (mapi_from k0 f l) = Some (concat (imap_from k0 g (map a l))).
Proof.
  induction l as [|x r IH]; intros H k0; cbn [mapi_from map imap_from concat_opt concat]; [reflexivity|].
  rewrite (H k0 x (or_introl eq_refl)). cbn [obind].
  rewrite IH by (intros k y Hy; apply H; now right). reflexivity.
Qed.

(* ---- outputs ---- *)
Lemma blank_out_bytes :
  txout_to_bytes {| to_amount := negative_satoshi; to_script := [] |} = Some blank_output.
Proof.
  destruct consts_ok as (_ & _ & _ & _ & ->). unfold txout_to_bytes, pack_i64. cbn [to_amount to_script to_bytes obind length].
  cbn [Z.leb Z.ltb Z.compare andb]. cbn [obind]. rewrite encode_len by (unfold two64; cbn; lia). cbn [obind].
  unfold blank_output, ser_bytes. cbn [length]. reflexivity.
Qed.

Lemma blanks_bytes n : concat_opt txout_to_bytes (repeat {| to_amount := negative_satoshi; to_script := [] |} n)
                       = Some (concat (repeat blank_output n)).
Proof.
  induction n as [|n IH]; cbn [repeat concat_opt concat]; [reflexivity|].
  rewrite blank_out_bytes. cbn [obind]. now rewrite IH.
Qed.

Lemma concat_opt_app {A} (f : A -> option bytes) l1 l2 b1 b2 :
  concat_opt f l1 = Some b1 -> concat_opt f l2 = Some b2 -> concat_opt f (l1 ++ l2) = Some (b1 ++ b2).
Proof.
  revert b1; induction l1 as [|x r IH]; intros b1 H1 H2; cbn [app concat_opt] in *.
  - injection H1 as <-. exact H2.
  - destruct (f x) as [a|]; [|discriminate]. cbn [obind] in *.
    destruct (concat_opt f r) as [c|] eqn:E; [|discriminate]. cbn [obind] in *. injection H1 as <-.
    rewrite (IH c eq_refl H2). cbn [obind]. now rewrite app_assoc.
Qed.

Lemma map_opt_nth {A B} (f : A -> option B) l ys i x :
  map_opt f l = Some ys -> nth_error l i = Some x -> exists y, nth_error ys i = Some y /\ f x = Some y.
Proof.
  revert ys i; induction l as [|a r IH]; intros ys i H Hn; [destruct i; discriminate|].
  cbn [map_opt] in H. destruct (f a) as [b|] eqn:Ea; [|discriminate].
  destruct (map_opt f r) as [bs|] eqn:Er; [|discriminate]. injection H as <-.
  destruct i as [|i]; cbn [nth_error] in *.
  - injection Hn as <-. eauto.
  - eapply IH; eauto.
Qed.

Lemma map_opt_length {A B} (f : A -> option B) l ys : map_opt f l = Some ys -> length ys = length l.
Proof.
  revert ys; induction l as [|a r IH]; intros ys H; cbn [map_opt] in H; [injection H as <-; reflexivity|].
  destruct (f a); [|discriminate]. destruct (map_opt f r) as [bs|]; [|discriminate]. injection H as <-.
  cbn [length]. now rewrite (IH bs eq_refl).
Qed.

Lemma nth_error_none_len {A} (l : list A) i : (length l <= i)%nat -> nth_error l i = None.
Proof. apply nth_error_None. Qed.

(* ---- the theorem ---- *)
Theorem legacy_preimage_spec t st i script scb ht :
  wf_tx_sig t -> abs_tx_sig t = Some st ->
  to_bytes script = Some scb -> Z.of_nat (length scb) < two64 -> 0 <= ht < 2147483648 ->
  legacy_preimage t i script ht = spec_legacy_preimage st i scb ht.
Proof.
  intros (Hv & Hlt & Hins & Houts & Hni & Hno) Hst Hsc Hl Hht.
  unfold abs_tx_sig in Hst. destruct (map_opt abs_out (tx_outputs t)) as [souts|] eqn:Eo; [|discriminate].
  cbn [option_map] in Hst. injection Hst as <-.
  destruct consts_ok as (Cn & Cs & Ca & _ & _).
  unfold legacy_preimage, spec_legacy_preimage. cbv zeta.
  cbn [tx_copy tx_inputs tx_outputs tx_version tx_locktime tx_segwit tx_witnesses s_ins s_outs s_version s_locktime].
  unfold txin_copy, txout_copy. rewrite !map_id, map_length.
  rewrite Cn, Cs, Ca.
  rewrite nth_error_map.
  destruct (i <? length (tx_inputs t))%nat eqn:Ei; cbn [negb].
  2:{ apply Nat.ltb_ge in Ei. now rewrite (nth_error_none_len _ _ Ei). }
  apply Nat.ltb_lt in Ei.
  destruct (nth_error (tx_inputs t) i) as [xi|] eqn:Exi; [|apply nth_error_None in Exi; lia].
  cbn [option_map].
  assert (Hxi : wf_in_sig xi) by (eapply Forall_In; [exact Hins|eapply nth_error_In; eauto]).
  assert (Hpk : pack_i32 ht = Some (le_bytes 4 ht)).
  { unfold pack_i32. replace ((-2147483648 <=? ht) && (ht <? 2147483648)) with true by lia.
    rewrite Z.mod_small by lia. reflexivity. }
  (* the all-outputs serialisation *)
  assert (Hall : concat_opt txout_to_bytes (tx_outputs t) = Some (concat (map ser_out souts)) /\ length souts = length (tx_outputs t)).
  { destruct (concat_opt_spec txout_to_bytes abs_out ser_out (tx_outputs t)) as (ys & Hys & Hc & Hly).
    { intros x Hx. apply txout_to_bytes_spec. eapply Forall_In; eauto. }
    rewrite Eo in Hys. injection Hys as <-. split; [exact Hc|exact Hly]. }
  destruct Hall as [Hall Hlo].
  set (base := Z.land ht 31) in *.
  (* inputs after the passes, and their bytes *)
  assert (Hin : forall zero, zero = ((base =? SIGHASH_SINGLE) || (base =? SIGHASH_NONE)) ->
            concat_opt txin_to_bytes (mapi (xform i script zero) (tx_inputs t))
            = Some (concat (imap (legacy_input i scb base) (map abs_in_sig (tx_inputs t))))).
  { intros zero Hz. unfold mapi, imap. apply concat_opt_mapi. intros k x Hx.
    apply xform_bytes; try assumption. eapply Forall_In; eauto. }
  assert (Hone : forall zero, zero = ((base =? SIGHASH_SINGLE) || (base =? SIGHASH_NONE)) ->
            nth_error (mapi (xform i script zero) (tx_inputs t)) i = Some (xform i script zero i xi) /\
            txin_to_bytes (xform i script zero i xi) = Some (legacy_input i scb base i (abs_in_sig xi))).
  { intros zero Hz. split.
    - unfold mapi. rewrite nth_error_mapi_from, Exi. reflexivity.
    - now apply xform_bytes. }
  (* assemble: a generic closing step *)
  assert (Hfin : forall ins3 outs2 insb outsb nin nout,
            concat_opt txin_to_bytes ins3 = Some insb -> concat_opt txout_to_bytes outs2 = Some outsb ->
            Z.of_nat (length ins3) = nin -> Z.of_nat (length outs2) = nout -> 0 <= nin < two64 -> 0 <= nout < two64 ->
            (do body <- tx_to_bytes {| tx_version := tx_version t; tx_inputs := ins3; tx_outputs := outs2;
                                       tx_locktime := tx_locktime t; tx_segwit := tx_segwit t; tx_witnesses := tx_witnesses t |} false;
             do h <- pack_i32 ht; Some (body ++ h))
            = Some (le_bytes 4 (le_val (tx_version t)) ++ spec_compact nin ++ insb ++ spec_compact nout ++ outsb
                    ++ le_bytes 4 (le_val (tx_locktime t)) ++ le_bytes 4 ht)).
  { intros ins3 outs2 insb outsb nin nout Hi Ho Hn1 Hn2 Hr1 Hr2.
    unfold tx_to_bytes. cbn [tx_inputs tx_outputs tx_version tx_locktime].
    rewrite Hn1, Hn2, !encode_len by assumption. cbn [obind]. rewrite Hi, Ho. cbn [obind app].
    rewrite Hpk. cbn [obind]. rewrite (field4_le _ Hv), (field4_le _ Hlt). now rewrite <- ?app_assoc. }
  assert (Hlen_all : Z.of_nat (length (mapi (xform i script true) (tx_inputs t))) = Z.of_nat (length (tx_inputs t)) /\
                     Z.of_nat (length (mapi (xform i script false) (tx_inputs t))) = Z.of_nat (length (tx_inputs t))).
  { unfold mapi. now rewrite !mapi_from_length. }
  destruct Hlen_all as [HlenT HlenF].
  assert (Hsingle : forall x b, txin_to_bytes x = Some b -> concat_opt txin_to_bytes [x] = Some (b ++ [])).
  { intros x b Hx. cbn [concat_opt]. rewrite Hx. reflexivity. }
  assert (R1 : 0 <= 1 < two64) by (unfold two64; lia).
  assert (R0 : 0 <= 0 < two64) by (unfold two64; lia).
  assert (Rin : 0 <= Z.of_nat (length (tx_inputs t)) < two64) by lia.
  assert (Rout : 0 <= Z.of_nat (length (tx_outputs t)) < two64) by lia.
  destruct (base =? SIGHASH_NONE) eqn:En.
  - (* NONE *)
    cbn [obind]. rewrite ins2_eq.
    destruct (Hone true ltac:(rewrite ?orb_true_r; reflexivity)) as [Hn1 Hb1].
    destruct (Z.land ht SIGHASH_ANYONECANPAY =? 0) eqn:Ea; cbn [negb obind].
    + rewrite (Hfin _ [] _ [] _ 0 (Hin true ltac:(rewrite ?orb_true_r; reflexivity)) eq_refl HlenT eq_refl Rin R0).
      unfold imap. rewrite imap_from_length, map_length. cbn [length concat app]. reflexivity.
    + rewrite Hn1. cbn [option_map obind].
      rewrite (Hfin [_] [] _ [] 1 0 (Hsingle _ _ Hb1) eq_refl eq_refl eq_refl R1 R0).
      cbn [length concat app]. reflexivity.
  - destruct (base =? SIGHASH_SINGLE) eqn:Es.
    + (* SINGLE *)
      destruct (length (tx_outputs t) <=? i)%nat eqn:Eoi.
      * apply Nat.leb_le in Eoi. cbn [obind].
        rewrite (nth_error_none_len souts i) by lia. reflexivity.
      * apply Nat.leb_gt in Eoi.
        destruct (nth_error (tx_outputs t) i) as [txo|] eqn:Eto; [|apply nth_error_None in Eto; lia].
        destruct (map_opt_nth _ _ _ _ _ Eo Eto) as (so & Hso & Hab). rewrite Hso.
        cbn [obind]. rewrite ins2_eq.
        assert (Hwo : wf_out txo) by (eapply Forall_In; [exact Houts|eapply nth_error_In; eauto]).
        destruct (txout_to_bytes_spec txo Hwo) as (so' & Hab' & Hbo). rewrite Hab in Hab'. injection Hab' as <-.
        assert (Hob : concat_opt txout_to_bytes (repeat {| to_amount := negative_satoshi; to_script := [] |} i ++ [txo])
                      = Some (concat (repeat blank_output i ++ [ser_out so]))).
        { rewrite concat_app. apply concat_opt_app; [apply blanks_bytes|].
          cbn [concat_opt concat]. rewrite Hbo. cbn [obind]. now rewrite app_nil_r. }
        assert (Lo : Z.of_nat (length (repeat {| to_amount := negative_satoshi; to_script := [] |} i ++ [txo])) = Z.of_nat (i + 1)).
        { rewrite app_length, repeat_length. reflexivity. }
        assert (Ro : 0 <= Z.of_nat (i + 1) < two64) by lia.
        destruct (Hone true ltac:(rewrite ?orb_true_r; reflexivity)) as [Hn1 Hb1].
        destruct (Z.land ht SIGHASH_ANYONECANPAY =? 0) eqn:Ea; cbn [negb obind].
        -- rewrite (Hfin _ _ _ _ _ _ (Hin true ltac:(rewrite ?orb_true_r; reflexivity)) Hob HlenT Lo Rin Ro).
           unfold imap. rewrite imap_from_length, map_length, app_length, repeat_length. cbn [length]. reflexivity.
        -- rewrite Hn1. cbn [option_map obind].
           rewrite (Hfin [_] _ _ _ 1 _ (Hsingle _ _ Hb1) Hob eq_refl Lo R1 Ro).
           rewrite app_length, repeat_length. cbn [length concat app]. reflexivity.
    + (* ALL *)
      cbn [obind]. rewrite ins1_eq.
      destruct (Hone false ltac:(rewrite ?orb_true_r; reflexivity)) as [Hn1 Hb1].
      destruct (Z.land ht SIGHASH_ANYONECANPAY =? 0) eqn:Ea; cbn [negb obind].
      * rewrite (Hfin _ _ _ _ _ _ (Hin false ltac:(rewrite ?orb_true_r; reflexivity)) Hall HlenF eq_refl Rin Rout).
        unfold imap. rewrite imap_from_length, !map_length, Hlo. reflexivity.
      * rewrite Hn1. cbn [option_map obind].
        rewrite (Hfin [_] _ _ _ 1 _ (Hsingle _ _ Hb1) Hall eq_refl eq_refl R1 Rout).
        rewrite map_length, Hlo. cbn [length concat app]. reflexivity.
Qed.

(* SINGLE without a matching output: the library refuses *)
Theorem legacy_single_refuses t i script ht :
  Z.land ht 31 = sighash_single -> (length (tx_outputs t) <= i)%nat -> legacy_preimage t i script ht = None.
Proof.
  intros Hb Hi. unfold legacy_preimage. cbv zeta. cbn [tx_copy tx_inputs tx_outputs].
  destruct (negb _); [reflexivity|]. rewrite Hb.
  replace (sighash_single =? sighash_none) with false by reflexivity. rewrite Z.eqb_refl.
  rewrite map_length. replace (length (tx_outputs t) <=? i)%nat with true by (symmetry; apply Nat.leb_le; lia).
  reflexivity.
Qed.

(* existing scriptSigs never influence the digest *)
Definition with_scripts (f : nat -> list tok) (t : tx) : tx :=
  {| tx_version := tx_version t; tx_inputs := mapi (fun k x => set_script (f k) x) (tx_inputs t);
     tx_outputs := tx_outputs t; tx_locktime := tx_locktime t; tx_segwit := tx_segwit t; tx_witnesses := tx_witnesses t |}.

Theorem legacy_ignores_scriptsigs f t i script ht :
  legacy_preimage (with_scripts f t) i script ht = legacy_preimage t i script ht.
Proof.
  unfold legacy_preimage, with_scripts. cbv zeta.
  cbn [tx_copy tx_inputs tx_outputs tx_version tx_locktime tx_segwit tx_witnesses].
  unfold txin_copy. rewrite !map_id.
  assert (E : map (set_script []) (mapi (fun k x => set_script (f k) x) (tx_inputs t)) = map (set_script []) (tx_inputs t)).
  { unfold mapi. generalize 0%nat. induction (tx_inputs t) as [|x r IH]; intros k; cbn [mapi_from map]; [reflexivity|].
    now rewrite IH. }
  now rewrite E.
Qed.
