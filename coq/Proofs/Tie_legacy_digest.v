(* Source tie for Transaction.get_transaction_digest (the legacy signature hash): the function as translated from the
   current source -- the copy, the blanking of scripts, the per-hash-type rewriting of sequences and outputs, ANYONECANPAY,
   the serialisation and the final double hash -- equals the model, for every non-negative input index. *)
From Coq Require Import String ZArith List Bool Lia ZifyBool.
From BU Require Import Lib.Bytes Lib.BytesFacts Lib.PySem Gen.Tables Gen.Src Model.Varint Model.Script Model.Seq Model.Tx Model.Sighash
  Proofs.ScriptNumFacts Proofs.TieLib Proofs.Tie_encode_varint Proofs.Tie_prepend_compact_size Proofs.Tie_tx_parts Proofs.Tie_tx_whole
  Proofs.TieDigestLib.
Import ListNotations.
Open Scope list_scope.
Open Scope Z_scope.
(* a rewritten source that translates but sends a tactic into a long search is reported as a broken proof in bounded time *)
Set Default Timeout 900.

Lemma update_nth_replace {A} (l : list A) i f : update_nth l i f = replace_nth l i f.
Proof. reflexivity. Qed.   (* the two fixpoints have the same body *)

Lemma py_update_nth_nat {A} (l : list A) (i : nat) f :
  py_update_nth l (Z.of_nat i) f = if (i <? length l)%nat then Some (replace_nth l i f) else None.
Proof.
  unfold py_update_nth. destruct (Nat.ltb_spec i (length l)) as [H|H].
  - replace ((0 <=? Z.of_nat i) && (Z.of_nat i <? Z.of_nat (length l))) with true by lia.
    rewrite Nat2Z.id, update_nth_replace. reflexivity.
  - replace ((0 <=? Z.of_nat i) && (Z.of_nat i <? Z.of_nat (length l))) with false by lia.
    replace ((- Z.of_nat (length l) <=? Z.of_nat i) && (Z.of_nat i <? 0)) with false by lia. reflexivity.
Qed.

Lemma mapi_from_eq {A} (f g : nat -> A -> A) l : forall k, (forall j x, f j x = g j x) ->
  PySem.mapi_from k f l = Sighash.mapi_from k g l.
Proof. induction l as [|x r IH]; intros k H; cbn; [reflexivity|]. rewrite H, (IH (S k) H). reflexivity. Qed.

Lemma py_update_others_zero (l : list txin) (i : nat) :
  py_update_others l (Z.of_nat i) (set_seq empty_tx_sequence) = zero_other_seqs i l.
Proof.
  unfold py_update_others, zero_other_seqs, mapi. apply mapi_from_eq. intros j x.
  destruct (Nat.eqb_spec j i) as [->|Hne].
  - rewrite Z.eqb_refl. reflexivity.
  - destruct (Z.eqb_spec (Z.of_nat j) (Z.of_nat i)); [lia|reflexivity].
Qed.

Lemma map_id_copy_in (l : list txin) : map txin_copy l = l.
Proof. induction l as [|x r IH]; cbn; [reflexivity|]. rewrite IH. reflexivity. Qed.
Lemma map_id_copy_out (l : list txout) : map txout_copy l = l.
Proof. induction l as [|x r IH]; cbn; [reflexivity|]. rewrite IH. reflexivity. Qed.

Lemma geb_of_nat a b : (Z.of_nat a >=? Z.of_nat b) = (b <=? a)%nat.
Proof. rewrite Z.geb_leb. destruct (Nat.leb_spec b a); lia. Qed.

#[global] Hint Rewrite @py_update_nth_nat py_update_others_zero geb_of_nat Nat2Z.id : tie.

Lemma src_legacy_digest_eq : forall sha256 (i : nat) sc ht v ins outs w l sw,
  src_legacy_digest sha256 (Z.of_nat i) sc ht v ins outs w l =
  of_option (legacy_digest sha256 {| tx_version := v; tx_inputs := ins; tx_outputs := outs; tx_locktime := l; tx_segwit := sw; tx_witnesses := w |} i sc ht).
Proof.
  intros. unfold src_legacy_digest. not_fallback (@legacy_digest). unfold legacy_digest, legacy_preimage, tx_copy, obind, py_truthy_int.
  cbn [tx_version tx_inputs tx_outputs tx_locktime tx_segwit tx_witnesses]. cbv zeta.
  rewrite map_id_copy_in, map_id_copy_out, !map_length.
  rewrite py_update_nth_nat, map_length.
  destruct (i <? length ins)%nat eqn:Ei; cbn [negb]; [|reflexivity].
  destruct (Z.land ht 31 =? sighash_none) eqn:Enone;
  [| destruct (Z.land ht 31 =? sighash_single) eqn:Esingle ];
  destruct (Z.land ht sighash_anyonecanpay =? 0) eqn:Eacp; cbn [negb];
  repeat (autorewrite with tie; unfold of_option, option_map, obind; reuse_eqns; cbv beta iota zeta; cbn [app];
          first [ rewrite (src_tx_to_bytes_eq false _ _ _ _ _ sw) | pipe_step ]);
  autorewrite with tie; unfold of_option, option_map; reuse_eqns; cbv beta iota zeta;
  try reflexivity; try congruence.
Qed.
