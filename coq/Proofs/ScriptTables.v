(* Reflective facts about the generated opcode tables (re-proved by computation whenever
   Gen/Tables.v changes). *)
From Coq Require Import ZArith String List Bool Lia.
From BU Require Import Lib.Bytes Lib.BytesFacts Gen.Tables Model.Script Spec.Opcodes Spec.ScriptSpec.
Import ListNotations.
Open Scope list_scope.
Open Scope Z_scope.

Definition is_pd (b : Z) : bool := (b =? 76) || (b =? 77) || (b =? 78).

(* an OP_CODES entry: one byte, the consensus value of that name, outside the direct-push range,
   and CODE_OPS maps the byte to a name that assembles to the same byte *)
Definition entry_ok (e : string * bytes) : bool :=
  match snd e with
  | [b] =>
      byte_ok b
      && match spec_assoc (fst e) consensus_opcodes with Some b' => b =? b' | None => false end
      && match code_lookup b with
         | Some nm' => match op_lookup nm' with Some [b''] => b'' =? b | _ => false end
         | None => false
         end
      && negb ((1 <=? b) && (b <=? 75))
  | _ => false
  end.

Definition small_ok (n : Z) : bool :=
  match op_lookup (small_int_name n) with
  | Some [b] => b =? (if n =? 0 then 0 else 80 + n)
  | _ => false
  end.

Definition zrange (a : Z) (k : nat) : list Z := map (fun i => a + Z.of_nat i) (seq 0 k).

Definition tables_ok : bool :=
  forallb entry_ok op_codes
  && forallb (fun b => match code_lookup b with None => true | Some _ => false end) (zrange 1 75)
  && forallb (fun b => match code_lookup b with Some _ => true | None => false end) [0; 76; 77; 78]
  && forallb small_ok (zrange 0 17)
  && forallb (fun e => match fst e with [b] => byte_ok b | _ => false end) code_ops.

Lemma tables_ok_true : tables_ok = true.
Proof. vm_compute. reflexivity. Qed.

Lemma tables_split :
  forallb entry_ok op_codes = true
  /\ forallb (fun b => match code_lookup b with None => true | Some _ => false end) (zrange 1 75) = true
  /\ forallb (fun b => match code_lookup b with Some _ => true | None => false end) [0; 76; 77; 78] = true
  /\ forallb small_ok (zrange 0 17) = true.
Proof.
  pose proof tables_ok_true as T. unfold tables_ok in T. rewrite !andb_true_iff in T. tauto.
Qed.

Lemma assoc_str_in {A} k (l : list (string * A)) v : assoc_str k l = Some v -> In (k, v) l.
Proof.
  induction l as [|[k' v'] l IH]; cbn [assoc_str]; [discriminate|].
  destruct (String.eqb k k') eqn:E.
  - apply String.eqb_eq in E. subst. intros [= ->]. now left.
  - intros H. right. now apply IH.
Qed.

Lemma in_zrange a k x : a <= x < a + Z.of_nat k -> In x (zrange a k).
Proof.
  intros H. unfold zrange. apply in_map_iff. exists (Z.to_nat (x - a)). split; [lia|].
  apply in_seq. lia.
Qed.

Record op_facts (name : string) (b : Z) : Prop := {
  of_byte : 0 <= b < 256;
  of_consensus : spec_assoc name consensus_opcodes = Some b;
  of_code : exists nm', code_lookup b = Some nm' /\ op_lookup nm' = Some [b];
  of_nopush : ~ (1 <= b <= 75)
}.

Lemma op_lookup_facts name v : op_lookup name = Some v -> exists b, v = [b] /\ op_facts name b.
Proof.
  intros H. apply assoc_str_in in H.
  destruct tables_split as [T _].
  rewrite forallb_forall in T. specialize (T _ H). unfold entry_ok in T. cbn [fst snd] in T.
  destruct v as [|b [|? ?]]; try discriminate. exists b. split; [reflexivity|].
  rewrite !andb_true_iff in T. destruct T as [[[T1 T2] T3] T4].
  constructor.
  - unfold byte_ok in T1. lia.
  - destruct (spec_assoc name consensus_opcodes) as [b'|]; [|discriminate]. f_equal. lia.
  - destruct (code_lookup b) as [nm'|]; [|discriminate]. exists nm'. split; [reflexivity|].
    destruct (op_lookup nm') as [[|b'' [|? ?]]|]; try discriminate. do 2 f_equal. lia.
  - lia.
Qed.

Lemma code_lookup_push_range b : 1 <= b <= 75 -> code_lookup b = None.
Proof.
  intros H. destruct tables_split as (_ & T & _).
  rewrite forallb_forall in T. specialize (T b (in_zrange 1 75 b ltac:(lia))).
  destruct (code_lookup b); [discriminate|reflexivity].
Qed.

Lemma code_lookup_special b : In b [0; 76; 77; 78] -> exists nm, code_lookup b = Some nm.
Proof.
  intros H. destruct tables_split as (_ & _ & T & _).
  rewrite forallb_forall in T. specialize (T b H).
  destruct (code_lookup b) as [nm|]; [now exists nm|discriminate].
Qed.

Lemma small_int_lookup n : 0 <= n <= 16 -> op_lookup (small_int_name n) = Some [if n =? 0 then 0 else 80 + n].
Proof.
  intros H. destruct tables_split as (_ & _ & _ & T).
  rewrite forallb_forall in T. specialize (T n (in_zrange 0 17 n ltac:(lia))). unfold small_ok in T.
  destruct (op_lookup (small_int_name n)) as [[|b [|? ?]]|]; try discriminate.
  do 2 f_equal. lia.
Qed.
