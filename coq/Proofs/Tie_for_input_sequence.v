(* Source tie for Sequence.for_input_sequence: the function as translated from the current source (Gen/Src.v) equals the model. *)
From Coq Require Import String ZArith List Bool Lia ZifyBool.
From BU Require Import Lib.Bytes Lib.BytesFacts Lib.PySem Gen.Tables Gen.Src Model.Varint Model.Script Model.Seq
  Proofs.ScriptNumFacts Proofs.TieLib.
Import ListNotations.
Open Scope list_scope.
Open Scope Z_scope.

Lemma src_for_input_sequence_eq : forall ty v blk,
  src_for_input_sequence ty v blk =
  match for_input_sequence {| seq_type := ty; seq_value := v; seq_is_block := blk |} with
  | SeqBytes b => Ok b | SeqNone => RetNone | SeqErr => Raise end.
Proof.
  intros ty v blk. unfold src_for_input_sequence, for_input_sequence, to_bytes4. cbn [seq_type seq_value seq_is_block].
  destruct blk; tie_auto.
Qed.
