(* Extraction of the executable models and specifications for the correspondence check.
   Only standard-library extraction directives are used (listed in DESIGN.md section 8). *)
From Coq Require Import ZArith Extraction ExtrOcamlBasic ExtrOcamlZBigInt ExtrOcamlNatBigInt ExtrOcamlString.
From BU Require Import Gen.Tables Lib.Bytes Model.Varint Spec.CompactSize Model.Script Spec.Opcodes Spec.ScriptSpec Model.Seq Spec.BIP68 Crypto.Sha256 Model.Tx Spec.Consensus Model.Sighash Spec.SighashSpec Model.Block Model.Der Spec.BIP66 Model.Base58 Model.Ripemd160 Spec.Ripemd160Spec
  Model.Bech32 Model.EC Model.Schnorr Model.Taproot Model.Msg Spec.BIP341 Model.Keys Model.Address Model.HD Model.Heap Model.Order.
Extraction Language OCaml.
(* The only directives of our own (trusted base, DESIGN.md section 8): bitwise operations on Z are
   mapped to zarith's, as ExtrOcamlZBigInt already does for shifts. *)
Extract Constant Z.land => "Zx.logand".
Extract Constant Z.lor => "Zx.logor".
Extract Constant Z.lxor => "Zx.logxor".
Extraction "model.ml"
  encode_varint parse_compact_size vi_to_int prepend_compact_size to_satoshis_int to_satoshis_dec
  spec_compact spec_decode_any
  to_bytes from_raw to_p2sh_script_pub_key to_p2wsh_script_pub_key
  mk_sequence for_input_sequence for_script locktime_for_transaction bip112_ok bip68_units enforces_locktime signals_rbf le_bytes le_val
  sha256 sha256d tx_serialize tx_to_bytes tx_from_raw get_txid get_wtxid get_size get_vsize tx_copy
  legacy_preimage segwit_preimage taproot_digest str_bytes spec_legacy_preimage bip143_preimage taproot_sighash
  normalise grind sign_input strict_der is_valid_signature_encoding normal_s Spec.BIP66.secp_n
  b58encode b58decode ripemd160 ripemd160_spec
  bech32_polymod bech32_decode convertbits segwit_encode segwit_decode is_address_bech32 create_checksum
  point_add point_mul lift_x modpow secp_p secp_G params_field params_order schnorr_n schnorr_p
  schnorr_sign schnorr_verify full_pubkey_gen tagged_hash
  merkle_root generate_merkle_path calculate_tweak tweak_taproot_pubkey tweak_taproot_privkey to_taproot control_block sign_taproot
  verify_script_path
  priv_init priv_to_wif priv_from_wif get_public_key pub_from_bytes pub_to_bytes pub_to_x_only is_y_even pub_to_hash160 hash160 sqrt_mod_list
  is_address_valid address_from_string address_to_string script_to_hash160 script_to_sha256 spk_p2pkh spk_p2sh spk_segwit
  segwit_to_string segwit_from_string
  copy_tx locs_tx val_tx new_txin_default locs_in run
  hd_init hd_from_path hd_get_private_key is_mainnet
  message_digest add_magic_prefix verify_message sign_message recover_pubkey recover ecdsa_verify
  header_from_raw serialize_header get_block_hash get_target get_transaction_length block_from_raw
  spec_serialize spec_serialize_stripped spec_txid spec_wtxid spec_vsize
  consensus_opcodes spec_assoc spec_assemble spec_disassemble spec_scriptnum scriptnum_decode_minimal.
