(* Extraction of the executable models and specifications for the correspondence check.
   Only standard-library extraction directives are used (listed in DESIGN.md section 8). *)
From Coq Require Import Extraction ExtrOcamlBasic ExtrOcamlZBigInt ExtrOcamlNatBigInt ExtrOcamlString.
From BU Require Import Lib.Bytes Model.Varint Spec.CompactSize.
Extraction Language OCaml.
Extraction "model.ml"
  encode_varint parse_compact_size vi_to_int prepend_compact_size to_satoshis_int to_satoshis_dec
  spec_compact spec_decode_any.
