(* Mirrors bitcoinutils/schnorr.py: tagged_hash, pubkey_gen / full_pubkey_gen, schnorr_sign (130-160),
   schnorr_verify (163-185), over an arbitrary point addition and lift_x (instantiated with Model/EC.v). *)
From Coq Require Import ZArith String List Bool.
From BU Require Import Lib.Bytes Model.EC Model.Sighash.
Import ListNotations.
Open Scope list_scope.
Open Scope Z_scope.

Definition obind {A B} (o : option A) (f : A -> option B) : option B :=
  match o with Some a => f a | None => None end.
Notation "'do' x <- o ; k" := (obind o (fun x => k)) (at level 200, x pattern, o at level 100, k at level 200).

Fixpoint xor_bytes (a b : bytes) : bytes :=      (* bytes(x ^ y for (x, y) in zip(b0, b1)) *)
  match a, b with
  | x :: a', y :: b' => Z.lxor x y :: xor_bytes a' b'
  | _, _ => []
  end.

Section Schnorr.
  Variable sha256 : bytes -> bytes.
  Variables (p n : Z) (add : point -> point -> point) (lift : Z -> point) (G : point).
  Let mul (P : point) (k : Z) : point := point_mul_with add P k.

  (* schnorr.tagged_hash(tag, msg) *)
  Definition stag (tag : string) (msg : bytes) : bytes := tagged_hash sha256 msg tag.

  Definition full_pubkey_gen (seckey : bytes) : option (Z * Z) :=
    let d0 := be_val seckey in
    if negb ((1 <=? d0) && (d0 <=? n - 1)) then None else mul G d0.

  Definition schnorr_verify (msg pubkey sig : bytes) : option bool :=
    if negb (Nat.eqb (length msg) 32) || negb (Nat.eqb (length pubkey) 32) || negb (Nat.eqb (length sig) 64) then None
    else
      let P := lift (be_val pubkey) in
      let r := be_val (firstn 32 sig) in
      let s := be_val (skipn 32 sig) in
      match P with
      | None => Some false
      | Some _ =>
          if (p <=? r) || (n <=? s) then Some false
          else
            let e := be_val (stag "BIP0340/challenge" (firstn 32 sig ++ pubkey ++ msg)) mod n in
            match add (mul G s) (mul P (n - e)) with
            | None => Some false
            | Some (rx, ry) => Some (Z.even ry && (rx =? r))
            end
      end.

  Definition schnorr_sign (msg seckey aux_rand : bytes) : option bytes :=
    if negb (Nat.eqb (length msg) 32) then None else
    let d0 := be_val seckey in
    if negb ((1 <=? d0) && (d0 <=? n - 1)) then None else
    if negb (Nat.eqb (length aux_rand) 32) then None else
    do (px, py) <- mul G d0;
    let d := if Z.even py then d0 else n - d0 in
    do db <- bytes_from_int d;
    do pxb <- bytes_from_int px;
    let t := xor_bytes db (stag "BIP0340/aux" aux_rand) in
    let k0 := be_val (stag "BIP0340/nonce" (t ++ pxb ++ msg)) mod n in
    if k0 =? 0 then None else
    do (rx, ry) <- mul G k0;
    let k := if negb (Z.even ry) then n - k0 else k0 in
    do rxb <- bytes_from_int rx;
    let e := be_val (stag "BIP0340/challenge" (rxb ++ pxb ++ msg)) mod n in
    do sb <- bytes_from_int ((k + e * d) mod n);
    let sig := rxb ++ sb in
    match schnorr_verify msg pxb sig with
    | Some true => Some sig
    | _ => None
    end.
End Schnorr.
