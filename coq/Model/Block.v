(* Mirrors bitcoinutils/block.py: BlockHeader.from_raw (89-143), get_target_bits (203-221),
   serialize_header / get_block_hash (223-255), Block.from_raw (338-388);
   and bitcoinutils/utils.py get_transaction_length (246-301). *)
From Coq Require Import ZArith String List Bool.
From BU Require Import Lib.Bytes Gen.Tables Model.Varint Model.Script Model.Tx.
Import ListNotations.
Open Scope list_scope.
Open Scope Z_scope.

Record header := { h_version : Z; h_prev : bytes; h_merkle : bytes; h_time : Z; h_bits : Z; h_nonce : Z }.

(* struct.unpack("<I32s32sIII", rawdata); hashes reversed into display order *)
Definition header_from_raw (raw : bytes) : option header :=
  if negb (Nat.eqb (length raw) (Z.to_nat header_size)) then None
  else Some {| h_version := le_val (slice raw 0 4);
               h_prev := rev (slice raw 4 32);
               h_merkle := rev (slice raw 36 32);
               h_time := le_val (slice raw 68 4);
               h_bits := le_val (slice raw 72 4);
               h_nonce := le_val (slice raw 76 4) |}.

Definition serialize_header (h : header) : option bytes :=
  do v <- pack_u32 (h_version h);
  do t <- pack_u32 (h_time h);
  do b <- pack_u32 (h_bits h);
  do n <- pack_u32 (h_nonce h);
  Some (v ++ rev (h_prev h) ++ rev (h_merkle h) ++ t ++ b ++ n).

Section Hashed.
  Variable sha256 : bytes -> bytes.
  Definition get_block_hash (h : header) : option bytes :=
    option_map (fun b => rev (sha256 (sha256 b))) (serialize_header h).
End Hashed.

(* get_target_bits: coefficient << (8 * (exponent - 3)); a negative shift count raises *)
Definition get_target (h : header) : option Z :=
  let exponent := Z.shiftr (h_bits h) 24 in
  let coefficient := Z.land (h_bits h) 16777215 in
  if exponent <? 3 then None else Some (Z.shiftl coefficient (8 * (exponent - 3))).

(* ---- get_transaction_length: an independent scanner working with absolute offsets ---- *)
Definition pcs_at (data : bytes) (off : nat) : option (Z * nat) := parse_compact_size (skipn off data).

Fixpoint scan_inputs (data : bytes) (n : nat) (off : nat) : option nat :=
  match n with
  | O => Some off
  | S n' =>
      do (sl, sz) <- pcs_at data (off + 36);
      scan_inputs data n' (off + 36 + sz + Z.to_nat sl + 4)
  end.

Fixpoint scan_outputs (data : bytes) (n : nat) (off : nat) : option nat :=
  match n with
  | O => Some off
  | S n' =>
      do (sl, sz) <- pcs_at data (off + 8);
      scan_outputs data n' (off + 8 + sz + Z.to_nat sl)
  end.

Fixpoint scan_items (data : bytes) (n : nat) (off : nat) : option nat :=
  match n with
  | O => Some off
  | S n' =>
      do (wl, sz) <- pcs_at data off;
      scan_items data n' (off + sz + Z.to_nat wl)
  end.

Fixpoint scan_witnesses (data : bytes) (n : nat) (off : nat) : option nat :=
  match n with
  | O => Some off
  | S n' =>
      do (k, sz) <- pcs_at data off;
      do off' <- scan_items data (Z.to_nat k) (off + sz);
      scan_witnesses data n' off'
  end.

Definition get_transaction_length (data : bytes) : option nat :=
  (* marker, flag = data[4], data[5]: IndexError when shorter than 6 bytes *)
  match skipn 4 data with
  | marker :: flag :: _ =>
      let is_segwit := (marker =? 0) && negb (flag =? 0) in
      let off0 := if is_segwit then 6%nat else 4%nat in
      do (nin, sz) <- pcs_at data off0;
      do off1 <- scan_inputs data (Z.to_nat nin) (off0 + sz);
      do (nout, sz2) <- pcs_at data off1;
      do off2 <- scan_outputs data (Z.to_nat nout) (off1 + sz2);
      do off3 <- (if is_segwit then scan_witnesses data (Z.to_nat nin) off2 else Some off2);
      Some (off3 + 4)%nat
  | _ => None
  end.

(* ---- Block.from_raw ---- *)
Record block := { b_magic : bytes; b_size : Z; b_header : header; b_count : Z; b_txs : list tx }.

(* the for loop: any exception (scanner or parser) ends the loop silently and keeps the prefix *)
Fixpoint block_txs (n : nat) (data : bytes) : list tx :=
  match n with
  | O => []
  | S n' =>
      match get_transaction_length data with
      | None => []
      | Some len =>
          match tx_from_raw (firstn len data) with
          | None => []
          | Some t => t :: block_txs n' (skipn len data)
          end
      end
  end.

Definition block_from_raw (raw : bytes) : option block :=
  do sz <- unpack_le 4 (slice raw 4 4);
  do h <- header_from_raw (slice raw 8 80);
  do (cnt, k) <- parse_compact_size (skipn 88 raw);
  Some {| b_magic := firstn 4 raw; b_size := sz; b_header := h; b_count := cnt;
          b_txs := block_txs (Z.to_nat cnt) (skipn (88 + k) raw) |}.
