(* Mirrors bitcoinutils/keys.py: PrivateKey.__init__ / _from_bytes / _from_wif / to_wif (105-223),
   get_public_key (484-488), PublicKey.__init__ hex branch (555-610), to_hex / to_x_only_hex / is_y_even (645-704),
   _to_hash160 (819-830).  python-ecdsa (SigningKey.from_string / from_secret_exponent, VerifyingKey.from_string)
   and sympy.sqrt_mod are represented by their specifications. *)
From Coq Require Import ZArith String List Bool.
From BU Require Import Lib.Bytes Gen.Tables Model.Script Model.EC Model.Base58 Model.Ripemd160.
Import ListNotations.
Open Scope list_scope.
Open Scope Z_scope.

Definition obind {A B} (o : option A) (f : A -> option B) : option B :=
  match o with Some a => f a | None => None end.
Notation "'do' x <- o ; k" := (obind o (fun x => k)) (at level 200, x pattern, o at level 100, k at level 200).

Definition net_prefix (tbl : list (string * bytes)) (net : string) : option bytes := assoc_str net tbl.

Section Keys.
  Variable sha256 : bytes -> bytes.
  Variables (p n : Z) (add : point -> point -> point) (G : point).
  Variable sqrts : Z -> list Z.       (* sympy sqrt_mod(a, p, True) *)
  Let mul (P : point) (k : Z) : point := point_mul_with add P k.

  (* SigningKey.from_secret_exponent: 1 <= secexp < n *)
  Definition priv_from_exponent (e : Z) : option Z := if (1 <=? e) && (e <? n) then Some e else None.
  (* _from_bytes / SigningKey.from_string: exactly 32 bytes *)
  Definition priv_from_bytes (b : bytes) : option Z :=
    if negb (Nat.eqb (length b) 32) then None else priv_from_exponent (be_val b).

  Definition dsha4 (b : bytes) : bytes := firstn 4 (sha256 (sha256 b)).

  Definition priv_from_wif (net : string) (wif : bytes) : option Z :=
    do data <- b58decode wif;
    let key_bytes := firstn (length data - 4) data in
    let checksum := skipn (length data - 4) data in
    if negb (bytes_eqb checksum (dsha4 key_bytes)) then None else
    do pre <- net_prefix network_wif_prefixes net;
    if negb (bytes_eqb (firstn 1 key_bytes) pre) then None else
    let kb := skipn 1 key_bytes in
    if (32 <? length kb)%nat then priv_from_bytes (firstn (length kb - 1) kb) else priv_from_bytes kb.

  Definition priv_to_wif (net : string) (compressed : bool) (d : Z) : option bytes :=
    do pre <- net_prefix network_wif_prefixes net;
    do kb <- bytes_from_int d;
    let data := pre ++ kb ++ (if compressed then [1] else []) in
    Some (b58encode (data ++ dsha4 data)).

  (* PrivateKey(wif, secret_exponent, b) after the repair of D7: None means "argument not given";
     no argument at all creates a random key, which is outside the model (RandomKey) *)
  Inductive priv_result := PrivOk (d : Z) | PrivErr | PrivRandom.
  Definition priv_init (net : string) (wif : option bytes) (e : option Z) (b : option bytes) : priv_result :=
    match wif, b, e with
    | None, None, None => PrivRandom
    | Some w, _, _ => match priv_from_wif net w with Some d => PrivOk d | None => PrivErr end
    | None, Some bb, _ => match priv_from_bytes bb with Some d => PrivOk d | None => PrivErr end
    | None, None, Some ee => match priv_from_exponent ee with Some d => PrivOk d | None => PrivErr end
    end.

  Definition get_public_key (d : Z) : point := mul G d.

  (* VerifyingKey.from_string on 64 raw bytes: the point must lie on the curve *)
  Definition on_curve (x y : Z) : bool :=
    (0 <=? x) && (x <? p) && (0 <=? y) && (y <? p) && ((y * y - (x * x * x + 7)) mod p =? 0).
  Definition pub_from_raw64 (b : bytes) : option (Z * Z) :=
    if negb (Nat.eqb (length b) 64) then None else
    let x := be_val (firstn 32 b) in let y := be_val (skipn 32 b) in
    if on_curve x y then Some (x, y) else None.

  (* PublicKey(hex_str): the three length branches *)
  Definition pub_from_bytes (hb : bytes) : option (Z * Z) :=
    let len := length hb in
    if (33 <? len)%nat then pub_from_raw64 (skipn 1 hb)          (* the first byte is not looked at *)
    else if (31 <? len)%nat then
      let taproot := Nat.eqb len 32 in
      let first := nth 0 hb 0 in
      let x := be_val (if taproot then hb else skipn 1 hb) in
      match sqrts ((x ^ 3 + 7) mod p) with
      | [] => None                                               (* y_values[0]: IndexError *)
      | y0 :: rest =>
          let pick (want_even : bool) : option Z :=
            if Bool.eqb (Z.even y0) want_even then Some y0 else nth_error rest 0 in
          do y <- (if taproot || (first =? 2) then pick true
                   else if first =? 3 then pick false else None);
          if (0 <=? x) && (x <? 2 ^ 256) && (0 <=? y) && (y <? 2 ^ 256) then
            (if on_curve x y then Some (x, y) else None)
          else None
      end
    else None.                                                    (* no key is set: the object is unusable *)

  Definition pub_to_bytes (compressed : bool) (P : Z * Z) : option bytes :=
    do xb <- bytes_from_int (fst P); do yb <- bytes_from_int (snd P);
    Some (if compressed then (if Z.even (snd P) then 2 else 3) :: xb else 4 :: xb ++ yb).
  Definition pub_to_x_only (P : Z * Z) : option bytes := bytes_from_int (fst P).
  Definition is_y_even (P : Z * Z) : bool := Z.even (snd P).

  Definition hash160 (b : bytes) : bytes := ripemd160 (sha256 b).
  Definition pub_to_hash160 (compressed : bool) (P : Z * Z) : option bytes := option_map hash160 (pub_to_bytes compressed P).
End Keys.
