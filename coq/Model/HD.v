(* Mirrors bitcoinutils/hdwallet.py (38-77): a thin wrapper around the external `hdwallet` package, which is
   represented by an abstract state machine {root; current} over any child-key-derivation function. *)
From Coq Require Import ZArith String List Bool.
From BU Require Import Lib.Bytes Gen.Tables Model.Script.
Import ListNotations.
Open Scope list_scope.
Open Scope Z_scope.

Section HD.
  Variable key : Type.
  Variable ckd : key -> Z -> key.                  (* BIP32 CKDpriv for one index (hardened when >= 2^31) *)

  Definition derive (k : key) (path : list Z) : key := fold_left ckd path k.

  (* the package object: root key (from a mnemonic or an extended key) and the currently derived key *)
  Record pkg := { p_root : option key; p_cur : option key; p_mainnet : bool }.

  Definition pkg_new (mainnet : bool) : pkg := {| p_root := None; p_cur := None; p_mainnet := mainnet |}.
  Definition pkg_from_root (s : pkg) (r : key) : pkg := {| p_root := Some r; p_cur := Some r; p_mainnet := p_mainnet s |}.
  (* from_derivation extends from the CURRENT key *)
  Definition pkg_from_derivation (s : pkg) (path : list Z) : pkg :=
    {| p_root := p_root s; p_cur := option_map (fun k => derive k path) (p_cur s); p_mainnet := p_mainnet s |}.
  (* clean_derivation goes back to the root *)
  Definition pkg_clean (s : pkg) : pkg := {| p_root := p_root s; p_cur := p_root s; p_mainnet := p_mainnet s |}.

  (* HDWallet.__init__(xprivate_key, path, mnemonic): the `xprivate_key and path` guard *)
  Definition hd_init (is_mainnet : bool) (xprv : option key) (path : option (list Z)) (mnemonic_root : option key) : pkg :=
    let s0 := pkg_new is_mainnet in
    let s1 := match mnemonic_root with Some r => pkg_from_root s0 r | None => s0 end in
    match xprv, path with
    | Some x, Some p => pkg_from_derivation (pkg_from_root s1 x) p
    | _, _ => s1
    end.

  Definition hd_from_path (s : pkg) (path : list Z) : pkg := pkg_from_derivation (pkg_clean s) path.

  (* get_private_key: the package's WIF (version 0x80 for its mainnet, 0xef otherwise) is imported by
     PrivateKey on the configured network *)
  Definition pkg_wif_version (s : pkg) : bytes := if p_mainnet s then [128] else [239].
  Definition hd_get_private_key (net : string) (s : pkg) : option key :=
    match assoc_str net network_wif_prefixes with
    | Some pre => if bytes_eqb pre (pkg_wif_version s) then p_cur s else None      (* "Using the wrong network!" *)
    | None => None
    end.
End HD.

(* setup.is_mainnet() *)
Definition is_mainnet (net : string) : bool := String.eqb net "mainnet".
