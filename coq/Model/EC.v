(* Mirrors bitcoinutils/schnorr.py: point_add (53-65), point_mul (68-74), lift_x (89-96), has_even_y,
   bytes_from_int; parameters p, n, G come from the regenerated tables. *)
From Coq Require Import ZArith List Bool.
From BU Require Import Lib.Bytes Gen.Tables.
Import ListNotations.
Open Scope Z_scope.

Definition point := option (Z * Z).      (* None is the point at infinity *)

(* pow(b, e, m) by square and multiply over the bits of e *)
Fixpoint modpow_pos (b : Z) (e : positive) (m : Z) : Z :=
  match e with
  | xH => b mod m
  | xO e' => let r := modpow_pos b e' m in (r * r) mod m
  | xI e' => let r := modpow_pos b e' m in (((r * r) mod m) * b) mod m
  end.
Definition modpow (b e m : Z) : Z :=
  match e with
  | Z0 => 1 mod m
  | Zpos e' => modpow_pos b e' m
  | Zneg _ => 0            (* not used: the code only raises to p-2, (p+1)/4, 2, 3 *)
  end.

Section Curve.
  Variable p : Z.

  Definition point_add (P1 P2 : point) : point :=
    match P1, P2 with
    | None, _ => P2
    | _, None => P1
    | Some (x1, y1), Some (x2, y2) =>
        if (x1 =? x2) && negb (y1 =? y2) then None
        else
          let lam := if (x1 =? x2) && (y1 =? y2)
                     then (3 * x1 * x1 * modpow (2 * y1) (p - 2) p) mod p
                     else ((y2 - y1) * modpow (x2 - x1) (p - 2) p) mod p in
          let x3 := (lam * lam - x1 - x2) mod p in
          Some (x3, (lam * (x1 - x3) - y1) mod p)
    end.

  (* for i in range(256): if (n >> i) & 1: R = R + P ; P = P + P   -- over any addition *)
  Fixpoint mul_loop (add : point -> point -> point) (k : nat) (i : Z) (n : Z) (P R : point) : point :=
    match k with
    | O => R
    | S k' => mul_loop add k' (i + 1) n (add P P) (if Z.testbit n i then add R P else R)
    end.
  Definition point_mul_with (add : point -> point -> point) (P : point) (n : Z) : point := mul_loop add 256 0 n P None.
  Definition point_mul (P : point) (n : Z) : point := point_mul_with point_add P n.

  Definition lift_x (x : Z) : point :=
    if p <=? x then None
    else
      let y_sq := (modpow x 3 p + 7) mod p in
      let y := modpow y_sq ((p + 1) / 4) p in
      if negb (modpow y 2 p =? y_sq) then None
      else Some (x, if Z.even y then y else p - y).
End Curve.

Definition has_even_y (P : Z * Z) : bool := Z.even (snd P).
Definition secp_p : Z := schnorr_p.
Definition secp_n : Z := schnorr_n.
Definition secp_G : point := Some (schnorr_gx, schnorr_gy).
Definition bytes_from_int (x : Z) : option bytes :=        (* x.to_bytes(32, "big"): OverflowError outside 0..2^256-1 *)
  if (0 <=? x) && (x <? 2 ^ 256) then Some (be_bytes 32 x) else None.

(* sympy.sqrt_mod(a, p, True) for p = 3 mod 4: all square roots of a modulo p in ascending order
   (used to instantiate the `sqrts` parameter of the key / message models when they are extracted) *)
Definition sqrt_mod_list (p a : Z) : list Z :=
  let a' := a mod p in
  let y := modpow a' ((p + 1) / 4) p in
  if negb ((y * y) mod p =? a') then []
  else if y =? 0 then [0]
  else if y <? p - y then [y; p - y] else [p - y; y].
