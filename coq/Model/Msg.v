(* Mirrors bitcoinutils/utils.add_magic_prefix (345-356) and bitcoinutils/keys.py: sign_message (225-276),
   verify_message (714-799), verify (801-817), the recovery constructor PublicKey(message=, signature=)
   (611-635).  The external ECDSA primitives (python-ecdsa: RFC6979 nonce, verify_digest, key recovery,
   inverse_mod) and sympy.sqrt_mod are represented by their specifications over an abstract curve. *)
From Coq Require Import ZArith String List Bool.
From BU Require Import Lib.Bytes Model.Varint Model.EC Model.Sighash Model.Schnorr.
Import ListNotations.
Open Scope list_scope.
Open Scope Z_scope.

Definition magic_prefix : bytes := 24 :: str_bytes "Bitcoin Signed Message:" ++ [10].
  (* b"\x18Bitcoin Signed Message:\n" *)

(* message given as its UTF-8 bytes (after the repair of D11 the length is the byte length) *)
Definition add_magic_prefix (msg_utf8 : bytes) : option bytes :=
  option_map (fun sz => magic_prefix ++ sz ++ msg_utf8) (encode_varint (Z.of_nat (length msg_utf8))).

Section Msg.
  Variable sha256 : bytes -> bytes.
  Variables (p n : Z) (add : point -> point -> point) (G : point).
  Variable inv : Z -> Z.                       (* inverse modulo n (numbertheory.inverse_mod) *)
  Variable sqrts : Z -> list Z.                (* sympy sqrt_mod(a, p, True): all square roots of a mod p, ascending *)
  Let mul (P : point) (k : Z) : point := point_mul_with add P k.

  Definition message_digest (msg_utf8 : bytes) : option bytes :=
    option_map (fun m => sha256 (sha256 m)) (add_magic_prefix msg_utf8).

  (* VerifyingKey.verify_digest with sigdecode_string: textbook ECDSA verification *)
  Definition ecdsa_verify (Q : point) (e r s : Z) : bool :=
    if negb ((1 <=? r) && (r <? n) && (1 <=? s) && (s <? n)) then false
    else
      let w := inv s in
      match add (mul G ((e * w) mod n)) (mul Q ((r * w) mod n)) with
      | None => false
      | Some (x, _) => (x mod n) =? r
      end.

  (* the public key recovered in verify_message: Q = r^-1 (s R - e G), R = (x, y) with x = r + (recid/2) n
     and y the root of x^3 + 7 whose parity equals recid's *)
  Definition recover (e r s recid : Z) : option point :=
    let x := r + (recid / 2) * n in
    match sqrts ((x ^ 3 + 7) mod p) with
    | y0 :: rest =>
        let y := if (y0 - recid) mod 2 =? 0 then Some y0 else nth_error rest 0 in
        match y with
        | None => None                               (* y_values[1]: IndexError *)
        | Some y =>
            let R := Some (x, y) in
            Some (mul (add (mul R s) (mul G ((- e) mod n))) (inv r))
        end
    | [] => None                                     (* y_values[0]: IndexError / None: TypeError *)
    end.

  (* verify_message: [addr_of compressed Q] is the P2PKH address string of the key *)
  Definition verify_message (addr_of : bool -> Z * Z -> bytes) (address : bytes) (sig : bytes) (msg_utf8 : bytes) : option bool :=
    if negb (Nat.eqb (length sig) 65) then None else
    match sig with
    | prefix :: rs =>
        if (prefix <? 27) || (35 <? prefix) then Some false else
        let compressed := 31 <=? prefix in
        let recid := if compressed then prefix - 31 else prefix - 27 in
        do dg <- message_digest msg_utf8;
        let r := be_val (firstn 32 rs) in let s := be_val (skipn 32 rs) in
        let e := be_val dg in
        do Q <- recover e r s recid;
        match Q with
        | None => None                                 (* from_public_point on infinity raises *)
        | Some q =>
            if negb (ecdsa_verify Q e r s) then Some false
            else Some (bytes_eqb (addr_of compressed q) address)
        end
    | [] => None
    end.

  (* sign_message: (r, s) come from the external deterministic signer; the header search *)
  Definition sign_message (addr_of : bool -> Z * Z -> bytes) (pub : Z * Z) (r s : Z) (msg_utf8 : bytes) (compressed : bool)
    : option bytes :=
    do rb <- bytes_from_int r; do sb <- bytes_from_int s;
    let address := addr_of compressed pub in
    let prefix := if compressed then 31 else 27 in
    let try (i : Z) := match verify_message addr_of address (i :: rb ++ sb) msg_utf8 with
                       | Some true => true | _ => false end in
    if try prefix then Some (prefix :: rb ++ sb)
    else if try (prefix + 1) then Some ((prefix + 1) :: rb ++ sb)
    else if try (prefix + 2) then Some ((prefix + 2) :: rb ++ sb)
    else if try (prefix + 3) then Some ((prefix + 3) :: rb ++ sb)
    else None.

  (* PublicKey(message=, signature=): after the repair of D13 headers 27..34, recovery id (h - 27) mod 4.
     For ids 0, 1 python-ecdsa's from_public_key_recovery_with_digest lists the two candidates with R.x = r so
     that index recid is the key recovered from R with that id; ids 2, 3 (R.x = r + n) are computed by the
     library itself since the repair of D14, the way verify_message does *)
  Definition recover_pubkey (msg_utf8 sig : bytes) : option point :=
    if Nat.eqb (length msg_utf8) 0 then None else
    if negb (Nat.eqb (length sig) 65) then None else
    match sig with
    | h :: rs =>
        if negb ((27 <=? h) && (h <=? 34)) then None else
        do dg <- message_digest msg_utf8;
        let e := be_val dg in let r := be_val (firstn 32 rs) in let s := be_val (skipn 32 rs) in
        let recid := (h - 27) mod 4 in
        if recid <? 2 then recover e r s recid
        else if p <=? r + n then None                    (* D14 repair: R.x = r + n must be a field element ... *)
        else match recover e r s recid with              (* ... and the recovered key must verify (verify_digest raises otherwise) *)
             | Some Q => if ecdsa_verify Q e r s then Some Q else None
             | None => None
             end
    | [] => None
    end.
End Msg.
