(* Mirrors bitcoinutils/keys.py: Address (900-1072), P2pkhAddress / P2shAddress (1075-1131),
   SegwitAddress (1170-1287), P2wpkhAddress / P2wshAddress / P2trAddress (1290-1404),
   and script.py to_p2sh_script_pub_key / to_p2wsh_script_pub_key (422-438). *)
From Coq Require Import ZArith String List Bool.
From BU Require Import Lib.Bytes Gen.Tables Model.Script Model.Base58 Model.Bech32 Model.Ripemd160 Model.Keys.
Import ListNotations.
Open Scope list_scope.
Open Scope Z_scope.

Inductive addr_type := P2PKH | P2SH.
Inductive seg_type := P2WPKH | P2WSH | P2TR.

Definition version_prefix (ty : addr_type) (net : string) : option bytes :=
  match ty with
  | P2PKH => assoc_str net network_p2pkh_prefixes
  | P2SH => assoc_str net network_p2sh_prefixes
  end.

Section Address.
  Variable sha256 : bytes -> bytes.
  Let dsha4 := dsha4 sha256.
  Let hash160 := hash160 sha256.

  (* the regular expression [^1-9A-HJ-NP-Za-km-z]: any character outside the Base58 alphabet *)
  Definition all_b58 (s : bytes) : bool :=
    forallb (fun c => match index_of c b58_charset with Some _ => true | None => false end) s.

  (* Address._is_address_valid (after the repair of D8) *)
  Definition is_address_valid (ty : addr_type) (net : string) (s : bytes) : bool :=
    if negb (all_b58 s) then false
    else if (length s <? 26)%nat || (35 <? length s)%nat then false
    else match b58decode s, version_prefix ty net with
         | Some dc, Some pre =>
             let data := firstn (length dc - 4) dc in
             let checksum := skipn (length dc - 4) dc in
             if negb (Nat.eqb (length dc) 25) then false
             else if negb (bytes_eqb (firstn 1 dc) pre) then false
             else bytes_eqb (firstn 4 (sha256 (sha256 data))) checksum
         | _, _ => false
         end.

  (* _address_to_hash160: data_checksum[1:-4] *)
  Definition address_to_hash160 (s : bytes) : option bytes :=
    option_map (fun dc => firstn (length dc - 5) (skipn 1 dc)) (b58decode s).

  Definition address_from_string (ty : addr_type) (net : string) (s : bytes) : option bytes :=
    if is_address_valid ty net s then address_to_hash160 s else None.

  (* to_string: Base58Check(version || hash160) *)
  Definition address_to_string (ty : addr_type) (net : string) (h : bytes) : option bytes :=
    option_map (fun pre => let data := pre ++ h in b58encode (data ++ dsha4 data)) (version_prefix ty net).

  Definition script_to_hash160 (s : list tok) : option bytes := option_map hash160 (to_bytes s).
  Definition script_to_sha256 (s : list tok) : option bytes := option_map sha256 (to_bytes s).

  (* to_script_pub_key of the five address types *)
  Definition spk_p2pkh (h : bytes) : list tok := [TOp "OP_DUP"; TOp "OP_HASH160"; TData h; TOp "OP_EQUALVERIFY"; TOp "OP_CHECKSIG"].
  Definition spk_p2sh (h : bytes) : list tok := [TOp "OP_HASH160"; TData h; TOp "OP_EQUAL"].
  Definition spk_segwit (ty : seg_type) (prog : bytes) : list tok :=
    match ty with
    | P2WPKH | P2WSH => [TOp "OP_0"; TData prog]
    | P2TR => [TOp "OP_1"; TData prog]
    end.

  Definition seg_version (ty : seg_type) : Z := match ty with P2TR => 1 | _ => 0 end.
  Definition hrp_of (net : string) : option bytes := assoc_str net network_segwit_prefixes.

  (* SegwitAddress.to_string / _address_to_hash *)
  Definition segwit_to_string (ty : seg_type) (net : string) (prog : bytes) : option bytes :=
    match hrp_of net with Some hrp => segwit_encode hrp (seg_version ty) prog | None => None end.
  Definition segwit_from_string (ty : seg_type) (net : string) (s : bytes) : option bytes :=
    match hrp_of net with
    | None => None
    | Some hrp => match segwit_decode hrp s with
                  | Some (v, prog) => if v =? seg_version ty then Some prog else None
                  | None => None
                  end
    end.
End Address.
