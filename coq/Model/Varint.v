(* Mirrors bitcoinutils/utils.py: encode_varint (212-228), parse_compact_size (231-243),
   vi_to_int (326-342), prepend_compact_size (204-209), to_satoshis (195-201). *)
From Coq Require Import ZArith List Bool.
From BU Require Import Lib.Bytes.
Import ListNotations.
Open Scope Z_scope.

(* bytes([i]) raises for i < 0, so negative input is an error as well *)
Definition encode_varint (i : Z) : option bytes :=
  if i <? 0 then None
  else if i <? 253 then Some [i]
  else if i <? 65536 then Some (253 :: le_bytes 2 i)
  else if i <? 4294967296 then Some (254 :: le_bytes 4 i)
  else if i <? 18446744073709551616 then Some (255 :: le_bytes 8 i)
  else None.

(* struct.unpack("<H", data[1:3]) raises when fewer than 2 bytes remain *)
Definition unpack_le (k : nat) (t : bytes) : option Z :=
  let f := firstn k t in
  if Nat.eqb (length f) k then Some (le_val f) else None.

Definition parse_compact_size (data : bytes) : option (Z * nat) :=
  match data with
  | [] => None
  | b :: t =>
      if b <? 253 then Some (b, 1%nat)
      else if b =? 253 then option_map (fun v => (v, 3%nat)) (unpack_le 2 t)
      else if b =? 254 then option_map (fun v => (v, 5%nat)) (unpack_le 4 t)
      else if b =? 255 then option_map (fun v => (v, 9%nat)) (unpack_le 8 t)
      else None  (* not a byte: Python falls off the if-chain and returns None *)
  end.

(* vi_to_int: truncated input is decoded silently from the bytes that are there *)
Definition vi_to_int (data : bytes) : option (Z * nat) :=
  match data with
  | [] => None
  | b :: t =>
      if b <? 253 then Some (b, 1%nat)
      else let size := if b =? 253 then 2%nat else if b =? 254 then 4%nat else 8%nat in
           Some (le_val (firstn size t), S size)
  end.

Definition prepend_compact_size (data : bytes) : option bytes :=
  option_map (fun v => v ++ data) (encode_varint (Z.of_nat (length data))).

(* to_satoshis on an int and on a Decimal c * 10^-e: int(round(num * 10^8)).
   Decimal arithmetic is exact here (context precision 28 digits); round() on a
   Decimal is round-half-even. *)
Definition round_half_even_div (a b : Z) : Z :=   (* b > 0 *)
  let q := a / b in let r := a mod b in
  if 2 * r <? b then q else if b <? 2 * r then q + 1 else if Z.even q then q else q + 1.

Definition to_satoshis_int (n : Z) : Z := n * 100000000.
Definition to_satoshis_dec (c : Z) (e : nat) : Z :=
  round_half_even_div (c * 100000000) (10 ^ Z.of_nat e).
