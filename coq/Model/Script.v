(* Mirrors bitcoinutils/script.py: OP_CODES/CODE_OPS lookups, Script._op_push_data (285-308),
   Script._push_integer (310-330), Script.to_bytes (332-355), Script.from_raw (361-416). *)
From Coq Require Import ZArith String List Bool.
From BU Require Import Lib.Bytes Gen.Tables Model.Varint.
Import ListNotations.
Open Scope list_scope.
Open Scope Z_scope.

(* A Python script element: an opcode name (str found in OP_CODES), an int, or hex data (str). *)
Inductive tok :=
| TOp (name : string)
| TInt (n : Z)
| TData (d : bytes).

Fixpoint assoc_str {A} (k : string) (l : list (string * A)) : option A :=
  match l with
  | [] => None
  | (k', v) :: t => if String.eqb k k' then Some v else assoc_str k t
  end.

Fixpoint assoc_bytes {A} (k : bytes) (l : list (bytes * A)) : option A :=
  match l with
  | [] => None
  | (k', v) :: t => if bytes_eqb k k' then Some v else assoc_bytes k t
  end.

(* token in OP_CODES ; OP_CODES[token] *)
Definition op_lookup (name : string) : option bytes := assoc_str name op_codes.
(* bytes([byte]) in CODE_OPS ; CODE_OPS[bytes([byte])] *)
Definition code_lookup (b : Z) : option string := assoc_bytes [b] code_ops.

(* "OP_" + str(token) for 0 <= token <= 16 *)
Definition small_int_name (n : Z) : string :=
  nth (Z.to_nat n)
    ["OP_0"; "OP_1"; "OP_2"; "OP_3"; "OP_4"; "OP_5"; "OP_6"; "OP_7"; "OP_8"; "OP_9"; "OP_10";
     "OP_11"; "OP_12"; "OP_13"; "OP_14"; "OP_15"; "OP_16"]%string ""%string.

Definition op_push_data (d : bytes) : option bytes :=
  let len := Z.of_nat (length d) in
  if len <? 76 then Some (len :: d)
  else if len <=? 255 then Some (76 :: len :: d)
  else if len <=? 65535 then Some (77 :: le_bytes 2 len ++ d)
  else if len <? 4294967295 then Some (78 :: le_bytes 4 len ++ d)
  else None.

(* the little-endian magnitude plus a 0x00 sign byte when the top bit is set *)
Definition push_integer_payload (n : Z) : bytes :=
  let nb := nbytes n in
  let ib := le_bytes nb n in
  if Z.eqb (Z.land n (Z.shiftl 1 (Z.of_nat nb * 8 - 1))) 0 then ib else ib ++ [0].

Definition push_integer (n : Z) : option bytes :=
  (* n = 0 raises too: number_of_bytes is 0 and `1 << -1` is a ValueError (Script.to_bytes never sends 0..16 here) *)
  if n <=? 0 then None else op_push_data (push_integer_payload n).

Definition tok_to_bytes (t : tok) : option bytes :=
  match t with
  | TOp name => op_lookup name
  | TInt n => if (0 <=? n) && (n <=? 16) then op_lookup (small_int_name n) else push_integer n
  | TData d => op_push_data d
  end.

Fixpoint to_bytes (ts : list tok) : option bytes :=
  match ts with
  | [] => Some []
  | t :: r =>
      match tok_to_bytes t, to_bytes r with
      | Some a, Some b => Some (a ++ b)
      | _, _ => None
      end
  end.

(* One iteration of the while loop of from_raw on the unread suffix [b :: t]:
   returns the appended command (if any) and the new unread suffix. *)
Definition from_raw_step (b : Z) (t : bytes) : option tok * bytes :=
  match code_lookup b with
  | Some name =>
      if b =? 76 then
        let n := Z.to_nat (le_val (firstn 1 t)) in (Some (TData (firstn n (skipn 1 t))), skipn (1 + n) t)
      else if b =? 77 then
        let n := Z.to_nat (le_val (firstn 2 t)) in (Some (TData (firstn n (skipn 2 t))), skipn (2 + n) t)
      else if b =? 78 then
        let n := Z.to_nat (le_val (firstn 4 t)) in (Some (TData (firstn n (skipn 4 t))), skipn (4 + n) t)
      else (Some (TOp name), t)
  | None =>
      match vi_to_int (firstn 8 (b :: t)) with
      | Some (dsz, size) =>
          (Some (TData (firstn (Z.to_nat dsz) (skipn size (b :: t)))), skipn (Z.to_nat dsz + size) (b :: t))
      | None => (None, t)
      end
  end.

Fixpoint from_raw_fuel (fuel : nat) (raw : bytes) : list tok :=
  match fuel with
  | O => []
  | S f =>
      match raw with
      | [] => []
      | b :: t =>
          let '(c, rest) := from_raw_step b t in
          match c with
          | Some c => c :: from_raw_fuel f rest
          | None => from_raw_fuel f rest
          end
      end
  end.

(* has_segwit is accepted and (since the repair of D2) ignored, as in the code *)
Definition from_raw (raw : bytes) (has_segwit : bool) : list tok := from_raw_fuel (length raw) raw.

(* Script.to_p2sh_script_pub_key / to_p2wsh_script_pub_key with the hashes as parameters *)
Definition to_p2sh_script_pub_key (hash160 : bytes -> bytes) (ts : list tok) : option (list tok) :=
  option_map (fun b => [TOp "OP_HASH160"; TData (hash160 b); TOp "OP_EQUAL"]) (to_bytes ts).
Definition to_p2wsh_script_pub_key (sha256 : bytes -> bytes) (ts : list tok) : option (list tok) :=
  option_map (fun b => [TOp "OP_0"; TData (sha256 b)]) (to_bytes ts).
