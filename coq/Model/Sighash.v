(* Mirrors bitcoinutils/transactions.py: get_transaction_digest (623-726),
   get_transaction_segwit_digest (728-844), get_transaction_taproot_digest (848-1022),
   and utils.tagged_hash (359-371). *)
From Coq Require Import ZArith String Ascii List Bool.
From BU Require Import Lib.Bytes Gen.Tables Model.Varint Model.Script Model.Tx.
Import ListNotations.
Open Scope list_scope.
Open Scope Z_scope.

Definition str_bytes (s : string) : bytes := map (fun c => Z.of_nat (nat_of_ascii c)) (list_ascii_of_string s).

Fixpoint replace_nth {A} (l : list A) (i : nat) (f : A -> A) : list A :=
  match l, i with
  | [], _ => []
  | x :: r, O => f x :: r
  | x :: r, S i' => x :: replace_nth r i' f
  end.

Fixpoint mapi_from {A B} (k : nat) (f : nat -> A -> B) (l : list A) : list B :=
  match l with
  | [] => []
  | x :: r => f k x :: mapi_from (S k) f r
  end.
Definition mapi {A B} (f : nat -> A -> B) (l : list A) : list B := mapi_from 0 f l.

Definition set_script (s : list tok) (i : txin) : txin :=
  {| ti_txid := ti_txid i; ti_vout := ti_vout i; ti_script := s; ti_seq := ti_seq i |}.
Definition set_seq (q : bytes) (i : txin) : txin :=
  {| ti_txid := ti_txid i; ti_vout := ti_vout i; ti_script := ti_script i; ti_seq := q |}.

Definition zero_other_seqs (i : nat) (ins : list txin) : list txin :=
  mapi (fun k x => if Nat.eqb k i then x else set_seq empty_tx_sequence x) ins.

Section Digests.
  Variable sha256 : bytes -> bytes.
  Let dsha (b : bytes) := sha256 (sha256 b).

  Definition tagged_hash (data : bytes) (tag : string) : bytes :=
    let td := sha256 (str_bytes tag) in sha256 (td ++ td ++ data).

  (* ---------------- legacy ---------------- *)
  Definition legacy_preimage (t : tx) (i : nat) (script : list tok) (ht : Z) : option bytes :=
    let tmp := tx_copy t in
    let ins0 := map (set_script []) (tx_inputs tmp) in
    if negb (i <? length ins0)%nat then None else        (* tmp_tx.inputs[txin_index]: IndexError *)
    let ins1 := replace_nth ins0 i (set_script script) in
    let base := Z.land ht 31 in
    do (ins2, outs2) <-
      (if base =? sighash_none then Some (zero_other_seqs i ins1, [])
       else if base =? sighash_single then
         (if (length (tx_outputs tmp) <=? i)%nat then None       (* the library refuses *)
          else
            do txo <- nth_error (tx_outputs tmp) i;
            Some (zero_other_seqs i ins1,
                  repeat {| to_amount := negative_satoshi; to_script := [] |} i ++ [txo]))
       else Some (ins1, tx_outputs tmp));
    do ins3 <- (if Z.eqb (Z.land ht sighash_anyonecanpay) 0 then Some ins2
                else option_map (fun x => [x]) (nth_error ins2 i));
    let tmp2 := {| tx_version := tx_version tmp; tx_inputs := ins3; tx_outputs := outs2;
                   tx_locktime := tx_locktime tmp; tx_segwit := tx_segwit tmp; tx_witnesses := tx_witnesses tmp |} in
    do body <- tx_to_bytes tmp2 false;
    do h <- pack_i32 ht;
    Some (body ++ h).

  Definition legacy_digest (t : tx) (i : nat) (script : list tok) (ht : Z) : option bytes :=
    option_map dsha (legacy_preimage t i script ht).

  (* ---------------- segwit v0 ---------------- *)
  Definition outpoint_bytes (x : txin) : option bytes :=
    do vo <- pack_u32 (ti_vout x); Some (rev (ti_txid x) ++ vo).

  Definition out_bytes_signed (o : txout) : option bytes :=
    do am <- pack_i64 (to_amount o);
    do sb <- to_bytes (to_script o);
    do ln <- encode_varint (Z.of_nat (length sb));
    Some (am ++ ln ++ sb).

  Definition zeros32 : bytes := repeat 0 32.

  Definition segwit_preimage (t : tx) (i : nat) (script : list tok) (amount : Z) (ht : Z) : option bytes :=
    let base := Z.land ht 31 in
    let acp := Z.eqb (Z.land ht 240) sighash_anyonecanpay in
    let sign_all := negb (base =? sighash_single) && negb (base =? sighash_none) in
    do hp <- (if negb acp then option_map dsha (concat_opt outpoint_bytes (tx_inputs t)) else Some zeros32);
    let hs := if negb acp && sign_all then dsha (concat (map ti_seq (tx_inputs t))) else zeros32 in
    do ho <- (if sign_all then option_map dsha (concat_opt out_bytes_signed (tx_outputs t))
              else if (base =? sighash_single) && (i <? length (tx_outputs t))%nat then
                do o <- nth_error (tx_outputs t) i; option_map dsha (out_bytes_signed o)
              else Some zeros32);
    do x <- nth_error (tx_inputs t) i;
    do op <- outpoint_bytes x;
    do sc <- to_bytes script;
    do ln <- encode_varint (Z.of_nat (length sc));
    do am <- pack_i64 amount;
    do h <- pack_i32 ht;
    Some (tx_version t ++ hp ++ hs ++ op ++ ln ++ sc ++ am ++ ti_seq x ++ ho ++ tx_locktime t ++ h).

  Definition segwit_digest (t : tx) (i : nat) (script : list tok) (amount : Z) (ht : Z) : option bytes :=
    option_map dsha (segwit_preimage t i script amount ht).

  (* ---------------- taproot ---------------- *)
  Definition byte1 (n : Z) : option bytes := if (0 <=? n) && (n <? 256) then Some [n] else None.  (* bytes([n]) *)
  Definition amount8 (a : Z) : option bytes := pack_u64 a.                                      (* a.to_bytes(8, "little") *)

  Definition spk_bytes (s : list tok) : option bytes :=
    do sb <- to_bytes s; do ln <- encode_varint (Z.of_nat (length sb)); Some (ln ++ sb).

  Definition out_bytes_unsigned (o : txout) : option bytes :=
    do am <- pack_u64 (to_amount o);
    do sb <- to_bytes (to_script o);
    do ln <- encode_varint (Z.of_nat (length sb));
    Some (am ++ ln ++ sb).

  Definition taproot_sigmsg (t : tx) (i : nat) (spks : list (list tok)) (amounts : list Z)
             (ext_flag : Z) (script : list tok) (ht : Z) : option bytes :=
    let none := Z.eqb (Z.land ht 3) sighash_none in
    let single := Z.eqb (Z.land ht 3) sighash_single in
    let acp := Z.eqb (Z.land ht 128) sighash_anyonecanpay in
    do hb <- byte1 ht;
    do part_inputs <-
      (if negb acp then
         do pv <- concat_opt outpoint_bytes (tx_inputs t);
         do am <- concat_opt amount8 amounts;
         do sp <- concat_opt spk_bytes spks;
         Some (sha256 pv ++ sha256 am ++ sha256 sp ++ sha256 (concat (map ti_seq (tx_inputs t))))
       else Some []);
    do part_outputs <-
      (if negb (none || single) then option_map sha256 (concat_opt out_bytes_unsigned (tx_outputs t)) else Some []);
    do spend <- byte1 (ext_flag * 2 + 0);
    do part_this <-
      (if acp then
         do x <- nth_error (tx_inputs t) i;
         do op <- outpoint_bytes x;
         do a <- nth_error amounts i;
         do ab <- amount8 a;
         do s <- nth_error spks i;
         do sb <- spk_bytes s;
         Some (op ++ ab ++ sb ++ ti_seq x)
       else pack_u32 (Z.of_nat i));
    do part_single <-
      (if single then do o <- nth_error (tx_outputs t) i; option_map sha256 (out_bytes_unsigned o) else Some []);
    do part_ext <-
      (if ext_flag =? 1 then
         do lv <- byte1 leaf_version_tapscript;
         do sb <- to_bytes script;
         do ps <- prepend_compact_size sb;
         Some (tagged_hash (lv ++ ps) "TapLeaf" ++ [0] ++ [255; 255; 255; 255])
       else Some []);
    Some ([0] ++ hb ++ tx_version t ++ tx_locktime t ++ part_inputs ++ part_outputs ++ spend ++ part_this
          ++ part_single ++ part_ext).

  Definition taproot_digest (t : tx) (i : nat) (spks : list (list tok)) (amounts : list Z)
             (ext_flag : Z) (script : list tok) (ht : Z) : option bytes :=
    option_map (fun m => tagged_hash m "TapSighash") (taproot_sigmsg t i spks amounts ext_flag script ht).
End Digests.
